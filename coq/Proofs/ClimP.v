(* Proofs about the command-line-tool model (Model/Clim.v): C19. *)
From AsconV Require Import Model.Clim.
From Coq Require Import ZArith Lia.
Local Open Scope nat_scope.

(* ---- byte strings, file system ----------------------------------------------- *)
Lemma beqb_refl a : beqb a a = true.
Proof. induction a as [|x a IH]; cbn [beqb]; [reflexivity|]. rewrite N.eqb_refl, IH. reflexivity. Qed.

Lemma beqb_eq a b : beqb a b = true <-> a = b.
Proof.
  revert b. induction a as [|x a IH]; intros [|y b]; cbn [beqb]; split; intro H; try reflexivity; try discriminate.
  - apply andb_true_iff in H. destruct H as [H1 H2]. apply N.eqb_eq in H1. apply IH in H2. subst. reflexivity.
  - inversion H; subst. rewrite N.eqb_refl. cbn. apply IH. reflexivity.
Qed.

Lemma beqb_neq a b : a <> b -> beqb a b = false.
Proof. intro H. destruct (beqb a b) eqn:E; [|reflexivity]. apply beqb_eq in E. contradiction. Qed.

Lemma fs_get_del_same fs p : fs_get (fs_del fs p) p = None.
Proof.
  induction fs as [|[q c] fs IH]; cbn [fs_del fs_get]; [reflexivity|].
  destruct (beqb q p) eqn:E; [exact IH|]. cbn [fs_get]. rewrite E. exact IH.
Qed.

Lemma fs_get_del_other fs p q : p <> q -> fs_get (fs_del fs p) q = fs_get fs q.
Proof.
  intro N. induction fs as [|[r c] fs IH]; cbn [fs_del fs_get]; [reflexivity|].
  destruct (beqb r p) eqn:E.
  - apply beqb_eq in E. subst r. rewrite (beqb_neq p q N). exact IH.
  - cbn [fs_get]. destruct (beqb r q); [reflexivity|exact IH].
Qed.

Lemma fs_get_set_same fs p c : fs_get (fs_set fs p c) p = Some c.
Proof. unfold fs_set. cbn [fs_get]. rewrite beqb_refl. reflexivity. Qed.

Lemma fs_get_set_other fs p q c : p <> q -> fs_get (fs_set fs p c) q = fs_get fs q.
Proof. intro N. unfold fs_set. cbn [fs_get]. rewrite (beqb_neq p q N). apply fs_get_del_other. exact N. Qed.

Lemma fs_del_del fs p : fs_del (fs_del fs p) p = fs_del fs p.
Proof.
  induction fs as [|[q c] fs IH]; cbn [fs_del]; [reflexivity|].
  destruct (beqb q p) eqn:E; [exact IH|]. cbn [fs_del]. rewrite E, IH. reflexivity.
Qed.

Lemma fs_set_set fs p a b : fs_set (fs_set fs p a) p b = fs_set fs p b.
Proof. unfold fs_set. cbn [fs_del]. rewrite beqb_refl, fs_del_del. reflexivity. Qed.

(* ---- lists ------------------------------------------------------------------ *)
Lemma firstn_split_len (A : Type) (m len : nat) (l : list A) : m <= len ->
  firstn len l = firstn m l ++ firstn (len - length (firstn m l)) (skipn (length (firstn m l)) l).
Proof.
  intro H. rewrite firstn_length. destruct (Nat.le_gt_cases m (length l)) as [L|L].
  - rewrite Nat.min_l by exact L.
    rewrite <- (firstn_skipn m l) at 1. rewrite firstn_app, firstn_length, Nat.min_l by exact L.
    rewrite firstn_firstn, Nat.min_r by lia. reflexivity.
  - rewrite Nat.min_r by lia. rewrite skipn_all. rewrite firstn_nil, app_nil_r.
    rewrite !firstn_all2 by lia. reflexivity.
Qed.

Lemma skipn_skipn' (A : Type) (a b : nat) (l : list A) : skipn a (skipn b l) = skipn (b + a) l.
Proof. revert l. induction b as [|b IH]; intro l; [reflexivity|]. destruct l; [rewrite !skipn_nil; reflexivity|]. cbn. apply IH. Qed.

Lemma firstn_app_2' (A : Type) (l1 l2 : list A) m k : length l1 = m -> firstn (m + k) (l1 ++ l2) = l1 ++ firstn k l2.
Proof. intro H. subst m. apply firstn_app_2. Qed.

Lemma firstn_nil_inv (A : Type) (m : nat) (l : list A) : firstn m l = [] -> m = 0 \/ l = [].
Proof. destruct m; [left; reflexivity|]. destruct l; [right; reflexivity|]. cbn. discriminate. Qed.

(* ---- worlds ----------------------------------------------------------------- *)
Notation W := Build_world.
Definition cont (fs : fsys) (p : path) : bytes := match fs_get fs p with Some c => c | None => [] end.

Lemma content_W fs er ou c fl p : content (W fs er ou c fl) p = cont fs p.
Proof. reflexivity. Qed.

Lemma cont_set_same fs p c : cont (fs_set fs p c) p = c.
Proof. unfold cont. rewrite fs_get_set_same. reflexivity. Qed.
Lemma cont_set_other fs p q c : p <> q -> cont (fs_set fs p c) q = cont fs q.
Proof. intro N. unfold cont. rewrite fs_get_set_other by exact N. reflexivity. Qed.

(* an oracle under which no call fails; short transfers are allowed *)
Definition nofail (o : oracle) : Prop :=
  (forall k, o_open o k = false) /\ (forall k, o_read o k <> XFAIL) /\ (forall k, o_write o k <> XFAIL).

Section NoFail.
Variable o : oracle.
Variable cfg : config.
Hypothesis NF : nofail o.

Lemma sys_read_nf fs er ou c fl p off len :
  exists m, m <= len /\ (0 < len -> 0 < m) /\
  sys_read o (W fs er ou c fl) (p, off) len =
  (W fs er ou (cbump CRead c) fl, Some (firstn m (skipn off (cont fs p)))).
Proof.
  unfold sys_read. cbn [fst snd cget w_cnt bump w_fs w_err w_out w_flg]. rewrite content_W.
  destruct NF as (_ & NR & _). specialize (NR (n_read c)).
  destruct (o_read o (n_read c)) as [| |n] eqn:E.
  - exists len. repeat split; [lia|auto].
  - contradiction.
  - exists (Nat.min len (S n)). repeat split; [lia|lia].
Qed.

Lemma sfr_loop_nf fuel : forall fs er ou c fl p off acc len, len < fuel ->
  exists c', sfr_loop o fuel (W fs er ou c fl) (p, off) acc len =
  (W fs er ou c' fl, (p, off + length (firstn len (skipn off (cont fs p)))), Some (acc ++ firstn len (skipn off (cont fs p)))).
Proof.
  induction fuel as [|f IH]; intros fs er ou c fl p off acc len Hf; [lia|].
  cbn [sfr_loop]. destruct (sys_read_nf fs er ou c fl p off len) as (m & Hm & Hpos & E). rewrite E.
  set (rest := skipn off (cont fs p)) in *.
  destruct (firstn m rest) as [|x d0] eqn:Ed.
  - exists (cbump CRead c). apply firstn_nil_inv in Ed.
    assert (firstn len rest = []) as ->.
    { destruct Ed as [->| ->]; [|apply firstn_nil]. destruct len; [reflexivity|]. exfalso. lia. }
    cbn [length]. rewrite Nat.add_0_r, app_nil_r. reflexivity.
  - cbn [fst snd]. rewrite <- Ed.
    assert (Lpos : 0 < length (firstn m rest)) by (rewrite Ed; cbn [length]; lia).
    assert (Lle : length (firstn m rest) <= m) by (rewrite firstn_length; lia).
    destruct (IH fs er ou (cbump CRead c) fl p (off + length (firstn m rest)) (acc ++ firstn m rest)
                 (len - length (firstn m rest))) as (c' & E2); [lia|].
    rewrite E2. exists c'.
    assert (R : skipn (off + length (firstn m rest)) (cont fs p) = skipn (length (firstn m rest)) rest).
    { unfold rest. rewrite skipn_skipn'. reflexivity. }
    rewrite R. rewrite (firstn_split_len _ m len rest Hm).
    rewrite app_length, <- app_assoc, Nat.add_assoc. reflexivity.
Qed.

Lemma safe_file_read_nf fs er ou c fl p off len :
  exists c', safe_file_read o (W fs er ou c fl) (p, off) len =
  (W fs er ou c' fl, (p, off + length (firstn len (skipn off (cont fs p)))), Some (firstn len (skipn off (cont fs p)))).
Proof. unfold safe_file_read. destruct (sfr_loop_nf (S len) fs er ou c fl p off [] len) as (c' & E); [lia|]. exists c'. exact E. Qed.

Lemma sys_write_nf fs er ou c fl p d :
  exists m, (d <> [] -> 0 < m) /\
  sys_write o (W fs er ou c fl) p d =
  (W (fs_set fs p (cont fs p ++ firstn m d)) er ou (cbump CWrite c) fl, Some (length (firstn m d))).
Proof.
  unfold sys_write. cbn [cget w_cnt].
  destruct NF as (_ & _ & NW). specialize (NW (n_write c)).
  destruct (o_write o (n_write c)) as [| |n] eqn:E.
  - exists (length d). split; [destruct d; [congruence|cbn; lia]|]. rewrite firstn_all. reflexivity.
  - contradiction.
  - exists (S n). split; [lia|]. reflexivity.
Qed.

Lemma sfw_loop_nf fuel : forall fs er ou c fl p d res, length d < fuel ->
  exists c', sfw_loop cfg o fuel (W fs er ou c fl) p d res =
  (W (fs_set fs p (cont fs p ++ d)) er ou c' fl, Z.of_nat (res + length d)).
Proof.
  induction fuel as [|f IH]; intros fs er ou c fl p d res Hf; [lia|].
  cbn [sfw_loop]. destruct (sys_write_nf fs er ou c fl p d) as (m & Hpos & E). rewrite E.
  destruct (length (firstn m d)) as [|n] eqn:El.
  - exists (cbump CWrite c).
    assert (d = []) as ->.
    { destruct d as [|x d]; [reflexivity|]. exfalso. specialize (Hpos ltac:(discriminate)).
      destruct m; [lia|]. cbn in El. discriminate. }
    rewrite firstn_nil. cbn [length]. rewrite Nat.add_0_r. reflexivity.
  - rewrite <- El.
    assert (Lle : length (firstn m d) <= length d) by (rewrite firstn_length; lia).
    destruct (IH (fs_set fs p (cont fs p ++ firstn m d)) er ou (cbump CWrite c) fl p (skipn (length (firstn m d)) d)
                 (res + length (firstn m d))) as (c' & E2).
    { rewrite skipn_length. lia. }
    rewrite E2. exists c'. rewrite cont_set_same, fs_set_set, <- app_assoc.
    assert (firstn m d ++ skipn (length (firstn m d)) d = d) as ->.
    { rewrite firstn_length. destruct (Nat.le_gt_cases m (length d)).
      - rewrite Nat.min_l by lia. apply firstn_skipn.
      - rewrite Nat.min_r by lia. rewrite skipn_all, app_nil_r. apply firstn_all2. lia. }
    rewrite skipn_length. f_equal. f_equal. lia.
Qed.

Lemma safe_file_write_nf fs er ou c fl p d :
  exists c', safe_file_write cfg o (W fs er ou c fl) p d =
  (W (fs_set fs p (cont fs p ++ d)) er ou c' fl, Z.of_nat (length d)).
Proof. unfold safe_file_write. destruct (sfw_loop_nf (S (length d)) fs er ou c fl p d 0) as (c' & E); [lia|]. exists c'. exact E. Qed.

End NoFail.

(* ---- the cryptography: what the theorems assume about it ------------------------ *)
Fixpoint blocks (fuel n : nat) (l : bytes) : list bytes :=
  match fuel with
  | O => []
  | S f =>
    match firstn n l with
    | [] => []
    | d => d :: (if length d <? n then [] else blocks f n (skipn n l))
    end
  end.

Lemma concat_blocks fuel : forall n l, length l < fuel -> 0 < n -> concat (blocks fuel n l) = l.
Proof.
  induction fuel as [|f IH]; intros n l Hf Hn; [lia|]. cbn [blocks].
  destruct (firstn n l) as [|x d] eqn:E.
  - apply firstn_nil_inv in E. destruct E; [lia|subst; reflexivity].
  - rewrite <- E. cbn [concat]. destruct (length (firstn n l) <? n) eqn:L.
    + apply Nat.ltb_lt in L. rewrite firstn_length in L. cbn [concat]. rewrite app_nil_r. apply firstn_all2. lia.
    + apply Nat.ltb_ge in L. rewrite firstn_length in L. rewrite IH; [apply firstn_skipn| |exact Hn].
      rewrite skipn_length. lia.
Qed.

Section Crypto.
Variable pbkdf2 : bytes -> bytes -> bytes.
Variable siv_enc : bytes -> bytes -> bytes -> bytes -> bytes.
Variable siv_dec : bytes -> bytes -> bytes -> bytes -> option bytes.
Variable ast : Type.
Variable a_start : bytes -> bytes -> bytes -> ast.
Variable a_encb : ast -> bytes -> ast * bytes.
Variable a_encf : ast -> bytes.
Variable a_decb : ast -> bytes -> ast * bytes.
Variable a_decf : ast -> bytes -> bool.
(* the one-shot functions the incremental interface is specified against *)
Variable aenc : bytes -> bytes -> bytes -> bytes -> bytes.
Variable adec : bytes -> bytes -> bytes -> bytes -> option bytes.

Fixpoint run_encb (st : ast) (chunks : list bytes) : ast * bytes :=
  match chunks with
  | [] => (st, [])
  | d :: r => let '(st1, c) := a_encb st d in let '(st2, cs) := run_encb st1 r in (st2, c ++ cs)
  end.
Fixpoint run_decb (st : ast) (chunks : list bytes) : ast * bytes :=
  match chunks with
  | [] => (st, [])
  | d :: r => let '(st1, c) := a_decb st d in let '(st2, cs) := run_decb st1 r in (st2, c ++ cs)
  end.

Definition wfk (k n : bytes) : Prop := length k = 20 /\ length n = 16.

Record crypto_ok : Prop := {
  pbkdf2_len : forall pw salt, length (pbkdf2 pw salt) = 36;
  siv_len : forall k n ad m, wfk k n -> length (siv_enc k n ad m) = length m + 16;
  siv_exact : forall k n ad c m, wfk k n ->
      (siv_dec k n ad c = Some m <-> length c = length m + 16 /\ siv_enc k n ad m = c);
  aenc_len : forall k n ad m, wfk k n -> length (aenc k n ad m) = length m + 16;
  aead_exact : forall k n ad c m, wfk k n ->
      (adec k n ad c = Some m <-> length c = length m + 16 /\ aenc k n ad m = c);
  enc_run : forall k n ad chunks, wfk k n ->
      snd (run_encb (a_start k n ad) chunks) ++ a_encf (fst (run_encb (a_start k n ad) chunks)) = aenc k n ad (concat chunks);
  dec_run : forall k n ad chunks tag, wfk k n -> length tag = 16 ->
      (if a_decf (fst (run_decb (a_start k n ad) chunks)) tag then Some (snd (run_decb (a_start k n ad) chunks)) else None)
      = adec k n ad (concat chunks ++ tag);
  encb_len : forall st d, length (snd (a_encb st d)) = length d;
  decb_len : forall st d, length (snd (a_decb st d)) = length d
}.

Variable bufsiz : nat.
Variable cfg : config.
Variable o : oracle.

Notation enc_loop' := (enc_loop ast a_encb bufsiz cfg o).
Notation dec_loop' := (dec_loop ast a_decb bufsiz cfg o).
Notation encrypt_file' := (encrypt_file pbkdf2 siv_enc ast a_start a_encb a_encf bufsiz cfg o).
Notation decrypt_file' := (decrypt_file pbkdf2 siv_dec ast a_start a_decb a_decf bufsiz cfg o).

(* the image of an encrypted file *)
Definition enc_image (pw salt kn2 m : bytes) : bytes :=
  let header := hdr salt in
  let kn := pbkdf2 pw salt in
  let sivb := siv_enc (firstn 20 kn) (skipn 20 kn) header kn2 in
  header ++ sivb ++ aenc (firstn 20 kn2) (skipn 20 kn2) sivb m.

Lemma hdr_len salt : length (hdr salt) = 12 + length salt.
Proof. unfold hdr. rewrite !app_length. reflexivity. Qed.

Lemma wfk_split kn : length kn = 36 -> wfk (firstn 20 kn) (skipn 20 kn).
Proof. intro H. split; [rewrite firstn_length|rewrite skipn_length]; lia. Qed.

Lemma wfailed_pos n : 0 < n -> wfailed (Z.of_nat n) = false.
Proof. intro H. unfold wfailed. apply Z.eqb_neq. lia. Qed.

Section NoFail2.
Hypothesis CR : crypto_ok.
Hypothesis NF : nofail o.
Hypothesis BS : 16 < bufsiz.

Lemma enc_loop_nf fuel : forall fs0 er ou c fl inf out off st cin X,
  inf <> out -> fs_get fs0 inf = Some cin -> length (skipn off cin) < fuel ->
  exists c', enc_loop' fuel (W (fs_set fs0 out X) er ou c fl) (inf, off) out st true =
  (W (fs_set fs0 out (X ++ snd (run_encb st (blocks fuel bufsiz (skipn off cin))))) er ou c' fl,
   fst (run_encb st (blocks fuel bufsiz (skipn off cin))), true).
Proof.
  induction fuel as [|f IH]; intros fs0 er ou c fl inf out off st cin X Hne Hin Hf; [lia|].
  cbn [enc_loop negb].
  destruct (safe_file_read_nf o NF (fs_set fs0 out X) er ou c fl inf off bufsiz) as (c1 & E1). rewrite E1. clear E1.
  assert (Hc : cont (fs_set fs0 out X) inf = cin).
  { rewrite cont_set_other by congruence. unfold cont. rewrite Hin. reflexivity. }
  rewrite Hc. cbn [blocks]. set (rest := skipn off cin) in *.
  destruct (firstn bufsiz rest) as [|x d0] eqn:Ed.
  - exists c1. cbn [run_encb fst snd]. rewrite app_nil_r. reflexivity.
  - rewrite <- Ed. cbn [run_encb].
    pose proof (encb_len CR st (firstn bufsiz rest)) as Hlen.
    destruct (a_encb st (firstn bufsiz rest)) as [st1 cc] eqn:Eb. cbn [snd] in Hlen.
    destruct (safe_file_write_nf o cfg NF (fs_set fs0 out X) er ou c1 fl out cc) as (c2 & E2). rewrite E2. clear E2.
    rewrite cont_set_same, fs_set_set.
    rewrite wfailed_pos by (rewrite Hlen, Ed; cbn [length]; lia).
    destruct (length (firstn bufsiz rest) <? bufsiz) eqn:L.
    + exists c2. cbn [run_encb fst snd]. rewrite app_nil_r. reflexivity.
    + apply Nat.ltb_ge in L. rewrite firstn_length in L.
      assert (Lf : length (firstn bufsiz rest) = bufsiz) by (rewrite firstn_length; lia).
      rewrite Lf.
      destruct (IH fs0 er ou c2 fl inf out (off + bufsiz) st1 cin (X ++ cc) Hne Hin) as (c3 & E3).
      { rewrite <- skipn_skipn', skipn_length. fold rest. lia. }
      rewrite E3. exists c3. rewrite <- skipn_skipn'. fold rest.
      destruct (run_encb st1 (blocks f bufsiz (skipn bufsiz rest))) as [st2 cs]. cbn [fst snd].
      rewrite app_assoc. reflexivity.
Qed.


Ltac wred := unfold bump, mark, with_fs, add_err, add_out; cbn [w_fs w_err w_out w_cnt w_flg cget cbump n_open n_read n_write n_rand n_gets fst snd].

Lemma open_r_nf fs er ou c fl p cin : fs_get fs p = Some cin ->
  safe_open_r o (W fs er ou c fl) p = (W fs er ou (cbump COpen c) fl, Some (p, 0)).
Proof.
  intro H. unfold safe_open_r, sys_open_r. destruct NF as (NO & _ & _). wred. rewrite NO, H. reflexivity.
Qed.

Lemma open_w_nf fs er ou c fl p :
  safe_open_w o (W fs er ou c fl) p = (W (fs_set fs p []) er ou (cbump COpen c) fl, Some p).
Proof. unfold safe_open_w, sys_open_w. destruct NF as (NO & _ & _). wred. rewrite NO. reflexivity. Qed.

Lemma run_encb_len chunks : forall st, length (snd (run_encb st chunks)) = length (concat chunks).
Proof.
  induction chunks as [|d r IH]; intro st; [reflexivity|]. cbn [run_encb concat].
  pose proof (encb_len CR st d) as H. destruct (a_encb st d) as [st1 c0]. specialize (IH st1).
  destruct (run_encb st1 r) as [st2 cs]. cbn [snd] in *. rewrite !app_length. lia.
Qed.
Lemma run_decb_len chunks : forall st, length (snd (run_decb st chunks)) = length (concat chunks).
Proof.
  induction chunks as [|d r IH]; intro st; [reflexivity|]. cbn [run_decb concat].
  pose proof (decb_len CR st d) as H. destruct (a_decb st d) as [st1 c0]. specialize (IH st1).
  destruct (run_decb st1 r) as [st2 cs]. cbn [snd] in *. rewrite !app_length. lia.
Qed.

Ltac step_write cn :=
  match goal with
  | |- context[safe_file_write cfg o (W ?f ?e ?u ?c ?l) ?p ?d] =>
    let E := fresh "E" in destruct (safe_file_write_nf o cfg NF f e u c l p d) as (cn & E); rewrite E; clear E
  end.
Ltac step_read cn :=
  match goal with
  | |- context[safe_file_read o (W ?f ?e ?u ?c ?l) (?p, ?off) ?len] =>
    let E := fresh "E" in destruct (safe_file_read_nf o NF f e u c l p off len) as (cn & E); rewrite E; clear E
  end.

Lemma encrypt_file_nf pw fs er ou c fl inf outf cin salt kn2 :
  inf <> outf -> fs_get fs inf = Some cin ->
  o_rand o (n_rand c) 16 = Some salt -> o_rand o (S (n_rand c)) 36 = Some kn2 ->
  length salt = 16 -> length kn2 = 36 ->
  exists c', encrypt_file' pw (W fs er ou c fl) inf outf =
    (W (fs_set fs outf (enc_image pw salt kn2 cin)) er ou c' fl, true).
Proof.
  intros Hne Hin Hr1 Hr2 Ls Lk.
  unfold encrypt_file. rewrite content_W. unfold cont at 1. rewrite Hin.
  rewrite (open_r_nf _ _ _ _ _ _ _ Hin), open_w_nf.
  unfold sys_random. wred. rewrite Hr1. wred. rewrite Hr2.
  set (header := hdr salt). set (kn := pbkdf2 pw salt).
  set (sivb := siv_enc (firstn 20 kn) (skipn 20 kn) header kn2).
  assert (Lh : length header = 28) by (unfold header; rewrite hdr_len; lia).
  assert (Wkn : wfk (firstn 20 kn) (skipn 20 kn)) by (apply wfk_split, (pbkdf2_len CR)).
  assert (Lsv : length sivb = 52) by (unfold sivb; rewrite (siv_len CR) by exact Wkn; lia).
  step_write c1.
  rewrite wfailed_pos by lia. rewrite cont_set_same, fs_set_set. cbn [app].
  step_write c2.
  rewrite wfailed_pos by lia. rewrite cont_set_same, fs_set_set. cbn [negb].
  destruct (enc_loop_nf (S (length cin)) fs er ou c2 fl inf outf 0 (a_start (firstn 20 kn2) (skipn 20 kn2) sivb) cin
              (header ++ sivb) Hne Hin) as (c3 & E3); [change (skipn 0 cin) with cin; lia|].
  rewrite E3. clear E3. change (skipn 0 cin) with cin.
  pose proof (enc_run CR (firstn 20 kn2) (skipn 20 kn2) sivb (blocks (S (length cin)) bufsiz cin) (wfk_split kn2 Lk)) as ER.
  pose proof (run_encb_len (blocks (S (length cin)) bufsiz cin) (a_start (firstn 20 kn2) (skipn 20 kn2) sivb)) as RL.
  rewrite concat_blocks in ER, RL by lia.
  destruct (run_encb (a_start (firstn 20 kn2) (skipn 20 kn2) sivb) (blocks (S (length cin)) bufsiz cin)) as [st2 cs].
  cbn [fst snd] in *.
  assert (Lt : length (a_encf st2) = 16).
  { pose proof (aenc_len CR (firstn 20 kn2) (skipn 20 kn2) sivb cin (wfk_split kn2 Lk)) as LA.
    rewrite <- ER, app_length in LA. lia. }
  step_write c4.
  rewrite wfailed_pos by lia. rewrite cont_set_same, fs_set_set. cbn [negb finish].
  exists c4. unfold enc_image. fold header kn sivb. rewrite <- ER, <- !app_assoc. reflexivity.
Qed.


Lemma blocks_cons f n (chunk C1 : bytes) : chunk <> [] -> length chunk <= n -> (length chunk < n -> C1 = []) ->
  blocks (S f) n (chunk ++ C1) = chunk :: (if length chunk <? n then [] else blocks f n C1).
Proof.
  intros Hne Hle Hs. cbn [blocks].
  assert (F : firstn n (chunk ++ C1) = chunk).
  { destruct (Nat.eq_dec (length chunk) n) as [E|E].
    - rewrite <- E, firstn_app, Nat.sub_diag, firstn_all. cbn [firstn]. apply app_nil_r.
    - rewrite Hs by lia. rewrite app_nil_r. apply firstn_all2. lia. }
  rewrite F. destruct chunk as [|x ch]; [congruence|]. f_equal.
  destruct (length (x :: ch) <? n) eqn:L; [reflexivity|]. apply Nat.ltb_ge in L.
  assert (E : length (x :: ch) = n) by lia. rewrite <- E at 2. rewrite skipn_app, Nat.sub_diag, skipn_all. reflexivity.
Qed.

Lemma slide_split (buf R : bytes) n : 0 < n ->
  let d := firstn n R in let m := length d in let R1 := skipn n R in
  let chunk := firstn m (buf ++ d) in let X1 := skipn m (buf ++ d) ++ R1 in
  buf ++ R = chunk ++ X1 /\ length chunk = m /\ length R = m + length R1 /\ length (skipn m (buf ++ d)) = length buf /\
  (m < n -> R1 = []).
Proof.
  intros Hn d m R1 chunk X1.
  assert (Hm : m = Nat.min n (length R)) by (unfold m, d; apply firstn_length).
  repeat split.
  - unfold chunk, X1. rewrite app_assoc, firstn_skipn, <- app_assoc. unfold d, R1. rewrite firstn_skipn. reflexivity.
  - unfold chunk. rewrite firstn_length, app_length. fold m. lia.
  - unfold R1. rewrite skipn_length. lia.
  - rewrite skipn_length, app_length. fold m. lia.
  - intro L. unfold R1. apply skipn_all2. lia.
Qed.

Lemma dec_loop_nf fuel : forall fs0 er ou c fl inf out off st cin X buf,
  inf <> out -> fs_get fs0 inf = Some cin -> length (skipn off cin) < fuel -> length buf = 16 ->
  exists c', dec_loop' fuel (W (fs_set fs0 out X) er ou c fl) (inf, off) out st buf true =
   (W (fs_set fs0 out (X ++ snd (run_decb st (blocks fuel (bufsiz - 16)
                                               (firstn (length (skipn off cin)) (buf ++ skipn off cin))))))
      er ou c' fl,
    fst (run_decb st (blocks fuel (bufsiz - 16) (firstn (length (skipn off cin)) (buf ++ skipn off cin)))),
    skipn (length (skipn off cin)) (buf ++ skipn off cin), true).
Proof.
  induction fuel as [|f IH]; intros fs0 er ou c fl inf out off st cin X buf Hne Hin Hf Hb; [lia|].
  cbn [dec_loop negb]. step_read c1.
  assert (Hc : cont (fs_set fs0 out X) inf = cin).
  { rewrite cont_set_other by congruence. unfold cont. rewrite Hin. reflexivity. }
  rewrite Hc. set (R := skipn off cin) in *. set (n := bufsiz - 16) in *.
  assert (Hn : 0 < n) by (unfold n; lia).
  destruct (slide_split buf R n Hn) as (S1 & S2 & S3 & S4 & S5).
  destruct (firstn n R) as [|x d0] eqn:Ed.
  - exists c1. apply firstn_nil_inv in Ed. destruct Ed as [Ed|Ed]; [lia|]. rewrite Ed.
    cbn [length firstn skipn blocks]. rewrite firstn_nil. cbn [run_decb fst snd]. rewrite !app_nil_r. reflexivity.
  - rewrite <- Ed in *. set (d := firstn n R) in *. set (m := length d) in *.
    assert (Hmpos : 0 < m) by (unfold m; rewrite Ed; cbn [length]; lia).
    assert (Hmle : m <= n) by (unfold m, d; rewrite firstn_length; lia).
    set (chunk := firstn m (buf ++ d)) in *. set (buf1 := skipn m (buf ++ d)) in *. set (R1 := skipn n R) in *.
    assert (Cne : chunk <> []) by (intro Q; rewrite Q in S2; cbn [length] in S2; lia).
    rewrite S1, S3. rewrite firstn_app_2' by exact S2.
    assert (SK : skipn (m + length R1) (chunk ++ buf1 ++ R1) = skipn (length R1) (buf1 ++ R1)).
    { rewrite <- (skipn_skipn' _ (length R1) m). f_equal.
      rewrite skipn_app, S2, Nat.sub_diag, skipn_all2 by lia. reflexivity. }
    rewrite SK. clear SK.
    rewrite blocks_cons; [|exact Cne|lia|].
    2:{ intro L. rewrite S5 by lia. reflexivity. }
    rewrite S2. cbn [run_decb].
    pose proof (decb_len CR st chunk) as Hlen.
    destruct (a_decb st chunk) as [st1 pp] eqn:Eb. cbn [snd] in Hlen.
    step_write c2. rewrite cont_set_same, fs_set_set.
    rewrite wfailed_pos by lia.
    destruct (m <? n) eqn:L.
    + exists c2. cbn [run_decb fst snd]. rewrite app_nil_r. apply Nat.ltb_lt in L. rewrite (S5 L).
      cbn [length skipn]. rewrite app_nil_r. reflexivity.
    + apply Nat.ltb_ge in L. assert (Em : m = n) by lia.
      destruct (IH fs0 er ou c2 fl inf out (off + m) st1 cin (X ++ pp) buf1 Hne Hin) as (c3 & E3).
      { rewrite <- skipn_skipn'. fold R. rewrite Em. fold R1. lia. }
      { rewrite S4. exact Hb. }
      rewrite <- skipn_skipn' in E3. fold R in E3. rewrite Em in E3 at 2 3 4 5 6 7. fold R1 in E3.
      rewrite E3. exists c3.
      destruct (run_decb st1 (blocks f n (firstn (length R1) (buf1 ++ R1)))) as [st2 cs]. cbn [fst snd].
      rewrite app_assoc. reflexivity.
Qed.


(* what decrypt_file does with a file image f under password pw when no call fails *)
Definition dec_outcome (pw f : bytes) : bytes + emsg :=
  let h := firstn 80 f in
  if (length h =? 80) && beqb (firstn 12 h) (magic ++ version) then
    let header := firstn 28 h in
    let sivb := skipn 28 h in
    let kn := pbkdf2 pw (skipn 12 header) in
    match siv_dec (firstn 20 kn) (skipn 20 kn) header sivb with
    | None => inr EBadPassword
    | Some kn2 =>
      let S := skipn 80 f in
      if length S <? 16 then inr ETruncated
      else match adec (firstn 20 kn2) (skipn 20 kn2) sivb S with
           | Some m => inl m
           | None => inr ECorrupt
           end
    end
  else inr EBadFormat.

Lemma fs_del_set fs p c : fs_del (fs_set fs p c) p = fs_del fs p.
Proof. unfold fs_set. cbn [fs_del]. rewrite beqb_refl. apply fs_del_del. Qed.

Lemma finish_false fs er ou c fl p X : finish (W (fs_set fs p X) er ou c fl) p false = (W (fs_del fs p) er ou c fl, false).
Proof. unfold finish, sys_unlink. wred. rewrite fs_del_set. reflexivity. Qed.

Lemma decrypt_file_nf pw fs er ou c fl inf outf f :
  inf <> outf -> fs_get fs inf = Some f ->
  exists c', decrypt_file' pw (W fs er ou c fl) inf outf =
    match dec_outcome pw f with
    | inl m => (W (fs_set fs outf m) er ou c' fl, true)
    | inr e => (W (fs_del fs outf) (er ++ [e]) ou c' fl, false)
    end.
Proof.
  intros Hne Hin.
  unfold decrypt_file. rewrite content_W. unfold cont at 1. rewrite Hin.
  rewrite (open_r_nf _ _ _ _ _ _ _ Hin), open_w_nf.
  step_read c1.
  assert (Hc : forall X, cont (fs_set fs outf X) inf = f).
  { intro X. rewrite cont_set_other by congruence. unfold cont. rewrite Hin. reflexivity. }
  rewrite Hc. change (skipn 0 f) with f. unfold dec_outcome.
  set (h := firstn 80 f).
  destruct ((length h =? 80) && beqb (firstn 12 h) (magic ++ version)) eqn:G.
  2:{ exists c1. unfold add_err. wred. apply finish_false. }
  apply andb_true_iff in G. destruct G as [G1 G2]. apply Nat.eqb_eq in G1.
  set (header := firstn 28 h). set (sivb := skipn 28 h). set (kn := pbkdf2 pw (skipn 12 header)).
  assert (Wkn : wfk (firstn 20 kn) (skipn 20 kn)) by (apply wfk_split, (pbkdf2_len CR)).
  assert (Lsv : length sivb = 52) by (unfold sivb; rewrite skipn_length; lia).
  destruct (siv_dec (firstn 20 kn) (skipn 20 kn) header sivb) as [kn2|] eqn:ES.
  2:{ exists c1. unfold add_err. wred. apply finish_false. }
  assert (Lk : length kn2 = 36).
  { apply (siv_exact CR) in ES; [|exact Wkn]. destruct ES as [ES _]. lia. }
  step_read c2. rewrite Hc. rewrite G1. change (0 + 80) with 80.
  set (S := skipn 80 f).
  assert (LS16 : length (firstn 16 S) = Nat.min 16 (length S)) by apply firstn_length.
  destruct (length S <? 16) eqn:LT.
  { apply Nat.ltb_lt in LT. assert (length (firstn 16 S) =? 16 = false) as -> by (apply Nat.eqb_neq; lia).
    exists c2. unfold add_err. wred. apply finish_false. }
  apply Nat.ltb_ge in LT. assert (length (firstn 16 S) =? 16 = true) as -> by (apply Nat.eqb_eq; lia).
  rewrite LS16, Nat.min_l by exact LT.
  destruct (dec_loop_nf (Datatypes.S (length f)) fs er ou c2 fl inf outf (80 + 16)
              (a_start (firstn 20 kn2) (skipn 20 kn2) sivb) f [] (firstn 16 S) Hne Hin) as (c3 & E3).
  { rewrite skipn_length. lia. }
  { rewrite LS16. lia. }
  rewrite E3. clear E3. cbn [app].
  assert (RS : skipn (80 + 16) f = skipn 16 S) by (unfold S; rewrite skipn_skipn'; reflexivity).
  rewrite RS. rewrite firstn_skipn.
  set (C := firstn (length (skipn 16 S)) S). set (T := skipn (length (skipn 16 S)) S).
  assert (LT16 : length T = 16) by (unfold T; rewrite !skipn_length; lia).
  assert (LC : length C < Datatypes.S (length f)).
  { unfold C. rewrite firstn_length, !skipn_length. unfold S. rewrite skipn_length. lia. }
  pose proof (dec_run CR (firstn 20 kn2) (skipn 20 kn2) sivb (blocks (Datatypes.S (length f)) (bufsiz - 16) C) T
                (wfk_split kn2 Lk) LT16) as DR.
  rewrite concat_blocks in DR by lia.
  assert (C ++ T = S) as CT by (unfold C, T; apply firstn_skipn).
  rewrite CT in DR. rewrite <- DR.
  destruct (run_decb (a_start (firstn 20 kn2) (skipn 20 kn2) sivb) (blocks (Datatypes.S (length f)) (bufsiz - 16) C)) as [st2 ps].
  cbn [fst snd]. destruct (a_decf st2 T).
  - exists c3. cbn [negb andb finish]. reflexivity.
  - exists c3. cbn [negb andb]. unfold add_err. wred. apply finish_false.
Qed.


(* ---- round trip and exactness of the file image ---------------------------------- *)
Lemma enc_image_len pw salt kn2 m : length salt = 16 -> length kn2 = 36 ->
  length (enc_image pw salt kn2 m) = 96 + length m.
Proof.
  intros Ls Lk. unfold enc_image. rewrite !app_length, hdr_len, Ls.
  rewrite (siv_len CR) by (apply wfk_split, (pbkdf2_len CR)).
  rewrite (aenc_len CR) by (apply wfk_split; exact Lk). lia.
Qed.

Lemma dec_outcome_image pw salt kn2 m : length salt = 16 -> length kn2 = 36 ->
  dec_outcome pw (enc_image pw salt kn2 m) = inl m.
Proof.
  intros Ls Lk. unfold dec_outcome, enc_image.
  set (header := hdr salt). set (kn := pbkdf2 pw salt).
  set (sivb := siv_enc (firstn 20 kn) (skipn 20 kn) header kn2).
  set (ct := aenc (firstn 20 kn2) (skipn 20 kn2) sivb m).
  assert (Lh : length header = 28) by (unfold header; rewrite hdr_len; lia).
  assert (Wkn : wfk (firstn 20 kn) (skipn 20 kn)) by (apply wfk_split, (pbkdf2_len CR)).
  assert (Lsv : length sivb = 52) by (unfold sivb; rewrite (siv_len CR) by exact Wkn; lia).
  assert (Lct : length ct = length m + 16) by (unfold ct; apply (aenc_len CR), wfk_split, Lk).
  assert (H80 : firstn 80 (header ++ sivb ++ ct) = header ++ sivb).
  { rewrite app_assoc. replace 80 with (length (header ++ sivb) + 0) by (rewrite app_length; lia).
    rewrite firstn_app_2. cbn [firstn]. apply app_nil_r. }
  rewrite H80.
  assert (S80 : skipn 80 (header ++ sivb ++ ct) = ct).
  { rewrite app_assoc. replace 80 with (length (header ++ sivb)) by (rewrite app_length; lia).
    rewrite skipn_app, skipn_all, Nat.sub_diag. reflexivity. }
  rewrite S80.
  assert (L80 : length (header ++ sivb) =? 80 = true) by (apply Nat.eqb_eq; rewrite app_length; lia).
  rewrite L80.
  assert (F12 : firstn 12 (header ++ sivb) = magic ++ version).
  { unfold header, hdr. rewrite app_assoc, <- app_assoc.
    replace 12 with (length (magic ++ version) + 0) by reflexivity. rewrite firstn_app_2. cbn [firstn]. apply app_nil_r. }
  rewrite F12, beqb_refl. cbn [andb].
  assert (F28 : firstn 28 (header ++ sivb) = header).
  { replace 28 with (length header + 0) by lia. rewrite firstn_app_2. cbn [firstn]. apply app_nil_r. }
  assert (S28 : skipn 28 (header ++ sivb) = sivb).
  { replace 28 with (length header) by lia. rewrite skipn_app, skipn_all, Nat.sub_diag. reflexivity. }
  rewrite F28, S28.
  assert (S12 : skipn 12 header = salt) by reflexivity.
  rewrite S12. fold kn.
  assert (ES : siv_dec (firstn 20 kn) (skipn 20 kn) header sivb = Some kn2).
  { apply (siv_exact CR); [exact Wkn|]. split; [lia|reflexivity]. }
  rewrite ES.
  assert (length ct <? 16 = false) as -> by (apply Nat.ltb_ge; lia).
  assert (EA : adec (firstn 20 kn2) (skipn 20 kn2) sivb ct = Some m).
  { apply (aead_exact CR); [apply wfk_split, Lk|]. split; [lia|reflexivity]. }
  rewrite EA. reflexivity.
Qed.

Lemma dec_outcome_exact pw f m : dec_outcome pw f = inl m ->
  exists salt kn2, length salt = 16 /\ length kn2 = 36 /\ f = enc_image pw salt kn2 m.
Proof.
  unfold dec_outcome. set (h := firstn 80 f).
  destruct ((length h =? 80) && beqb (firstn 12 h) (magic ++ version)) eqn:G; [|discriminate].
  apply andb_true_iff in G. destruct G as [G1 G2]. apply Nat.eqb_eq in G1. apply beqb_eq in G2.
  set (header := firstn 28 h). set (sivb := skipn 28 h). set (kn := pbkdf2 pw (skipn 12 header)).
  assert (Wkn : wfk (firstn 20 kn) (skipn 20 kn)) by (apply wfk_split, (pbkdf2_len CR)).
  destruct (siv_dec (firstn 20 kn) (skipn 20 kn) header sivb) as [kn2|] eqn:ES; [|discriminate].
  destruct (length (skipn 80 f) <? 16); [discriminate|].
  destruct (adec (firstn 20 kn2) (skipn 20 kn2) sivb (skipn 80 f)) as [m'|] eqn:EA; [|discriminate].
  intro Q. inversion Q; subst m'. clear Q.
  assert (Lsv : length sivb = 52) by (unfold sivb; rewrite skipn_length; lia).
  apply (siv_exact CR) in ES; [|exact Wkn]. destruct ES as [ES1 ES2].
  assert (Lk : length kn2 = 36) by lia.
  apply (aead_exact CR) in EA; [|apply wfk_split, Lk]. destruct EA as [_ EA2].
  exists (skipn 12 header), kn2.
  assert (Lhd : length header = 28) by (unfold header; rewrite firstn_length; lia).
  split; [rewrite skipn_length; lia|]. split; [exact Lk|].
  assert (Hh : hdr (skipn 12 header) = header).
  { unfold hdr. rewrite app_assoc, <- G2. unfold header. rewrite <- (firstn_skipn 12 (firstn 28 h)) at 2.
    f_equal. rewrite firstn_firstn. reflexivity. }
  unfold enc_image. rewrite Hh. fold kn. rewrite ES2, EA2.
  unfold header, sivb. rewrite app_assoc, firstn_skipn. unfold h. apply eq_sym, firstn_skipn.
Qed.

End NoFail2.

(* ==== any oracle: clean failure, and delivered faults are reported =================== *)
Section AnyOracle.
Notation crypt_files' := (crypt_files pbkdf2 siv_enc siv_dec ast a_start a_encb a_encf a_decb a_decf bufsiz cfg o).
Notation main_crypt' := (main_crypt pbkdf2 siv_enc siv_dec ast a_start a_encb a_encf a_decb a_decf bufsiz cfg o).

(* --- the file system is only touched by open-for-write, write, unlink ------------- *)
Lemma sys_open_r_fs w p w' r : sys_open_r o w p = (w', r) -> w_fs w' = w_fs w.
Proof.
  unfold sys_open_r. destruct (o_open o _); [intro H; inversion H; reflexivity|].
  destruct (fs_get _ _); intro H; inversion H; reflexivity.
Qed.
Lemma safe_open_r_fs w p w' r : safe_open_r o w p = (w', r) -> w_fs w' = w_fs w.
Proof.
  unfold safe_open_r. destruct (sys_open_r o w p) as [w1 r1] eqn:E. apply sys_open_r_fs in E.
  destruct r1; intro H; inversion H; subst; cbn; exact E.
Qed.
Lemma safe_open_w_res w p w' r : safe_open_w o w p = (w', r) ->
  (r = None /\ w_fs w' = w_fs w) \/ r = Some p.
Proof.
  unfold safe_open_w, sys_open_w. destruct (o_open o _); intro H; inversion H; subst; [left|right]; split; reflexivity.
Qed.
Lemma sys_read_fs w fd len w' r : sys_read o w fd len = (w', r) -> w_fs w' = w_fs w.
Proof. unfold sys_read. destruct (o_read o _); intro H; inversion H; reflexivity. Qed.
Lemma sfr_loop_fs fuel : forall w fd acc len w' fd' r, sfr_loop o fuel w fd acc len = (w', fd', r) -> w_fs w' = w_fs w.
Proof.
  induction fuel as [|f IH]; intros w fd acc len w' fd' r; cbn [sfr_loop]; [intro H; inversion H; reflexivity|].
  destruct (sys_read o w fd len) as [w1 r1] eqn:E. apply sys_read_fs in E.
  destruct r1 as [[|x d]|].
  - intro H; inversion H; subst. exact E.
  - intro H. apply IH in H. congruence.
  - intro H; inversion H; subst. cbn. exact E.
Qed.
Lemma safe_file_read_fs w fd len w' fd' r : safe_file_read o w fd len = (w', fd', r) -> w_fs w' = w_fs w.
Proof. apply sfr_loop_fs. Qed.

Lemma finish_clean w out ev w' : finish w out ev = (w', false) -> fs_get (w_fs w') out = None.
Proof.
  unfold finish. destruct ev; intro H; inversion H; subst. unfold sys_unlink, with_fs. cbn [w_fs]. apply fs_get_del_same.
Qed.

Ltac split_lets :=
  repeat match goal with
         | |- context[let '(_, _) := ?x in _] => destruct x
         | |- context[match ?x with Some _ => _ | None => _ end] => destruct x
         | |- context[if ?b then _ else _] => destruct b
         end.

Theorem encrypt_file_clean pw w inf outf w' :
  encrypt_file' pw w inf outf = (w', false) -> fs_get (w_fs w') outf = None \/ w_fs w' = w_fs w.
Proof.
  unfold encrypt_file.
  destruct (safe_open_r o w inf) as [w1 oi] eqn:E1. apply safe_open_r_fs in E1.
  destruct oi as [inp|]; [|intro H; inversion H; subst; right; exact E1].
  destruct (safe_open_w o w1 outf) as [w2 oo] eqn:E2. apply safe_open_w_res in E2.
  destruct oo as [out|].
  2:{ intro H; inversion H; subst. right. destruct E2 as [[_ E2]|E2]; [congruence|discriminate]. }
  destruct E2 as [[E2 _]|E2]; [discriminate|]. inversion E2; subst out. clear E2.
  intro H. left. revert H.
  repeat match goal with
         | |- context[let '(_, _) := ?x in _] => destruct x
         | |- context[match ?x with Some _ => _ | None => _ end] => destruct x
         end; apply finish_clean.
Qed.

Theorem decrypt_file_clean pw w inf outf w' :
  decrypt_file' pw w inf outf = (w', false) -> fs_get (w_fs w') outf = None \/ w_fs w' = w_fs w.
Proof.
  unfold decrypt_file.
  destruct (safe_open_r o w inf) as [w1 oi] eqn:E1. apply safe_open_r_fs in E1.
  destruct oi as [inp|]; [|intro H; inversion H; subst; right; exact E1].
  destruct (safe_open_w o w1 outf) as [w2 oo] eqn:E2. apply safe_open_w_res in E2.
  destruct oo as [out|].
  2:{ intro H; inversion H; subst. right. destruct E2 as [[_ E2]|E2]; [congruence|discriminate]. }
  destruct E2 as [[E2 _]|E2]; [discriminate|]. inversion E2; subst out. clear E2.
  intro H. left. revert H.
  repeat match goal with
         | |- context[let '(_, _) := ?x in _] => destruct x
         | |- context[match ?x with Some _ => _ | None => _ end] => destruct x
         | |- context[if ?b then _ else _] => destruct b
         end; apply finish_clean.
Qed.


(* --- a single fault: the k0-th call of class c0 fails --------------------------------- *)
Definition fails_at (c : cls) (k : nat) : Prop :=
  match c with
  | COpen => o_open o k = true
  | CRead => o_read o k = XFAIL
  | CWrite => o_write o k = XFAIL
  | CRand => forall n, o_rand o k n = None
  | CGets => o_gets o k = true
  end.

Section OneFault.
Variable c0 : cls.
Variable k0 : nat.
Hypothesis FA : fails_at c0 k0.

(* either the fault has been delivered, or fewer than k0+1 calls of the class were made *)
Definition J (w : world) : Prop := fget c0 (w_flg w) = true \/ cget c0 (w_cnt w) <= k0.

Ltac jfin HJ :=
  first [ exact HJ
        | left; reflexivity
        | destruct HJ as [HJ|HJ]; [left; exact HJ|right; lia] ].

Lemma J_sys_read w fd len w' r : sys_read o w fd len = (w', r) -> J w -> J w'.
Proof.
  unfold sys_read, J, fails_at in *. intros H HJ.
  destruct (o_read o (cget CRead (w_cnt w))) eqn:E; inversion H; subst; clear H;
    destruct c0; cbn in *; try jfin HJ;
    (destruct HJ as [HJ|HJ]; [left; exact HJ|];
     destruct (Nat.eq_dec (n_read (w_cnt w)) k0) as [Q|Q]; [rewrite Q in E; congruence|right; lia]).
Qed.
Lemma J_sys_write w p d w' r : sys_write o w p d = (w', r) -> J w -> J w'.
Proof.
  unfold sys_write, J, fails_at in *. intros H HJ.
  destruct (o_write o (cget CWrite (w_cnt w))) eqn:E; inversion H; subst; clear H;
    destruct c0; cbn in *; try jfin HJ;
    (destruct HJ as [HJ|HJ]; [left; exact HJ|];
     destruct (Nat.eq_dec (n_write (w_cnt w)) k0) as [Q|Q]; [rewrite Q in E; congruence|right; lia]).
Qed.
Lemma J_sys_open_r w p w' r : sys_open_r o w p = (w', r) -> J w -> J w'.
Proof.
  unfold sys_open_r, J, fails_at in *. intros H HJ.
  destruct (o_open o (cget COpen (w_cnt w))) eqn:E; [|destruct (fs_get _ _)]; inversion H; subst; clear H;
    destruct c0; cbn in *; try jfin HJ;
    (destruct HJ as [HJ|HJ]; [left; exact HJ|];
     destruct (Nat.eq_dec (n_open (w_cnt w)) k0) as [Q|Q]; [rewrite Q in E; congruence|right; lia]).
Qed.
Lemma J_sys_open_w w p w' r : sys_open_w o w p = (w', r) -> J w -> J w'.
Proof.
  unfold sys_open_w, J, fails_at in *. intros H HJ.
  destruct (o_open o (cget COpen (w_cnt w))) eqn:E; inversion H; subst; clear H;
    destruct c0; cbn in *; try jfin HJ;
    (destruct HJ as [HJ|HJ]; [left; exact HJ|];
     destruct (Nat.eq_dec (n_open (w_cnt w)) k0) as [Q|Q]; [rewrite Q in E; congruence|right; lia]).
Qed.
Lemma J_sys_random w n w' r : sys_random o w n = (w', r) -> J w -> J w'.
Proof.
  unfold sys_random, J, fails_at in *. intros H HJ.
  destruct (o_rand o (cget CRand (w_cnt w)) n) eqn:E; inversion H; subst; clear H;
    destruct c0; cbn in *; try jfin HJ;
    (destruct HJ as [HJ|HJ]; [left; exact HJ|];
     destruct (Nat.eq_dec (n_rand (w_cnt w)) k0) as [Q|Q]; [rewrite Q, FA in E; congruence|right; lia]).
Qed.
Lemma J_add_err w e : J w -> J (add_err w e).
Proof. exact (fun H => H). Qed.
Lemma J_unlink w p : J w -> J (sys_unlink w p).
Proof. exact (fun H => H). Qed.


Lemma J_safe_open_r w p w' r : safe_open_r o w p = (w', r) -> J w -> J w'.
Proof.
  unfold safe_open_r. destruct (sys_open_r o w p) as [w1 r1] eqn:E. intros H HJ.
  pose proof (J_sys_open_r _ _ _ _ E HJ). destruct r1; inversion H; subst; [assumption|apply J_add_err; assumption].
Qed.
Lemma J_safe_open_w w p w' r : safe_open_w o w p = (w', r) -> J w -> J w'.
Proof.
  unfold safe_open_w. destruct (sys_open_w o w p) as [w1 r1] eqn:E. intros H HJ.
  pose proof (J_sys_open_w _ _ _ _ E HJ). destruct r1; inversion H; subst; [assumption|apply J_add_err; assumption].
Qed.
Lemma J_sfr_loop fuel : forall w fd acc len w' fd' r, sfr_loop o fuel w fd acc len = (w', fd', r) -> J w -> J w'.
Proof.
  induction fuel as [|f IH]; intros w fd acc len w' fd' r; cbn [sfr_loop]; [intros H HJ; inversion H; subst; exact HJ|].
  destruct (sys_read o w fd len) as [w1 r1] eqn:E. intros H HJ. pose proof (J_sys_read _ _ _ _ _ E HJ) as J1.
  destruct r1 as [[|x d]|].
  - inversion H; subst. exact J1.
  - eapply IH; eassumption.
  - inversion H; subst. apply J_add_err. exact J1.
Qed.
Lemma J_safe_file_read w fd len w' fd' r : safe_file_read o w fd len = (w', fd', r) -> J w -> J w'.
Proof. apply J_sfr_loop. Qed.
Lemma J_sfw_loop fuel : forall w p d res w' z, sfw_loop cfg o fuel w p d res = (w', z) -> J w -> J w'.
Proof.
  induction fuel as [|f IH]; intros w p d res w' z; cbn [sfw_loop]; [intros H HJ; inversion H; subst; exact HJ|].
  destruct (sys_write o w p d) as [w1 r1] eqn:E. intros H HJ. pose proof (J_sys_write _ _ _ _ _ E HJ) as J1.
  destruct r1 as [[|n]|].
  - inversion H; subst. exact J1.
  - eapply IH; eassumption.
  - inversion H; subst. apply J_add_err. exact J1.
Qed.
Lemma J_safe_file_write w p d w' z : safe_file_write cfg o w p d = (w', z) -> J w -> J w'.
Proof. apply J_sfw_loop. Qed.

Lemma J_enc_loop fuel : forall w inp out st ev w' st' ev', enc_loop' fuel w inp out st ev = (w', st', ev') -> J w -> J w'.
Proof.
  induction fuel as [|f IH]; intros w inp out st ev w' st' ev'; cbn [enc_loop]; [intros H HJ; inversion H; subst; exact HJ|].
  destruct ev; cbn [negb]; [|intros H HJ; inversion H; subst; exact HJ].
  destruct (safe_file_read o w inp bufsiz) as [[w1 inp1] r] eqn:E1. intros H HJ.
  pose proof (J_safe_file_read _ _ _ _ _ _ E1 HJ) as J1.
  destruct r as [[|x d]|]; [inversion H; subst; exact J1| |inversion H; subst; exact J1].
  destruct (a_encb st (x :: d)) as [st1 cc].
  destruct (safe_file_write cfg o w1 out cc) as [w2 n] eqn:E2. pose proof (J_safe_file_write _ _ _ _ _ E2 J1) as J2.
  destruct (length (x :: d) <? bufsiz); [inversion H; subst; exact J2|]. eapply IH; eassumption.
Qed.
Lemma J_dec_loop fuel : forall w inp out st buf ev w' st' buf' ev',
  dec_loop' fuel w inp out st buf ev = (w', st', buf', ev') -> J w -> J w'.
Proof.
  induction fuel as [|f IH]; intros w inp out st buf ev w' st' buf' ev'; cbn [dec_loop]; [intros H HJ; inversion H; subst; exact HJ|].
  destruct ev; cbn [negb]; [|intros H HJ; inversion H; subst; exact HJ].
  destruct (safe_file_read o w inp (bufsiz - 16)) as [[w1 inp1] r] eqn:E1. intros H HJ.
  pose proof (J_safe_file_read _ _ _ _ _ _ E1 HJ) as J1.
  destruct r as [[|x d]|]; [inversion H; subst; exact J1| |inversion H; subst; exact J1].
  destruct (a_decb st _) as [st1 pp].
  destruct (safe_file_write cfg o w1 out pp) as [w2 n] eqn:E2. pose proof (J_safe_file_write _ _ _ _ _ E2 J1) as J2.
  destruct (length (x :: d) <? bufsiz - 16); [inversion H; subst; exact J2|]. eapply IH; eassumption.
Qed.
Lemma J_finish w out ev w' r : finish w out ev = (w', r) -> J w -> J w'.
Proof. unfold finish. destruct ev; intros H HJ; inversion H; subst; [exact HJ|apply J_unlink; exact HJ]. Qed.

Lemma J_encrypt_file pw w inf outf w' r : encrypt_file' pw w inf outf = (w', r) -> J w -> J w'.
Proof.
  unfold encrypt_file. intros H HJ.
  destruct (safe_open_r o w inf) as [w1 oi] eqn:E1. pose proof (J_safe_open_r _ _ _ _ E1 HJ) as J1.
  destruct oi as [inp|]; [|inversion H; subst; exact J1].
  destruct (safe_open_w o w1 outf) as [w2 oo] eqn:E2. pose proof (J_safe_open_w _ _ _ _ E2 J1) as J2.
  destruct oo as [out|]; [|inversion H; subst; exact J2].
  destruct (sys_random o w2 16) as [w3 r1] eqn:E3. pose proof (J_sys_random _ _ _ _ E3 J2) as J3.
  destruct r1 as [salt|]; [|eapply J_finish; [exact H|apply J_add_err; exact J3]].
  destruct (sys_random o w3 36) as [w4 r2] eqn:E4. pose proof (J_sys_random _ _ _ _ E4 J3) as J4.
  destruct r2 as [kn2|]; [|eapply J_finish; [exact H|apply J_add_err; exact J4]].
  destruct (safe_file_write cfg o w4 out (hdr salt)) as [w5 n1] eqn:E5. pose proof (J_safe_file_write _ _ _ _ _ E5 J4) as J5.
  set (sivb := siv_enc _ _ _ _) in *.
  assert (exists w6 ev6, (if wfailed n1 then (w5, false)
            else let '(w, n2) := safe_file_write cfg o w5 out sivb in (w, negb (wfailed n2))) = (w6, ev6) /\ J w6)
    as (w6 & ev6 & E6 & J6).
  { destruct (wfailed n1); [eauto|]. destruct (safe_file_write cfg o w5 out sivb) as [w6 n2] eqn:E6.
    eexists _, _. split; [reflexivity|]. eapply J_safe_file_write; eassumption. }
  rewrite E6 in H.
  destruct (enc_loop' _ w6 inp out _ ev6) as [[w7 st7] ev7] eqn:E7. pose proof (J_enc_loop _ _ _ _ _ _ _ _ _ E7 J6) as J7.
  assert (exists w8 ev8, (if ev7 then let '(w, n) := safe_file_write cfg o w7 out (a_encf st7) in (w, negb (wfailed n))
                          else (w7, false)) = (w8, ev8) /\ J w8) as (w8 & ev8 & E8 & J8).
  { destruct ev7; [|eauto]. destruct (safe_file_write cfg o w7 out (a_encf st7)) as [w8 n] eqn:E8.
    eexists _, _. split; [reflexivity|]. eapply J_safe_file_write; eassumption. }
  rewrite E8 in H. eapply J_finish; eassumption.
Qed.


Lemma J_decrypt_file pw w inf outf w' r : decrypt_file' pw w inf outf = (w', r) -> J w -> J w'.
Proof.
  unfold decrypt_file. intros H HJ.
  destruct (safe_open_r o w inf) as [w1 oi] eqn:E1. pose proof (J_safe_open_r _ _ _ _ E1 HJ) as J1.
  destruct oi as [inp|]; [|inversion H; subst; exact J1].
  destruct (safe_open_w o w1 outf) as [w2 oo] eqn:E2. pose proof (J_safe_open_w _ _ _ _ E2 J1) as J2.
  destruct oo as [out|]; [|inversion H; subst; exact J2].
  destruct (safe_file_read o w2 inp 80) as [[w3 inp3] r3] eqn:E3. pose proof (J_safe_file_read _ _ _ _ _ _ E3 J2) as J3.
  destruct r3 as [h|]; [|eapply J_finish; [exact H|apply J_add_err; exact J3]].
  destruct ((length h =? 80) && beqb (firstn 12 h) (magic ++ version)); [|eapply J_finish; [exact H|apply J_add_err; exact J3]].
  destruct (siv_dec _ _ _ _) as [kn2|]; [|eapply J_finish; [exact H|apply J_add_err; exact J3]].
  destruct (safe_file_read o w3 inp3 16) as [[w4 inp4] r4] eqn:E4. pose proof (J_safe_file_read _ _ _ _ _ _ E4 J3) as J4.
  destruct r4 as [buf|]; [|eapply J_finish; [exact H|apply J_add_err; exact J4]].
  destruct (length buf =? 16); [|eapply J_finish; [exact H|apply J_add_err; exact J4]].
  destruct (dec_loop' _ w4 inp4 out _ buf true) as [[[w5 st5] buf5] ev5] eqn:E5.
  pose proof (J_dec_loop _ _ _ _ _ _ _ _ _ _ _ E5 J4) as J5.
  destruct (negb (a_decf st5 buf5) && ev5); eapply J_finish; try exact H; [apply J_add_err|]; exact J5.
Qed.

Lemma J_read_keyfile w kf w' r : read_keyfile o w kf = (w', r) -> J w -> J w'.
Proof.
  unfold read_keyfile. intros H HJ.
  destruct (safe_open_r o w kf) as [w1 oi] eqn:E1. pose proof (J_safe_open_r _ _ _ _ E1 HJ) as J1.
  destruct oi as [fd|]; [|inversion H; subst; exact J1].
  destruct (safe_file_read o w1 fd PWSIZ) as [[w2 fd2] r2] eqn:E2. pose proof (J_safe_file_read _ _ _ _ _ _ E2 J1) as J2.
  destruct r2 as [buf|]; [|inversion H; subst; exact J2].
  destruct (existsb _ _); [inversion H; subst; apply J_add_err; exact J2|].
  destruct (_ && _); inversion H; subst; [apply J_add_err|]; exact J2.
Qed.
Lemma J_get_password w src w' r : get_password o w src = (w', r) -> J w -> J w'.
Proof.
  unfold get_password. destruct src as [pw|kf]; [|apply J_read_keyfile].
  destruct (PWSIZ <=? length pw); intros H HJ; inversion H; subst; [apply J_add_err|]; exact HJ.
Qed.


Lemma J_crypt_files enc pw files : forall w ex w' ex', crypt_files' enc pw w files ex = (w', ex') -> J w -> J w'.
Proof.
  induction files as [|[i ofile] rest IH]; intros w ex w' ex'; cbn [crypt_files]; [intros H HJ; inversion H; subst; exact HJ|].
  intros H HJ. destruct enc.
  - destruct (encrypt_file' pw w i ofile) as [w1 ok] eqn:E. eapply IH; [exact H|]. eapply J_encrypt_file; eassumption.
  - destruct (decrypt_file' pw w i ofile) as [w1 ok] eqn:E. eapply IH; [exact H|]. eapply J_decrypt_file; eassumption.
Qed.
Lemma J_main_crypt enc src w files w' ex : main_crypt' enc src w files = (w', ex) -> J w -> J w'.
Proof.
  unfold main_crypt. intros H HJ. destruct (get_password o w src) as [w1 p] eqn:E.
  pose proof (J_get_password _ _ _ _ E HJ) as J1. destruct p; [|inversion H; subst; exact J1].
  eapply J_crypt_files; eassumption.
Qed.
Lemma J_main_generate w kf w' ex : main_generate cfg o w kf = (w', ex) -> J w -> J w'.
Proof.
  unfold main_generate. intros H HJ.
  destruct (safe_open_w o w kf) as [w1 oo] eqn:E1. pose proof (J_safe_open_w _ _ _ _ E1 HJ) as J1.
  destruct oo as [out|]; [|inversion H; subst; exact J1].
  destruct (sys_random o w1 40) as [w2 r] eqn:E2. pose proof (J_sys_random _ _ _ _ E2 J1) as J2.
  destruct r as [rb|]; [|inversion H; subst; apply J_unlink, J_add_err; exact J2].
  destruct (safe_file_write cfg o w2 out _) as [w3 n1] eqn:E3. pose proof (J_safe_file_write _ _ _ _ _ E3 J2) as J3.
  destruct (c_genpw_chk cfg && wfailed n1); [inversion H; subst; apply J_unlink; exact J3|].
  destruct (safe_file_write cfg o w3 out _) as [w4 n2] eqn:E4. pose proof (J_safe_file_write _ _ _ _ _ E4 J3) as J4.
  destruct (c_genpw_chk cfg && wfailed n2); inversion H; subst; [apply J_unlink|]; exact J4.
Qed.

End OneFault.

(* --- success implies that no failure was delivered ------------------------------------
   [bad w]: a failure of open, read or the random source has been delivered, or
   (when safe_file_write reports errors as 0, i.e. in the fixed tree) of write. *)
Definition wchk : bool := (c_werr cfg =? 0)%Z.
Definition bad (w : world) : bool :=
  f_open (w_flg w) || f_read (w_flg w) || f_rand (w_flg w) || (wchk && f_write (w_flg w)).

Lemma B_sys_open_r w p w' fd : sys_open_r o w p = (w', Some fd) -> bad w' = bad w.
Proof.
  unfold sys_open_r. destruct (o_open o _); [discriminate|]. destruct (fs_get _ _); intro H; inversion H; reflexivity.
Qed.
Lemma B_sys_open_w w p w' fd : sys_open_w o w p = (w', Some fd) -> bad w' = bad w.
Proof. unfold sys_open_w. destruct (o_open o _); [discriminate|]. intro H; inversion H; reflexivity. Qed.
Lemma B_sys_read w fd len w' d : sys_read o w fd len = (w', Some d) -> bad w' = bad w.
Proof. unfold sys_read. destruct (o_read o _); intro H; inversion H; reflexivity. Qed.
Lemma B_sys_random w n w' b : sys_random o w n = (w', Some b) -> bad w' = bad w.
Proof. unfold sys_random. destruct (o_rand o _ _); intro H; inversion H; reflexivity. Qed.
Lemma B_sys_write w p d w' r : sys_write o w p d = (w', r) -> (r <> None \/ wchk = false) -> bad w' = bad w.
Proof.
  unfold sys_write. destruct (o_write o _); intros H C; inversion H; subst; try reflexivity.
  destruct C as [C|C]; [congruence|]. unfold bad, mark. cbn. rewrite C. reflexivity.
Qed.

Lemma B_safe_open_r w p w' fd : safe_open_r o w p = (w', Some fd) -> bad w' = bad w.
Proof.
  unfold safe_open_r. destruct (sys_open_r o w p) as [w1 [fd1|]] eqn:E; intro H; inversion H; subst.
  eapply B_sys_open_r; eassumption.
Qed.
Lemma B_safe_open_w w p w' fd : safe_open_w o w p = (w', Some fd) -> bad w' = bad w.
Proof.
  unfold safe_open_w. destruct (sys_open_w o w p) as [w1 [fd1|]] eqn:E; intro H; inversion H; subst.
  eapply B_sys_open_w; eassumption.
Qed.
Lemma B_sfr_loop fuel : forall w fd acc len w' fd' d, sfr_loop o fuel w fd acc len = (w', fd', Some d) -> bad w' = bad w.
Proof.
  induction fuel as [|f IH]; intros w fd acc len w' fd' d; cbn [sfr_loop]; [intro H; inversion H; reflexivity|].
  destruct (sys_read o w fd len) as [w1 [[|x d1]|]] eqn:E; intro H.
  - inversion H; subst. eapply B_sys_read; eassumption.
  - apply IH in H. rewrite H. eapply B_sys_read; eassumption.
  - discriminate.
Qed.
Lemma B_safe_file_read w fd len w' fd' d : safe_file_read o w fd len = (w', fd', Some d) -> bad w' = bad w.
Proof. apply B_sfr_loop. Qed.
Lemma B_sfw_loop fuel : forall w p d res w' z, sfw_loop cfg o fuel w p d res = (w', z) -> wfailed z = false -> bad w' = bad w.
Proof.
  induction fuel as [|f IH]; intros w p d res w' z; cbn [sfw_loop]; [intros H _; inversion H; reflexivity|].
  destruct (sys_write o w p d) as [w1 r] eqn:E. intros H Z.
  destruct r as [[|n]|].
  - inversion H; subst. eapply B_sys_write; [eassumption|left; discriminate].
  - rewrite (IH _ _ _ _ _ _ H Z). eapply B_sys_write; [eassumption|left; discriminate].
  - inversion H; subst. change (bad (add_err w1 EPerror)) with (bad w1).
    eapply B_sys_write; [eassumption|right]. unfold wchk. unfold wfailed in Z. exact Z.
Qed.
Lemma B_safe_file_write w p d w' z : safe_file_write cfg o w p d = (w', z) -> wfailed z = false -> bad w' = bad w.
Proof. apply B_sfw_loop. Qed.


Lemma enc_loop_false fuel w inp out st : enc_loop' fuel w inp out st false = (w, st, false).
Proof. destruct fuel; reflexivity. Qed.
Lemma dec_loop_false fuel w inp out st buf : dec_loop' fuel w inp out st buf false = (w, st, buf, false).
Proof. destruct fuel; reflexivity. Qed.

Lemma B_enc_loop fuel : forall w inp out st ev w' st', enc_loop' fuel w inp out st ev = (w', st', true) -> bad w' = bad w.
Proof.
  induction fuel as [|f IH]; intros w inp out st ev w' st'; cbn [enc_loop]; [intro H; inversion H; reflexivity|].
  destruct ev; cbn [negb]; [|discriminate].
  destruct (safe_file_read o w inp bufsiz) as [[w1 inp1] r] eqn:E1. intro H.
  destruct r as [[|x d]|]; [| |discriminate].
  - inversion H; subst. eapply B_safe_file_read; eassumption.
  - rewrite <- (B_safe_file_read _ _ _ _ _ _ E1).
    destruct (a_encb st (x :: d)) as [st1 cc].
    destruct (safe_file_write cfg o w1 out cc) as [w2 n] eqn:E2.
    destruct (wfailed n) eqn:Z.
    + destruct (length (x :: d) <? bufsiz); [discriminate|]. rewrite enc_loop_false in H. discriminate.
    + rewrite <- (B_safe_file_write _ _ _ _ _ E2 Z).
      destruct (length (x :: d) <? bufsiz); [inversion H; reflexivity|]. eapply IH; eassumption.
Qed.
Lemma B_dec_loop fuel : forall w inp out st buf ev w' st' buf',
  dec_loop' fuel w inp out st buf ev = (w', st', buf', true) -> bad w' = bad w.
Proof.
  induction fuel as [|f IH]; intros w inp out st buf ev w' st' buf'; cbn [dec_loop]; [intro H; inversion H; reflexivity|].
  destruct ev; cbn [negb]; [|discriminate].
  destruct (safe_file_read o w inp (bufsiz - 16)) as [[w1 inp1] r] eqn:E1. intro H.
  destruct r as [[|x d]|]; [| |discriminate].
  - inversion H; subst. eapply B_safe_file_read; eassumption.
  - rewrite <- (B_safe_file_read _ _ _ _ _ _ E1).
    destruct (a_decb st _) as [st1 pp].
    destruct (safe_file_write cfg o w1 out pp) as [w2 n] eqn:E2.
    destruct (wfailed n) eqn:Z.
    + destruct (length (x :: d) <? bufsiz - 16); [discriminate|]. rewrite dec_loop_false in H. discriminate.
    + rewrite <- (B_safe_file_write _ _ _ _ _ E2 Z).
      destruct (length (x :: d) <? bufsiz - 16); [inversion H; reflexivity|]. eapply IH; eassumption.
Qed.

Lemma finish_true w out ev w' : finish w out ev = (w', true) -> ev = true /\ w' = w.
Proof. unfold finish. destruct ev; intro H; inversion H; split; reflexivity. Qed.

Lemma B_encrypt_file pw w inf outf w' : encrypt_file' pw w inf outf = (w', true) -> bad w' = bad w.
Proof.
  unfold encrypt_file. intro H.
  destruct (safe_open_r o w inf) as [w1 [inp|]] eqn:E1; [|discriminate]. rewrite <- (B_safe_open_r _ _ _ _ E1).
  destruct (safe_open_w o w1 outf) as [w2 [out|]] eqn:E2; [|discriminate]. rewrite <- (B_safe_open_w _ _ _ _ E2).
  destruct (sys_random o w2 16) as [w3 [salt|]] eqn:E3; [|apply finish_true in H; destruct H; discriminate].
  rewrite <- (B_sys_random _ _ _ _ E3).
  destruct (sys_random o w3 36) as [w4 [kn2|]] eqn:E4; [|apply finish_true in H; destruct H; discriminate].
  rewrite <- (B_sys_random _ _ _ _ E4).
  destruct (safe_file_write cfg o w4 out (hdr salt)) as [w5 n1] eqn:E5.
  set (sivb := siv_enc _ _ _ _) in *.
  destruct (wfailed n1) eqn:Z1.
  { rewrite enc_loop_false in H. apply finish_true in H. destruct H; discriminate. }
  rewrite <- (B_safe_file_write _ _ _ _ _ E5 Z1).
  destruct (safe_file_write cfg o w5 out sivb) as [w6 n2] eqn:E6.
  destruct (wfailed n2) eqn:Z2; cbn [negb] in H.
  { rewrite enc_loop_false in H. apply finish_true in H. destruct H; discriminate. }
  rewrite <- (B_safe_file_write _ _ _ _ _ E6 Z2).
  destruct (enc_loop' _ w6 inp out _ true) as [[w7 st7] ev7] eqn:E7.
  destruct ev7; [|apply finish_true in H; destruct H; discriminate].
  rewrite <- (B_enc_loop _ _ _ _ _ _ _ _ E7).
  destruct (safe_file_write cfg o w7 out (a_encf st7)) as [w8 n] eqn:E8.
  apply finish_true in H. destruct H as [H1 H2]. subst w'.
  destruct (wfailed n) eqn:Z3; [discriminate|]. eapply B_safe_file_write; eassumption.
Qed.

Lemma B_decrypt_file pw w inf outf w' : decrypt_file' pw w inf outf = (w', true) -> bad w' = bad w.
Proof.
  unfold decrypt_file. intro H.
  destruct (safe_open_r o w inf) as [w1 [inp|]] eqn:E1; [|discriminate]. rewrite <- (B_safe_open_r _ _ _ _ E1).
  destruct (safe_open_w o w1 outf) as [w2 [out|]] eqn:E2; [|discriminate]. rewrite <- (B_safe_open_w _ _ _ _ E2).
  destruct (safe_file_read o w2 inp 80) as [[w3 inp3] [h|]] eqn:E3; [|apply finish_true in H; destruct H; discriminate].
  rewrite <- (B_safe_file_read _ _ _ _ _ _ E3).
  destruct ((length h =? 80) && beqb (firstn 12 h) (magic ++ version)); [|apply finish_true in H; destruct H; discriminate].
  destruct (siv_dec _ _ _ _) as [kn2|]; [|apply finish_true in H; destruct H; discriminate].
  destruct (safe_file_read o w3 inp3 16) as [[w4 inp4] [buf|]] eqn:E4; [|apply finish_true in H; destruct H; discriminate].
  rewrite <- (B_safe_file_read _ _ _ _ _ _ E4).
  destruct (length buf =? 16); [|apply finish_true in H; destruct H; discriminate].
  destruct (dec_loop' _ w4 inp4 out _ buf true) as [[[w5 st5] buf5] ev5] eqn:E5.
  destruct (negb (a_decf st5 buf5) && ev5); [apply finish_true in H; destruct H; discriminate|].
  apply finish_true in H. destruct H as [H1 H2]. subst. eapply B_dec_loop; eassumption.
Qed.

Lemma B_read_keyfile w kf w' pw : read_keyfile o w kf = (w', Some pw) -> bad w' = bad w.
Proof.
  unfold read_keyfile. intro H.
  destruct (safe_open_r o w kf) as [w1 [fd|]] eqn:E1; [|discriminate]. rewrite <- (B_safe_open_r _ _ _ _ E1).
  destruct (safe_file_read o w1 fd PWSIZ) as [[w2 fd2] [buf|]] eqn:E2; [|discriminate].
  rewrite <- (B_safe_file_read _ _ _ _ _ _ E2).
  destruct (existsb _ _); [discriminate|]. destruct (_ && _); inversion H; reflexivity.
Qed.
Lemma B_get_password w src w' pw : get_password o w src = (w', Some pw) -> bad w' = bad w.
Proof.
  unfold get_password. destruct src as [p|kf]; [|apply B_read_keyfile].
  destruct (PWSIZ <=? length p); intro H; inversion H; reflexivity.
Qed.

Lemma B_crypt_files enc pw files : forall w ex w', crypt_files' enc pw w files ex = (w', 0) -> ex = 0 /\ bad w' = bad w.
Proof.
  induction files as [|[i ofile] rest IH]; intros w ex w'; cbn [crypt_files]; [intro H; inversion H; split; reflexivity|].
  intro H. destruct enc.
  - destruct (encrypt_file' pw w i ofile) as [w1 ok] eqn:E. apply IH in H. destruct H as [H1 H2].
    destruct ok; [|discriminate]. split; [exact H1|]. rewrite H2. eapply B_encrypt_file; eassumption.
  - destruct (decrypt_file' pw w i ofile) as [w1 ok] eqn:E. apply IH in H. destruct H as [H1 H2].
    destruct ok; [|discriminate]. split; [exact H1|]. rewrite H2. eapply B_decrypt_file; eassumption.
Qed.
Lemma B_main_crypt enc src w files w' : main_crypt' enc src w files = (w', 0) -> bad w' = bad w.
Proof.
  unfold main_crypt. intro H. destruct (get_password o w src) as [w1 [pw|]] eqn:E; [|discriminate].
  apply B_crypt_files in H. destruct H as [_ H]. rewrite H. eapply B_get_password; eassumption.
Qed.
Definition nonw (w : world) := (f_open (w_flg w), f_read (w_flg w), f_rand (w_flg w)).
Lemma sys_write_nonw w p d w' r : sys_write o w p d = (w', r) -> nonw w' = nonw w.
Proof. unfold sys_write. destruct (o_write o _); intro H; inversion H; reflexivity. Qed.
Lemma sfw_loop_nonw fuel : forall w p d res w' z, sfw_loop cfg o fuel w p d res = (w', z) -> nonw w' = nonw w.
Proof.
  induction fuel as [|f IH]; intros w p d res w' z; cbn [sfw_loop]; [intro H; inversion H; reflexivity|].
  destruct (sys_write o w p d) as [w1 r] eqn:E. apply sys_write_nonw in E. intro H.
  destruct r as [[|n]|].
  - inversion H; subst. exact E.
  - apply IH in H. congruence.
  - inversion H; subst. exact E.
Qed.
Lemma B_write_nochk w p d w' z : safe_file_write cfg o w p d = (w', z) -> wchk = false -> bad w' = bad w.
Proof.
  intros E Cw. apply sfw_loop_nonw in E. unfold nonw in E. inversion E as [[Q1 Q2 Q3]].
  unfold bad. rewrite Cw, Q1, Q2, Q3. reflexivity.
Qed.

Lemma B_main_generate w kf w' : c_genpw_chk cfg = true \/ wchk = false ->
  main_generate cfg o w kf = (w', 0) -> bad w' = bad w.
Proof.
  unfold main_generate. intros C H.
  destruct (safe_open_w o w kf) as [w1 [out|]] eqn:E1; [|discriminate]. rewrite <- (B_safe_open_w _ _ _ _ E1).
  destruct (sys_random o w1 40) as [w2 [rb|]] eqn:E2; [|discriminate]. rewrite <- (B_sys_random _ _ _ _ E2).
  destruct (safe_file_write cfg o w2 out _) as [w3 n1] eqn:E3.
  pose proof B_write_nochk as W.
  destruct C as [C|C].
  - rewrite C in H. cbn [andb] in H. destruct (wfailed n1) eqn:Z1; [discriminate|].
    rewrite <- (B_safe_file_write _ _ _ _ _ E3 Z1).
    destruct (safe_file_write cfg o w3 out _) as [w4 n2] eqn:E4. destruct (wfailed n2) eqn:Z2; [discriminate|].
    inversion H; subst. eapply B_safe_file_write; eassumption.
  - rewrite <- (W _ _ _ _ _ E3 C).
    destruct (c_genpw_chk cfg && wfailed n1); [discriminate|].
    destruct (safe_file_write cfg o w3 out _) as [w4 n2] eqn:E4.
    destruct (c_genpw_chk cfg && wfailed n2); [discriminate|]. inversion H; subst. eapply W; eassumption.
Qed.

(* the classes whose failures the tool must report *)
Definition relevant (c : cls) : Prop := c = COpen \/ c = CRead \/ c = CRand \/ (c = CWrite /\ wchk = true).

Lemma relevant_bad c w : relevant c -> fget c (w_flg w) = true -> bad w = true.
Proof.
  unfold bad. intros [R|[R|[R|[R Wc]]]] F; subst c; cbn [fget] in F; rewrite F; try rewrite Wc; cbn;
    rewrite ?orb_true_r; reflexivity.
Qed.

Lemma bad_world0 fs : bad (world0 fs) = false.
Proof. unfold bad, world0. cbn. apply andb_false_r. Qed.

Theorem faults_main_crypt c0 k0 enc src fs files w' ex : fails_at c0 k0 -> relevant c0 ->
  main_crypt' enc src (world0 fs) files = (w', ex) -> ex <> 0 \/ cget c0 (w_cnt w') <= k0.
Proof.
  intros FA R H.
  assert (J0 : J c0 k0 (world0 fs)) by (right; destruct c0; cbn; lia).
  pose proof (J_main_crypt c0 k0 FA _ _ _ _ _ _ H J0) as [JF|JC]; [|right; exact JC].
  left. intro Q. subst ex. apply B_main_crypt in H. rewrite (relevant_bad _ _ R JF), bad_world0 in H. discriminate.
Qed.

Theorem faults_main_generate c0 k0 fs kf w' ex : fails_at c0 k0 -> relevant c0 -> c_genpw_chk cfg = true \/ wchk = false ->
  main_generate cfg o (world0 fs) kf = (w', ex) -> ex <> 0 \/ cget c0 (w_cnt w') <= k0.
Proof.
  intros FA R C H.
  assert (J0 : J c0 k0 (world0 fs)) by (right; destruct c0; cbn; lia).
  pose proof (J_main_generate c0 k0 FA _ _ _ _ H J0) as [JF|JC]; [|right; exact JC].
  left. intro Q. subst ex. apply (B_main_generate _ _ _ C) in H. rewrite (relevant_bad _ _ R JF), bad_world0 in H. discriminate.
Qed.

End AnyOracle.
End Crypto.

(* ==== the statements of C19, on bundled cryptography ==================================== *)
Record crypto := {
  k_pbkdf2 : bytes -> bytes -> bytes;
  k_siv_enc : bytes -> bytes -> bytes -> bytes -> bytes;
  k_siv_dec : bytes -> bytes -> bytes -> bytes -> option bytes;
  k_ast : Type;
  k_start : bytes -> bytes -> bytes -> k_ast;
  k_encb : k_ast -> bytes -> k_ast * bytes;
  k_encf : k_ast -> bytes;
  k_decb : k_ast -> bytes -> k_ast * bytes;
  k_decf : k_ast -> bytes -> bool;
  k_aenc : bytes -> bytes -> bytes -> bytes -> bytes;             (* one-shot ASCON-80pq encryption: c || tag *)
  k_adec : bytes -> bytes -> bytes -> bytes -> option bytes
}.
Definition crypto_good (K : crypto) : Prop :=
  crypto_ok (k_pbkdf2 K) (k_siv_enc K) (k_siv_dec K) (k_ast K) (k_start K) (k_encb K) (k_encf K) (k_decb K) (k_decf K)
            (k_aenc K) (k_adec K).
Definition Main_crypt (K : crypto) :=
  main_crypt (k_pbkdf2 K) (k_siv_enc K) (k_siv_dec K) (k_ast K) (k_start K) (k_encb K) (k_encf K) (k_decb K) (k_decf K).
Definition Image (K : crypto) := enc_image (k_pbkdf2 K) (k_siv_enc K) (k_aenc K).

Section Top.
Variable K : crypto.
Variable bufsiz : nat.
Variable cfg : config.
Hypothesis CR : crypto_good K.
Hypothesis BS : 16 < bufsiz.

Lemma main_crypt_single o enc pw w i ofile : length pw < PWSIZ ->
  Main_crypt K bufsiz cfg o enc (PwArg pw) w [(i, ofile)] =
  let '(w1, ok) := (if enc then encrypt_file (k_pbkdf2 K) (k_siv_enc K) (k_ast K) (k_start K) (k_encb K) (k_encf K) bufsiz cfg o
                    else decrypt_file (k_pbkdf2 K) (k_siv_dec K) (k_ast K) (k_start K) (k_decb K) (k_decf K) bufsiz cfg o)
                     pw w i ofile in (w1, if ok then 0 else 1).
Proof.
  intro L. unfold Main_crypt, main_crypt, get_password.
  assert (PWSIZ <=? length pw = false) as -> by (apply Nat.leb_gt; exact L).
  cbn [crypt_files]. destruct enc; [destruct (encrypt_file _ _ _ _ _ _ _ _ _ _ _ _ _)|destruct (decrypt_file _ _ _ _ _ _ _ _ _ _ _ _ _)]; reflexivity.
Qed.

(* encrypting and then decrypting (two separate runs, any two oracles without
   failures, short transfers allowed) gives back the content; exit status 0 both times *)
Theorem roundtrip o1 o2 pw fs inf encf outf content salt kn2 :
  nofail o1 -> nofail o2 -> inf <> encf -> encf <> outf -> fs_get fs inf = Some content -> length pw < PWSIZ ->
  o_rand o1 0 16 = Some salt -> o_rand o1 1 36 = Some kn2 -> length salt = 16 -> length kn2 = 36 ->
  exists w1 w2,
    Main_crypt K bufsiz cfg o1 true (PwArg pw) (world0 fs) [(inf, encf)] = (w1, 0) /\
    fs_get (w_fs w1) encf = Some (Image K pw salt kn2 content) /\ w_err w1 = [] /\
    Main_crypt K bufsiz cfg o2 false (PwArg pw) (world0 (w_fs w1)) [(encf, outf)] = (w2, 0) /\
    fs_get (w_fs w2) outf = Some content /\ w_err w2 = [].
Proof.
  intros N1 N2 H1 H2 Hin Lp R1 R2 Ls Lk.
  destruct (encrypt_file_nf _ _ _ _ _ _ _ _ _ _ _ bufsiz cfg o1 CR N1 BS pw fs [] [] cnt0 flg0 inf encf content salt kn2
              H1 Hin R1 R2 Ls Lk) as (c1 & E1).
  set (fs1 := fs_set fs encf (Image K pw salt kn2 content)).
  assert (G1 : fs_get fs1 encf = Some (Image K pw salt kn2 content)) by apply fs_get_set_same.
  destruct (decrypt_file_nf _ _ _ _ _ _ _ _ _ _ _ bufsiz cfg o2 CR N2 BS pw fs1 [] [] cnt0 flg0 encf outf _ H2 G1) as (c2 & E2).
  unfold Image in E2. rewrite (dec_outcome_image _ _ _ _ _ _ _ _ _ _ _ bufsiz CR BS pw salt kn2 content Ls Lk) in E2.
  exists (W fs1 [] [] c1 flg0), (W (fs_set fs1 outf content) [] [] c2 flg0).
  rewrite !main_crypt_single by exact Lp. cbn [w_fs w_err]. unfold world0.
  fold (Image K pw salt kn2 content) in E1. fold fs1 in E1. rewrite E1, E2.
  repeat split; try reflexivity; [exact G1|apply fs_get_set_same].
Qed.

(* decryption under a no-failure oracle, fully characterised *)
Theorem decrypt_spec o pw fs inf outf f w' ex :
  nofail o -> inf <> outf -> fs_get fs inf = Some f -> length pw < PWSIZ ->
  Main_crypt K bufsiz cfg o false (PwArg pw) (world0 fs) [(inf, outf)] = (w', ex) ->
  match dec_outcome (k_pbkdf2 K) (k_siv_dec K) (k_adec K) pw f with
  | inl m => ex = 0 /\ w_fs w' = fs_set fs outf m /\ w_err w' = []
  | inr e => ex = 1 /\ w_fs w' = fs_del fs outf /\ w_err w' = [e]
  end.
Proof.
  intros N H Hin Lp. rewrite main_crypt_single by exact Lp. unfold world0.
  destruct (decrypt_file_nf _ _ _ _ _ _ _ _ _ _ _ bufsiz cfg o CR N BS pw fs [] [] cnt0 flg0 inf outf f H Hin) as (c2 & E2).
  rewrite E2. destruct (dec_outcome _ _ _ pw f); intro Q; inversion Q; subst; cbn [w_fs w_err]; repeat split; reflexivity.
Qed.

(* an accepted file is a genuine encryption (under the password given) of exactly what was written *)
Theorem accepted_exact o pw fs inf outf f w' :
  nofail o -> inf <> outf -> fs_get fs inf = Some f -> length pw < PWSIZ ->
  Main_crypt K bufsiz cfg o false (PwArg pw) (world0 fs) [(inf, outf)] = (w', 0) ->
  exists salt kn2 m, length salt = 16 /\ length kn2 = 36 /\ f = Image K pw salt kn2 m /\ fs_get (w_fs w') outf = Some m.
Proof.
  intros N H Hin Lp E. pose proof (decrypt_spec o pw fs inf outf f w' 0 N H Hin Lp E) as S.
  destruct (dec_outcome _ _ _ pw f) as [m|e] eqn:D; [|destruct S; discriminate].
  destruct S as (_ & S & _).
  destruct (dec_outcome_exact _ _ _ _ _ _ _ _ _ _ _ bufsiz CR BS pw f m D) as (salt & kn2 & Ls & Lk & F).
  exists salt, kn2, m. repeat split; try assumption. rewrite S. apply fs_get_set_same.
Qed.

(* ... hence anything that is not such an encryption is rejected: status 1, no output file, one message *)
Theorem rejected o pw fs inf outf f w' ex :
  nofail o -> inf <> outf -> fs_get fs inf = Some f -> length pw < PWSIZ ->
  (forall salt kn2 m, length salt = 16 -> length kn2 = 36 -> f <> Image K pw salt kn2 m) ->
  Main_crypt K bufsiz cfg o false (PwArg pw) (world0 fs) [(inf, outf)] = (w', ex) ->
  ex = 1 /\ fs_get (w_fs w') outf = None /\ length (w_err w') = 1.
Proof.
  intros N H Hin Lp NI E. pose proof (decrypt_spec o pw fs inf outf f w' ex N H Hin Lp E) as S.
  destruct (dec_outcome _ _ _ pw f) as [m|e] eqn:D.
  - destruct (dec_outcome_exact _ _ _ _ _ _ _ _ _ _ _ bufsiz CR BS pw f m D) as (salt & kn2 & Ls & Lk & F).
    exfalso. exact (NI salt kn2 m Ls Lk F).
  - destruct S as (S1 & S2 & S3). rewrite S2, S3. repeat split; [exact S1|apply fs_get_del_same].
Qed.

End Top.

(* clean failure, any oracle, any cryptography, shipped or fixed *)
Theorem fail_clean (K : crypto) bufsiz cfg o enc pw w inf outf w' ex : length pw < PWSIZ ->
  Main_crypt K bufsiz cfg o enc (PwArg pw) w [(inf, outf)] = (w', ex) -> ex <> 0 ->
  fs_get (w_fs w') outf = None \/ w_fs w' = w_fs w.
Proof.
  intros Lp. rewrite main_crypt_single by exact Lp. destruct enc.
  - destruct (encrypt_file _ _ _ _ _ _ _ _ _ _ _ _ _) as [w1 ok] eqn:E. intros Q NZ. inversion Q; subst.
    destruct ok; [congruence|]. eapply encrypt_file_clean; eassumption.
  - destruct (decrypt_file _ _ _ _ _ _ _ _ _ _ _ _ _) as [w1 ok] eqn:E. intros Q NZ. inversion Q; subst.
    destruct ok; [congruence|]. eapply decrypt_file_clean; eassumption.
Qed.

Theorem generate_clean cfg o w kf w' ex : c_genpw_chk cfg = true ->
  main_generate cfg o w kf = (w', ex) -> ex <> 0 -> fs_get (w_fs w') kf = None \/ w_fs w' = w_fs w.
Proof.
  intro C. unfold main_generate. rewrite C. cbn [andb].
  destruct (safe_open_w o w kf) as [w1 oo] eqn:E1. apply safe_open_w_res in E1.
  destruct oo as [out|].
  2:{ intros Q _. inversion Q; subst. right. destruct E1 as [[_ E1]|E1]; [exact E1|discriminate]. }
  destruct E1 as [[E1 _]|E1]; [discriminate|]. inversion E1; subst out.
  destruct (sys_random o w1 40) as [w2 [rb|]].
  2:{ intros Q _. inversion Q; subst. left. unfold sys_unlink, with_fs. cbn [w_fs]. apply fs_get_del_same. }
  destruct (safe_file_write cfg o w2 kf _) as [w3 n1]. destruct (wfailed n1).
  { intros Q _. inversion Q; subst. left. unfold sys_unlink, with_fs. cbn [w_fs]. apply fs_get_del_same. }
  destruct (safe_file_write cfg o w3 kf _) as [w4 n2]. destruct (wfailed n2); intros Q NZ; inversion Q; subst; [|congruence].
  left. unfold sys_unlink, with_fs. cbn [w_fs]. apply fs_get_del_same.
Qed.

(* ==== a toy instance of the cryptography that satisfies crypto_good ======================
   (identity "encryption" with a 16-byte checksum as tag) - used to show that the
   hypotheses are satisfiable and to evaluate the model on concrete runs. *)
Definition toy_sum (l : bytes) : N := fold_left N.add l 0%N.
Definition toy_tag (c : N) (k n ad m : bytes) : bytes :=
  let s := (c + toy_sum k + 3 * toy_sum n + 5 * toy_sum ad + 7 * toy_sum m + N.of_nat (length m))%N in
  map (fun i => N.land (s + N.of_nat i * 37) 255) (seq 0 16).
Definition toy_enc (c : N) (k n ad m : bytes) : bytes := m ++ toy_tag c k n ad m.
Definition toy_dec (c : N) (k n ad ct : bytes) : option bytes :=
  if length ct <? 16 then None
  else let m := firstn (length ct - 16) ct in
       if beqb (skipn (length ct - 16) ct) (toy_tag c k n ad m) then Some m else None.
Definition toy_ast := (bytes * bytes * bytes * bytes)%type.
Definition toy_start (k n ad : bytes) : toy_ast := (k, n, ad, []).
Definition toy_encb (st : toy_ast) (d : bytes) : toy_ast * bytes :=
  let '(k, n, ad, acc) := st in ((k, n, ad, acc ++ d), d).
Definition toy_encf (st : toy_ast) : bytes := let '(k, n, ad, acc) := st in toy_tag 1 k n ad acc.
Definition toy_decf (st : toy_ast) (t : bytes) : bool := let '(k, n, ad, acc) := st in beqb t (toy_tag 1 k n ad acc).
Definition toy_pbkdf2 (pw salt : bytes) : bytes := firstn 36 (pw ++ salt ++ repeat 9%N 36).

Definition toyK : crypto := {|
  k_pbkdf2 := toy_pbkdf2; k_siv_enc := toy_enc 2; k_siv_dec := toy_dec 2; k_ast := toy_ast;
  k_start := toy_start; k_encb := toy_encb; k_encf := toy_encf; k_decb := toy_encb; k_decf := toy_decf;
  k_aenc := toy_enc 1; k_adec := toy_dec 1 |}.

Lemma toy_tag_len c k n ad m : length (toy_tag c k n ad m) = 16.
Proof. unfold toy_tag. rewrite map_length, seq_length. reflexivity. Qed.

Lemma toy_exact c k n ad ct m :
  toy_dec c k n ad ct = Some m <-> length ct = length m + 16 /\ toy_enc c k n ad m = ct.
Proof.
  unfold toy_dec, toy_enc. split.
  - destruct (length ct <? 16) eqn:L; [discriminate|]. apply Nat.ltb_ge in L.
    destruct (beqb _ _) eqn:B; [|discriminate]. intro Q. inversion Q; subst m. clear Q.
    apply beqb_eq in B. rewrite <- B, firstn_skipn. split; [|reflexivity]. rewrite firstn_length. lia.
  - intros [L E]. subst ct. rewrite app_length, toy_tag_len.
    assert (length m + 16 <? 16 = false) as -> by (apply Nat.ltb_ge; lia).
    replace (length m + 16 - 16) with (length m + 0) by lia.
    rewrite firstn_app_2. cbn [firstn]. rewrite app_nil_r, Nat.add_0_r, skipn_app, skipn_all, Nat.sub_diag.
    cbn [skipn app]. rewrite beqb_refl. reflexivity.
Qed.

Lemma toy_run chunks : forall k n ad acc,
  run_encb toy_ast toy_encb (k, n, ad, acc) chunks = ((k, n, ad, acc ++ concat chunks), concat chunks).
Proof.
  induction chunks as [|d r IH]; intros k n ad acc; cbn [run_encb concat]; [rewrite app_nil_r; reflexivity|].
  cbn [toy_encb]. rewrite IH, <- app_assoc. reflexivity.
Qed.
Lemma toy_run_dec chunks : forall st, run_decb toy_ast toy_encb st chunks = run_encb toy_ast toy_encb st chunks.
Proof. induction chunks as [|d r IH]; intro st; cbn [run_encb run_decb]; [reflexivity|]. destruct (toy_encb st d). rewrite IH. reflexivity. Qed.

Lemma toy_good : crypto_good toyK.
Proof.
  unfold crypto_good, toyK. cbn [k_pbkdf2 k_siv_enc k_siv_dec k_ast k_start k_encb k_encf k_decb k_decf k_aenc k_adec].
  constructor.
  - intros pw salt. unfold toy_pbkdf2. rewrite firstn_length, !app_length, repeat_length. lia.
  - intros k n ad m _. unfold toy_enc. rewrite app_length, toy_tag_len. reflexivity.
  - intros k n ad c m _. apply toy_exact.
  - intros k n ad m _. unfold toy_enc. rewrite app_length, toy_tag_len. reflexivity.
  - intros k n ad c m _. apply toy_exact.
  - intros k n ad chunks _. unfold toy_start. rewrite toy_run. cbn [fst snd toy_encf app]. reflexivity.
  - intros k n ad chunks tag _ Lt. unfold toy_start. rewrite toy_run_dec, toy_run. cbn [fst snd toy_decf app].
    unfold toy_dec. rewrite app_length, Lt.
    assert (length (concat chunks) + 16 <? 16 = false) as -> by (apply Nat.ltb_ge; lia).
    replace (length (concat chunks) + 16 - 16) with (length (concat chunks) + 0) by lia.
    rewrite firstn_app_2. cbn [firstn]. rewrite app_nil_r, Nat.add_0_r, skipn_app, skipn_all, Nat.sub_diag.
    cbn [skipn app]. reflexivity.
  - intros [[[k n] ad] acc] d. reflexivity.
  - intros [[[k n] ad] acc] d. reflexivity.
Qed.

(* oracles for concrete runs: every call succeeds except those listed *)
Definition toy_rand (k n : nat) : option bytes := Some (map (fun i => N.of_nat ((k * 50 + 3 * i + 1) mod 256)) (seq 0 n)).
Definition ok_oracle : oracle :=
  {| o_open := fun _ => false; o_read := fun _ => XOK; o_write := fun _ => XOK; o_rand := toy_rand; o_gets := fun _ => false |}.
Definition wfail_oracle (k : nat) : oracle :=
  {| o_open := fun _ => false; o_read := fun _ => XOK; o_write := fun i => if i =? k then XFAIL else XOK;
     o_rand := toy_rand; o_gets := fun _ => false |}.
(* short reads and writes everywhere: at most 1 + (k mod 7) bytes per call *)
Definition short_oracle : oracle :=
  {| o_open := fun _ => false; o_read := fun k => XSHORT (k mod 7); o_write := fun k => XSHORT (k mod 5);
     o_rand := toy_rand; o_gets := fun _ => false |}.

(* ---- wrappers for the property file ------------------------------------------------------ *)
Lemma relevant_fixed c : c <> CGets -> relevant fixed c.
Proof. unfold relevant. destruct c; intro H; try (left; reflexivity); try (right; left; reflexivity);
  try (right; right; left; reflexivity); try (right; right; right; split; reflexivity); congruence. Qed.
Lemma relevant_shipped c : c = COpen \/ c = CRead \/ c = CRand -> relevant shipped c.
Proof. unfold relevant. intros [H|[H|H]]; subst; auto. Qed.

Theorem faults_fixed (K : crypto) bufsiz o c0 k0 enc src fs files w' ex : c0 <> CGets -> fails_at o c0 k0 ->
  Main_crypt K bufsiz fixed o enc src (world0 fs) files = (w', ex) -> ex <> 0 \/ cget c0 (w_cnt w') <= k0.
Proof. intros N FA. apply faults_main_crypt; [exact FA|apply relevant_fixed; exact N]. Qed.
Theorem faults_shipped (K : crypto) bufsiz o c0 k0 enc src fs files w' ex : c0 = COpen \/ c0 = CRead \/ c0 = CRand ->
  fails_at o c0 k0 ->
  Main_crypt K bufsiz shipped o enc src (world0 fs) files = (w', ex) -> ex <> 0 \/ cget c0 (w_cnt w') <= k0.
Proof. intros N FA. apply faults_main_crypt; [exact FA|apply relevant_shipped; exact N]. Qed.
Theorem generate_faults_fixed o c0 k0 fs kf w' ex : c0 <> CGets -> fails_at o c0 k0 ->
  main_generate fixed o (world0 fs) kf = (w', ex) -> ex <> 0 \/ cget c0 (w_cnt w') <= k0.
Proof. intros N FA. apply faults_main_generate; [exact FA|apply relevant_fixed; exact N|left; reflexivity]. Qed.
Theorem generate_faults_shipped o c0 k0 fs kf w' ex : c0 = COpen \/ c0 = CRead \/ c0 = CRand -> fails_at o c0 k0 ->
  main_generate shipped o (world0 fs) kf = (w', ex) -> ex <> 0 \/ cget c0 (w_cnt w') <= k0.
Proof. intros N FA. apply faults_main_generate; [exact FA|apply relevant_shipped; exact N|right; reflexivity]. Qed.

(* ---- concrete runs (toy cryptography, BUFSIZ 24) ------------------------------------------- *)
Definition ex_in : path := [105;110]%N.             (* "in" *)
Definition ex_enc : path := [101;110;99]%N.         (* "enc" *)
Definition ex_out : path := [111;117;116]%N.        (* "out" *)
Definition ex_pw : bytes := [115;101;99;114;101;116]%N.
Definition ex_content : bytes := map (fun i => N.of_nat ((7 * i + 3) mod 256)) (seq 0 61).
Definition ex_fs : fsys := [(ex_in, ex_content)].
Definition ex_encrypted : world * nat := Main_crypt toyK 24 shipped short_oracle true (PwArg ex_pw) (world0 ex_fs) [(ex_in, ex_enc)].
Definition ex_image : bytes := cont (w_fs (fst ex_encrypted)) ex_enc.
Definition ex_decrypt (o : oracle) (pw image : bytes) : world * nat :=
  Main_crypt toyK 24 shipped o false (PwArg pw) (world0 [(ex_enc, image)]) [(ex_enc, ex_out)].

(* In the shipped tree a failed write is not reported: the 5th write(2) (the first
   ciphertext block) fails, asconcrypt exits 0 and keeps an output file that no longer decrypts. *)
Lemma write_fault_refuted :
  exists (K : crypto) (bufsiz k : nat) (o : oracle) (pw : bytes) (fs : fsys) (inf encf outf : path) (w1 : world),
    crypto_good K /\ 16 < bufsiz /\ fails_at o CWrite k /\
    Main_crypt K bufsiz shipped o true (PwArg pw) (world0 fs) [(inf, encf)] = (w1, 0) /\
    k < cget CWrite (w_cnt w1) /\ fget CWrite (w_flg w1) = true /\
    fs_get (w_fs w1) encf <> None /\
    snd (Main_crypt K bufsiz shipped ok_oracle false (PwArg pw) (world0 (w_fs w1)) [(encf, outf)]) = 1.
Proof.
  exists toyK, 24, 4, (wfail_oracle 4), ex_pw, ex_fs, ex_in, ex_enc, ex_out.
  exists (fst (Main_crypt toyK 24 shipped (wfail_oracle 4) true (PwArg ex_pw) (world0 ex_fs) [(ex_in, ex_enc)])).
  split; [exact toy_good|]. split; [lia|]. split; [reflexivity|].
  vm_compute. repeat split; try reflexivity; try lia. discriminate.
Qed.

(* the same for asconcrypt -g: the write of the generated password fails, exit status 0,
   and a key file holding only the newline is left *)
Lemma generate_write_fault_refuted :
  exists (o : oracle) (kf : path) (w1 : world),
    fails_at o CWrite 0 /\ main_generate shipped o (world0 []) kf = (w1, 0) /\ fs_get (w_fs w1) kf = Some [10%N].
Proof.
  exists (wfail_oracle 0), ex_out, (fst (main_generate shipped (wfail_oracle 0) (world0 []) ex_out)).
  split; [reflexivity|]. vm_compute. split; reflexivity.
Qed.

Lemma nonvacuous_runs :
  crypto_good toyK /\ nofail short_oracle /\ nofail ok_oracle /\
  snd ex_encrypted = 0 /\ length ex_image = 96 + 61 /\
  (* round trip, under short reads and writes *)
  (let r := ex_decrypt short_oracle ex_pw ex_image in snd r = 0 /\ fs_get (w_fs (fst r)) ex_out = Some ex_content) /\
  (* a flipped bit in the payload, in the tag, in the salt; truncation; extension; wrong password *)
  (let r := ex_decrypt ok_oracle ex_pw (xor_at ex_image 100 [1%N]) in
   snd r = 1 /\ fs_get (w_fs (fst r)) ex_out = None /\ w_err (fst r) = [ECorrupt]) /\
  (let r := ex_decrypt ok_oracle ex_pw (xor_at ex_image 156 [128%N]) in
   snd r = 1 /\ fs_get (w_fs (fst r)) ex_out = None /\ w_err (fst r) = [ECorrupt]) /\
  (let r := ex_decrypt ok_oracle ex_pw (xor_at ex_image 20 [4%N]) in
   snd r = 1 /\ fs_get (w_fs (fst r)) ex_out = None /\ w_err (fst r) = [EBadPassword]) /\
  (let r := ex_decrypt ok_oracle ex_pw (firstn 156 ex_image) in
   snd r = 1 /\ fs_get (w_fs (fst r)) ex_out = None /\ w_err (fst r) = [ECorrupt]) /\
  (let r := ex_decrypt ok_oracle ex_pw (firstn 90 ex_image) in
   snd r = 1 /\ fs_get (w_fs (fst r)) ex_out = None /\ w_err (fst r) = [ETruncated]) /\
  (let r := ex_decrypt ok_oracle ex_pw (firstn 79 ex_image) in
   snd r = 1 /\ fs_get (w_fs (fst r)) ex_out = None /\ w_err (fst r) = [EBadFormat]) /\
  (let r := ex_decrypt ok_oracle ex_pw (ex_image ++ [0%N]) in
   snd r = 1 /\ fs_get (w_fs (fst r)) ex_out = None /\ w_err (fst r) = [ECorrupt]) /\
  (let r := ex_decrypt ok_oracle (ex_pw ++ [33%N]) ex_image in
   snd r = 1 /\ fs_get (w_fs (fst r)) ex_out = None /\ w_err (fst r) = [EBadPassword]).
Proof.
  split; [exact toy_good|]. split; [repeat split; intro k; discriminate|]. split; [repeat split; intro k; discriminate|].
  vm_compute. repeat split; reflexivity.
Qed.
