(* Model/Aeadm.v refines Spec/Aead.v. *)
From AsconV Require Import Model.Aeadm Proofs.SpongeP.
From Coq Require Import ZArith.
Local Open Scope nat_scope.

Definition wf_variant (v : aead_variant) : Prop :=
  length (v_iv v) + v_klen v = 24 /\ 0 < v_rate v /\ v_rate v <= 40 /\ 16 <= v_klen v.

Lemma wf_a128 : wf_variant a128.   Proof. cbv; lia. Qed.
Lemma wf_a128a : wf_variant a128a. Proof. cbv; lia. Qed.
Lemma wf_a80pq : wf_variant a80pq. Proof. cbv; lia. Qed.

(* ---- set_at / xor_at basics ------------------------------------------- *)

Lemma set_at_len s off d : length (set_at s off d) = length s.
Proof.
  revert off d; induction s as [|x s IH]; intros off d; [reflexivity|].
  destruct off as [|o]; cbn [set_at].
  - destruct d as [|y d]; [reflexivity|]. cbn. now rewrite IH.
  - cbn. now rewrite IH.
Qed.

Lemma set_at_app_r a b d : set_at (a ++ b) (length a) d = a ++ set_at b 0 d.
Proof.
  induction a as [|x a IH]; [reflexivity|]. cbn [app length set_at]. now rewrite IH.
Qed.

Lemma set_at_0_full a b d : length d = length a -> set_at (a ++ b) 0 d = d ++ b.
Proof.
  revert d; induction a as [|x a IH]; intros d H.
  - destruct d; [|discriminate]. cbn. destruct b; reflexivity.
  - destruct d as [|y d]; [discriminate|]. cbn [app set_at]. rewrite IH by (cbn in H; lia). reflexivity.
Qed.

Lemma zeros_app a b : zeros (a + b) = zeros a ++ zeros b.
Proof. unfold zeros. now rewrite repeat_app. Qed.

(* overwriting IV, key and nonce into the zeroed state gives IV || K || N *)
Lemma start_state_concat iv K N : length iv + length K = 24 -> length N = 16 ->
  set_at (set_at (set_at (zeros 40) 0 iv) (length iv) K) 24 N = iv ++ K ++ N.
Proof.
  intros H1 H2.
  replace 40 with (length iv + (length K + 16)) by lia.
  rewrite zeros_app, zeros_app.
  rewrite (set_at_0_full (zeros (length iv))) by (unfold zeros; now rewrite repeat_length).
  rewrite set_at_app_r.
  rewrite (set_at_0_full (zeros (length K))) by (unfold zeros; now rewrite repeat_length).
  replace 24 with (length (iv ++ K)) by (rewrite app_length; lia).
  rewrite app_assoc. rewrite set_at_app_r.
  replace (zeros 16) with (zeros 16 ++ []) by apply app_nil_r.
  rewrite set_at_0_full by (unfold zeros; rewrite repeat_length; lia).
  now rewrite app_nil_r, <- app_assoc.
Qed.

(* upd_at with bf_enc is xor_at on the state *)
Lemma upd_at_enc_state st off d : fst (upd_at bf_enc st off d) = xor_at st off d.
Proof.
  revert off d; induction st as [|x st IH]; intros off d; [reflexivity|].
  destruct off as [|o]; cbn [upd_at xor_at].
  - destruct d as [|y d]; [reflexivity|]. cbn [bf_enc].
    specialize (IH 0 d). destruct (upd_at bf_enc st 0 d). cbn in *. now rewrite IH.
  - specialize (IH o d). destruct (upd_at bf_enc st o d). cbn in *. now rewrite IH.
Qed.

(* ---- check_tag --------------------------------------------------------- *)

Local Open Scope N_scope.

Lemma lor_fold_zero l acc : fold_left N.lor l acc = 0 <-> acc = 0 /\ Forall (fun x => x = 0) l.
Proof.
  revert acc; induction l as [|x l IH]; intros acc; cbn [fold_left].
  - split; [intros ->; split; auto|intros [H _]; exact H].
  - rewrite IH. rewrite N.lor_eq_0_iff. split.
    + intros [[Ha Hx] Hl]. split; auto.
    + intros [Ha Hl]. inversion Hl; subst. auto.
Qed.

Lemma lt256_shiftr x : x < 256 <-> N.shiftr x 8 = 0.
Proof.
  rewrite N.shiftr_div_pow2. change (2 ^ 8) with 256. split.
  - intros H. now apply N.div_small.
  - intros H. apply N.div_small_iff in H; [exact H|discriminate].
Qed.

Lemma lor_fold_lt l acc : acc < 256 -> Forall (fun x => x < 256) l -> fold_left N.lor l acc < 256.
Proof.
  revert acc; induction l as [|x l IH]; intros acc Ha Hl; cbn [fold_left]; [exact Ha|].
  inversion Hl; subst. apply IH; [|assumption].
  apply lt256_shiftr. rewrite N.shiftr_lor. apply lt256_shiftr in Ha. apply lt256_shiftr in H1.
  rewrite Ha, H1. reflexivity.
Qed.

Lemma lxor_lt256 x y : x < 256 -> y < 256 -> N.lxor x y < 256.
Proof.
  intros Hx Hy. apply lt256_shiftr. rewrite N.shiftr_lxor.
  apply lt256_shiftr in Hx. apply lt256_shiftr in Hy. rewrite Hx, Hy. reflexivity.
Qed.

Definition bytes_ok (l : bytes) : Prop := Forall (fun x => x < 256) l.

Lemma xorl_zero_iff t1 t2 : length t1 = length t2 ->
  (Forall (fun x => x = 0) (xorl t1 t2) <-> t1 = t2).
Proof.
  revert t2; induction t1 as [|x t1 IH]; intros t2 H; destruct t2 as [|y t2]; try discriminate.
  - split; auto. intros; constructor.
  - cbn [xorl]. split.
    + intros F. inversion F; subst. apply N.lxor_eq in H2. subst. f_equal. apply IH; auto.
    + intros E. inversion E; subst. constructor; [apply N.lxor_nilpotent|]. apply IH; auto.
Qed.

Lemma xorl_ok t1 t2 : bytes_ok t1 -> bytes_ok t2 -> bytes_ok (xorl t1 t2).
Proof.
  revert t2; induction t1 as [|x t1 IH]; intros t2 H1 H2; [constructor|].
  destruct t2 as [|y t2]; [constructor|]. inversion H1; inversion H2; subst.
  cbn [xorl]. constructor; [now apply lxor_lt256|]. now apply IH.
Qed.

Lemma beq_bytes_iff a b : beq_bytes a b = true <-> a = b.
Proof.
  revert b; induction a as [|x a IH]; intros b; destruct b as [|y b]; cbn [beq_bytes]; try (split; congruence).
  rewrite Bool.andb_true_iff, N.eqb_eq, IH. split; [intros [-> ->]; reflexivity|intros E; inversion E; auto].
Qed.

(* The tag comparison is exact: 0 and the buffer untouched when the tags are
   equal; -1 and the buffer zeroed when they differ in any bit of any byte. *)
Theorem check_tag_exact m t1 t2 : length t1 = length t2 -> bytes_ok t1 -> bytes_ok t2 ->
  check_tag m t1 t2 = if beq_bytes t1 t2 then (0%Z, m) else ((-1)%Z, map (fun _ => 0) m).
Proof.
  intros Hl H1 H2. unfold check_tag, tag_mask.
  destruct (beq_bytes t1 t2) eqn:E.
  - apply beq_bytes_iff in E. subst t2.
    assert (A : tag_accum t1 t1 = 0).
    { unfold tag_accum. apply lor_fold_zero. split; auto. now apply xorl_zero_iff. }
    rewrite A. cbn [Z.of_N Z.sub Z.add Z.opp Z.shiftr Z.shiftl Z.lnot Z.pred Z.pos_sub].
    change (Z.shiftr (0 - 1) 8) with (-1)%Z. f_equal.
    rewrite <- (map_id m) at 2. apply map_ext. intros b. rewrite Z.land_m1_r. apply N2Z.id.
  - assert (A : tag_accum t1 t2 <> 0).
    { unfold tag_accum. intros C. apply lor_fold_zero in C. destruct C as [_ C].
      apply xorl_zero_iff in C; auto. subst. rewrite (proj2 (beq_bytes_iff t2 t2) eq_refl) in E. discriminate. }
    assert (B : tag_accum t1 t2 < 256).
    { unfold tag_accum. apply lor_fold_lt; [reflexivity|]. now apply xorl_ok. }
    assert (M : Z.shiftr (Z.of_N (tag_accum t1 t2) - 1) 8 = 0%Z).
    { rewrite Z.shiftr_div_pow2 by lia. change (2 ^ 8)%Z with 256%Z. apply Z.div_small. lia. }
    rewrite M. f_equal. apply map_ext. intros b. now rewrite Z.land_0_r.
Qed.

Local Close Scope N_scope.

(* ---- the modes ---------------------------------------------------------- *)

Section WithPerm.
Variable perm : nat -> bytes -> bytes.
Hypothesis perm_len : forall r s, length s = 40 -> length (perm r s) = 40.

Variable v : aead_variant.
Hypothesis Hv : wf_variant v.

Local Notation f := (perm (v_pb v)).
Local Notation rate := (v_rate v).

Lemma f_len40 : forall s, length s = 40 -> length (f s) = 40.
Proof. intros; now apply perm_len. Qed.

Lemma init_state_len K N : wf_kn v K N -> length (init_state perm v K N) = 40.
Proof.
  intros [HK HN]. unfold init_state. rewrite xor_at_len. apply perm_len.
  destruct Hv as [H1 _]. rewrite !app_length. lia.
Qed.

(* what duplex_c returns from an aligned state, in terms of the specification *)
Lemma duplex_c_spec bf st m : length st = 40 ->
  let '((s1, pos), o) := duplex_c bf f rate (st, 0) m in
  pos = length m mod rate /\ (xor_at s1 pos [0x80%N], o) = spec_duplex bf f rate st m.
Proof.
  intros Hl. destruct Hv as [_ [Hr0 [Hr40 _]]].
  rewrite (duplex_c_serial bf f rate 40 f_len40 Hr0 Hr40) by (auto; exact Hr0).
  exact (serial_spec bf f rate 40 f_len40 Hr0 Hr40 st m Hl).
Qed.

Lemma aead_absorb_c_spec s A : length s = 40 -> A <> [] ->
  aead_absorb_c perm v s A = absorb_ad perm v s A.
Proof.
  intros Hl Hne. unfold aead_absorb_c, absorb_ad. destruct A as [|a A]; [congruence|].
  destruct Hv as [_ [Hr0 [Hr40 _]]].
  rewrite (aligned_c_serial bf_enc f rate 40 f_len40 Hr0 Hr40) by exact Hl.
  pose proof (serial_spec bf_enc f rate 40 f_len40 Hr0 Hr40 s (a :: A) Hl) as S.
  destruct (serial bf_enc f rate (s, 0) (a :: A)) as [[s1 pos] o].
  destruct S as [_ S]. rewrite <- S. reflexivity.
Qed.

Lemma start_c_spec K N A : wf_kn v K N ->
  start_c perm v K N A = pre_state perm v K N A.
Proof.
  intros Hkn. pose proof Hkn as [HK HN]. unfold start_c, pre_state, separator.
  destruct Hv as [H1 _].
  rewrite start_state_concat by lia. fold (init_state perm v K N).
  destruct A as [|a A]; [reflexivity|].
  rewrite aead_absorb_c_spec; [reflexivity|now apply init_state_len|discriminate].
Qed.

Lemma pre_state_len K N A : wf_kn v K N -> length (pre_state perm v K N A) = 40.
Proof.
  intros Hkn. unfold pre_state, separator. rewrite xor_at_len.
  unfold absorb_ad. destruct A as [|a A]; [now apply init_state_len|].
  apply perm_len. unfold spec_duplex.
  destruct Hv as [_ [Hr0 [Hr40 _]]].
  pose proof (run_full_len bf_enc f rate 40 f_len40 Hr0 Hr40 (init_state perm v K N)
               (chunks rate (firstn (length (a :: A) / rate * rate) (a :: A))) (init_state_len K N Hkn)) as L.
  destruct (run_full bf_enc f (init_state perm v K N) _) as [s1 o1]. cbn [fst] in L.
  pose proof (upd_at_len bf_enc s1 0 (skipn (length (a :: A) / rate * rate) (a :: A))) as L2.
  destruct (upd_at bf_enc s1 0 _) as [s2 o2]. cbn [fst] in *. rewrite xor_at_len. lia.
Qed.

Lemma finalize_c_spec s pos K :
  finalize_c perm v s pos K = finalize perm v (xor_at s pos [0x80%N]) K.
Proof. reflexivity. Qed.

(* C01: the one-shot C shape computes the specification and reports |P|+16 *)
Theorem encrypt_c_spec K N A P : wf_kn v K N ->
  encrypt_c perm v K N A P = (encrypt perm v K N A P, length P + 16).
Proof.
  intros Hkn. unfold encrypt_c, encrypt. rewrite start_c_spec by exact Hkn.
  pose proof (duplex_c_spec bf_enc (pre_state perm v K N A) P (pre_state_len K N A Hkn)) as D.
  destruct (duplex_c bf_enc f rate (pre_state perm v K N A, 0) P) as [[s1 pos] o].
  destruct D as [_ D]. rewrite <- D. rewrite finalize_c_spec. reflexivity.
Qed.

(* chunked processing through the C routine = one call on the concatenation *)
Lemma duplex_c_chunks bf (chunks : list bytes) : forall st pos acc, pos < rate -> length st = 40 ->
  fold_left (fun '(sp, acc) d => let '(sp', o) := duplex_c bf f rate sp d in (sp', acc ++ o)) chunks ((st, pos), acc) =
  (fst (duplex_c bf f rate (st, pos) (concat chunks)), acc ++ snd (duplex_c bf f rate (st, pos) (concat chunks))).
Proof.
  destruct Hv as [_ [Hr0 [Hr40 _]]].
  induction chunks as [|d ds IH]; intros st pos acc Hp Hl.
  - cbn [fold_left concat]. rewrite (duplex_c_serial bf f rate 40 f_len40 Hr0 Hr40) by auto.
    cbn. now rewrite app_nil_r.
  - cbn [fold_left concat].
    rewrite (duplex_c_serial bf f rate 40 f_len40 Hr0 Hr40 st pos (d ++ concat ds)) by auto.
    rewrite serial_app.
    rewrite (duplex_c_serial bf f rate 40 f_len40 Hr0 Hr40 st pos d) by auto.
    pose proof (serial_inv bf f rate 40 f_len40 Hr0 Hr40 st pos d Hp Hl) as [I1 [I2 _]].
    destruct (serial bf f rate (st, pos) d) as [[s1 p1] o1]. cbn [fst snd] in *.
    rewrite IH by auto.
    rewrite (duplex_c_serial bf f rate 40 f_len40 Hr0 Hr40 s1 p1 (concat ds)) by auto.
    now rewrite app_assoc.
Qed.


(* ---- incremental interface ---------------------------------------------- *)

Lemma inc_fold_enc (chunks : list bytes) : forall s acc, i_posn s < rate -> length (i_st s) = 40 ->
  fold_left (fun '(s, acc) d => let '(s', o) := inc_encrypt_block perm v s d in (s', acc ++ o)) chunks (s, acc) =
  let D := duplex_c bf_enc f rate (i_st s, i_posn s) (concat chunks) in
  ({| i_st := fst (fst D); i_key := i_key s; i_nonce := i_nonce s; i_posn := snd (fst D) |}, acc ++ snd D).
Proof.
  destruct Hv as [_ [Hr0 [Hr40 _]]].
  induction chunks as [|d ds IH]; intros s acc Hp Hl.
  - cbn [fold_left concat]. rewrite (duplex_c_serial bf_enc f rate 40 f_len40 Hr0 Hr40) by auto.
    cbn. rewrite app_nil_r. destruct s; reflexivity.
  - cbn [fold_left concat]. unfold inc_encrypt_block at 2.
    rewrite (duplex_c_serial bf_enc f rate 40 f_len40 Hr0 Hr40 (i_st s) (i_posn s) (d ++ concat ds)) by auto.
    rewrite serial_app.
    rewrite (duplex_c_serial bf_enc f rate 40 f_len40 Hr0 Hr40 (i_st s) (i_posn s) d) by auto.
    pose proof (serial_inv bf_enc f rate 40 f_len40 Hr0 Hr40 (i_st s) (i_posn s) d Hp Hl) as [I1 [I2 _]].
    destruct (serial bf_enc f rate (i_st s, i_posn s) d) as [[s1 p1] o1]. cbn [fst snd] in *.
    rewrite IH by (cbn; auto). cbn [i_st i_posn i_key i_nonce].
    rewrite (duplex_c_serial bf_enc f rate 40 f_len40 Hr0 Hr40 s1 p1 (concat ds)) by auto.
    cbv zeta. now rewrite app_assoc.
Qed.

Lemma start_c_len K N A : wf_kn v K N -> length (start_c perm v K N A) = 40.
Proof. intros H. rewrite start_c_spec by exact H. now apply pre_state_len. Qed.

(* C01/C07: an incremental encryption, however the plaintext is split into
   calls (empty calls included), returns the one-shot value *)
Theorem inc_encrypt_run_spec K N A chunks : wf_kn v K N ->
  inc_encrypt_run perm v K N A chunks = encrypt perm v K N A (concat chunks).
Proof.
  intros Hkn. unfold inc_encrypt_run.
  pose proof (encrypt_c_spec K N A (concat chunks) Hkn) as E. unfold encrypt_c in E.
  destruct Hv as [_ [Hr0 _]].
  rewrite inc_fold_enc; [|exact Hr0|cbn; now apply start_c_len].
  cbn [inc_start inc_init inc_reinit i_st i_posn i_key i_nonce].
  destruct (duplex_c bf_enc f rate (start_c perm v K N A, 0) (concat chunks)) as [[s1 p1] c].
  cbv zeta. cbn [fst snd app]. unfold inc_encrypt_finalize, inc_final_state. cbn [snd i_st i_posn i_key].
  injection E as E1. rewrite <- E1. reflexivity.
Qed.

(* ---- decryption ---------------------------------------------------------- *)

Lemma spec_duplex_dec_enc st c s p : length st = 40 ->
  spec_duplex bf_dec f rate st c = (s, p) ->
  spec_duplex bf_enc f rate st p = (s, c) /\ length p = length c.
Proof.
  intros Hl H. destruct Hv as [_ [Hr0 [Hr40 _]]].
  pose proof (serial_spec bf_dec f rate 40 f_len40 Hr0 Hr40 st c Hl) as SD.
  pose proof (serial_enc_dec f rate 40 f_len40 Hr0 Hr40 c st 0 Hr0 Hl) as SE.
  pose proof (serial_inv bf_dec f rate 40 f_len40 Hr0 Hr40 st 0 c Hr0 Hl) as [_ [_ [I3 _]]].
  destruct (serial bf_dec f rate (st, 0) c) as [[s1 pos] o]. cbn [fst snd] in *.
  destruct SD as [Hpos SD]. rewrite H in SD. inversion SD; subst s p. clear SD.
  pose proof (serial_spec bf_enc f rate 40 f_len40 Hr0 Hr40 st o Hl) as SP.
  rewrite SE in SP. destruct SP as [Hpos2 SP]. split; [|exact I3]. now rewrite <- SP.
Qed.

Lemma spec_duplex_enc_dec st p s c : length st = 40 ->
  spec_duplex bf_enc f rate st p = (s, c) ->
  spec_duplex bf_dec f rate st c = (s, p) /\ length c = length p.
Proof.
  intros Hl H. destruct Hv as [_ [Hr0 [Hr40 _]]].
  pose proof (serial_spec bf_enc f rate 40 f_len40 Hr0 Hr40 st p Hl) as SD.
  pose proof (serial_dec_enc f rate 40 f_len40 Hr0 Hr40 p st 0 Hr0 Hl) as SE.
  pose proof (serial_inv bf_enc f rate 40 f_len40 Hr0 Hr40 st 0 p Hr0 Hl) as [_ [_ [I3 _]]].
  destruct (serial bf_enc f rate (st, 0) p) as [[s1 pos] o]. cbn [fst snd] in *.
  destruct SD as [Hpos SD]. rewrite H in SD. inversion SD; subst s c. clear SD.
  pose proof (serial_spec bf_dec f rate 40 f_len40 Hr0 Hr40 st o Hl) as SP.
  rewrite SE in SP. destruct SP as [Hpos2 SP]. split; [|exact I3]. now rewrite <- SP.
Qed.

Lemma finalize_len s K : length s = 40 -> length (finalize perm v s K) = 16.
Proof.
  intros Hl. unfold finalize, get_at. rewrite firstn_length, skipn_length, xor_at_len.
  rewrite perm_len by now rewrite xor_at_len. reflexivity.
Qed.

Lemma spec_duplex_len bf st m : length st = 40 -> length (fst (spec_duplex bf f rate st m)) = 40.
Proof.
  intros Hl. destruct Hv as [_ [Hr0 [Hr40 _]]].
  pose proof (serial_spec bf f rate 40 f_len40 Hr0 Hr40 st m Hl) as SD.
  pose proof (serial_inv bf f rate 40 f_len40 Hr0 Hr40 st 0 m Hr0 Hl) as [_ [I2 _]].
  destruct (serial bf f rate (st, 0) m) as [[s1 pos] o]. cbn [fst snd] in *.
  destruct SD as [_ SD]. rewrite <- SD. cbn [fst]. now rewrite xor_at_len.
Qed.

(* C02: decryption succeeds exactly on genuine encryptions *)
Theorem decrypt_exact K N A C m : wf_kn v K N ->
  decrypt perm v K N A C = Some m <->
  (length C = length m + 16 /\ encrypt perm v K N A m = C).
Proof.
  intros Hkn. pose proof (pre_state_len K N A Hkn) as Hl. unfold decrypt, encrypt. split.
  - destruct (Nat.ltb_spec (length C) 16) as [Hs|Hs]; [discriminate|].
    destruct (spec_duplex bf_dec f rate (pre_state perm v K N A) (firstn (length C - 16) C)) as [s p] eqn:E.
    destruct (beq_bytes (finalize perm v s K) (skipn (length C - 16) C)) eqn:B; [|discriminate].
    intros H. inversion H; subst p. clear H.
    apply spec_duplex_dec_enc in E; [|exact Hl]. destruct E as [E Elen].
    rewrite firstn_length in Elen. rewrite E. apply beq_bytes_iff in B. rewrite B.
    split; [lia|apply firstn_skipn].
  - intros [Hlen H].
    destruct (spec_duplex bf_enc f rate (pre_state perm v K N A) m) as [s c] eqn:E.
    apply spec_duplex_enc_dec in E; [|exact Hl]. destruct E as [E Elen].
    destruct (Nat.ltb_spec (length C) 16) as [Hs|Hs]; [lia|].
    assert (Hn : length C - 16 = length c) by lia. rewrite Hn.
    assert (F : firstn (length c) C = c).
    { rewrite <- H. rewrite firstn_app, Nat.sub_diag, firstn_O, app_nil_r. apply firstn_all. }
    assert (S : skipn (length c) C = finalize perm v s K).
    { rewrite <- H. rewrite skipn_app, Nat.sub_diag, skipn_all. reflexivity. }
    rewrite F, E, S. rewrite (proj2 (beq_bytes_iff _ _) eq_refl). reflexivity.
Qed.

(* corollaries: round trip; any other tag is rejected *)
Corollary decrypt_encrypt K N A m : wf_kn v K N ->
  decrypt perm v K N A (encrypt perm v K N A m) = Some m.
Proof.
  intros Hkn. apply decrypt_exact; [exact Hkn|]. split; [|reflexivity].
  unfold encrypt. pose proof (pre_state_len K N A Hkn) as Hl.
  destruct (spec_duplex bf_enc f rate (pre_state perm v K N A) m) as [s c] eqn:E.
  pose proof (spec_duplex_len bf_enc (pre_state perm v K N A) m Hl) as L. rewrite E in L. cbn [fst] in L.
  apply spec_duplex_enc_dec in E; [|exact Hl]. destruct E as [_ Elen].
  rewrite app_length, finalize_len by exact L. lia.
Qed.

Hypothesis perm_ok : forall r s, bytes_ok (perm r s).

Lemma bytes_ok_xor_at s off d : bytes_ok s -> bytes_ok d -> bytes_ok (xor_at s off d).
Proof.
  revert off d; induction s as [|x s IH]; intros off d Hs Hd; [constructor|].
  inversion Hs; subst. destruct off as [|o]; cbn [xor_at].
  - destruct d as [|y d]; [exact Hs|]. inversion Hd; subst.
    constructor; [now apply lxor_lt256|]. now apply IH.
  - constructor; [assumption|]. now apply IH.
Qed.

Lemma bytes_ok_firstn n l : bytes_ok l -> bytes_ok (firstn n l).
Proof.
  intros H. rewrite <- (firstn_skipn n l) in H. apply Forall_app in H. exact (proj1 H).
Qed.
Lemma bytes_ok_skipn n l : bytes_ok l -> bytes_ok (skipn n l).
Proof.
  intros H. rewrite <- (firstn_skipn n l) in H. apply Forall_app in H. exact (proj2 H).
Qed.

Lemma finalize_ok s K : bytes_ok K -> bytes_ok (finalize perm v s K).
Proof.
  intros HK. unfold finalize, get_at. apply bytes_ok_firstn, bytes_ok_skipn, bytes_ok_xor_at; [apply perm_ok|].
  now apply bytes_ok_skipn.
Qed.

Lemma map_zero_zeros (l : bytes) : map (fun _ => 0%N) l = zeros (length l).
Proof. induction l as [|x l IH]; [reflexivity|]. cbn. now rewrite IH. Qed.

(* C02: the C-shaped one-shot decryption returns 0 and the plaintext exactly
   when the specification accepts, and otherwise -1 with the whole plaintext
   buffer zeroed; an input shorter than the tag is refused before anything is
   written. *)
Theorem decrypt_c_spec K N A C : wf_kn v K N -> bytes_ok K -> bytes_ok C ->
  decrypt_c perm v K N A C =
  if length C <? 16 then DecShort
  else match decrypt perm v K N A C with
       | Some m => DecDone 0 m
       | None => DecDone (-1) (zeros (length C - 16))
       end.
Proof.
  intros Hkn HK HC. unfold decrypt_c, decrypt.
  destruct (Nat.ltb_spec (length C) 16) as [Hs|Hs]; [reflexivity|].
  rewrite start_c_spec by exact Hkn.
  pose proof (pre_state_len K N A Hkn) as Hl.
  pose proof (duplex_c_spec bf_dec (pre_state perm v K N A) (firstn (length C - 16) C) Hl) as D.
  destruct Hv as [_ [Hr0 [Hr40 _]]].
  pose proof (serial_inv bf_dec f rate 40 f_len40 Hr0 Hr40 (pre_state perm v K N A) 0 (firstn (length C - 16) C) Hr0 Hl) as [_ [I2 [I3 _]]].
  rewrite <- (duplex_c_serial bf_dec f rate 40 f_len40 Hr0 Hr40) in I2, I3 by auto.
  destruct (duplex_c bf_dec f rate (pre_state perm v K N A, 0) (firstn (length C - 16) C)) as [[s1 pos] o].
  cbn [fst snd] in *. destruct D as [_ D]. rewrite <- D. rewrite finalize_c_spec.
  rewrite check_tag_exact.
  - destruct (beq_bytes _ _); [reflexivity|].
    rewrite map_zero_zeros, I3, firstn_length. f_equal. f_equal. lia.
  - rewrite finalize_len by now rewrite xor_at_len. rewrite skipn_length. lia.
  - now apply finalize_ok.
  - now apply bytes_ok_skipn.
Qed.

End WithPerm.
