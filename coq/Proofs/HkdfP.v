(* HKDF: the {prk; out; counter; posn} machine of ascon-hkdf-common.h serves
   successive segments of RFC 5869's OKM stream, zero-fills and returns -1
   beyond 255 blocks. *)
From AsconV Require Import Model.Macm Proofs.SpongeP Proofs.SqueezeP Proofs.AeadP Proofs.XofP Proofs.MacP.
From Coq Require Import ZArith.
Local Open Scope nat_scope.

Section WithPerm.
Variable perm : nat -> bytes -> bytes.
Hypothesis perm_len : forall r s, length s = 40 -> length (perm r s) = 40.
Variable v : xof_variant.
Hypothesis Hx : v = vxof \/ v = vxofa.
Variable prk info : bytes.

Local Notation H := (hash perm v).
Local Notation T := (hkdf_T H prk info).

Lemma hmac_len K m : length (hmac H K m) = 32.
Proof. unfold hmac. apply (H_len perm perm_len v Hx). Qed.

Lemma T_len i : 1 <= i -> length (T i) = 32.
Proof. intros Hi. destruct i; [lia|]. cbn [hkdf_T]. apply hmac_len. Qed.

(* what is left of the OKM stream when block j has been generated and p of
   its bytes consumed (j = 0: nothing generated yet, p = 32) *)
Definition rest (j : nat) : bytes := flat_map T (seq (S j) (255 - j)).
Definition okm_from (j p : nat) : bytes := skipn p (T j) ++ rest j.

Lemma rest_step j : j < 255 -> rest j = T (S j) ++ rest (S j).
Proof.
  intros Hj. unfold rest. replace (255 - j) with (S (255 - S j)) by lia. reflexivity.
Qed.

Lemma rest_len j : j <= 255 -> length (rest j) = 32 * (255 - j).
Proof.
  intros Hj. remember (255 - j) as k eqn:Hk. revert j Hj Hk.
  induction k as [|k IH]; intros j Hj Hk.
  - unfold rest. rewrite <- Hk. reflexivity.
  - rewrite rest_step by lia. rewrite app_length, T_len by lia. rewrite (IH (S j)) by lia. lia.
Qed.

Lemma okm0 : okm_from 0 32 = hkdf_okm H prk info.
Proof. reflexivity. Qed.

(* the representation invariant *)
Definition R (j p : nat) (s : hkdf_state) : Prop :=
  k_prk s = prk /\ k_counter s = (j + 1) mod 256 /\ k_posn s = p /\ j <= 255 /\ p <= 32 /\
  (j = 0 -> p = 32) /\ (1 <= j -> k_out s = T j) /\ length (k_out s) = 32.

Lemma hkdf_block_spec j p s : R j p s -> j < 255 ->
  hkdf_block perm v s info =
  {| k_prk := prk; k_out := T (S j); k_counter := (S j + 1) mod 256; k_posn := p |}.
Proof.
  intros (Hp & Hc & Hpo & Hj & _ & _ & Ho & _) Hlt. unfold hkdf_block.
  rewrite Hc, Hp, Hpo. rewrite (Nat.mod_small (j + 1)) by lia.
  f_equal; [|f_equal; lia].
  destruct (Nat.eqb_spec (j + 1) 1) as [e|ne].
  - assert (j = 0) by lia. subst j.
    change (snd (hmac_finalize perm v (hmac_update perm v (hmac_update perm v (hmac_init perm v prk) info) [N.of_nat (0 + 1)]) prk))
      with (hmac_run perm v prk [info; [N.of_nat 1]]).
    rewrite (hmac_run_spec perm perm_len v Hx). cbn [concat hkdf_T app]. reflexivity.
  - change (snd (hmac_finalize perm v (hmac_update perm v (hmac_update perm v (hmac_update perm v (hmac_init perm v prk) (k_out s)) info) [N.of_nat (j + 1)]) prk))
      with (hmac_run perm v prk [k_out s; info; [N.of_nat (j + 1)]]).
    rewrite (hmac_run_spec perm perm_len v Hx). rewrite Ho by lia. replace (j + 1) with (S j) by lia.
    cbn [concat hkdf_T app]. destruct j as [|j']; [lia|]. cbn [app]. reflexivity.
Qed.

Lemma firstn_app_le {A} n (a b : list A) : n <= length a -> firstn n (a ++ b) = firstn n a.
Proof. intros Hn. rewrite firstn_app. replace (n - length a) with 0 by lia. now rewrite firstn_O, app_nil_r. Qed.
Lemma firstn_app_ge {A} n (a b : list A) : length a <= n -> firstn n (a ++ b) = a ++ firstn (n - length a) b.
Proof. intros Hn. rewrite firstn_app. now rewrite (firstn_all2 (n := n)) by exact Hn. Qed.
Lemma skipn_app_le {A} n (a b : list A) : n <= length a -> skipn n (a ++ b) = skipn n a ++ b.
Proof. intros Hn. rewrite skipn_app. replace (n - length a) with 0 by lia. reflexivity. Qed.

Lemma okm_from_32 j : j <= 255 -> okm_from j 32 = rest j.
Proof.
  intros Hj. unfold okm_from. destruct j as [|j]; [reflexivity|].
  rewrite skipn_all2 by (rewrite T_len; lia). reflexivity.
Qed.

Lemma head_len j p : j <= 255 -> p <= 32 -> (j = 0 -> p = 32) -> length (skipn p (T j)) = 32 - p.
Proof.
  intros Hj Hp H0. destruct j as [|j].
  - rewrite (H0 eq_refl). reflexivity.
  - rewrite skipn_length, T_len by lia. reflexivity.
Qed.

(* the block loop; when it has something to produce the current block is used up *)
Lemma hkdf_loop_spec fuel : forall j p s n, n <= fuel -> R j p s -> (0 < n -> p = 32) ->
  exists s' j' p',
    hkdf_loop perm fuel v s info n =
      (s', firstn n (rest j) ++ zeros (n - length (rest j)), if n <=? length (rest j) then 0%Z else (-1)%Z) /\
    R j' p' s' /\ okm_from j' p' = skipn n (okm_from j p).
Proof.
  induction fuel as [|f IH]; intros j p s n Hf HR Hp.
  - replace n with 0 by lia. exists s, j, p. cbn. auto.
  - cbn [hkdf_loop]. destruct (Nat.eqb_spec n 0) as [e|ne].
    + subst n. exists s, j, p. cbn. auto.
    + assert (p = 32) by (apply Hp; lia). subst p.
      pose proof HR as (Hprk & Hc & Hpo & Hj & Hp32 & Hj0 & Ho & Lo).
      destruct (Nat.eqb_spec (k_counter s) 0) as [c0|cn].
      * assert (j = 255).
        { rewrite Hc in c0. destruct (Nat.eq_dec j 255); [auto|]. rewrite Nat.mod_small in c0 by lia. lia. }
        subst j. exists s, 255, 32. unfold rest at 1 2 3. cbn [Nat.sub seq flat_map length].
        rewrite firstn_nil, Nat.sub_0_r. cbn [app].
        destruct (Nat.leb_spec n 0) as [C|_]; [lia|]. split; [reflexivity|]. split; [exact HR|].
        rewrite okm_from_32 by lia. unfold rest. cbn [Nat.sub seq flat_map]. now rewrite skipn_nil.
      * assert (Hlt : j < 255).
        { destruct (Nat.eq_dec j 255) as [e|n0]; [|lia]. subst j. rewrite Hc in cn. cbn in cn. lia. }
        rewrite (hkdf_block_spec j 32 s HR Hlt). cbn [k_prk k_out k_counter k_posn].
        set (len := Nat.min 32 n).
        set (s2 := {| k_prk := prk; k_out := T (S j); k_counter := (S j + 1) mod 256; k_posn := len |}).
        assert (R2 : R (S j) len s2).
        { unfold R, s2. cbn [k_prk k_out k_counter k_posn].
          repeat split; auto; try (unfold len; lia); try (intros; unfold len; lia); try (rewrite T_len; lia). }
        destruct (IH (S j) len s2 (n - len)) as (s' & j' & p' & EL & R' & EO); [unfold len; lia|exact R2|unfold len; lia|].
        exists s', j', p'. rewrite EL.
        pose proof (rest_len j Hj) as Lj. pose proof (rest_len (S j) Hlt) as LSj.
        pose proof (T_len (S j) (le_n_S _ _ (Nat.le_0_l j))) as LT.
        rewrite (rest_step j Hlt).
        split; [|split; [exact R'|]].
        -- f_equal; [f_equal|].
           ++ destruct (Nat.le_gt_cases n 32) as [Hn|Hn].
              ** assert (len = n) by (unfold len; lia). rewrite H. rewrite Nat.sub_diag. cbn [firstn app].
                 rewrite firstn_app_le by lia. rewrite app_length.
                 replace (n - (length (T (S j)) + length (rest (S j)))) with 0 by lia.
                 replace (0 - length (rest (S j))) with 0 by lia. reflexivity.
              ** assert (len = 32) by (unfold len; lia). rewrite H.
                 rewrite (firstn_all2 (n := 32)) by lia.
                 rewrite firstn_app_ge by lia. rewrite LT, <- app_assoc. f_equal. f_equal.
                 rewrite app_length. f_equal. lia.
           ++ rewrite app_length, LT.
              destruct (Nat.leb_spec (n - len) (length (rest (S j)))); destruct (Nat.leb_spec n (32 + length (rest (S j)))); try reflexivity; unfold len in *; lia.
        -- rewrite EO. rewrite okm_from_32 by lia. rewrite (rest_step j Hlt). unfold okm_from.
           assert (Hl : len <= length (T (S j))) by (unfold len; lia).
           rewrite <- (skipn_app_le len (T (S j)) (rest (S j)) Hl).
           rewrite skipn_add. f_equal. unfold len. lia.
Qed.

(* <alg>_expand from any reachable state *)
Theorem hkdf_expand_spec j p s n : R j p s ->
  exists s' j' p',
    hkdf_expand_c perm v s info n =
      (s', firstn n (okm_from j p) ++ zeros (n - length (okm_from j p)),
       if n <=? length (okm_from j p) then 0%Z else (-1)%Z) /\
    R j' p' s' /\ okm_from j' p' = skipn n (okm_from j p).
Proof.
  intros HR. pose proof HR as (Hprk & Hc & Hpo & Hj & Hp32 & Hj0 & Ho & Lo).
  unfold hkdf_expand_c. rewrite Hpo. set (len := Nat.min (32 - p) n).
  set (s1 := {| k_prk := k_prk s; k_out := k_out s; k_counter := k_counter s; k_posn := p + len |}).
  assert (R1 : R j (p + len) s1).
  { unfold R, s1. cbn [k_prk k_out k_counter k_posn].
    repeat split; auto; try (unfold len; lia); try (intros E; specialize (Hj0 E); unfold len; lia). }
  destruct (hkdf_loop_spec (n - len) j (p + len) s1 (n - len) (le_n _) R1) as (s' & j' & p' & EL & R' & EO); [unfold len; lia|].
  exists s', j', p'. rewrite EL. pose proof (head_len j p Hj Hp32 Hj0) as HL.
  pose proof (rest_len j Hj) as Lj.
  assert (G : get_at (k_out s) p len = firstn len (skipn p (T j))).
  { unfold get_at. destruct j as [|j].
    - assert (Z0 : len = 0) by (pose proof (Hj0 eq_refl); unfold len; lia). rewrite Z0. reflexivity.
    - rewrite Ho by lia. reflexivity. }
  rewrite G. unfold okm_from at 1 2 3. rewrite app_length, HL.
  split; [|split; [exact R'|]].
  - f_equal; [f_equal|].
    + destruct (Nat.le_gt_cases n (32 - p)) as [Hn|Hn].
      * assert (len = n) by (unfold len; lia). rewrite H, Nat.sub_diag. cbn [firstn app].
        rewrite firstn_app_le by lia. replace (n - (32 - p + length (rest j))) with 0 by lia.
        replace (0 - length (rest j)) with 0 by lia. now rewrite !app_nil_r.
      * assert (len = 32 - p) by (unfold len; lia). rewrite H.
        rewrite (firstn_all2 (n := 32 - p)) by lia.
        rewrite firstn_app_ge by lia. rewrite HL, <- app_assoc. f_equal. f_equal. f_equal. lia.
    + destruct (Nat.leb_spec (n - len) (length (rest j))); destruct (Nat.leb_spec n (32 - p + length (rest j))); try reflexivity; unfold len in *; lia.
  - rewrite EO. unfold okm_from.
    assert (Hl : len <= length (skipn p (T j))) by (unfold len; lia).
    replace (skipn (p + len) (T j)) with (skipn len (skipn p (T j))) by apply skipn_add.
    rewrite <- (skipn_app_le len _ (rest j) Hl). rewrite skipn_add. f_equal. unfold len. lia.
Qed.

End WithPerm.

Section Stream.
Variable perm : nat -> bytes -> bytes.
Hypothesis perm_len : forall r s, length s = 40 -> length (perm r s) = 40.
Variable v : xof_variant.
Hypothesis Hx : v = vxof \/ v = vxofa.
Local Notation H := (hash perm v).

(* a whole session: extract, then any sequence of expand requests with one info string *)
Fixpoint expand_all (s : hkdf_state) (info : bytes) (reqs : list nat) : list (bytes * Z) :=
  match reqs with
  | [] => []
  | n :: ns => let '(s', o, r) := hkdf_expand_c perm v s info n in (o, r) :: expand_all s' info ns
  end.

(* the specification of the same session over the remaining OKM stream *)
Fixpoint serve (stream : bytes) (reqs : list nat) : list (bytes * Z) :=
  match reqs with
  | [] => []
  | n :: ns => (firstn n stream ++ zeros (n - length stream), if n <=? length stream then 0%Z else (-1)%Z)
               :: serve (skipn n stream) ns
  end.

Lemma expand_all_spec prk info reqs : forall j p s, R perm v prk info j p s ->
  expand_all s info reqs = serve (okm_from perm v prk info j p) reqs.
Proof.
  induction reqs as [|n ns IH]; intros j p s HR; [reflexivity|].
  cbn [expand_all serve].
  destruct (hkdf_expand_spec perm perm_len v Hx prk info j p s n HR) as (s' & j' & p' & E & R' & EO).
  rewrite E. f_equal. rewrite (IH j' p' s' R'). now rewrite EO.
Qed.

Lemma extract_R key salt info :
  R perm v (hkdf_extract H salt key) info 0 32 (hkdf_extract_c perm v key salt).
Proof.
  unfold R, hkdf_extract_c, hkdf_extract. cbn [k_prk k_out k_counter k_posn].
  rewrite (hmac_run_spec perm perm_len v Hx). cbn [concat]. rewrite app_nil_r.
  repeat split; auto; try lia.
Qed.

(* C05: every sequence of expand requests after extract is served from RFC
   5869's OKM = T(1) || ... || T(255): request n at offset t returns
   OKM[t, t+n) and 0 while t + n <= 8160; beyond that the part that cannot be
   served is zero-filled and the result is -1 *)
Theorem hkdf_stream key salt info reqs :
  expand_all (hkdf_extract_c perm v key salt) info reqs =
  serve (hkdf_okm H (hkdf_extract H salt key) info) reqs.
Proof.
  rewrite (expand_all_spec _ info reqs 0 32 _ (extract_R key salt info)). reflexivity.
Qed.

Lemma okm_len prk info : length (hkdf_okm H prk info) = 32 * 255.
Proof.
  change (hkdf_okm H prk info) with (rest perm v prk info 0).
  rewrite (rest_len perm perm_len v Hx prk info 0) by lia. reflexivity.
Qed.

(* one-shot: -1 and nothing written beyond 255 blocks, else the OKM prefix *)
Theorem hkdf_oneshot key salt info n :
  hkdf_c perm v key salt info n =
  if 255 * 32 <? n then None else Some (firstn n (hkdf_okm H (hkdf_extract H salt key) info)).
Proof.
  unfold hkdf_c. destruct (Nat.ltb_spec (255 * 32) n) as [Hn|Hn]; [reflexivity|].
  pose proof (hkdf_stream key salt info [n]) as S. cbn [expand_all serve] in S.
  destruct (hkdf_expand_c perm v (hkdf_extract_c perm v key salt) info n) as [[s' o] r].
  inversion S as [[E1 E2]]. rewrite okm_len. replace (n - 32 * 255) with 0 by lia. unfold zeros. cbn [repeat]. now rewrite app_nil_r.
Qed.

End Stream.
