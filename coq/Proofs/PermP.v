(* Facts about Spec.Perm.perm needed to instantiate the mode-level theorems:
   it always returns 40 bytes, each below 256. *)
From AsconV Require Import Spec.Perm Proofs.AeadP.
Local Open Scope nat_scope.

Lemma be_encode_len n x : length (be_encode n x) = n.
Proof. revert x; induction n as [|n IH]; intros x; [reflexivity|]. cbn [be_encode]. rewrite app_length, IH. cbn. lia. Qed.

Lemma be_encode_ok n x : bytes_ok (be_encode n x).
Proof.
  revert x; induction n as [|n IH]; intros x; [constructor|]. cbn [be_encode].
  apply Forall_app. split; [apply IH|]. constructor; [|constructor].
  apply lt256_shiftr. rewrite N.shiftr_land. change (N.shiftr 255 8) with 0%N. apply N.land_0_r.
Qed.

Lemma bytes_of_words_len w : length (bytes_of_words w) = 40.
Proof. destruct w as [[[[a b] c] d] e]. unfold bytes_of_words. rewrite !app_length, !be_encode_len. reflexivity. Qed.

Lemma bytes_of_words_ok w : bytes_ok (bytes_of_words w).
Proof.
  destruct w as [[[[a b] c] d] e]. unfold bytes_of_words.
  unfold bytes_ok. rewrite !Forall_app. repeat split; apply be_encode_ok.
Qed.

Lemma perm_len : forall r s, length s = 40 -> length (perm r s) = 40.
Proof. intros. apply bytes_of_words_len. Qed.

Lemma perm_ok : forall r s, bytes_ok (perm r s).
Proof. intros. apply bytes_of_words_ok. Qed.
