(* Proofs about main() of asconcrypt (Model/Clim.v, main_args0 / crypt_files_c / main_generate_c): C19. *)
From AsconV Require Import Model.Clim Proofs.ClimP.
From Coq Require Import ZArith Lia.
Local Open Scope nat_scope.

Definition Main_args0 (K : crypto) :=
  main_args0 (k_pbkdf2 K) (k_siv_enc K) (k_siv_dec K) (k_ast K) (k_start K) (k_encb K) (k_encf K) (k_decb K) (k_decf K).
Definition Crypt_files_c (K : crypto) :=
  crypt_files_c (k_pbkdf2 K) (k_siv_enc K) (k_siv_dec K) (k_ast K) (k_start K) (k_encb K) (k_encf K) (k_decb K) (k_decf K).
Definition Crypt_files (K : crypto) :=
  crypt_files (k_pbkdf2 K) (k_siv_enc K) (k_siv_dec K) (k_ast K) (k_start K) (k_encb K) (k_encf K) (k_decb K) (k_decf K).

Section Args.
Variable K : crypto.
Variable bufsiz : nat.
Variable cfg : config.
Variable o : oracle.

Notation cfc := (Crypt_files_c K bufsiz cfg o).
Notation one_file enc := (if enc then encrypt_file (k_pbkdf2 K) (k_siv_enc K) (k_ast K) (k_start K) (k_encb K) (k_encf K) bufsiz cfg o
                          else decrypt_file (k_pbkdf2 K) (k_siv_dec K) (k_ast K) (k_start K) (k_decb K) (k_decf K) bufsiz cfg o).

Lemma cfc_cons cchk oc enc pw w i ofile rest ex kc :
  cfc cchk oc enc pw w ((i, ofile) :: rest) ex kc =
  let '(w1, ok) := one_file enc pw w i ofile in
  if opened_out o w w1 && negb (beqb ofile stdout_name) then
    if cchk && oc kc && ok
    then cfc cchk oc enc pw (sys_unlink (add_err w1 EPerror) ofile) rest 1 (S kc)
    else cfc cchk oc enc pw w1 rest (if ok then ex else 1) (S kc)
  else cfc cchk oc enc pw w1 rest (if ok then ex else 1) kc.
Proof. destruct enc; reflexivity. Qed.

(* ---- the tree as it is: the close results do not matter ------------------------------- *)
Lemma cfc_nochk oc enc pw files : forall w ex kc,
  fst (cfc false oc enc pw w files ex kc) = Crypt_files K bufsiz cfg o enc pw w files ex.
Proof.
  induction files as [|[i ofile] rest IH]; intros w ex kc; [reflexivity|].
  rewrite cfc_cons. unfold Crypt_files. cbn [crypt_files]. fold (Crypt_files K bufsiz cfg o).
  destruct enc.
  - destruct (encrypt_file _ _ _ _ _ _ _ _ _ _ _ _ _) as [w1 ok]. cbn [andb].
    destruct (opened_out o w w1 && negb (beqb ofile stdout_name)); apply IH.
  - destruct (decrypt_file _ _ _ _ _ _ _ _ _ _ _ _ _) as [w1 ok]. cbn [andb].
    destruct (opened_out o w w1 && negb (beqb ofile stdout_name)); apply IH.
Qed.

(* ---- exit status is monotone over the file loop ----------------------------------------- *)
Lemma cfc_mono cchk oc enc pw files : forall w ex kc w' ex' kc',
  cfc cchk oc enc pw w files ex kc = (w', ex', kc') -> ex <> 0 -> ex' <> 0.
Proof.
  induction files as [|[i ofile] rest IH]; intros w ex kc w' ex' kc' H NZ.
  - cbn in H. inversion H; subst. exact NZ.
  - rewrite cfc_cons in H. destruct (one_file enc pw w i ofile) as [w1 ok].
    destruct (opened_out o w w1 && negb (beqb ofile stdout_name)).
    + destruct (cchk && oc kc && ok).
      * eapply IH; [exact H|discriminate].
      * eapply IH; [exact H|]. destruct ok; [exact NZ|discriminate].
    + eapply IH; [exact H|]. destruct ok; [exact NZ|discriminate].
Qed.

Lemma cfc_count cchk oc enc pw files : forall w ex kc w' ex' kc',
  cfc cchk oc enc pw w files ex kc = (w', ex', kc') -> kc <= kc'.
Proof.
  induction files as [|[i ofile] rest IH]; intros w ex kc w' ex' kc' H.
  - cbn in H. inversion H; subst. lia.
  - rewrite cfc_cons in H. destruct (one_file enc pw w i ofile) as [w1 ok].
    destruct (opened_out o w w1 && negb (beqb ofile stdout_name)).
    + destruct (cchk && oc kc && ok); apply IH in H; lia.
    + apply IH in H; lia.
Qed.

(* ---- with the close patch: a failing close of an output descriptor fails the run --------- *)
Lemma cfc_close_fault oc enc pw k (F : oc k = true) files : forall w ex kc w' ex' kc',
  cfc true oc enc pw w files ex kc = (w', ex', kc') -> kc <= k -> ex' <> 0 \/ kc' <= k.
Proof.
  induction files as [|[i ofile] rest IH]; intros w ex kc w' ex' kc' H L.
  - cbn in H. inversion H; subst. right. exact L.
  - rewrite cfc_cons in H. destruct (one_file enc pw w i ofile) as [w1 ok].
    destruct (opened_out o w w1 && negb (beqb ofile stdout_name)).
    + cbn [andb] in H. destruct (oc kc && ok) eqn:E.
      * left. eapply cfc_mono; [exact H|discriminate].
      * destruct (Nat.eq_dec kc k) as [->|NE].
        -- rewrite F in E. cbn [andb] in E. subst ok. left. eapply cfc_mono; [exact H|discriminate].
        -- eapply IH; [exact H|lia].
    + eapply IH; [exact H|exact L].
Qed.
End Args.

Theorem close_faults_fixed (K : crypto) bufsiz cfg o oc enc pw fs files k w' ex kc :
  oc k = true -> Crypt_files_c K bufsiz cfg o true oc enc pw (world0 fs) files 0 0 = (w', ex, kc) ->
  ex <> 0 \/ kc <= k.
Proof. intros F H. eapply cfc_close_fault; [exact F|exact H|lia]. Qed.

(* one (input, output) pair: whatever fails - any call of the oracle, the close of the output -
   a non-zero status means that the output path is absent afterwards, or nothing was touched *)
Theorem close_fail_clean (K : crypto) bufsiz cfg o cchk oc enc pw w inf outf w' ex kc :
  Crypt_files_c K bufsiz cfg o cchk oc enc pw w [(inf, outf)] 0 0 = (w', ex, kc) -> ex <> 0 ->
  fs_get (w_fs w') outf = None \/ w_fs w' = w_fs w.
Proof.
  rewrite (cfc_cons K bufsiz cfg o). intros H NZ.
  assert (C : forall w1 ok, (if enc then encrypt_file (k_pbkdf2 K) (k_siv_enc K) (k_ast K) (k_start K) (k_encb K) (k_encf K) bufsiz cfg o
                             else decrypt_file (k_pbkdf2 K) (k_siv_dec K) (k_ast K) (k_start K) (k_decb K) (k_decf K) bufsiz cfg o)
                            pw w inf outf = (w1, ok) -> ok = false -> fs_get (w_fs w1) outf = None \/ w_fs w1 = w_fs w).
  { intros w1 ok E ->. destruct enc; [eapply encrypt_file_clean|eapply decrypt_file_clean]; exact E. }
  destruct (if enc then _ else _) as [w1 ok] eqn:E. specialize (C w1 ok eq_refl).
  destruct (opened_out o w w1 && negb (beqb outf stdout_name)).
  - destruct (cchk && oc 0 && ok).
    + cbn in H. inversion H; subst. left. unfold sys_unlink, with_fs, add_err. cbn [w_fs]. apply fs_get_del_same.
    + cbn in H. inversion H; subst. destruct ok; [congruence|]. apply C. reflexivity.
  - cbn in H. inversion H; subst. destruct ok; [congruence|]. apply C. reflexivity.
Qed.

(* asconcrypt -g *)
Theorem generate_close_fixed cfg o oc w kf w' ex : oc 0 = true ->
  main_generate_c cfg o true oc w kf = (w', ex) -> ex <> 0.
Proof.
  intro F. unfold main_generate_c. destruct (main_generate cfg o w kf) as [w1 e1]. rewrite F.
  destruct (e1 =? 0) eqn:E; cbn [andb]; intro H; inversion H; subst; [discriminate|].
  apply Nat.eqb_neq in E. exact E.
Qed.
Theorem generate_close_clean cfg o cchk oc w kf w' ex : c_genpw_chk cfg = true ->
  main_generate_c cfg o cchk oc w kf = (w', ex) -> ex <> 0 -> fs_get (w_fs w') kf = None \/ w_fs w' = w_fs w.
Proof.
  intro G. unfold main_generate_c. destruct (main_generate cfg o w kf) as [w1 e1] eqn:E.
  destruct ((e1 =? 0) && cchk && oc 0); intros H NZ; inversion H; subst.
  - left. unfold sys_unlink, with_fs, add_err. cbn [w_fs]. apply fs_get_del_same.
  - eapply generate_clean; eassumption.
Qed.

(* ---- argument validation ------------------------------------------------------------------- *)
Definition arg_error (a : cargs) (t : term) : bool :=
  no_inputs a || both_pk a || o_with_many a || snd (direction a) ||
  (match a_p a, a_k a with None, None => negb (t_tty t) | _, _ => false end).

Theorem args_rejected (K : crypto) bufsiz cfg o fx oc a t w : arg_error a t = true ->
  exists e, Main_args0 K bufsiz cfg o fx oc a t w = (add_err w e, 1).
Proof.
  unfold arg_error, Main_args0, main_args0. intro H.
  destruct (no_inputs a); [eexists; reflexivity|].
  destruct (both_pk a) eqn:B; [eexists; reflexivity|].
  destruct (o_with_many a); [eexists; reflexivity|].
  destruct (direction a) as [m mix]. cbn [snd orb] in H.
  destruct mix; [eexists; reflexivity|]. cbn [orb] in H.
  unfold both_pk in B. destruct (a_p a); [destruct (a_k a); discriminate|]. destruct (a_k a); [discriminate|].
  unfold tty_password. rewrite H. eexists; reflexivity.
Qed.

(* explicit direction and -p: main() is main_crypt on the derived (input, output) names *)
Theorem args_explicit (K : crypto) bufsiz cfg o fx oc a t w enc pw : m_close fx = false ->
  no_inputs a = false -> o_with_many a = false -> a_mode a = Some enc -> a_p a = Some pw -> a_k a = None ->
  Main_args0 K bufsiz cfg o fx oc a t w =
  Main_crypt K bufsiz cfg o enc (PwArg pw) w (map (fun i => (in_name i, out_name bufsiz enc (a_o a) i)) (a_in a)).
Proof.
  intros FX NI OM MO PW KF. unfold Main_args0, main_args0, direction, both_pk. rewrite FX, NI, OM, MO, PW, KF.
  unfold Main_crypt, main_crypt. destruct (get_password o w (PwArg pw)) as [w1 [p|]]; [|reflexivity].
  pose proof (cfc_nochk K bufsiz cfg o oc enc p (map (fun i => (in_name i, out_name bufsiz enc (a_o a) i)) (a_in a)) w1 0 0) as E.
  unfold Crypt_files_c, Crypt_files in E.
  destruct (crypt_files_c _ _ _ _ _ _ _ _ _ _ _ _ _ _ _ _ _ _ _ _) as [[w2 ex] kc]. cbn [fst] in E. exact E.
Qed.

(* direction detection *)
Lemma detect_all_enc l : forallb is_encrypted_filename l = true -> forall mix, detect l (Some false) mix = (Some false, mix).
Proof.
  induction l as [|p l IH]; intros H mix; [reflexivity|]. cbn [forallb] in H. apply andb_true_iff in H. destruct H as [H1 H2].
  cbn [detect]. rewrite H1. apply IH. exact H2.
Qed.
Lemma detect_none_enc l : forallb (fun p => negb (is_encrypted_filename p)) l = true -> forall mix, detect l (Some true) mix = (Some true, mix).
Proof.
  induction l as [|p l IH]; intros H mix; [reflexivity|]. cbn [forallb] in H. apply andb_true_iff in H. destruct H as [H1 H2].
  cbn [detect]. apply negb_true_iff in H1. rewrite H1. apply IH. exact H2.
Qed.

Definition with_mode (a : cargs) (m : option bool) : cargs :=
  {| a_mode := m; a_p := a_p a; a_k := a_k a; a_o := a_o a; a_in := a_in a |}.

Theorem args_detect_decrypt (K : crypto) bufsiz cfg o fx oc a t w :
  a_mode a = None -> no_inputs a = false -> forallb is_encrypted_filename (a_in a) = true ->
  Main_args0 K bufsiz cfg o fx oc a t w = Main_args0 K bufsiz cfg o fx oc (with_mode a (Some false)) t w.
Proof.
  intros M NI H. unfold Main_args0, main_args0, direction, no_inputs, both_pk, o_with_many, with_mode. cbn [a_mode a_p a_k a_o a_in]. rewrite M.
  unfold no_inputs in NI. destruct (a_in a) as [|p l] eqn:E; [discriminate|].
  cbn [forallb] in H. apply andb_true_iff in H. destruct H as [H1 H2]. cbn [detect]. rewrite H1, (detect_all_enc l H2). reflexivity.
Qed.
Theorem args_detect_encrypt (K : crypto) bufsiz cfg o fx oc a t w :
  a_mode a = None -> no_inputs a = false -> forallb (fun p => negb (is_encrypted_filename p)) (a_in a) = true ->
  Main_args0 K bufsiz cfg o fx oc a t w = Main_args0 K bufsiz cfg o fx oc (with_mode a (Some true)) t w.
Proof.
  intros M NI H. unfold Main_args0, main_args0, direction, no_inputs, both_pk, o_with_many, with_mode. cbn [a_mode a_p a_k a_o a_in]. rewrite M.
  unfold no_inputs in NI. destruct (a_in a) as [|p l] eqn:E; [discriminate|].
  cbn [forallb] in H. apply andb_true_iff in H. destruct H as [H1 H2]. apply negb_true_iff in H1. cbn [detect]. rewrite H1, (detect_none_enc l H2). reflexivity.
Qed.
Lemma detect_mix_stays l : forall m, snd (detect l m true) = true.
Proof. induction l as [|p l IH]; intro m; [reflexivity|]. cbn [detect]. destruct (is_encrypted_filename p); destruct m as [[|]|]; apply IH. Qed.
Theorem args_detect_mixture a l1 l2 p q : a_mode a = None -> a_in a = p :: l1 ++ q :: l2 ->
  is_encrypted_filename p = negb (is_encrypted_filename q) -> snd (direction a) = true.
Proof.
  intros M E D. unfold direction. rewrite M, E. clear M E.
  (* after p the direction is Some (negb (is_enc p)) = Some (is_enc q); every later name either keeps it or sets the mixture flag *)
  assert (G : forall l, snd (detect (l ++ q :: l2) (Some (is_encrypted_filename q)) false) = true).
  { induction l as [|x l IH]; cbn [app detect].
    - destruct (is_encrypted_filename q); apply detect_mix_stays.
    - destruct (is_encrypted_filename x), (is_encrypted_filename q); try apply detect_mix_stays; exact IH. }
  cbn [detect]. rewrite D. destruct (is_encrypted_filename q); cbn [negb]; apply G.
Qed.

(* ---- interactive passwords: read_password keeps PWSIZ-1 bytes ----------------------------- *)
Theorem tty_password_decrypt p w :
  tty_password false false {| t_tty := true; t_pass := [Some p] |} w = (w, Some (firstn (PWSIZ - 1) (cstr p))).
Proof. reflexivity. Qed.

Theorem tty_password_encrypt p1 p2 w :
  tty_password false true {| t_tty := true; t_pass := [Some p1; Some p2] |} w =
  if beqb (firstn (PWSIZ - 1) (cstr p1)) (firstn (PWSIZ - 1) (cstr p2)) then (w, Some (firstn (PWSIZ - 1) (cstr p1)))
  else (add_err w EPwMismatch, None).
Proof. reflexivity. Qed.

(* hence a run depends on what was typed only through its first 1023 bytes *)
Theorem tty_truncation (K : crypto) bufsiz cfg o fx oc a w p p' : m_pwlen fx = false ->
  firstn (PWSIZ - 1) (cstr p) = firstn (PWSIZ - 1) (cstr p') ->
  Main_args0 K bufsiz cfg o fx oc a {| t_tty := true; t_pass := [Some p] |} w =
  Main_args0 K bufsiz cfg o fx oc a {| t_tty := true; t_pass := [Some p'] |} w.
Proof.
  intros FX E. unfold Main_args0, main_args0.
  destruct (no_inputs a); [reflexivity|]. destruct (both_pk a); [reflexivity|]. destruct (o_with_many a); [reflexivity|].
  destruct (direction a) as [m mix]. destruct mix; [reflexivity|].
  destruct (a_p a); [reflexivity|]. destruct (a_k a); [reflexivity|].
  unfold tty_password, read_password. rewrite FX. cbn [t_tty t_pass negb hd tl andb]. rewrite E. reflexivity.
Qed.

(* with the patch a typed password of PWSIZ bytes or more ends the run: status 1, nothing touched *)
Theorem tty_long_rejected (K : crypto) bufsiz cfg o fx oc a w p rest : m_pwlen fx = true ->
  a_p a = None -> a_k a = None -> PWSIZ <= length (cstr p) ->
  exists w', Main_args0 K bufsiz cfg o fx oc a {| t_tty := true; t_pass := Some p :: rest |} w = (w', 1) /\
             w_fs w' = w_fs w /\ w_cnt w' = w_cnt w.
Proof.
  intros FX P KF L. unfold Main_args0, main_args0.
  destruct (no_inputs a); [eexists; repeat split|]. destruct (both_pk a); [eexists; repeat split|].
  destruct (o_with_many a); [eexists; repeat split|].
  destruct (direction a) as [m mix]. destruct mix; [eexists; repeat split|].
  rewrite P, KF. unfold tty_password, read_password. rewrite FX. cbn [t_tty t_pass negb hd tl andb].
  assert (PWSIZ <=? length (cstr p) = true) as -> by (apply Nat.leb_le; exact L).
  eexists; repeat split.
Qed.

(* two different passwords of 1024 bytes that asconcrypt cannot tell apart when typed *)
Definition long_pw (last : N) : bytes := repeat 97%N 1023 ++ [last].
Theorem tty_wrong_password_refuted :
  long_pw 97 <> long_pw 98 /\ length (long_pw 97) = PWSIZ /\
  firstn (PWSIZ - 1) (cstr (long_pw 97)) = firstn (PWSIZ - 1) (cstr (long_pw 98)).
Proof.
  split; [|split].
  - intro H. apply (f_equal (fun l => nth 1023 l 0%N)) in H. vm_compute in H. discriminate.
  - vm_compute. reflexivity.
  - vm_compute. reflexivity.
Qed.

(* ---- concrete runs (toy cryptography, BUFSIZ 24) ------------------------------------------- *)
Definition Main_args (K : crypto) :=
  main_args (k_pbkdf2 K) (k_siv_enc K) (k_siv_dec K) (k_ast K) (k_start K) (k_encb K) (k_encf K) (k_decb K) (k_decf K).
Definition xa_name : path := [102;105;108;101;48;48]%N.                 (* "file00" *)
Definition xa_encname : path := xa_name ++ suffix_ascon.                (* "file00.ascon" *)
Definition no_tty : term := {| t_tty := false; t_pass := [] |}.
Definition typed (l : list (option bytes)) : term := {| t_tty := true; t_pass := l |}.
Definition never : nat -> bool := fun _ => false.
Definition first_close : nat -> bool := fun k => k =? 0.
Definition xa (m : option bool) (p : option bytes) (k o : option path) (ins : list path) : cargs :=
  {| a_mode := m; a_p := p; a_k := k; a_o := o; a_in := ins |}.
Definition xa_run (fx : mfix) (oc : nat -> bool) (a : cargs) (t : term) (stdin : bytes) (fs : fsys) : world * nat :=
  Main_args toyK 24 fixed ok_oracle fx oc a t stdin (world0 fs).
Definition xa_fs : fsys := [(xa_name, ex_content)].
Definition xa_encrypted := xa_run as_is never (xa None (Some ex_pw) None None [xa_name]) no_tty [] xa_fs.
Definition xa_image : bytes := cont (w_fs (fst xa_encrypted)) xa_encname.

Lemma args_nonvacuous_runs :
  (* no -e/-d: "file00" is encrypted into "file00.ascon", and "file00.ascon" decrypted into "file00" *)
  snd xa_encrypted = 0 /\ length xa_image = 96 + 61 /\ w_err (fst xa_encrypted) = [] /\
  (let r := xa_run as_is never (xa None (Some ex_pw) None None [xa_encname]) no_tty [] [(xa_encname, xa_image)] in
   snd r = 0 /\ fs_get (w_fs (fst r)) xa_name = Some ex_content) /\
  (* both kinds of name, -p with -k, -o with two inputs, no inputs, no terminal: status 1, nothing touched *)
  (let r := xa_run as_is never (xa None (Some ex_pw) None None [xa_name; xa_encname]) no_tty [] xa_fs in
   snd r = 1 /\ w_err (fst r) = [EDirection] /\ w_fs (fst r) = xa_fs) /\
  (let r := xa_run as_is never (xa (Some true) (Some ex_pw) (Some ex_in) None [xa_name]) no_tty [] xa_fs in
   snd r = 1 /\ w_err (fst r) = [EBothPK] /\ w_fs (fst r) = xa_fs) /\
  (let r := xa_run as_is never (xa (Some true) (Some ex_pw) None (Some ex_out) [xa_name; xa_name]) no_tty [] xa_fs in
   snd r = 1 /\ w_err (fst r) = [EOneInput] /\ w_fs (fst r) = xa_fs) /\
  (let r := xa_run as_is never (xa (Some true) (Some ex_pw) None None []) no_tty [] xa_fs in
   snd r = 1 /\ w_err (fst r) = [EUsage] /\ w_fs (fst r) = xa_fs) /\
  (let r := xa_run as_is never (xa (Some true) None None None [xa_name]) no_tty [] xa_fs in
   snd r = 1 /\ w_err (fst r) = [ENoTerminal] /\ w_fs (fst r) = xa_fs) /\
  (* typed passwords: twice the same to encrypt (the image is the one -p gives), once to decrypt; a typo; no answer *)
  (let r := xa_run as_is never (xa None None None None [xa_name]) (typed [Some ex_pw; Some ex_pw]) [] xa_fs in
   snd r = 0 /\ fs_get (w_fs (fst r)) xa_encname = Some xa_image) /\
  (let r := xa_run as_is never (xa None None None None [xa_encname]) (typed [Some ex_pw]) [] [(xa_encname, xa_image)] in
   snd r = 0 /\ fs_get (w_fs (fst r)) xa_name = Some ex_content) /\
  (let r := xa_run as_is never (xa None None None None [xa_name]) (typed [Some ex_pw; Some (ex_pw ++ [33%N])]) [] xa_fs in
   snd r = 1 /\ w_err (fst r) = [EPwMismatch] /\ w_fs (fst r) = xa_fs) /\
  (let r := xa_run as_is never (xa (Some false) None None None [xa_encname]) (typed [None]) [] [(xa_encname, xa_image)] in
   snd r = 1 /\ w_err (fst r) = [EUsage]) /\
  (* "-": stdin to stdout, both directions; the file system is not touched *)
  (let r := xa_run as_is never (xa (Some true) (Some ex_pw) None None [dash]) no_tty ex_content [] in
   snd r = 0 /\ w_out (fst r) = xa_image /\ w_fs (fst r) = []) /\
  (let r := xa_run as_is never (xa (Some false) (Some ex_pw) None None [dash]) no_tty xa_image [] in
   snd r = 0 /\ w_out (fst r) = ex_content /\ w_fs (fst r) = []) /\
  (let r := xa_run as_is never (xa (Some false) (Some ex_pw) None (Some dash) [xa_encname]) no_tty [] [(xa_encname, xa_image)] in
   snd r = 0 /\ w_out (fst r) = ex_content) /\
  (* the close of the output reports an error: with the patch status 1, a message and no output *)
  (let r := xa_run patched first_close (xa (Some true) (Some ex_pw) None None [xa_name]) no_tty [] xa_fs in
   snd r = 1 /\ fs_get (w_fs (fst r)) xa_encname = None /\ w_err (fst r) = [EPerror]).
Proof. vm_compute. repeat split; reflexivity. Qed.

(* the tree as it is: the close of the output descriptor reports an error (on NFS, or with
   quotas, the data did not reach the disk), asconcrypt exits 0 and the output stays *)
Lemma close_ignored_refuted :
  exists (K : crypto) (bufsiz : nat) (o : oracle) (oc : nat -> bool) (pw : bytes) (fs : fsys) (inf encf : path) (w1 : world) (kc : nat),
    crypto_good K /\ 16 < bufsiz /\ oc 0 = true /\
    Crypt_files_c K bufsiz fixed o false oc true pw (world0 fs) [(inf, encf)] 0 0 = (w1, 0, kc) /\ 0 < kc /\
    fs_get (w_fs w1) encf <> None /\ w_err w1 = [].
Proof.
  exists toyK, 24, ok_oracle, first_close, ex_pw, ex_fs, ex_in, ex_enc.
  exists (fst (fst (Crypt_files_c toyK 24 fixed ok_oracle false first_close true ex_pw (world0 ex_fs) [(ex_in, ex_enc)] 0 0))), 1.
  split; [exact toy_good|]. split; [lia|]. split; [reflexivity|].
  vm_compute. repeat split; try reflexivity; try lia. discriminate.
Qed.
Lemma generate_close_ignored_refuted :
  exists (o : oracle) (oc : nat -> bool) (kf : path) (w1 : world),
    oc 0 = true /\ main_generate_c fixed o false oc (world0 []) kf = (w1, 0) /\ fs_get (w_fs w1) kf <> None.
Proof.
  exists ok_oracle, first_close, ex_out, (fst (main_generate_c fixed ok_oracle false first_close (world0 []) ex_out)).
  split; [reflexivity|]. vm_compute. split; [reflexivity|discriminate].
Qed.
