(* C20 - the ASCON_NO_STL byte_array model refines std::vector values.
   Architecture: every member function changes the heap in one of two ways:
   (1) variable v is re-pointed from slot s to slot s' while the reference
   counts follow (the old target loses one reference and is deleted at zero,
   the new target gains one or is a freshly allocated block with ref = 1):
   relation [repointed], lemma [repoint_ok]; (2) the block of v, held by v
   alone, is changed in place: lemma [mutate_ok].  The per-operation lemmas
   are compositions of these. *)
From AsconV Require Import Spec.Hex Model.Hexm Model.ByteArraym Proofs.HexP.
From Coq Require Import ZArith Lia.
Local Open Scope nat_scope.

(* ---- heap -------------------------------------------------------------- *)
Lemma hget_Some_lt h i b : hget h i = Some b -> i < length h.
Proof.
  unfold hget. intros H. destruct (Nat.lt_ge_cases i (length h)) as [L|L]; [exact L|].
  rewrite nth_overflow in H by exact L. discriminate H.
Qed.
Lemma hget_overflow h i : length h <= i -> hget h i = None.
Proof. intros H. unfold hget. apply nth_overflow, H. Qed.
Lemma hget_hset_eq h i x : i < length h -> hget (hset h i x) i = x.
Proof. intros H. unfold hget, hset. apply nth_upd_eq, H. Qed.
Lemma hget_hset_neq h i j x : i <> j -> hget (hset h j x) i = hget h i.
Proof. intros H. unfold hget, hset. apply nth_upd_neq, H. Qed.
Lemma hset_length h i x : length (hset h i x) = length h.
Proof. apply upd_length. Qed.
Lemma hget_app_new h x : hget (h ++ [x]) (length h) = x.
Proof. unfold hget. rewrite app_nth2, Nat.sub_diag by lia. reflexivity. Qed.
Lemma hget_app_old h x i : i <> length h -> hget (h ++ [x]) i = hget h i.
Proof.
  intros H. unfold hget. destruct (Nat.lt_ge_cases i (length h)) as [L|L].
  - apply app_nth1, L.
  - rewrite !nth_overflow; [reflexivity|lia|rewrite app_length; cbn [length]; lia].
Qed.
Lemma hset_app_last h x y : hset (h ++ [x]) (length h) y = h ++ [y].
Proof. unfold hset. induction h as [|a h IH]; cbn [app length upd]; [reflexivity|]. rewrite IH. reflexivity. Qed.

Lemma set_ref_same b : set_ref b (b_ref b) = b.
Proof. destruct b; reflexivity. Qed.

(* ---- holders ------------------------------------------------------------ *)
Definition isP (s : slot) (i : nat) : nat := if slot_eqb s (Ptr i) then 1 else 0.

Lemma isP_Ptr j i : isP (Ptr j) i = if j =? i then 1 else 0.
Proof. reflexivity. Qed.
Lemma isP_le1 s i : isP s i <= 1.
Proof. unfold isP. destruct (slot_eqb s (Ptr i)); lia. Qed.
Lemma isP_1 s i : isP s i = 1 -> s = Ptr i.
Proof. unfold isP. destruct s as [| |j]; cbn [slot_eqb]; try discriminate. destruct (Nat.eqb_spec j i); [subst; reflexivity|discriminate]. Qed.
Lemma isP_ptr_of s i : isP s i = match ptr_of s with Some j => if j =? i then 1 else 0 | None => 0 end.
Proof. destruct s; reflexivity. Qed.

Lemma holders_cons s vs i : holders (s :: vs) i = isP s i + holders vs i.
Proof. reflexivity. Qed.

Lemma holders_upd vs : forall v s' i, v < length vs ->
  holders (upd vs v s') i + isP (nth v vs Dead) i = holders vs i + isP s' i.
Proof.
  induction vs as [|s vs IH]; intros [|v] s' i Hv; cbn [length] in Hv; try lia.
  - cbn [upd nth]. rewrite !holders_cons. lia.
  - cbn [upd nth]. rewrite !holders_cons. specialize (IH v s' i). lia.
Qed.

Lemma holders_nth vs : forall v i, nth v vs Dead = Ptr i -> 1 <= holders vs i.
Proof.
  induction vs as [|s vs IH]; intros [|v] i H; cbn [nth] in H; try discriminate.
  - subst s. rewrite holders_cons, isP_Ptr, Nat.eqb_refl. lia.
  - rewrite holders_cons. specialize (IH v i H). lia.
Qed.

Lemma holders_two vs : forall v w i, v <> w -> nth v vs Dead = Ptr i -> nth w vs Dead = Ptr i -> 2 <= holders vs i.
Proof.
  induction vs as [|s vs IH]; intros [|v] [|w] i Hne Hv Hw; cbn [nth] in *; try discriminate; try lia.
  - subst s. rewrite holders_cons, isP_Ptr, Nat.eqb_refl. pose proof (holders_nth vs w i Hw). lia.
  - subst s. rewrite holders_cons, isP_Ptr, Nat.eqb_refl. pose proof (holders_nth vs v i Hv). lia.
  - rewrite holders_cons. assert (v <> w) by lia. specialize (IH v w i H Hv Hw). lia.
Qed.

Lemma upd_same {A} (l : list A) v d : upd l v (nth v l d) = l.
Proof.
  revert v; induction l as [|x l IH]; intros [|v]; cbn [upd nth]; try reflexivity. rewrite IH. reflexivity.
Qed.
Lemma upd_upd {A} (l : list A) v x y : upd (upd l v x) v y = upd l v y.
Proof. revert v; induction l as [|a l IH]; intros [|v]; cbn [upd]; try reflexivity. rewrite IH. reflexivity. Qed.
Lemma nth_upd {A} (l : list A) v w x d : v < length l -> nth w (upd l v x) d = if w =? v then x else nth w l d.
Proof.
  intros H. destruct (Nat.eqb_spec w v) as [E|E]; [subst; apply nth_upd_eq, H|apply nth_upd_neq, E].
Qed.

(* ---- invariant ----------------------------------------------------------- *)
Lemma inv_ptr h vs v i : Inv (mkstate h vs) -> nth v vs Dead = Ptr i ->
  exists b, hget h i = Some b /\ b_ref b = holders vs i /\ 1 <= b_ref b /\ blk_ok b.
Proof.
  intros HI Hv. specialize (HI i). cbn [heap_of vars_of] in HI. pose proof (holders_nth vs v i Hv) as Hh.
  destruct (hget h i) as [b|]; [exists b; tauto|lia].
Qed.

Lemma inv_fresh h vs i : Inv (mkstate h vs) -> length h <= i -> holders vs i = 0.
Proof. intros HI Hi. specialize (HI i). cbn [heap_of vars_of] in HI. rewrite hget_overflow in HI by exact Hi. exact HI. Qed.

(* ---- abstraction --------------------------------------------------------- *)
Lemma abs_length st : length (abs st) = length (vars_of st).
Proof. unfold abs. apply map_length. Qed.
Lemma vvar_abs st v : vvar (abs st) v = absv (heap_of st) (var st v).
Proof. unfold vvar, abs, var. change None with (absv (heap_of st) Dead). apply map_nth. Qed.

Lemma abs_frame h h' vs : forall v s', v < length vs ->
  (forall w k, w <> v -> nth w vs Dead = Ptr k -> contents h' (Some k) = contents h (Some k)) ->
  abs (mkstate h' (upd vs v s')) = upd (abs (mkstate h vs)) v (absv h' s').
Proof.
  unfold abs. cbn [heap_of vars_of].
  induction vs as [|s vs IH]; intros [|v] s' Hv Hfr; cbn [length] in Hv; try lia; cbn [upd map].
  - f_equal. clear IH. assert (F : forall w k, nth w vs Dead = Ptr k -> contents h' (Some k) = contents h (Some k)).
    { intros w k Hw. apply (Hfr (S w) k); [lia|exact Hw]. }
    clear Hfr Hv. induction vs as [|t vs IH]; cbn [map]; [reflexivity|]. f_equal.
    + destruct t as [| |k]; cbn [absv]; try reflexivity. f_equal. apply (F 0 k). reflexivity.
    + apply IH. intros w k Hw. apply (F (S w) k). exact Hw.
  - f_equal.
    + destruct s as [| |k]; cbn [absv]; try reflexivity. f_equal. apply (Hfr 0 k); [lia|reflexivity].
    + apply IH; [lia|]. intros w k Hne Hw. apply (Hfr (S w) k); [lia|exact Hw].
Qed.

(* ---- (1) re-pointing a variable ------------------------------------------- *)
Definition repointed (h h' : heap) (s s' : slot) : Prop :=
  forall i, match hget h i with
            | Some b => hget h' i = if b_ref b + isP s' i - isP s i =? 0 then None
                                    else Some (set_ref b (b_ref b + isP s' i - isP s i))
            | None => (isP s' i = 0 /\ hget h' i = None) \/
                      (isP s' i = 1 /\ exists nb, hget h' i = Some nb /\ b_ref nb = 1 /\ blk_ok nb)
            end.

Lemma contents_set_ref h h' k b r : hget h k = Some b -> hget h' k = Some (set_ref b r) ->
  contents h' (Some k) = contents h (Some k).
Proof. intros H H'. unfold contents. rewrite H, H'. reflexivity. Qed.

Lemma repoint_ok h h' vs v s' :
  Inv (mkstate h vs) -> v < length vs -> repointed h h' (nth v vs Dead) s' ->
  Inv (mkstate h' (upd vs v s')) /\
  abs (mkstate h' (upd vs v s')) = upd (abs (mkstate h vs)) v (absv h' s').
Proof.
  intros HI Hv HR. split.
  - intros i. cbn [heap_of vars_of]. specialize (HR i). pose proof (HI i) as HIi. cbn [heap_of vars_of] in HIi.
    pose proof (holders_upd vs v s' i Hv) as HU. pose proof (isP_le1 s' i). pose proof (isP_le1 (nth v vs Dead) i).
    assert (isP (nth v vs Dead) i <= holders vs i).
    { destruct (Nat.eq_dec (isP (nth v vs Dead) i) 1) as [E|E]; [|lia]. apply isP_1 in E. pose proof (holders_nth vs v i E). lia. }
    destruct (hget h i) as [b|].
    + destruct HIi as [Hr [Hge Hok]]. rewrite HR.
      destruct (Nat.eqb_spec (b_ref b + isP s' i - isP (nth v vs Dead) i) 0) as [E|E]; [lia|].
      cbn [set_ref b_ref]. split; [lia|]. split; [lia|]. exact Hok.
    + destruct HR as [[Hs Hn]|[Hs [nb [Hn [Hr Hok]]]]]; rewrite Hn.
      * lia.
      * split; [lia|]. split; [lia|exact Hok].
  - apply abs_frame; [exact Hv|]. intros w k Hne Hw.
    destruct (inv_ptr h vs w k HI Hw) as [b [Hb [Hr [H1 Hok]]]]. specialize (HR k). rewrite Hb in HR.
    assert (isP (nth v vs Dead) k + 1 <= b_ref b).
    { pose proof (isP_le1 (nth v vs Dead) k). destruct (Nat.eq_dec (isP (nth v vs Dead) k) 1) as [E|E]; [|lia].
      apply isP_1 in E. pose proof (holders_two vs v w k (fun e => Hne (eq_sym e)) E Hw). lia. }
    destruct (Nat.eqb_spec (b_ref b + isP s' k - isP (nth v vs Dead) k) 0) as [E|E]; [lia|].
    eapply contents_set_ref; eassumption.
Qed.

(* the pieces of heap surgery *)
Lemma hget_unref h q i :
  hget (unref h q) i =
    match q with
    | Some k => if i =? k then match hget h k with
                               | Some b => if b_ref b - 1 =? 0 then None else Some (set_ref b (b_ref b - 1))
                               | None => None
                               end
                else hget h i
    | None => hget h i
    end.
Proof.
  destruct q as [k|]; [|reflexivity]. unfold unref. destruct (Nat.eqb_spec i k) as [E|E].
  - subst i. destruct (hget h k) as [b|] eqn:Hb; [|exact Hb]. pose proof (hget_Some_lt _ _ _ Hb).
    destruct (b_ref b - 1 =? 0); apply hget_hset_eq; assumption.
  - destruct (hget h k) as [b|]; [|reflexivity]. destruct (b_ref b - 1 =? 0); apply hget_hset_neq; assumption.
Qed.

(* release: v gives up its pointer and becomes Null or Dead *)
Lemma unref_repointed h vs s s' : Inv (mkstate h vs) -> (forall i, isP s' i = 0) ->
  (forall i, s = Ptr i -> 1 <= holders vs i) ->
  repointed h (unref h (ptr_of s)) s s'.
Proof.
  intros HI Hs' Hs i. rewrite hget_unref, Hs', isP_ptr_of. pose proof (HI i) as HIi. cbn [heap_of vars_of] in HIi.
  destruct (ptr_of s) as [k|] eqn:Ek.
  - assert (s = Ptr k) by (destruct s; cbn [ptr_of] in Ek; congruence). subst s.
    destruct (Nat.eqb_spec i k) as [E|E].
    + subst i. rewrite Nat.eqb_refl. destruct (hget h k) as [b|].
      * rewrite Nat.add_0_r. reflexivity.
      * specialize (Hs k eq_refl). lia.
    + destruct (Nat.eqb_spec k i); [congruence|]. destruct (hget h i) as [b|].
      * destruct HIi as [_ [H1 _]]. rewrite Nat.add_0_r, Nat.sub_0_r. destruct (Nat.eqb_spec (b_ref b) 0); [lia|]. rewrite set_ref_same. reflexivity.
      * left. split; reflexivity.
  - destruct (hget h i) as [b|].
    + destruct HIi as [_ [H1 _]]. rewrite Nat.add_0_r, Nat.sub_0_r. destruct (Nat.eqb_spec (b_ref b) 0); [lia|]. rewrite set_ref_same. reflexivity.
    + left. split; reflexivity.
Qed.

(* share: v takes a reference to live block j (not its current one) *)
Lemma share_repointed h vs s j bj : Inv (mkstate h vs) -> hget h j = Some bj -> ptr_of s <> Some j ->
  (forall i, s = Ptr i -> 1 <= holders vs i) ->
  repointed h (unref (hset h j (Some (set_ref bj (b_ref bj + 1)))) (ptr_of s)) s (Ptr j).
Proof.
  intros HI Hj Hne Hs i. pose proof (hget_Some_lt _ _ _ Hj) as Hlt.
  rewrite hget_unref, isP_Ptr, isP_ptr_of. pose proof (HI i) as HIi. cbn [heap_of vars_of] in HIi.
  destruct (ptr_of s) as [k|] eqn:Ek.
  - assert (s = Ptr k) by (destruct s; cbn [ptr_of] in Ek; congruence). subst s.
    assert (k <> j) by congruence.
    destruct (Nat.eqb_spec i k) as [E|E].
    + subst i. rewrite Nat.eqb_refl. destruct (Nat.eqb_spec j k); [congruence|].
      rewrite hget_hset_neq by assumption. destruct (hget h k) as [b|].
      * rewrite Nat.add_0_r. reflexivity.
      * specialize (Hs k eq_refl). lia.
    + destruct (Nat.eqb_spec k i); [congruence|]. destruct (Nat.eqb_spec j i) as [F|F].
      * subst i. rewrite hget_hset_eq by exact Hlt. rewrite Hj. rewrite Nat.sub_0_r.
        destruct (Nat.eqb_spec (b_ref bj + 1) 0); [lia|]. reflexivity.
      * rewrite hget_hset_neq by congruence. destruct (hget h i) as [b|].
        -- destruct HIi as [_ [H1 _]]. rewrite Nat.add_0_r, Nat.sub_0_r. destruct (Nat.eqb_spec (b_ref b) 0); [lia|]. rewrite set_ref_same. reflexivity.
        -- left. split; reflexivity.
  - destruct (Nat.eqb_spec j i) as [F|F].
    + subst i. rewrite hget_hset_eq by exact Hlt. rewrite Hj, Nat.sub_0_r.
      destruct (Nat.eqb_spec (b_ref bj + 1) 0); [lia|]. reflexivity.
    + rewrite hget_hset_neq by congruence. destruct (hget h i) as [b|].
      * destruct HIi as [_ [H1 _]]. rewrite Nat.add_0_r, Nat.sub_0_r. destruct (Nat.eqb_spec (b_ref b) 0); [lia|]. rewrite set_ref_same. reflexivity.
      * left. split; reflexivity.
Qed.

(* allocate: v gets a fresh block with ref = 1 and releases what it had *)
Lemma alloc_repointed h vs s nb : Inv (mkstate h vs) -> b_ref nb = 1 -> blk_ok nb ->
  (forall i, s = Ptr i -> 1 <= holders vs i) ->
  repointed h (unref (h ++ [Some nb]) (ptr_of s)) s (Ptr (length h)).
Proof.
  intros HI Hr Hok Hs i. rewrite hget_unref, isP_Ptr, isP_ptr_of. pose proof (HI i) as HIi. cbn [heap_of vars_of] in HIi.
  destruct (ptr_of s) as [k|] eqn:Ek.
  - assert (s = Ptr k) by (destruct s; cbn [ptr_of] in Ek; congruence). subst s.
    specialize (Hs k eq_refl).
    assert (Hk : k < length h).
    { specialize (HI k). cbn [heap_of vars_of] in HI. destruct (hget h k) eqn:E; [eapply hget_Some_lt; eassumption|lia]. }
    destruct (Nat.eqb_spec i k) as [E|E].
    + subst i. rewrite Nat.eqb_refl. destruct (Nat.eqb_spec (length h) k); [lia|].
      rewrite hget_app_old by lia. destruct (hget h k) as [b|].
      * rewrite Nat.add_0_r. reflexivity.
      * lia.
    + destruct (Nat.eqb_spec k i); [congruence|]. destruct (Nat.eqb_spec (length h) i) as [F|F].
      * subst i. rewrite hget_app_new, hget_overflow by lia. right. split; [reflexivity|]. exists nb. auto.
      * rewrite hget_app_old by congruence. destruct (hget h i) as [b|].
        -- destruct HIi as [_ [H1 _]]. rewrite Nat.add_0_r, Nat.sub_0_r. destruct (Nat.eqb_spec (b_ref b) 0); [lia|]. rewrite set_ref_same. reflexivity.
        -- left. split; reflexivity.
  - destruct (Nat.eqb_spec (length h) i) as [F|F].
    + subst i. rewrite hget_app_new, hget_overflow by lia. right. split; [reflexivity|]. exists nb. auto.
    + rewrite hget_app_old by congruence. destruct (hget h i) as [b|].
      * destruct HIi as [_ [H1 _]]. rewrite Nat.add_0_r, Nat.sub_0_r. destruct (Nat.eqb_spec (b_ref b) 0); [lia|]. rewrite set_ref_same. reflexivity.
      * left. split; reflexivity.
Qed.

(* ---- list facts used by the in-place changes ------------------------------ *)
Lemma CAPACITY_ge x : x <= CAPACITY x.
Proof.
  unfold CAPACITY. pose proof (Nat.div_mod (x + 15) 16). pose proof (Nat.mod_upper_bound (x + 15) 16). lia.
Qed.

Lemma set_at_length (s : list N) : forall off d, length (set_at s off d) = length s.
Proof.
  induction s as [|x s IH]; intros off d; [reflexivity|]. cbn [set_at]. destruct off as [|off].
  - destruct d as [|y d]; [reflexivity|]. cbn [length]. rewrite IH. reflexivity.
  - cbn [length]. rewrite IH. reflexivity.
Qed.

Lemma set_at_0 (s : list N) : forall d, length d <= length s -> set_at s 0 d = d ++ skipn (length d) s.
Proof.
  induction s as [|x s IH]; intros d Hl.
  - destruct d; cbn [length] in Hl; [reflexivity|lia].
  - cbn [set_at]. destruct d as [|y d]; [reflexivity|]. cbn [length] in Hl. cbn [app length skipn]. rewrite IH by lia. reflexivity.
Qed.

Lemma set_at_off (s : list N) : forall off d, off + length d <= length s ->
  set_at s off d = firstn off s ++ d ++ skipn (off + length d) s.
Proof.
  induction s as [|x s IH]; intros off d Hl.
  - cbn [length] in Hl. destruct off; [|lia]. destruct d; cbn [length] in Hl; [reflexivity|lia].
  - destruct off as [|off].
    + cbn [firstn app Nat.add]. apply set_at_0. lia.
    + cbn [set_at firstn app]. cbn [length] in Hl. rewrite IH by lia. reflexivity.
Qed.

Lemma firstn_upd {A} (l : list A) : forall n p x, firstn n (upd l p x) = upd (firstn n l) p x.
Proof.
  induction l as [|a l IH]; intros [|n] [|p] x; cbn [upd firstn]; try reflexivity. rewrite IH. reflexivity.
Qed.

Lemma firstn_S_upd (l : list N) : forall n x, n < length l -> firstn (S n) (upd l n x) = firstn n l ++ [x].
Proof.
  induction l as [|a l IH]; intros [|n] x Hl; cbn [length] in Hl; try lia.
  - reflexivity.
  - change (firstn (S (S n)) (upd (a :: l) (S n) x)) with (a :: firstn (S n) (upd l n x)).
    rewrite IH by lia. reflexivity.
Qed.

Lemma firstn_pred_removelast (l : list N) : forall n, 0 < n -> n <= length l -> firstn (n - 1) l = removelast (firstn n l).
Proof.
  induction l as [|a l IH]; intros [|n] Hn Hl; cbn [length] in Hl; try lia.
  cbn [Nat.sub]. rewrite Nat.sub_0_r. destruct n as [|n].
  - reflexivity.
  - cbn [firstn]. destruct l as [|b l]; [cbn [length] in Hl; lia|]. 
    change (removelast (a :: b :: firstn n l)) with (a :: removelast (b :: firstn n l)).
    f_equal. specialize (IH (S n)). cbn [Nat.sub] in IH. rewrite Nat.sub_0_r in IH. apply IH; [lia|cbn [length] in *; lia].
Qed.

Lemma vresize_shrink (d : list N) size n : n <= size -> size <= length d -> firstn n d = vresize (firstn size d) n.
Proof.
  intros H Hd. unfold vresize. rewrite firstn_firstn, Nat.min_l by exact H.
  rewrite firstn_length, Nat.min_l by exact Hd. replace (n - size) with 0 by lia. cbn [repeat]. rewrite app_nil_r. reflexivity.
Qed.

Lemma vresize_grow (d : list N) size n : size < n -> n <= length d ->
  firstn n (set_at d size (repeat 0%N (n - size))) = vresize (firstn size d) n.
Proof.
  intros H Hd. rewrite set_at_off by (rewrite repeat_length; lia). rewrite repeat_length.
  unfold vresize. rewrite firstn_length, Nat.min_l by lia.
  rewrite (firstn_all2 (firstn size d)) by (rewrite firstn_length; lia).
  rewrite firstn_app, firstn_length, Nat.min_l by lia.
  rewrite (firstn_all2 (firstn size d)) by (rewrite firstn_length; lia). f_equal.
  rewrite firstn_app, repeat_length, Nat.sub_diag. cbn [firstn]. rewrite app_nil_r.
  apply firstn_all2. rewrite repeat_length. lia.
Qed.

(* ---- (2) changing in place the block that v alone holds ----------------- *)
Lemma upd_nth_same {A} (l : list A) v x d : v < length l -> nth v l d = x -> upd l v x = l.
Proof. intros _ H. rewrite <- H. apply upd_same. Qed.

Lemma mutate_ok h vs v n b b' :
  Inv (mkstate h vs) -> v < length vs -> nth v vs Dead = Ptr n -> hget h n = Some b -> b_ref b = 1 ->
  b_ref b' = 1 -> blk_ok b' ->
  Inv (mkstate (hset h n (Some b')) vs) /\
  abs (mkstate (hset h n (Some b')) vs) = upd (abs (mkstate h vs)) v (Some (firstn (b_size b') (b_data b'))).
Proof.
  intros HI Hv Hn Hb Hr Hr' Hok'. pose proof (hget_Some_lt _ _ _ Hb) as Hlt.
  assert (Hh : holders vs n = 1).
  { pose proof (HI n) as H. cbn [heap_of vars_of] in H. rewrite Hb in H. lia. }
  split.
  - intros i. cbn [heap_of vars_of]. destruct (Nat.eq_dec i n) as [E|E].
    + subst i. rewrite hget_hset_eq by exact Hlt. split; [lia|]. split; [lia|exact Hok'].
    + rewrite hget_hset_neq by exact E. apply (HI i).
  - rewrite <- (upd_nth_same vs v (Ptr n) Dead Hv Hn) at 1. rewrite (abs_frame h (hset h n (Some b')) vs v (Ptr n) Hv).
    + cbn [absv]. unfold contents. rewrite hget_hset_eq by exact Hlt. reflexivity.
    + intros w k Hne Hw. destruct (Nat.eq_dec k n) as [E|E].
      * subst k. pose proof (holders_two vs v w n (fun e => Hne (eq_sym e)) Hn Hw). lia.
      * unfold contents. rewrite hget_hset_neq by exact E. reflexivity.
Qed.

(* ---- detach ---------------------------------------------------------------- *)
Lemma absv_slot_of h p : absv h (slot_of p) = Some (contents h p).
Proof. destruct p; reflexivity. Qed.

Lemma live_slot vs v p : nth v vs Dead = slot_of p -> forall i, nth v vs Dead = Ptr i -> 1 <= holders vs i.
Proof. intros _ i H. eapply holders_nth, H. Qed.

Lemma ptr_of_slot_of p : ptr_of (slot_of p) = p.
Proof. destruct p; reflexivity. Qed.

(* the state reached by a detach: a fresh exclusive block with the same contents *)
Lemma detach_ok h vs v p c0 :
  Inv (mkstate h vs) -> v < length vs -> nth v vs Dead = slot_of p ->
  exists h' nb, detach h p c0 = (h', Some (length h)) /\
    Inv (mkstate h' (upd vs v (Ptr (length h)))) /\
    abs (mkstate h' (upd vs v (Ptr (length h)))) = abs (mkstate h vs) /\
    hget h' (length h) = Some nb /\ b_ref nb = 1 /\ blk_ok nb /\
    firstn (b_size nb) (b_data nb) = contents h p /\ b_size nb = m_size h p /\ c0 <= b_cap nb /\ 1 <= b_cap nb.
Proof.
  intros HI Hv Hs.
  (* what p points to *)
  assert (Hp : match p with
               | Some i => exists b, hget h i = Some b /\ blk_ok b /\ i < length h
               | None => True end).
  { destruct p as [i|]; [|exact I]. cbn [slot_of] in Hs. destruct (inv_ptr h vs v i HI Hs) as [b [Hb [_ [_ Hok]]]].
    exists b. split; [exact Hb|]. split; [exact Hok|]. eapply hget_Some_lt, Hb. }
  unfold detach, new_private.
  set (pb := match p with Some i => hget h i | None => None end).
  set (cap1 := match pb with Some b => if c0 <? b_size b then b_size b else c0 | None => c0 end).
  set (cap := CAPACITY (if cap1 =? 0 then 1 else cap1)).
  assert (Hcap1 : c0 <= cap1 /\ match pb with Some b => b_size b <= cap1 | None => True end).
  { unfold cap1. destruct pb as [b|]; [|split; [lia|exact I]]. destruct (Nat.ltb_spec c0 (b_size b)); lia. }
  assert (Hcap : cap1 <= cap /\ 1 <= cap).
  { unfold cap. destruct (Nat.eqb_spec cap1 0) as [E|E].
    - pose proof (CAPACITY_ge 1). lia.
    - pose proof (CAPACITY_ge cap1). lia. }
  rewrite hget_app_new.
  set (nb := match pb with
             | Some b => set_data (set_size (mkblock 1 0 cap (repeat UNINIT cap) false) (b_size b))
                                  (set_at (repeat UNINIT cap) 0 (firstn (b_size b) (b_data b)))
             | None => mkblock 1 0 cap (repeat UNINIT cap) false
             end).
  assert (Hh2 : match pb with
                | Some b => hset (h ++ [Some (mkblock 1 0 cap (repeat UNINIT cap) false)]) (length h)
                              (Some (set_data (set_size (mkblock 1 0 cap (repeat UNINIT cap) false) (b_size b))
                                       (set_at (b_data (mkblock 1 0 cap (repeat UNINIT cap) false)) 0 (firstn (b_size b) (b_data b)))))
                | None => h ++ [Some (mkblock 1 0 cap (repeat UNINIT cap) false)]
                end = h ++ [Some nb]).
  { unfold nb. destruct pb as [b|]; [|reflexivity]. rewrite hset_app_last. reflexivity. }
  rewrite Hh2. clear Hh2.
  assert (Hnb : b_ref nb = 1 /\ blk_ok nb /\ firstn (b_size nb) (b_data nb) = contents h p /\ b_size nb = m_size h p /\ b_cap nb = cap).
  { unfold nb, pb, contents, m_size. destruct p as [i|].
    - destruct Hp as [b [Hb [[Hsz Hlen] _]]]. rewrite Hb. unfold pb in Hcap1. rewrite Hb in Hcap1.
      unfold blk_ok. cbn [set_data set_size b_ref b_size b_cap b_data].
      rewrite set_at_length, repeat_length.
      assert (Lf : length (firstn (b_size b) (b_data b)) = b_size b) by (rewrite firstn_length; lia).
      split; [reflexivity|]. split; [split; [lia|reflexivity]|]. split; [|split; reflexivity].
      rewrite set_at_0 by (rewrite repeat_length; lia). rewrite <- Lf at 1. rewrite firstn_app, Nat.sub_diag, firstn_all.
      cbn [firstn]. apply app_nil_r.
    - unfold blk_ok. cbn [b_ref b_size b_cap b_data firstn]. rewrite repeat_length.
      split; [reflexivity|]. split; [split; [lia|reflexivity]|]. split; [reflexivity|]. split; reflexivity. }
  destruct Hnb as [Hr [Hok [Hview [Hsz Hc]]]].
  exists (unref (h ++ [Some nb]) p), nb. split; [reflexivity|].
  pose proof (alloc_repointed h vs (nth v vs Dead) nb HI Hr Hok (fun i => holders_nth vs v i)) as HR.
  replace (ptr_of (nth v vs Dead)) with p in HR by (rewrite Hs; symmetry; apply ptr_of_slot_of).
  destruct (repoint_ok h _ vs v (Ptr (length h)) HI Hv HR) as [HI' HA].
  assert (Hget : hget (unref (h ++ [Some nb]) p) (length h) = Some nb).
  { rewrite hget_unref. destruct p as [k|].
    - destruct Hp as [b [_ [_ Hk]]]. destruct (Nat.eqb_spec (length h) k); [lia|]. apply hget_app_new.
    - apply hget_app_new. }
  split; [exact HI'|]. split.
  - rewrite HA. cbn [absv]. unfold contents at 1. rewrite Hget, Hview.
    apply (upd_nth_same _ _ _ None); [rewrite abs_length; exact Hv|]. 
    change (nth v (abs (mkstate h vs)) None) with (vvar (abs (mkstate h vs)) v). rewrite vvar_abs.
    unfold var. cbn [heap_of vars_of]. rewrite Hs. apply absv_slot_of.
  - split; [exact Hget|]. split; [exact Hr|]. split; [exact Hok|]. split; [exact Hview|]. split; [exact Hsz|]. lia.
Qed.

Definition view (b : block) : list N := firstn (b_size b) (b_data b).

(* ---- member functions: the three shapes ------------------------------------ *)
(* outcome of a member function run on live variable v: invariant kept, v's value becomes l', the others keep theirs *)
Definition mem_ok (h : heap) (vs : list slot) (v : nat) (res : heap * option nat) (l' : list N) : Prop :=
  Inv (mkstate (fst res) (upd vs v (slot_of (snd res)))) /\
  abs (mkstate (fst res) (upd vs v (slot_of (snd res)))) = upd (abs (mkstate h vs)) v (Some l').

Section Member.
Variables (h : heap) (vs : list slot) (v : nat) (p : option nat).
Hypothesis HI : Inv (mkstate h vs).
Hypothesis Hv : v < length vs.
Hypothesis Hs : nth v vs Dead = slot_of p.

Lemma abs_v : nth v (abs (mkstate h vs)) None = Some (contents h p).
Proof.
  change (nth v (abs (mkstate h vs)) None) with (vvar (abs (mkstate h vs)) v). rewrite vvar_abs.
  unfold var. cbn [heap_of vars_of]. rewrite Hs. apply absv_slot_of.
Qed.

(* nothing changes *)
Lemma noop_ok : mem_ok h vs v (h, p) (contents h p).
Proof.
  unfold mem_ok. cbn [fst snd]. rewrite (upd_nth_same vs v (slot_of p) Dead Hv Hs). split; [exact HI|].
  symmetry. apply (upd_nth_same _ _ _ None); [rewrite abs_length; exact Hv|apply abs_v].
Qed.

(* detach, then change the fresh block *)
Lemma detach_then c0 (f : block -> block) l' :
  (forall nb, b_ref nb = 1 -> blk_ok nb -> firstn (b_size nb) (b_data nb) = contents h p -> b_size nb = m_size h p ->
              c0 <= b_cap nb -> 1 <= b_cap nb ->
              b_ref (f nb) = 1 /\ blk_ok (f nb) /\ firstn (b_size (f nb)) (b_data (f nb)) = l') ->
  mem_ok h vs v (on_block (fst (detach h p c0)) (snd (detach h p c0)) f, snd (detach h p c0)) l'.
Proof.
  intros Hf. destruct (detach_ok h vs v p c0 HI Hv Hs) as [h1 [nb [E [HI1 [HA1 [Hg [Hr [Hok [Hview [Hsz [Hc0 Hc1]]]]]]]]]]].
  rewrite E. cbn [fst snd on_block]. rewrite Hg. destruct (Hf nb Hr Hok Hview Hsz Hc0 Hc1) as [Hr' [Hok' Hl']].
  assert (Hv1 : v < length (upd vs v (Ptr (length h)))) by (rewrite upd_length; exact Hv).
  assert (Hn1 : nth v (upd vs v (Ptr (length h))) Dead = Ptr (length h)) by (apply nth_upd_eq, Hv).
  destruct (mutate_ok h1 _ v (length h) nb (f nb) HI1 Hv1 Hn1 Hg Hr Hr' Hok') as [HI2 HA2].
  unfold mem_ok. cbn [fst snd slot_of]. split; [exact HI2|]. rewrite HA2, HA1, Hl'. reflexivity.
Qed.

(* detach alone *)
Lemma detach_only c0 :
  mem_ok h vs v (detach h p c0) (contents h p) /\ contents (fst (detach h p c0)) (snd (detach h p c0)) = contents h p /\
  c0 <= m_capacity (fst (detach h p c0)) (snd (detach h p c0)).
Proof.
  destruct (detach_ok h vs v p c0 HI Hv Hs) as [h1 [nb [E [HI1 [HA1 [Hg [Hr [Hok [Hview [Hsz [Hc0 Hc1]]]]]]]]]]].
  rewrite E. unfold mem_ok. cbn [fst snd slot_of]. split; [split; [exact HI1|]|split].
  - rewrite HA1. symmetry. apply (upd_nth_same _ _ _ None); [rewrite abs_length; exact Hv|apply abs_v].
  - unfold contents at 1. rewrite Hg. exact Hview.
  - unfold m_capacity. rewrite Hg. exact Hc0.
Qed.

(* change in place the block v holds alone *)
Lemma inplace_then i b (f : block -> block) :
  p = Some i -> hget h i = Some b -> b_ref b = 1 -> b_ref (f b) = 1 -> blk_ok (f b) ->
  mem_ok h vs v (on_block h p f, p) (firstn (b_size (f b)) (b_data (f b))).
Proof.
  intros Hp Hb Hr Hr' Hok'. subst p. cbn [slot_of] in Hs. unfold on_block. rewrite Hb.
  destruct (mutate_ok h vs v i b (f b) HI Hv Hs Hb Hr Hr' Hok') as [HI2 HA2].
  unfold mem_ok. cbn [fst snd slot_of]. rewrite (upd_nth_same vs v (Ptr i) Dead Hv Hs). split; assumption.
Qed.

(* what Inv says about p *)
Lemma p_block i : p = Some i -> exists b, hget h i = Some b /\ 1 <= b_ref b /\ blk_ok b.
Proof.
  intros Hp. subst p. cbn [slot_of] in Hs. destruct (inv_ptr h vs v i HI Hs) as [b [Hb [_ [H1 Hok]]]]. exists b. auto.
Qed.
End Member.

(* ---- accessors: afterwards the block v points to is held by v alone ---------- *)
Lemma detach_snd h p c0 : snd (detach h p c0) = Some (length h).
Proof. unfold detach, new_private. reflexivity. Qed.

(* outcome of a member function after which v's block (if any) has ref = 1: as mem_ok, and the block *)
Definition uniq_ok (h : heap) (vs : list slot) (v : nat) (res : heap * option nat) (l : list N) : Prop :=
  mem_ok h vs v res l /\
  forall k, snd res = Some k -> exists b, hget (fst res) k = Some b /\ b_ref b = 1 /\ blk_ok b /\ view b = l.

Lemma mem_ok_contents h vs v res l : v < length vs -> mem_ok h vs v res l -> contents (fst res) (snd res) = l.
Proof.
  intros Hv [_ HA]. assert (E : vvar (abs (mkstate (fst res) (upd vs v (slot_of (snd res))))) v = Some l).
  { rewrite HA. unfold vvar. apply nth_upd_eq. rewrite abs_length. exact Hv. }
  rewrite vvar_abs in E. unfold var in E. cbn [heap_of vars_of] in E. rewrite nth_upd_eq in E by exact Hv.
  rewrite absv_slot_of in E. congruence.
Qed.

(* change in place the block an accessor left to v alone *)
Lemma uniq_then h vs v h1 p1 l (f : block -> block) l' :
  v < length vs -> uniq_ok h vs v (h1, p1) l ->
  (forall b, b_ref b = 1 -> blk_ok b -> view b = l -> b_ref (f b) = 1 /\ blk_ok (f b) /\ view (f b) = l') ->
  (p1 = None -> l' = l) ->
  uniq_ok h vs v (on_block h1 p1 f, p1) l'.
Proof.
  intros Hv [[HI1 HA1] HU] Hf Hnone. cbn [fst snd] in *. destruct p1 as [k|].
  - destruct (HU k eq_refl) as [b [Hb [Hr [Hok Hview]]]]. destruct (Hf b Hr Hok Hview) as [Hr' [Hok' Hl']].
    unfold on_block. rewrite Hb. cbn [slot_of] in *.
    assert (Hv1 : v < length (upd vs v (Ptr k))) by (rewrite upd_length; exact Hv).
    assert (Hn1 : nth v (upd vs v (Ptr k)) Dead = Ptr k) by (apply nth_upd_eq, Hv).
    destruct (mutate_ok h1 _ v k b (f b) HI1 Hv1 Hn1 Hb Hr Hr' Hok') as [HI2 HA2].
    split.
    + unfold mem_ok. cbn [fst snd slot_of]. split; [exact HI2|]. rewrite HA2, HA1, upd_upd. unfold view in Hl'. rewrite Hl'. reflexivity.
    + cbn [fst snd]. intros k' E. inversion E. subst k'. exists (f b). split; [apply hget_hset_eq; eapply hget_Some_lt, Hb|]. auto.
  - cbn [on_block]. rewrite (Hnone eq_refl). split; [split; assumption|]. intros k E. discriminate E.
Qed.

Lemma markf_ok c b : b_ref (markf c b) = b_ref b /\ blk_ok (markf c b) = blk_ok b /\ view (markf c b) = view b /\ b_size (markf c b) = b_size b /\ b_data (markf c b) = b_data b.
Proof. unfold markf. destruct (c_fix_leak c); repeat split; reflexivity. Qed.

Lemma uniq_mark c h vs v h1 p1 l : v < length vs -> uniq_ok h vs v (h1, p1) l -> uniq_ok h vs v (mark c h1 p1, p1) l.
Proof.
  intros Hv U. unfold mark. apply (uniq_then h vs v h1 p1 l (markf c) l Hv U); [|reflexivity].
  intros b Hr Hok Hview. destruct (markf_ok c b) as [A [B [C _]]]. rewrite A, B, C. auto.
Qed.

(* one member function after another on the same variable *)
Lemma mem_ok_then h vs v res l res' l' : v < length vs -> mem_ok h vs v res l ->
  mem_ok (fst res) (upd vs v (slot_of (snd res))) v res' l' -> mem_ok h vs v res' l'.
Proof. intros Hv [I1 A1] [I2 A2]. rewrite upd_upd in I2, A2. split; [exact I2|]. rewrite A2, A1, upd_upd. reflexivity. Qed.

(* if (p && p->leaked) detach();   after a member function *)
Lemma leak_detach_ok c h vs v res l : v < length vs -> mem_ok h vs v res l ->
  mem_ok h vs v (if c_fix_leak c && leaked (fst res) (snd res) then detach (fst res) (snd res) 0 else res) l.
Proof.
  intros Hv M. destruct (c_fix_leak c && leaked (fst res) (snd res)); [|exact M].
  apply (mem_ok_then h vs v res l _ l Hv M). pose proof (mem_ok_contents h vs v res l Hv M) as E.
  assert (Hv' : v < length (upd vs v (slot_of (snd res)))) by (rewrite upd_length; exact Hv).
  pose proof (detach_only (fst res) _ v (snd res) (proj1 M) Hv' (nth_upd_eq _ _ _ _ Hv) 0) as [D _].
  rewrite E in D. exact D.
Qed.

Section Accessors.
Variables (h : heap) (vs : list slot) (v : nat) (p : option nat).
Hypothesis HI : Inv (mkstate h vs).
Hypothesis Hv : v < length vs.
Hypothesis Hs : nth v vs Dead = slot_of p.

Lemma detach_uniq c0 : uniq_ok h vs v (detach h p c0) (contents h p).
Proof.
  destruct (detach_ok h vs v p c0 HI Hv Hs) as [h1 [nb [E [HI1 [HA1 [Hg [Hr [Hok [Hview [Hsz [Hc0 Hc1]]]]]]]]]]].
  pose proof (detach_only h vs v p HI Hv Hs c0) as [D _]. rewrite E in *. split; [exact D|].
  cbn [fst snd]. intros k Ek. inversion Ek. subst k. exists nb. auto.
Qed.

Lemma keep_uniq : (forall i b, p = Some i -> hget h i = Some b -> b_ref b = 1) -> uniq_ok h vs v (h, p) (contents h p).
Proof.
  intros Hu. split; [apply (noop_ok h vs v p HI Hv Hs)|]. cbn [fst snd]. intros k Ek.
  destruct (p_block h vs v p HI Hs k Ek) as [b [Hb [H1 Hok]]]. exists b. split; [exact Hb|]. split; [apply (Hu k b Ek Hb)|].
  split; [exact Hok|]. subst p. unfold view, contents. rewrite Hb. reflexivity.
Qed.

End Accessors.

Section Accessors2.
Variables (h : heap) (vs : list slot) (v : nat) (p : option nat).
Hypothesis HI : Inv (mkstate h vs).
Hypothesis Hv : v < length vs.
Hypothesis Hs : nth v vs Dead = slot_of p.

(* operator[] up to the returned reference, in every configuration *)
Lemma acc_index_uniq c : uniq_ok h vs v (acc_index c h p) (contents h p) /\ exists k, snd (acc_index c h p) = Some k.
Proof.
  unfold acc_index. destruct (c_fix_index c).
  - destruct p as [i|] eqn:Ep.
    + destruct (p_block h vs v (Some i) HI Hs i eq_refl) as [b [Hb [H1 Hok]]]. rewrite Hb.
      destruct (Nat.ltb_spec 1 (b_ref b)) as [L|L].
      * split; [apply (detach_uniq h vs v (Some i) HI Hv Hs)|]. exists (length h). apply detach_snd.
      * split; [|exists i; reflexivity]. apply (keep_uniq h vs v (Some i) HI Hv Hs). intros i' b' E Hb'. inversion E. subst i'. rewrite Hb in Hb'. inversion Hb'. subst b'. lia.
    + split; [apply (detach_uniq h vs v None HI Hv Hs)|]. exists (length h). apply detach_snd.
  - split; [apply (detach_uniq h vs v p HI Hv Hs)|]. exists (length h). apply detach_snd.
Qed.

Lemma index_ref_uniq c : uniq_ok h vs v (m_index_ref c h p) (contents h p) /\ exists k, snd (m_index_ref c h p) = Some k.
Proof.
  unfold m_index_ref. destruct (acc_index_uniq c) as [U [k Ek]]. destruct (acc_index c h p) as [h1 p1]. cbn [snd] in Ek. subst p1.
  split; [apply uniq_mark; assumption|exists k; reflexivity].
Qed.

(* non-const data(): detached when shared, in every configuration *)
Lemma data_uniq c : uniq_ok h vs v (m_data c h p) (contents h p).
Proof.
  unfold m_data. destruct p as [i|] eqn:Ep.
  - destruct (p_block h vs v (Some i) HI Hs i eq_refl) as [b [Hb [H1 Hok]]]. rewrite Hb.
    assert (U : uniq_ok h vs v (if 1 <? b_ref b then detach h (Some i) 0 else (h, Some i)) (contents h (Some i))).
    { destruct (Nat.ltb_spec 1 (b_ref b)) as [L|L]; [apply (detach_uniq h vs v (Some i) HI Hv Hs)|].
      apply (keep_uniq h vs v (Some i) HI Hv Hs). intros i' b' E Hb'. inversion E. subst i'. rewrite Hb in Hb'. inversion Hb'. subst b'. lia. }
    destruct (if 1 <? b_ref b then detach h (Some i) 0 else (h, Some i)) as [h1 p1]. apply uniq_mark; assumption.
  - apply (keep_uniq h vs v None HI Hv Hs). intros i b E. discriminate E.
Qed.

Lemma data_some c : p <> None -> exists k, snd (m_data c h p) = Some k.
Proof.
  intros Hp. unfold m_data. destruct p as [i|] eqn:Ep; [|congruence].
  destruct (p_block h vs v (Some i) HI Hs i eq_refl) as [b [Hb _]]. rewrite Hb.
  destruct (1 <? b_ref b).
  - pose proof (detach_snd h (Some i) 0) as E. destruct (detach h (Some i) 0) as [h1 p1]. cbn [snd] in *. exists (length h). exact E.
  - exists i. reflexivity.
Qed.
End Accessors2.

(* ---- block-level effects ---------------------------------------------------- *)

Definition resize_block (size : nat) (b : block) : block :=
  set_size (if b_size b <? size then set_data b (set_at (b_data b) (b_size b) (repeat 0%N (size - b_size b))) else b) size.
Definition push_block (value : N) (b : block) : block :=
  set_size (set_data b (upd (b_data b) (b_size b) value)) (b_size b + 1).

Lemma resize_block_ok size nb : blk_ok nb -> size <= b_cap nb ->
  b_ref (resize_block size nb) = b_ref nb /\ blk_ok (resize_block size nb) /\ view (resize_block size nb) = vresize (view nb) size.
Proof.
  intros [Hsz Hlen] Hc. unfold resize_block, view. destruct (Nat.ltb_spec (b_size nb) size) as [L|L].
  - unfold blk_ok. cbn [set_size set_data b_ref b_size b_cap b_data]. rewrite set_at_length.
    split; [reflexivity|]. split; [split; [exact Hc|exact Hlen]|]. apply vresize_grow; lia.
  - unfold blk_ok. cbn [set_size b_ref b_size b_cap b_data]. split; [reflexivity|]. split; [split; [exact Hc|exact Hlen]|].
    apply vresize_shrink; lia.
Qed.

Lemma push_block_ok value nb : blk_ok nb -> b_size nb < b_cap nb ->
  b_ref (push_block value nb) = b_ref nb /\ blk_ok (push_block value nb) /\ view (push_block value nb) = view nb ++ [value].
Proof.
  intros [Hsz Hlen] Hc. unfold push_block, view, blk_ok. cbn [set_size set_data b_ref b_size b_cap b_data].
  rewrite upd_length. split; [reflexivity|]. split; [split; [lia|exact Hlen]|].
  rewrite Nat.add_1_r. apply firstn_S_upd. lia.
Qed.

Lemma set_cell_ok pos value nb : blk_ok nb ->
  b_ref (set_data nb (upd (b_data nb) pos value)) = b_ref nb /\ blk_ok (set_data nb (upd (b_data nb) pos value)) /\
  view (set_data nb (upd (b_data nb) pos value)) = upd (view nb) pos value.
Proof.
  intros [Hsz Hlen]. unfold view, blk_ok. cbn [set_data b_ref b_size b_cap b_data]. rewrite upd_length.
  split; [reflexivity|]. split; [split; assumption|]. apply firstn_upd.
Qed.

Lemma pop_block_ok nb : blk_ok nb -> 0 < b_size nb ->
  b_ref (set_size nb (b_size nb - 1)) = b_ref nb /\ blk_ok (set_size nb (b_size nb - 1)) /\
  view (set_size nb (b_size nb - 1)) = removelast (view nb).
Proof.
  intros [Hsz Hlen] H0. unfold view, blk_ok. cbn [set_size b_ref b_size b_cap b_data].
  split; [reflexivity|]. split; [split; [lia|exact Hlen]|]. apply firstn_pred_removelast; lia.
Qed.

Lemma nth_firstn_lt {A} (l : list A) : forall n pos d, pos < n -> nth pos (firstn n l) d = nth pos l d.
Proof.
  induction l as [|a l IH]; intros [|n] [|pos] d H; cbn [firstn nth]; try reflexivity; try lia. apply IH. lia.
Qed.

Lemma view_length b : blk_ok b -> length (view b) = b_size b.
Proof. intros [Hsz Hlen]. unfold view. rewrite firstn_length. lia. Qed.

(* ---- member functions of a live variable ------------------------------------ *)
Section Members.
Variables (h : heap) (vs : list slot) (v : nat) (p : option nat).
Hypothesis HI : Inv (mkstate h vs).
Hypothesis Hv : v < length vs.
Hypothesis Hs : nth v vs Dead = slot_of p.

Lemma contents_view i b : hget h i = Some b -> contents h (Some i) = view b.
Proof. intros Hb. unfold contents, view. rewrite Hb. reflexivity. Qed.
Lemma m_size_block i b : hget h i = Some b -> m_size h (Some i) = b_size b.
Proof. intros Hb. unfold m_size. rewrite Hb. reflexivity. Qed.

Lemma index_set_uniq c pos value : uniq_ok h vs v (m_index_set c h p pos value) (upd (contents h p) pos value).
Proof.
  unfold m_index_set. destruct (index_ref_uniq h vs v p HI Hv Hs c) as [U [k Ek]]. destruct (m_index_ref c h p) as [h1 p1]. cbn [snd] in Ek. subst p1.
  apply (uniq_then h vs v h1 (Some k) (contents h p)); [exact Hv|exact U| |discriminate].
  intros b Hr Hok Hview. destruct (set_cell_ok pos value b Hok) as [A [B C]]. rewrite A, C, Hview. auto.
Qed.

Lemma index_set_ok c pos value : mem_ok h vs v (m_index_set c h p pos value) (upd (contents h p) pos value).
Proof. apply index_set_uniq. Qed.

Lemma index_get_ok c pos :
  mem_ok h vs v (fst (m_index_get c h p pos)) (contents h p) /\
  (pos < length (contents h p) -> snd (m_index_get c h p pos) = nth pos (contents h p) UNINIT).
Proof.
  unfold m_index_get. destruct (index_ref_uniq h vs v p HI Hv Hs c) as [[M U] [k Ek]]. destruct (m_index_ref c h p) as [h1 p1]. cbn [fst snd] in *. subst p1.
  split; [exact M|]. intros Hpos. destruct (U k eq_refl) as [b [Hb [Hr [Hok Hview]]]]. unfold data_at. rewrite Hb.
  rewrite <- Hview in *. unfold view in *. rewrite firstn_length in Hpos. symmetry. apply nth_firstn_lt. lia.
Qed.

Lemma data_ok c :
  mem_ok h vs v (m_data c h p) (contents h p) /\ contents (fst (m_data c h p)) (snd (m_data c h p)) = contents h p.
Proof.
  pose proof (data_uniq h vs v p HI Hv Hs c) as [M _]. split; [exact M|]. apply (mem_ok_contents h vs v _ _ Hv M).
Qed.

Lemma data_c_ok c :
  mem_ok h vs v (m_data_c c h p) (contents h p) /\ contents (fst (m_data_c c h p)) (snd (m_data_c c h p)) = contents h p.
Proof.
  unfold m_data_c. destruct (c_fix_leak c); [apply data_ok|]. split; [apply (noop_ok h vs v p HI Hv Hs)|reflexivity].
Qed.

Lemma data_set_ok c pos value :
  mem_ok h vs v (on_block (fst (m_data c h p)) (snd (m_data c h p)) (fun b => set_data b (upd (b_data b) pos value)), snd (m_data c h p))
         (upd (contents h p) pos value).
Proof.
  pose proof (data_uniq h vs v p HI Hv Hs c) as U. destruct (m_data c h p) as [h1 p1]. cbn [fst snd].
  apply (uniq_then h vs v h1 p1 (contents h p)); [exact Hv|exact U| |].
  - intros b Hr Hok Hview. destruct (set_cell_ok pos value b Hok) as [A [B C]]. rewrite A, C, Hview. auto.
  - intros E. subst p1. pose proof (mem_ok_contents h vs v _ _ Hv (proj1 U)) as C. cbn [fst snd] in C.
    change (contents h1 None) with (@nil N) in C. rewrite <- C. destruct pos; reflexivity.
Qed.

Lemma reserve_ok size : mem_ok h vs v (m_reserve h p size) (contents h p).
Proof.
  unfold m_reserve. destruct p as [i|] eqn:Ep.
  - destruct (p_block h vs v (Some i) HI Hs i eq_refl) as [b [Hb [H1 Hok]]]. rewrite Hb.
    destruct (b_cap b <? size).
    + apply (detach_only h vs v (Some i) HI Hv Hs size).
    + apply (noop_ok h vs v (Some i) HI Hv Hs).
  - apply (detach_only h vs v None HI Hv Hs size).
Qed.

Lemma resize_fixed_ok c size : c_fix_resize c = true -> mem_ok h vs v (m_resize c h p size) (vresize (contents h p) size).
Proof.
  intros Hc. unfold m_resize. rewrite Hc. fold (resize_block size).
  assert (D : mem_ok h vs v (on_block (fst (detach h p size)) (snd (detach h p size)) (resize_block size), snd (detach h p size))
                     (vresize (contents h p) size)).
  { apply (detach_then h vs v p HI Hv Hs size). intros nb Hr Hok Hview _ Hcap _.
    destruct (resize_block_ok size nb Hok Hcap) as [A [B C]]. split; [lia|]. split; [exact B|]. unfold view in C. rewrite C, Hview. reflexivity. }
  destruct p as [i|] eqn:Ep.
  - destruct (p_block h vs v (Some i) HI Hs i eq_refl) as [b [Hb [H1 Hok]]]. rewrite Hb.
    destruct (Nat.ltb_spec (b_cap b) size) as [L1|L1]; cbn [orb].
    + destruct (detach h (Some i) size) as [h1 p1]. exact D.
    + destruct (Nat.ltb_spec 1 (b_ref b)) as [L2|L2].
      * destruct (detach h (Some i) size) as [h1 p1]. exact D.
      * destruct (resize_block_ok size b Hok L1) as [A [B C]].
        pose proof (inplace_then h vs v (Some i) HI Hv Hs i b (resize_block size) eq_refl Hb) as M.
        rewrite (contents_view i b Hb), <- C. apply M; [lia|lia|exact B].
  - destruct (detach h None size) as [h1 p1]. exact D.
Qed.

Lemma clear_ok : mem_ok h vs v (m_clear h p) [].
Proof.
  unfold m_clear, mem_ok. cbn [fst snd slot_of].
  assert (R : repointed h (unref h p) (nth v vs Dead) Null).
  { pose proof (unref_repointed h vs (nth v vs Dead) Null HI (fun i => eq_refl) (fun i => holders_nth vs v i)) as R.
    rewrite Hs, ptr_of_slot_of in R. rewrite Hs. exact R. }
  destruct (repoint_ok h _ vs v Null HI Hv R) as [A B]. split; [exact A|exact B].
Qed.

Lemma push_ok value : mem_ok h vs v (m_push_back h p value) (contents h p ++ [value]).
Proof.
  unfold m_push_back. fold (push_block value).
  assert (D : forall c0, m_size h p < c0 \/ m_size h p = 0 ->
              mem_ok h vs v (on_block (fst (detach h p c0)) (snd (detach h p c0)) (push_block value), snd (detach h p c0))
                     (contents h p ++ [value])).
  { intros c0 Hc0. apply (detach_then h vs v p HI Hv Hs c0). intros nb Hr Hok Hview Hsz Hcap Hcap1.
    destruct (push_block_ok value nb Hok) as [A [B C]]; [lia|]. split; [lia|]. split; [exact B|]. unfold view in C. rewrite C, Hview. reflexivity. }
  destruct p as [i|] eqn:Ep.
  - destruct (p_block h vs v (Some i) HI Hs i eq_refl) as [b [Hb [H1 Hok]]]. rewrite Hb.
    assert (D1 := D (b_size b + 1)). rewrite (m_size_block i b Hb) in D1. specialize (D1 (or_introl (Nat.lt_add_pos_r 1 (b_size b) Nat.lt_0_1))).
    destruct (Nat.leb_spec (b_cap b) (b_size b)) as [L1|L1]; cbn [orb].
    + destruct (detach h (Some i) (b_size b + 1)) as [h1 p1]. exact D1.
    + destruct (Nat.ltb_spec 1 (b_ref b)) as [L2|L2].
      * destruct (detach h (Some i) (b_size b + 1)) as [h1 p1]. exact D1.
      * destruct (push_block_ok value b Hok L1) as [A [B C]].
        pose proof (inplace_then h vs v (Some i) HI Hv Hs i b (push_block value) eq_refl Hb) as M.
        rewrite (contents_view i b Hb), <- C. apply M; [lia|lia|exact B].
  - specialize (D 0 (or_intror eq_refl)). destruct (detach h None 0) as [h1 p1]. exact D.
Qed.

(* pop_back on a non-empty array: afterwards the block is v's alone, in every configuration *)
Lemma pop_uniq c i b : p = Some i -> hget h i = Some b -> 0 < b_size b ->
  uniq_ok h vs v (m_pop_back c h p) (removelast (contents h p)).
Proof.
  intros Ep Hb L. subst p. unfold m_pop_back. rewrite Hb. destruct (Nat.ltb_spec 0 (b_size b)) as [_|L0]; [|lia].
  destruct (p_block h vs v (Some i) HI Hs i eq_refl) as [b' [Hb' [H1 Hok]]]. rewrite Hb in Hb'. inversion Hb'. subst b'.
  assert (U : uniq_ok h vs v (if c_fix_index c && negb (1 <? b_ref b) then (h, Some i) else detach h (Some i) 0) (contents h (Some i))).
  { assert (D : uniq_ok h vs v (detach h (Some i) 0) (contents h (Some i))) by apply (detach_uniq h vs v (Some i) HI Hv Hs).
    destruct (c_fix_index c); cbn [andb]; [|exact D]. destruct (Nat.ltb_spec 1 (b_ref b)) as [L1|L1]; cbn [negb]; [exact D|].
    apply (keep_uniq h vs v (Some i) HI Hv Hs). intros i' b' E Hb''. inversion E. subst i'. rewrite Hb in Hb''. inversion Hb''. subst b'. lia. }
  destruct (if c_fix_index c && negb (1 <? b_ref b) then (h, Some i) else detach h (Some i) 0) as [h1 p1].
  assert (Hlen : length (contents h (Some i)) = b_size b) by (rewrite (contents_view i b Hb); apply view_length, Hok).
  apply (uniq_then h vs v h1 p1 (contents h (Some i))); [exact Hv|exact U| |].
  - intros nb Hr Hok' Hview. assert (b_size nb = b_size b) by (rewrite <- (view_length nb Hok'), Hview; exact Hlen).
    destruct (pop_block_ok nb Hok') as [A [B C]]; [lia|]. rewrite A, C, Hview. auto.
  - intros E. subst p1. pose proof (mem_ok_contents h vs v _ _ Hv (proj1 U)) as C. cbn [fst snd] in C.
    change (contents h1 None) with (@nil N) in C. rewrite <- C in Hlen. cbn [length] in Hlen. lia.
Qed.

End Members.

Lemma pop_ok h vs v p c : Inv (mkstate h vs) -> v < length vs -> nth v vs Dead = slot_of p ->
  mem_ok h vs v (m_pop_back c h p) (removelast (contents h p)).
Proof.
  intros HI Hv Hs. destruct p as [i|] eqn:Ep.
  - destruct (p_block h vs v (Some i) HI Hs i eq_refl) as [b [Hb [H1 Hok]]].
    destruct (Nat.ltb_spec 0 (b_size b)) as [L|L].
    + apply (pop_uniq h vs v (Some i) HI Hv Hs c i b eq_refl Hb L).
    + unfold m_pop_back. rewrite Hb. destruct (Nat.ltb_spec 0 (b_size b)) as [L'|_]; [lia|].
      rewrite (contents_view h i b Hb). unfold view. replace (b_size b) with 0 by lia. cbn [firstn removelast].
      pose proof (noop_ok h vs v (Some i) HI Hv Hs) as M. rewrite (contents_view h i b Hb) in M. unfold view in M.
      replace (b_size b) with 0 in M by lia. exact M.
  - cbn [m_pop_back contents removelast]. apply (noop_ok h vs v None HI Hv Hs).
Qed.

(* ---- assignment, construction, destruction --------------------------------- *)
Lemma opt_eqb_true p q : opt_eqb p q = true -> p = q.
Proof. destruct p as [i|], q as [j|]; cbn [opt_eqb]; try discriminate; try reflexivity. intros H. apply Nat.eqb_eq in H. subst; reflexivity. Qed.
Lemma opt_eqb_false p q : opt_eqb p q = false -> p <> q.
Proof. destruct p as [i|], q as [j|]; cbn [opt_eqb]; try discriminate; try congruence. intros H E. inversion E. subst. rewrite Nat.eqb_refl in H. discriminate. Qed.

Lemma share_contents h p j bj r : hget h j = Some bj -> p <> Some j ->
  contents (unref (hset h j (Some (set_ref bj r))) p) (Some j) = contents h (Some j).
Proof.
  intros Hj Hne. pose proof (hget_Some_lt _ _ _ Hj) as Hlt. unfold contents. rewrite hget_unref.
  destruct p as [k|].
  - destruct (Nat.eqb_spec j k); [congruence|]. rewrite hget_hset_eq by exact Hlt. rewrite Hj. reflexivity.
  - rewrite hget_hset_eq by exact Hlt. rewrite Hj. reflexivity.
Qed.

Lemma assign_ok c h vs v p w q :
  Inv (mkstate h vs) -> v < length vs -> nth v vs Dead = slot_of p -> nth w vs Dead = slot_of q ->
  mem_ok h vs v (m_assign c h p q) (contents h q).
Proof.
  intros HI Hv Hs Hw. unfold m_assign. destruct (opt_eqb p q) eqn:E.
  - apply opt_eqb_true in E. subst q. apply (noop_ok h vs v p HI Hv Hs).
  - apply opt_eqb_false in E. cbv zeta. destruct q as [j|].
    + cbn [slot_of] in Hw. destruct (inv_ptr h vs w j HI Hw) as [bj [Hj _]]. rewrite Hj.
      apply (leak_detach_ok c h vs v (unref (hset h j (Some (set_ref bj (b_ref bj + 1)))) p, Some j) (contents h (Some j)) Hv).
      pose proof (share_repointed h vs (nth v vs Dead) j bj HI Hj) as R.
      replace (ptr_of (nth v vs Dead)) with p in R by (rewrite Hs; symmetry; apply ptr_of_slot_of).
      specialize (R E (fun i => holders_nth vs v i)).
      destruct (repoint_ok h _ vs v (Ptr j) HI Hv R) as [A B].
      unfold mem_ok. cbn [fst snd slot_of]. split; [exact A|]. rewrite B. cbn [absv].
      rewrite share_contents by assumption. reflexivity.
    + cbn [leaked]. rewrite Bool.andb_false_r. apply (clear_ok h vs v p HI Hv Hs).
Qed.

Section Construct.
Variables (h : heap) (vs : list slot) (v : nat).
Hypothesis HI : Inv (mkstate h vs).
Hypothesis Hv : v < length vs.
Hypothesis Hs : nth v vs Dead = Dead.

Lemma no_holder_dead : forall i, nth v vs Dead = Ptr i -> 1 <= holders vs i.
Proof. intros i H. rewrite Hs in H. discriminate H. Qed.

Lemma ctor_default_ok :
  Inv (mkstate h (upd vs v Null)) /\ abs (mkstate h (upd vs v Null)) = upd (abs (mkstate h vs)) v (Some []).
Proof.
  pose proof (unref_repointed h vs (nth v vs Dead) Null HI (fun i => eq_refl) no_holder_dead) as R.
  rewrite Hs in R at 1. cbn [ptr_of unref] in R. exact (repoint_ok h h vs v Null HI Hv R).
Qed.

Lemma share_copy_ok w q : nth w vs Dead = slot_of q -> mem_ok h vs v (share_copy h q) (contents h q).
Proof.
  intros Hw. unfold mem_ok, share_copy. destruct q as [j|].
  - cbn [slot_of] in Hw. destruct (inv_ptr h vs w j HI Hw) as [bj [Hj _]]. rewrite Hj. cbn [fst snd slot_of].
    pose proof (share_repointed h vs (nth v vs Dead) j bj HI Hj) as R. rewrite Hs in R at 1 2. cbn [ptr_of unref] in R.
    specialize (R (fun e => ltac:(discriminate e)) no_holder_dead).
    destruct (repoint_ok h _ vs v (Ptr j) HI Hv R) as [A B]. split; [exact A|]. rewrite B. cbn [absv].
    pose proof (share_contents h None j bj (b_ref bj + 1) Hj (fun e => ltac:(discriminate e))) as C. cbn [unref] in C. rewrite C. reflexivity.
  - cbn [fst snd slot_of contents]. apply ctor_default_ok.
Qed.

Lemma ctor_copy_ok c w q : nth w vs Dead = slot_of q -> mem_ok h vs v (m_ctor_copy c h q) (contents h q).
Proof.
  intros Hw. unfold m_ctor_copy. pose proof (share_copy_ok w q Hw) as M. destruct (share_copy h q) as [h1 p1].
  apply (leak_detach_ok c h vs v (h1, p1) (contents h q) Hv M).
Qed.

Lemma ctor_size_ok size value :
  Inv (mkstate (fst (m_ctor_size h size value)) (upd vs v (slot_of (snd (m_ctor_size h size value))))) /\
  abs (mkstate (fst (m_ctor_size h size value)) (upd vs v (slot_of (snd (m_ctor_size h size value))))) =
    upd (abs (mkstate h vs)) v (Some (repeat value size)) /\
  exists nb, snd (m_ctor_size h size value) = Some (length h) /\ hget (fst (m_ctor_size h size value)) (length h) = Some nb /\
             b_ref nb = 1 /\ blk_ok nb /\ view nb = repeat value size /\ b_size nb = size.
Proof.
  unfold m_ctor_size, new_private. set (cap := if size =? 0 then CAPACITY 1 else CAPACITY size).
  assert (Hcap : size <= cap).
  { unfold cap. destruct (Nat.eqb_spec size 0); [lia|apply CAPACITY_ge]. }
  rewrite hget_app_new, hset_app_last. cbn [fst snd slot_of].
  set (nb := set_data (set_size (mkblock 1 0 cap (repeat UNINIT cap) false) size) (set_at (b_data (mkblock 1 0 cap (repeat UNINIT cap) false)) 0 (repeat value size))).
  assert (Hnb : b_ref nb = 1 /\ blk_ok nb /\ view nb = repeat value size /\ b_size nb = size).
  { unfold nb, view, blk_ok. cbn [set_data set_size b_ref b_size b_cap b_data]. rewrite set_at_length, repeat_length.
    split; [reflexivity|]. split; [split; [exact Hcap|reflexivity]|]. split; [|reflexivity].
    rewrite set_at_0 by (rewrite !repeat_length; exact Hcap). rewrite repeat_length.
    rewrite <- (repeat_length value size) at 1. rewrite firstn_app, Nat.sub_diag, firstn_all. cbn [firstn]. apply app_nil_r. }
  destruct Hnb as [Hr [Hok [Hview Hsz]]].
  pose proof (alloc_repointed h vs (nth v vs Dead) nb HI Hr Hok no_holder_dead) as R. rewrite Hs in R at 1. cbn [ptr_of unref] in R.
  destruct (repoint_ok h _ vs v (Ptr (length h)) HI Hv R) as [A B].
  split; [exact A|]. split.
  - rewrite B. cbn [absv]. unfold contents. rewrite hget_app_new. unfold view in Hview. rewrite Hview. reflexivity.
  - exists nb. split; [reflexivity|]. split; [apply hget_app_new|]. auto.
Qed.
End Construct.

Lemma dtor_ok h vs v p : Inv (mkstate h vs) -> v < length vs -> nth v vs Dead = slot_of p ->
  Inv (mkstate (m_dtor h p) (upd vs v Dead)) /\ abs (mkstate (m_dtor h p) (upd vs v Dead)) = upd (abs (mkstate h vs)) v None.
Proof.
  intros HI Hv Hs. unfold m_dtor.
  assert (R : repointed h (unref h p) (nth v vs Dead) Dead).
  { pose proof (unref_repointed h vs (nth v vs Dead) Dead HI (fun i => eq_refl) (fun i => holders_nth vs v i)) as R.
    rewrite Hs, ptr_of_slot_of in R. rewrite Hs. exact R. }
  exact (repoint_ok h _ vs v Dead HI Hv R).
Qed.

(* ---- comparison --------------------------------------------------------------- *)
Fixpoint lex3 (a b : list N) : Z :=
  match a, b with
  | [], [] => 0%Z
  | [], _ :: _ => (-1)%Z
  | _ :: _, [] => 1%Z
  | x :: a', y :: b' => if (x <? y)%N then (-1)%Z else if (y <? x)%N then 1%Z else lex3 a' b'
  end.

Lemma vec_cmp_lex3 o a : forall b, vec_cmp o a b = cmp_result o (lex3 a b).
Proof.
  induction a as [|x a IH]; intros [|y b].
  - destruct o; reflexivity.
  - destruct o; reflexivity.
  - destruct o; reflexivity.
  - specialize (IH b). unfold vec_cmp in *. cbn [lex_lt list_eqb lex3].
    destruct (N.ltb_spec x y) as [L1|L1]; destruct (N.ltb_spec y x) as [L2|L2]; try lia.
    + destruct (N.eqb_spec x y); [lia|]. destruct o; reflexivity.
    + destruct (N.eqb_spec x y); [lia|]. destruct o; reflexivity.
    + destruct (N.eqb_spec x y); [|lia]. cbn [andb]. exact IH.
Qed.

(* the else branch of cmp on two blocks *)
Definition ccmp (d1 : list N) (s1 : nat) (d2 : list N) (s2 : nat) : Z :=
  let size := if s2 <? s1 then s2 else s1 in
  let result := memcmp d1 d2 size in
  if negb (result =? 0)%Z then result else if size <? s1 then 1%Z else if size <? s2 then (-1)%Z else 0%Z.

Lemma ccmp_lex3 : forall s1 d1 d2 s2, s1 <= length d1 -> s2 <= length d2 ->
  ccmp d1 s1 d2 s2 = lex3 (firstn s1 d1) (firstn s2 d2).
Proof.
  induction s1 as [|s1 IH]; intros d1 d2 s2 H1 H2.
  - unfold ccmp. destruct s2 as [|s2]; [reflexivity|]. destruct d2 as [|y d2]; [cbn [length] in H2; lia|]. reflexivity.
  - destruct d1 as [|x d1]; [cbn [length] in H1; lia|]. destruct s2 as [|s2].
    + unfold ccmp. cbn [firstn lex3]. reflexivity.
    + destruct d2 as [|y d2]; [cbn [length] in H2; lia|]. cbn [length] in H1, H2.
      specialize (IH d1 d2 s2 ltac:(lia) ltac:(lia)). cbn [firstn lex3]. rewrite <- IH. unfold ccmp.
      change (S s2 <? S s1) with (s2 <? s1).
      replace (if s2 <? s1 then S s2 else S s1) with (S (if s2 <? s1 then s2 else s1)) by (destruct (s2 <? s1); reflexivity).
      cbn [memcmp]. destruct (N.ltb_spec x y); [reflexivity|]. destruct (N.ltb_spec y x); [reflexivity|].
      reflexivity.
Qed.

Lemma lex3_nil_l b : lex3 [] b = if 0 <? length b then (-1)%Z else 0%Z.
Proof. destruct b; reflexivity. Qed.
Lemma lex3_nil_r a : lex3 a [] = if 0 <? length a then 1%Z else 0%Z.
Proof. destruct a; reflexivity. Qed.
Lemma lex3_refl a : lex3 a a = 0%Z.
Proof. induction a as [|x a IH]; cbn [lex3]; [reflexivity|]. rewrite N.ltb_irrefl. exact IH. Qed.

Lemma m_size_contents h p : (forall i, p = Some i -> exists b, hget h i = Some b /\ blk_ok b) -> m_size h p = length (contents h p).
Proof.
  intros H. unfold m_size, contents. destruct p as [i|]; [|reflexivity]. destruct (H i eq_refl) as [b [Hb [Hsz Hlen]]].
  rewrite Hb, firstn_length. lia.
Qed.

Lemma m_cmp_fixed c h p q :
  (forall i, p = Some i -> exists b, hget h i = Some b /\ blk_ok b) ->
  (forall i, q = Some i -> exists b, hget h i = Some b /\ blk_ok b) ->
  c_fix_cmp c = true -> m_cmp c h p q = lex3 (contents h p) (contents h q).
Proof.
  intros Hp Hq Hc. unfold m_cmp. rewrite Hc. destruct (opt_eqb p q) eqn:E.
  - apply opt_eqb_true in E. subst q. symmetry. apply lex3_refl.
  - destruct p as [i|], q as [j|].
    + destruct (Hp i eq_refl) as [b [Hb [Hs1 Hl1]]]. destruct (Hq j eq_refl) as [ob [Hob [Hs2 Hl2]]].
      rewrite Hb, Hob. unfold contents. rewrite Hb, Hob. apply (ccmp_lex3 (b_size b) (b_data b) (b_data ob) (b_size ob)); lia.
    + rewrite (m_size_contents h (Some i) Hp). change (contents h None) with (@nil N). symmetry. apply lex3_nil_r.
    + rewrite (m_size_contents h (Some j) Hq). change (contents h None) with (@nil N). symmetry. apply lex3_nil_l.
    + discriminate E.
Qed.

(* in every configuration cmp is zero exactly when the fixed cmp is *)
Lemma m_cmp_zero c h p q : (m_cmp c h p q =? 0)%Z = (m_cmp cfg_fixed h p q =? 0)%Z.
Proof.
  unfold m_cmp. destruct (opt_eqb p q); [reflexivity|]. destruct p as [i|], q as [j|]; try reflexivity.
  - destruct (0 <? m_size h (Some i)); [|reflexivity]. destruct (c_fix_cmp c); reflexivity.
  - destruct (0 <? m_size h (Some j)); [|reflexivity]. destruct (c_fix_cmp c); reflexivity.
Qed.

Lemma cmp_ok c o h p q :
  (forall i, p = Some i -> exists b, hget h i = Some b /\ blk_ok b) ->
  (forall i, q = Some i -> exists b, hget h i = Some b /\ blk_ok b) ->
  op_safe c (OCmp o 0 0) = true ->
  cmp_result o (m_cmp c h p q) = vec_cmp o (contents h p) (contents h q).
Proof.
  intros Hp Hq Hsafe. rewrite vec_cmp_lex3, <- (m_cmp_fixed cfg_fixed h p q Hp Hq eq_refl).
  destruct o; cbn [op_safe] in Hsafe; try (rewrite (m_cmp_fixed c h p q Hp Hq Hsafe), (m_cmp_fixed cfg_fixed h p q Hp Hq eq_refl); reflexivity).
  - cbn [cmp_result]. apply m_cmp_zero.
  - cbn [cmp_result]. f_equal. apply m_cmp_zero.
Qed.

(* ---- bytes_from_hex in the ASCON_NO_STL build ------------------------------- *)
Lemma upd3 {A} (l : list A) v x y z : upd (upd (upd l v x) v y) v z = upd l v z.
Proof. rewrite !upd_upd. reflexivity. Qed.

Lemma from_hex_ok h vs v c str :
  Inv (mkstate h vs) -> v < length vs -> nth v vs Dead = Dead -> c_fix_hex c = true ->
  mem_ok h vs v (m_from_hex c h str) (decoded str).
Proof.
  intros HI Hv Hs Hc. unfold m_from_hex. set (m := length str / 2).
  destruct (ctor_size_ok h vs v HI Hv Hs m 0%N) as [HI0 [HA0 [nb0 [Ep [Hg0 [Hr0 [Hok0 [Hview0 Hsz0]]]]]]]].
  destruct (m_ctor_size h m 0%N) as [h0 p1]. cbn [fst snd] in *. subst p1. cbn [slot_of] in *.
  set (n := length h) in *. set (vs1 := upd vs v (Ptr n)) in *.
  assert (Hv1 : v < length vs1) by (unfold vs1; rewrite upd_length; exact Hv).
  assert (Hn1 : nth v vs1 Dead = Ptr n) by (apply nth_upd_eq, Hv).
  (* vec.data(): the block is vec's alone, nothing is detached; the unshare patch marks it *)
  assert (Ed : m_data c h0 (Some n) = (hset h0 n (Some (markf c nb0)), Some n)).
  { unfold m_data, mark, on_block. rewrite Hg0, Hr0. cbn [Nat.ltb Nat.leb]. rewrite Hg0. reflexivity. }
  rewrite Ed. clear Ed.
  destruct (markf_ok c nb0) as [Mr [Mok [Mview [Msz Mdata]]]].
  assert (Hr : b_ref (markf c nb0) = 1) by (rewrite Mr; exact Hr0).
  assert (Hok : blk_ok (markf c nb0)) by (rewrite Mok; exact Hok0).
  destruct (mutate_ok h0 vs1 v n nb0 (markf c nb0) HI0 Hv1 Hn1 Hg0 Hr0 Hr Hok) as [HI1 HA1'].
  assert (Hg : hget (hset h0 n (Some (markf c nb0))) n = Some (markf c nb0)) by (apply hget_hset_eq; eapply hget_Some_lt, Hg0).
  assert (Hview : view (markf c nb0) = repeat 0%N m) by (rewrite Mview; exact Hview0).
  assert (Hsz : b_size (markf c nb0) = m) by (rewrite Msz; exact Hsz0).
  assert (HA1 : abs (mkstate (hset h0 n (Some (markf c nb0))) vs1) = upd (abs (mkstate h vs)) v (Some (repeat 0%N m))).
  { rewrite HA1', HA0. fold (view (markf c nb0)). rewrite Hview. unfold vs1. rewrite upd_upd. reflexivity. }
  clear HA1' Mr Mok Mview Msz Mdata HI0 HA0 Hg0 Hr0 Hok0 Hview0 Hsz0.
  set (nb := markf c nb0) in *. set (h1 := hset h0 n (Some nb)) in *. clearbody nb h1. clear nb0 h0.
  unfold m_size. rewrite Hg, Hsz.
  destruct Hok as [Hsz_le Hlen].
  assert (Hn : length (digits str) / 2 <= m) by (apply Nat.div_le_mono; [lia|apply digits_length_le]).
  pose proof (from_hex_ret (b_data nb) m str) as Hret. pose proof (from_hex_length (b_data nb) m str) as Hml.
  destruct (from_hex (b_data nb) m str) as [result mem] eqn:Efh. cbn [fst snd] in Hret, Hml.
  set (b3 := set_data nb mem). set (h3 := hset h1 n (Some b3)).
  assert (Eo : on_block h1 (Some n) (fun b => set_data b mem) = h3) by (unfold on_block, h3, b3; rewrite Hg; reflexivity).
  rewrite Eo. clear Eo.
  assert (Hr3 : b_ref b3 = 1) by exact Hr.
  assert (Hok3 : blk_ok b3) by (unfold b3, blk_ok; cbn [set_data b_size b_cap b_data]; split; [lia|lia]).
  destruct (mutate_ok h1 vs1 v n nb b3 HI1 Hv1 Hn1 Hg Hr Hr3 Hok3) as [HI3 HA3]. fold h3 in HI3, HA3.
  assert (Hg3 : hget h3 n = Some b3) by (unfold h3; apply hget_hset_eq; eapply hget_Some_lt, Hg).
  unfold decoded, decode. destruct (wellformed str) eqn:W.
  - (* accepted *)
    apply Nat.leb_le in Hn. rewrite Hn in Hret. cbn [andb] in Hret. subst result.
    apply Nat.leb_le in Hn. set (k := length (digits str) / 2) in *.
    destruct (Z.eqb_spec (Z.of_nat k) (-1)); [lia|]. rewrite Hc, Nat2Z.id.
    assert (A : accepted str m k) by (apply wellformed_accepted; rewrite W; cbn [andb]; apply Nat.leb_le; exact Hn).
    pose proof (from_hex_decodes (b_data nb) m str k A ltac:(lia)) as Ed. rewrite Efh in Ed. inversion Ed as [Em]. clear Ed.
    (* resize: no detach in either configuration *)
    assert (Er : m_resize c h3 (Some n) k = (on_block h3 (Some n) (resize_block k), Some n)).
    { unfold m_resize, m_reserve. rewrite Hg3. unfold b3 at 1 2 3. cbn [set_data b_ref b_cap]. rewrite Hr.
      destruct (Nat.ltb_spec (b_cap nb) k); [lia|]. cbn [orb Nat.ltb Nat.leb]. destruct (c_fix_resize c); reflexivity. }
    rewrite Er.
    (* return vec;  copy-constructs the result and destroys vec *)
    apply (leak_detach_ok c h vs v (on_block h3 (Some n) (resize_block k), Some n) _ Hv).
    unfold mem_ok. cbn [fst snd slot_of].
    destruct (resize_block_ok k b3 Hok3) as [R1 [R2 R3]]; [unfold b3; cbn [set_data b_cap]; lia|].
    pose proof (inplace_then h3 vs1 v (Some n) HI3 Hv1 Hn1 n b3 (resize_block k) eq_refl Hg3 Hr3 ltac:(lia) R2) as M.
    destruct M as [M1 M2]. cbn [fst snd slot_of] in M1, M2. unfold vs1 in M1, M2 at 1. rewrite upd_upd in M1, M2.
    split; [exact M1|]. rewrite M2, HA3, HA1, upd3. f_equal. f_equal.
    change (firstn (b_size (resize_block k b3)) (b_data (resize_block k b3))) with (view (resize_block k b3)). rewrite R3.
    unfold view, b3. cbn [set_data b_size b_data]. rewrite Hsz, Em. unfold vresize.
    assert (Lp : length (pairs (digits str)) = k) by apply pairs_length.
    rewrite firstn_firstn, Nat.min_l by lia. rewrite <- Lp at 1. rewrite firstn_app, Nat.sub_diag, firstn_all. cbn [firstn].
    rewrite app_nil_r. rewrite firstn_length, app_length, skipn_length, Lp.
    replace (k - Nat.min m (k + (length (b_data nb) - k))) with 0 by lia. cbn [repeat]. apply app_nil_r.
  - (* rejected *)
    cbn [andb] in Hret. subst result. change ((-1 =? -1)%Z) with true. cbn iota. unfold mem_ok. cbn [fst snd slot_of].
    pose proof (clear_ok h3 vs1 v (Some n) HI3 Hv1 Hn1) as [M1 M2]. unfold m_clear in M1, M2. cbn [fst snd slot_of] in M1, M2.
    unfold vs1 in M1, M2 at 1. rewrite upd_upd in M1, M2. split; [exact M1|]. rewrite M2, HA3, HA1, upd3. reflexivity.
Qed.

(* ---- references and pointers held across other operations ----------------------- *)
Lemma hget_on_block h k f b : hget h k = Some b -> hget (on_block h (Some k) f) k = Some (f b).
Proof. intros Hb. unfold on_block. rewrite Hb. apply hget_hset_eq. eapply hget_Some_lt, Hb. Qed.

Lemma nth_view b i : i < b_size b -> nth i (b_data b) UNINIT = nth i (view b) UNINIT.
Proof. intros H. unfold view. symmetry. apply nth_firstn_lt, H. Qed.

Lemma rd_block h k b i : hget h k = Some b -> i < b_size b -> ref_rd h (Some (k, i)) = nth i (view b) UNINIT.
Proof. intros Hb Hi. cbn [ref_rd data_at]. rewrite Hb. apply nth_view, Hi. Qed.

Lemma live_block h k b i : hget h k = Some b -> ref_live h (Some (k, i)) = true.
Proof. intros Hb. cbn [ref_live]. rewrite Hb. reflexivity. Qed.

(* with fixes/C20-subscript-detach.patch: operator[] and pop_back on a block that is v's alone leave it where it is *)
Lemma index_ref_again c h k b : c_fix_index c = true -> hget h k = Some b -> b_ref b = 1 ->
  m_index_ref c h (Some k) = (on_block h (Some k) (markf c), Some k).
Proof. intros Hc Hb Hr. unfold m_index_ref, acc_index, mark. rewrite Hc, Hb, Hr. reflexivity. Qed.

Lemma pop_again c h k b : c_fix_index c = true -> hget h k = Some b -> b_ref b = 1 -> 0 < b_size b ->
  m_pop_back c h (Some k) = (on_block h (Some k) (fun b => set_size b (b_size b - 1)), Some k).
Proof.
  intros Hc Hb Hr Hsz. unfold m_pop_back. rewrite Hb, Hc, Hr. destruct (Nat.ltb_spec 0 (b_size b)); [reflexivity|lia].
Qed.

Lemma wr_fn_ok pos value l b : b_ref b = 1 -> blk_ok b -> view b = l ->
  b_ref (set_data b (upd (b_data b) pos value)) = 1 /\ blk_ok (set_data b (upd (b_data b) pos value)) /\
  view (set_data b (upd (b_data b) pos value)) = upd l pos value.
Proof. intros Hr Hok Hview. destruct (set_cell_ok pos value b Hok) as [A [B C]]. rewrite A, C, Hview. auto. Qed.

Section Held.
Variables (h : heap) (vs : list slot) (v : nat) (p : option nat).
Hypothesis HI : Inv (mkstate h vs).
Hypothesis Hv : v < length vs.
Hypothesis Hs : nth v vs Dead = slot_of p.

(* two references taken one after the other are references into the same live block, v's alone *)
Lemma two_refs c : c_fix_index c = true ->
  exists h2 k b, m_index_ref c h p = (fst (m_index_ref c h p), Some k) /\
    m_index_ref c (fst (m_index_ref c h p)) (Some k) = (h2, Some k) /\
    uniq_ok h vs v (h2, Some k) (contents h p) /\ hget h2 k = Some b /\ b_ref b = 1 /\ blk_ok b /\ view b = contents h p.
Proof.
  intros Hc. destruct (index_ref_uniq h vs v p HI Hv Hs c) as [U [k Ek]]. destruct (m_index_ref c h p) as [h1 p1]. cbn [fst snd] in *. subst p1.
  destruct (proj2 U k eq_refl) as [b [Hb [Hr [Hok Hview]]]]. cbn [fst] in Hb.
  exists (on_block h1 (Some k) (markf c)), k, (markf c b). split; [reflexivity|]. split; [apply (index_ref_again c h1 k b Hc Hb Hr)|].
  split; [apply (uniq_mark c h vs v h1 (Some k) _ Hv U)|]. split; [apply hget_on_block, Hb|].
  destruct (markf_ok c b) as [A [B [C _]]]. rewrite A, B, C. auto.
Qed.

Lemma set2_ok c i x j y : c_fix_index c = true ->
  mem_ok h vs v (fst (m_set2 c h p i x j y)) (upd (upd (contents h p) i x) j y) /\ snd (m_set2 c h p i x j y) = RUnit.
Proof.
  intros Hc. unfold m_set2. destruct (two_refs c Hc) as [h2 [k [b [E1 [E2 [U [Hb [Hr [Hok Hview]]]]]]]]].
  rewrite E1, E2. cbn [mkref]. rewrite (live_block h2 k b i Hb), (live_block h2 k b j Hb). cbn [andb fst snd ref_wr].
  pose proof (uniq_then h vs v h2 (Some k) _ _ _ Hv U (wr_fn_ok i x (contents h p)) ltac:(discriminate)) as U3.
  pose proof (uniq_then h vs v _ (Some k) _ _ _ Hv U3 (wr_fn_ok j y _) ltac:(discriminate)) as U4.
  split; [exact (proj1 U4)|reflexivity].
Qed.

Lemma swap_ok c i j : c_fix_index c = true -> i < length (contents h p) -> j < length (contents h p) ->
  mem_ok h vs v (fst (m_swap c h p i j)) (upd (upd (contents h p) i (nth j (contents h p) UNINIT)) j (nth i (contents h p) UNINIT)) /\
  snd (m_swap c h p i j) = RUnit.
Proof.
  intros Hc Hi Hj. unfold m_swap. destruct (two_refs c Hc) as [h2 [k [b [E1 [E2 [U [Hb [Hr [Hok Hview]]]]]]]]].
  rewrite E1, E2. cbn [mkref]. rewrite (live_block h2 k b i Hb), (live_block h2 k b j Hb). cbn [andb].
  rewrite <- Hview in Hi, Hj. rewrite (view_length b Hok) in Hi, Hj.
  rewrite (rd_block h2 k b i Hb Hi), (rd_block h2 k b j Hb Hj), Hview. cbn [fst snd ref_wr].
  pose proof (uniq_then h vs v h2 (Some k) _ _ _ Hv U (wr_fn_ok i (nth j (contents h p) UNINIT) (contents h p)) ltac:(discriminate)) as U3.
  pose proof (uniq_then h vs v _ (Some k) _ _ _ Hv U3 (wr_fn_ok j (nth i (contents h p) UNINIT) _) ltac:(discriminate)) as U4.
  split; [exact (proj1 U4)|reflexivity].
Qed.

Lemma get_held_ok c i j : c_fix_index c = true -> i < length (contents h p) ->
  mem_ok h vs v (fst (m_get_held c h p i j)) (contents h p) /\ snd (m_get_held c h p i j) = RByte (nth i (contents h p) UNINIT).
Proof.
  intros Hc Hi. unfold m_get_held. destruct (two_refs c Hc) as [h2 [k [b [E1 [E2 [U [Hb [Hr [Hok Hview]]]]]]]]].
  rewrite E1, E2. cbn [mkref]. rewrite (live_block h2 k b _ Hb).
  rewrite <- Hview in Hi. rewrite (view_length b Hok) in Hi. rewrite (rd_block h2 k b i Hb Hi), Hview. cbn [fst snd].
  split; [exact (proj1 U)|reflexivity].
Qed.

Lemma held_pop_ok c i : c_fix_index c = true -> i + 1 < length (contents h p) ->
  mem_ok h vs v (fst (m_held_pop c h p i)) (removelast (contents h p)) /\ snd (m_held_pop c h p i) = RByte (nth i (contents h p) UNINIT).
Proof.
  intros Hc Hi. unfold m_held_pop.
  destruct (index_ref_uniq h vs v p HI Hv Hs c) as [U [k Ek]]. destruct (m_index_ref c h p) as [h1 p1]. cbn [fst snd] in *. subst p1.
  destruct (proj2 U k eq_refl) as [b [Hb [Hr [Hok Hview]]]]. cbn [fst] in Hb.
  rewrite <- Hview in Hi. rewrite (view_length b Hok) in Hi.
  rewrite (pop_again c h1 k b Hc Hb Hr ltac:(lia)). cbn [mkref].
  set (f := fun b0 : block => set_size b0 (b_size b0 - 1)).
  pose proof (hget_on_block h1 k f b Hb) as Hb2. rewrite (live_block _ k _ _ Hb2).
  assert (U2 : uniq_ok h vs v (on_block h1 (Some k) f, Some k) (removelast (contents h p))).
  { apply (uniq_then h vs v h1 (Some k) (contents h p)); [exact Hv|exact U| |discriminate].
    intros nb Hr' Hok' Hview'. assert (b_size nb = b_size b) by (rewrite <- (view_length nb Hok'), Hview', <- Hview; apply view_length, Hok).
    destruct (pop_block_ok nb Hok') as [A [B C]]; [lia|]. unfold f. rewrite A, C, Hview'. auto. }
  cbn [ref_rd data_at]. rewrite Hb2. change (b_data (f b)) with (b_data b). rewrite (nth_view b i) by lia. rewrite Hview. cbn [fst snd].
  split; [exact (proj1 U2)|reflexivity].
Qed.

Lemma data_leaked c : c_fix_leak c = true -> forall k, snd (m_data c h p) = Some k -> leaked (fst (m_data c h p)) (Some k) = true.
Proof.
  intros Hc k Ek. pose proof (data_uniq h vs v p HI Hv Hs c) as [_ HU]. destruct (HU k Ek) as [b' [Hb' _]].
  unfold leaked. rewrite Hb'. revert Ek Hb'. unfold m_data. destruct p as [i|]; [|discriminate].
  destruct (p_block h vs v (Some i) HI Hs i eq_refl) as [b [Hb _]]. rewrite Hb.
  destruct (if 1 <? b_ref b then detach h (Some i) 0 else (h, Some i)) as [h1 p1]. cbn [fst snd]. intros E Hb'. subst p1.
  unfold mark, on_block in Hb'. destruct (hget h1 k) as [b1|] eqn:Hb1.
  - rewrite hget_hset_eq in Hb' by (eapply hget_Some_lt, Hb1). inversion Hb'. unfold markf. rewrite Hc. reflexivity.
  - rewrite Hb1 in Hb'. discriminate Hb'.
Qed.

Lemma cdata_held_ok c i j value : c_fix_index c = true -> c_fix_leak c = true -> i < length (contents h p) ->
  mem_ok h vs v (fst (m_cdata_held c h p i j value)) (upd (contents h p) j value) /\
  snd (m_cdata_held c h p i j value) = RByte (nth i (upd (contents h p) j value) UNINIT).
Proof.
  intros Hc Hl Hi. unfold m_cdata_held, m_data_c. rewrite Hl.
  assert (Hp : p <> None) by (intros E; rewrite E in Hi; cbn [contents length] in Hi; lia).
  destruct (data_some h vs v p HI Hs c Hp) as [k Ek]. pose proof (data_uniq h vs v p HI Hv Hs c) as U.
  destruct (m_data c h p) as [h1 p1]. cbn [fst snd] in *. subst p1.
  destruct (proj2 U k eq_refl) as [b [Hb [Hr [Hok Hview]]]]. cbn [fst] in Hb.
  unfold m_index_set. rewrite (index_ref_again c h1 k b Hc Hb Hr). cbn [mkref].
  pose proof (uniq_mark c h vs v h1 (Some k) _ Hv U) as U2. unfold mark in U2.
  pose proof (uniq_then h vs v _ (Some k) _ _ _ Hv U2 (wr_fn_ok j value (contents h p)) ltac:(discriminate)) as U3.
  destruct (proj2 U3 k eq_refl) as [b3 [Hb3 [Hr3 [Hok3 Hview3]]]]. cbn [fst] in Hb3.
  rewrite (live_block _ k b3 _ Hb3).
  assert (Hi3 : i < b_size b3) by (rewrite <- (view_length b3 Hok3), Hview3, upd_length; exact Hi).
  rewrite (rd_block _ k b3 i Hb3 Hi3), Hview3. cbn [fst snd]. split; [exact (proj1 U3)|reflexivity].
Qed.
End Held.

(* ---- a data() pointer held while the array is copied --------------------------- *)
Lemma upd_comm {A} (l : list A) : forall v w x y, v <> w -> upd (upd l v x) w y = upd (upd l w y) v x.
Proof.
  induction l as [|a l IH]; intros [|v] [|w] x y H; cbn [upd]; try reflexivity; try lia. rewrite IH by lia. reflexivity.
Qed.

(* a write through a reference into the block that v alone holds *)
Lemma write_unique h vs v k l pos value :
  Inv (mkstate h vs) -> v < length vs -> nth v vs Dead = Ptr k -> holders vs k = 1 -> vvar (abs (mkstate h vs)) v = Some l ->
  ref_live h (Some (k, pos)) = true /\
  Inv (mkstate (ref_wr h (Some (k, pos)) value) vs) /\
  abs (mkstate (ref_wr h (Some (k, pos)) value) vs) = upd (abs (mkstate h vs)) v (Some (upd l pos value)).
Proof.
  intros HI Hv Hn Hh Hl. destruct (inv_ptr h vs v k HI Hn) as [b [Hb [Hr [H1 Hok]]]].
  assert (Hview : view b = l).
  { rewrite vvar_abs in Hl. unfold var in Hl. cbn [heap_of vars_of] in Hl. rewrite Hn in Hl. cbn [absv] in Hl.
    unfold contents in Hl. rewrite Hb in Hl. inversion Hl. reflexivity. }
  cbn [ref_live ref_wr]. unfold on_block. rewrite Hb.
  destruct (set_cell_ok pos value b Hok) as [A [B C]].
  destruct (mutate_ok h vs v k b _ HI Hv Hn Hb ltac:(lia) ltac:(rewrite A; lia) B) as [I2 A2].
  split; [reflexivity|]. split; [exact I2|]. rewrite A2. unfold view in C, Hview. rewrite C, Hview. reflexivity.
Qed.

(* v alone holds block k; a member function is run on another variable w and leaves w pointing
   elsewhere; then a held pointer into block k is written through *)
Lemma held_write_after h1 vs1 v w k l res2 l2 pos value :
  Inv (mkstate h1 vs1) -> v < length vs1 -> w < length vs1 -> v <> w -> nth v vs1 Dead = Ptr k ->
  holders vs1 k = 1 -> vvar (abs (mkstate h1 vs1)) v = Some l ->
  mem_ok h1 vs1 w res2 l2 -> snd res2 <> Some k ->
  ref_live (fst res2) (Some (k, pos)) = true /\
  Inv (mkstate (ref_wr (fst res2) (Some (k, pos)) value) (upd vs1 w (slot_of (snd res2)))) /\
  abs (mkstate (ref_wr (fst res2) (Some (k, pos)) value) (upd vs1 w (slot_of (snd res2)))) =
    upd (upd (abs (mkstate h1 vs1)) w (Some l2)) v (Some (upd l pos value)).
Proof.
  intros HI Hv Hw Hne Hn Hh Hl [I2 A2] Hq.
  set (vs2 := upd vs1 w (slot_of (snd res2))) in *.
  assert (Hv2 : v < length vs2) by (unfold vs2; rewrite upd_length; exact Hv).
  assert (Hn2 : nth v vs2 Dead = Ptr k) by (unfold vs2; rewrite nth_upd_neq by exact Hne; exact Hn).
  assert (Hh2 : holders vs2 k = 1).
  { pose proof (holders_upd vs1 w (slot_of (snd res2)) k Hw) as HU. fold vs2 in HU.
    assert (isP (nth w vs1 Dead) k = 0).
    { pose proof (isP_le1 (nth w vs1 Dead) k). destruct (Nat.eq_dec (isP (nth w vs1 Dead) k) 1) as [E|E]; [|lia].
      apply isP_1 in E. pose proof (holders_two vs1 v w k Hne Hn E). lia. }
    assert (isP (slot_of (snd res2)) k = 0).
    { destruct (snd res2) as [j|]; [|reflexivity]. cbn [slot_of]. rewrite isP_Ptr. destruct (Nat.eqb_spec j k); [congruence|reflexivity]. }
    lia. }
  assert (Hl2 : vvar (abs (mkstate (fst res2) vs2)) v = Some l).
  { rewrite A2. unfold vvar. rewrite nth_upd_neq by exact Hne. exact Hl. }
  destruct (write_unique (fst res2) vs2 v k l pos value I2 Hv2 Hn2 Hh2 Hl2) as [L [I3 A3]].
  split; [exact L|]. split; [exact I3|]. rewrite A3, A2. reflexivity.
Qed.

(* after data() with the unshare patch: v alone holds its block, which is marked *)
Lemma data_state c h vs v p : Inv (mkstate h vs) -> v < length vs -> nth v vs Dead = slot_of p -> p <> None ->
  exists k b, snd (m_data c h p) = Some k /\ hget (fst (m_data c h p)) k = Some b /\
    Inv (mkstate (fst (m_data c h p)) (upd vs v (Ptr k))) /\
    abs (mkstate (fst (m_data c h p)) (upd vs v (Ptr k))) = abs (mkstate h vs) /\
    holders (upd vs v (Ptr k)) k = 1 /\ k < length (fst (m_data c h p)) /\
    (c_fix_leak c = true -> b_leak b = true).
Proof.
  intros HI Hv Hs Hp. destruct (data_some h vs v p HI Hs c Hp) as [k Ek]. pose proof (data_uniq h vs v p HI Hv Hs c) as [[I1 A1] HU].
  pose proof (data_leaked h vs v p HI Hv Hs c) as HL. destruct (m_data c h p) as [h1 p1]. cbn [fst snd] in *. subst p1. cbn [slot_of] in *.
  destruct (HU k eq_refl) as [b [Hb [Hr [Hok Hview]]]]. exists k, b. split; [reflexivity|]. split; [exact Hb|]. split; [exact I1|].
  split; [|split; [|split]].
  - rewrite A1. apply (upd_nth_same _ _ _ None); [rewrite abs_length; exact Hv|apply (abs_v h vs v p Hs)].
  - pose proof (I1 k) as Hk. cbn [heap_of vars_of] in Hk. rewrite Hb in Hk. lia.
  - eapply hget_Some_lt, Hb.
  - intros Hc. specialize (HL Hc k eq_refl). unfold leaked in HL. rewrite Hb in HL. exact HL.
Qed.

Lemma ctor_copy_leaked_snd c h k b : c_fix_leak c = true -> hget h k = Some b -> b_leak b = true ->
  snd (m_ctor_copy c h (Some k)) = Some (length h).
Proof.
  intros Hc Hb Hl. pose proof (hget_Some_lt _ _ _ Hb) as Hlt. unfold m_ctor_copy, share_copy. rewrite Hb, Hc. unfold leaked.
  rewrite hget_hset_eq by exact Hlt. cbn [set_ref b_leak]. rewrite Hl. cbn [andb]. rewrite detach_snd, hset_length. reflexivity.
Qed.

Lemma assign_leaked_snd c h pw k b : c_fix_leak c = true -> hget h k = Some b -> b_leak b = true -> pw <> Some k ->
  snd (m_assign c h pw (Some k)) = Some (length h).
Proof.
  intros Hc Hb Hl Hne. pose proof (hget_Some_lt _ _ _ Hb) as Hlt. unfold m_assign.
  destruct (opt_eqb pw (Some k)) eqn:E; [apply opt_eqb_true in E; congruence|]. rewrite Hb, Hc. cbv zeta. unfold leaked.
  rewrite hget_unref. assert (Hk : hget (hset h k (Some (set_ref b (b_ref b + 1)))) k = Some (set_ref b (b_ref b + 1))) by (apply hget_hset_eq, Hlt).
  destruct pw as [j|].
  - destruct (Nat.eqb_spec k j); [congruence|]. rewrite Hk. cbn [set_ref b_leak]. rewrite Hl. cbn [andb].
    rewrite detach_snd. unfold unref. destruct (hget (hset h k (Some (set_ref b (b_ref b + 1)))) j) as [bj|]; [|apply f_equal, hset_length].
    destruct (b_ref bj - 1 =? 0); rewrite !hset_length; reflexivity.
  - rewrite Hk. cbn [set_ref b_leak]. rewrite Hl. cbn [andb]. rewrite detach_snd. cbn [unref]. rewrite hset_length. reflexivity.
Qed.

(* ---- one operation ------------------------------------------------------------ *)
Lemma slot_of_ptr_of s : alive s = true -> slot_of (ptr_of s) = s.
Proof. destruct s; cbn [alive ptr_of slot_of]; intros H; try reflexivity. discriminate H. Qed.

Definition vlive (a : vstate) (v : nat) : bool := match vvar a v with Some _ => true | None => false end.

Lemma live_facts h vs v : vlive (abs (mkstate h vs)) v = true ->
  v < length vs /\ alive (nth v vs Dead) = true /\ nth v vs Dead = slot_of (ptr_of (nth v vs Dead)) /\
  vvar (abs (mkstate h vs)) v = Some (contents h (ptr_of (nth v vs Dead))).
Proof.
  unfold vlive. rewrite vvar_abs. unfold var. cbn [heap_of vars_of]. intros H.
  assert (Ha : alive (nth v vs Dead) = true) by (destruct (nth v vs Dead); [discriminate H|reflexivity|reflexivity]).
  split.
  - destruct (Nat.lt_ge_cases v (length vs)) as [L|L]; [exact L|]. rewrite nth_overflow in Ha by exact L. discriminate Ha.
  - split; [exact Ha|]. split; [symmetry; apply slot_of_ptr_of, Ha|].
    rewrite <- (slot_of_ptr_of _ Ha) at 1. apply absv_slot_of.
Qed.

Lemma dead_facts h vs v : (v <? length (abs (mkstate h vs))) && negb (vlive (abs (mkstate h vs)) v) = true ->
  v < length vs /\ nth v vs Dead = Dead /\ vvar (abs (mkstate h vs)) v = None.
Proof.
  rewrite abs_length. cbn [vars_of]. intros H. apply andb_true_iff in H. destruct H as [H1 H2]. apply Nat.ltb_lt in H1.
  split; [exact H1|]. unfold vlive in H2. rewrite vvar_abs in *. unfold var in *. cbn [heap_of vars_of] in *.
  destruct (nth v vs Dead); [split; reflexivity|discriminate H2|discriminate H2].
Qed.

Lemma blocks_of_inv h vs v : Inv (mkstate h vs) ->
  forall i, ptr_of (nth v vs Dead) = Some i -> exists b, hget h i = Some b /\ blk_ok b.
Proof.
  intros HI i H. assert (E : nth v vs Dead = Ptr i) by (destruct (nth v vs Dead); cbn [ptr_of] in H; congruence).
  destruct (inv_ptr h vs v i HI E) as [b [Hb [_ [_ Hok]]]]. exists b. auto.
Qed.

Definition refines1 (c : cfg) (st : state) (o : op) : Prop :=
  abs (fst (step c st o)) = fst (vec_step (abs st) o) /\
  res_agree (snd (step c st o)) (snd (vec_step (abs st) o)) /\
  Inv (fst (step c st o)).

Lemma member_refines h vs v f g :
  vlive (abs (mkstate h vs)) v = true ->
  (let p := ptr_of (nth v vs Dead) in
   mem_ok h vs v (fst (f h p)) (fst (g (contents h p))) /\ res_agree (snd (f h p)) (snd (g (contents h p)))) ->
  abs (fst (member (mkstate h vs) v f)) = fst (vmember (abs (mkstate h vs)) v g) /\
  res_agree (snd (member (mkstate h vs) v f)) (snd (vmember (abs (mkstate h vs)) v g)) /\
  Inv (fst (member (mkstate h vs) v f)).
Proof.
  intros Hl. destruct (live_facts h vs v Hl) as [Hv [Ha [Hs Hvv]]]. cbn zeta. intros [[M1 M2] R].
  unfold member, vmember, var. cbn [heap_of vars_of]. rewrite Ha, Hvv.
  destruct (f h (ptr_of (nth v vs Dead))) as [[h' p'] r]. destruct (g (contents h (ptr_of (nth v vs Dead)))) as [l' r'].
  unfold put. cbn [fst snd heap_of vars_of] in *. split; [exact M2|]. split; [exact R|exact M1].
Qed.

Lemma agree_refl r : res_agree r r.
Proof. right. reflexivity. Qed.

Theorem step_refines c st o :
  Inv st -> op_pre (abs st) o = true -> op_safe c o = true -> refines1 c st o.
Proof.
  destruct st as [h vs]. intros HI Hpre Hsafe. unfold refines1.
  destruct o as [v|v w|v n value|v str|v|v w|v pos value|v pos|v pos|v|v|v|v|v pos value|v|v n|v n|v|v value|v|o v w
                |v i x j y|v i j|v i j|v i j|v i|v w pos value|v w pos value|v i j value];
    cbn [op_pre] in Hpre; fold (vlive (abs (mkstate h vs))) in Hpre; cbn [step vec_step].
  - (* OCtor *)
    destruct (dead_facts h vs v Hpre) as [Hv [Hs Hvv]]. unfold var. cbn [heap_of vars_of]. rewrite Hs, Hvv. cbn [alive].
    unfold construct, put. cbn [fst snd slot_of heap_of vars_of]. destruct (ctor_default_ok h vs v HI Hv Hs) as [A B].
    split; [exact B|]. split; [apply agree_refl|exact A].
  - (* OCtorCopy *)
    apply andb_true_iff in Hpre. destruct Hpre as [Hd Hl]. destruct (dead_facts h vs v Hd) as [Hv [Hs Hvv]].
    destruct (live_facts h vs w Hl) as [Hw [Haw [Hsw Hvw]]].
    unfold var. cbn [heap_of vars_of]. rewrite Hs, Hvv, Hvw, Haw. cbn [alive orb negb].
    unfold construct, put. cbn [fst snd heap_of vars_of].
    destruct (ctor_copy_ok h vs v HI Hv Hs c w _ Hsw) as [A B]. split; [exact B|]. split; [apply agree_refl|exact A].
  - (* OCtorSize *)
    destruct (dead_facts h vs v Hpre) as [Hv [Hs Hvv]]. unfold var. cbn [heap_of vars_of]. rewrite Hs, Hvv. cbn [alive].
    unfold construct, put. cbn [fst snd heap_of vars_of]. destruct (ctor_size_ok h vs v HI Hv Hs n value) as [A [B _]].
    split; [exact B|]. split; [apply agree_refl|exact A].
  - (* OFromHex *)
    destruct (dead_facts h vs v Hpre) as [Hv [Hs Hvv]]. unfold var. cbn [heap_of vars_of]. rewrite Hs, Hvv. cbn [alive].
    unfold construct, put. cbn [fst snd heap_of vars_of]. cbn [op_safe] in Hsafe.
    destruct (from_hex_ok h vs v c str HI Hv Hs Hsafe) as [A B]. split; [exact B|]. split; [apply agree_refl|exact A].
  - (* ODtor *)
    destruct (live_facts h vs v Hpre) as [Hv [Ha [Hs Hvv]]]. unfold var. cbn [heap_of vars_of]. rewrite Ha, Hvv.
    cbn [fst snd]. destruct (dtor_ok h vs v _ HI Hv Hs) as [A B]. split; [exact B|]. split; [apply agree_refl|exact A].
  - (* OAssign *)
    apply andb_true_iff in Hpre. destruct Hpre as [Hl Hlw]. destruct (live_facts h vs w Hlw) as [Hw [Haw [Hsw Hvw]]].
    destruct (live_facts h vs v Hl) as [Hv [Ha [Hs Hvv]]].
    change (var (mkstate h vs) w) with (nth w vs Dead). rewrite Haw, Hvw. apply member_refines; [exact Hl|]. cbn zeta. cbn [fst snd].
    split; [|apply agree_refl]. apply (assign_ok c h vs v _ w _ HI Hv Hs Hsw).
  - (* OSet *)
    assert (Hl : vlive (abs (mkstate h vs)) v = true) by (unfold vlive; destruct (vvar (abs (mkstate h vs)) v); [reflexivity|discriminate Hpre]).
    destruct (live_facts h vs v Hl) as [Hv [Ha [Hs Hvv]]].
    apply member_refines; [exact Hl|]. cbn zeta. cbn [fst snd]. split; [|apply agree_refl]. apply (index_set_ok h vs v _ HI Hv Hs c).
  - (* OGet *)
    assert (Hl : vlive (abs (mkstate h vs)) v = true) by (unfold vlive; destruct (vvar (abs (mkstate h vs)) v); [reflexivity|discriminate Hpre]).
    destruct (live_facts h vs v Hl) as [Hv [Ha [Hs Hvv]]]. rewrite Hvv in Hpre. apply Nat.ltb_lt in Hpre.
    apply member_refines; [exact Hl|]. cbn zeta.
    destruct (index_get_ok h vs v _ HI Hv Hs c pos) as [A B]. specialize (B Hpre).
    destruct (m_index_get c h (ptr_of (nth v vs Dead)) pos) as [[h' p'] x]. cbn [fst snd] in *. split; [exact A|]. right. rewrite B. reflexivity.
  - (* OGetC *)
    assert (Hl : vlive (abs (mkstate h vs)) v = true) by (unfold vlive; destruct (vvar (abs (mkstate h vs)) v); [reflexivity|discriminate Hpre]).
    destruct (live_facts h vs v Hl) as [Hv [Ha [Hs Hvv]]]. rewrite Hvv in Hpre. apply Nat.ltb_lt in Hpre.
    apply member_refines; [exact Hl|]. cbn zeta.
    destruct (index_get_ok h vs v _ HI Hv Hs c pos) as [A B]. specialize (B Hpre).
    destruct (m_index_get c h (ptr_of (nth v vs Dead)) pos) as [[h' p'] x]. cbn [fst snd] in *. split; [exact A|]. right. rewrite B. reflexivity.
  - (* OSize *)
    destruct (live_facts h vs v Hpre) as [Hv [Ha [Hs Hvv]]]. apply member_refines; [exact Hpre|]. cbn zeta. cbn [fst snd].
    split; [apply (noop_ok h vs v _ HI Hv Hs)|]. right. f_equal. apply m_size_contents. apply (blocks_of_inv h vs v HI).
  - (* OCapacity *)
    destruct (live_facts h vs v Hpre) as [Hv [Ha [Hs Hvv]]]. apply member_refines; [exact Hpre|]. cbn zeta. cbn [fst snd].
    split; [apply (noop_ok h vs v _ HI Hv Hs)|]. left. reflexivity.
  - (* OEmpty *)
    destruct (live_facts h vs v Hpre) as [Hv [Ha [Hs Hvv]]]. apply member_refines; [exact Hpre|]. cbn zeta. cbn [fst snd].
    split; [apply (noop_ok h vs v _ HI Hv Hs)|]. right. f_equal.
    rewrite <- (m_size_contents h _ (blocks_of_inv h vs v HI)). unfold m_empty, m_size.
    destruct (ptr_of (nth v vs Dead)) as [i|]; [|reflexivity]. destruct (hget h i); reflexivity.
  - (* OData *)
    destruct (live_facts h vs v Hpre) as [Hv [Ha [Hs Hvv]]]. apply member_refines; [exact Hpre|]. cbn zeta.
    destruct (data_ok h vs v _ HI Hv Hs c) as [A B]. destruct (m_data c h (ptr_of (nth v vs Dead))) as [h' p']. cbn [fst snd] in *.
    split; [exact A|]. right. rewrite B. reflexivity.
  - (* ODataSet *)
    assert (Hl : vlive (abs (mkstate h vs)) v = true) by (unfold vlive; destruct (vvar (abs (mkstate h vs)) v); [reflexivity|discriminate Hpre]).
    destruct (live_facts h vs v Hl) as [Hv [Ha [Hs Hvv]]]. apply member_refines; [exact Hl|]. cbn zeta.
    pose proof (data_set_ok h vs v _ HI Hv Hs c pos value) as A. destruct (m_data c h (ptr_of (nth v vs Dead))) as [h' p']. cbn [fst snd] in *.
    split; [exact A|apply agree_refl].
  - (* ODataC *)
    destruct (live_facts h vs v Hpre) as [Hv [Ha [Hs Hvv]]]. apply member_refines; [exact Hpre|]. cbn zeta.
    destruct (data_c_ok h vs v _ HI Hv Hs c) as [A B]. destruct (m_data_c c h (ptr_of (nth v vs Dead))) as [h' p']. cbn [fst snd] in *.
    split; [exact A|]. right. rewrite B. reflexivity.
  - (* OReserve *)
    destruct (live_facts h vs v Hpre) as [Hv [Ha [Hs Hvv]]]. apply member_refines; [exact Hpre|]. cbn zeta. cbn [fst snd].
    split; [apply (reserve_ok h vs v _ HI Hv Hs)|apply agree_refl].
  - (* OResize *)
    destruct (live_facts h vs v Hpre) as [Hv [Ha [Hs Hvv]]]. apply member_refines; [exact Hpre|]. cbn zeta. cbn [fst snd].
    cbn [op_safe] in Hsafe. split; [apply (resize_fixed_ok h vs v _ HI Hv Hs c n Hsafe)|apply agree_refl].
  - (* OClear *)
    destruct (live_facts h vs v Hpre) as [Hv [Ha [Hs Hvv]]]. apply member_refines; [exact Hpre|]. cbn zeta. cbn [fst snd].
    split; [apply (clear_ok h vs v _ HI Hv Hs)|apply agree_refl].
  - (* OPush *)
    destruct (live_facts h vs v Hpre) as [Hv [Ha [Hs Hvv]]]. apply member_refines; [exact Hpre|]. cbn zeta. cbn [fst snd].
    split; [apply (push_ok h vs v _ HI Hv Hs)|apply agree_refl].
  - (* OPop *)
    destruct (live_facts h vs v Hpre) as [Hv [Ha [Hs Hvv]]]. apply member_refines; [exact Hpre|]. cbn zeta. cbn [fst snd].
    split; [apply (pop_ok h vs v _ c HI Hv Hs)|apply agree_refl].
  - (* OCmp *)
    apply andb_true_iff in Hpre. destruct Hpre as [Hl Hlw]. destruct (live_facts h vs w Hlw) as [Hw [Haw [Hsw Hvw]]].
    destruct (live_facts h vs v Hl) as [Hv [Ha [Hs Hvv]]].
    change (var (mkstate h vs) w) with (nth w vs Dead). rewrite Haw, Hvw. apply member_refines; [exact Hl|]. cbn zeta. cbn [fst snd].
    split; [apply (noop_ok h vs v _ HI Hv Hs)|]. right. f_equal.
    apply cmp_ok; [apply (blocks_of_inv h vs v HI)|apply (blocks_of_inv h vs w HI)|].
    destruct o; exact Hsafe.
  - (* OSet2 *)
    apply andb_true_iff in Hpre. destruct Hpre as [Hi Hj].
    assert (Hl : vlive (abs (mkstate h vs)) v = true) by (unfold vlive; destruct (vvar (abs (mkstate h vs)) v); [reflexivity|discriminate Hi]).
    destruct (live_facts h vs v Hl) as [Hv [Ha [Hs Hvv]]]. cbn [op_safe] in Hsafe.
    apply member_refines; [exact Hl|]. cbn zeta.
    destruct (set2_ok h vs v _ HI Hv Hs c i x j y Hsafe) as [A B]. split; [exact A|rewrite B; apply agree_refl].
  - (* OSwap *)
    apply andb_true_iff in Hpre. destruct Hpre as [Hi Hj].
    assert (Hl : vlive (abs (mkstate h vs)) v = true) by (unfold vlive; destruct (vvar (abs (mkstate h vs)) v); [reflexivity|discriminate Hi]).
    destruct (live_facts h vs v Hl) as [Hv [Ha [Hs Hvv]]]. rewrite Hvv in Hi, Hj. apply Nat.ltb_lt in Hi, Hj. cbn [op_safe] in Hsafe.
    apply member_refines; [exact Hl|]. cbn zeta.
    destruct (swap_ok h vs v _ HI Hv Hs c i j Hsafe Hi Hj) as [A B]. split; [exact A|rewrite B; apply agree_refl].
  - (* OGetHeld *)
    apply andb_true_iff in Hpre. destruct Hpre as [Hi Hj].
    assert (Hl : vlive (abs (mkstate h vs)) v = true) by (unfold vlive; destruct (vvar (abs (mkstate h vs)) v); [reflexivity|discriminate Hi]).
    destruct (live_facts h vs v Hl) as [Hv [Ha [Hs Hvv]]]. rewrite Hvv in Hi. apply Nat.ltb_lt in Hi. cbn [op_safe] in Hsafe.
    apply member_refines; [exact Hl|]. cbn zeta.
    destruct (get_held_ok h vs v _ HI Hv Hs c i j Hsafe Hi) as [A B]. split; [exact A|rewrite B; apply agree_refl].
  - (* OGetHeldC *)
    apply andb_true_iff in Hpre. destruct Hpre as [Hi Hj].
    assert (Hl : vlive (abs (mkstate h vs)) v = true) by (unfold vlive; destruct (vvar (abs (mkstate h vs)) v); [reflexivity|discriminate Hi]).
    destruct (live_facts h vs v Hl) as [Hv [Ha [Hs Hvv]]]. rewrite Hvv in Hi. apply Nat.ltb_lt in Hi. cbn [op_safe] in Hsafe.
    apply member_refines; [exact Hl|]. cbn zeta.
    destruct (get_held_ok h vs v _ HI Hv Hs c i j Hsafe Hi) as [A B]. split; [exact A|rewrite B; apply agree_refl].
  - (* OHeldPop *)
    assert (Hl : vlive (abs (mkstate h vs)) v = true) by (unfold vlive; destruct (vvar (abs (mkstate h vs)) v); [reflexivity|discriminate Hpre]).
    destruct (live_facts h vs v Hl) as [Hv [Ha [Hs Hvv]]]. rewrite Hvv in Hpre. apply Nat.ltb_lt in Hpre. cbn [op_safe] in Hsafe.
    apply member_refines; [exact Hl|]. cbn zeta.
    destruct (held_pop_ok h vs v _ HI Hv Hs c i Hsafe Hpre) as [A B]. split; [exact A|rewrite B; apply agree_refl].
  - (* ODataHeldCopy *)
    apply andb_true_iff in Hpre. destruct Hpre as [Hi Hd]. cbn [op_safe] in Hsafe.
    assert (Hl : vlive (abs (mkstate h vs)) v = true) by (unfold vlive; destruct (vvar (abs (mkstate h vs)) v); [reflexivity|discriminate Hi]).
    destruct (live_facts h vs v Hl) as [Hv [Ha [Hs Hvv]]]. destruct (dead_facts h vs w Hd) as [Hw [Hsw Hvw]].
    rewrite Hvv in Hi. apply Nat.ltb_lt in Hi.
    unfold var. cbn [heap_of vars_of]. rewrite Ha, Hsw, Hvv, Hvw. cbn [alive andb negb].
    set (p := ptr_of (nth v vs Dead)) in *.
    assert (Hp : p <> None) by (intros E; rewrite E in Hi; cbn [contents length] in Hi; lia).
    assert (Hne : v <> w) by (intros E; subst w; rewrite Hsw in Ha; discriminate Ha).
    destruct (data_state c h vs v p HI Hv Hs Hp) as [k [b [Ek [Hb [I1 [A1 [Hh1 [Hk Hleak]]]]]]]].
    destruct (m_data c h p) as [h1 p1]. cbn [fst snd] in *. subst p1. cbn [slot_of].
    set (vs1 := upd vs v (Ptr k)) in *.
    assert (Hv1 : v < length vs1) by (unfold vs1; rewrite upd_length; exact Hv).
    assert (Hw1 : w < length vs1) by (unfold vs1; rewrite upd_length; exact Hw).
    assert (Hn1 : nth v vs1 Dead = Ptr k) by (apply nth_upd_eq, Hv).
    assert (Hsw1 : nth w vs1 Dead = Dead) by (unfold vs1; rewrite nth_upd_neq by (intros E; apply Hne; symmetry; exact E); exact Hsw).
    assert (Hl1 : vvar (abs (mkstate h1 vs1)) v = Some (contents h p)) by (rewrite A1; exact Hvv).
    assert (Hc1 : contents h1 (Some k) = contents h p).
    { rewrite vvar_abs in Hl1. unfold var in Hl1. cbn [heap_of vars_of] in Hl1. rewrite Hn1 in Hl1. cbn [absv] in Hl1. inversion Hl1. reflexivity. }
    pose proof (ctor_copy_ok h1 vs1 w I1 Hw1 Hsw1 c v (Some k) Hn1) as M2.
    pose proof (ctor_copy_leaked_snd c h1 k b Hsafe Hb (Hleak Hsafe)) as Eq.
    destruct (m_ctor_copy c h1 (Some k)) as [h2 q]. cbn [snd] in Eq. subst q.
    destruct (held_write_after h1 vs1 v w k (contents h p) (h2, Some (length h1)) _ pos value I1 Hv1 Hw1 Hne Hn1 Hh1 Hl1 M2) as [L [I3 A3]].
    { cbn [snd]. intros E. inversion E. lia. }
    cbn [fst snd slot_of mkref] in *. rewrite L. cbn [fst snd]. split; [|split; [apply agree_refl|exact I3]].
    rewrite A3, A1, Hc1. reflexivity.
  - (* ODataHeldAssign *)
    apply andb_true_iff in Hpre. destruct Hpre as [Hi Hlw]. cbn [op_safe] in Hsafe.
    assert (Hl : vlive (abs (mkstate h vs)) v = true) by (unfold vlive; destruct (vvar (abs (mkstate h vs)) v); [reflexivity|discriminate Hi]).
    destruct (live_facts h vs v Hl) as [Hv [Ha [Hs Hvv]]]. destruct (live_facts h vs w Hlw) as [Hw [Haw [Hsw Hvw]]].
    rewrite Hvv in Hi. apply Nat.ltb_lt in Hi.
    unfold var. cbn [heap_of vars_of]. rewrite Ha, Haw, Hvv, Hvw. cbn [andb].
    set (p := ptr_of (nth v vs Dead)) in *.
    assert (Hp : p <> None) by (intros E; rewrite E in Hi; cbn [contents length] in Hi; lia).
    destruct (data_state c h vs v p HI Hv Hs Hp) as [k [b [Ek [Hb [I1 [A1 [Hh1 [Hk Hleak]]]]]]]].
    destruct (m_data c h p) as [h1 p1]. cbn [fst snd] in *. subst p1. cbn [slot_of].
    set (vs1 := upd vs v (Ptr k)) in *.
    assert (Hv1 : v < length vs1) by (unfold vs1; rewrite upd_length; exact Hv).
    assert (Hw1 : w < length vs1) by (unfold vs1; rewrite upd_length; exact Hw).
    assert (Hn1 : nth v vs1 Dead = Ptr k) by (apply nth_upd_eq, Hv).
    assert (Hl1 : vvar (abs (mkstate h1 vs1)) v = Some (contents h p)) by (rewrite A1; exact Hvv).
    assert (Hc1 : contents h1 (Some k) = contents h p).
    { rewrite vvar_abs in Hl1. unfold var in Hl1. cbn [heap_of vars_of] in Hl1. rewrite Hn1 in Hl1. cbn [absv] in Hl1. inversion Hl1. reflexivity. }
    destruct (Nat.eq_dec v w) as [E|Hne].
    + (* w = v: self-assignment, nothing happens *)
      subst w. rewrite Hn1. cbn [ptr_of]. unfold m_assign. cbn [opt_eqb]. rewrite Nat.eqb_refl. cbn [slot_of mkref].
      assert (Evs : upd vs1 v (Ptr k) = vs1) by (apply (upd_nth_same vs1 v (Ptr k) Dead Hv1 Hn1)). rewrite Evs.
      destruct (write_unique h1 vs1 v k (contents h p) pos value I1 Hv1 Hn1 Hh1 Hl1) as [L [I3 A3]].
      rewrite L. cbn [fst snd]. split; [|split; [apply agree_refl|exact I3]]. rewrite A3, A1, upd_upd. reflexivity.
    + assert (Hsw1 : nth w vs1 Dead = slot_of (ptr_of (nth w vs Dead))).
      { unfold vs1. rewrite nth_upd_neq by (intros E; apply Hne; symmetry; exact E). exact Hsw. }
      assert (Ew : nth w vs1 Dead = nth w vs Dead) by (unfold vs1; apply nth_upd_neq; intros E; apply Hne; symmetry; exact E).
      rewrite Ew. set (pw := ptr_of (nth w vs Dead)) in *.
      assert (Hpw : pw <> Some k).
      { intros E. rewrite E in Hsw1. cbn [slot_of] in Hsw1. pose proof (holders_two vs1 v w k Hne Hn1 Hsw1). lia. }
      pose proof (assign_ok c h1 vs1 w pw v (Some k) I1 Hw1 Hsw1 Hn1) as M2.
      pose proof (assign_leaked_snd c h1 pw k b Hsafe Hb (Hleak Hsafe) Hpw) as Eq.
      destruct (m_assign c h1 pw (Some k)) as [h2 q]. cbn [snd] in Eq. subst q.
      destruct (held_write_after h1 vs1 v w k (contents h p) (h2, Some (length h1)) _ pos value I1 Hv1 Hw1 Hne Hn1 Hh1 Hl1 M2) as [L [I3 A3]].
      { cbn [snd]. intros E. inversion E. lia. }
      cbn [fst snd slot_of mkref] in *. rewrite L. cbn [fst snd]. split; [|split; [apply agree_refl|exact I3]].
      rewrite A3, A1, Hc1. reflexivity.
  - (* OCDataHeld *)
    apply andb_true_iff in Hpre. destruct Hpre as [Hi Hj].
    assert (Hl : vlive (abs (mkstate h vs)) v = true) by (unfold vlive; destruct (vvar (abs (mkstate h vs)) v); [reflexivity|discriminate Hi]).
    destruct (live_facts h vs v Hl) as [Hv [Ha [Hs Hvv]]]. rewrite Hvv in Hi. apply Nat.ltb_lt in Hi. cbn [op_safe] in Hsafe.
    apply andb_true_iff in Hsafe. destruct Hsafe as [Hs1 Hs2].
    apply member_refines; [exact Hl|]. cbn zeta.
    destruct (cdata_held_ok h vs v _ HI Hv Hs c i j value Hs1 Hs2 Hi) as [A B]. split; [exact A|rewrite B; apply agree_refl].
Qed.

(* ---- every sequence of operations ---------------------------------------------- *)
Lemma inv_init n : Inv (init n).
Proof.
  intros i. unfold init. cbn [heap_of vars_of]. rewrite hget_overflow by (cbn [length]; lia).
  induction n as [|n IH]; cbn [repeat holders]; [reflexivity|]. cbn [slot_eqb]. exact IH.
Qed.

Lemma abs_init n : abs (init n) = repeat None n.
Proof. unfold abs, init. cbn [heap_of vars_of]. induction n as [|n IH]; cbn [repeat map absv]; [reflexivity|]. rewrite IH. reflexivity. Qed.

Theorem run_refines c ops : forall st,
  Inv st -> ops_pre (abs st) ops = true -> forallb (op_safe c) ops = true ->
  abs (fst (run c st ops)) = fst (vec_run (abs st) ops) /\
  Forall2 res_agree (snd (run c st ops)) (snd (vec_run (abs st) ops)) /\
  Inv (fst (run c st ops)).
Proof.
  induction ops as [|o ops IH]; intros st HI Hpre Hsafe.
  - cbn [run vec_run fst snd]. split; [reflexivity|]. split; [constructor|exact HI].
  - cbn [ops_pre forallb] in Hpre, Hsafe. apply andb_true_iff in Hpre, Hsafe. destruct Hpre as [Hp1 Hp2]. destruct Hsafe as [Hs1 Hs2].
    destruct (step_refines c st o HI Hp1 Hs1) as [A [R I1]]. cbn [run vec_run].
    destruct (step c st o) as [st1 r]. destruct (vec_step (abs st) o) as [a1 r']. cbn [fst snd] in *. subst a1.
    destruct (IH st1 I1 Hp2 Hs2) as [A2 [R2 I2]].
    destruct (run c st1 ops) as [st2 rs]. destruct (vec_run (abs st1) ops) as [a2 rs']. cbn [fst snd] in *.
    split; [exact A2|]. split; [constructor; assumption|exact I2].
Qed.

Lemma all_safe_fixed ops : forallb (op_safe cfg_fixed) ops = true.
Proof. induction ops as [|o ops IH]; cbn [forallb]; [reflexivity|]. rewrite IH. destruct o as [| | | | | | | | | | | | | | | | | | | |[] ? ?| | | | | | | |]; reflexivity. Qed.

(* size() <= capacity() always, and reserve(n) leaves capacity() >= n *)
Lemma capacity_ge_size st v : Inv st -> m_size (heap_of st) (ptr_of (var st v)) <= m_capacity (heap_of st) (ptr_of (var st v)).
Proof.
  destruct st as [h vs]. intros HI. unfold var. cbn [heap_of vars_of]. unfold m_size, m_capacity.
  destruct (ptr_of (nth v vs Dead)) as [i|] eqn:E; [|lia].
  destruct (blocks_of_inv h vs v HI i E) as [b [Hb [Hsz _]]]. rewrite Hb. exact Hsz.
Qed.

Lemma reserve_capacity h vs v p n : Inv (mkstate h vs) -> v < length vs -> nth v vs Dead = slot_of p ->
  n <= m_capacity (fst (m_reserve h p n)) (snd (m_reserve h p n)).
Proof.
  intros HI Hv Hs. unfold m_reserve. destruct p as [i|] eqn:Ep.
  - destruct (p_block h vs v (Some i) HI Hs i eq_refl) as [b [Hb _]]. rewrite Hb.
    destruct (Nat.ltb_spec (b_cap b) n).
    + apply (detach_only h vs v (Some i) HI Hv Hs n).
    + cbn [fst snd]. unfold m_capacity. rewrite Hb. exact H.
  - apply (detach_only h vs v None HI Hv Hs n).
Qed.

(* ---- the code as pinned: two sequences on which it is not a vector --------------- *)
(* b(3,7); c(b); c.resize(1)  - b must still have three elements *)
Definition witness_resize : list op := [OCtorSize 0 3 7%N; OCtorCopy 1 0; OResize 1 1].
(* a; b(3,0); a < b  - must be true *)
Definition witness_cmp : list op := [OCtor 0; OCtorSize 1 3 0%N; OCmp CLt 0 1].

Lemma asis_refuted_resize :
  ops_pre (abs (init 2)) witness_resize = true /\
  abs (fst (run cfg_asis (init 2) witness_resize)) <> fst (vec_run (abs (init 2)) witness_resize).
Proof. split; [vm_compute; reflexivity|]. vm_compute. intros H. discriminate H. Qed.

Lemma asis_refuted_cmp :
  ops_pre (abs (init 2)) witness_cmp = true /\
  nth 2 (snd (run cfg_asis (init 2) witness_cmp)) RUnit = RBool false /\
  nth 2 (snd (vec_run (abs (init 2)) witness_cmp)) RUnit = RBool true.
Proof. split; [vm_compute; reflexivity|]. split; vm_compute; reflexivity. Qed.

Lemma safe_fixed o : op_safe cfg_fixed o = true.
Proof. destruct o as [| | | | | | | | | | | | | | | | | | | |[] ? ?| | | | | | | |]; reflexivity. Qed.

Lemma step_refines_fixed st o : Inv st -> op_pre (abs st) o = true -> refines1 cfg_fixed st o.
Proof. intros HI Hp. exact (step_refines cfg_fixed st o HI Hp (safe_fixed o)). Qed.

Lemma run_refines_fixed n ops : ops_pre (repeat None n) ops = true ->
  abs (fst (run cfg_fixed (init n) ops)) = fst (vec_run (repeat None n) ops) /\
  Forall2 res_agree (snd (run cfg_fixed (init n) ops)) (snd (vec_run (repeat None n) ops)) /\
  Inv (fst (run cfg_fixed (init n) ops)).
Proof.
  intros Hp. rewrite <- (abs_init n) in *. exact (run_refines cfg_fixed ops (init n) (inv_init n) Hp (all_safe_fixed ops)).
Qed.

Lemma run_refines_safe c n ops : ops_pre (repeat None n) ops = true -> forallb (op_safe c) ops = true ->
  abs (fst (run c (init n) ops)) = fst (vec_run (repeat None n) ops) /\
  Forall2 res_agree (snd (run c (init n) ops)) (snd (vec_run (repeat None n) ops)) /\
  Inv (fst (run c (init n) ops)).
Proof.
  intros Hp Hs. rewrite <- (abs_init n) in *. exact (run_refines c ops (init n) (inv_init n) Hp Hs).
Qed.

(* ---- held references: exact results, and the refutations for the code as pinned -- *)
Lemma vec_held_result a o : op_held o = true -> snd (vec_step a o) <> RAny /\ snd (vec_step a o) <> RUAF.
Proof.
  destruct o; try discriminate; intros _; cbn [vec_step]; unfold vmember;
    try (destruct (vvar a v) as [l|]; cbn [fst snd]; split; discriminate);
    destruct (vvar a v) as [l|]; destruct (vvar a w) as [l2|]; cbn [fst snd]; split; discriminate.
Qed.

(* a held-reference operation returns exactly what std::vector returns: in particular no dangling reference is used *)
Theorem held_exact c st o : Inv st -> op_pre (abs st) o = true -> op_safe c o = true -> op_held o = true ->
  snd (step c st o) = snd (vec_step (abs st) o) /\ snd (step c st o) <> RUAF.
Proof.
  intros HI Hp Hs Hh. destruct (step_refines c st o HI Hp Hs) as [_ [R _]]. destruct (vec_held_result (abs st) o Hh) as [N1 N2].
  destruct R as [E|E]; [contradiction|]. split; [exact E|rewrite E; exact N2].
Qed.

(* a(2,7); unsigned char &r = a[0], &s = a[1]; r = 1; s = 2;       (what std::swap(a[0], a[1]) does first) *)
Definition witness_set2 : list op := [OCtorSize 0 2 7%N; OSet2 0 0 1%N 1 2%N].
(* a(2,7); a[1] = 9; std::swap(a[0], a[1]); *)
Definition witness_swap : list op := [OCtorSize 0 2 7%N; OSet 0 1 9%N; OSwap 0 0 1].
(* a(2,7); unsigned char &r = a[0]; a[1]; return r; *)
Definition witness_get_held : list op := [OCtorSize 0 2 7%N; OGetHeld 0 0 1].
Definition witness_get_held_c : list op := [OCtorSize 0 2 7%N; OGetHeldC 0 0 1].
(* a(2,7); unsigned char &r = a[0]; a.pop_back(); return r; *)
Definition witness_held_pop : list op := [OCtorSize 0 2 7%N; OHeldPop 0 0].
(* a(2,7); unsigned char *q = a.data(); byte_array b(a); q[0] = 9;     b must stay 7,7 *)
Definition witness_data_copy : list op := [OCtorSize 0 2 7%N; ODataHeldCopy 0 1 0 9%N].
(* a(2,7); byte_array b; unsigned char *q = a.data(); b = a; q[0] = 9; *)
Definition witness_data_assign : list op := [OCtorSize 0 2 7%N; OCtor 1; ODataHeldAssign 0 1 0 9%N].
(* a(2,7); byte_array b(a); const unsigned char *q = ca.data(); a[0] = 9; return q[0];     must be 9 *)
Definition witness_cdata : list op := [OCtorSize 0 2 7%N; OCtorCopy 1 0; OCDataHeld 0 0 0 9%N].

Definition last_result (rs : list result) : result := last rs RPre.

(* unconditional detach() in operator[] / pop_back: the first reference dangles when it is used *)
Lemma index_pinned_refuted c : c_fix_index c = false ->
  Forall (fun ops => ops_pre (abs (init 1)) ops = true /\ last_result (snd (run c (init 1) ops)) = RUAF /\
                     last_result (snd (vec_run (abs (init 1)) ops)) <> RUAF)
         [witness_set2; witness_swap; witness_get_held; witness_get_held_c; witness_held_pop].
Proof.
  destruct c as [a b d e f]. cbn [c_fix_index]. intros E. subst e.
  destruct a, b, d, f; repeat constructor; vm_compute; try reflexivity; discriminate.
Qed.

(* a block whose data() pointer is out is shared with the copy: the write through the pointer changes both arrays *)
Lemma leak_pinned_refuted c : c_fix_leak c = false ->
  Forall (fun ops => ops_pre (abs (init 2)) ops = true /\
                     vvar (abs (fst (run c (init 2) ops))) 1 = Some [9; 7]%N /\
                     vvar (fst (vec_run (abs (init 2)) ops)) 1 = Some [7; 7]%N)
         [witness_data_copy; witness_data_assign].
Proof.
  destruct c as [a b d e f]. cbn [c_fix_leak]. intros E. subst f.
  destruct a, b, d, e; repeat constructor; vm_compute; reflexivity.
Qed.

(* ... and a const data() pointer into a shared block keeps showing the other array after a write *)
Lemma leak_pinned_refuted_const c : c_fix_leak c = false ->
  ops_pre (abs (init 2)) witness_cdata = true /\
  last_result (snd (run c (init 2) witness_cdata)) = RByte 7 /\
  last_result (snd (vec_run (abs (init 2)) witness_cdata)) = RByte 9.
Proof.
  destruct c as [a b d e f]. cbn [c_fix_leak]. intros E. subst f.
  destruct a, b, d, e; repeat split; vm_compute; reflexivity.
Qed.

(* with only the subscript patch the element-reference operations are right in every state *)
Lemma held_index_safe c o : c_fix_index c = true ->
  match o with OSet2 _ _ _ _ _ | OSwap _ _ _ | OGetHeld _ _ _ | OGetHeldC _ _ _ | OHeldPop _ _ => op_safe c o = true | _ => True end.
Proof. intros H. destruct o; try exact I; exact H. Qed.
