(* C12, kernel clause: the regenerated verdict table (Gen/Bounds.v, written by
   tools/kern_bounds.py from /repo's current source on every run) is
   re-checked here.  The stuck semantics that produced the verdicts is the
   Python executor's, not Coq's; Coq checks the table. *)
From Coq Require Import List NArith String Bool.
From AsconV Require Import Model.BoundsDefs Model.C12Config Gen.Bounds.
Import ListNotations.
Local Open Scope string_scope.

(* no stuck verdict on valid arguments - except, while Model/C12Config.v says
   the code is unfixed, the one known entry (ascon_masked_word_x3_zero, c64, MAX_SHARES = 3) *)
Lemma bounds_table_ok : forallb (entry_ok_cfg fix_x3_zero) bounds_entries = true.
Proof. vm_compute. reflexivity. Qed.

Lemma bounds_table_strict : fix_x3_zero = true -> forallb entry_ok bounds_entries = true.
Proof. intros H. rewrite <- forallb_cfg_true. pose proof bounds_table_ok as T. rewrite H in T. exact T. Qed.

(* the table is not vacuous: every file x MAX_SHARES combination is present *)
Definition expected_configs : list string :=
  [ "word-c64/max2"; "word-c64/max3"; "word-c64/max4";
    "word-c32/max2"; "word-c32/max3"; "word-c32/max4";
    "word-direct/max2"; "word-direct/max3"; "word-direct/max4";
    "word-x86_64/max2"; "word-x86_64/max3"; "word-x86_64/max4";
    "x2-c64/max2"; "x2-c64/max3"; "x2-c64/max4"; "x3-c64/max3"; "x3-c64/max4"; "x4-c64/max4";
    "x2-c32/max2"; "x2-c32/max3"; "x2-c32/max4"; "x3-c32/max3"; "x3-c32/max4"; "x4-c32/max4";
    "x2-x86_64/max2"; "x2-x86_64/max3"; "x2-x86_64/max4"; "x3-x86_64/max3"; "x3-x86_64/max4"; "x4-x86_64/max4";
    "state-c64/max2"; "state-c64/max3"; "state-c64/max4";
    "state-c32/max2"; "state-c32/max3"; "state-c32/max4";
    "state-directxor/max2"; "state-directxor/max3"; "state-directxor/max4";
    "key/key2-max2"; "key/key2-max3"; "key/key3-max3"; "key/key2-max4"; "key/key3-max4"; "key/key4-max4" ].

Lemma bounds_table_covers : forallb (has_config bounds_entries) expected_configs = true.
Proof. vm_compute. reflexivity. Qed.

Lemma bounds_table_size : (1000 <=? N.of_nat (List.length bounds_entries))%N = true.
Proof. vm_compute. reflexivity. Qed.
