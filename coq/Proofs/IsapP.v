(* ISAP: the isap_..._c models in Model/Sivm.v refine the isap_... functions of Spec/Siv.v; exactness; saved keys. *)
From AsconV Require Import Model.Sivm Proofs.SpongeP Proofs.SqueezeP Proofs.AeadP Proofs.MacP Proofs.SivP.
From Coq Require Import ZArith.
Local Open Scope nat_scope.

(* ---- the bit that ISAP_ADD_BIT extracts --------------------------------------- *)

Definition top_ok (vi : N * nat) : bool :=
  N.eqb (N.land (N.shiftl (fst vi) (N.of_nat (snd vi))) 0x80)
        (if N.testbit (fst vi) (N.of_nat (7 - snd vi)) then 0x80 else 0)%N.

Lemma top_all : forallb top_ok (list_prod (map N.of_nat (seq 0 256)) (seq 0 8)) = true.
Proof. vm_compute. reflexivity. Qed.

Lemma top_bit value i : (value < 256)%N -> i < 8 ->
  N.land (N.shiftl value (N.of_nat i)) 0x80 = (if N.testbit value (N.of_nat (7 - i)) then 0x80 else 0)%N.
Proof.
  intros Hv Hi. pose proof top_all as A. rewrite forallb_forall in A.
  specialize (A (value, i)). apply N.eqb_eq. apply A. apply in_prod.
  - apply in_map_iff. exists (N.to_nat value). split; [apply N2Nat.id|]. apply in_seq. lia.
  - apply in_seq. lia.
Qed.

Lemma nth_ok data i : bytes_ok data -> (nth i data 0 < 256)%N.
Proof.
  intros H. destruct (Nat.lt_ge_cases i (length data)) as [L|L].
  - unfold bytes_ok in H. rewrite Forall_forall in H. apply H. now apply nth_In.
  - rewrite nth_overflow by exact L. reflexivity.
Qed.

Section WithPerm.
Variable perm : nat -> bytes -> bytes.
Hypothesis perm_len : forall r s, length s = 40 -> length (perm r s) = 40.
Variable iv : isap_variant.
Hypothesis Hk : i_klen iv = 16 \/ i_klen iv = 20.

Local Notation pB := (perm (12 - i_sB iv)).
Local Notation pK := (perm (12 - i_sK iv)).
Local Notation pE := (perm (12 - i_sE iv)).
Local Notation pH := (perm (12 - i_sH iv)).

Definition topb (b : bool) : N := (if b then 0x80 else 0)%N.
Definition stepB (s : bytes) (b : bool) : bytes := pB (xor_at s 0 [topb b]).

Lemma absorb_bits_cons s a l : l <> [] ->
  isap_absorb_bits perm iv s (a :: l) = isap_absorb_bits perm iv (stepB s a) l.
Proof. intros H. destruct l as [|b l]; [congruence|]. reflexivity. Qed.

Lemma absorb_bits_snoc l : forall s b,
  isap_absorb_bits perm iv s (l ++ [b]) = pK (xor_at (fold_left stepB l s) 0 [topb b]).
Proof.
  induction l as [|a l IH]; intros s b; [reflexivity|].
  cbn [app fold_left]. rewrite absorb_bits_cons by (destruct l; discriminate). apply IH.
Qed.

Lemma rekey_loop_spec data : bytes_ok data -> forall fuel s bit nbits, nbits - bit <= fuel ->
  rekey_loop perm iv s data bit nbits fuel = fold_left stepB (map (bitat data) (seq bit (nbits - bit))) s.
Proof.
  intros Hd. induction fuel as [|f IH]; intros s bit nbits Hf.
  - replace (nbits - bit) with 0 by lia. reflexivity.
  - cbn [rekey_loop]. destruct (Nat.ltb_spec bit nbits) as [H|H].
    + rewrite IH by lia. replace (nbits - bit) with (S (nbits - S bit)) by lia. cbn [seq map fold_left].
      f_equal. unfold stepB, topb, bitat. f_equal. f_equal. f_equal.
      apply top_bit; [now apply nth_ok|]. apply Nat.mod_upper_bound. lia.
    + replace (nbits - bit) with 0 by lia. reflexivity.
Qed.

Theorem isap_rekey_c_spec pk data : bytes_ok data -> 1 <= length data ->
  isap_rekey_c perm iv pk data = isap_rekey perm iv pk data.
Proof.
  intros Hd Hl. unfold isap_rekey_c, isap_rekey, bits_of.
  set (nbits := length data * 8 - 1).
  replace (8 * length data) with (nbits + 1) by (unfold nbits; lia).
  rewrite seq_app, map_app. cbn [seq map Nat.add]. rewrite absorb_bits_snoc.
  rewrite (rekey_loop_spec data Hd nbits pk 0 nbits) by lia. rewrite Nat.sub_0_r.
  f_equal. f_equal. f_equal. unfold topb, bitat.
  apply top_bit; [now apply nth_ok|]. apply Nat.mod_upper_bound. lia.
Qed.

Lemma fold_stepB_len l : forall s, length s = 40 -> length (fold_left stepB l s) = 40.
Proof.
  induction l as [|a l IH]; intros s Hs; [exact Hs|]. cbn [fold_left]. apply IH.
  unfold stepB. apply perm_len. now rewrite xor_at_len.
Qed.

Lemma isap_rekey_len pk y : length pk = 40 -> 1 <= length y -> length (isap_rekey perm iv pk y) = 40.
Proof.
  intros Hp Hy. unfold isap_rekey, bits_of.
  replace (8 * length y) with ((8 * length y - 1) + 1) by lia.
  rewrite seq_app, map_app. cbn [seq map]. rewrite absorb_bits_snoc.
  apply perm_len. rewrite xor_at_len. now apply fold_stepB_len.
Qed.

(* ---- key expansion, keystream, MAC ------------------------------------------------- *)

Lemma isap_iv_len kind : length (isap_iv iv kind) = 8. Proof. reflexivity. Qed.

Theorem isap_init_c_spec K : length K = i_klen iv ->
  isap_init_c perm iv K = {| pk_ke := isap_expand perm iv K 3; pk_ka := isap_expand perm iv K 2 |}.
Proof.
  intros HK. unfold isap_init_c, isap_expand.
  assert (E : forall kind, set_at (set_at (zeros 40) 0 K) (i_klen iv) (isap_iv iv kind ++ zeros (40 - i_klen iv - 8))
                           = K ++ isap_iv iv kind ++ zeros (40 - i_klen iv - 8)).
  { intros kind. replace (zeros 40) with (zeros (length K) ++ zeros (40 - length K)).
    2:{ unfold zeros. rewrite <- repeat_app. f_equal. destruct Hk; lia. }
    rewrite set_at_0_full by now rewrite zeros_length.
    rewrite <- HK. rewrite set_at_app_r. f_equal. apply set_at_full.
    rewrite app_length, isap_iv_len, !zeros_length. destruct Hk; lia. }
  now rewrite !E.
Qed.

Lemma isap_expand_len K kind : length K = i_klen iv -> length (isap_expand perm iv K kind) = 40.
Proof.
  intros HK. unfold isap_expand. apply perm_len. rewrite !app_length, isap_iv_len, zeros_length. destruct Hk; lia.
Qed.

Lemma r8 : 0 < 8. Proof. lia. Qed.
Lemma r840 : 8 <= 40. Proof. lia. Qed.
Lemma pEl : forall s, length s = 40 -> length (pE s) = 40. Proof. intros; now apply perm_len. Qed.
Lemma pHl : forall s, length s = 40 -> length (pH s) = 40. Proof. intros; now apply perm_len. Qed.

Theorem isap_crypt_c_spec pk N src : bytes_ok N -> length N = 16 -> length (pk_ke pk) = 40 ->
  isap_crypt_c perm iv pk N src = xorl src (isap_keystream perm iv (pk_ke pk) N (length src)).
Proof.
  intros HN LN Lk. unfold isap_crypt_c, isap_keystream.
  rewrite isap_rekey_c_spec by (auto; lia).
  rewrite (lazy_aligned_c_spec pE 8 40 pEl r8 r840); [reflexivity|].
  rewrite set_at_len. apply isap_rekey_len; [exact Lk|lia].
Qed.

Lemma isap_keystream_len ke N n : length N = 16 -> length ke = 40 -> length (isap_keystream perm iv ke N n) = n.
Proof.
  intros LN Lk. unfold isap_keystream. apply (spec_squeeze_length pE 8 40 pEl r8 r840).
  apply perm_len. rewrite set_at_len. apply isap_rekey_len; [exact Lk|lia].
Qed.

Hypothesis perm_ok : forall r s, bytes_ok (perm r s).

Theorem isap_mac_c_spec pk N A C : length N = 16 -> length (pk_ka pk) = 40 ->
  isap_mac_c perm iv pk N A C = isap_mac perm iv (pk_ka pk) N A C.
Proof.
  intros LN Lk. unfold isap_mac_c, isap_mac.
  assert (S0 : set_at (set_at (zeros 40) 0 N) 16 (isap_iv iv 1 ++ zeros 16) = N ++ isap_iv iv 1 ++ zeros 16).
  { change (zeros 40) with (zeros 16 ++ zeros 24). rewrite set_at_0_full by (rewrite zeros_length; exact LN).
    rewrite <- LN. rewrite set_at_app_r. f_equal. apply set_at_full. reflexivity. }
  rewrite S0. set (s0 := pH (N ++ isap_iv iv 1 ++ zeros 16)).
  assert (L0 : length s0 = 40).
  { unfold s0. apply perm_len. rewrite !app_length, isap_iv_len, zeros_length, LN. reflexivity. }
  rewrite (aligned_c_serial bf_enc pH 8 40 pHl r8 r840) by exact L0.
  pose proof (serial_spec bf_enc pH 8 40 pHl r8 r840 s0 A L0) as SP.
  pose proof (spec_duplex_outlen bf_enc pH 8 40 pHl r8 r840 s0 A L0) as [_ LA].
  destruct (serial bf_enc pH 8 (s0, 0) A) as [[s1 p1] o1]. destruct SP as [_ SP]. rewrite <- SP in *. cbn [fst] in *.
  set (s2 := xor_at (pH (xor_at s1 p1 [128%N])) 39 [1%N]).
  assert (L2 : length s2 = 40) by (unfold s2; rewrite xor_at_len; apply perm_len; exact LA).
  rewrite (aligned_c_serial bf_enc pH 8 40 pHl r8 r840) by exact L2.
  pose proof (serial_spec bf_enc pH 8 40 pHl r8 r840 s2 C L2) as SP2.
  pose proof (spec_duplex_outlen bf_enc pH 8 40 pHl r8 r840 s2 C L2) as [_ LC].
  destruct (serial bf_enc pH 8 (s2, 0) C) as [[s3 p3] o3]. destruct SP2 as [_ SP2]. rewrite <- SP2 in *. cbn [fst] in *.
  set (s4 := pH (xor_at s3 p3 [128%N])).
  assert (L4 : length s4 = 40) by (unfold s4; apply perm_len; exact LC).
  unfold get_at. cbn [skipn].
  rewrite isap_rekey_c_spec.
  - replace (firstn (40 - i_klen iv) (skipn (i_klen iv) s4)) with (skipn (i_klen iv) s4); [reflexivity|].
    symmetry. apply firstn_all2. rewrite skipn_length. lia.
  - apply bytes_ok_firstn. unfold s4. apply perm_ok.
  - rewrite firstn_length. destruct Hk; lia.
Qed.

Lemma isap_mac_len ka N A C : length N = 16 -> length ka = 40 -> length (isap_mac perm iv ka N A C) = 16.
Proof.
  intros LN Lk. unfold isap_mac.
  set (s0 := pH (N ++ isap_iv iv 1 ++ zeros 16)).
  assert (L0 : length s0 = 40).
  { unfold s0. apply perm_len. rewrite !app_length, isap_iv_len, zeros_length, LN. reflexivity. }
  pose proof (spec_duplex_outlen bf_enc pH 8 40 pHl r8 r840 s0 A L0) as [_ LA].
  set (s2 := xor_at (pH (fst (spec_duplex bf_enc pH 8 s0 A))) 39 [1%N]).
  assert (L2 : length s2 = 40) by (unfold s2; rewrite xor_at_len; apply perm_len; exact LA).
  pose proof (spec_duplex_outlen bf_enc pH 8 40 pHl r8 r840 s2 C L2) as [_ LC].
  set (s4 := pH (fst (spec_duplex bf_enc pH 8 s2 C))).
  assert (L4 : length s4 = 40) by (unfold s4; apply perm_len; exact LC).
  rewrite firstn_length. rewrite perm_len; [reflexivity|].
  rewrite set_at_len. apply isap_rekey_len; [exact Lk|]. rewrite firstn_length. destruct Hk; lia.
Qed.

Lemma isap_mac_ok ka N A C : bytes_ok (isap_mac perm iv ka N A C).
Proof. unfold isap_mac. apply bytes_ok_firstn. apply perm_ok. Qed.

Definition wf_pk (pk : isap_key) : Prop := length (pk_ke pk) = 40 /\ length (pk_ka pk) = 40.

(* C06: ISAP encryption with a pre-computed key = the ISAP v2.0 functions *)
Theorem isap_encrypt_c_spec pk N A P : wf_pk pk -> length N = 16 -> bytes_ok N ->
  isap_encrypt_c perm iv pk N A P = (isap_encrypt perm iv (pk_ke pk) (pk_ka pk) N A P, length P + 16).
Proof.
  intros [Le La] LN BN. unfold isap_encrypt_c, isap_encrypt.
  rewrite isap_crypt_c_spec by auto. rewrite isap_mac_c_spec by auto. reflexivity.
Qed.

(* C02 for ISAP: decryption succeeds exactly on genuine encryptions *)
Theorem isap_decrypt_exact ke ka N A C m : length ke = 40 -> length ka = 40 -> length N = 16 ->
  isap_decrypt perm iv ke ka N A C = Some m <->
  (length C = length m + 16 /\ isap_encrypt perm iv ke ka N A m = C).
Proof.
  intros Le La LN. unfold isap_decrypt, isap_encrypt. split.
  - destruct (Nat.ltb_spec (length C) 16) as [Hs|Hs]; [discriminate|].
    set (n := length C - 16). set (c := firstn n C).
    assert (Lc : length c = n) by (unfold c; rewrite firstn_length; unfold n; lia).
    destruct (beq_bytes _ _) eqn:B; [|discriminate]. apply beq_bytes_iff in B.
    intros E. injection E as E1. subst m.
    set (X := xorl c (isap_keystream perm iv ke N n)).
    assert (LX : length X = n) by (unfold X; rewrite xorl_len, isap_keystream_len by auto; lia).
    split; [unfold n in LX; lia|].
    assert (EX : xorl X (isap_keystream perm iv ke N n) = c).
    { unfold X. apply xorl_invol. rewrite isap_keystream_len by auto. lia. }
    rewrite LX, EX, B. apply firstn_skipn.
  - intros [Hlen H].
    destruct (Nat.ltb_spec (length C) 16) as [Hs|Hs]; [lia|].
    set (c := xorl m (isap_keystream perm iv ke N (length m))) in *.
    assert (Lc : length c = length m) by (unfold c; rewrite xorl_len, isap_keystream_len by auto; lia).
    assert (Hn : length C - 16 = length m) by lia. rewrite Hn.
    assert (F : firstn (length m) C = c).
    { rewrite <- H. rewrite <- Lc at 1. rewrite firstn_app, Nat.sub_diag, firstn_O, app_nil_r. apply firstn_all. }
    assert (S : skipn (length m) C = isap_mac perm iv ka N A c).
    { rewrite <- H. rewrite <- Lc at 1. rewrite skipn_app, Nat.sub_diag, skipn_all. reflexivity. }
    rewrite F, S. rewrite (proj2 (beq_bytes_iff _ _) eq_refl).
    unfold c. rewrite xorl_invol by (rewrite isap_keystream_len by auto; lia). reflexivity.
Qed.

Theorem isap_decrypt_c_spec pk N A C : wf_pk pk -> length N = 16 -> bytes_ok N -> bytes_ok C ->
  isap_decrypt_c perm iv pk N A C =
  if length C <? 16 then DecShort
  else match isap_decrypt perm iv (pk_ke pk) (pk_ka pk) N A C with
       | Some m => DecDone 0 m
       | None => DecDone (-1) (zeros (length C - 16))
       end.
Proof.
  intros [Le La] LN BN BC. unfold isap_decrypt_c, isap_decrypt.
  destruct (Nat.ltb_spec (length C) 16) as [Hs|Hs]; [reflexivity|].
  set (n := length C - 16). set (c := firstn n C).
  assert (Lc : length c = n) by (unfold c; rewrite firstn_length; unfold n; lia).
  rewrite isap_mac_c_spec by auto. rewrite isap_crypt_c_spec by auto. rewrite Lc.
  rewrite check_tag_exact.
  - destruct (beq_bytes _ _); [reflexivity|]. rewrite map_zero_zeros. f_equal. f_equal.
    rewrite xorl_len, isap_keystream_len by auto. lia.
  - rewrite isap_mac_len by auto. rewrite skipn_length. unfold n. lia.
  - apply isap_mac_ok.
  - now apply bytes_ok_skipn.
Qed.

End WithPerm.

(* ---- saved keys --------------------------------------------------------------------- *)

Theorem isap_load_save pk : length (pk_ke pk) = 40 -> length (pk_ka pk) = 40 ->
  isap_load_c (isap_save_c pk) = pk.
Proof.
  intros Le La. unfold isap_load_c, isap_save_c. destruct pk as [ke ka]. cbn [pk_ke pk_ka] in *. f_equal.
  - rewrite firstn_app. rewrite (@firstn_all2 _ 40 ke) by lia.
    replace (40 - length ke) with 0 by lia. now rewrite firstn_O, app_nil_r.
  - rewrite skipn_app. rewrite (@skipn_all2 _ 40 ke) by lia.
    replace (40 - length ke) with 0 by lia. cbn [skipn app]. apply firstn_all2. lia.
Qed.

Theorem isap_save_load k : length k = 80 -> isap_save_c (isap_load_c k) = k.
Proof.
  intros Lk. unfold isap_load_c, isap_save_c. cbn [pk_ke pk_ka].
  rewrite (@firstn_all2 _ 40 (skipn 40 k)) by (rewrite skipn_length; lia). apply firstn_skipn.
Qed.
