From Coq Require Import List NArith Bool Lia Arith.
From AsconV Require Import Bits.Bytes Model.Maskm Proofs.AeadP Proofs.NonceP Proofs.PermP Proofs.CppP.
Import ListNotations.
Local Open Scope N_scope.

Lemma mw_value_mask d rs : mw_value (mw_mask d rs) = d.
Proof.
  unfold mw_value, mw_mask. cbn [xors fold_right]. fold (xors rs).
  rewrite N.lxor_assoc, N.lxor_nilpotent, N.lxor_0_r. reflexivity.
Qed.

Lemma xors_map2x us : forall rs, length rs = length us -> xors (map2x us rs) = N.lxor (xors us) (xors rs).
Proof.
  induction us as [|u us IH]; intros [|r rs] L; try discriminate L; [reflexivity|].
  cbn [map2x xors fold_right]. fold (xors (map2x us rs)) (xors us) (xors rs). rewrite IH by (cbn in L; lia).
  rewrite !N.lxor_assoc. f_equal. rewrite <- !N.lxor_assoc. f_equal. apply N.lxor_comm.
Qed.

(* re-randomising with one fresh word per extra share keeps the value *)
Lemma mw_value_randomize w rs : S (length rs) = length w -> mw_value (mw_randomize w rs) = mw_value w.
Proof.
  destruct w as [|u0 us]; intros L; [reflexivity|]. cbn in L. injection L as L.
  unfold mw_value, mw_randomize. cbn [xors fold_right]. fold (xors (map2x us rs)) (xors us).
  rewrite xors_map2x by exact L.
  rewrite N.lxor_assoc, <- (N.lxor_assoc (xors rs)), (N.lxor_comm (xors rs) (xors us)), N.lxor_assoc, N.lxor_nilpotent, N.lxor_0_r.
  reflexivity.
Qed.

Lemma lxor_neq x r : negb (N.eqb x (N.lxor x r)) = negb (N.eqb r 0).
Proof.
  f_equal. destruct (N.eqb_spec r 0) as [E|E].
  - subst. rewrite N.lxor_0_r. apply N.eqb_refl.
  - apply N.eqb_neq. intros H. apply E. apply (f_equal (N.lxor x)) in H.
    rewrite N.lxor_nilpotent, <- N.lxor_assoc, N.lxor_nilpotent, N.lxor_0_l in H. now symmetry.
Qed.

(* every share of a re-randomised word moves by its own fresh word: share 0 by the XOR of all of them,
   share j >= 1 by the j-th: it changes exactly when that word is non-zero *)
Lemma changed_randomize u0 us rs : length rs = length us ->
  changed (u0 :: us) (mw_randomize (u0 :: us) rs) = negb (N.eqb (xors rs) 0) :: map (fun r => negb (N.eqb r 0)) rs.
Proof.
  intros L. cbn [mw_randomize changed]. rewrite lxor_neq. f_equal.
  revert rs L. induction us as [|u us IH]; intros [|r rs] L; try discriminate L; [reflexivity|].
  cbn [map2x changed map]. rewrite lxor_neq, IH by (cbn in L; lia). reflexivity.
Qed.

Lemma be_encode_decode l : bytes_ok l -> be_encode (length l) (be_decode l) = l.
Proof.
  induction l as [|x l IH] using rev_ind; intros B; [reflexivity|].
  apply Forall_app in B. destruct B as [Bl Bx]. inversion Bx as [|? ? Hx _]. subst.
  rewrite app_length, Nat.add_comm. cbn [length Nat.add be_encode]. rewrite be_decode_app. cbn [length].
  change (be_decode [x]) with x. change (256 ^ N.of_nat 1) with 256.
  change 255 with (N.ones 8). rewrite N.land_ones, N.shiftr_div_pow2. change (2 ^ 8) with 256.
  set (v := be_decode l).
  replace ((v * 256 + x) / 256) with v by (apply N.div_unique with x; lia).
  replace ((v * 256 + x) mod 256) with x by (apply N.mod_unique with v; lia).
  unfold v. rewrite IH by exact Bl. reflexivity.
Qed.

Lemma enc8 l : bytes_ok l -> length l = 8%nat -> be_encode 8 (be_decode l) = l.
Proof. intros B L. rewrite <- L at 1. now apply be_encode_decode. Qed.

Lemma takez_len k tape : length (takez k tape) = k.
Proof. unfold takez. rewrite firstn_length, app_length, repeat_length. lia. Qed.

Lemma deal_fst {A} k (ws : list A) : forall tape, map fst (fst (deal k ws tape)) = ws.
Proof.
  induction ws as [|w ws IH]; intros tape; [reflexivity|]. cbn [deal].
  specialize (IH (skipn k tape)). destruct (deal k ws (skipn k tape)) as [rest t']. cbn [fst map] in *. now rewrite IH.
Qed.
Lemma deal_snd_len {A} k (ws : list A) : forall tape, Forall (fun p => length (snd p) = k) (fst (deal k ws tape)).
Proof.
  induction ws as [|w ws IH]; intros tape; [constructor|]. cbn [deal].
  specialize (IH (skipn k tape)). destruct (deal k ws (skipn k tape)) as [rest t']. cbn [fst] in *.
  constructor; [apply takez_len | exact IH].
Qed.

(* values of the words of a freshly masked key are the key words, whatever the tape *)
Lemma mk_init_values n key tape : map mw_value (fst (mk_init n key tape)) = key_words key.
Proof.
  unfold mk_init. pose proof (deal_fst (n - 1) (key_words key) tape) as F.
  destruct (deal (n - 1) (key_words key) tape) as [ps t']. cbn [fst] in *.
  rewrite <- F. rewrite map_map. apply map_ext. intros [d rs]. apply mw_value_mask.
Qed.
Lemma mk_init_shape n key tape : (1 <= n)%nat -> Forall (fun w => length w = n) (fst (mk_init n key tape)).
Proof.
  intros Hn. unfold mk_init. pose proof (deal_snd_len (n - 1) (key_words key) tape) as F.
  destruct (deal (n - 1) (key_words key) tape) as [ps t']. cbn [fst] in *.
  rewrite Forall_map. eapply Forall_impl; [|exact F]. intros [d rs] L. cbn [fst snd] in *. unfold mw_mask. cbn [length]. lia.
Qed.

Lemma map2x_len us : forall rs, length (map2x us rs) = length us.
Proof. induction us as [|u us IH]; intros [|r rs]; cbn [map2x length]; auto. Qed.

Lemma mk_randomize_values n mk tape : Forall (fun w => length w = n) mk -> (1 <= n)%nat ->
  map mw_value (fst (mk_randomize n mk tape)) = map mw_value mk.
Proof.
  intros Sh Hn. unfold mk_randomize. pose proof (deal_fst (n - 1) mk tape) as F. pose proof (deal_snd_len (n - 1) mk tape) as G.
  destruct (deal (n - 1) mk tape) as [ps t']. cbn [fst] in *. rewrite <- F in Sh |- *. clear F.
  rewrite !map_map. induction ps as [|[w rs] ps IH]; [reflexivity|]. cbn [map fst snd].
  cbn [map] in Sh. pose proof (Forall_inv G) as G1. pose proof (Forall_inv_tail G) as G2.
  pose proof (Forall_inv Sh) as S1. pose proof (Forall_inv_tail Sh) as S2. cbn [fst snd] in *.
  rewrite mw_value_randomize by lia. f_equal. apply IH; assumption.
Qed.
Lemma mk_randomize_shape n mk tape : Forall (fun w => length w = n) mk -> (1 <= n)%nat ->
  Forall (fun w => length w = n) (fst (mk_randomize n mk tape)).
Proof.
  intros Sh Hn. unfold mk_randomize. pose proof (deal_fst (n - 1) mk tape) as F.
  destruct (deal (n - 1) mk tape) as [ps t']. cbn [fst] in *. rewrite <- F in Sh. clear F.
  rewrite Forall_map in Sh. rewrite Forall_map. eapply Forall_impl; [|exact Sh].
  intros [w rs] L. cbn [fst snd] in *. destruct w as [|u0 us]; [exact L|]. cbn [mw_randomize length]. rewrite map2x_len. exact L.
Qed.

(* the change flags of one re-randomisation: per word, share 0 moves by the XOR of the word's fresh random
   words and share j >= 1 by the j-th of them *)
Lemma mk_randomize_flags n mk tape : Forall (fun w => length w = n) mk -> (1 <= n)%nat ->
  map (fun p => changed (fst p) (snd p)) (combine mk (fst (mk_randomize n mk tape))) =
  map (fun p => negb (N.eqb (xors (snd p)) 0) :: map (fun r => negb (N.eqb r 0)) (snd p)) (fst (deal (n - 1) mk tape)).
Proof.
  intros Sh Hn. unfold mk_randomize. pose proof (deal_fst (n - 1) mk tape) as F. pose proof (deal_snd_len (n - 1) mk tape) as G.
  destruct (deal (n - 1) mk tape) as [ps t']. cbn [fst] in *. rewrite <- F in Sh |- *. clear F.
  induction ps as [|[w rs] ps IH]; [reflexivity|]. cbn [map fst snd combine].
  cbn [map] in Sh. pose proof (Forall_inv G) as G1. pose proof (Forall_inv_tail G) as G2.
  pose proof (Forall_inv Sh) as S1. pose proof (Forall_inv_tail Sh) as S2. cbn [fst snd] in *.
  f_equal; [|apply IH; assumption].
  destruct w as [|u0 us]; [cbn in S1; lia|]. apply changed_randomize. cbn [length] in S1. lia.
Qed.

Lemma skipn_skipn_add {A} a b : forall l : list A, skipn a (skipn b l) = skipn (b + a) l.
Proof. induction b as [|b IH]; intros l; [reflexivity|]. destruct l as [|x l]; [now rewrite !skipn_nil|]. apply IH. Qed.

Lemma enc_hi l : bytes_ok l -> length l = 4%nat -> firstn 4 (be_encode 8 (be_decode l * 2 ^ 32)) = l.
Proof.
  intros B L. change 8%nat with (4 + 4)%nat. rewrite be_encode_app.
  rewrite firstn_app, be_encode_len, Nat.sub_diag, firstn_O, app_nil_r.
  rewrite N.shiftr_div_pow2. change (8 * N.of_nat 4) with 32. rewrite N.div_mul by (compute; discriminate).
  rewrite <- L. rewrite be_encode_decode by exact B. apply firstn_all.
Qed.

(* masking a key and extracting it returns the key, whatever the random tape is *)
Lemma extract_key_words key : bytes_ok key -> (length key = 16 \/ length key = 20)%nat ->
  extract_vals (length key) (key_words key) = key.
Proof.
  intros B [L|L]; unfold key_words; rewrite L; cbn [Nat.eqb extract_vals].
  - rewrite app_nil_r, !enc8; try (now apply bytes_ok_firstn); try (now apply bytes_ok_skipn).
    + apply firstn_skipn.
    + rewrite skipn_length. lia.
    + rewrite firstn_length. lia.
  - rewrite enc_hi, !enc8; try (now apply bytes_ok_firstn); try (now apply bytes_ok_skipn); try (apply bytes_ok_firstn; now apply bytes_ok_skipn).
    + rewrite <- (firstn_skipn 8 key) at 4. f_equal. rewrite <- (firstn_skipn 8 (skipn 8 key)) at 2. f_equal.
      symmetry. apply (skipn_skipn_add 8 8).
    + rewrite firstn_length, skipn_length. lia.
    + rewrite firstn_length. lia.
    + rewrite skipn_length. lia.
Qed.

Theorem mk_roundtrip n key tape : bytes_ok key -> (length key = 16 \/ length key = 20)%nat ->
  mk_extract (length key) (fst (mk_init n key tape)) = key.
Proof. intros B L. unfold mk_extract. rewrite mk_init_values. now apply extract_key_words. Qed.

Lemma mk_rounds_keys n klen rounds : (1 <= n)%nat -> forall mk tape, Forall (fun w => length w = n) mk ->
  Forall (fun e => fst e = mk_extract klen mk) (mk_rounds n klen mk tape rounds).
Proof.
  intros Hn. induction rounds as [|r IH]; intros mk tape Sh; [constructor|]. cbn [mk_rounds].
  pose proof (mk_randomize_values n mk tape Sh Hn) as V. pose proof (mk_randomize_shape n mk tape Sh Hn) as S'.
  destruct (mk_randomize n mk tape) as [mk' t']. cbn [fst] in *.
  assert (E : mk_extract klen mk' = mk_extract klen mk) by (unfold mk_extract; now rewrite V).
  constructor; [exact E|]. rewrite <- E. apply IH. exact S'.
Qed.

(* a whole history: the key read back after masking and after every re-randomisation is the key *)
Theorem mk_history_keys n key tape rounds : (1 <= n)%nat -> bytes_ok key -> (length key = 16 \/ length key = 20)%nat ->
  fst (mk_history n key tape rounds) = key /\ Forall (fun e => fst e = key) (snd (mk_history n key tape rounds)).
Proof.
  intros Hn B L. unfold mk_history. pose proof (mk_roundtrip n key tape B L) as R. pose proof (mk_init_shape n key tape Hn) as Sh.
  destruct (mk_init n key tape) as [mk t']. cbn [fst snd] in *. split; [exact R|].
  pose proof (mk_rounds_keys n (length key) rounds Hn mk t' Sh) as K. rewrite R in K. exact K.
Qed.

Lemma mws_init_values n ws tape : map mw_value (fst (mws_init n ws tape)) = ws.
Proof.
  unfold mws_init. pose proof (deal_fst (n - 1) ws tape) as F.
  destruct (deal (n - 1) ws tape) as [ps t']. cbn [fst] in *.
  rewrite <- F. rewrite map_map. apply map_ext. intros [d rs]. apply mw_value_mask.
Qed.
Lemma mws_init_shape n ws tape : (1 <= n)%nat -> Forall (fun w => length w = n) (fst (mws_init n ws tape)).
Proof.
  intros Hn. unfold mws_init. pose proof (deal_snd_len (n - 1) ws tape) as F.
  destruct (deal (n - 1) ws tape) as [ps t']. cbn [fst] in *.
  rewrite Forall_map. eapply Forall_impl; [|exact F]. intros [d rs] L. cbn [fst snd] in *. unfold mw_mask. cbn [length]. lia.
Qed.
Lemma mws_rounds_values n rounds : (1 <= n)%nat -> forall mk tape, Forall (fun w => length w = n) mk ->
  Forall (fun e => fst e = map mw_value mk) (mws_rounds n mk tape rounds).
Proof.
  intros Hn. induction rounds as [|r IH]; intros mk tape Sh; [constructor|]. cbn [mws_rounds].
  pose proof (mk_randomize_values n mk tape Sh Hn) as V. pose proof (mk_randomize_shape n mk tape Sh Hn) as S'.
  destruct (mk_randomize n mk tape) as [mk' t']. cbn [fst] in *.
  constructor; [exact V|]. rewrite <- V. apply IH. exact S'.
Qed.
(* any list of words masked with n >= 1 shares from any tape and re-randomised any number of times keeps its values *)
Theorem mws_history_values n ws tape rounds : (1 <= n)%nat ->
  fst (mws_history n ws tape rounds) = ws /\ Forall (fun e => fst e = ws) (snd (mws_history n ws tape rounds)).
Proof.
  intros Hn. unfold mws_history. pose proof (mws_init_values n ws tape) as R. pose proof (mws_init_shape n ws tape Hn) as Sh.
  destruct (mws_init n ws tape) as [mk t']. cbn [fst snd] in *. split; [exact R|].
  pose proof (mws_rounds_values n rounds Hn mk t' Sh) as K. rewrite R in K. exact K.
Qed.
