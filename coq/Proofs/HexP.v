(* C20 - proofs about the hex codec model (Model/Hexm.v) against Spec/Hex.v. *)
From AsconV Require Import Spec.Hex Model.Hexm.
From Coq Require Import ZArith Lia.
Local Open Scope nat_scope.

(* ---- lists ------------------------------------------------------------- *)
Lemma upd_length {A} (l : list A) i x : length (upd l i x) = length l.
Proof. revert i; induction l as [|y l IH]; intros [|i]; cbn [upd length]; auto. Qed.

Lemma nth_upd_neq {A} (l : list A) i j x d : i <> j -> nth i (upd l j x) d = nth i l d.
Proof.
  revert i j; induction l as [|y l IH]; intros [|i] [|j] Hne; cbn [upd nth]; auto; try lia.
Qed.

Lemma nth_upd_eq {A} (l : list A) i x d : i < length l -> nth i (upd l i x) d = x.
Proof.
  revert i; induction l as [|y l IH]; intros [|i] Hlt; cbn [upd nth length] in *; auto; try lia.
  apply IH; lia.
Qed.

(* storing a list cell by cell from [posn] upwards, in the order the loops do it *)
Fixpoint write_list (mem : list N) (posn : nat) (l : list N) : list N :=
  match l with
  | [] => mem
  | x :: l' => write_list (upd mem posn x) (S posn) l'
  end.

Lemma write_list_cons y mem posn l : write_list (y :: mem) (S posn) l = y :: write_list mem posn l.
Proof. revert mem posn; induction l as [|x l IH]; intros mem posn; cbn [write_list upd]; auto. Qed.

Lemma write_list_0 l : forall mem, length l <= length mem -> write_list mem 0 l = l ++ skipn (length l) mem.
Proof.
  induction l as [|x l IH]; intros mem Hl; cbn [write_list length app skipn]; auto.
  destruct mem as [|y mem]; cbn [length] in Hl; [lia|].
  cbn [upd]. rewrite write_list_cons, IH by lia. reflexivity.
Qed.

Lemma write_list_app mem posn l1 l2 :
  write_list mem posn (l1 ++ l2) = write_list (write_list mem posn l1) (posn + length l1) l2.
Proof.
  revert mem posn; induction l1 as [|x l1 IH]; intros mem posn; cbn [app write_list length].
  - rewrite Nat.add_0_r; reflexivity.
  - rewrite IH. f_equal. lia.
Qed.

Lemma write_list_length mem posn l : length (write_list mem posn l) = length mem.
Proof. revert mem posn; induction l as [|x l IH]; intros; cbn [write_list]; auto. rewrite IH, upd_length; auto. Qed.

Lemma firstn_write_list_0 l mem : length l <= length mem -> firstn (length l) (write_list mem 0 l) = l.
Proof. intros H. rewrite write_list_0 by exact H. rewrite firstn_app, Nat.sub_diag, firstn_all. cbn [firstn]. apply app_nil_r. Qed.

Lemma nth_write_list_out mem posn l i d :
  i < posn \/ posn + length l <= i -> nth i (write_list mem posn l) d = nth i mem d.
Proof.
  revert mem posn; induction l as [|x l IH]; intros mem posn H; cbn [write_list length] in *; auto.
  rewrite IH by lia. apply nth_upd_neq. lia.
Qed.

(* ---- finite enumeration lifted to all small N ------------------------- *)
Definition nrange (n : nat) : list N := map N.of_nat (seq 0 n).
Lemma in_nrange n (x : N) : (x < N.of_nat n)%N -> In x (nrange n).
Proof.
  intros H. unfold nrange. rewrite <- (N2Nat.id x). apply in_map. apply in_seq. lia.
Qed.
Lemma forall_nrange n (P : N -> bool) : forallb P (nrange n) = true -> forall x, (x < N.of_nat n)%N -> P x = true.
Proof. intros H x Hx. rewrite forallb_forall in H. apply H, in_nrange, Hx. Qed.

(* ---- characters ------------------------------------------------------- *)
Ltac brk := match goal with
  | |- context [N.leb ?a ?b] => destruct (N.leb_spec a b)
  | |- context [N.eqb ?a ?b] => destruct (N.eqb_spec a b)
  | |- context [N.ltb ?a ?b] => destruct (N.ltb_spec a b)
  end; cbn [andb orb negb]; try lia.

Lemma classify_spec c :
  classify c = match digit_val c with Some d => CDigit d | None => if is_ws c then CSkip else CBad end.
Proof.
  unfold classify, digit_val, is_ws. cbn [existsb].
  repeat brk; try reflexivity; f_equal; lia.
Qed.

Lemma digit_val_lt c d : digit_val c = Some d -> (d < 16)%N.
Proof. unfold digit_val. repeat brk; intros E; inversion E; lia. Qed.

Lemma digit_val_char u d : (d < 16)%N -> digit_val (digit_char u d) = Some d.
Proof.
  intros H. change 16%N with (N.of_nat 16) in H. revert d H.
  assert (E : forallb (fun d => match digit_val (digit_char u d) with Some e => N.eqb e d | None => false end) (nrange 16) = true)
    by (destruct u; vm_compute; reflexivity).
  intros d H. pose proof (forall_nrange _ _ E d H) as F. cbv beta in F.
  destruct (digit_val (digit_char u d)); [|discriminate]. apply N.eqb_eq in F. subst; reflexivity.
Qed.

Lemma lor_nibbles d e : (d < 16)%N -> (e < 16)%N -> N.lor (N.shiftl d 4) e = (16 * d + e)%N.
Proof.
  intros Hd He.
  assert (E : forallb (fun d => forallb (fun e => N.eqb (N.lor (N.shiftl d 4) e) (16 * d + e)) (nrange 16)) (nrange 16) = true)
    by (vm_compute; reflexivity).
  pose proof (forall_nrange _ _ E d Hd) as F. cbv beta in F.
  pose proof (forall_nrange _ _ F e He) as G. cbv beta in G. apply N.eqb_eq in G. exact G.
Qed.

Lemma table_lookup u x : (x < 256)%N ->
  nth (N.to_nat (N.land (N.shiftr x 4) 15)) (hex_chars u) 0%N = digit_char u (x / 16) /\
  nth (N.to_nat (N.land x 15)) (hex_chars u) 0%N = digit_char u (x mod 16).
Proof.
  intros H.
  assert (E : forallb (fun x => N.eqb (nth (N.to_nat (N.land (N.shiftr x 4) 15)) (hex_chars u) 0%N) (digit_char u (x / 16)) &&
                                N.eqb (nth (N.to_nat (N.land x 15)) (hex_chars u) 0%N) (digit_char u (x mod 16))) (nrange 256) = true)
    by (destruct u; vm_compute; reflexivity).
  pose proof (forall_nrange _ _ E x H) as F. cbv beta in F.
  apply andb_true_iff in F. destruct F as [F1 F2]. apply N.eqb_eq in F1, F2. auto.
Qed.

Lemma digit_char_nonzero u d : (d < 16)%N -> digit_char u d <> 0%N.
Proof. intros H. unfold digit_char. destruct u; brk. Qed.

(* ---- digits / pairs --------------------------------------------------- *)
Definition okc (c : N) : bool := is_hexdigit c || is_ws c.

Lemma digits_length_le s : length (digits s) <= length s.
Proof. induction s as [|c s IH]; cbn [digits length]; auto. destruct (digit_val c); cbn [length]; lia. Qed.

Lemma div2_SS n : S (S n) / 2 = S (n / 2).
Proof. change (S (S n)) with (2 + n). replace (2 + n) with (n + 1 * 2) by lia. rewrite Nat.div_add by lia. lia. Qed.

Lemma pairs_length ds : length (pairs ds) = length ds / 2.
Proof.
  assert (H : forall n ds, length ds <= n -> length (pairs ds) = length ds / 2).
  { intros n; induction n as [|n IH]; intros [|a [|b r]] Hl; cbn [pairs length] in *; auto; try lia.
    rewrite div2_SS. f_equal. apply IH. lia. }
  apply (H (length ds)); lia.
Qed.

Lemma even_SS n : Nat.even (S (S n)) = Nat.even n.
Proof. reflexivity. Qed.

(* ---- the decoder loop -------------------------------------------------- *)
(* the digits still to be paired: the pending high nibble (if any) and the digits of the rest of the input *)
Definition pend (nibble : bool) (d : N) (inp : list N) : list N := (if nibble then [d] else []) ++ digits inp.

Definition st_ok (value : N) (nibble : bool) (d : N) : Prop := nibble = true -> value = N.shiftl d 4 /\ (d < 16)%N.

Lemma from_hex_loop_ret outlen inp : forall mem posn value nibble d,
  st_ok value nibble d -> posn <= outlen ->
  let ds := pend nibble d inp in
  fst (from_hex_loop outlen inp (mem, posn, value, nibble)) =
    if forallb okc inp && Nat.even (length ds) && (posn + length ds / 2 <=? outlen)
    then Z.of_nat (posn + length ds / 2) else (-1)%Z.
Proof.
  induction inp as [|ch inp IH]; intros mem posn value nibble d Hst Hp; cbn zeta.
  - unfold pend. cbn [from_hex_loop digits forallb]. rewrite app_nil_r. destruct nibble; cbn [length fst Nat.even andb].
    + reflexivity.
    + cbn [Nat.div]. change (0 / 2) with 0. rewrite Nat.add_0_r.
      destruct (Nat.leb_spec posn outlen); [reflexivity|lia].
  - cbn [from_hex_loop from_hex_step forallb]. rewrite classify_spec. unfold okc at 1, is_hexdigit, pend. cbn [digits].
    destruct (digit_val ch) as [e|] eqn:Ed.
    + cbn [orb andb]. pose proof (digit_val_lt _ _ Ed) as He.
      destruct nibble.
      * destruct (Hst eq_refl) as [Hv Hd]. cbn [app length]. rewrite div2_SS, even_SS.
        destruct (Nat.leb_spec outlen posn) as [Hov|Hov].
        -- cbn [fst]. destruct (Nat.leb_spec (posn + S (length (digits inp) / 2)) outlen); [lia|].
           rewrite andb_false_r. reflexivity.
        -- rewrite (IH _ (S posn) value false 0%N); [|intros E; discriminate E|lia].
           unfold pend. cbn [app]. replace (S posn + length (digits inp) / 2) with (posn + S (length (digits inp) / 2)) by lia.
           reflexivity.
      * rewrite (IH mem posn (N.shiftl e 4) true e); [|intros _; split; [reflexivity|exact He]|exact Hp].
        unfold pend. cbn [app]. reflexivity.
    + cbn [orb]. destruct (is_ws ch).
      * cbn [andb]. rewrite (IH mem posn value nibble d Hst Hp). unfold pend. reflexivity.
      * cbn [andb fst]. reflexivity.
Qed.

Lemma from_hex_loop_mem outlen inp : forall mem posn value nibble d,
  st_ok value nibble d -> posn <= outlen ->
  let ds := pend nibble d inp in
  forallb okc inp && Nat.even (length ds) && (posn + length ds / 2 <=? outlen) = true ->
  snd (from_hex_loop outlen inp (mem, posn, value, nibble)) = write_list mem posn (pairs ds).
Proof.
  induction inp as [|ch inp IH]; intros mem posn value nibble d Hst Hp; cbn zeta.
  - unfold pend. cbn [from_hex_loop digits forallb]. rewrite app_nil_r. destruct nibble; cbn [length Nat.even andb]; intros H.
    + discriminate H.
    + reflexivity.
  - cbn [from_hex_loop from_hex_step forallb]. rewrite classify_spec. unfold okc at 1, is_hexdigit, pend. cbn [digits].
    destruct (digit_val ch) as [e|] eqn:Ed.
    + cbn [orb andb]. pose proof (digit_val_lt _ _ Ed) as He.
      destruct nibble.
      * destruct (Hst eq_refl) as [Hv Hd]. cbn [app length pairs write_list]. rewrite div2_SS, even_SS. intros H.
        destruct (Nat.leb_spec outlen posn) as [Hov|Hov].
        -- apply andb_true_iff in H. destruct H as [_ H]. apply Nat.leb_le in H. lia.
        -- rewrite (IH _ (S posn) value false 0%N); [|intros E; discriminate E|lia|].
           ++ unfold pend. cbn [app]. rewrite Hv, lor_nibbles by assumption. reflexivity.
           ++ unfold pend. cbn [app]. replace (S posn + length (digits inp) / 2) with (posn + S (length (digits inp) / 2)) by lia.
              exact H.
      * intros H. rewrite (IH mem posn (N.shiftl e 4) true e); [|intros _; split; [reflexivity|exact He]|exact Hp|].
        -- unfold pend. cbn [app]. reflexivity.
        -- unfold pend. cbn [app]. exact H.
    + cbn [orb]. destruct (is_ws ch).
      * cbn [andb]. intros H. rewrite (IH mem posn value nibble d Hst Hp). unfold pend. reflexivity. exact H.
      * cbn [andb]. intros H; discriminate H.
Qed.

(* every cell outside [posn, min (posn + pairs still to come) outlen) keeps its value, whatever the outcome *)
Lemma from_hex_loop_bound outlen inp : forall mem posn value nibble d i x,
  let ds := pend nibble d inp in
  i < posn \/ Nat.min (posn + length ds / 2) outlen <= i ->
  nth i (snd (from_hex_loop outlen inp (mem, posn, value, nibble))) x = nth i mem x.
Proof.
  induction inp as [|ch inp IH]; intros mem posn value nibble d i x; cbn zeta.
  - cbn [from_hex_loop]. destruct nibble; reflexivity.
  - cbn [from_hex_loop from_hex_step]. rewrite classify_spec. unfold pend. cbn [digits].
    destruct (digit_val ch) as [e|] eqn:Ed.
    + destruct nibble.
      * cbn [app length]. rewrite div2_SS. intros H.
        destruct (Nat.leb_spec outlen posn) as [Hov|Hov]; [reflexivity|].
        rewrite (IH _ (S posn) value false 0%N).
        -- apply nth_upd_neq. lia.
        -- unfold pend. cbn [app]. lia.
      * intros H. apply (IH mem posn (N.shiftl e 4) true e). unfold pend. cbn [app] in *. exact H.
    + destruct (is_ws ch).
      * intros H. apply (IH mem posn value nibble d). exact H.
      * reflexivity.
Qed.

Lemma from_hex_loop_length outlen inp : forall mem posn value nibble,
  length (snd (from_hex_loop outlen inp (mem, posn, value, nibble))) = length mem.
Proof.
  induction inp as [|ch inp IH]; intros mem posn value nibble.
  - cbn [from_hex_loop]. destruct nibble; reflexivity.
  - cbn [from_hex_loop from_hex_step]. destruct (classify ch) as [e| |].
    + destruct nibble.
      * destruct (Nat.leb_spec outlen posn); [reflexivity|]. rewrite IH. apply upd_length.
      * apply IH.
    + apply IH.
    + reflexivity.
Qed.

(* ---- ascon_bytes_from_hex --------------------------------------------- *)
Lemma from_hex_ret mem outlen s :
  fst (from_hex mem outlen s) =
    if wellformed s && (length (digits s) / 2 <=? outlen) then Z.of_nat (length (digits s) / 2) else (-1)%Z.
Proof.
  unfold from_hex. rewrite (from_hex_loop_ret outlen s mem 0 0%N false 0%N); [|intros E; discriminate E|lia].
  unfold pend, wellformed. cbn [app]. rewrite Nat.add_0_l. reflexivity.
Qed.

Definition accepted (s : list N) (outlen n : nat) : Prop :=
  Forall (fun c => is_hexdigit c = true \/ is_ws c = true) s /\ length (digits s) = 2 * n /\ n <= outlen.

Lemma okc_Forall s : forallb okc s = true <-> Forall (fun c => is_hexdigit c = true \/ is_ws c = true) s.
Proof.
  rewrite forallb_forall, Forall_forall. split; intros H c Hc; specialize (H c Hc); unfold okc in *.
  - apply orb_true_iff in H. exact H.
  - apply orb_true_iff. exact H.
Qed.

Lemma even_half n : Nat.even n = true -> n = 2 * (n / 2).
Proof.
  intros H. apply Nat.even_spec in H. destruct H as [k Hk]. subst n.
  replace (2 * k) with (k * 2) by lia. rewrite Nat.div_mul by lia. lia.
Qed.
Lemma half_double n : (2 * n) / 2 = n.
Proof. replace (2 * n) with (n * 2) by lia. apply Nat.div_mul. lia. Qed.
Lemma even_double n : Nat.even (2 * n) = true.
Proof. apply Nat.even_spec. exists n. reflexivity. Qed.

Lemma wellformed_accepted s outlen :
  wellformed s && (length (digits s) / 2 <=? outlen) = true <-> accepted s outlen (length (digits s) / 2).
Proof.
  unfold wellformed, accepted. rewrite !andb_true_iff, okc_Forall, Nat.leb_le. split.
  - intros [[H1 H2] H3]. split; [exact H1|]. split; [apply even_half, H2|exact H3].
  - intros [H1 [H2 H3]]. split; [split; [exact H1|]|exact H3]. rewrite H2. apply even_double.
Qed.

Lemma accepted_unique s outlen n : accepted s outlen n -> n = length (digits s) / 2.
Proof. intros [_ [H _]]. rewrite H, half_double. reflexivity. Qed.

Lemma from_hex_accepts mem outlen s n :
  fst (from_hex mem outlen s) = Z.of_nat n <-> accepted s outlen n.
Proof.
  rewrite from_hex_ret. split.
  - destruct (wellformed s && (length (digits s) / 2 <=? outlen)) eqn:E.
    + intros H. apply Nat2Z.inj in H. subst n. apply wellformed_accepted, E.
    + intros H. lia.
  - intros H. pose proof (accepted_unique _ _ _ H) as En. subst n.
    apply wellformed_accepted in H. rewrite H. reflexivity.
Qed.

Lemma from_hex_rejects mem outlen s :
  fst (from_hex mem outlen s) = (-1)%Z <-> ~ exists n, accepted s outlen n.
Proof.
  rewrite from_hex_ret. split.
  - destruct (wellformed s && (length (digits s) / 2 <=? outlen)) eqn:E; [intros H; lia|].
    intros _ [n Hn]. pose proof (accepted_unique _ _ _ Hn) as En. subst n.
    apply wellformed_accepted in Hn. congruence.
  - intros H. destruct (wellformed s && (length (digits s) / 2 <=? outlen)) eqn:E; [|reflexivity].
    exfalso. apply H. exists (length (digits s) / 2). apply wellformed_accepted, E.
Qed.

Lemma from_hex_total mem outlen s :
  fst (from_hex mem outlen s) = (-1)%Z \/ exists n, fst (from_hex mem outlen s) = Z.of_nat n.
Proof. rewrite from_hex_ret. destruct (_ && _); [right; eexists; reflexivity|left; reflexivity]. Qed.

Lemma from_hex_decodes mem outlen s n :
  accepted s outlen n -> outlen <= length mem ->
  from_hex mem outlen s = (Z.of_nat n, pairs (digits s) ++ skipn n mem).
Proof.
  intros H Hm. pose proof (accepted_unique _ _ _ H) as En.
  rewrite (surjective_pairing (from_hex mem outlen s)). f_equal.
  - apply from_hex_accepts, H.
  - destruct H as [H1 [H2 H3]]. unfold from_hex.
    rewrite (from_hex_loop_mem outlen s mem 0 0%N false 0%N); [|intros E; discriminate E|lia|].
    + unfold pend. cbn [app]. rewrite write_list_0; rewrite pairs_length, <- En; [reflexivity|lia].
    + unfold pend. cbn [app]. rewrite !andb_true_iff, okc_Forall, Nat.leb_le. rewrite <- En.
      split; [split; [exact H1|rewrite H2; apply even_double]|lia].
Qed.

Lemma from_hex_bound mem outlen s i x :
  Nat.min (length (digits s) / 2) outlen <= i -> nth i (snd (from_hex mem outlen s)) x = nth i mem x.
Proof.
  intros H. unfold from_hex. apply (from_hex_loop_bound outlen s mem 0 0%N false 0%N).
  unfold pend. cbn [app]. right. rewrite Nat.add_0_l. exact H.
Qed.

Lemma from_hex_length mem outlen s : length (snd (from_hex mem outlen s)) = length mem.
Proof. apply from_hex_loop_length. Qed.

(* ---- ascon_bytes_to_hex ------------------------------------------------ *)
Lemma all_bytes_cons x b : all_bytes (x :: b) = true -> (x < 256)%N /\ all_bytes b = true.
Proof. unfold all_bytes. cbn [forallb]. intros H. apply andb_true_iff in H. destruct H as [H1 H2]. split; [apply N.ltb_lt, H1|exact H2]. Qed.

Lemma encode_length u b : length (encode u b) = 2 * length b.
Proof. induction b as [|x b IH]; cbn [encode length]; lia. Qed.

Lemma to_hex_loop_spec u inp : forall mem posn, all_bytes inp = true ->
  to_hex_loop (hex_chars u) inp mem posn = (write_list mem posn (encode u inp), posn + 2 * length inp).
Proof.
  induction inp as [|ch inp IH]; intros mem posn Hb; cbn [to_hex_loop encode write_list length].
  - f_equal. lia.
  - apply all_bytes_cons in Hb. destruct Hb as [Hc Hb]. destruct (table_lookup u ch Hc) as [E1 E2].
    rewrite E1, E2, IH by exact Hb. f_equal. lia.
Qed.

Lemma to_hex_loop_frame tbl inp : forall mem posn i x,
  i < posn \/ posn + 2 * length inp <= i ->
  nth i (fst (to_hex_loop tbl inp mem posn)) x = nth i mem x /\ snd (to_hex_loop tbl inp mem posn) = posn + 2 * length inp.
Proof.
  induction inp as [|ch inp IH]; intros mem posn i x H; cbn [to_hex_loop length fst snd] in *.
  - split; [reflexivity|lia].
  - destruct (IH (upd (upd mem posn (nth (N.to_nat (N.land (N.shiftr ch 4) 15)) tbl 0%N)) (S posn)
                       (nth (N.to_nat (N.land ch 15)) tbl 0%N)) (S (S posn)) i x) as [A B]; [lia|].
    rewrite A, B. split; [|lia]. rewrite !nth_upd_neq by lia. reflexivity.
Qed.

Lemma to_hex_ok mem outlen b u : all_bytes b = true -> 2 * length b + 1 <= outlen ->
  to_hex mem outlen b u = (Z.of_nat (2 * length b), write_list mem 0 (encode u b ++ [0%N])).
Proof.
  intros Hb Hl. unfold to_hex. destruct (Nat.ltb_spec outlen (length b * 2 + 1)); [lia|].
  rewrite to_hex_loop_spec by exact Hb. rewrite Nat.add_0_l. f_equal.
  rewrite write_list_app, encode_length. reflexivity.
Qed.

Lemma to_hex_short mem outlen b u : outlen < 2 * length b + 1 ->
  to_hex mem outlen b u = ((-1)%Z, if 0 <? outlen then upd mem 0 0%N else mem).
Proof. intros Hl. unfold to_hex. destruct (Nat.ltb_spec outlen (length b * 2 + 1)); [reflexivity|lia]. Qed.

Lemma to_hex_bound mem outlen b u i x : outlen <= i -> nth i (snd (to_hex mem outlen b u)) x = nth i mem x.
Proof.
  intros Hi. unfold to_hex. destruct (Nat.ltb_spec outlen (length b * 2 + 1)).
  - cbn [snd]. destruct (Nat.ltb_spec 0 outlen); [|reflexivity]. apply nth_upd_neq. lia.
  - destruct (to_hex_loop_frame (hex_chars u) b mem 0 i x) as [A B]; [lia|].
    destruct (to_hex_loop (hex_chars u) b mem 0) as [m p]. cbn [fst snd] in *. subst p.
    rewrite nth_upd_neq by lia. exact A.
Qed.

Lemma to_hex_length mem outlen b u : length (snd (to_hex mem outlen b u)) = length mem.
Proof.
  unfold to_hex. destruct (Nat.ltb_spec outlen (length b * 2 + 1)).
  - cbn [snd]. destruct (0 <? outlen); [apply upd_length|reflexivity].
  - assert (HL : forall inp mem posn, length (fst (to_hex_loop (hex_chars u) inp mem posn)) = length mem).
    { induction inp as [|c inp IH]; intros m p; cbn [to_hex_loop fst]; [reflexivity|]. rewrite IH, !upd_length. reflexivity. }
    pose proof (HL b mem 0) as HL0. destruct (to_hex_loop (hex_chars u) b mem 0) as [m p]. cbn [fst snd] in *.
    rewrite upd_length. exact HL0.
Qed.

(* ---- round trip -------------------------------------------------------- *)
Lemma byte_nibbles x : (x < 256)%N -> (x / 16 < 16)%N /\ (x mod 16 < 16)%N /\ (16 * (x / 16) + x mod 16 = x)%N.
Proof.
  intros H. split; [apply N.div_lt_upper_bound; lia|]. split; [apply N.mod_lt; lia|].
  symmetry. apply N.div_mod. lia.
Qed.

Lemma encode_digits u b : all_bytes b = true ->
  pairs (digits (encode u b)) = b /\ forallb okc (encode u b) = true /\ length (digits (encode u b)) = 2 * length b.
Proof.
  induction b as [|x b IH]; intros Hb; cbn [encode digits pairs forallb length].
  - auto.
  - apply all_bytes_cons in Hb. destruct Hb as [Hx Hb]. destruct (IH Hb) as [I1 [I2 I3]].
    destruct (byte_nibbles x Hx) as [H1 [H2 H3]].
    unfold okc, is_hexdigit. rewrite !digit_val_char by assumption. cbn [pairs length orb andb].
    rewrite I1, I3, H3. split; [reflexivity|]. split; [exact I2|lia].
Qed.

Lemma encode_accepted u b outlen : all_bytes b = true -> length b <= outlen -> accepted (encode u b) outlen (length b).
Proof.
  intros Hb Hl. destruct (encode_digits u b Hb) as [_ [H2 H3]]. unfold accepted.
  split; [apply okc_Forall, H2|]. split; [exact H3|exact Hl].
Qed.

Lemma from_hex_encode mem outlen u b : all_bytes b = true -> length b <= outlen -> outlen <= length mem ->
  from_hex mem outlen (encode u b) = (Z.of_nat (length b), b ++ skipn (length b) mem).
Proof.
  intros Hb Hl Hm. rewrite (from_hex_decodes mem outlen (encode u b) (length b)); [|apply encode_accepted; assumption|exact Hm].
  destruct (encode_digits u b Hb) as [H1 _]. rewrite H1. reflexivity.
Qed.

(* the C functions composed: encode into a buffer of [outlen >= 2n+1] characters, decode the n*2 characters written *)
Lemma roundtrip_c cmem coutlen bmem boutlen u b :
  all_bytes b = true -> 2 * length b + 1 <= coutlen -> coutlen <= length cmem ->
  length b <= boutlen -> boutlen <= length bmem ->
  let '(r, cmem') := to_hex cmem coutlen b u in
  r = Z.of_nat (2 * length b) /\
  nth (2 * length b) cmem' 1%N = 0%N /\
  from_hex bmem boutlen (firstn (Z.to_nat r) cmem') = (Z.of_nat (length b), b ++ skipn (length b) bmem).
Proof.
  intros Hb Hc Hcm Hl Hbm. rewrite to_hex_ok by assumption.
  assert (Hlen : length (encode u b ++ [0%N]) = 2 * length b + 1) by (rewrite app_length, encode_length; cbn [length]; lia).
  split; [reflexivity|]. rewrite write_list_0 by lia. split.
  - rewrite app_nth1 by lia. rewrite app_nth2; rewrite encode_length; [|lia]. rewrite Nat.sub_diag. reflexivity.
  - rewrite Nat2Z.id. rewrite <- app_assoc. rewrite <- (encode_length u b), firstn_app, Nat.sub_diag, firstn_all.
    cbn [firstn]. rewrite app_nil_r. apply from_hex_encode; assumption.
Qed.

(* ---- C++ helpers -------------------------------------------------------- *)
Lemma skipn_repeat {A} (x : A) m n : skipn n (repeat x m) = repeat x (m - n).
Proof. revert n; induction m as [|m IH]; intros [|n]; cbn [repeat skipn Nat.sub]; auto. Qed.

Definition decoded (s : list N) : list N := match decode s with Some b => b | None => [] end.

Lemma cpp_from_hex_spec fixed s :
  cpp_from_hex_gen fixed s =
    match decode s with
    | Some b => if fixed then b else b ++ repeat 0%N (length s / 2 - length b)
    | None => []
    end.
Proof.
  unfold cpp_from_hex_gen, decode. rewrite repeat_length. set (m := length s / 2).
  assert (Hn : length (digits s) / 2 <= m) by (apply Nat.div_le_mono; [lia|apply digits_length_le]).
  destruct (wellformed s) eqn:W.
  - assert (A : accepted s m (length (digits s) / 2)).
    { apply wellformed_accepted. rewrite W. apply Nat.leb_le in Hn. rewrite Hn. reflexivity. }
    rewrite (from_hex_decodes _ _ _ _ A) by (rewrite repeat_length; lia).
    destruct (Z.eqb_spec (Z.of_nat (length (digits s) / 2)) (-1)); [lia|].
    rewrite skipn_repeat, pairs_length. destruct fixed; [|reflexivity].
    unfold vresize. rewrite Nat2Z.id. rewrite <- (pairs_length (digits s)), firstn_app, Nat.sub_diag, firstn_all.
    cbn [firstn]. rewrite app_nil_r, app_length, repeat_length.
    replace (length (pairs (digits s)) - (length (pairs (digits s)) + (m - length (pairs (digits s))))) with 0 by lia.
    cbn [repeat]. apply app_nil_r.
  - assert (F : fst (from_hex (repeat 0%N m) m s) = (-1)%Z) by (rewrite from_hex_ret, W; reflexivity).
    destruct (from_hex (repeat 0%N m) m s) as [r v]. cbn [fst] in F. subst r. reflexivity.
Qed.

Lemma cpp_from_hex_fixed_spec s : cpp_from_hex_gen true s = decoded s.
Proof. rewrite cpp_from_hex_spec. unfold decoded. destruct (decode s); reflexivity. Qed.

Lemma cpp_from_hex_asis_spec s :
  cpp_from_hex_gen false s = match decode s with Some b => b ++ repeat 0%N (length s / 2 - length b) | None => [] end.
Proof. apply cpp_from_hex_spec. Qed.

(* "ab  " : four characters, one byte; the helper as pinned returns two *)
Lemma cpp_from_hex_asis_refuted : exists s, cpp_from_hex_gen false s <> decoded s.
Proof. exists [97; 98; 32; 32]%N. vm_compute. intros H; discriminate H. Qed.

(* without white space the two agree *)
Lemma cpp_from_hex_asis_nows s : forallb is_hexdigit s = true -> cpp_from_hex_gen false s = decoded s.
Proof.
  intros H. rewrite cpp_from_hex_spec. unfold decoded, decode. destruct (wellformed s) eqn:W; [|reflexivity].
  assert (L : length (digits s) = length s).
  { clear W. induction s as [|c s IH]; cbn [digits length forallb] in *; [reflexivity|].
    apply andb_true_iff in H. destruct H as [H1 H2]. unfold is_hexdigit in H1. destruct (digit_val c); [|discriminate].
    cbn [length]. rewrite IH by exact H2. reflexivity. }
  rewrite pairs_length, L, Nat.sub_diag. cbn [repeat]. apply app_nil_r.
Qed.

Lemma cstr_app_nul l r : Forall (fun c => c <> 0%N) l -> cstr (l ++ 0%N :: r) = l.
Proof.
  induction l as [|c l IH]; intros H; cbn [app cstr].
  - reflexivity.
  - inversion H as [|c' l' Hc Hl]; subst. destruct (N.eqb_spec c 0); [contradiction|]. rewrite IH by exact Hl. reflexivity.
Qed.

Lemma encode_nonzero u b : all_bytes b = true -> Forall (fun c => c <> 0%N) (encode u b).
Proof.
  induction b as [|x b IH]; intros Hb; cbn [encode]; [constructor|].
  apply all_bytes_cons in Hb. destruct Hb as [Hx Hb]. destruct (byte_nibbles x Hx) as [H1 [H2 _]].
  constructor; [apply digit_char_nonzero, H1|]. constructor; [apply digit_char_nonzero, H2|]. apply IH, Hb.
Qed.

Lemma cpp_to_hex_spec b u : all_bytes b = true -> cpp_to_hex b u = encode u b.
Proof.
  intros Hb. unfold cpp_to_hex. rewrite to_hex_ok by (try assumption; lia). cbn [snd].
  rewrite write_list_0 by (rewrite app_length, encode_length, repeat_length; cbn [length]; lia).
  rewrite <- app_assoc. cbn [app]. apply cstr_app_nul, encode_nonzero, Hb.
Qed.

Lemma cstr_noop l : Forall (fun c => c <> 0%N) l -> cstr l = l.
Proof. intros H. rewrite <- (app_nil_r l) at 1. induction l as [|c l IH]; cbn [app cstr]; [reflexivity|].
  inversion H; subst. destruct (N.eqb_spec c 0); [contradiction|]. rewrite IH by assumption. reflexivity. Qed.

Lemma decode_encode u b : all_bytes b = true -> decode (encode u b) = Some b.
Proof.
  intros Hb. destruct (encode_digits u b Hb) as [H1 [H2 H3]]. unfold decode, wellformed.
  change (fun c => is_hexdigit c || is_ws c) with okc. rewrite H2, H3, even_double, H1. reflexivity.
Qed.
