(* Lemmas about the generic duplex machinery of Model/Sponge.v:
   C shape = byte-serial machine = block-level specification;
   chunk invariance; decrypt inverts encrypt (both directions). *)
From AsconV Require Import Model.Sponge.
Local Open Scope nat_scope.

Lemma xor_at_len s off d : length (xor_at s off d) = length s.
Proof.
  revert off d; induction s as [|x s IH]; intros off d; [reflexivity|].
  destruct off as [|o]; cbn [xor_at].
  - destruct d as [|y d]; [reflexivity|]. cbn. now rewrite IH.
  - cbn. now rewrite IH.
Qed.

Section DuplexP.
Variable bf : bytefn.
Variable f : bytes -> bytes.
Variable rate : nat.
Variable slen : nat.                       (* the state length, 40 *)
Hypothesis f_len : forall s, length s = slen -> length (f s) = slen.
Hypothesis rate_pos : 0 < rate.
Hypothesis rate_le : rate <= slen.

Lemma upd_at_nil st off : upd_at bf st off [] = (st, []).
Proof.
  revert off; induction st as [|x st IH]; intros off; cbn [upd_at]; [reflexivity|].
  destruct off as [|o]; [reflexivity|]. rewrite IH. reflexivity.
Qed.

Lemma upd_at_len st off d : length (fst (upd_at bf st off d)) = length st.
Proof.
  revert off d; induction st as [|x st IH]; intros off d; cbn [upd_at]; [reflexivity|].
  destruct off as [|o].
  - destruct d as [|y d]; [reflexivity|].
    destruct (bf x y) as [nx o]. specialize (IH 0 d).
    destruct (upd_at bf st 0 d) as [s2 o2]. cbn in *. now rewrite IH.
  - specialize (IH o d). destruct (upd_at bf st o d) as [s2 o2]. cbn in *. now rewrite IH.
Qed.

Lemma upd_at_outlen st off d : off + length d <= length st ->
  length (snd (upd_at bf st off d)) = length d.
Proof.
  revert off d; induction st as [|x st IH]; intros off d H; cbn [upd_at].
  - cbn in H. destruct d; [reflexivity|cbn in H; lia].
  - destruct off as [|o].
    + destruct d as [|y d]; [reflexivity|].
      destruct (bf x y) as [nx o]. specialize (IH 0 d).
      destruct (upd_at bf st 0 d) as [s2 o2]. cbn in *. rewrite IH; lia.
    + specialize (IH o d). destruct (upd_at bf st o d) as [s2 o2]. cbn in *. apply IH; lia.
Qed.

Lemma upd_at_app st off a b : off + length a <= length st ->
  upd_at bf st off (a ++ b) =
  (fst (upd_at bf (fst (upd_at bf st off a)) (off + length a) b),
   snd (upd_at bf st off a) ++ snd (upd_at bf (fst (upd_at bf st off a)) (off + length a) b)).
Proof.
  revert off a; induction st as [|x st IH]; intros off a H.
  - cbn in H. destruct a; [|cbn in H; lia]. destruct off; [|lia]. reflexivity.
  - destruct off as [|o].
    + destruct a as [|y a].
      * cbn [app length Nat.add]. rewrite upd_at_nil. cbn [fst snd app].
        destruct (upd_at bf (x :: st) 0 b); reflexivity.
      * cbn [app upd_at length]. destruct (bf x y) as [nx o].
        cbn in H. rewrite (IH 0 a) by (cbn; lia).
        destruct (upd_at bf st 0 a) as [s2 o2]. cbn [fst snd Nat.add upd_at].
        destruct (upd_at bf s2 (length a) b) as [s3 o3]. reflexivity.
    + cbn [upd_at]. cbn in H. rewrite (IH o a) by lia.
      destruct (upd_at bf st o a) as [s2 o2]. cbn [fst snd Nat.add upd_at].
      destruct (upd_at bf s2 (o + length a) b) as [s3 o3]. reflexivity.
Qed.

(* ---- serial machine -------------------------------------------------- *)

Lemma serial_app sp a b :
  serial bf f rate sp (a ++ b) =
  (fst (serial bf f rate (fst (serial bf f rate sp a)) b),
   snd (serial bf f rate sp a) ++ snd (serial bf f rate (fst (serial bf f rate sp a)) b)).
Proof.
  revert sp; induction a as [|x a IH]; intros sp.
  - cbn [app serial fst snd]. destruct (serial bf f rate sp b); reflexivity.
  - cbn [app serial]. destruct (upd_at bf (fst sp) (snd sp) [x]) as [s1 o1].
    rewrite IH. destruct (serial bf f rate (advance f rate s1 (snd sp)) a) as [r o2].
    cbn [fst snd]. destruct (serial bf f rate r b) as [r3 o3]. cbn [fst snd].
    now rewrite app_assoc.
Qed.

(* a run that stays inside the block *)
Lemma serial_short st pos d : pos + length d < rate -> length st = slen ->
  serial bf f rate (st, pos) d =
  ((fst (upd_at bf st pos d), pos + length d), snd (upd_at bf st pos d)).
Proof.
  revert st pos; induction d as [|b d IH]; intros st pos H Hl.
  - rewrite upd_at_nil. cbn. now rewrite Nat.add_0_r.
  - cbn [serial fst snd]. cbn [length] in H.
    change (b :: d) with ([b] ++ d). rewrite (upd_at_app st pos [b] d) by (cbn; lia).
    destruct (upd_at bf st pos [b]) as [s1 o1] eqn:E1. cbn [fst snd length].
    unfold advance. destruct (Nat.eqb_spec (S pos) rate) as [e|_]; [lia|].
    rewrite IH; [|lia|]. 
    + replace (pos + 1) with (S pos) by lia. replace (S pos + length d) with (pos + S (length d)) by lia. reflexivity.
    + pose proof (upd_at_len st pos [b]) as L. rewrite E1 in L. cbn in L. lia.
Qed.

(* a run that exactly closes the block *)
Lemma serial_close st pos d : d <> [] -> pos + length d = rate -> length st = slen ->
  serial bf f rate (st, pos) d =
  ((f (fst (upd_at bf st pos d)), 0), snd (upd_at bf st pos d)).
Proof.
  intros Hne H Hl.
  destruct (exists_last Hne) as [d0 [b E]]. subst d.
  rewrite app_length in H. cbn in H.
  rewrite serial_app. rewrite serial_short by lia. cbn [fst snd].
  rewrite (upd_at_app st pos d0 [b]) by lia.
  destruct (upd_at bf st pos d0) as [s1 o1] eqn:E1. cbn [fst snd].
  cbn [serial fst snd]. destruct (upd_at bf s1 (pos + length d0) [b]) as [s2 o2].
  unfold advance. destruct (Nat.eqb_spec (S (pos + length d0)) rate) as [_|n]; [|lia].
  cbn [fst snd]. now rewrite app_nil_r.
Qed.

(* ---- C shape = serial ------------------------------------------------ *)

Lemma full_loop_serial fuel st d : length d <= fuel -> length st = slen ->
  let '(s1, rest, o1) := full_loop bf f rate fuel st d in
  length rest < rate /\ length s1 = slen /\
  serial bf f rate (st, 0) d =
  (fst (serial bf f rate (s1, 0) rest), o1 ++ snd (serial bf f rate (s1, 0) rest)).
Proof.
  revert st d; induction fuel as [|k IH]; intros st d Hf Hl.
  - destruct d; [|cbn in Hf; lia]. cbn. repeat split; auto.
  - cbn [full_loop]. destruct (Nat.leb_spec rate (length d)) as [Hr|Hr].
    + destruct (upd_at bf st 0 (firstn rate d)) as [s1 o1] eqn:E1.
      assert (Hl1 : length (f s1) = slen).
      { apply f_len. pose proof (upd_at_len st 0 (firstn rate d)) as L. rewrite E1 in L. cbn in L. lia. }
      specialize (IH (f s1) (skipn rate d)).
      destruct (full_loop bf f rate k (f s1) (skipn rate d)) as [[s2 rest] o2].
      destruct IH as [H1 [H2 H3]]; [rewrite skipn_length; lia|exact Hl1|].
      repeat split; auto.
      rewrite <- (firstn_skipn rate d) at 1. rewrite serial_app.
      rewrite serial_close; [|destruct d; [cbn in Hr; lia|destruct rate; [lia|discriminate]]|rewrite firstn_length; lia|exact Hl].
      rewrite E1. cbn [fst snd]. rewrite H3. cbn [fst snd]. now rewrite app_assoc.
    + repeat split; auto. cbn [app]. destruct (serial bf f rate (st,0) d); reflexivity.
Qed.

Lemma aligned_c_serial st d : length st = slen ->
  aligned_c bf f rate st d = serial bf f rate (st, 0) d.
Proof.
  intros Hl. unfold aligned_c.
  pose proof (full_loop_serial (length d) st d (le_n _) Hl) as H.
  destruct (full_loop bf f rate (length d) st d) as [[s1 rest] o1].
  destruct H as [H1 [H2 H3]]. rewrite H3.
  rewrite serial_short by lia. cbn [fst snd Nat.add].
  destruct (upd_at bf s1 0 rest); reflexivity.
Qed.

Theorem duplex_c_serial st pos d : pos < rate -> length st = slen ->
  duplex_c bf f rate (st, pos) d = serial bf f rate (st, pos) d.
Proof.
  intros Hp Hl. unfold duplex_c.
  destruct (Nat.eqb_spec pos 0) as [->|Hn]; [now apply aligned_c_serial|].
  destruct (Nat.ltb_spec (length d) (rate - pos)) as [Hs|Hs].
  - rewrite serial_short by lia. destruct (upd_at bf st pos d); reflexivity.
  - assert (ES : serial bf f rate (st, pos) d = serial bf f rate (st, pos) (firstn (rate - pos) d ++ skipn (rate - pos) d)) by now rewrite firstn_skipn.
    rewrite ES. rewrite serial_app.
    rewrite serial_close; [| |rewrite firstn_length; lia|exact Hl].
    2:{ destruct d; [cbn in Hs; lia|]. destruct (rate - pos) eqn:E; [lia|discriminate]. }
    destruct (upd_at bf st pos (firstn (rate - pos) d)) as [s1 o1] eqn:E1. cbn [fst snd].
    rewrite aligned_c_serial.
    + destruct (serial bf f rate (f s1, 0) (skipn (rate - pos) d)); reflexivity.
    + apply f_len. pose proof (upd_at_len st pos (firstn (rate - pos) d)) as L. rewrite E1 in L. cbn in L. lia.
Qed.

(* invariants of the serial machine *)
Lemma serial_inv st pos d : pos < rate -> length st = slen ->
  snd (fst (serial bf f rate (st, pos) d)) < rate /\
  length (fst (fst (serial bf f rate (st, pos) d))) = slen /\
  length (snd (serial bf f rate (st, pos) d)) = length d /\
  snd (fst (serial bf f rate (st, pos) d)) = (pos + length d) mod rate.
Proof.
  revert st pos; induction d as [|b d IH]; intros st pos Hp Hl.
  - cbn. rewrite Nat.add_0_r, Nat.mod_small by lia. auto.
  - cbn [serial fst snd].
    destruct (upd_at bf st pos [b]) as [s1 o1] eqn:E1.
    assert (L1 : length s1 = slen).
    { pose proof (upd_at_len st pos [b]) as L. rewrite E1 in L. cbn in L. lia. }
    assert (L2 : length o1 = 1).
    { pose proof (upd_at_outlen st pos [b]) as L. rewrite E1 in L. cbn in L. apply L. lia. }
    unfold advance. destruct (Nat.eqb_spec (S pos) rate) as [e|n].
    + specialize (IH (f s1) 0 rate_pos (f_len _ L1)).
      destruct (serial bf f rate (f s1, 0) d) as [r o2]. cbn [fst snd] in *.
      destruct IH as [I1 [I2 [I3 I4]]]. repeat split; auto.
      * rewrite app_length. cbn [length]. lia.
      * rewrite I4. cbn [length]. replace (pos + S (length d)) with (length d + 1 * rate) by lia.
        rewrite Nat.mod_add by lia. reflexivity.
    + assert (Hp' : S pos < rate) by lia. specialize (IH s1 (S pos) Hp' L1).
      destruct (serial bf f rate (s1, S pos) d) as [r o2]. cbn [fst snd] in *.
      destruct IH as [I1 [I2 [I3 I4]]]. repeat split; auto.
      * rewrite app_length. cbn [length]. lia.
      * rewrite I4. cbn [length]. f_equal. lia.
Qed.

(* ---- serial = block-level specification ------------------------------ *)

Lemma chunks_fuel_more n : 0 < n -> forall fuel fuel' l, length l <= fuel -> length l <= fuel' ->
  chunks_fuel fuel n l = chunks_fuel fuel' n l.
Proof.
  intros Hn. induction fuel as [|k IH]; intros fuel' l H H'.
  - destruct l; [|cbn in H; lia]. destruct fuel'; reflexivity.
  - destruct l as [|x l]; [destruct fuel'; reflexivity|].
    destruct fuel' as [|k']; [cbn in H'; lia|]. cbn [chunks_fuel]. f_equal.
    apply IH; rewrite skipn_length; cbn [length] in *; lia.
Qed.

Lemma chunks_cons n l : 0 < n -> l <> [] ->
  chunks n l = firstn n l :: chunks n (skipn n l).
Proof.
  intros Hn Hl. unfold chunks. destruct l as [|x l]; [congruence|].
  cbn [length chunks_fuel]. f_equal. apply chunks_fuel_more; auto.
  - rewrite skipn_length. cbn [length]. lia.
Qed.

Lemma serial_full_blocks q : forall st m, length st = slen -> length m = q * rate ->
  serial bf f rate (st, 0) m =
  ((fst (run_full bf f st (chunks rate m)), 0), snd (run_full bf f st (chunks rate m))).
Proof.
  induction q as [|q IH]; intros st m Hl Hm.
  - destruct m; [|cbn in Hm; lia]. reflexivity.
  - assert (Hne : m <> []) by (destruct m; [cbn in Hm; lia|discriminate]).
    rewrite chunks_cons by auto. cbn [run_full].
    rewrite <- (firstn_skipn rate m) at 1. rewrite serial_app.
    cbn [Nat.mul] in Hm.
    rewrite serial_close; [|destruct m; [congruence|destruct rate; [lia|discriminate]]|rewrite firstn_length; lia|exact Hl].
    destruct (upd_at bf st 0 (firstn rate m)) as [s1 o1] eqn:E1. cbn [fst snd].
    rewrite IH.
    + destruct (run_full bf f (f s1) (chunks rate (skipn rate m))); reflexivity.
    + apply f_len. pose proof (upd_at_len st 0 (firstn rate m)) as L. rewrite E1 in L. cbn in L. lia.
    + rewrite skipn_length. lia.
Qed.

Lemma run_full_len st bl : length st = slen -> length (fst (run_full bf f st bl)) = slen.
Proof.
  revert st; induction bl as [|b bl IH]; intros st Hl; cbn [run_full]; [exact Hl|].
  destruct (upd_at bf st 0 b) as [s1 o1] eqn:E1.
  assert (L1 : length (f s1) = slen).
  { apply f_len. pose proof (upd_at_len st 0 b) as L. rewrite E1 in L. cbn in L. lia. }
  specialize (IH (f s1) L1). destruct (run_full bf f (f s1) bl). exact IH.
Qed.

(* Running the serial machine over m from an aligned state, then adding the
   padding bit at the reached position, is the block-level specification. *)
Theorem serial_spec st m : length st = slen ->
  let '((s1, pos), o) := serial bf f rate (st, 0) m in
  pos = length m mod rate /\
  (xor_at s1 pos [0x80%N], o) = spec_duplex bf f rate st m.
Proof.
  intros Hl. unfold spec_duplex.
  set (q := length m / rate).
  assert (Hdm : length m = q * rate + length m mod rate).
  { unfold q. rewrite Nat.mul_comm. apply Nat.div_mod_eq. }
  assert (Hmod : length m mod rate < rate) by (apply Nat.mod_upper_bound; lia).
  assert (ES : serial bf f rate (st, 0) m = serial bf f rate (st, 0) (firstn (q * rate) m ++ skipn (q * rate) m)) by now rewrite firstn_skipn.
  rewrite ES. rewrite serial_app.
  rewrite (serial_full_blocks q) by (auto; rewrite firstn_length; lia).
  cbn [fst snd].
  pose proof (run_full_len st (chunks rate (firstn (q * rate) m)) Hl) as L1.
  destruct (run_full bf f st (chunks rate (firstn (q * rate) m))) as [s1 o1]. cbn [fst snd] in *.
  assert (Hsk : length (skipn (q * rate) m) = length m mod rate) by (rewrite skipn_length; lia).
  rewrite serial_short by lia. cbn [fst snd Nat.add].
  destruct (upd_at bf s1 0 (skipn (q * rate) m)) as [s2 o2]. cbn [fst snd].
  rewrite Hsk. split; reflexivity.
Qed.


(* the C routine from an aligned state, in terms of the specification *)
Theorem duplex_c_spec_gen st m : length st = slen ->
  let '((s1, pos), o) := duplex_c bf f rate (st, 0) m in
  pos = length m mod rate /\ (xor_at s1 pos [0x80%N], o) = spec_duplex bf f rate st m.
Proof.
  intros Hl. rewrite duplex_c_serial by auto. now apply serial_spec.
Qed.

Lemma spec_duplex_outlen st m : length st = slen ->
  length (snd (spec_duplex bf f rate st m)) = length m /\ length (fst (spec_duplex bf f rate st m)) = slen.
Proof.
  intros Hl. pose proof (serial_spec st m Hl) as S.
  pose proof (serial_inv st 0 m rate_pos Hl) as [_ [I2 [I3 _]]].
  destruct (serial bf f rate (st, 0) m) as [[s1 pos] o]. cbn [fst snd] in *.
  destruct S as [_ S]. rewrite <- S. cbn [fst snd]. split; [exact I3|]. now rewrite xor_at_len.
Qed.

End DuplexP.

(* ---- decrypt inverts encrypt, in both directions, at the serial level -- *)

Section Inverse.
Variable f : bytes -> bytes.
Variable rate : nat.

Lemma lxor_cancel_l x y : N.lxor x (N.lxor x y) = y.
Proof. now rewrite <- N.lxor_assoc, N.lxor_nilpotent, N.lxor_0_l. Qed.

Lemma upd1_enc_dec st pos b s1 o1 :
  upd_at bf_enc st pos [b] = (s1, o1) ->
  upd_at bf_dec st pos o1 = (s1, if pos <? length st then [b] else []).
Proof.
  revert pos s1 o1; induction st as [|x st IH]; intros pos s1 o1 H.
  - cbn in H. inversion H; subst. reflexivity.
  - destruct pos as [|p].
    + cbn in H. rewrite upd_at_nil in H. inversion H; subst. cbn.
      rewrite upd_at_nil. now rewrite lxor_cancel_l.
    + cbn [upd_at] in H. destruct (upd_at bf_enc st p [b]) as [s2 o2] eqn:E.
      inversion H; subst. cbn [upd_at]. rewrite (IH p s2 o1 E).
      cbn [length]. reflexivity.
Qed.

Lemma upd1_dec_enc st pos c s1 o1 :
  upd_at bf_dec st pos [c] = (s1, o1) ->
  upd_at bf_enc st pos o1 = (s1, if pos <? length st then [c] else []).
Proof.
  revert pos s1 o1; induction st as [|x st IH]; intros pos s1 o1 H.
  - cbn in H. inversion H; subst. reflexivity.
  - destruct pos as [|p].
    + cbn in H. rewrite upd_at_nil in H. inversion H; subst. cbn.
      rewrite upd_at_nil. now rewrite lxor_cancel_l.
    + cbn [upd_at] in H. destruct (upd_at bf_dec st p [c]) as [s2 o2] eqn:E.
      inversion H; subst. cbn [upd_at]. rewrite (IH p s2 o1 E).
      cbn [length]. reflexivity.
Qed.

Lemma upd1_out bf st pos b : pos < length st ->
  exists o, snd (upd_at bf st pos [b]) = [o].
Proof.
  revert pos; induction st as [|x st IH]; intros pos H; [cbn in H; lia|].
  destruct pos as [|p].
  - cbn. destruct (bf x b). rewrite upd_at_nil. eexists; reflexivity.
  - cbn [upd_at]. cbn [length] in H. destruct (IH p) as [o Ho]; [lia|].
    destruct (upd_at bf st p [b]). cbn in *. eauto.
Qed.

Variable slen : nat.
Hypothesis f_len : forall s, length s = slen -> length (f s) = slen.
Hypothesis rate_pos : 0 < rate.
Hypothesis rate_le : rate <= slen.

(* decrypting what was encrypted from the same state gives back the
   plaintext and reaches the same state *)
Theorem serial_dec_enc p : forall st pos, pos < rate -> length st = slen ->
  serial bf_dec f rate (st, pos) (snd (serial bf_enc f rate (st, pos) p)) =
  (fst (serial bf_enc f rate (st, pos) p), p).
Proof.
  induction p as [|b p IH]; intros st pos Hp Hl; [reflexivity|].
  cbn [serial fst snd].
  destruct (upd_at bf_enc st pos [b]) as [s1 o1] eqn:E1.
  destruct (upd1_out bf_enc st pos b) as [o Ho]; [lia|]. rewrite E1 in Ho. cbn in Ho. subst o1.
  assert (L1 : length s1 = slen).
  { pose proof (upd_at_len bf_enc st pos [b]) as L. rewrite E1 in L. cbn in L. lia. }
  assert (Hadv : snd (advance f rate s1 pos) < rate /\ length (fst (advance f rate s1 pos)) = slen).
  { unfold advance. destruct (Nat.eqb_spec (S pos) rate); cbn; split; auto; lia. }
  destruct (advance f rate s1 pos) as [s2 pos2] eqn:EA. cbn [fst snd] in Hadv.
  specialize (IH s2 pos2 (proj1 Hadv) (proj2 Hadv)).
  destruct (serial bf_enc f rate (s2, pos2) p) as [r o2]. cbn [fst snd app] in *.
  pose proof (upd1_enc_dec st pos b s1 [o] E1) as D. 
  destruct (Nat.ltb_spec pos (length st)) as [_|Hge]; [|lia].
  cbn [serial fst snd]. rewrite D. rewrite EA. rewrite IH. reflexivity.
Qed.

(* conversely: whatever decryption returns, encrypting it from the same
   state reproduces the ciphertext and reaches the same state *)
Theorem serial_enc_dec c : forall st pos, pos < rate -> length st = slen ->
  serial bf_enc f rate (st, pos) (snd (serial bf_dec f rate (st, pos) c)) =
  (fst (serial bf_dec f rate (st, pos) c), c).
Proof.
  induction c as [|b c IH]; intros st pos Hp Hl; [reflexivity|].
  cbn [serial fst snd].
  destruct (upd_at bf_dec st pos [b]) as [s1 o1] eqn:E1.
  destruct (upd1_out bf_dec st pos b) as [o Ho]; [lia|]. rewrite E1 in Ho. cbn in Ho. subst o1.
  assert (L1 : length s1 = slen).
  { pose proof (upd_at_len bf_dec st pos [b]) as L. rewrite E1 in L. cbn in L. lia. }
  assert (Hadv : snd (advance f rate s1 pos) < rate /\ length (fst (advance f rate s1 pos)) = slen).
  { unfold advance. destruct (Nat.eqb_spec (S pos) rate); cbn; split; auto; lia. }
  destruct (advance f rate s1 pos) as [s2 pos2] eqn:EA. cbn [fst snd] in Hadv.
  specialize (IH s2 pos2 (proj1 Hadv) (proj2 Hadv)).
  destruct (serial bf_dec f rate (s2, pos2) c) as [r o2]. cbn [fst snd app] in *.
  pose proof (upd1_dec_enc st pos b s1 [o] E1) as D.
  destruct (Nat.ltb_spec pos (length st)) as [_|Hge]; [|lia].
  cbn [serial fst snd]. rewrite D. rewrite EA. rewrite IH. reflexivity.
Qed.

End Inverse.
