(* C07: copies of hash / XOF / PRF objects at any point of any history, and
   in-place block processing instantiated with the model's duplex routine.

   The model functions (Model/Xofm.v: xof_absorb, xof_squeeze, xof_pad,
   extracted as x_xof_absorb / x_xof_squeeze / x_xof_pad) take an object as a
   value and return the new value.  Objects that live side by side - an
   original and its copy - are the slots of the correspondence driver
   (ocaml/drv_xof.ml, operations X <slot> ABS/SQZ/PAD/COPY/FREE/INIT...).  The
   slot store below is that driver's table written in Coq (it is NOT extracted:
   the driver's table is hand-written OCaml; what is extracted and compared
   with the C byte for byte are the per-object functions).  COPY src dst
   stores the source's current value in dst: the model of ascon_xof_copy /
   ascon_xofa_copy / ascon_hash_copy / ascon_hasha_copy is the identity on an
   immutable record (Xofm.xof_copy). *)
From AsconV Require Import Model.Xofm Proofs.SpongeP Proofs.InplaceP.
Local Open Scope nat_scope.

Section Store.
Variable perm : nat -> bytes -> bytes.

Definition entry := (xof_variant * xof_state)%type.
Definition store := nat -> option entry.
Definition empty_store : store := fun _ => None.
Definition upd (st : store) (t : nat) (e : option entry) : store := fun u => if u =? t then e else st u.

(* what can be done to the object in one slot *)
Inductive lop :=
| LAbs (d : bytes)        (* X s ABS d *)
| LSqz (n : nat)          (* X s SQZ n *)
| LPad.                   (* X s PAD *)

Definition lstep (e : option entry) (o : lop) : option entry * bytes :=
  match e with
  | None => (None, [])
  | Some (v, x) =>
    match o with
    | LAbs d => (Some (v, xof_absorb perm v x d), [])
    | LSqz n => let '(x', out) := xof_squeeze perm v x n in (Some (v, x'), out)
    | LPad => (Some (v, xof_pad perm v x), [])
    end
  end.

Fixpoint lrun (e : option entry) (k : list lop) : option entry * list bytes :=
  match k with
  | [] => (e, [])
  | o :: k' => let '(e1, out) := lstep e o in let '(e2, outs) := lrun e1 k' in (e2, out :: outs)
  end.

(* operations on the store *)
Inductive xop :=
| XPut (t : nat) (v : xof_variant) (x : xof_state)   (* any INIT / REINIT form: the slot receives an initial value *)
| XOn (t : nat) (o : lop)
| XCopy (src dst : nat)
| XFree (t : nat).

Definition xstep (st : store) (o : xop) : store * bytes :=
  match o with
  | XPut t v x => (upd st t (Some (v, x)), [])
  | XOn t o => let '(e, out) := lstep (st t) o in (upd st t e, out)
  | XCopy src dst => (upd st dst (option_map (fun '(v, x) => (v, xof_copy x)) (st src)), [])
  | XFree t => (upd st t None, [])
  end.

Fixpoint xrun (h : list xop) (st : store) : store * list bytes :=
  match h with
  | [] => (st, [])
  | o :: h' => let '(st1, out) := xstep st o in let '(st2, outs) := xrun h' st1 in (st2, out :: outs)
  end.

Lemma upd_same st t e : upd st t e t = e.
Proof. unfold upd. now rewrite Nat.eqb_refl. Qed.
Lemma upd_other st t e u : u <> t -> upd st t e u = st u.
Proof. intros H. unfold upd. destruct (Nat.eqb_spec u t); [contradiction|reflexivity]. Qed.

(* a run of operations on one slot: its outputs and the slot's final value
   are those of the slot-local run on the slot's value; other slots keep theirs *)
Lemma xrun_on t k : forall st,
  snd (xrun (map (XOn t) k) st) = snd (lrun (st t) k) /\
  fst (xrun (map (XOn t) k) st) t = fst (lrun (st t) k) /\
  forall u, u <> t -> fst (xrun (map (XOn t) k) st) u = st u.
Proof.
  induction k as [|o k IH]; intros st; [cbn; auto|].
  cbn [map xrun lrun xstep]. destruct (lstep (st t) o) as [e1 out].
  specialize (IH (upd st t e1)). rewrite upd_same in IH.
  destruct (xrun (map (XOn t) k) (upd st t e1)) as [st2 outs]. destruct (lrun e1 k) as [e2 outs'].
  cbn [fst snd] in *. destruct IH as (A & B & C). split; [now rewrite A|]. split; [exact B|].
  intros u Hu. rewrite C by exact Hu. now apply upd_other.
Qed.

Lemma option_map_copy (e : option entry) : option_map (fun '(v, x) => (v, xof_copy x)) e = e.
Proof. destruct e as [[v x]|]; reflexivity. Qed.

(* C07: a copy taken at ANY point of ANY history (h: any operations on any
   slots, including earlier copies, re-inits and frees)
   (1) continues exactly like its original: the same continuation k (any
       absorb / squeeze / pad calls) returns the same bytes on the copy as on
       the original, and leaves the same object value;
   (2) is independent of it: whatever is done to the copy (kd), the original
       afterwards (ks) returns what it would have returned had no copy been
       taken - and the same with the roles exchanged. *)
Theorem copy_history h src dst k kd ks : src <> dst ->
  let st := fst (xrun h empty_store) in
  let st1 := fst (xstep st (XCopy src dst)) in
  (snd (xrun (map (XOn dst) k) st1) = snd (xrun (map (XOn src) k) st) /\
   fst (xrun (map (XOn dst) k) st1) dst = fst (xrun (map (XOn src) k) st) src) /\
  snd (xrun (map (XOn src) ks) (fst (xrun (map (XOn dst) kd) st1))) = snd (xrun (map (XOn src) ks) st) /\
  snd (xrun (map (XOn dst) ks) (fst (xrun (map (XOn src) kd) st1))) = snd (xrun (map (XOn src) ks) st).
Proof.
  intros Hne st st1.
  assert (Ed : st1 dst = st src) by (unfold st1; cbn [xstep fst]; rewrite upd_same; apply option_map_copy).
  assert (Es : st1 src = st src) by (unfold st1; cbn [xstep fst]; now apply upd_other).
  split; [split|split].
  - rewrite (proj1 (xrun_on dst k st1)), (proj1 (xrun_on src k st)). now rewrite Ed.
  - rewrite (proj1 (proj2 (xrun_on dst k st1))), (proj1 (proj2 (xrun_on src k st))). now rewrite Ed.
  - rewrite (proj1 (xrun_on src ks _)), (proj1 (xrun_on src ks st)).
    rewrite (proj2 (proj2 (xrun_on dst kd st1)) src Hne). now rewrite Es.
  - rewrite (proj1 (xrun_on dst ks _)), (proj1 (xrun_on src ks st)).
    rewrite (proj2 (proj2 (xrun_on src kd st1)) dst (not_eq_sym Hne)). now rewrite Ed.
Qed.

End Store.

(* ---- in-place processing, instantiated ------------------------------------------ *)

(* InplaceP.inplace_eq is about an abstract cell-by-cell routine.  Here the
   cell is a byte and the routine is the model's own byte-serial duplex step
   (SpongeP: duplex_c = serial), so the statement is about the function the
   incremental AEAD block calls are defined by: running it IN PLACE over a
   buffer (iteration i reads buf[i], then overwrites buf[i]) leaves in the
   buffer exactly the output of duplex_c and reaches the same state. *)
Section InplaceDuplex.
Variable bf : bytefn.
Variable f : bytes -> bytes.
Variable rate slen : nat.
Hypothesis f_len : forall s, length s = slen -> length (f s) = slen.
Hypothesis rate_pos : 0 < rate.
Hypothesis rate_le : rate <= slen.

Definition byte_step (sp : bytes * nat) (b : N) : (bytes * nat) * N :=
  let '(s1, o1) := upd_at bf (fst sp) (snd sp) [b] in (advance f rate s1 (snd sp), hd 0%N o1).

Lemma run_out_serial d : forall st pos, pos < rate -> length st = slen ->
  run_out N (bytes * nat) byte_step (st, pos) d = serial bf f rate (st, pos) d.
Proof.
  induction d as [|b d IH]; intros st pos Hp Hl; [reflexivity|].
  cbn [run_out serial]. unfold byte_step. cbn [fst snd].
  destruct (upd1_out bf st pos b ltac:(lia)) as [o Ho].
  pose proof (upd_at_len bf st pos [b]) as L1.
  destruct (upd_at bf st pos [b]) as [s1 o1]. cbn [fst snd] in *. subst o1. cbn [hd].
  unfold advance. destruct (Nat.eqb_spec (S pos) rate) as [e|n].
  - rewrite IH; [|exact rate_pos|apply f_len; lia].
    destruct (serial bf f rate (f s1, 0) d) as [r o2]. reflexivity.
  - rewrite IH; [|lia|lia].
    destruct (serial bf f rate (s1, S pos) d) as [r o2]. reflexivity.
Qed.

Theorem inplace_duplex st pos buf : pos < rate -> length st = slen ->
  run_in N (bytes * nat) byte_step (length buf) 0 (st, pos) buf = duplex_c bf f rate (st, pos) buf.
Proof.
  intros Hp Hl. rewrite inplace_eq, run_out_serial by assumption.
  symmetry. now apply (duplex_c_serial bf f rate slen f_len rate_pos rate_le).
Qed.

End InplaceDuplex.
