(* Squeezing: the lazy C loop of ascon_xof_squeeze = the lazy byte-serial
   machine, which simulates the eager machine (= duplex with bf_sq), which is
   the block-level specification. *)
From AsconV Require Import Model.Sponge Proofs.SpongeP.
Local Open Scope nat_scope.

Lemma firstn_add {A} a b (l : list A) : firstn (a + b) l = firstn a l ++ firstn b (skipn a l).
Proof.
  revert l; induction a as [|a IH]; intros l; [reflexivity|].
  destruct l as [|x l]; [cbn; now rewrite firstn_nil|]. cbn. now rewrite IH.
Qed.

Lemma skipn_add {A} c a (l : list A) : skipn a (skipn c l) = skipn (c + a) l.
Proof.
  revert l; induction c as [|c IH]; intros l; [reflexivity|].
  destruct l as [|x l]; [cbn; now rewrite skipn_nil|]. cbn. apply IH.
Qed.

Lemma get_at_split st c a b : get_at st c (a + b) = get_at st c a ++ get_at st (c + a) b.
Proof. unfold get_at. now rewrite firstn_add, skipn_add. Qed.

(* upd_at with bf_sq reads the state and leaves it unchanged *)
Lemma upd_at_sq st off d : off + length d <= length st ->
  upd_at bf_sq st off d = (st, get_at st off (length d)).
Proof.
  revert off d; induction st as [|x st IH]; intros off d H.
  - cbn in H. destruct d; [|cbn in H; lia]. destruct off; reflexivity.
  - destruct off as [|o].
    + destruct d as [|y d]; [reflexivity|]. cbn [upd_at bf_sq length]. cbn in H.
      rewrite IH by (cbn; lia). reflexivity.
    + cbn [upd_at]. cbn in H. rewrite IH by lia. reflexivity.
Qed.

Section Lazy.
Variable f : bytes -> bytes.
Variable rate : nat.
Variable slen : nat.
Hypothesis f_len : forall s, length s = slen -> length (f s) = slen.
Hypothesis rate_pos : 0 < rate.
Hypothesis rate_le : rate <= slen.

(* the abstraction from lazy to eager states: a pending permutation is applied *)
Definition alpha (sp : bytes * nat) : bytes * nat :=
  (if snd sp =? 0 then f (fst sp) else fst sp, snd sp).

Lemma lazy_serial_sim n : forall st pos, pos < rate -> length st = slen ->
  alpha (fst (lazy_serial f rate (st, pos) n)) = fst (serial bf_sq f rate (alpha (st, pos)) (zeros n)) /\
  snd (lazy_serial f rate (st, pos) n) = snd (serial bf_sq f rate (alpha (st, pos)) (zeros n)).
Proof.
  induction n as [|n IH]; intros st pos Hp Hl; [cbn; auto|].
  set (st1 := if pos =? 0 then f st else st).
  assert (L1 : length st1 = slen) by (unfold st1; destruct (pos =? 0); auto).
  change (alpha (st, pos)) with (st1, pos).
  cbn [lazy_serial zeros repeat serial fst snd]. fold st1.
  rewrite (upd_at_sq st1 pos [0%N]) by (cbn; lia). cbn [length].
  unfold advance. destruct (Nat.eqb_spec (S pos) rate) as [e|ne].
  - specialize (IH st1 0 rate_pos L1). change (alpha (st1, 0)) with (f st1, 0) in IH.
    destruct (lazy_serial f rate (st1, 0) n) as [r o2].
    change (repeat 0%N n) with (zeros n).
    destruct (serial bf_sq f rate (f st1, 0) (zeros n)) as [r' o2']. cbn [fst snd] in *.
    destruct IH as [I1 I2]. split; [exact I1|now rewrite I2].
  - assert (Hp' : S pos < rate) by lia. specialize (IH st1 (S pos) Hp' L1).
    change (alpha (st1, S pos)) with (st1, S pos) in IH.
    destruct (lazy_serial f rate (st1, S pos) n) as [r o2].
    change (repeat 0%N n) with (zeros n).
    destruct (serial bf_sq f rate (st1, S pos) (zeros n)) as [r' o2']. cbn [fst snd] in *.
    destruct IH as [I1 I2]. split; [exact I1|now rewrite I2].
Qed.

Lemma lazy_serial_add a : forall b sp,
  lazy_serial f rate sp (a + b) =
  (fst (lazy_serial f rate (fst (lazy_serial f rate sp a)) b),
   snd (lazy_serial f rate sp a) ++ snd (lazy_serial f rate (fst (lazy_serial f rate sp a)) b)).
Proof.
  induction a as [|a IH]; intros b sp.
  - cbn. destruct (lazy_serial f rate sp b); reflexivity.
  - cbn [Nat.add lazy_serial]. rewrite IH.
    destruct (lazy_serial f rate _ a) as [r o2]. cbn [fst snd].
    destruct (lazy_serial f rate r b) as [r3 o3]. cbn [fst snd]. now rewrite app_assoc.
Qed.

(* inside a block that has been entered (pos > 0): plain reads *)
Lemma lazy_short k : forall st pos, 0 < pos -> pos + k < rate ->
  lazy_serial f rate (st, pos) k = ((st, pos + k), get_at st pos k).
Proof.
  induction k as [|k IH]; intros st pos H0 H.
  - cbn. now rewrite Nat.add_0_r.
  - cbn [lazy_serial fst snd]. destruct (Nat.eqb_spec pos 0) as [e|_]; [lia|].
    destruct (Nat.eqb_spec (S pos) rate) as [e|_]; [lia|].
    rewrite IH by lia. replace (S pos + k) with (pos + S k) by lia.
    replace (S k) with (1 + k) by lia. rewrite get_at_split. replace (pos + 1) with (S pos) by lia. reflexivity.
Qed.

Lemma lazy_close k : forall st pos, 0 < pos -> 0 < k -> pos + k = rate ->
  lazy_serial f rate (st, pos) k = ((st, 0), get_at st pos k).
Proof.
  intros st pos H0 Hk H. replace k with ((k - 1) + 1) by lia.
  rewrite lazy_serial_add. rewrite lazy_short by lia. cbn [fst snd lazy_serial].
  destruct (Nat.eqb_spec (pos + (k - 1)) 0) as [e|_]; [lia|].
  destruct (Nat.eqb_spec (S (pos + (k - 1))) rate) as [_|ne]; [|lia].
  rewrite app_nil_r, get_at_split. reflexivity.
Qed.

(* from a block boundary: the pending permutation happens first *)
Lemma lazy_first k : forall st, 0 < k -> k < rate ->
  lazy_serial f rate (st, 0) k = ((f st, k), get_at (f st) 0 k).
Proof.
  intros st Hk H. destruct k as [|k]; [lia|].
  cbn [lazy_serial fst snd]. change (0 =? 0) with true. cbv iota.
  destruct (Nat.eqb_spec 1 rate) as [e|_]; [lia|].
  rewrite lazy_short by lia. change (S k) with (1 + k). rewrite get_at_split. reflexivity.
Qed.

Lemma lazy_block st : lazy_serial f rate (st, 0) rate = ((f st, 0), get_at (f st) 0 rate).
Proof.
  destruct (Nat.eq_dec rate 1) as [e|ne].
  - rewrite e. cbn [lazy_serial fst snd]. change (0 =? 0) with true. change (1 =? 1) with true. cbv iota.
    now rewrite app_nil_r.
  - assert (E : rate = (rate - 1) + 1) by lia.
    rewrite E at 2. rewrite lazy_serial_add.
    rewrite lazy_first by lia. cbn [fst snd lazy_serial].
    destruct (Nat.eqb_spec (rate - 1) 0) as [e|_]; [lia|].
    destruct (Nat.eqb_spec (S (rate - 1)) rate) as [_|n]; [|lia].
    rewrite app_nil_r. pose proof (get_at_split (f st) 0 (rate - 1) 1) as G. cbn [Nat.add] in G. rewrite <- G. now rewrite <- E.
Qed.

Lemma lazy_loop_serial fuel : forall st n, n <= fuel ->
  let '(s1, rest, o1) := lazy_loop f rate fuel st n in
  rest < rate /\
  lazy_serial f rate (st, 0) n =
  (fst (lazy_serial f rate (s1, 0) rest), o1 ++ snd (lazy_serial f rate (s1, 0) rest)).
Proof.
  induction fuel as [|k IH]; intros st n Hf.
  - replace n with 0 by lia. cbn. split; [lia|reflexivity].
  - cbn [lazy_loop]. destruct (Nat.leb_spec rate n) as [Hr|Hr].
    + specialize (IH (f st) (n - rate)).
      destruct (lazy_loop f rate k (f st) (n - rate)) as [[s2 rest] o2].
      destruct IH as [H1 H2]; [lia|]. split; [exact H1|].
      replace n with (rate + (n - rate)) at 1 by lia. rewrite lazy_serial_add, lazy_block.
      cbn [fst snd]. rewrite H2. cbn [fst snd]. now rewrite app_assoc.
    + split; [exact Hr|]. cbn [app]. destruct (lazy_serial f rate (st, 0) n); reflexivity.
Qed.

Lemma lazy_aligned_c_serial st n :
  lazy_aligned_c f rate st n = lazy_serial f rate (st, 0) n.
Proof.
  unfold lazy_aligned_c. pose proof (lazy_loop_serial n st n (le_n _)) as H.
  destruct (lazy_loop f rate n st n) as [[s1 rest] o1]. destruct H as [H1 H2]. rewrite H2.
  destruct (Nat.eqb_spec rest 0) as [e|ne].
  - subst rest. cbn. now rewrite app_nil_r.
  - rewrite lazy_first by lia. reflexivity.
Qed.

Theorem lazy_squeeze_c_serial st pos n : pos < rate ->
  lazy_squeeze_c f rate (st, pos) n = lazy_serial f rate (st, pos) n.
Proof.
  intros Hp. unfold lazy_squeeze_c.
  destruct (Nat.eqb_spec pos 0) as [e|ne]; [subst; apply lazy_aligned_c_serial|].
  destruct (Nat.ltb_spec n (rate - pos)) as [Hs|Hs].
  - rewrite lazy_short by lia. reflexivity.
  - rewrite lazy_aligned_c_serial.
    assert (E : lazy_serial f rate (st, pos) n = lazy_serial f rate (st, pos) ((rate - pos) + (n - (rate - pos)))) by (f_equal; lia).
    rewrite E, lazy_serial_add, (lazy_close (rate - pos) st pos) by lia. cbn [fst snd].
    destruct (lazy_serial f rate (st, 0) (n - (rate - pos))); reflexivity.
Qed.

End Lazy.

(* the lazy aligned loop (permute, then read a block) in terms of the
   block-level squeeze specification *)
Section LazySpec.
Variable f : bytes -> bytes.
Variable rate : nat.
Variable slen : nat.
Hypothesis f_len : forall s, length s = slen -> length (f s) = slen.
Hypothesis rate_pos : 0 < rate.
Hypothesis rate_le : rate <= slen.

Theorem lazy_aligned_c_spec st n : length st = slen ->
  snd (lazy_aligned_c f rate st n) = spec_squeeze f rate (f st) n.
Proof.
  intros Hl. rewrite (lazy_aligned_c_serial f rate slen rate_pos rate_le).
  pose proof (lazy_serial_sim f rate slen f_len rate_pos rate_le n st 0 rate_pos Hl) as [_ S].
  rewrite S. unfold alpha. cbn [fst snd Nat.eqb]. unfold spec_squeeze.
  pose proof (serial_spec bf_sq f rate slen f_len rate_pos rate_le (f st) (zeros n) (f_len _ Hl)) as SP.
  destruct (serial bf_sq f rate (f st, 0) (zeros n)) as [[s1 pos] o]. destruct SP as [_ SP].
  rewrite <- SP. reflexivity.
Qed.

Lemma spec_squeeze_length st n : length st = slen -> length (spec_squeeze f rate st n) = n.
Proof.
  intros Hl. unfold spec_squeeze.
  destruct (spec_duplex_outlen bf_sq f rate slen f_len rate_pos rate_le st (zeros n) Hl) as [H _].
  rewrite H. unfold zeros. apply repeat_length.
Qed.

End LazySpec.
