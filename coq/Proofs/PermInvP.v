(* Spec.Perm.perm is a bijection on the valid 40-byte states (explicit inverse Perm_inv): byte-level corollaries of Sym/PermInv.v. *)
From Coq Require Import List NArith Bool Lia Arith.
From AsconV Require Import Bits.Bytes Spec.Perm Proofs.AeadP Proofs.NonceP Proofs.PermP Proofs.MaskP Sym.Bridge Sym.PermInv.
Import ListNotations.
Local Open Scope nat_scope.

Definition perm_inv (first : nat) (s : bytes) : bytes := bytes_of_words (perm_words_inv first (words_of_bytes s)).

Lemma skipn_add {A : Type} (a b : nat) (l : list A) : skipn (a + b) l = skipn b (skipn a l).
Proof. revert l; induction a as [|a IH]; intros l; [reflexivity|]. destruct l as [|x l]; [now rewrite !skipn_nil|]. cbn [Nat.add skipn]. apply IH. Qed.

Lemma get_at_app_l (a r : bytes) : length a = 8 -> get_at (a ++ r) 0 8 = a.
Proof. intros H. unfold get_at. cbn [skipn]. rewrite firstn_app, H, Nat.sub_diag, firstn_O, app_nil_r. rewrite <- H. apply firstn_all. Qed.
Lemma get_at_app_r (a r : bytes) k : length a = 8 -> get_at (a ++ r) (8 + k) 8 = get_at r k 8.
Proof. intros H. unfold get_at. rewrite skipn_add. rewrite skipn_app, H, Nat.sub_diag, (skipn_all2 a) by lia. reflexivity. Qed.

Lemma dec_enc8 x : lt64 x -> be_decode (be_encode 8 x) = x.
Proof. intros H. apply be_decode_encode. exact H. Qed.

Lemma get_at_self (e : bytes) : length e = 8 -> get_at e 0 8 = e.
Proof. intros H. rewrite <- (app_nil_r e) at 1. now apply get_at_app_l. Qed.

Lemma get5 (a b c d e : bytes) : length a = 8 -> length b = 8 -> length c = 8 -> length d = 8 -> length e = 8 ->
  get_at (a ++ b ++ c ++ d ++ e) 0 8 = a /\ get_at (a ++ b ++ c ++ d ++ e) 8 8 = b /\ get_at (a ++ b ++ c ++ d ++ e) 16 8 = c /\
  get_at (a ++ b ++ c ++ d ++ e) 24 8 = d /\ get_at (a ++ b ++ c ++ d ++ e) 32 8 = e.
Proof.
  intros Ha Hb Hc Hd He. repeat split.
  - now apply get_at_app_l.
  - change 8 with (8 + 0) at 1. rewrite get_at_app_r by exact Ha. now apply get_at_app_l.
  - change 16 with (8 + (8 + 0)). rewrite get_at_app_r by exact Ha. rewrite get_at_app_r by exact Hb. now apply get_at_app_l.
  - change 24 with (8 + (8 + (8 + 0))). rewrite get_at_app_r by exact Ha. rewrite get_at_app_r by exact Hb. rewrite get_at_app_r by exact Hc.
    now apply get_at_app_l.
  - change 32 with (8 + (8 + (8 + (8 + 0)))). rewrite get_at_app_r by exact Ha. rewrite get_at_app_r by exact Hb. rewrite get_at_app_r by exact Hc.
    rewrite get_at_app_r by exact Hd. now apply get_at_self.
Qed.

Theorem words_of_bytes_of_words w : wok w -> words_of_bytes (bytes_of_words w) = w.
Proof.
  destruct w as [[[[x0 x1] x2] x3] x4]. intros H. unfold wok, wlist in H.
  pose proof (Forall_inv H) as A0. pose proof (Forall_inv_tail H) as T0.
  pose proof (Forall_inv T0) as A1. pose proof (Forall_inv_tail T0) as T1.
  pose proof (Forall_inv T1) as A2. pose proof (Forall_inv_tail T1) as T2.
  pose proof (Forall_inv T2) as A3. pose proof (Forall_inv_tail T2) as T3.
  pose proof (Forall_inv T3) as A4.
  unfold words_of_bytes, bytes_of_words.
  destruct (get5 (be_encode 8 x0) (be_encode 8 x1) (be_encode 8 x2) (be_encode 8 x3) (be_encode 8 x4)
              (be_encode_len 8 x0) (be_encode_len 8 x1) (be_encode_len 8 x2) (be_encode_len 8 x3) (be_encode_len 8 x4))
    as [G0 [G1 [G2 [G3 G4]]]].
  rewrite G0, G1, G2, G3, G4, !dec_enc8 by assumption. reflexivity.
Qed.

Lemma chunks40 (s : bytes) : length s = 40 ->
  s = get_at s 0 8 ++ get_at s 8 8 ++ get_at s 16 8 ++ get_at s 24 8 ++ get_at s 32 8.
Proof. intros H. do 41 (destruct s as [|? s]; try discriminate). reflexivity. Qed.

Theorem bytes_of_words_of_bytes s : length s = 40 -> bytes_ok s -> bytes_of_words (words_of_bytes s) = s.
Proof.
  intros L B. unfold bytes_of_words, words_of_bytes.
  destruct (get_at_ok s 0 L ltac:(lia) B) as [L0 B0]. destruct (get_at_ok s 8 L ltac:(lia) B) as [L1 B1].
  destruct (get_at_ok s 16 L ltac:(lia) B) as [L2 B2]. destruct (get_at_ok s 24 L ltac:(lia) B) as [L3 B3].
  destruct (get_at_ok s 32 L ltac:(lia) B) as [L4 B4].
  rewrite !enc8 by assumption. symmetry. now apply chunks40.
Qed.

Lemma words_of_bytes_ok s : length s = 40 -> bytes_ok s -> wok (words_of_bytes s).
Proof. intros L B. exact (proj2 (dec_bridge s L B)). Qed.

(* perm_inv undoes perm, and perm undoes perm_inv, on every valid state and for every starting round *)
Theorem perm_inv_perm first s : length s = 40 -> bytes_ok s -> perm_inv first (perm first s) = s.
Proof.
  intros L B. unfold perm_inv, perm.
  pose proof (words_of_bytes_ok s L B) as W.
  rewrite words_of_bytes_of_words by now apply perm_words_ok.
  rewrite perm_words_inv_l by exact W. now apply bytes_of_words_of_bytes.
Qed.

Theorem perm_perm_inv first s : length s = 40 -> bytes_ok s -> perm first (perm_inv first s) = s.
Proof.
  intros L B. unfold perm_inv, perm.
  pose proof (words_of_bytes_ok s L B) as W.
  rewrite words_of_bytes_of_words by now apply perm_words_inv_ok.
  rewrite perm_words_inv_r by exact W. now apply bytes_of_words_of_bytes.
Qed.

Lemma perm_inv_len first s : length (perm_inv first s) = 40.
Proof. apply bytes_of_words_len. Qed.
Lemma perm_inv_ok first s : bytes_ok (perm_inv first s).
Proof. apply bytes_of_words_ok. Qed.

Corollary perm_injective first s1 s2 : length s1 = 40 -> bytes_ok s1 -> length s2 = 40 -> bytes_ok s2 ->
  perm first s1 = perm first s2 -> s1 = s2.
Proof. intros L1 B1 L2 B2 E. rewrite <- (perm_inv_perm first s1 L1 B1), <- (perm_inv_perm first s2 L2 B2). now rewrite E. Qed.

Corollary perm_surjective first t : length t = 40 -> bytes_ok t ->
  exists s, length s = 40 /\ bytes_ok s /\ perm first s = t.
Proof. intros L B. exists (perm_inv first t). split; [apply perm_inv_len|]. split; [apply perm_inv_ok|]. now apply perm_perm_inv. Qed.

Example perm_inv_vector : perm_inv 0 test_out12 = test_in /\ perm_inv 4 test_out8 = test_in.
Proof. split; vm_compute; reflexivity. Qed.
