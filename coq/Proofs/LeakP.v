(* C11, layer 2: for every instrumented routine R_L of Model/Leak.v
     (a) R_L args = (R args, tr_R pub)   - first component: R_L computes exactly the
         differentially tested model R; second component: its trace is the
         function tr_R of the public inputs (lengths, bookkeeping values, variant
         constants, iteration counts);
     (b) the public bookkeeping after the call is a function of the public
         bookkeeping before it and the lengths (pos_duplex, pub_absorb, ...);
     (c) hence two runs with the same public shape have the same trace. *)
From AsconV Require Import Model.Leak Proofs.SpongeP Proofs.SqueezeP Proofs.AeadP Proofs.XofP Proofs.MacP Proofs.PrngP Proofs.SivP.
From Coq Require Import ZArith.
Local Open Scope nat_scope.

Lemma pair_fst {A B} (x : A * B) a b : x = (a, b) -> fst x = a.
Proof. now intros ->. Qed.
Lemma pair_snd {A B} (x : A * B) a b : x = (a, b) -> snd x = b.
Proof. now intros ->. Qed.

(* ======================================================================== *)
(* 1. duplex                                                                *)
(* ======================================================================== *)
Section DuplexLP.
Variable bf : bytefn.
Variable f : bytes -> bytes.
Variable fr rate : nat.

Lemma full_loop_L_eq fuel : forall st d,
  full_loop_L bf f fr rate fuel st d =
  (full_loop bf f rate fuel st d, tr_full_loop fr rate fuel (length d)).
Proof.
  induction fuel as [|k IH]; intros st d; cbn [full_loop_L full_loop tr_full_loop]; [reflexivity|].
  destruct (rate <=? length d); [|reflexivity].
  destruct (upd_at bf st 0 (firstn rate d)) as [s1 o1].
  rewrite IH, skipn_length.
  destruct (full_loop bf f rate k (f s1) (skipn rate d)) as [[s2 rest] o2]. reflexivity.
Qed.

Lemma full_loop_rest fuel : forall st d,
  length (snd (fst (full_loop bf f rate fuel st d))) = rest_len rate fuel (length d).
Proof.
  induction fuel as [|k IH]; intros st d; cbn [full_loop rest_len]; [reflexivity|].
  destruct (rate <=? length d); [|reflexivity].
  destruct (upd_at bf st 0 (firstn rate d)) as [s1 o1].
  specialize (IH (f s1) (skipn rate d)). rewrite skipn_length in IH.
  destruct (full_loop bf f rate k (f s1) (skipn rate d)) as [[s2 rest] o2]. exact IH.
Qed.

Lemma aligned_c_L_eq st d :
  aligned_c_L bf f fr rate st d = (aligned_c bf f rate st d, tr_aligned fr rate (length d)).
Proof.
  unfold aligned_c_L, aligned_c, tr_aligned. rewrite full_loop_L_eq.
  pose proof (full_loop_rest (length d) st d) as R.
  destruct (full_loop bf f rate (length d) st d) as [[s1 rest] o1]. cbn [fst snd] in R.
  rewrite <- R. destruct (upd_at bf s1 0 rest) as [s2 o2]. reflexivity.
Qed.

Lemma aligned_c_pos st d :
  snd (fst (aligned_c bf f rate st d)) = rest_len rate (length d) (length d).
Proof.
  unfold aligned_c. pose proof (full_loop_rest (length d) st d) as R.
  destruct (full_loop bf f rate (length d) st d) as [[s1 rest] o1]. cbn [fst snd] in R.
  destruct (upd_at bf s1 0 rest) as [s2 o2]. exact R.
Qed.

Lemma duplex_c_L_eq st partial d :
  duplex_c_L bf f fr rate (st, partial) d =
  (duplex_c bf f rate (st, partial) d, tr_duplex fr rate partial (length d)).
Proof.
  unfold duplex_c_L, duplex_c, tr_duplex.
  destruct (partial =? 0).
  - rewrite aligned_c_L_eq. reflexivity.
  - destruct (length d <? rate - partial) eqn:E.
    + destruct (upd_at bf st partial d) as [s1 o1]. reflexivity.
    + destruct (upd_at bf st partial (firstn (rate - partial) d)) as [s1 o1].
      rewrite aligned_c_L_eq, skipn_length.
      destruct (aligned_c bf f rate (f s1) (skipn (rate - partial) d)) as [r o2]. reflexivity.
Qed.

Lemma duplex_c_pos st partial d :
  snd (fst (duplex_c bf f rate (st, partial) d)) = pos_duplex rate partial (length d).
Proof.
  unfold duplex_c, pos_duplex.
  destruct (partial =? 0); [apply aligned_c_pos|].
  destruct (length d <? rate - partial).
  - destruct (upd_at bf st partial d) as [s1 o1]. reflexivity.
  - destruct (upd_at bf st partial (firstn (rate - partial) d)) as [s1 o1].
    pose proof (aligned_c_pos (f s1) (skipn (rate - partial) d)) as P. rewrite skipn_length in P.
    destruct (aligned_c bf f rate (f s1) (skipn (rate - partial) d)) as [r o2]. exact P.
Qed.

(* (a), (b) and (c) in the form the property states them *)
Theorem duplex_c_L_fst sp d : fst (duplex_c_L bf f fr rate sp d) = duplex_c bf f rate sp d.
Proof. destruct sp as [st p]. now rewrite duplex_c_L_eq. Qed.
Theorem duplex_c_L_snd sp d :
  snd (duplex_c_L bf f fr rate sp d) = tr_duplex fr rate (snd sp) (length d).
Proof. destruct sp as [st p]. now rewrite duplex_c_L_eq. Qed.

End DuplexLP.

(* the closed forms of the two public functions *)
Lemma rest_len_mod rate fuel : 0 < rate -> forall n, n <= fuel -> rest_len rate fuel n = n mod rate.
Proof.
  intros Hr. induction fuel as [|k IH]; intros n Hn; cbn [rest_len].
  - replace n with 0 by lia. now rewrite Nat.mod_0_l by lia.
  - destruct (Nat.leb_spec rate n) as [H|H].
    + rewrite IH by lia. replace n with ((n - rate) + 1 * rate) at 2 by lia.
      now rewrite Nat.mod_add by lia.
    + now rewrite Nat.mod_small.
Qed.

Lemma pos_duplex_mod rate partial n : 0 < rate -> partial < rate ->
  pos_duplex rate partial n = (partial + n) mod rate.
Proof.
  intros Hr Hp. unfold pos_duplex. destruct (Nat.eqb_spec partial 0) as [->|Hn].
  - now rewrite rest_len_mod.
  - destruct (Nat.ltb_spec n (rate - partial)) as [H|H].
    + now rewrite Nat.mod_small by lia.
    + rewrite rest_len_mod by lia.
      replace (partial + n) with ((n - (rate - partial)) + 1 * rate) by lia.
      now rewrite Nat.mod_add by lia.
Qed.

(* the loop makes n / rate passes: one permutation each *)
Lemma tr_full_loop_perms fr rate fuel : 0 < rate -> forall n, n <= fuel ->
  length (filter (fun e => match e with EPerm _ => true | _ => false end) (tr_full_loop fr rate fuel n)) = n / rate.
Proof.
  intros Hr. induction fuel as [|k IH]; intros n Hn; cbn [tr_full_loop].
  - replace n with 0 by lia. now rewrite Nat.div_0_l by lia.
  - destruct (Nat.leb_spec rate n) as [H|H].
    + cbn [filter length]. rewrite IH by lia.
      replace n with ((n - rate) + 1 * rate) at 2 by lia. rewrite Nat.div_add by lia. lia.
    + cbn. now rewrite Nat.div_small.
Qed.

Theorem duplex_c_L_indep bf f fr rate partial st1 st2 d1 d2 : length d1 = length d2 ->
  snd (duplex_c_L bf f fr rate (st1, partial) d1) = snd (duplex_c_L bf f fr rate (st2, partial) d2).
Proof. intros H. now rewrite !duplex_c_L_eq, H. Qed.

(* the bookkeeping value returned is public too *)
Theorem duplex_c_pos_indep bf f rate partial st1 st2 d1 d2 : length d1 = length d2 ->
  snd (fst (duplex_c bf f rate (st1, partial) d1)) = snd (fst (duplex_c bf f rate (st2, partial) d2)).
Proof. intros H. now rewrite !duplex_c_pos, H. Qed.

(* ======================================================================== *)
(* 2. lazy squeeze                                                          *)
(* ======================================================================== *)
Section LazyLP.
Variable f : bytes -> bytes.
Variable fr rate : nat.

Lemma lazy_loop_L_eq fuel : forall st n,
  lazy_loop_L f fr rate fuel st n = (lazy_loop f rate fuel st n, tr_lazy_loop fr rate fuel n).
Proof.
  induction fuel as [|k IH]; intros st n; cbn [lazy_loop_L lazy_loop tr_lazy_loop]; [reflexivity|].
  destruct (rate <=? n); [|reflexivity].
  rewrite IH. destruct (lazy_loop f rate k (f st) (n - rate)) as [[s2 rest] o2]. reflexivity.
Qed.

Lemma lazy_loop_rest fuel : forall st n,
  snd (fst (lazy_loop f rate fuel st n)) = rest_len rate fuel n.
Proof.
  induction fuel as [|k IH]; intros st n; cbn [lazy_loop rest_len]; [reflexivity|].
  destruct (rate <=? n); [|reflexivity].
  specialize (IH (f st) (n - rate)).
  destruct (lazy_loop f rate k (f st) (n - rate)) as [[s2 rest] o2]. exact IH.
Qed.

Lemma lazy_aligned_c_L_eq st n :
  lazy_aligned_c_L f fr rate st n = (lazy_aligned_c f rate st n, tr_lazy_aligned fr rate n).
Proof.
  unfold lazy_aligned_c_L, lazy_aligned_c, tr_lazy_aligned. rewrite lazy_loop_L_eq.
  pose proof (lazy_loop_rest n st n) as R.
  destruct (lazy_loop f rate n st n) as [[s1 rest] o1]. cbn [fst snd] in R. rewrite <- R.
  destruct (rest =? 0); reflexivity.
Qed.

Lemma lazy_aligned_c_pos st n : snd (fst (lazy_aligned_c f rate st n)) = rest_len rate n n.
Proof.
  unfold lazy_aligned_c. pose proof (lazy_loop_rest n st n) as R.
  destruct (lazy_loop f rate n st n) as [[s1 rest] o1]. cbn [fst snd] in R. rewrite <- R.
  destruct (Nat.eqb_spec rest 0) as [E|E]; cbn [fst snd]; congruence.
Qed.

Lemma lazy_squeeze_c_L_eq st count n :
  lazy_squeeze_c_L f fr rate (st, count) n =
  (lazy_squeeze_c f rate (st, count) n, tr_lazy_squeeze fr rate count n).
Proof.
  unfold lazy_squeeze_c_L, lazy_squeeze_c, tr_lazy_squeeze.
  destruct (count =? 0).
  - rewrite lazy_aligned_c_L_eq. reflexivity.
  - destruct (n <? rate - count); [reflexivity|].
    rewrite lazy_aligned_c_L_eq.
    destruct (lazy_aligned_c f rate st (n - (rate - count))) as [r o2]. reflexivity.
Qed.

Lemma lazy_squeeze_c_pos st count n :
  snd (fst (lazy_squeeze_c f rate (st, count) n)) = pos_lazy rate count n.
Proof.
  unfold lazy_squeeze_c, pos_lazy.
  destruct (count =? 0); [apply lazy_aligned_c_pos|].
  destruct (n <? rate - count); [reflexivity|].
  pose proof (lazy_aligned_c_pos st (n - (rate - count))) as P.
  destruct (lazy_aligned_c f rate st (n - (rate - count))) as [r o2]. exact P.
Qed.

Theorem lazy_squeeze_c_L_fst sp n : fst (lazy_squeeze_c_L f fr rate sp n) = lazy_squeeze_c f rate sp n.
Proof. destruct sp as [st c]. now rewrite lazy_squeeze_c_L_eq. Qed.
Theorem lazy_squeeze_c_L_snd sp n :
  snd (lazy_squeeze_c_L f fr rate sp n) = tr_lazy_squeeze fr rate (snd sp) n.
Proof. destruct sp as [st c]. now rewrite lazy_squeeze_c_L_eq. Qed.

End LazyLP.

Lemma pos_lazy_eq rate count n : pos_lazy rate count n = pos_duplex rate count n.
Proof. reflexivity. Qed.

Theorem lazy_squeeze_c_L_indep f fr rate count n st1 st2 :
  snd (lazy_squeeze_c_L f fr rate (st1, count) n) = snd (lazy_squeeze_c_L f fr rate (st2, count) n).
Proof. now rewrite !lazy_squeeze_c_L_eq. Qed.

(* XOFA's eager squeeze is the duplex routine with the reading byte function
   over n dummy bytes *)
Theorem eager_squeeze_L_indep f fr rate count n st1 st2 :
  snd (duplex_c_L bf_sq f fr rate (st1, count) (zeros n)) =
  snd (duplex_c_L bf_sq f fr rate (st2, count) (zeros n)).
Proof. now rewrite !duplex_c_L_eq. Qed.

(* ======================================================================== *)
(* 3. check_tag and the one-shot AEAD                                       *)
(* ======================================================================== *)
Lemma tag_loop_L_eq t1 : forall t2 i acc,
  tag_loop_L t1 t2 i acc =
  (fold_left N.lor (xorl t1 t2) acc, tr_tag_loop (Nat.min (length t1) (length t2)) i).
Proof.
  induction t1 as [|x a IH]; intros t2 i acc; [reflexivity|].
  destruct t2 as [|y b]; [reflexivity|].
  cbn [tag_loop_L xorl fold_left length Nat.min tr_tag_loop]. now rewrite IH.
Qed.

Lemma pt_loop_L_eq mask p : forall i,
  pt_loop_L mask p i = (map (fun b => Z.to_N (Z.land (Z.of_N b) mask)) p, tr_pt_loop (length p) i).
Proof.
  induction p as [|b p IH]; intros i; [reflexivity|].
  cbn [pt_loop_L map length tr_pt_loop]. now rewrite IH.
Qed.

Theorem check_tag_L_eq plaintext t1 t2 :
  check_tag_L plaintext t1 t2 =
  (check_tag plaintext t1 t2, tr_check_tag (length plaintext) (Nat.min (length t1) (length t2))).
Proof. unfold check_tag_L, check_tag, tr_check_tag, tag_accum. now rewrite tag_loop_L_eq, pt_loop_L_eq. Qed.

Lemma get_at_length s off n : off + n <= length s -> length (get_at s off n) = n.
Proof. intros H. unfold get_at. rewrite firstn_length, skipn_length. lia. Qed.

(* the state keeps its length through the duplex routine and every input byte
   gives an output byte *)
Section DuplexLen.
Variable bf : bytefn.
Variable f : bytes -> bytes.
Variable rate : nat.
Hypothesis f_len : forall s, length s = 40 -> length (f s) = 40.
Hypothesis rate_pos : 0 < rate.
Hypothesis rate_le : rate <= 40.

Lemma duplex_c_len st pos d : pos < rate -> length st = 40 ->
  length (fst (fst (duplex_c bf f rate (st, pos) d))) = 40 /\
  length (snd (duplex_c bf f rate (st, pos) d)) = length d /\
  snd (fst (duplex_c bf f rate (st, pos) d)) < rate.
Proof.
  intros Hp Hl. rewrite (duplex_c_serial bf f rate 40 f_len rate_pos rate_le) by assumption.
  pose proof (serial_inv bf f rate 40 f_len rate_pos rate_le st pos d Hp Hl) as [I1 [I2 [I3 _]]]. auto.
Qed.
End DuplexLen.

Section AeadLP.
Variable perm : nat -> bytes -> bytes.

Lemma aead_absorb_c_L_eq v s A :
  aead_absorb_c_L perm v s A = (aead_absorb_c perm v s A, tr_aead_absorb v (length A)).
Proof.
  unfold aead_absorb_c_L, aead_absorb_c, tr_aead_absorb. rewrite aligned_c_L_eq.
  pose proof (aligned_c_pos bf_enc (perm (v_pb v)) (v_rate v) s A) as P.
  destruct (aligned_c bf_enc (perm (v_pb v)) (v_rate v) s A) as [[s1 len] o]. cbn [fst snd] in P.
  rewrite P. reflexivity.
Qed.

Lemma start_c_L_eq v K N A :
  start_c_L perm v K N A = (start_c perm v K N A, tr_start v (length K) (length N) (length A)).
Proof.
  unfold start_c_L, start_c, tr_start. destruct A as [|a A']; [reflexivity|].
  rewrite aead_absorb_c_L_eq. reflexivity.
Qed.

Lemma finalize_c_L_eq v s posn K :
  finalize_c_L perm v s posn K = (finalize_c perm v s posn K, tr_finalize v posn (length K)).
Proof. reflexivity. Qed.

Theorem encrypt_c_L_eq v K N A P :
  encrypt_c_L perm v K N A P =
  (encrypt_c perm v K N A P, tr_encrypt v (length K) (length N) (length A) (length P)).
Proof.
  unfold encrypt_c_L, encrypt_c, tr_encrypt. rewrite start_c_L_eq. cbv beta iota.
  rewrite duplex_c_L_eq.
  pose proof (duplex_c_pos bf_enc (perm (v_pb v)) (v_rate v) (start_c perm v K N A) 0 P) as Q.
  destruct (duplex_c bf_enc (perm (v_pb v)) (v_rate v) (start_c perm v K N A, 0) P) as [[s1 partial] c].
  cbn [fst snd] in Q. rewrite Q, finalize_c_L_eq. reflexivity.
Qed.

(* secrets: K and P; public: the variant, the lengths (and N, A, which may as
   well differ as long as their lengths agree) *)
Theorem encrypt_c_L_indep v K1 K2 N1 N2 A1 A2 P1 P2 :
  length K1 = length K2 -> length N1 = length N2 -> length A1 = length A2 -> length P1 = length P2 ->
  snd (encrypt_c_L perm v K1 N1 A1 P1) = snd (encrypt_c_L perm v K2 N2 A2 P2).
Proof. intros HK HN HA HP. now rewrite !encrypt_c_L_eq, HK, HN, HA, HP. Qed.

Hypothesis perm_len : forall r s, length s = 40 -> length (perm r s) = 40.
Variable v : aead_variant.
Hypothesis Hv : wf_variant v.

Lemma finalize_c_len s posn K : length s = 40 -> length (finalize_c perm v s posn K) = 16.
Proof.
  intros Hl. unfold finalize_c. apply get_at_length.
  rewrite xor_at_len, perm_len; [lia|]. now rewrite !xor_at_len.
Qed.

Theorem decrypt_c_L_eq K N A C : wf_kn v K N ->
  decrypt_c_L perm v K N A C =
  (decrypt_c perm v K N A C, tr_decrypt v (length K) (length N) (length A) (length C)).
Proof.
  intros Hkn. unfold decrypt_c_L, decrypt_c, tr_decrypt.
  destruct (Nat.ltb_spec (length C) 16) as [Hs|Hs]; [reflexivity|].
  rewrite start_c_L_eq. cbv beta iota zeta. rewrite duplex_c_L_eq.
  destruct Hv as [_ [Hr0 [Hr40 _]]].
  assert (FL : forall s, length s = 40 -> length (perm (v_pb v) s) = 40) by (intros; now apply perm_len).
  pose proof (duplex_c_pos bf_dec (perm (v_pb v)) (v_rate v) (start_c perm v K N A) 0 (firstn (length C - 16) C)) as Q.
  pose proof (duplex_c_len bf_dec (perm (v_pb v)) (v_rate v) FL Hr0 Hr40 (start_c perm v K N A) 0
                (firstn (length C - 16) C) Hr0 (start_c_len perm perm_len v Hv K N A Hkn)) as [L1 [L2 _]].
  destruct (duplex_c bf_dec (perm (v_pb v)) (v_rate v) (start_c perm v K N A, 0) (firstn (length C - 16) C))
    as [[s1 partial] m].
  cbn [fst snd] in Q, L1, L2. rewrite firstn_length in Q, L2.
  replace (Nat.min (length C - 16) (length C)) with (length C - 16) in Q, L2 by lia.
  rewrite finalize_c_L_eq, check_tag_L_eq, firstn_length.
  replace (Nat.min (length C - 16) (length C)) with (length C - 16) by lia.
  rewrite (finalize_c_len s1 partial K L1), skipn_length, L2, <- Q.
  replace (Nat.min 16 (length C - (length C - 16))) with 16 by lia.
  destruct (check_tag m (finalize_c perm v s1 partial K) (skipn (length C - 16) C)) as [r m']. reflexivity.
Qed.

(* secrets: K and everything computed from it (the plaintext, the tag, the
   accept/reject result); public: lengths (N, A, C may differ in content) *)
Theorem decrypt_c_L_indep K1 K2 N1 N2 A1 A2 C1 C2 : wf_kn v K1 N1 -> wf_kn v K2 N2 ->
  length A1 = length A2 -> length C1 = length C2 ->
  snd (decrypt_c_L perm v K1 N1 A1 C1) = snd (decrypt_c_L perm v K2 N2 A2 C2).
Proof.
  intros H1 H2 HA HC. rewrite !decrypt_c_L_eq by assumption.
  destruct H1 as [K1l N1l], H2 as [K2l N2l]. cbn [snd]. now rewrite K1l, K2l, N1l, N2l, HA, HC.
Qed.

End AeadLP.

(* ======================================================================== *)
(* 4. the XOF / PRF object                                                  *)
(* ======================================================================== *)
Section XofLP.
Variable perm : nat -> bytes -> bytes.

Lemma xof_absorb_L_eq v s d :
  xof_absorb_L perm v s d = (xof_absorb perm v s d, tr_xof_absorb v (pub_xof s) (length d)).
Proof.
  unfold xof_absorb_L, xof_absorb, tr_xof_absorb, pub_xof. cbn [fst snd].
  destruct (x_mode s); rewrite duplex_c_L_eq.
  - destruct (duplex_c bf_enc (perm (xv_pb v)) (xv_rate_in v) (perm 0 (x_st s), 0) d) as [[st' c'] o]. reflexivity.
  - destruct (duplex_c bf_enc (perm (xv_pb v)) (xv_rate_in v) (x_st s, x_count s) d) as [[st' c'] o]. reflexivity.
Qed.

Lemma xof_absorb_pub v s d :
  pub_xof (xof_absorb perm v s d) = pub_absorb v (pub_xof s) (length d).
Proof.
  unfold xof_absorb, pub_absorb, pub_xof. cbn [fst snd].
  destruct (x_mode s).
  - pose proof (duplex_c_pos bf_enc (perm (xv_pb v)) (xv_rate_in v) (perm 0 (x_st s)) 0 d) as P.
    destruct (duplex_c bf_enc (perm (xv_pb v)) (xv_rate_in v) (perm 0 (x_st s), 0) d) as [[st' c'] o].
    cbn [fst snd x_count x_mode] in *. now rewrite P.
  - pose proof (duplex_c_pos bf_enc (perm (xv_pb v)) (xv_rate_in v) (x_st s) (x_count s) d) as P.
    destruct (duplex_c bf_enc (perm (xv_pb v)) (xv_rate_in v) (x_st s, x_count s) d) as [[st' c'] o].
    cbn [fst snd x_count x_mode] in *. now rewrite P.
Qed.

Lemma xof_enter_squeeze_L_eq v s :
  xof_enter_squeeze_L perm v s = (xof_enter_squeeze perm v s, tr_enter_squeeze v (pub_xof s)).
Proof.
  unfold xof_enter_squeeze_L, xof_enter_squeeze, tr_enter_squeeze, pub_xof. cbn [fst snd].
  destruct (x_mode s); [reflexivity|]. destruct (xv_lazy v); reflexivity.
Qed.

Lemma xof_enter_squeeze_pos v s :
  snd (xof_enter_squeeze perm v s) = if x_mode s then x_count s else 0.
Proof. unfold xof_enter_squeeze. destruct (x_mode s); [reflexivity|]. destruct (xv_lazy v); reflexivity. Qed.

Lemma xof_squeeze_L_eq v s n :
  xof_squeeze_L perm v s n = (xof_squeeze perm v s n, tr_xof_squeeze v (pub_xof s) n).
Proof.
  unfold xof_squeeze_L, xof_squeeze, tr_xof_squeeze. rewrite xof_enter_squeeze_L_eq. cbv beta iota zeta.
  pose proof (xof_enter_squeeze_pos v s) as P.
  replace (if snd (pub_xof s) then fst (pub_xof s) else 0) with (if x_mode s then x_count s else 0) by reflexivity.
  destruct (xof_enter_squeeze perm v s) as [st c]. cbn [snd] in P. rewrite <- P.
  destruct (xv_lazy v).
  - rewrite lazy_squeeze_c_L_eq.
    destruct (lazy_squeeze_c (perm 0) (xv_rate_out v) (st, c) n) as [[st' c'] o]. reflexivity.
  - rewrite duplex_c_L_eq. unfold zeros at 2. rewrite repeat_length.
    destruct (duplex_c bf_sq (perm (xv_pb v)) (xv_rate_out v) (st, c) (zeros n)) as [[st' c'] o]. reflexivity.
Qed.

Lemma xof_squeeze_pub v s n :
  pub_xof (fst (xof_squeeze perm v s n)) = pub_squeeze v (pub_xof s) n.
Proof.
  unfold xof_squeeze, pub_squeeze. cbv zeta.
  pose proof (xof_enter_squeeze_pos v s) as P.
  replace (if snd (pub_xof s) then fst (pub_xof s) else 0) with (if x_mode s then x_count s else 0) by reflexivity.
  destruct (xof_enter_squeeze perm v s) as [st c]. cbn [snd] in P. rewrite <- P.
  destruct (xv_lazy v).
  - pose proof (lazy_squeeze_c_pos (perm 0) (xv_rate_out v) st c n) as Q.
    destruct (lazy_squeeze_c (perm 0) (xv_rate_out v) (st, c) n) as [[st' c'] o].
    cbn [fst snd] in *. unfold pub_xof. cbn [x_count x_mode]. now rewrite Q.
  - pose proof (duplex_c_pos bf_sq (perm (xv_pb v)) (xv_rate_out v) st c (zeros n)) as Q.
    unfold zeros at 2 in Q. rewrite repeat_length in Q.
    destruct (duplex_c bf_sq (perm (xv_pb v)) (xv_rate_out v) (st, c) (zeros n)) as [[st' c'] o].
    cbn [fst snd] in *. unfold pub_xof. cbn [x_count x_mode]. now rewrite Q.
Qed.

Lemma xof_pad_L_eq v s : xof_pad_L perm v s = (xof_pad perm v s, tr_xof_pad v (pub_xof s)).
Proof.
  unfold xof_pad_L, xof_pad, tr_xof_pad.
  change (snd (pub_xof s)) with (x_mode s). change (fst (pub_xof s)) with (x_count s).
  destruct (x_mode s); [now rewrite xof_absorb_L_eq|].
  destruct (x_count s =? 0); reflexivity.
Qed.

Lemma xof_pad_pub v s : pub_xof (xof_pad perm v s) = pub_pad v (pub_xof s).
Proof.
  unfold xof_pad, pub_pad.
  change (snd (pub_xof s)) with (x_mode s). change (fst (pub_xof s)) with (x_count s).
  destruct (x_mode s) eqn:M; [apply (xof_absorb_pub v s [])|].
  destruct (x_count s =? 0); reflexivity.
Qed.

Lemma pub_pad_aligned v p : pub_pad v p = (0, false).
Proof.
  destruct p as [c m]. unfold pub_pad. cbn [fst snd]. destruct m; [reflexivity|].
  destruct (Nat.eqb_spec c 0) as [->|_]; reflexivity.
Qed.

Lemma xof_absorb_custom_L_eq v s custom :
  xof_absorb_custom_L perm v s custom =
  (xof_absorb_custom perm v s custom, tr_absorb_custom v (pub_xof s) (length custom)).
Proof.
  unfold xof_absorb_custom_L, xof_absorb_custom, tr_absorb_custom.
  destruct custom as [|c cs]; [reflexivity|]. rewrite xof_absorb_L_eq. cbv beta iota.
  pose proof (xof_absorb_pub v s (c :: cs)) as P. unfold pub_xof at 1 in P.
  rewrite <- P. reflexivity.
Qed.

Lemma xof_absorb_mode v s d : x_mode (xof_absorb perm v s d) = false.
Proof. pose proof (xof_absorb_pub v s d) as P. apply (f_equal snd) in P. exact P. Qed.

Lemma xof_absorb_custom_pub v s custom :
  pub_xof (xof_absorb_custom perm v s custom) =
  match custom with [] => pub_xof s | _ => (0, false) end.
Proof.
  unfold xof_absorb_custom. destruct custom as [|c cs]; [reflexivity|].
  unfold pub_xof. cbn [x_count x_mode]. now rewrite xof_absorb_mode.
Qed.

Lemma xof_init_fixed_pub v L : pub_xof (xof_init_fixed perm v L) = (0, false).
Proof. unfold xof_init_fixed. destruct (_ =? 0)%N; reflexivity. Qed.

Lemma xof_init_custom_L_eq v name custom outlen :
  xof_init_custom_L perm v name custom outlen =
  (xof_init_custom perm v name custom outlen,
   tr_init_custom v (length (match name with Some n => n | None => [] end)) (length custom) outlen).
Proof.
  unfold xof_init_custom_L, xof_init_custom, tr_init_custom.
  set (nm := match name with Some n => n | None => [] end).
  destruct (length nm =? 0).
  - rewrite xof_absorb_custom_L_eq. reflexivity.
  - destruct (length nm <=? 32).
    + rewrite xof_absorb_custom_L_eq. reflexivity.
    + unfold xof_init_fixed_L. rewrite xof_absorb_L_eq. cbv beta iota. rewrite xof_squeeze_L_eq.
      rewrite xof_absorb_pub, xof_init_fixed_pub.
      destruct (xof_squeeze perm v (xof_absorb perm v (xof_init_fixed perm v 32) nm) 32) as [h2 out].
      cbn [snd]. rewrite xof_absorb_custom_L_eq. unfold pub_xof, mk. cbn [x_count x_mode].
      reflexivity.
Qed.

Lemma xof_init_custom_pub v name custom outlen :
  pub_xof (xof_init_custom perm v name custom outlen) = pub_absorb_custom (0, false) (length custom).
Proof.
  unfold xof_init_custom. rewrite xof_absorb_custom_pub. destruct custom; reflexivity.
Qed.

Lemma absorb_list_L_eq v cs : forall h,
  absorb_list_L perm v h cs =
  (fold_left (xof_absorb perm v) cs h, tr_absorb_list v (pub_xof h) (map (@length N) cs)).
Proof.
  induction cs as [|c cs IH]; intros h; [reflexivity|].
  cbn [absorb_list_L fold_left map tr_absorb_list]. rewrite xof_absorb_L_eq, IH, xof_absorb_pub. reflexivity.
Qed.

Lemma absorb_list_pub v cs : forall h,
  pub_xof (fold_left (xof_absorb perm v) cs h) = pub_absorb_list v (pub_xof h) (map (@length N) cs).
Proof.
  induction cs as [|c cs IH]; intros h; [reflexivity|].
  cbn [fold_left map]. unfold pub_absorb_list. cbn [fold_left]. rewrite IH, xof_absorb_pub. reflexivity.
Qed.

(* (c) for the object-level calls: the state bytes and the data are secret,
   count / mode and the length are public *)
Theorem xof_absorb_L_indep v s1 s2 d1 d2 : pub_xof s1 = pub_xof s2 -> length d1 = length d2 ->
  snd (xof_absorb_L perm v s1 d1) = snd (xof_absorb_L perm v s2 d2) /\
  pub_xof (xof_absorb perm v s1 d1) = pub_xof (xof_absorb perm v s2 d2).
Proof. intros Hp Hd. now rewrite !xof_absorb_L_eq, !xof_absorb_pub, Hp, Hd. Qed.

Theorem xof_squeeze_L_indep v s1 s2 n : pub_xof s1 = pub_xof s2 ->
  snd (xof_squeeze_L perm v s1 n) = snd (xof_squeeze_L perm v s2 n) /\
  pub_xof (fst (xof_squeeze perm v s1 n)) = pub_xof (fst (xof_squeeze perm v s2 n)).
Proof. intros Hp. now rewrite !xof_squeeze_L_eq, !xof_squeeze_pub, Hp. Qed.

Theorem xof_pad_L_indep v s1 s2 : pub_xof s1 = pub_xof s2 ->
  snd (xof_pad_L perm v s1) = snd (xof_pad_L perm v s2) /\
  pub_xof (xof_pad perm v s1) = pub_xof (xof_pad perm v s2).
Proof. intros Hp. now rewrite !xof_pad_L_eq, !xof_pad_pub, Hp. Qed.

Theorem xof_init_custom_L_indep v name c1 c2 outlen : length c1 = length c2 ->
  snd (xof_init_custom_L perm v name c1 outlen) = snd (xof_init_custom_L perm v name c2 outlen) /\
  pub_xof (xof_init_custom perm v name c1 outlen) = pub_xof (xof_init_custom perm v name c2 outlen).
Proof. intros Hc. now rewrite !xof_init_custom_L_eq, !xof_init_custom_pub, Hc. Qed.

(* ---- PRF one-shot ---------------------------------------------------------- *)
Lemma prf_init_pub K L : pub_xof (prf_init perm K L) = (0, false).
Proof. reflexivity. Qed.

Theorem prf_oneshot_L_eq K L msg n :
  prf_oneshot_L perm K L msg n =
  (prf_oneshot perm K L msg n, tr_prf_oneshot (length K) L (length msg) n).
Proof.
  unfold prf_oneshot_L, prf_oneshot, prf_squeeze, prf_absorb, tr_prf_oneshot, prf_init_L.
  rewrite xof_absorb_L_eq. cbv beta iota. rewrite xof_squeeze_L_eq, xof_absorb_pub, prf_init_pub.
  destruct (xof_squeeze perm vprf (xof_absorb perm vprf (prf_init perm K L) msg) n) as [h2 out].
  reflexivity.
Qed.

Theorem prf_oneshot_L_indep K1 K2 L m1 m2 n : length K1 = length K2 -> length m1 = length m2 ->
  snd (prf_oneshot_L perm K1 L m1 n) = snd (prf_oneshot_L perm K2 L m2 n).
Proof. intros HK Hm. now rewrite !prf_oneshot_L_eq, HK, Hm. Qed.

End XofLP.

(* ---- invariants of the object: needed wherever a squeezed value is fed
   back in, because its length must be known --------------------------------- *)
Section XofInv.
Variable perm : nat -> bytes -> bytes.
Hypothesis perm_len : forall r s, length s = 40 -> length (perm r s) = 40.
Variable v : xof_variant.
Hypothesis Hv : xvariant_ok v.

Lemma xof_absorb_wf_any s d : xwf v s ->
  xwf v (xof_absorb perm v s d) /\ x_mode (xof_absorb perm v s d) = false.
Proof.
  intros Hw. destruct (x_mode s) eqn:M.
  - assert (E : xof_absorb perm v s d =
                xof_absorb perm v {| x_st := perm 0 (x_st s); x_count := 0; x_mode := false |} d).
    { unfold xof_absorb. rewrite M. reflexivity. }
    rewrite E. apply (xof_absorb_wf perm perm_len v Hv); [reflexivity|].
    destruct Hw as [Hl _]. split; cbn [x_st x_count x_mode]; [now apply perm_len|apply (ri0 v Hv)].
  - now apply (xof_absorb_wf perm perm_len v Hv).
Qed.

Lemma xof_squeeze_wf s n : xwf v s ->
  xwf v (fst (xof_squeeze perm v s n)) /\ length (snd (xof_squeeze perm v s n)) = n.
Proof.
  intros Hw. rewrite (xof_squeeze_serial perm perm_len v Hv s n Hw). cbv zeta.
  pose proof (enter_wf perm perm_len v Hv s Hw) as [E1 E2].
  pose proof (sq_serial_inv perm perm_len v Hv (xof_enter_squeeze perm v s) n E1 E2) as [I1 I2].
  destruct (xof_enter_squeeze perm v s) as [st c]. cbn [fst snd] in *.
  split; [split; cbn [x_st x_count x_mode]; assumption|].
  unfold sq_serial. destruct (xv_lazy v).
  - pose proof (lazy_serial_sim (perm 0) (xv_rate_out v) 40 (p0_len perm perm_len) (ro0 v Hv) (ro40 v Hv)
                  n st c E1 E2) as [_ S]. rewrite S. unfold alpha. cbn [fst snd].
    assert (L : length (if c =? 0 then perm 0 st else st) = 40) by (destruct (c =? 0); auto).
    pose proof (serial_inv bf_sq (perm 0) (xv_rate_out v) 40 (p0_len perm perm_len) (ro0 v Hv) (ro40 v Hv)
                  _ c (zeros n) E1 L) as [_ [_ [I3 _]]].
    rewrite I3. apply zeros_length.
  - pose proof (serial_inv bf_sq (perm (xv_pb v)) (xv_rate_out v) 40 (pb_len perm perm_len v) (ro0 v Hv) (ro40 v Hv)
                  st c (zeros n) E1 E2) as [_ [_ [I3 _]]].
    rewrite I3. apply zeros_length.
Qed.

Lemma absorb_list_wf cs : forall h, xwf v h -> xwf v (fold_left (xof_absorb perm v) cs h).
Proof.
  induction cs as [|c cs IH]; intros h Hw; [exact Hw|].
  cbn [fold_left]. apply IH. now apply xof_absorb_wf_any.
Qed.

Lemma mk_wf S0 : length S0 = 40 -> xwf v (mk S0).
Proof. intros H. split; [exact H|apply (ri0 v Hv)]. Qed.

Lemma xof_init_fixed_wf L : xwf v (xof_init_fixed perm v L).
Proof.
  unfold xof_init_fixed. destruct (_ =? 0)%N; apply mk_wf.
  - apply (iv_state_len perm perm_len).
  - apply perm_len. now rewrite set_at_len, zeros_length.
Qed.

Lemma xof_absorb_custom_wf s custom : xwf v s -> xwf v (xof_absorb_custom perm v s custom).
Proof.
  intros Hw. unfold xof_absorb_custom. destruct custom as [|c cs]; [exact Hw|].
  pose proof (xof_absorb_wf_any s (c :: cs) Hw) as [[Hl _] Hm].
  split; cbn [x_st x_count x_mode].
  - rewrite xor_at_len. apply perm_len. now rewrite xor_at_len.
  - rewrite Hm. apply (ri0 v Hv).
Qed.

Lemma xof_init_custom_wf name custom outlen : xwf v (xof_init_custom perm v name custom outlen).
Proof.
  unfold xof_init_custom. apply xof_absorb_custom_wf, mk_wf, perm_len.
  now rewrite !set_at_len, zeros_length.
Qed.

End XofInv.

Section MacLP.
Variable perm : nat -> bytes -> bytes.
Hypothesis perm_len : forall r s, length s = 40 -> length (perm r s) = 40.

Lemma prf_init_wf K L : xwf vprf (prf_init perm K L).
Proof.
  unfold prf_init. apply (mk_wf vprf prf_xv), perm_len. now rewrite !set_at_len, zeros_length.
Qed.

Lemma mac_c_len K msg : length (mac_c perm K msg) = 16.
Proof.
  unfold mac_c, prf_oneshot, prf_squeeze, prf_absorb.
  apply (xof_squeeze_wf perm perm_len vprf prf_xv).
  apply (xof_absorb_wf_any perm perm_len vprf prf_xv), prf_init_wf.
Qed.

(* The trace does not mention the outcome of the comparison: it is the same
   whether the tag is accepted or rejected. *)
Theorem mac_verify_c_L_eq tag K msg :
  mac_verify_c_L perm tag K msg =
  (mac_verify_c perm tag K msg, tr_mac_verify (length tag) (length K) (length msg)).
Proof.
  unfold mac_verify_c_L, mac_verify_c, mac_c_L, tr_mac_verify. rewrite prf_oneshot_L_eq. cbv beta iota.
  fold (mac_c perm K msg). rewrite check_tag_L_eq, mac_c_len.
  destruct (check_tag [] tag (mac_c perm K msg)) as [r m]. reflexivity.
Qed.

Theorem mac_verify_c_L_indep tag1 tag2 K1 K2 m1 m2 :
  length tag1 = length tag2 -> length K1 = length K2 -> length m1 = length m2 ->
  snd (mac_verify_c_L perm tag1 K1 m1) = snd (mac_verify_c_L perm tag2 K2 m2).
Proof. intros Ht HK Hm. now rewrite !mac_verify_c_L_eq, Ht, HK, Hm. Qed.

End MacLP.

(* ======================================================================== *)
(* 5. HMAC                                                                  *)
(* ======================================================================== *)
Lemma chunk_lens_spec fuel n : forall l : bytes,
  map (@length N) (chunks_fuel fuel n l) = chunk_lens fuel n (length l).
Proof.
  induction fuel as [|k IH]; intros l; [reflexivity|].
  destruct l as [|x l]; [reflexivity|].
  cbn [chunks_fuel chunk_lens map]. rewrite IH, firstn_length, skipn_length. reflexivity.
Qed.

Lemma chunks_lens n (l : bytes) : map (@length N) (chunks n l) = chunk_lens (length l) n (length l).
Proof. apply chunk_lens_spec. Qed.

Lemma concat_length_sum (pcs : list bytes) : length (concat pcs) = list_sum (map (@length N) pcs).
Proof.
  induction pcs as [|pc rest IH]; [reflexivity|]. cbn [concat map list_sum]. now rewrite app_length, IH.
Qed.

Lemma app_pad_length xp pc : length (app_pad xp pc) = length pc.
Proof. destruct xp; [apply xor_pad_length|reflexivity]. Qed.

Section HmacLP.
Variable perm : nat -> bytes -> bytes.

Lemma hmac_pieces_L_eq v site xp pcs : forall h,
  hmac_pieces_L perm v site xp h pcs =
  (fold_left (fun h pc => xof_absorb perm v h (app_pad xp pc)) pcs h,
   tr_pieces v site (match xp with Some _ => true | None => false end) (pub_xof h) (map (@length N) pcs)).
Proof.
  induction pcs as [|pc rest IH]; intros h; [reflexivity|].
  cbn [hmac_pieces_L fold_left tr_pieces]. rewrite xof_absorb_L_eq, IH, xof_absorb_pub, app_pad_length.
  rewrite concat_length_sum. destruct xp; reflexivity.
Qed.

Lemma hmac_pieces_pub v xp pcs : forall h,
  pub_xof (fold_left (fun h pc => xof_absorb perm v h (app_pad xp pc)) pcs h) =
  pub_absorb_list v (pub_xof h) (map (@length N) pcs).
Proof.
  induction pcs as [|pc rest IH]; intros h; [reflexivity|].
  cbn [fold_left map]. unfold pub_absorb_list. cbn [fold_left].
  rewrite IH, xof_absorb_pub, app_pad_length. reflexivity.
Qed.

Hypothesis perm_len : forall r s, length s = 40 -> length (perm r s) = 40.
Variable v : xof_variant.
Hypothesis Hx : v = vxof \/ v = vxofa.

Let Hv : xvariant_ok v := Hv_of_Hx v Hx.

Lemma hmac_pieces_wf xp pcs : forall h, xwf v h ->
  xwf v (fold_left (fun h pc => xof_absorb perm v h (app_pad xp pc)) pcs h).
Proof.
  induction pcs as [|pc rest IH]; intros h Hw; [exact Hw|].
  cbn [fold_left]. apply IH. now apply (xof_absorb_wf_any perm perm_len v Hv).
Qed.

Lemma hash_init_wf : xwf v (hash_init perm v).
Proof. apply (xof_init_fixed_wf perm perm_len v Hv). Qed.
Lemma hash_init_pub : pub_xof (hash_init perm v) = (0, false).
Proof. apply xof_init_fixed_pub. Qed.

(* all three facts about absorbing the key at once *)
Lemma hmac_absorb_key_all h key pad : xwf v h ->
  hmac_absorb_key_L perm v h key pad =
    (hmac_absorb_key perm v h key pad, tr_hmac_key v (pub_xof h) (length key)) /\
  pub_xof (hmac_absorb_key perm v h key pad) = pub_hmac_key v (pub_xof h) (length key) /\
  xwf v (hmac_absorb_key perm v h key pad).
Proof.
  intros Hw. unfold hmac_absorb_key_L, hmac_absorb_key, tr_hmac_key, pub_hmac_key.
  destruct (length key <=? 64).
  - rewrite (hmac_pieces_L_eq v s_hk_loop1 (Some pad)). cbv beta iota.
    change (fun h0 pc => xof_absorb perm v h0 (app_pad (Some pad) pc))
      with (fun h0 pc => xof_absorb perm v h0 (xor_pad pad pc)).
    set (h1 := fold_left (fun h0 pc => xof_absorb perm v h0 (xor_pad pad pc)) (chunks 32 key) h).
    assert (P1 : pub_xof h1 = pub_absorb_list v (pub_xof h) (chunk_lens (length key) 32 (length key))).
    { unfold h1. rewrite <- chunks_lens. apply (hmac_pieces_pub v (Some pad)). }
    assert (W1 : xwf v h1) by (apply (hmac_pieces_wf (Some pad)); exact Hw).
    rewrite (hmac_pieces_L_eq v s_hk_loop2 None), !chunks_lens, repeat_length, P1.
    change (fun h0 pc => xof_absorb perm v h0 (app_pad None pc)) with (fun h0 pc => xof_absorb perm v h0 pc).
    split; [|split].
    + reflexivity.
    + pose proof (hmac_pieces_pub v None (chunks 32 (repeat pad (64 - length key))) h1) as P2.
      rewrite chunks_lens, repeat_length, P1 in P2. exact P2.
    + apply (hmac_pieces_wf None). exact W1.
  - rewrite xof_absorb_L_eq. cbv beta iota. rewrite xof_squeeze_L_eq, xof_absorb_pub.
    pose proof (xof_absorb_wf_any perm perm_len v Hv h key Hw) as [W1 _].
    pose proof (xof_squeeze_wf perm perm_len v Hv (xof_absorb perm v h key) 32 W1) as [_ L].
    destruct (xof_squeeze perm v (xof_absorb perm v h key) 32) as [hx temp]. cbn [snd] in L.
    unfold hash_init_L. cbv beta iota. rewrite xof_absorb_L_eq, xor_pad_length, L, hash_init_pub.
    set (h4 := xof_absorb perm v (hash_init perm v) (xor_pad pad temp)).
    assert (P4 : pub_xof h4 = pub_absorb v (0, false) 32).
    { unfold h4. now rewrite xof_absorb_pub, xor_pad_length, L, hash_init_pub. }
    assert (W4 : xwf v h4) by (apply (xof_absorb_wf_any perm perm_len v Hv); apply hash_init_wf).
    rewrite (hmac_pieces_L_eq v s_hk_loop2 None), chunks_lens, repeat_length, P4.
    change (fun h0 pc => xof_absorb perm v h0 (app_pad None pc)) with (fun h0 pc => xof_absorb perm v h0 pc).
    split; [|split].
    + reflexivity.
    + pose proof (hmac_pieces_pub v None (chunks 32 (repeat pad (64 - 32))) h4) as P2.
      rewrite chunks_lens, repeat_length, P4 in P2. exact P2.
    + apply (hmac_pieces_wf None). exact W4.
Qed.

Theorem hmac_init_L_eq key :
  hmac_init_L perm v key = (hmac_init perm v key, tr_hmac_init v (length key)).
Proof.
  unfold hmac_init_L, hmac_init, tr_hmac_init, hash_init_L. cbv beta iota.
  destruct (hmac_absorb_key_all (hash_init perm v) key 0x36%N hash_init_wf) as [E _].
  rewrite E, hash_init_pub. reflexivity.
Qed.
Lemma hmac_init_pub key : pub_xof (hmac_init perm v key) = pub_hmac_init v (length key).
Proof.
  unfold hmac_init, pub_hmac_init.
  destruct (hmac_absorb_key_all (hash_init perm v) key 0x36%N hash_init_wf) as [_ [P _]].
  now rewrite P, hash_init_pub.
Qed.
Lemma hmac_init_wf key : xwf v (hmac_init perm v key).
Proof. unfold hmac_init. apply hmac_absorb_key_all, hash_init_wf. Qed.

Lemma hmac_update_L_eq h d :
  hmac_update_L perm v h d = (hmac_update perm v h d, tr_xof_absorb v (pub_xof h) (length d)).
Proof. apply xof_absorb_L_eq. Qed.
Lemma hmac_update_pub h d : pub_xof (hmac_update perm v h d) = pub_absorb v (pub_xof h) (length d).
Proof. apply xof_absorb_pub. Qed.
Lemma hmac_update_wf h d : xwf v h -> xwf v (hmac_update perm v h d).
Proof. intros Hw. now apply (xof_absorb_wf_any perm perm_len v Hv). Qed.

Theorem hmac_finalize_L_eq h key : xwf v h ->
  hmac_finalize_L perm v h key =
  (hmac_finalize perm v h key, tr_hmac_finalize v (pub_xof h) (length key)).
Proof.
  intros Hw. unfold hmac_finalize_L, hmac_finalize, tr_hmac_finalize.
  rewrite xof_squeeze_L_eq.
  pose proof (xof_squeeze_wf perm perm_len v Hv h 32 Hw) as [_ L].
  destruct (xof_squeeze perm v h 32) as [hx temp]. cbn [snd] in L.
  unfold hash_init_L. cbv beta iota.
  destruct (hmac_absorb_key_all (hash_init perm v) key 0x5c%N hash_init_wf) as [E [P W]].
  rewrite E. cbv beta iota. rewrite xof_absorb_L_eq, xof_squeeze_L_eq, xof_absorb_pub, P, L, hash_init_pub.
  destruct (xof_squeeze perm v (xof_absorb perm v (hmac_absorb_key perm v (hash_init perm v) key 0x5c%N) temp) 32)
    as [h5 out].
  reflexivity.
Qed.

Lemma hmac_finalize_len h key : xwf v h -> length (snd (hmac_finalize perm v h key)) = 32.
Proof.
  intros Hw. unfold hmac_finalize.
  destruct (xof_squeeze perm v h 32) as [hx temp].
  apply (xof_squeeze_wf perm perm_len v Hv). apply (xof_absorb_wf_any perm perm_len v Hv).
  apply hmac_absorb_key_all, hash_init_wf.
Qed.

Lemma absorb_list_wf' cs h : xwf v h -> xwf v (fold_left (hmac_update perm v) cs h).
Proof. apply (absorb_list_wf perm perm_len v Hv). Qed.

Theorem hmac_run_L_eq key cs :
  hmac_run_L perm v key cs = (hmac_run perm v key cs, tr_hmac_run v (length key) (map (@length N) cs)).
Proof.
  unfold hmac_run_L, hmac_run, tr_hmac_run. rewrite hmac_init_L_eq. cbv beta iota.
  rewrite absorb_list_L_eq. cbv beta iota.
  change (fold_left (xof_absorb perm v) cs (hmac_init perm v key))
    with (fold_left (hmac_update perm v) cs (hmac_init perm v key)).
  rewrite hmac_finalize_L_eq by (apply absorb_list_wf', hmac_init_wf).
  unfold hmac_update at 2. rewrite absorb_list_pub, hmac_init_pub.
  destruct (hmac_finalize perm v (fold_left (hmac_update perm v) cs (hmac_init perm v key)) key) as [hx out].
  reflexivity.
Qed.

(* secrets: the key bytes and the message; public: their lengths *)
Theorem hmac_run_L_indep k1 k2 cs1 cs2 : length k1 = length k2 ->
  map (@length N) cs1 = map (@length N) cs2 ->
  snd (hmac_run_L perm v k1 cs1) = snd (hmac_run_L perm v k2 cs2).
Proof. intros Hk Hc. now rewrite !hmac_run_L_eq, Hk, Hc. Qed.

Theorem hmac_init_L_indep k1 k2 : length k1 = length k2 ->
  snd (hmac_init_L perm v k1) = snd (hmac_init_L perm v k2) /\
  pub_xof (hmac_init perm v k1) = pub_xof (hmac_init perm v k2).
Proof. intros Hk. now rewrite !hmac_init_L_eq, !hmac_init_pub, Hk. Qed.

Theorem hmac_finalize_L_indep h1 h2 k1 k2 : xwf v h1 -> xwf v h2 ->
  pub_xof h1 = pub_xof h2 -> length k1 = length k2 ->
  snd (hmac_finalize_L perm v h1 k1) = snd (hmac_finalize_L perm v h2 k2).
Proof. intros W1 W2 Hp Hk. now rewrite !hmac_finalize_L_eq, Hp, Hk by assumption. Qed.

End HmacLP.

(* ======================================================================== *)
(* 6. HKDF                                                                  *)
(* ======================================================================== *)
Section HkdfLP.
Variable perm : nat -> bytes -> bytes.
Hypothesis perm_len : forall r s, length s = 40 -> length (perm r s) = 40.
Variable v : xof_variant.
Hypothesis Hx : v = vxof \/ v = vxofa.

Lemma hkdf_block_L_eq s info :
  hkdf_block_L perm v s info =
  (hkdf_block perm v s info,
   tr_hkdf_block v (k_counter s) (length (k_prk s)) (length (k_out s)) (length info)).
Proof.
  unfold hkdf_block_L, hkdf_block, tr_hkdf_block.
  rewrite (hmac_init_L_eq perm perm_len v Hx). cbv beta iota.
  pose proof (hmac_init_wf perm perm_len v Hx (k_prk s)) as W0.
  pose proof (hmac_init_pub perm perm_len v Hx (k_prk s)) as P0.
  set (h0 := hmac_init perm v (k_prk s)) in *.
  destruct (k_counter s =? 1).
  - pose proof (hmac_update_wf perm perm_len v Hx h0 info W0) as W2.
    pose proof (hmac_update_pub perm v h0 info) as P2. rewrite P0 in P2.
    set (h2 := hmac_update perm v h0 info) in *.
    pose proof (hmac_update_wf perm perm_len v Hx h2 [N.of_nat (k_counter s)] W2) as W3.
    pose proof (hmac_update_pub perm v h2 [N.of_nat (k_counter s)]) as P3. rewrite P2 in P3.
    set (h3 := hmac_update perm v h2 [N.of_nat (k_counter s)]) in *.
    rewrite (hmac_update_L_eq perm v h0 info). cbv beta iota. fold h2.
    rewrite (hmac_update_L_eq perm v h2). cbv beta iota. fold h3.
    rewrite (hmac_finalize_L_eq perm perm_len v Hx h3 (k_prk s) W3), P0, P2, P3.
    destruct (hmac_finalize perm v h3 (k_prk s)) as [hx out]. reflexivity.
  - pose proof (hmac_update_wf perm perm_len v Hx h0 (k_out s) W0) as W1.
    pose proof (hmac_update_pub perm v h0 (k_out s)) as P1. rewrite P0 in P1.
    set (h1 := hmac_update perm v h0 (k_out s)) in *.
    pose proof (hmac_update_wf perm perm_len v Hx h1 info W1) as W2.
    pose proof (hmac_update_pub perm v h1 info) as P2. rewrite P1 in P2.
    set (h2 := hmac_update perm v h1 info) in *.
    pose proof (hmac_update_wf perm perm_len v Hx h2 [N.of_nat (k_counter s)] W2) as W3.
    pose proof (hmac_update_pub perm v h2 [N.of_nat (k_counter s)]) as P3. rewrite P2 in P3.
    set (h3 := hmac_update perm v h2 [N.of_nat (k_counter s)]) in *.
    rewrite (hmac_update_L_eq perm v h0 (k_out s)). cbv beta iota. fold h1.
    rewrite (hmac_update_L_eq perm v h1 info). cbv beta iota. fold h2.
    rewrite (hmac_update_L_eq perm v h2). cbv beta iota. fold h3.
    rewrite (hmac_finalize_L_eq perm perm_len v Hx h3 (k_prk s) W3), P0, P1, P2, P3.
    destruct (hmac_finalize perm v h3 (k_prk s)) as [hx out]. reflexivity.
Qed.

(* what the block leaves in the object: public *)
Lemma hkdf_block_pub s info :
  k_counter (hkdf_block perm v s info) = (k_counter s + 1) mod 256 /\
  k_posn (hkdf_block perm v s info) = k_posn s /\
  k_prk (hkdf_block perm v s info) = k_prk s /\
  length (k_out (hkdf_block perm v s info)) = 32.
Proof.
  unfold hkdf_block. cbn [k_counter k_posn k_prk k_out]. repeat split.
  apply (hmac_finalize_len perm perm_len v Hx).
  repeat apply (hmac_update_wf perm perm_len v Hx).
  destruct (k_counter s =? 1); [|apply (hmac_update_wf perm perm_len v Hx)];
    apply (hmac_init_wf perm perm_len v Hx).
Qed.

Lemma hkdf_loop_L_eq info fuel : forall s outlen,
  hkdf_loop_L perm fuel v s info outlen =
  (hkdf_loop perm fuel v s info outlen,
   tr_hkdf_loop fuel v (k_counter s) (length (k_prk s)) (length (k_out s)) (length info) outlen).
Proof.
  induction fuel as [|f IH]; intros s outlen; cbn [hkdf_loop_L hkdf_loop tr_hkdf_loop]; [reflexivity|].
  destruct (outlen =? 0); [reflexivity|].
  destruct (k_counter s =? 0); [reflexivity|].
  rewrite hkdf_block_L_eq. cbv beta iota zeta. rewrite IH. cbn [k_counter k_prk k_out].
  pose proof (hkdf_block_pub s info) as [Pc [_ [Pk Po]]]. rewrite Pc, Pk, Po.
  destruct (hkdf_loop perm f v _ info (outlen - Nat.min 32 outlen)) as [[s3 o] r]. reflexivity.
Qed.

Theorem hkdf_expand_c_L_eq s info outlen :
  hkdf_expand_c_L perm v s info outlen =
  (hkdf_expand_c perm v s info outlen, tr_hkdf_expand v (pub_hkdf s) (length info) outlen).
Proof.
  unfold hkdf_expand_c_L, hkdf_expand_c, tr_hkdf_expand, pub_hkdf. cbv zeta.
  rewrite hkdf_loop_L_eq. cbn [k_counter k_prk k_out].
  destruct (hkdf_loop perm (outlen - Nat.min (32 - k_posn s) outlen) v _ info
              (outlen - Nat.min (32 - k_posn s) outlen)) as [[s2 o2] r]. reflexivity.
Qed.

(* secrets: prk, the previous block in out, info (may be public); public:
   counter, posn, the two buffer lengths, |info|, outlen *)
Theorem hkdf_expand_c_L_indep s1 s2 i1 i2 outlen : pub_hkdf s1 = pub_hkdf s2 -> length i1 = length i2 ->
  snd (hkdf_expand_c_L perm v s1 i1 outlen) = snd (hkdf_expand_c_L perm v s2 i2 outlen).
Proof. intros Hp Hi. now rewrite !hkdf_expand_c_L_eq, Hp, Hi. Qed.

End HkdfLP.

(* ======================================================================== *)
(* 7. PBKDF2                                                                *)
(* ======================================================================== *)
Section PbLP.
Variable prfc : list bytes -> bytes.
Variable prfc_L : list bytes -> bytes * list ev.
Variable trp : list nat -> list ev.
(* the instrumented PRF computes the PRF, its trace is a function of the chunk
   lengths, its output has 32 bytes: discharged below for the library's PRF *)
Hypothesis prfc_L_eq : forall cs, prfc_L cs = (prfc cs, trp (map (@length N) cs)).
Hypothesis prfc_len : forall cs, length (prfc cs) = 32.

Lemma pb_loop_L_eq fuel : forall count T U, length U = 32 ->
  pb_loop_L prfc_L fuel count T U = (pb_loop prfc fuel count T U, tr_pb_loop trp fuel count).
Proof.
  induction fuel as [|f IH]; intros count T U HU; cbn [pb_loop_L pb_loop tr_pb_loop]; [reflexivity|].
  destruct (2 <? count); [|reflexivity].
  rewrite prfc_L_eq. cbn [map]. rewrite HU, IH by apply prfc_len. reflexivity.
Qed.

Lemma pb_f_c_L_eq salt count blocknum :
  pb_f_c_L prfc_L salt count blocknum = (pb_f_c prfc salt count blocknum, tr_pb_f trp (length salt) count).
Proof.
  unfold pb_f_c_L, pb_f_c, tr_pb_f. rewrite prfc_L_eq. cbn [map]. rewrite be_encode_length.
  destruct (1 <? count); [|reflexivity].
  rewrite prfc_L_eq. cbn [map]. rewrite prfc_len, pb_loop_L_eq by apply prfc_len.
  reflexivity.
Qed.

Lemma pb_out_L_eq fuel : forall salt count blocknum outlen,
  pb_out_L prfc_L fuel salt count blocknum outlen =
  (pb_out prfc fuel salt count blocknum outlen, tr_pb_out trp fuel (length salt) count outlen).
Proof.
  induction fuel as [|f IH]; intros salt count blocknum outlen; cbn [pb_out_L pb_out tr_pb_out]; [reflexivity|].
  destruct (outlen =? 0); [reflexivity|].
  destruct (32 <=? outlen); rewrite pb_f_c_L_eq; [rewrite IH|]; reflexivity.
Qed.

End PbLP.

Section Pbkdf2LP.
Variable perm : nat -> bytes -> bytes.
Hypothesis perm_len : forall r s, length s = 40 -> length (perm r s) = 40.

Lemma vxof_ok : xvariant_ok vxof. Proof. left; reflexivity. Qed.

Lemma pb_prfc_L_eq st cs :
  pb_prfc_L perm st cs =
  (snd (xof_squeeze perm vxof (fold_left (xof_absorb perm vxof) cs st) 32),
   tr_pb_prfc (pub_xof st) (map (@length N) cs)).
Proof.
  unfold pb_prfc_L, tr_pb_prfc. rewrite absorb_list_L_eq. cbv beta iota.
  rewrite xof_squeeze_L_eq, absorb_list_pub.
  destruct (xof_squeeze perm vxof (fold_left (xof_absorb perm vxof) cs st) 32) as [hx o]. reflexivity.
Qed.

Lemma pb_prfc_len st cs : xwf vxof st ->
  length (snd (xof_squeeze perm vxof (fold_left (xof_absorb perm vxof) cs st) 32)) = 32.
Proof.
  intros Hw. apply (xof_squeeze_wf perm perm_len vxof vxof_ok).
  now apply (absorb_list_wf perm perm_len vxof vxof_ok).
Qed.

Theorem pbkdf2_c_L_eq password salt count outlen :
  pbkdf2_c_L perm password salt count outlen =
  (pbkdf2_c perm password salt count outlen, tr_pbkdf2 (length password) (length salt) count outlen).
Proof.
  unfold pbkdf2_c_L, pbkdf2_c, tr_pbkdf2. rewrite xof_init_custom_L_eq. cbv beta iota.
  set (st := xof_init_custom perm vxof (Some name_pbkdf2) password 32).
  assert (W : xwf vxof st) by apply (xof_init_custom_wf perm perm_len vxof vxof_ok).
  assert (P : pub_xof st = pub_absorb_custom (0, false) (length password)) by apply xof_init_custom_pub.
  rewrite (pb_out_L_eq
             (fun chunks => snd (xof_squeeze perm vxof (fold_left (xof_absorb perm vxof) chunks st) 32))
             (pb_prfc_L perm st) (tr_pb_prfc (pub_xof st))
             (pb_prfc_L_eq st) (fun cs => pb_prfc_len st cs W)).
  rewrite P. reflexivity.
Qed.

(* secrets: the password and everything derived from it (T, U); public:
   |password|, |salt| (the salt itself may differ), count, outlen *)
Theorem pbkdf2_c_L_indep pw1 pw2 salt1 salt2 count outlen :
  length pw1 = length pw2 -> length salt1 = length salt2 ->
  snd (pbkdf2_c_L perm pw1 salt1 count outlen) = snd (pbkdf2_c_L perm pw2 salt2 count outlen).
Proof. intros Hp Hs. now rewrite !pbkdf2_c_L_eq, Hp, Hs. Qed.

End Pbkdf2LP.

(* ======================================================================== *)
(* 8. the PRNG                                                              *)
(* ======================================================================== *)
Section PrngLP.
Variable perm : nat -> bytes -> bytes.

Lemma rekey_L_eq x : rekey_L perm x = (rekey perm x, tr_rekey (pub_xof x)).
Proof. unfold rekey_L, rekey, tr_rekey. now rewrite xof_pad_L_eq. Qed.

Lemma rekey_pub x : pub_xof (rekey perm x) = (0, false).
Proof.
  unfold rekey. pose proof (xof_pad_pub perm vxof x) as P. rewrite pub_pad_aligned in P.
  unfold pub_xof in *. cbn [x_count x_mode]. exact P.
Qed.

Lemma next_pub_sys sys :
  next_pub (pub_sys sys) =
  ((length (fst (fst (next_sys sys))), snd (fst (next_sys sys))), pub_sys (snd (next_sys sys))).
Proof. destruct sys as [|[seed ok] rest]; reflexivity. Qed.

Theorem prng_reseed_L_eq s sys :
  prng_reseed_L perm s sys =
  (prng_reseed perm s sys, tr_reseed (pub_xof (r_xof s)) (fst (fst (next_pub (pub_sys sys))))).
Proof.
  unfold prng_reseed_L, prng_reseed, tr_reseed. rewrite next_pub_sys. cbn [fst].
  destruct (next_sys sys) as [[seed ok] sys']. cbn [fst].
  rewrite xof_absorb_L_eq. cbv beta iota. rewrite rekey_L_eq, xof_absorb_pub. reflexivity.
Qed.

Lemma prng_reseed_pub s sys : pub_prng (fst (fst (prng_reseed perm s sys))) = ((0, false), 0).
Proof.
  unfold prng_reseed. destruct (next_sys sys) as [[seed ok] sys']. cbn [fst].
  unfold pub_prng. cbn [r_xof r_counter]. now rewrite rekey_pub.
Qed.

Theorem prng_init_L_eq sys :
  prng_init_L perm sys = (prng_init perm sys, tr_prng_init (fst (fst (next_pub (pub_sys sys))))).
Proof.
  unfold prng_init_L, prng_init, tr_prng_init. rewrite next_pub_sys. cbn [fst].
  rewrite xof_init_custom_L_eq. cbv beta iota.
  destruct (next_sys sys) as [[seed ok] sys']. cbn [fst].
  rewrite xof_absorb_L_eq. cbv beta iota. rewrite rekey_L_eq, xof_absorb_pub, xof_init_custom_pub.
  reflexivity.
Qed.

Lemma prng_init_pub sys : pub_prng (fst (fst (prng_init perm sys))) = ((0, false), 0).
Proof.
  unfold prng_init. destruct (next_sys sys) as [[seed ok] sys']. cbn [fst].
  unfold pub_prng. cbn [r_xof r_counter]. now rewrite rekey_pub.
Qed.

Theorem prng_fetch_L_eq s n sys :
  prng_fetch_L perm s n sys = (prng_fetch perm s n sys, tr_prng_fetch (pub_prng s) n (pub_sys sys)).
Proof.
  unfold prng_fetch_L, prng_fetch, tr_prng_fetch, pub_prng.
  destruct (reseed_limit <=? r_counter s).
  - rewrite prng_reseed_L_eq.
    pose proof (prng_reseed_pub s sys) as P.
    destruct (prng_reseed perm s sys) as [[s' ok] sys']. cbn [fst] in P. cbv beta iota.
    apply (f_equal fst) in P. cbn [fst pub_prng] in P.
    rewrite xof_squeeze_L_eq, P.
    destruct (xof_squeeze perm vxof (r_xof s') n) as [x2 out] eqn:E.
    rewrite rekey_L_eq. replace x2 with (fst (xof_squeeze perm vxof (r_xof s') n)) by now rewrite E.
    rewrite xof_squeeze_pub, P, E. cbn [fst]. rewrite <- ?app_assoc. reflexivity.
  - cbv beta iota. rewrite xof_squeeze_L_eq.
    destruct (xof_squeeze perm vxof (r_xof s) n) as [x2 out] eqn:E.
    rewrite rekey_L_eq. replace x2 with (fst (xof_squeeze perm vxof (r_xof s) n)) by now rewrite E.
    rewrite xof_squeeze_pub, E. reflexivity.
Qed.

Lemma prng_fetch_pub s n sys :
  pub_prng (fst (fst (prng_fetch perm s n sys))) =
  ((0, false),
   if n <? reseed_limit then (if reseed_limit <=? r_counter s then 0 else r_counter s) + n else reseed_limit).
Proof.
  unfold prng_fetch.
  destruct (reseed_limit <=? r_counter s).
  - pose proof (prng_reseed_pub s sys) as P.
    destruct (prng_reseed perm s sys) as [[s' ok] sys']. cbn [fst] in P.
    apply (f_equal snd) in P. cbn [snd pub_prng] in P.
    destruct (xof_squeeze perm vxof (r_xof s') n) as [x2 out]. cbn [fst].
    unfold pub_prng. cbn [r_xof r_counter]. now rewrite rekey_pub, P.
  - destruct (xof_squeeze perm vxof (r_xof s) n) as [x2 out]. cbn [fst].
    unfold pub_prng. cbn [r_xof r_counter]. now rewrite rekey_pub.
Qed.

Theorem prng_feed_L_eq s d :
  prng_feed_L perm s d = (prng_feed perm s d, tr_prng_feed (pub_xof (r_xof s)) (length d)).
Proof.
  unfold prng_feed_L, prng_feed, tr_prng_feed.
  rewrite xof_absorb_L_eq. cbv beta iota. rewrite xof_pad_L_eq. cbv beta iota.
  rewrite rekey_L_eq, xof_pad_pub, xof_absorb_pub. reflexivity.
Qed.

Lemma prng_feed_pub s d : pub_prng (prng_feed perm s d) = ((0, false), r_counter s).
Proof. unfold prng_feed, pub_prng. cbn [r_xof r_counter]. now rewrite rekey_pub. Qed.

(* secrets: the sponge state, the seed bytes, the fed entropy; public: count,
   mode, counter, n, the lengths, the health flags of the system source *)
Theorem prng_fetch_L_indep s1 s2 n sys1 sys2 : pub_prng s1 = pub_prng s2 -> pub_sys sys1 = pub_sys sys2 ->
  snd (prng_fetch_L perm s1 n sys1) = snd (prng_fetch_L perm s2 n sys2) /\
  pub_prng (fst (fst (prng_fetch perm s1 n sys1))) = pub_prng (fst (fst (prng_fetch perm s2 n sys2))).
Proof.
  intros Hp Hs. rewrite !prng_fetch_L_eq, !prng_fetch_pub, Hp, Hs.
  apply (f_equal snd) in Hp. cbn [snd pub_prng] in Hp. now rewrite Hp.
Qed.

Theorem prng_reseed_L_indep s1 s2 sys1 sys2 : pub_prng s1 = pub_prng s2 -> pub_sys sys1 = pub_sys sys2 ->
  snd (prng_reseed_L perm s1 sys1) = snd (prng_reseed_L perm s2 sys2) /\
  pub_prng (fst (fst (prng_reseed perm s1 sys1))) = pub_prng (fst (fst (prng_reseed perm s2 sys2))).
Proof.
  intros Hp Hs. rewrite !prng_reseed_L_eq, !prng_reseed_pub, Hs.
  apply (f_equal fst) in Hp. cbn [fst pub_prng] in Hp. now rewrite Hp.
Qed.

Theorem prng_feed_L_indep s1 s2 d1 d2 : pub_prng s1 = pub_prng s2 -> length d1 = length d2 ->
  snd (prng_feed_L perm s1 d1) = snd (prng_feed_L perm s2 d2) /\
  pub_prng (prng_feed perm s1 d1) = pub_prng (prng_feed perm s2 d2).
Proof.
  intros Hp Hd. rewrite !prng_feed_L_eq, !prng_feed_pub, Hd.
  pose proof (f_equal fst Hp) as H1. pose proof (f_equal snd Hp) as H2.
  cbn [fst snd pub_prng] in H1, H2. now rewrite H1, H2.
Qed.

Theorem prng_init_L_indep sys1 sys2 : pub_sys sys1 = pub_sys sys2 ->
  snd (prng_init_L perm sys1) = snd (prng_init_L perm sys2).
Proof. intros Hs. now rewrite !prng_init_L_eq, Hs. Qed.

End PrngLP.

(* ======================================================================== *)
(* 9. SIV, ISAP, KMAC / KDF initialisation, the incremental AEAD            *)
(* ======================================================================== *)

(* the lazy aligned loop returns as many bytes as were asked for *)
Section LazyLen.
Variable f : bytes -> bytes.
Variable rate : nat.
Hypothesis f_len : forall s, length s = 40 -> length (f s) = 40.
Hypothesis rate_pos : 0 < rate.
Hypothesis rate_le : rate <= 40.

Lemma lazy_aligned_c_len st n : length st = 40 -> length (snd (lazy_aligned_c f rate st n)) = n.
Proof.
  intros Hl. rewrite (lazy_aligned_c_serial f rate 40 rate_pos rate_le).
  pose proof (lazy_serial_sim f rate 40 f_len rate_pos rate_le n st 0 rate_pos Hl) as [_ S]. rewrite S.
  unfold alpha. cbn [fst snd Nat.eqb].
  pose proof (serial_inv bf_sq f rate 40 f_len rate_pos rate_le (f st) 0 (zeros n) rate_pos (f_len st Hl))
    as [_ [_ [I3 _]]].
  rewrite I3. apply zeros_length.
Qed.

Lemma aligned_c_len bf st d : length st = 40 -> length (fst (fst (aligned_c bf f rate st d))) = 40.
Proof.
  intros Hl. change (aligned_c bf f rate st d) with (duplex_c bf f rate (st, 0) d).
  apply (duplex_c_len bf f rate f_len rate_pos rate_le st 0 d rate_pos Hl).
Qed.
End LazyLen.

Section SivLP.
Variable perm : nat -> bytes -> bytes.

Lemma siv_tag_c_L_eq v K N A P :
  siv_tag_c_L perm v K N A P =
  (siv_tag_c perm v K N A P, tr_siv_tag v (length K) (length N) (length A) (length P)).
Proof.
  unfold siv_tag_c_L, siv_tag_c, tr_siv_tag, siv_init_c_L. cbv zeta beta iota.
  destruct A as [|a A'].
  - rewrite aligned_c_L_eq.
    pose proof (aligned_c_pos bf_enc (perm (v_pb v)) (v_rate v)
                  (xor_at (siv_init_c perm (siv_variant v 1) K N) 39 [1%N]) P) as Q.
    destruct (aligned_c bf_enc (perm (v_pb v)) (v_rate v) _ P) as [[s1 len] o]. cbn [fst snd] in Q.
    rewrite Q. reflexivity.
  - rewrite aead_absorb_c_L_eq. cbv beta iota. rewrite aligned_c_L_eq.
    pose proof (aligned_c_pos bf_enc (perm (v_pb v)) (v_rate v)
                  (xor_at (aead_absorb_c perm v (siv_init_c perm (siv_variant v 1) K N) (a :: A')) 39 [1%N]) P) as Q.
    destruct (aligned_c bf_enc (perm (v_pb v)) (v_rate v) _ P) as [[s1 len] o]. cbn [fst snd] in Q.
    rewrite Q. reflexivity.
Qed.

Lemma siv_crypt_c_L_eq v K T src :
  siv_crypt_c_L perm v K T src =
  (siv_crypt_c perm v K T src, tr_siv_crypt v (length K) (length T) (length src)).
Proof.
  unfold siv_crypt_c_L, siv_crypt_c, tr_siv_crypt, siv_init_c_L. cbv beta iota.
  rewrite lazy_aligned_c_L_eq.
  destruct (lazy_aligned_c (perm (v_pb v)) (v_rate v) (siv_init_c perm (siv_variant v 2) K T) (length src))
    as [sp ks]. reflexivity.
Qed.

Hypothesis perm_len : forall r s, length s = 40 -> length (perm r s) = 40.
Variable v : aead_variant.
Hypothesis Hv : wf_variant v.

Let pbl : forall s, length s = 40 -> length (perm (v_pb v) s) = 40 := fun s H => perm_len (v_pb v) s H.
Let r0 : 0 < v_rate v := proj1 (proj2 Hv).
Let r40 : v_rate v <= 40 := proj1 (proj2 (proj2 Hv)).

Lemma siv_init_c_len v' K N : length (siv_init_c perm v' K N) = 40.
Proof. unfold siv_init_c. rewrite xor_at_len. apply perm_len. now rewrite !set_at_len, zeros_length. Qed.

Lemma aead_absorb_c_len s A : length s = 40 -> length (aead_absorb_c perm v s A) = 40.
Proof.
  intros Hl. unfold aead_absorb_c.
  pose proof (aligned_c_len (perm (v_pb v)) (v_rate v) pbl r0 r40 bf_enc s A Hl) as L.
  destruct (aligned_c bf_enc (perm (v_pb v)) (v_rate v) s A) as [[s1 len] o]. cbn [fst] in L.
  apply perm_len. now rewrite xor_at_len.
Qed.

Lemma siv_tag_c_len K N A P : length (siv_tag_c perm v K N A P) = 16.
Proof.
  unfold siv_tag_c. cbv zeta.
  set (s0 := match A with [] => siv_init_c perm (siv_variant v 1) K N
             | _ :: _ => aead_absorb_c perm v (siv_init_c perm (siv_variant v 1) K N) A end).
  assert (L0 : length s0 = 40).
  { unfold s0. destruct A; [apply siv_init_c_len|apply aead_absorb_c_len, siv_init_c_len]. }
  pose proof (aligned_c_len (perm (v_pb v)) (v_rate v) pbl r0 r40 bf_enc (xor_at s0 39 [1%N]) P) as L.
  rewrite xor_at_len in L. specialize (L L0).
  destruct (aligned_c bf_enc (perm (v_pb v)) (v_rate v) (xor_at s0 39 [1%N]) P) as [[s1 len] o]. cbn [fst] in L.
  unfold finalize_c. apply get_at_length. rewrite xor_at_len, perm_len; [lia|]. now rewrite !xor_at_len.
Qed.

Lemma siv_crypt_c_len K T src : length (siv_crypt_c perm v K T src) = length src.
Proof.
  unfold siv_crypt_c. rewrite xorl_len.
  rewrite (lazy_aligned_c_len (perm (v_pb v)) (v_rate v) pbl r0 r40) by apply siv_init_c_len. lia.
Qed.

Theorem siv_encrypt_c_L_eq K N A P :
  siv_encrypt_c_L perm v K N A P =
  (siv_encrypt_c perm v K N A P, tr_siv_encrypt v (length K) (length N) (length A) (length P)).
Proof.
  unfold siv_encrypt_c_L, siv_encrypt_c, tr_siv_encrypt. rewrite siv_tag_c_L_eq. cbv beta iota zeta.
  rewrite siv_crypt_c_L_eq, siv_tag_c_len. reflexivity.
Qed.

Theorem siv_decrypt_c_L_eq K N A C :
  siv_decrypt_c_L perm v K N A C =
  (siv_decrypt_c perm v K N A C, tr_siv_decrypt v (length K) (length N) (length A) (length C)).
Proof.
  unfold siv_decrypt_c_L, siv_decrypt_c, tr_siv_decrypt.
  destruct (Nat.ltb_spec (length C) 16) as [Hs|Hs]; [reflexivity|]. cbv zeta.
  rewrite siv_crypt_c_L_eq. cbv beta iota. rewrite siv_tag_c_L_eq. cbv beta iota.
  rewrite check_tag_L_eq, siv_tag_c_len, siv_crypt_c_len, skipn_length, firstn_length.
  replace (Nat.min (length C - 16) (length C)) with (length C - 16) by lia.
  replace (Nat.min 16 (length C - (length C - 16))) with 16 by lia.
  replace (length C - (length C - 16)) with 16 by lia.
  destruct (check_tag _ _ _) as [r m']. reflexivity.
Qed.

Theorem siv_encrypt_c_L_indep K1 K2 N1 N2 A1 A2 P1 P2 :
  length K1 = length K2 -> length N1 = length N2 -> length A1 = length A2 -> length P1 = length P2 ->
  snd (siv_encrypt_c_L perm v K1 N1 A1 P1) = snd (siv_encrypt_c_L perm v K2 N2 A2 P2).
Proof. intros HK HN HA HP. now rewrite !siv_encrypt_c_L_eq, HK, HN, HA, HP. Qed.

Theorem siv_decrypt_c_L_indep K1 K2 N1 N2 A1 A2 C1 C2 :
  length K1 = length K2 -> length N1 = length N2 -> length A1 = length A2 -> length C1 = length C2 ->
  snd (siv_decrypt_c_L perm v K1 N1 A1 C1) = snd (siv_decrypt_c_L perm v K2 N2 A2 C2).
Proof. intros HK HN HA HC. now rewrite !siv_decrypt_c_L_eq, HK, HN, HA, HC. Qed.

End SivLP.

Section IsapLP.
Variable perm : nat -> bytes -> bytes.

Lemma rekey_loop_L_eq iv data fuel : forall s bit nbits,
  rekey_loop_L perm iv s data bit nbits fuel =
  (rekey_loop perm iv s data bit nbits fuel, tr_bit_loop iv bit nbits fuel).
Proof.
  induction fuel as [|f IH]; intros s bit nbits; cbn [rekey_loop_L rekey_loop tr_bit_loop]; [reflexivity|].
  destruct (bit <? nbits); [|reflexivity]. cbv zeta. now rewrite IH.
Qed.

(* the data bytes re-keyed on are secret (the nonce is not, but y in the MAC
   is); the trace depends on their number only *)
Theorem isap_rekey_c_L_eq iv pk data :
  isap_rekey_c_L perm iv pk data = (isap_rekey_c perm iv pk data, tr_isap_rekey iv (length data)).
Proof. unfold isap_rekey_c_L, isap_rekey_c, tr_isap_rekey. cbv zeta. now rewrite rekey_loop_L_eq. Qed.

Theorem isap_rekey_c_L_indep iv pk1 pk2 d1 d2 : length d1 = length d2 ->
  snd (isap_rekey_c_L perm iv pk1 d1) = snd (isap_rekey_c_L perm iv pk2 d2).
Proof. intros H. now rewrite !isap_rekey_c_L_eq, H. Qed.

Lemma isap_crypt_c_L_eq iv pk N src :
  isap_crypt_c_L perm iv pk N src =
  (isap_crypt_c perm iv pk N src, tr_isap_crypt iv (length N) (length src)).
Proof.
  unfold isap_crypt_c_L, isap_crypt_c, tr_isap_crypt. rewrite isap_rekey_c_L_eq. cbv beta iota zeta.
  rewrite lazy_aligned_c_L_eq.
  destruct (lazy_aligned_c (perm (12 - i_sE iv)) 8 (set_at (isap_rekey_c perm iv (pk_ke pk) N) 24 N) (length src))
    as [sp ks]. rewrite <- ?app_assoc. reflexivity.
Qed.

Hypothesis perm_len : forall r s, length s = 40 -> length (perm r s) = 40.
Variable iv : isap_variant.
Hypothesis Hk : i_klen iv <= 40.

Lemma rekey_loop_len data fuel : forall s bit nbits, length s = 40 ->
  length (rekey_loop perm iv s data bit nbits fuel) = 40.
Proof.
  induction fuel as [|f IH]; intros s bit nbits Hl; cbn [rekey_loop]; [exact Hl|].
  destruct (bit <? nbits); [|exact Hl]. apply IH. apply perm_len. now rewrite xor_at_len.
Qed.

Lemma isap_rekey_c_len pk data : length pk = 40 -> length (isap_rekey_c perm iv pk data) = 40.
Proof. intros Hl. unfold isap_rekey_c. apply perm_len. rewrite xor_at_len. now apply rekey_loop_len. Qed.

Lemma isap_crypt_c_len pk N src : length (pk_ke pk) = 40 -> length (isap_crypt_c perm iv pk N src) = length src.
Proof.
  intros Hl. unfold isap_crypt_c. rewrite xorl_len.
  rewrite (lazy_aligned_c_len (perm (12 - i_sE iv)) 8 (fun s H => perm_len _ s H)) by
    (try lia; rewrite set_at_len; now apply isap_rekey_c_len). lia.
Qed.

Let pHl : forall s, length s = 40 -> length (perm (12 - i_sH iv) s) = 40 := fun s H => perm_len _ s H.
Let r8 : 0 < 8. Proof. lia. Qed.
Let r840 : 8 <= 40. Proof. lia. Qed.

Theorem isap_mac_c_L_eq pk N A C :
  isap_mac_c_L perm iv pk N A C =
  (isap_mac_c perm iv pk N A C, tr_isap_mac iv (length N) (length A) (length C)).
Proof.
  unfold isap_mac_c_L, isap_mac_c, tr_isap_mac. cbv zeta.
  set (s0 := perm (12 - i_sH iv) (set_at (set_at (zeros 40) 0 N) 16 (isap_iv iv 1 ++ zeros 16))).
  assert (L0 : length s0 = 40) by (unfold s0; apply perm_len; now rewrite !set_at_len, zeros_length).
  rewrite aligned_c_L_eq.
  pose proof (aligned_c_pos bf_enc (perm (12 - i_sH iv)) 8 s0 A) as Q1.
  pose proof (aligned_c_len (perm (12 - i_sH iv)) 8 pHl r8 r840 bf_enc s0 A L0) as L1.
  destruct (aligned_c bf_enc (perm (12 - i_sH iv)) 8 s0 A) as [[s1 len1] o1]. cbn [fst snd] in Q1, L1.
  set (s2 := xor_at (perm (12 - i_sH iv) (xor_at s1 len1 [128%N])) 39 [1%N]).
  assert (L2 : length s2 = 40) by (unfold s2; rewrite xor_at_len; apply perm_len; now rewrite xor_at_len).
  rewrite aligned_c_L_eq.
  pose proof (aligned_c_pos bf_enc (perm (12 - i_sH iv)) 8 s2 C) as Q3.
  pose proof (aligned_c_len (perm (12 - i_sH iv)) 8 pHl r8 r840 bf_enc s2 C L2) as L3.
  destruct (aligned_c bf_enc (perm (12 - i_sH iv)) 8 s2 C) as [[s3 len3] o3]. cbn [fst snd] in Q3, L3.
  set (s4 := perm (12 - i_sH iv) (xor_at s3 len3 [128%N])).
  assert (L4 : length s4 = 40) by (unfold s4; apply perm_len; now rewrite xor_at_len).
  rewrite isap_rekey_c_L_eq. cbv beta iota.
  rewrite (get_at_length s4 0 (i_klen iv)) by lia. rewrite Q1, Q3. reflexivity.
Qed.

Lemma isap_mac_c_len pk N A C : length (pk_ka pk) = 40 -> length (isap_mac_c perm iv pk N A C) = 16.
Proof.
  intros Hl. unfold isap_mac_c. cbv zeta.
  destruct (aligned_c bf_enc (perm (12 - i_sH iv)) 8 _ A) as [[s1 len1] o1].
  destruct (aligned_c bf_enc (perm (12 - i_sH iv)) 8 _ C) as [[s3 len3] o3].
  apply get_at_length. rewrite perm_len; [lia|]. rewrite set_at_len. now apply isap_rekey_c_len.
Qed.

Theorem isap_encrypt_c_L_eq pk N A P : length (pk_ke pk) = 40 ->
  isap_encrypt_c_L perm iv pk N A P =
  (isap_encrypt_c perm iv pk N A P, tr_isap_encrypt iv (length N) (length A) (length P)).
Proof.
  intros Hl. unfold isap_encrypt_c_L, isap_encrypt_c, tr_isap_encrypt. rewrite isap_crypt_c_L_eq. cbv beta iota zeta.
  rewrite isap_mac_c_L_eq, isap_crypt_c_len by exact Hl. reflexivity.
Qed.

Theorem isap_decrypt_c_L_eq pk N A C : length (pk_ke pk) = 40 -> length (pk_ka pk) = 40 ->
  isap_decrypt_c_L perm iv pk N A C =
  (isap_decrypt_c perm iv pk N A C, tr_isap_decrypt iv (length N) (length A) (length C)).
Proof.
  intros He Ha. unfold isap_decrypt_c_L, isap_decrypt_c, tr_isap_decrypt.
  destruct (Nat.ltb_spec (length C) 16) as [Hs|Hs]; [reflexivity|]. cbv zeta.
  rewrite isap_mac_c_L_eq. cbv beta iota. rewrite isap_crypt_c_L_eq. cbv beta iota.
  rewrite check_tag_L_eq, isap_mac_c_len, isap_crypt_c_len, skipn_length, firstn_length by assumption.
  replace (Nat.min (length C - 16) (length C)) with (length C - 16) by lia.
  replace (Nat.min 16 (length C - (length C - 16))) with 16 by lia.
  destruct (check_tag _ _ _) as [r m']. reflexivity.
Qed.

(* secrets: the two expanded key states (and everything derived); public: lengths *)
Theorem isap_encrypt_c_L_indep pk1 pk2 N1 N2 A1 A2 P1 P2 :
  length (pk_ke pk1) = 40 -> length (pk_ke pk2) = 40 ->
  length N1 = length N2 -> length A1 = length A2 -> length P1 = length P2 ->
  snd (isap_encrypt_c_L perm iv pk1 N1 A1 P1) = snd (isap_encrypt_c_L perm iv pk2 N2 A2 P2).
Proof. intros H1 H2 HN HA HP. now rewrite !isap_encrypt_c_L_eq, HN, HA, HP by assumption. Qed.

Theorem isap_decrypt_c_L_indep pk1 pk2 N1 N2 A1 A2 C1 C2 :
  length (pk_ke pk1) = 40 -> length (pk_ka pk1) = 40 -> length (pk_ke pk2) = 40 -> length (pk_ka pk2) = 40 ->
  length N1 = length N2 -> length A1 = length A2 -> length C1 = length C2 ->
  snd (isap_decrypt_c_L perm iv pk1 N1 A1 C1) = snd (isap_decrypt_c_L perm iv pk2 N2 A2 C2).
Proof. intros H1 H2 H3 H4 HN HA HC. now rewrite !isap_decrypt_c_L_eq, HN, HA, HC by assumption. Qed.

End IsapLP.

Section KmacLP.
Variable perm : nat -> bytes -> bytes.

Theorem kmac_init_L_eq v key custom outlen :
  kmac_init_L perm v key custom outlen =
  (kmac_init perm v key custom outlen, tr_kmac_init v (length key) (length custom) outlen).
Proof.
  unfold kmac_init_L, kmac_init, tr_kmac_init. destruct (outlen =? 32)%N.
  - rewrite xof_absorb_custom_L_eq. cbv beta iota. rewrite xof_absorb_L_eq, xof_absorb_custom_pub.
    destruct custom; rewrite <- ?app_assoc; reflexivity.
  - rewrite xof_init_custom_L_eq. cbv beta iota. rewrite xof_absorb_L_eq, xof_init_custom_pub.
    rewrite <- ?app_assoc. reflexivity.
Qed.

Theorem kdf_init_L_eq v key custom outlen :
  kdf_init_L perm v key custom outlen =
  (kdf_init perm v key custom outlen, tr_kdf_init v (length key) (length custom) outlen).
Proof.
  unfold kdf_init_L, kdf_init, tr_kdf_init.
  rewrite xof_init_custom_L_eq. cbv beta iota. rewrite xof_absorb_L_eq, xof_init_custom_pub. reflexivity.
Qed.

Theorem kmac_init_L_indep v k1 k2 c1 c2 outlen : length k1 = length k2 -> length c1 = length c2 ->
  snd (kmac_init_L perm v k1 c1 outlen) = snd (kmac_init_L perm v k2 c2 outlen) /\
  snd (kdf_init_L perm v k1 c1 outlen) = snd (kdf_init_L perm v k2 c2 outlen).
Proof. intros Hk Hc. now rewrite !kmac_init_L_eq, !kdf_init_L_eq, Hk, Hc. Qed.

End KmacLP.

Section IncLP.
Variable perm : nat -> bytes -> bytes.

Lemma incr_rev_L_eq l : forall i carry,
  incr_rev_L l i carry = (incr_rev l carry, tr_incr (length l) i).
Proof.
  induction l as [|x l IH]; intros i carry; [reflexivity|].
  cbn [incr_rev_L incr_rev length tr_incr]. now rewrite IH.
Qed.

Lemma increment_nonce_L_eq n : increment_nonce_L n = (increment_nonce n, tr_incr (length n) 0).
Proof. unfold increment_nonce_L, increment_nonce. now rewrite incr_rev_L_eq, rev_length. Qed.

Theorem inc_start_L_eq v s A :
  inc_start_L perm v s A =
  (inc_start perm v s A, tr_inc_start v (length (i_key s)) (length (i_nonce s)) (length A)).
Proof.
  unfold inc_start_L, inc_start, tr_inc_start. now rewrite start_c_L_eq, increment_nonce_L_eq.
Qed.

Theorem inc_encrypt_block_L_eq v s d :
  inc_encrypt_block_L perm v s d =
  (inc_encrypt_block perm v s d, tr_duplex (v_pb v) (v_rate v) (i_posn s) (length d)) /\
  i_posn (fst (inc_encrypt_block perm v s d)) = pos_duplex (v_rate v) (i_posn s) (length d).
Proof.
  unfold inc_encrypt_block_L, inc_encrypt_block. rewrite duplex_c_L_eq.
  pose proof (duplex_c_pos bf_enc (perm (v_pb v)) (v_rate v) (i_st s) (i_posn s) d) as Q.
  destruct (duplex_c bf_enc (perm (v_pb v)) (v_rate v) (i_st s, i_posn s) d) as [[s1 p] o].
  cbn [fst snd i_posn] in *. now rewrite Q.
Qed.

Theorem inc_decrypt_block_L_eq v s d :
  inc_decrypt_block_L perm v s d =
  (inc_decrypt_block perm v s d, tr_duplex (v_pb v) (v_rate v) (i_posn s) (length d)) /\
  i_posn (fst (inc_decrypt_block perm v s d)) = pos_duplex (v_rate v) (i_posn s) (length d).
Proof.
  unfold inc_decrypt_block_L, inc_decrypt_block. rewrite duplex_c_L_eq.
  pose proof (duplex_c_pos bf_dec (perm (v_pb v)) (v_rate v) (i_st s) (i_posn s) d) as Q.
  destruct (duplex_c bf_dec (perm (v_pb v)) (v_rate v) (i_st s, i_posn s) d) as [[s1 p] o].
  cbn [fst snd i_posn] in *. now rewrite Q.
Qed.

Hypothesis perm_len : forall r s, length s = 40 -> length (perm r s) = 40.

Theorem inc_decrypt_finalize_L_eq v s tag : length (i_st s) = 40 ->
  inc_decrypt_finalize_L perm v s tag =
  (inc_decrypt_finalize perm v s tag,
   tr_finalize v (i_posn s) (length (i_key s)) ++ tr_check_tag 0 (Nat.min 16 (length tag))).
Proof.
  intros Hl. unfold inc_decrypt_finalize_L, inc_decrypt_finalize. cbv zeta.
  rewrite check_tag_L_eq. rewrite get_at_length.
  - destruct (check_tag [] _ tag) as [r m]. reflexivity.
  - unfold inc_final_state. rewrite xor_at_len, perm_len; [lia|]. now rewrite !xor_at_len.
Qed.

(* the whole incremental encryption of a list of chunks *)
Theorem inc_blocks_indep v s1 s2 d1 d2 : i_posn s1 = i_posn s2 -> length d1 = length d2 ->
  snd (inc_encrypt_block_L perm v s1 d1) = snd (inc_encrypt_block_L perm v s2 d2) /\
  snd (inc_decrypt_block_L perm v s1 d1) = snd (inc_decrypt_block_L perm v s2 d2).
Proof.
  intros Hp Hd.
  rewrite (proj1 (inc_encrypt_block_L_eq v s1 d1)), (proj1 (inc_encrypt_block_L_eq v s2 d2)).
  rewrite (proj1 (inc_decrypt_block_L_eq v s1 d1)), (proj1 (inc_decrypt_block_L_eq v s2 d2)).
  cbn [snd]. now rewrite Hp, Hd.
Qed.

End IncLP.

(* ---- HKDF: extract, one-shot, public state after expand -------------------- *)
Section HkdfLP2.
Variable perm : nat -> bytes -> bytes.
Hypothesis perm_len : forall r s, length s = 40 -> length (perm r s) = 40.
Variable v : xof_variant.
Hypothesis Hx : v = vxof \/ v = vxofa.

Lemma hmac_run_len key cs : length (hmac_run perm v key cs) = 32.
Proof.
  unfold hmac_run. apply (hmac_finalize_len perm perm_len v Hx).
  apply (absorb_list_wf' perm perm_len v Hx), (hmac_init_wf perm perm_len v Hx).
Qed.

Theorem hkdf_extract_c_L_eq key salt :
  hkdf_extract_c_L perm v key salt =
  (hkdf_extract_c perm v key salt, tr_hkdf_extract v (length key) (length salt)) /\
  pub_hkdf (hkdf_extract_c perm v key salt) = (1, 32, 32, 32).
Proof.
  unfold hkdf_extract_c_L, hkdf_extract_c, tr_hkdf_extract, pub_hkdf.
  rewrite (hmac_run_L_eq perm perm_len v Hx). cbn [k_counter k_posn k_prk k_out map].
  now rewrite hmac_run_len.
Qed.

Lemma hkdf_loop_pub info fuel : forall s outlen,
  pub_hkdf (fst (fst (hkdf_loop perm fuel v s info outlen))) = pub_hkdf_loop fuel (pub_hkdf s) outlen.
Proof.
  induction fuel as [|f IH]; intros s outlen; cbn [hkdf_loop pub_hkdf_loop]; [reflexivity|].
  destruct (outlen =? 0); [reflexivity|].
  unfold pub_hkdf at 2. destruct (k_counter s =? 0); [reflexivity|].
  pose proof (hkdf_block_pub perm perm_len v Hx s info) as [Pc [_ [Pk Po]]].
  match goal with |- context [hkdf_loop perm f v ?s2 info ?n] =>
    specialize (IH s2 n); destruct (hkdf_loop perm f v s2 info n) as [[s3 o] r] end.
  cbn [fst] in *. rewrite IH. unfold pub_hkdf. cbn [k_counter k_posn k_prk k_out]. now rewrite Pc, Pk, Po.
Qed.

Theorem hkdf_expand_c_pub s info outlen :
  pub_hkdf (fst (fst (hkdf_expand_c perm v s info outlen))) = pub_hkdf_expand (pub_hkdf s) outlen.
Proof.
  unfold hkdf_expand_c, pub_hkdf_expand. cbv zeta.
  match goal with |- context [hkdf_loop perm ?f v ?s1 info ?n] =>
    pose proof (hkdf_loop_pub info f s1 n) as P; destruct (hkdf_loop perm f v s1 info n) as [[s2 o2] r] end.
  cbn [fst] in *. rewrite P. reflexivity.
Qed.

Theorem hkdf_c_L_eq key salt info outlen :
  hkdf_c_L perm v key salt info outlen =
  (hkdf_c perm v key salt info outlen, tr_hkdf v (length key) (length salt) (length info) outlen).
Proof.
  unfold hkdf_c_L, hkdf_c, tr_hkdf. destruct (255 * 32 <? outlen); [reflexivity|].
  destruct (hkdf_extract_c_L_eq key salt) as [E P]. rewrite E. cbv beta iota.
  rewrite (hkdf_expand_c_L_eq perm perm_len v Hx), P.
  destruct (hkdf_expand_c perm v (hkdf_extract_c perm v key salt) info outlen) as [[s2 o] r]. reflexivity.
Qed.

(* secrets: the input keying material and everything derived; salt and info
   may be public; public: the lengths and outlen *)
Theorem hkdf_c_L_indep k1 k2 salt1 salt2 i1 i2 outlen :
  length k1 = length k2 -> length salt1 = length salt2 -> length i1 = length i2 ->
  snd (hkdf_c_L perm v k1 salt1 i1 outlen) = snd (hkdf_c_L perm v k2 salt2 i2 outlen).
Proof. intros Hk Hs Hi. now rewrite !hkdf_c_L_eq, Hk, Hs, Hi. Qed.

End HkdfLP2.

(* ======================================================================== *)
(* The statements of Props/Properties_C11.v                                 *)
(* ======================================================================== *)
Definition perm_len_ok (perm : nat -> bytes -> bytes) : Prop :=
  forall r s, length s = 40 -> length (perm r s) = 40.

Lemma c11_duplex : forall bf f fr rate partial st1 st2 d1 d2, length d1 = length d2 ->
  duplex_c_L bf f fr rate (st1, partial) d1 =
    (duplex_c bf f rate (st1, partial) d1, tr_duplex fr rate partial (length d1)) /\
  snd (duplex_c_L bf f fr rate (st1, partial) d1) = snd (duplex_c_L bf f fr rate (st2, partial) d2) /\
  snd (fst (duplex_c bf f rate (st1, partial) d1)) = pos_duplex rate partial (length d1) /\
  snd (fst (duplex_c bf f rate (st1, partial) d1)) = snd (fst (duplex_c bf f rate (st2, partial) d2)).
Proof.
  intros. split; [apply duplex_c_L_eq|]. split; [now apply duplex_c_L_indep|].
  split; [apply duplex_c_pos|now apply duplex_c_pos_indep].
Qed.

Lemma c11_duplex_closed : forall fr rate partial n, 0 < rate -> partial < rate ->
  pos_duplex rate partial n = (partial + n) mod rate /\
  length (filter (fun e => match e with EPerm _ => true | _ => false end) (tr_full_loop fr rate n n)) = n / rate.
Proof. intros. split; [now apply pos_duplex_mod|now apply tr_full_loop_perms]. Qed.

Lemma c11_squeeze : forall f fr rate count n st1 st2,
  lazy_squeeze_c_L f fr rate (st1, count) n =
    (lazy_squeeze_c f rate (st1, count) n, tr_lazy_squeeze fr rate count n) /\
  snd (lazy_squeeze_c_L f fr rate (st1, count) n) = snd (lazy_squeeze_c_L f fr rate (st2, count) n) /\
  snd (fst (lazy_squeeze_c f rate (st1, count) n)) = pos_lazy rate count n /\
  duplex_c_L bf_sq f fr rate (st1, count) (zeros n) =
    (duplex_c bf_sq f rate (st1, count) (zeros n), tr_duplex fr rate count n) /\
  snd (duplex_c_L bf_sq f fr rate (st1, count) (zeros n)) = snd (duplex_c_L bf_sq f fr rate (st2, count) (zeros n)).
Proof.
  intros. split; [apply lazy_squeeze_c_L_eq|]. split; [apply lazy_squeeze_c_L_indep|].
  split; [apply lazy_squeeze_c_pos|]. split; [|apply eager_squeeze_L_indep].
  rewrite duplex_c_L_eq. unfold zeros at 2. now rewrite repeat_length.
Qed.

Lemma c11_aead_encrypt : forall perm v K1 K2 N1 N2 A1 A2 P1 P2,
  length K1 = length K2 -> length N1 = length N2 -> length A1 = length A2 -> length P1 = length P2 ->
  encrypt_c_L perm v K1 N1 A1 P1 =
    (encrypt_c perm v K1 N1 A1 P1, tr_encrypt v (length K1) (length N1) (length A1) (length P1)) /\
  snd (encrypt_c_L perm v K1 N1 A1 P1) = snd (encrypt_c_L perm v K2 N2 A2 P2).
Proof. intros. split; [apply encrypt_c_L_eq|now apply encrypt_c_L_indep]. Qed.

Lemma c11_aead_decrypt : forall perm v K1 K2 N1 N2 A1 A2 C1 C2,
  perm_len_ok perm -> wf_variant v -> wf_kn v K1 N1 -> wf_kn v K2 N2 ->
  length A1 = length A2 -> length C1 = length C2 ->
  decrypt_c_L perm v K1 N1 A1 C1 =
    (decrypt_c perm v K1 N1 A1 C1, tr_decrypt v (length K1) (length N1) (length A1) (length C1)) /\
  snd (decrypt_c_L perm v K1 N1 A1 C1) = snd (decrypt_c_L perm v K2 N2 A2 C2).
Proof. intros. split; [now apply decrypt_c_L_eq|now apply decrypt_c_L_indep]. Qed.

Lemma c11_xof_absorb : forall perm v s1 s2 d1 d2, pub_xof s1 = pub_xof s2 -> length d1 = length d2 ->
  xof_absorb_L perm v s1 d1 = (xof_absorb perm v s1 d1, tr_xof_absorb v (pub_xof s1) (length d1)) /\
  snd (xof_absorb_L perm v s1 d1) = snd (xof_absorb_L perm v s2 d2) /\
  pub_xof (xof_absorb perm v s1 d1) = pub_absorb v (pub_xof s1) (length d1) /\
  pub_xof (xof_absorb perm v s1 d1) = pub_xof (xof_absorb perm v s2 d2).
Proof.
  intros perm v s1 s2 d1 d2 Hp Hd. destruct (xof_absorb_L_indep perm v s1 s2 d1 d2 Hp Hd) as [I1 I2].
  split; [apply xof_absorb_L_eq|]. split; [exact I1|]. split; [apply xof_absorb_pub|exact I2].
Qed.

Lemma c11_xof_squeeze : forall perm v s1 s2 n, pub_xof s1 = pub_xof s2 ->
  xof_squeeze_L perm v s1 n = (xof_squeeze perm v s1 n, tr_xof_squeeze v (pub_xof s1) n) /\
  snd (xof_squeeze_L perm v s1 n) = snd (xof_squeeze_L perm v s2 n) /\
  pub_xof (fst (xof_squeeze perm v s1 n)) = pub_squeeze v (pub_xof s1) n /\
  pub_xof (fst (xof_squeeze perm v s1 n)) = pub_xof (fst (xof_squeeze perm v s2 n)).
Proof.
  intros perm v s1 s2 n Hp. destruct (xof_squeeze_L_indep perm v s1 s2 n Hp) as [I1 I2].
  split; [apply xof_squeeze_L_eq|]. split; [exact I1|]. split; [apply xof_squeeze_pub|exact I2].
Qed.

Lemma c11_xof_pad_custom : forall perm v s1 s2 name c1 c2 outlen, pub_xof s1 = pub_xof s2 -> length c1 = length c2 ->
  xof_pad_L perm v s1 = (xof_pad perm v s1, tr_xof_pad v (pub_xof s1)) /\
  snd (xof_pad_L perm v s1) = snd (xof_pad_L perm v s2) /\
  pub_xof (xof_pad perm v s1) = (0, false) /\
  xof_absorb_custom_L perm v s1 c1 =
    (xof_absorb_custom perm v s1 c1, tr_absorb_custom v (pub_xof s1) (length c1)) /\
  xof_init_custom_L perm v name c1 outlen =
    (xof_init_custom perm v name c1 outlen,
     tr_init_custom v (length (match name with Some n => n | None => [] end)) (length c1) outlen) /\
  snd (xof_init_custom_L perm v name c1 outlen) = snd (xof_init_custom_L perm v name c2 outlen) /\
  pub_xof (xof_init_custom perm v name c1 outlen) = pub_absorb_custom (0, false) (length c1).
Proof.
  intros perm v s1 s2 name c1 c2 outlen Hp Hc.
  split; [apply xof_pad_L_eq|]. split; [apply (xof_pad_L_indep perm v s1 s2 Hp)|].
  split; [rewrite xof_pad_pub; apply pub_pad_aligned|]. split; [apply xof_absorb_custom_L_eq|].
  split; [apply xof_init_custom_L_eq|]. split; [apply (xof_init_custom_L_indep perm v name c1 c2 outlen Hc)|].
  apply xof_init_custom_pub.
Qed.

Lemma c11_prf : forall perm K1 K2 L m1 m2 n, length K1 = length K2 -> length m1 = length m2 ->
  prf_oneshot_L perm K1 L m1 n = (prf_oneshot perm K1 L m1 n, tr_prf_oneshot (length K1) L (length m1) n) /\
  snd (prf_oneshot_L perm K1 L m1 n) = snd (prf_oneshot_L perm K2 L m2 n).
Proof. intros. split; [apply prf_oneshot_L_eq|now apply prf_oneshot_L_indep]. Qed.

Lemma c11_mac_verify : forall perm tag1 tag2 K1 K2 m1 m2, perm_len_ok perm ->
  length tag1 = length tag2 -> length K1 = length K2 -> length m1 = length m2 ->
  mac_verify_c_L perm tag1 K1 m1 =
    (mac_verify_c perm tag1 K1 m1, tr_mac_verify (length tag1) (length K1) (length m1)) /\
  snd (mac_verify_c_L perm tag1 K1 m1) = snd (mac_verify_c_L perm tag2 K2 m2).
Proof. intros. split; [now apply mac_verify_c_L_eq|now apply mac_verify_c_L_indep]. Qed.

Lemma c11_hmac : forall perm v k1 k2 cs1 cs2 h1 h2, perm_len_ok perm -> v = vxof \/ v = vxofa ->
  length k1 = length k2 -> map (@length N) cs1 = map (@length N) cs2 ->
  xwf v h1 -> xwf v h2 -> pub_xof h1 = pub_xof h2 ->
  (* the whole computation *)
  hmac_run_L perm v k1 cs1 = (hmac_run perm v k1 cs1, tr_hmac_run v (length k1) (map (@length N) cs1)) /\
  snd (hmac_run_L perm v k1 cs1) = snd (hmac_run_L perm v k2 cs2) /\
  (* the object-level calls: init, update (on any object), finalize (on any well-formed object) *)
  hmac_init_L perm v k1 = (hmac_init perm v k1, tr_hmac_init v (length k1)) /\
  pub_xof (hmac_init perm v k1) = pub_hmac_init v (length k1) /\ xwf v (hmac_init perm v k1) /\
  (forall d, hmac_update_L perm v h1 d = (hmac_update perm v h1 d, tr_xof_absorb v (pub_xof h1) (length d)) /\
             pub_xof (hmac_update perm v h1 d) = pub_absorb v (pub_xof h1) (length d) /\
             xwf v (hmac_update perm v h1 d)) /\
  hmac_finalize_L perm v h1 k1 = (hmac_finalize perm v h1 k1, tr_hmac_finalize v (pub_xof h1) (length k1)) /\
  snd (hmac_finalize_L perm v h1 k1) = snd (hmac_finalize_L perm v h2 k2).
Proof.
  intros perm v k1 k2 cs1 cs2 h1 h2 Hp Hx Hk Hc W1 W2 Pp.
  split; [now apply hmac_run_L_eq|]. split; [now apply hmac_run_L_indep|].
  split; [now apply hmac_init_L_eq|]. split; [now apply hmac_init_pub|]. split; [now apply hmac_init_wf|].
  split; [intros d; split; [apply hmac_update_L_eq|split; [apply hmac_update_pub|now apply hmac_update_wf]]|].
  split; [now apply hmac_finalize_L_eq|now apply hmac_finalize_L_indep].
Qed.

Lemma c11_hkdf : forall perm v s1 s2 i1 i2 outlen k1 k2 salt1 salt2, perm_len_ok perm -> v = vxof \/ v = vxofa ->
  pub_hkdf s1 = pub_hkdf s2 -> length i1 = length i2 -> length k1 = length k2 -> length salt1 = length salt2 ->
  (* expand on an object *)
  hkdf_expand_c_L perm v s1 i1 outlen =
    (hkdf_expand_c perm v s1 i1 outlen, tr_hkdf_expand v (pub_hkdf s1) (length i1) outlen) /\
  snd (hkdf_expand_c_L perm v s1 i1 outlen) = snd (hkdf_expand_c_L perm v s2 i2 outlen) /\
  pub_hkdf (fst (fst (hkdf_expand_c perm v s1 i1 outlen))) = pub_hkdf_expand (pub_hkdf s1) outlen /\
  (* extract, and the one-shot *)
  hkdf_extract_c_L perm v k1 salt1 =
    (hkdf_extract_c perm v k1 salt1, tr_hkdf_extract v (length k1) (length salt1)) /\
  pub_hkdf (hkdf_extract_c perm v k1 salt1) = (1, 32, 32, 32) /\
  hkdf_c_L perm v k1 salt1 i1 outlen =
    (hkdf_c perm v k1 salt1 i1 outlen, tr_hkdf v (length k1) (length salt1) (length i1) outlen) /\
  snd (hkdf_c_L perm v k1 salt1 i1 outlen) = snd (hkdf_c_L perm v k2 salt2 i2 outlen).
Proof.
  intros perm v s1 s2 i1 i2 outlen k1 k2 salt1 salt2 Hp Hx Ps Hi Hk Hs.
  split; [now apply hkdf_expand_c_L_eq|]. split; [now apply hkdf_expand_c_L_indep|].
  split; [now apply hkdf_expand_c_pub|].
  destruct (hkdf_extract_c_L_eq perm Hp v Hx k1 salt1) as [E P]. split; [exact E|]. split; [exact P|].
  split; [now apply hkdf_c_L_eq|now apply hkdf_c_L_indep].
Qed.

Lemma c11_pbkdf2 : forall perm pw1 pw2 salt1 salt2 count outlen, perm_len_ok perm ->
  length pw1 = length pw2 -> length salt1 = length salt2 ->
  pbkdf2_c_L perm pw1 salt1 count outlen =
    (pbkdf2_c perm pw1 salt1 count outlen, tr_pbkdf2 (length pw1) (length salt1) count outlen) /\
  snd (pbkdf2_c_L perm pw1 salt1 count outlen) = snd (pbkdf2_c_L perm pw2 salt2 count outlen).
Proof. intros. split; [now apply pbkdf2_c_L_eq|now apply pbkdf2_c_L_indep]. Qed.

Lemma c11_prng : forall perm s1 s2 n sys1 sys2 d1 d2,
  pub_prng s1 = pub_prng s2 -> pub_sys sys1 = pub_sys sys2 -> length d1 = length d2 ->
  (* fetch *)
  prng_fetch_L perm s1 n sys1 = (prng_fetch perm s1 n sys1, tr_prng_fetch (pub_prng s1) n (pub_sys sys1)) /\
  snd (prng_fetch_L perm s1 n sys1) = snd (prng_fetch_L perm s2 n sys2) /\
  pub_prng (fst (fst (prng_fetch perm s1 n sys1))) = pub_prng (fst (fst (prng_fetch perm s2 n sys2))) /\
  (* reseed *)
  prng_reseed_L perm s1 sys1 =
    (prng_reseed perm s1 sys1, tr_reseed (pub_xof (r_xof s1)) (fst (fst (next_pub (pub_sys sys1))))) /\
  snd (prng_reseed_L perm s1 sys1) = snd (prng_reseed_L perm s2 sys2) /\
  pub_prng (fst (fst (prng_reseed perm s1 sys1))) = ((0, false), 0) /\
  (* feed *)
  prng_feed_L perm s1 d1 = (prng_feed perm s1 d1, tr_prng_feed (pub_xof (r_xof s1)) (length d1)) /\
  snd (prng_feed_L perm s1 d1) = snd (prng_feed_L perm s2 d2) /\
  pub_prng (prng_feed perm s1 d1) = ((0, false), r_counter s1) /\
  (* init *)
  prng_init_L perm sys1 = (prng_init perm sys1, tr_prng_init (fst (fst (next_pub (pub_sys sys1))))) /\
  snd (prng_init_L perm sys1) = snd (prng_init_L perm sys2) /\
  pub_prng (fst (fst (prng_init perm sys1))) = ((0, false), 0).
Proof.
  intros perm s1 s2 n sys1 sys2 d1 d2 Hp Hs Hd.
  destruct (prng_fetch_L_indep perm s1 s2 n sys1 sys2 Hp Hs) as [F1 F2].
  destruct (prng_reseed_L_indep perm s1 s2 sys1 sys2 Hp Hs) as [R1 _].
  destruct (prng_feed_L_indep perm s1 s2 d1 d2 Hp Hd) as [D1 _].
  split; [apply prng_fetch_L_eq|]. split; [exact F1|]. split; [exact F2|].
  split; [apply prng_reseed_L_eq|]. split; [exact R1|]. split; [apply prng_reseed_pub|].
  split; [apply prng_feed_L_eq|]. split; [exact D1|]. split; [apply prng_feed_pub|].
  split; [apply prng_init_L_eq|]. split; [now apply prng_init_L_indep|apply prng_init_pub].
Qed.

Lemma c11_siv : forall perm v K1 K2 N1 N2 A1 A2 P1 P2 C1 C2, perm_len_ok perm -> wf_variant v ->
  length K1 = length K2 -> length N1 = length N2 -> length A1 = length A2 ->
  length P1 = length P2 -> length C1 = length C2 ->
  siv_encrypt_c_L perm v K1 N1 A1 P1 =
    (siv_encrypt_c perm v K1 N1 A1 P1, tr_siv_encrypt v (length K1) (length N1) (length A1) (length P1)) /\
  snd (siv_encrypt_c_L perm v K1 N1 A1 P1) = snd (siv_encrypt_c_L perm v K2 N2 A2 P2) /\
  siv_decrypt_c_L perm v K1 N1 A1 C1 =
    (siv_decrypt_c perm v K1 N1 A1 C1, tr_siv_decrypt v (length K1) (length N1) (length A1) (length C1)) /\
  snd (siv_decrypt_c_L perm v K1 N1 A1 C1) = snd (siv_decrypt_c_L perm v K2 N2 A2 C2).
Proof.
  intros. split; [now apply siv_encrypt_c_L_eq|]. split; [now apply siv_encrypt_c_L_indep|].
  split; [now apply siv_decrypt_c_L_eq|now apply siv_decrypt_c_L_indep].
Qed.

Lemma c11_isap : forall perm iv pk1 pk2 N1 N2 A1 A2 P1 P2 C1 C2 y1 y2, perm_len_ok perm -> i_klen iv <= 40 ->
  length (pk_ke pk1) = 40 -> length (pk_ka pk1) = 40 -> length (pk_ke pk2) = 40 -> length (pk_ka pk2) = 40 ->
  length N1 = length N2 -> length A1 = length A2 -> length P1 = length P2 -> length C1 = length C2 ->
  length y1 = length y2 ->
  (* re-keying: the absorbed bits are secret in the MAC *)
  isap_rekey_c_L perm iv (pk_ka pk1) y1 = (isap_rekey_c perm iv (pk_ka pk1) y1, tr_isap_rekey iv (length y1)) /\
  snd (isap_rekey_c_L perm iv (pk_ka pk1) y1) = snd (isap_rekey_c_L perm iv (pk_ka pk2) y2) /\
  isap_encrypt_c_L perm iv pk1 N1 A1 P1 =
    (isap_encrypt_c perm iv pk1 N1 A1 P1, tr_isap_encrypt iv (length N1) (length A1) (length P1)) /\
  snd (isap_encrypt_c_L perm iv pk1 N1 A1 P1) = snd (isap_encrypt_c_L perm iv pk2 N2 A2 P2) /\
  isap_decrypt_c_L perm iv pk1 N1 A1 C1 =
    (isap_decrypt_c perm iv pk1 N1 A1 C1, tr_isap_decrypt iv (length N1) (length A1) (length C1)) /\
  snd (isap_decrypt_c_L perm iv pk1 N1 A1 C1) = snd (isap_decrypt_c_L perm iv pk2 N2 A2 C2).
Proof.
  intros. split; [apply isap_rekey_c_L_eq|]. split; [now apply isap_rekey_c_L_indep|].
  split; [now apply isap_encrypt_c_L_eq|]. split; [now apply isap_encrypt_c_L_indep|].
  split; [now apply isap_decrypt_c_L_eq|now apply isap_decrypt_c_L_indep].
Qed.

Lemma c11_kmac_kdf_init : forall perm v k1 k2 c1 c2 outlen, length k1 = length k2 -> length c1 = length c2 ->
  kmac_init_L perm v k1 c1 outlen =
    (kmac_init perm v k1 c1 outlen, tr_kmac_init v (length k1) (length c1) outlen) /\
  snd (kmac_init_L perm v k1 c1 outlen) = snd (kmac_init_L perm v k2 c2 outlen) /\
  kdf_init_L perm v k1 c1 outlen =
    (kdf_init perm v k1 c1 outlen, tr_kdf_init v (length k1) (length c1) outlen) /\
  snd (kdf_init_L perm v k1 c1 outlen) = snd (kdf_init_L perm v k2 c2 outlen).
Proof.
  intros perm v k1 k2 c1 c2 outlen Hk Hc. destruct (kmac_init_L_indep perm v k1 k2 c1 c2 outlen Hk Hc) as [I1 I2].
  split; [apply kmac_init_L_eq|]. split; [exact I1|]. split; [apply kdf_init_L_eq|exact I2].
Qed.

Lemma c11_aead_inc : forall perm v s1 s2 A1 A2 d1 d2 tag1 tag2, perm_len_ok perm ->
  pub_inc s1 = pub_inc s2 -> length A1 = length A2 -> length d1 = length d2 -> length tag1 = length tag2 ->
  length (i_st s1) = 40 -> length (i_st s2) = 40 ->
  inc_start_L perm v s1 A1 =
    (inc_start perm v s1 A1, tr_inc_start v (length (i_key s1)) (length (i_nonce s1)) (length A1)) /\
  snd (inc_start_L perm v s1 A1) = snd (inc_start_L perm v s2 A2) /\
  inc_encrypt_block_L perm v s1 d1 =
    (inc_encrypt_block perm v s1 d1, tr_duplex (v_pb v) (v_rate v) (i_posn s1) (length d1)) /\
  snd (inc_encrypt_block_L perm v s1 d1) = snd (inc_encrypt_block_L perm v s2 d2) /\
  i_posn (fst (inc_encrypt_block perm v s1 d1)) = pos_duplex (v_rate v) (i_posn s1) (length d1) /\
  inc_decrypt_block_L perm v s1 d1 =
    (inc_decrypt_block perm v s1 d1, tr_duplex (v_pb v) (v_rate v) (i_posn s1) (length d1)) /\
  snd (inc_decrypt_block_L perm v s1 d1) = snd (inc_decrypt_block_L perm v s2 d2) /\
  i_posn (fst (inc_decrypt_block perm v s1 d1)) = pos_duplex (v_rate v) (i_posn s1) (length d1) /\
  inc_encrypt_finalize_L perm v s1 =
    (inc_encrypt_finalize perm v s1, tr_finalize v (i_posn s1) (length (i_key s1))) /\
  inc_decrypt_finalize_L perm v s1 tag1 =
    (inc_decrypt_finalize perm v s1 tag1,
     tr_finalize v (i_posn s1) (length (i_key s1)) ++ tr_check_tag 0 (Nat.min 16 (length tag1))) /\
  snd (inc_decrypt_finalize_L perm v s1 tag1) = snd (inc_decrypt_finalize_L perm v s2 tag2).
Proof.
  intros perm v s1 s2 A1 A2 d1 d2 tag1 tag2 Hp Pp HA Hd Ht L1 L2.
  assert (E1 : i_posn s1 = i_posn s2) by (apply (f_equal (fun x => fst (fst x))) in Pp; exact Pp).
  assert (E2 : length (i_key s1) = length (i_key s2)) by (apply (f_equal (fun x => snd (fst x))) in Pp; exact Pp).
  assert (E3 : length (i_nonce s1) = length (i_nonce s2)) by (apply (f_equal snd) in Pp; exact Pp).
  destruct (inc_blocks_indep perm v s1 s2 d1 d2 E1 Hd) as [B1 B2].
  split; [apply inc_start_L_eq|]. split; [now rewrite !inc_start_L_eq, E2, E3, HA|].
  split; [apply inc_encrypt_block_L_eq|]. split; [exact B1|]. split; [apply inc_encrypt_block_L_eq|].
  split; [apply inc_decrypt_block_L_eq|]. split; [exact B2|]. split; [apply inc_decrypt_block_L_eq|].
  split; [reflexivity|]. split; [now apply inc_decrypt_finalize_L_eq|].
  rewrite !inc_decrypt_finalize_L_eq by assumption. cbn [snd]. now rewrite E1, E2, Ht.
Qed.

(* ======================================================================== *)
(* 10. ascon_prf_short, ascon_random, save_seed / load_seed                 *)
(* ======================================================================== *)
Section RestLP.
Variable perm : nat -> bytes -> bytes.

Lemma random_oneshot_L_eq n sys :
  random_oneshot_L perm n sys = (random_oneshot perm n sys, tr_random_oneshot n (pub_sys sys)).
Proof.
  unfold random_oneshot_L, random_oneshot, tr_random_oneshot. rewrite next_pub_sys.
  destruct (next_sys sys) as [[seed ok] sys']. cbn [fst snd]. unfold xof_init_fixed_L.
  rewrite xof_absorb_L_eq. cbv beta iota. rewrite xof_squeeze_L_eq, xof_absorb_pub, xof_init_fixed_pub.
  destruct (xof_squeeze perm vxof (xof_absorb perm vxof (xof_init_fixed perm vxof (N.of_nat n)) seed) n) as [hx out].
  reflexivity.
Qed.

Lemma prng_reseed_sys s sys : pub_sys (snd (prng_reseed perm s sys)) = snd (next_pub (pub_sys sys)).
Proof.
  unfold prng_reseed. rewrite next_pub_sys. destruct (next_sys sys) as [[seed ok] sys']. reflexivity.
Qed.

Lemma prng_save_seed_L_eq s st sys :
  prng_save_seed_L perm s st sys =
  (prng_save_seed perm s st sys, tr_save_seed (pub_prng s) (pub_storage st) (pub_sys sys)).
Proof.
  unfold prng_save_seed_L, prng_save_seed, tr_save_seed, pub_storage.
  destruct st as [st|]; [|reflexivity]. destruct (st_size st <? 32); [reflexivity|].
  rewrite prng_fetch_L_eq. destruct (prng_fetch perm s 32 sys) as [[s1 seed] sys1]. reflexivity.
Qed.

Lemma prng_load_seed_L_eq s st sys :
  prng_load_seed_L perm s st sys =
  (prng_load_seed perm s st sys, tr_load_seed (pub_prng s) (pub_storage st) (pub_sys sys)).
Proof.
  unfold prng_load_seed_L, prng_load_seed, tr_load_seed, pub_storage.
  destruct st as [st|]; [|reflexivity]. destruct (st_size st <? 32); [reflexivity|].
  destruct (st_read st) as [r data]. cbn [fst snd].
  destruct (r =? 32)%Z.
  - rewrite prng_feed_L_eq. cbv beta iota. rewrite prng_reseed_L_eq.
    pose proof (prng_feed_pub perm s (firstn 32 data)) as Pf.
    set (s1 := prng_feed perm s (firstn 32 data)) in *.
    pose proof (prng_reseed_pub perm s1 sys) as Pr. pose proof (prng_reseed_sys s1 sys) as Ps.
    destruct (prng_reseed perm s1 sys) as [[s2 ok] sys2]. cbn [fst snd] in Pr, Ps. cbv beta iota.
    rewrite prng_fetch_L_eq, Pr, Ps, firstn_length.
    apply (f_equal fst) in Pf. cbn [fst pub_prng] in Pf. rewrite Pf.
    destruct (prng_fetch perm s2 32 sys2) as [[s3 seed] sys3]. cbn [fst pub_prng]. rewrite <- ?app_assoc. reflexivity.
  - cbv beta iota. rewrite prng_reseed_L_eq.
    pose proof (prng_reseed_pub perm s sys) as Pr. pose proof (prng_reseed_sys s sys) as Ps.
    destruct (prng_reseed perm s sys) as [[s2 ok] sys2]. cbn [fst snd] in Pr, Ps. cbv beta iota.
    rewrite prng_fetch_L_eq, Pr, Ps.
    destruct (prng_fetch perm s2 32 sys2) as [[s3 seed] sys3]. cbn [fst pub_prng]. rewrite <- ?app_assoc. reflexivity.
Qed.

End RestLP.

Lemma c11_rest : forall perm K1 K2 m1 m2 outlen n s1 s2 st1 st2 sys1 sys2,
  length K1 = length K2 -> length m1 = length m2 ->
  pub_prng s1 = pub_prng s2 -> pub_storage st1 = pub_storage st2 -> pub_sys sys1 = pub_sys sys2 ->
  prf_short_c_L perm K1 m1 outlen = (prf_short_c perm K1 m1 outlen, tr_prf_short (length K1) (length m1) outlen) /\
  snd (prf_short_c_L perm K1 m1 outlen) = snd (prf_short_c_L perm K2 m2 outlen) /\
  random_oneshot_L perm n sys1 = (random_oneshot perm n sys1, tr_random_oneshot n (pub_sys sys1)) /\
  snd (random_oneshot_L perm n sys1) = snd (random_oneshot_L perm n sys2) /\
  prng_save_seed_L perm s1 st1 sys1 =
    (prng_save_seed perm s1 st1 sys1, tr_save_seed (pub_prng s1) (pub_storage st1) (pub_sys sys1)) /\
  snd (prng_save_seed_L perm s1 st1 sys1) = snd (prng_save_seed_L perm s2 st2 sys2) /\
  prng_load_seed_L perm s1 st1 sys1 =
    (prng_load_seed perm s1 st1 sys1, tr_load_seed (pub_prng s1) (pub_storage st1) (pub_sys sys1)) /\
  snd (prng_load_seed_L perm s1 st1 sys1) = snd (prng_load_seed_L perm s2 st2 sys2).
Proof.
  intros perm K1 K2 m1 m2 outlen n s1 s2 st1 st2 sys1 sys2 HK Hm Hp Hst Hs.
  split; [reflexivity|]. split; [unfold prf_short_c_L; cbn [snd]; now rewrite HK, Hm|].
  split; [apply random_oneshot_L_eq|]. split; [now rewrite !random_oneshot_L_eq, Hs|].
  split; [apply prng_save_seed_L_eq|]. split; [now rewrite !prng_save_seed_L_eq, Hp, Hst, Hs|].
  split; [apply prng_load_seed_L_eq|]. now rewrite !prng_load_seed_L_eq, Hp, Hst, Hs.
Qed.
