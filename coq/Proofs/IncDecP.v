(* Incremental decryption (C02) and sessions that mix encrypt and decrypt
   packets on one incremental object (C14), for the incremental model of
   Model/Aeadm.v: inc_init / inc_reinit / inc_start / inc_encrypt_block /
   inc_decrypt_block / inc_encrypt_finalize / inc_decrypt_finalize - the
   functions the driver extracts as x_inc_* and the harness drives as
   AI ... INIT / REINIT / START / ENCB / DECB / ENCF / DECF / NONCE.

   The run functions defined here only compose those model functions (a fold
   of inc_decrypt_block over the chunks, then inc_decrypt_finalize); they add
   no behaviour of their own. *)
From AsconV Require Import Model.Aeadm Model.Noncem Proofs.SpongeP Proofs.AeadP Proofs.NonceP.
From Coq Require Import ZArith.
Local Open Scope nat_scope.

(* ---- runs -------------------------------------------------------------------- *)

Section Runs.
Variable perm : nat -> bytes -> bytes.

(* one inc_decrypt_block call per chunk; the plaintext bytes each call hands
   back are kept per call *)
Definition inc_decrypt_chunks (v : aead_variant) (s : inc_state) (chunks : list bytes) : inc_state * list bytes :=
  fold_left (fun '(s, outs) d => let '(s', o) := inc_decrypt_block perm v s d in (s', outs ++ [o])) chunks (s, []).

(* one decrypt packet on an object: start, blocks, finalize with the tag.
   Result: the object afterwards, the int returned by *_decrypt_finalize and
   the plaintext chunks released by the block calls (in the C they are in the
   caller's buffers before finalize runs; finalize calls
   ascon_aead_check_tag(0, 0, ...) and therefore touches none of them) *)
Definition packet_decrypt (v : aead_variant) (s : inc_state) (A : bytes) (chunks : list bytes) (tag : bytes)
  : inc_state * (Z * list bytes) :=
  let s0 := inc_start perm v s A in
  let '(s1, outs) := inc_decrypt_chunks v s0 chunks in
  let '(s2, r) := inc_decrypt_finalize perm v s1 tag in
  (s2, (r, outs)).

(* a whole incremental decryption on a fresh object *)
Definition inc_decrypt_run (v : aead_variant) (K N A : bytes) (chunks : list bytes) (tag : bytes) : Z * list bytes :=
  snd (packet_decrypt v (inc_init v (Some N) (Some K)) A chunks tag).

(* sessions: any sequence of packets on one object, each an encryption or a
   decryption with some tag *)
Inductive packet :=
| PEnc (A : bytes) (chunks : list bytes)
| PDec (A : bytes) (chunks : list bytes) (tag : bytes).
Inductive packet_out :=
| OEnc (c : bytes)                      (* ciphertext || tag *)
| ODec (r : Z) (outs : list bytes).     (* verdict, released plaintext chunks *)

Definition packet_run (v : aead_variant) (s : inc_state) (p : packet) : inc_state * packet_out :=
  match p with
  | PEnc A chunks => let '(s', c) := packet_encrypt perm v s A chunks in (s', OEnc c)
  | PDec A chunks tag => let '(s', (r, outs)) := packet_decrypt v s A chunks tag in (s', ODec r outs)
  end.

(* per packet: the nonce field read back after the packet (AI NONCE) and the
   packet's outputs; and the object at the end *)
Fixpoint session_run (v : aead_variant) (s : inc_state) (packets : list packet) : inc_state * list (bytes * packet_out) :=
  match packets with
  | [] => (s, [])
  | p :: rest =>
    let '(s', o) := packet_run v s p in
    let '(s'', os) := session_run v s' rest in
    (s'', (i_nonce s', o) :: os)
  end.

(* what a packet must produce under key K and nonce N *)
Definition packet_ok (v : aead_variant) (K N : bytes) (p : packet) (o : packet_out) : Prop :=
  match p, o with
  | PEnc A chunks, OEnc c => c = encrypt perm v K N A (concat chunks)
  | PDec A chunks tag, ODec r outs =>
    map (@length _) outs = map (@length _) chunks /\
    match decrypt perm v K N A (concat chunks ++ tag) with
    | Some m => r = 0%Z /\ concat outs = m
    | None => r = (-1)%Z
    end /\
    decrypt_c perm v K N A (concat chunks ++ tag) =
      DecDone r (if (r =? 0)%Z then concat outs else zeros (length (concat chunks)))
  | _, _ => False
  end.

Definition packet_wf (p : packet) : Prop :=
  match p with
  | PEnc _ _ => True
  | PDec _ _ tag => length tag = 16 /\ bytes_ok tag
  end.

End Runs.

(* ---- nonce arithmetic ---------------------------------------------------------- *)

Lemma nonce_add_S n i : nonce_add n (S i) = increment_nonce (nonce_add n i).
Proof.
  revert n; induction i as [|i IH]; intros n; [reflexivity|].
  change (nonce_add n (S (S i))) with (nonce_add (increment_nonce n) (S i)). rewrite IH. reflexivity.
Qed.

Lemma nonce_add_length n i : length (nonce_add n i) = length n.
Proof.
  induction i as [|i IH]; [reflexivity|]. rewrite nonce_add_S.
  rewrite (proj1 (proj2 (increment_nonce_spec _))). exact IH.
Qed.

Local Open Scope N_scope.
Lemma le_val_bound l : bytes_ok l -> le_val l < 256 ^ N.of_nat (length l).
Proof.
  induction l as [|x l IH]; intros Hl; [cbn; lia|]. inversion Hl; subst.
  cbn [le_val length]. rewrite Nat2N.inj_succ, N.pow_succ_r by lia. specialize (IH H2). lia.
Qed.

(* the i-th successor is N + i modulo 2^128, big-endian *)
Lemma nonce_add_val n i : length n = 16%nat -> bytes_ok n ->
  be_decode (nonce_add n i) = (be_decode n + N.of_nat i) mod 2 ^ 128.
Proof.
  intros Hn Hok. induction i as [|i IH].
  - cbn [nonce_add N.of_nat]. rewrite N.add_0_r. symmetry. apply N.mod_small.
    rewrite be_decode_le. pose proof (le_val_bound (rev n) (Forall_rev Hok)) as B.
    rewrite rev_length, Hn in B. exact B.
  - rewrite nonce_add_S. destruct (increment_nonce_spec (nonce_add n i)) as [V _].
    rewrite V, nonce_add_length, Hn, pow256_16, IH.
    rewrite N.add_mod_idemp_l by discriminate. f_equal. lia.
Qed.

(* no nonce repeats within 2^128 consecutive packets: the successors N+i and N+j of one starting nonce differ
   whenever 0 < j - i < 2^128 (the counter is a full 128-bit big-endian integer: no byte is skipped or frozen) *)
Lemma mod_shift_neq r d M : r < M -> 0 < d -> d < M -> (r + d) mod M <> r.
Proof.
  intros Hr Hd HdM E. destruct (N.lt_ge_cases (r + d) M) as [Hs|Hs].
  - rewrite N.mod_small in E by exact Hs. lia.
  - assert (U : (r + d) mod M = r + d - M).
    { symmetry. apply (N.mod_unique (r + d) M 1 (r + d - M)); lia. }
    rewrite U in E. lia.
Qed.

Lemma nonce_add_distinct n i j : length n = 16%nat -> bytes_ok n -> (i < j)%nat ->
  N.of_nat j - N.of_nat i < 2 ^ 128 -> nonce_add n i <> nonce_add n j.
Proof.
  intros Hn Hok Hij Hd E.
  pose proof (nonce_add_val n i Hn Hok) as Vi. pose proof (nonce_add_val n j Hn Hok) as Vj.
  rewrite E in Vi. rewrite Vi in Vj. clear Vi E.
  set (a := be_decode n) in *. set (M := 2 ^ 128) in *.
  assert (HM : M <> 0) by (subst M; discriminate).
  replace (a + N.of_nat j) with ((a + N.of_nat i) + (N.of_nat j - N.of_nat i)) in Vj by lia.
  pose proof (N.add_mod_idemp_l (a + N.of_nat i) (N.of_nat j - N.of_nat i) M HM) as Hm.
  rewrite <- Hm in Vj. symmetry in Vj. revert Vj. apply mod_shift_neq; [apply N.mod_lt; exact HM|lia|exact Hd].
Qed.
Local Close Scope N_scope.

(* ---- the modes ------------------------------------------------------------------- *)

Section WithPerm.
Variable perm : nat -> bytes -> bytes.
Hypothesis perm_len : forall r s, length s = 40 -> length (perm r s) = 40.
Variable v : aead_variant.
Hypothesis Hv : wf_variant v.
Hypothesis perm_ok : forall r s, bytes_ok (perm r s).

Local Notation f := (perm (v_pb v)).
Local Notation rate := (v_rate v).

(* the decrypt-block fold = one duplex_c call on the concatenation; the
   released chunks are that call's output cut at the caller's chunk boundaries *)
Lemma inc_decrypt_chunks_fold (chunks : list bytes) : forall s outs0, i_posn s < rate -> length (i_st s) = 40 ->
  let D := duplex_c bf_dec f rate (i_st s, i_posn s) (concat chunks) in
  exists os,
    fold_left (fun '(s, outs) d => let '(s', o) := inc_decrypt_block perm v s d in (s', outs ++ [o])) chunks (s, outs0) =
    ({| i_st := fst (fst D); i_key := i_key s; i_nonce := i_nonce s; i_posn := snd (fst D) |}, outs0 ++ os) /\
    concat os = snd D /\ map (@length _) os = map (@length _) chunks.
Proof.
  pose proof Hv as [_ [Hr0 [Hr40 _]]].
  induction chunks as [|d ds IH]; intros s outs0 Hp Hl; cbv zeta.
  - exists []. cbn [fold_left concat map].
    rewrite (duplex_c_serial bf_dec f rate 40 (f_len40 perm perm_len v) Hr0 Hr40) by auto.
    cbn [serial fst snd]. rewrite app_nil_r. destruct s; repeat split.
  - cbn [fold_left concat]. unfold inc_decrypt_block at 2.
    rewrite (duplex_c_serial bf_dec f rate 40 (f_len40 perm perm_len v) Hr0 Hr40 (i_st s) (i_posn s) (d ++ concat ds)) by auto.
    rewrite serial_app.
    rewrite (duplex_c_serial bf_dec f rate 40 (f_len40 perm perm_len v) Hr0 Hr40 (i_st s) (i_posn s) d) by auto.
    pose proof (serial_inv bf_dec f rate 40 (f_len40 perm perm_len v) Hr0 Hr40 (i_st s) (i_posn s) d Hp Hl) as [I1 [I2 [I3 _]]].
    destruct (serial bf_dec f rate (i_st s, i_posn s) d) as [[s1 p1] o1]. cbn [fst snd] in *.
    destruct (IH {| i_st := s1; i_key := i_key s; i_nonce := i_nonce s; i_posn := p1 |} (outs0 ++ [o1]) I1 I2) as (os & F & C & L).
    cbv zeta in F. cbn [i_st i_posn i_key i_nonce] in F, C.
    rewrite (duplex_c_serial bf_dec f rate 40 (f_len40 perm perm_len v) Hr0 Hr40 s1 p1 (concat ds)) in F, C by auto.
    exists (o1 :: os). split; [|split].
    + rewrite F. now rewrite <- app_assoc.
    + cbn [concat]. now rewrite C.
    + cbn [map]. now rewrite I3, L.
Qed.

(* one-shot C shape under a weaker hypothesis than AeadP.decrypt_c_spec: only
   the tag part of the input has to consist of bytes *)
Lemma decrypt_c_spec_tag K N A C : wf_kn v K N -> bytes_ok K -> bytes_ok (skipn (length C - 16) C) ->
  decrypt_c perm v K N A C =
  if length C <? 16 then DecShort
  else match decrypt perm v K N A C with
       | Some m => DecDone 0 m
       | None => DecDone (-1) (zeros (length C - 16))
       end.
Proof.
  intros Hkn HK HC. unfold decrypt_c, decrypt.
  destruct (Nat.ltb_spec (length C) 16) as [Hs|Hs]; [reflexivity|].
  rewrite (start_c_spec perm perm_len v Hv) by exact Hkn.
  pose proof (pre_state_len perm perm_len v Hv K N A Hkn) as Hl.
  pose proof (duplex_c_spec perm perm_len v Hv bf_dec (pre_state perm v K N A) (firstn (length C - 16) C) Hl) as D.
  pose proof Hv as [_ [Hr0 [Hr40 _]]].
  pose proof (serial_inv bf_dec f rate 40 (f_len40 perm perm_len v) Hr0 Hr40 (pre_state perm v K N A) 0 (firstn (length C - 16) C) Hr0 Hl) as [_ [I2 [I3 _]]].
  rewrite <- (duplex_c_serial bf_dec f rate 40 (f_len40 perm perm_len v) Hr0 Hr40) in I2, I3 by auto.
  destruct (duplex_c bf_dec f rate (pre_state perm v K N A, 0) (firstn (length C - 16) C)) as [[s1 pos] o].
  cbn [fst snd] in *. destruct D as [_ D]. rewrite <- D. rewrite (finalize_c_spec perm v).
  rewrite check_tag_exact.
  - destruct (beq_bytes _ _); [reflexivity|].
    rewrite map_zero_zeros, I3, firstn_length. f_equal. f_equal. lia.
  - rewrite (finalize_len perm perm_len v) by now rewrite xor_at_len. rewrite skipn_length. lia.
  - now apply finalize_ok.
  - exact HC.
Qed.

(* C02 / C14: one decrypt packet on an object holding key K and nonce N *)
Theorem packet_decrypt_spec s A chunks tag :
  wf_kn v (i_key s) (i_nonce s) -> bytes_ok (i_key s) -> length tag = 16 -> bytes_ok tag ->
  let '(s', (r, outs)) := packet_decrypt perm v s A chunks tag in
  i_key s' = i_key s /\ i_nonce s' = increment_nonce (i_nonce s) /\
  map (@length _) outs = map (@length _) chunks /\
  (exists t', length t' = 16 /\
     encrypt perm v (i_key s) (i_nonce s) A (concat outs) = concat chunks ++ t' /\
     r = if beq_bytes t' tag then 0%Z else (-1)%Z) /\
  match decrypt perm v (i_key s) (i_nonce s) A (concat chunks ++ tag) with
  | Some m => r = 0%Z /\ concat outs = m
  | None => r = (-1)%Z
  end.
Proof.
  intros Hkn HK Ht Htok. unfold packet_decrypt, inc_decrypt_chunks.
  pose proof Hv as [_ [Hr0 [Hr40 _]]].
  set (K := i_key s) in *. set (N := i_nonce s) in *.
  pose proof (pre_state_len perm perm_len v Hv K N A Hkn) as Hl.
  destruct (inc_decrypt_chunks_fold chunks (inc_start perm v s A) [] Hr0) as (os & F & C & L).
  { cbn [inc_start i_st]. now apply (start_c_len perm perm_len v Hv). }
  cbv zeta in F. rewrite F. clear F. cbn [inc_start i_st i_posn i_key i_nonce app] in *.
  fold K in C |- *. fold N in C |- *.
  rewrite (start_c_spec perm perm_len v Hv K N A Hkn) in C |- *.
  pose proof (duplex_c_spec perm perm_len v Hv bf_dec (pre_state perm v K N A) (concat chunks) Hl) as D.
  destruct (duplex_c bf_dec f rate (pre_state perm v K N A, 0) (concat chunks)) as [[s1 pos] o].
  cbn [fst snd] in *. destruct D as [_ D].
  unfold inc_decrypt_finalize, inc_final_state. cbn [i_st i_posn i_key i_nonce].
  change (get_at (xor_at (perm 0 (xor_at (xor_at s1 pos [128%N]) rate K)) 24 (skipn (v_klen v - 16) K)) 24 16)
    with (finalize perm v (xor_at s1 pos [0x80%N]) K).
  destruct (spec_duplex bf_dec f rate (pre_state perm v K N A) (concat chunks)) as [sf p] eqn:SD.
  injection D as D1 D2. rewrite D2 in C. clear D2 o. rewrite D1. clear D1.
  pose proof (spec_duplex_len perm perm_len v Hv bf_dec (pre_state perm v K N A) (concat chunks) Hl) as Lsf.
  rewrite SD in Lsf. cbn [fst] in Lsf.
  pose proof (finalize_len perm perm_len v sf K Lsf) as Lt.
  rewrite check_tag_exact; [|lia|now apply finalize_ok|exact Htok].
  destruct (spec_duplex_dec_enc perm perm_len v Hv _ _ _ _ Hl SD) as [SE Lp].
  assert (R : fst (if beq_bytes (finalize perm v sf K) tag then (0%Z, @nil BinNums.N) else ((-1)%Z, map (fun _ : BinNums.N => 0%N) (@nil BinNums.N))) =
              if beq_bytes (finalize perm v sf K) tag then 0%Z else (-1)%Z)
    by (destruct (beq_bytes _ _); reflexivity).
  rewrite R. clear R.
  split; [reflexivity|]. split; [reflexivity|]. split; [exact L|]. split.
  - exists (finalize perm v sf K). split; [exact Lt|]. split; [|reflexivity].
    unfold encrypt. rewrite C, SE. reflexivity.
  - unfold decrypt. rewrite app_length, Ht.
    destruct (Nat.ltb_spec (length (concat chunks) + 16) 16) as [Hs|Hs]; [lia|].
    replace (length (concat chunks) + 16 - 16) with (length (concat chunks)) by lia.
    rewrite firstn_app, Nat.sub_diag, firstn_O, app_nil_r, firstn_all.
    rewrite skipn_app, Nat.sub_diag, skipn_all. cbn [skipn app]. rewrite SD.
    destruct (beq_bytes (finalize perm v sf K) tag); [split; [reflexivity|exact C]|reflexivity].
Qed.

(* the released chunks do not depend on the tag: they are in the caller's
   hands before the tag is looked at *)
Lemma packet_decrypt_outs_tag s A chunks tag tag' :
  snd (snd (packet_decrypt perm v s A chunks tag)) = snd (snd (packet_decrypt perm v s A chunks tag')).
Proof.
  unfold packet_decrypt. destruct (inc_decrypt_chunks perm v (inc_start perm v s A) chunks) as [s1 outs].
  reflexivity.
Qed.

(* ... and in the form of packet_ok (adds the one-shot C shape: same verdict;
   the one-shot zeroes on failure what the incremental calls have released) *)
Theorem packet_decrypt_ok s A chunks tag :
  wf_kn v (i_key s) (i_nonce s) -> bytes_ok (i_key s) -> length tag = 16 -> bytes_ok tag ->
  let '(s', (r, outs)) := packet_decrypt perm v s A chunks tag in
  i_key s' = i_key s /\ i_nonce s' = increment_nonce (i_nonce s) /\
  packet_ok perm v (i_key s) (i_nonce s) (PDec A chunks tag) (ODec r outs).
Proof.
  intros Hkn HK Ht Htok. pose proof (packet_decrypt_spec s A chunks tag Hkn HK Ht Htok) as P.
  destruct (packet_decrypt perm v s A chunks tag) as [s' [r outs]].
  destruct P as (Ek & En & L & _ & M). split; [exact Ek|]. split; [exact En|].
  cbn [packet_ok]. split; [exact L|]. split; [exact M|].
  rewrite decrypt_c_spec_tag; [|exact Hkn|exact HK|].
  - rewrite app_length, Ht. destruct (Nat.ltb_spec (length (concat chunks) + 16) 16) as [Hs|Hs]; [lia|].
    replace (length (concat chunks) + 16 - 16) with (length (concat chunks)) by lia.
    destruct (decrypt perm v (i_key s) (i_nonce s) A (concat chunks ++ tag)) as [m|].
    + destruct M as [-> ->]. reflexivity.
    + subst r. reflexivity.
  - rewrite app_length, Ht. replace (length (concat chunks) + 16 - 16) with (length (concat chunks)) by lia.
    rewrite skipn_app, Nat.sub_diag, skipn_all. exact Htok.
Qed.

(* ---- sessions ------------------------------------------------------------------ *)

Lemma packet_run_ok s p : wf_kn v (i_key s) (i_nonce s) -> bytes_ok (i_key s) -> packet_wf p ->
  let '(s', o) := packet_run perm v s p in
  i_key s' = i_key s /\ i_nonce s' = increment_nonce (i_nonce s) /\
  packet_ok perm v (i_key s) (i_nonce s) p o.
Proof.
  intros Hkn HK Hp. destruct p as [A chunks|A chunks tag]; cbn [packet_run].
  - pose proof (packet_encrypt_spec perm perm_len v Hv s A chunks Hkn) as P.
    destruct (packet_encrypt perm v s A chunks) as [s' c]. destruct P as (Ec & Ek & En).
    split; [exact Ek|]. split; [exact En|]. exact Ec.
  - destruct Hp as [Ht Htok].
    pose proof (packet_decrypt_ok s A chunks tag Hkn HK Ht Htok) as P.
    destruct (packet_decrypt perm v s A chunks tag) as [s' [r outs]]. exact P.
Qed.

Lemma wf_kn_incr K N : wf_kn v K N -> wf_kn v K (increment_nonce N).
Proof.
  intros [HK HN]. split; [exact HK|]. rewrite (proj1 (proj2 (increment_nonce_spec N))). exact HN.
Qed.

(* C14: packet i of any session uses N + i and leaves N + i + 1 in the nonce
   field, whatever the kind of the packet and whatever the verdict; its
   outputs are those of the one-shot functions under N + i *)
Theorem session_run_nth packets : forall s i p,
  wf_kn v (i_key s) (i_nonce s) -> bytes_ok (i_key s) -> Forall packet_wf packets ->
  nth_error packets i = Some p ->
  exists o, nth_error (snd (session_run perm v s packets)) i = Some (nonce_add (i_nonce s) (S i), o) /\
            packet_ok perm v (i_key s) (nonce_add (i_nonce s) i) p o.
Proof.
  induction packets as [|p0 rest IH]; intros s i p Hkn HK Hwf Hn; [destruct i; discriminate|].
  inversion Hwf as [|? ? Hp0 Hrest]; subst.
  cbn [session_run]. pose proof (packet_run_ok s p0 Hkn HK Hp0) as P.
  destruct (packet_run perm v s p0) as [s' o0]. destruct P as (Ek & En & Pok).
  assert (Hkn' : wf_kn v (i_key s') (i_nonce s')) by (rewrite Ek, En; now apply wf_kn_incr).
  assert (HK' : bytes_ok (i_key s')) by now rewrite Ek.
  destruct i as [|i].
  - cbn [nth_error] in Hn. inversion Hn; subst p0.
    destruct (session_run perm v s' rest) as [s'' os]. cbn [snd nth_error nonce_add].
    exists o0. rewrite En. split; [reflexivity|exact Pok].
  - cbn [nth_error] in Hn. destruct (IH s' i p Hkn' HK' Hrest Hn) as (o & Hnth & Hok).
    destruct (session_run perm v s' rest) as [s'' os]. cbn [snd nth_error] in *.
    exists o. rewrite Ek, En in *. cbn [nonce_add]. split; [exact Hnth|exact Hok].
Qed.

(* the object after the whole session: same key, nonce N + number of packets *)
Theorem session_run_final packets : forall s,
  wf_kn v (i_key s) (i_nonce s) -> bytes_ok (i_key s) -> Forall packet_wf packets ->
  i_key (fst (session_run perm v s packets)) = i_key s /\
  i_nonce (fst (session_run perm v s packets)) = nonce_add (i_nonce s) (length packets) /\
  length (snd (session_run perm v s packets)) = length packets.
Proof.
  induction packets as [|p0 rest IH]; intros s Hkn HK Hwf; [repeat split|].
  inversion Hwf as [|? ? Hp0 Hrest]; subst.
  cbn [session_run]. pose proof (packet_run_ok s p0 Hkn HK Hp0) as P.
  destruct (packet_run perm v s p0) as [s' o0]. destruct P as (Ek & En & _).
  assert (Hkn' : wf_kn v (i_key s') (i_nonce s')) by (rewrite Ek, En; now apply wf_kn_incr).
  assert (HK' : bytes_ok (i_key s')) by now rewrite Ek.
  destruct (IH s' Hkn' HK' Hrest) as (A & B & C).
  destruct (session_run perm v s' rest) as [s'' os]. cbn [fst snd length nonce_add] in *.
  rewrite A, B, C, Ek, En. repeat split.
Qed.

(* the nonce handling alone needs no hypothesis at all: *_aead_start increments
   unconditionally, nothing else writes the field *)
Lemma packet_run_nonce s p :
  i_nonce (fst (packet_run perm v s p)) = increment_nonce (i_nonce s) /\ i_key (fst (packet_run perm v s p)) = i_key s.
Proof.
  destruct p as [A chunks|A chunks tag]; cbn [packet_run].
  - unfold packet_encrypt.
    assert (G : forall l s0 acc, let r := fold_left (fun '(s, acc) d => let '(s', o) := inc_encrypt_block perm v s d in (s', acc ++ o)) l (s0, acc) in
                i_nonce (fst r) = i_nonce s0 /\ i_key (fst r) = i_key s0).
    { induction l as [|d l IHl]; intros s0 acc; [split; reflexivity|]. cbn [fold_left].
      unfold inc_encrypt_block at 2 4. destruct (duplex_c bf_enc f rate (i_st s0, i_posn s0) d) as [[s1 p1] o].
      specialize (IHl {| i_st := s1; i_key := i_key s0; i_nonce := i_nonce s0; i_posn := p1 |} (acc ++ o)). exact IHl. }
    specialize (G chunks (inc_start perm v s A) []). cbv zeta in G.
    destruct (fold_left _ chunks (inc_start perm v s A, [])) as [s1 c]. cbn [fst] in G.
    unfold inc_encrypt_finalize. cbn [fst i_nonce i_key]. exact G.
  - unfold packet_decrypt, inc_decrypt_chunks.
    assert (G : forall l s0 acc, let r := fold_left (fun '(s, outs) d => let '(s', o) := inc_decrypt_block perm v s d in (s', outs ++ [o])) l (s0, acc) in
                i_nonce (fst r) = i_nonce s0 /\ i_key (fst r) = i_key s0).
    { induction l as [|d l IHl]; intros s0 acc; [split; reflexivity|]. cbn [fold_left].
      unfold inc_decrypt_block at 2 4. destruct (duplex_c bf_dec f rate (i_st s0, i_posn s0) d) as [[s1 p1] o].
      specialize (IHl {| i_st := s1; i_key := i_key s0; i_nonce := i_nonce s0; i_posn := p1 |} (acc ++ [o])). exact IHl. }
    specialize (G chunks (inc_start perm v s A) []). cbv zeta in G.
    destruct (fold_left _ chunks (inc_start perm v s A, [])) as [s1 c]. cbn [fst] in G.
    unfold inc_decrypt_finalize. cbn [fst i_nonce i_key]. exact G.
Qed.

Theorem session_run_nonces packets : forall s i, i < length packets ->
  exists o, nth_error (snd (session_run perm v s packets)) i = Some (nonce_add (i_nonce s) (S i), o).
Proof.
  induction packets as [|p0 rest IH]; intros s i Hi; [cbn in Hi; lia|].
  cbn [session_run]. pose proof (packet_run_nonce s p0) as [En Ek].
  destruct (packet_run perm v s p0) as [s' o0]. cbn [fst] in En, Ek.
  destruct i as [|i].
  - destruct (session_run perm v s' rest) as [s'' os]. exists o0. cbn [snd nth_error nonce_add]. now rewrite En.
  - cbn [length] in Hi. destruct (IH s' i ltac:(lia)) as (o & Hn).
    destruct (session_run perm v s' rest) as [s'' os]. exists o. cbn [snd nth_error nonce_add] in *. now rewrite <- En.
Qed.

(* ---- re-initialisation (C07) ---------------------------------------------------- *)

(* every packet begins with inc_start, which rebuilds the 40 state bytes from
   IV, key and nonce and resets posn: a session on a re-initialised object is
   the session on a fresh one, whatever the earlier history left behind *)
Theorem session_reinit_init s npub k packets : packets <> [] ->
  session_run perm v (inc_reinit v s npub k) packets = session_run perm v (inc_init v npub k) packets.
Proof.
  intros Hne. destruct packets as [|p rest]; [congruence|].
  cbn [session_run]. destruct p as [A chunks|A chunks tag]; reflexivity.
Qed.

(* with no packet at all the two objects still agree on everything a later
   inc_start reads (key, nonce) and on posn *)
Lemma reinit_fields s npub k :
  i_key (inc_reinit v s npub k) = i_key (inc_init v npub k) /\
  i_nonce (inc_reinit v s npub k) = i_nonce (inc_init v npub k) /\
  i_posn (inc_reinit v s npub k) = i_posn (inc_init v npub k).
Proof. repeat split. Qed.

End WithPerm.

(* The model's start_c builds the state from zeros 40; the C overwrites the
   object's previous state bytes with IV (offset 0), key (offset |IV|) and nonce
   (offset 24).  The two agree for every previous content: the three overwrites
   cover all 40 bytes.  (This is the reason why *_aead_reinit, which leaves the
   old state bytes in place, is indistinguishable from *_aead_init.) *)
Lemma overwrite_any_state iv K N st : length iv + length K = 24 -> length N = 16 -> length st = 40 ->
  set_at (set_at (set_at st 0 iv) (length iv) K) 24 N = iv ++ K ++ N.
Proof.
  intros H1 H2 H3.
  assert (E : st = firstn (length iv) st ++ firstn (length K) (skipn (length iv) st) ++ skipn (length K) (skipn (length iv) st))
    by now rewrite !firstn_skipn.
  set (a := firstn (length iv) st) in *. set (b := firstn (length K) (skipn (length iv) st)) in *.
  set (c := skipn (length K) (skipn (length iv) st)) in *.
  assert (La : length a = length iv) by (unfold a; rewrite firstn_length; lia).
  assert (Lb : length b = length K) by (unfold b; rewrite firstn_length, skipn_length; lia).
  assert (Lc : length c = 16) by (unfold c; rewrite !skipn_length; lia).
  rewrite E. rewrite (set_at_0_full a) by lia.
  rewrite set_at_app_r. rewrite (set_at_0_full b) by lia.
  replace 24 with (length (iv ++ K)) by (rewrite app_length; lia).
  rewrite app_assoc, set_at_app_r.
  replace c with (c ++ []) by apply app_nil_r.
  rewrite set_at_0_full by lia. now rewrite app_nil_r, <- app_assoc.
Qed.
