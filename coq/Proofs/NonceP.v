(* The nonce increment is +1 mod 2^128 big-endian with full carry; sessions. *)
From AsconV Require Import Model.Noncem Proofs.SpongeP Proofs.AeadP.
Local Open Scope N_scope.

(* little-endian value of a byte list *)
Fixpoint le_val (l : bytes) : N :=
  match l with [] => 0 | x :: l' => x + 256 * le_val l' end.

Lemma incr_rev_len l c : length (incr_rev l c) = length l.
Proof. revert c; induction l as [|x l IH]; intros c; [reflexivity|]. cbn. now rewrite IH. Qed.

Lemma incr_rev_val l : forall c, le_val (incr_rev l c) = (le_val l + c) mod (256 ^ N.of_nat (length l)).
Proof.
  induction l as [|x l IH]; intros c.
  - cbn. now rewrite N.mod_1_r.
  - cbn [incr_rev le_val length]. rewrite IH.
    change 255 with (N.ones 8). rewrite N.land_ones, N.shiftr_div_pow2. change (2 ^ 8) with 256.
    rewrite Nat2N.inj_succ, N.pow_succ_r by lia.
    rewrite N.mod_mul_r by (try lia; apply N.pow_nonzero; lia).
    replace (x + 256 * le_val l + c) with ((x + c) + le_val l * 256) by lia.
    rewrite N.mod_add, N.div_add by lia. now rewrite (N.add_comm ((x + c) / 256)).
Qed.

Lemma incr_rev_ok l c : bytes_ok (incr_rev l c).
Proof.
  revert c; induction l as [|x l IH]; intros c; [constructor|]. cbn [incr_rev]. constructor; [|apply IH].
  change 255 with (N.ones 8). rewrite N.land_ones. apply N.mod_lt. lia.
Qed.

Lemma be_decode_le l : be_decode l = le_val (rev l).
Proof.
  unfold be_decode. rewrite <- fold_left_rev_right.
  induction (rev l) as [|x r IH]; [reflexivity|]. cbn [fold_right le_val]. rewrite IH. lia.
Qed.

(* C14: the stored nonce advances by exactly one as a 128-bit big-endian
   integer, carry through all 16 bytes, wrapping at 2^128 *)
Theorem increment_nonce_spec n :
  be_decode (increment_nonce n) = (be_decode n + 1) mod (256 ^ N.of_nat (length n)) /\
  length (increment_nonce n) = length n /\ bytes_ok (increment_nonce n).
Proof.
  unfold increment_nonce. repeat split.
  - rewrite !be_decode_le, rev_involutive, incr_rev_val, rev_length. reflexivity.
  - now rewrite rev_length, incr_rev_len, rev_length.
  - unfold bytes_ok. apply Forall_rev. apply incr_rev_ok.
Qed.

Lemma pow256_16 : 256 ^ N.of_nat 16 = 2 ^ 128.
Proof. reflexivity. Qed.

(* set_counter: low 8 bytes hold the counter big-endian, high 8 bytes are zero *)
Lemma be_decode_app a b : be_decode (a ++ b) = be_decode a * 256 ^ N.of_nat (length b) + be_decode b.
Proof.
  rewrite !be_decode_le, rev_app_distr. generalize (rev a) as ra. rewrite <- (rev_length b). generalize (rev b) as rb.
  induction rb as [|x rb IH]; intros ra; [cbn; lia|].
  cbn [app le_val length]. rewrite IH, Nat2N.inj_succ, N.pow_succ_r by lia. lia.
Qed.

Lemma be_decode_encode k x : x < 256 ^ N.of_nat k -> be_decode (be_encode k x) = x.
Proof.
  revert x; induction k as [|k IH]; intros x H.
  - cbn in *. lia.
  - cbn [be_encode]. rewrite be_decode_app. cbn [length be_decode fold_left]. 
    change 255 with (N.ones 8). rewrite N.land_ones, N.shiftr_div_pow2. change (2 ^ 8) with 256.
    rewrite IH.
    + change (256 ^ N.of_nat 1) with 256. rewrite N.mul_0_l, N.add_0_l, N.mul_comm. symmetry. apply N.div_mod. lia.
    + rewrite Nat2N.inj_succ, N.pow_succ_r in H by lia. apply N.div_lt_upper_bound; lia.
Qed.

Lemma be_decode_zeros k : be_decode (zeros k) = 0.
Proof.
  unfold be_decode, zeros. induction k as [|k IH]; [reflexivity|]. cbn [repeat fold_left]. exact IH.
Qed.

Theorem set_counter_spec c : c < 2 ^ 64 ->
  length (set_counter c) = 16%nat /\ be_decode (set_counter c) = c /\ firstn 8 (set_counter c) = zeros 8.
Proof.
  intros Hc. unfold set_counter. split; [|split].
  - rewrite app_length. unfold zeros. rewrite repeat_length.
    assert (forall n w, length (be_encode n w) = n) as H.
    { induction n as [|n IH]; intros w; [reflexivity|]. cbn [be_encode]. rewrite app_length, IH. cbn. lia. }
    rewrite H. reflexivity.
  - rewrite be_decode_app, be_decode_zeros, be_decode_encode; [lia|exact Hc].
  - reflexivity.
Qed.

Theorem set_nonce_spec b :
  length (set_nonce b) = 16%nat /\
  ((16 <= length b)%nat -> set_nonce b = firstn 16 b) /\
  ((length b < 16)%nat -> set_nonce b = zeros (16 - length b) ++ b /\ be_decode (set_nonce b) = be_decode b).
Proof.
  unfold set_nonce. destruct (Nat.leb_spec 16 (length b)) as [H|H]; repeat split; try lia; auto.
  - rewrite firstn_length. lia.
  - rewrite app_length. unfold zeros. rewrite repeat_length. lia.
  - rewrite be_decode_app, be_decode_zeros. lia.
Qed.

(* ---- sessions: packet i of an incremental session = one-shot under N + i ------------ *)
Local Close Scope N_scope.
Local Open Scope nat_scope.

Section Session.
Variable perm : nat -> bytes -> bytes.
Hypothesis perm_len : forall r s, length s = 40 -> length (perm r s) = 40.
Variable v : aead_variant.
Hypothesis Hv : wf_variant v.

Theorem packet_encrypt_spec s A chunks : wf_kn v (i_key s) (i_nonce s) ->
  let '(s', c) := packet_encrypt perm v s A chunks in
  c = encrypt perm v (i_key s) (i_nonce s) A (concat chunks) /\
  i_key s' = i_key s /\ i_nonce s' = increment_nonce (i_nonce s).
Proof.
  intros Hkn. unfold packet_encrypt.
  pose proof (encrypt_c_spec perm perm_len v Hv (i_key s) (i_nonce s) A (concat chunks) Hkn) as E. unfold encrypt_c in E.
  destruct Hv as [_ [Hr0 _]].
  rewrite (inc_fold_enc perm perm_len v Hv); [|exact Hr0|cbn; now apply (start_c_len perm perm_len v Hv)].
  cbn [inc_start i_st i_posn i_key i_nonce].
  destruct (duplex_c bf_enc (perm (v_pb v)) (v_rate v) (start_c perm v (i_key s) (i_nonce s) A, 0) (concat chunks)) as [[s1 p1] c].
  cbv zeta. cbn [fst snd app]. unfold inc_encrypt_finalize, inc_final_state. cbn [i_st i_posn i_key i_nonce].
  injection E as E1. rewrite <- E1. repeat split.
Qed.

Lemma nonce_add_len n i : length (nonce_add n i) = length n.
Proof.
  revert n; induction i as [|i IH]; intros n; [reflexivity|]. cbn [nonce_add]. rewrite IH.
  apply (proj1 (proj2 (increment_nonce_spec n))).
Qed.

(* the specification of a session: packet i is the one-shot encryption under
   the starting nonce incremented i times *)
Fixpoint session_spec (K N : bytes) (packets : list (bytes * list bytes)) : list bytes :=
  match packets with
  | [] => []
  | (A, chunks) :: rest => encrypt perm v K N A (concat chunks) :: session_spec K (increment_nonce N) rest
  end.

Theorem session_encrypt_spec packets : forall s, wf_kn v (i_key s) (i_nonce s) ->
  session_encrypt perm v s packets = session_spec (i_key s) (i_nonce s) packets.
Proof.
  induction packets as [|[A chunks] rest IH]; intros s Hkn; [reflexivity|].
  cbn [session_encrypt session_spec].
  pose proof (packet_encrypt_spec s A chunks Hkn) as P.
  destruct (packet_encrypt perm v s A chunks) as [s' c]. destruct P as (Ec & Ek & En).
  rewrite Ec. f_equal. rewrite IH; [now rewrite Ek, En|].
  rewrite Ek, En. destruct Hkn as [HK HN]. split; [exact HK|].
  rewrite (proj1 (proj2 (increment_nonce_spec (i_nonce s)))). exact HN.
Qed.

Lemma session_spec_nth K N packets : forall i A chunks, nth_error packets i = Some (A, chunks) ->
  nth_error (session_spec K N packets) i = Some (encrypt perm v K (nonce_add N i) A (concat chunks)).
Proof.
  revert N; induction packets as [|[A0 c0] rest IH]; intros N i A chunks H; [destruct i; discriminate|].
  destruct i as [|i]; cbn [nth_error session_spec nonce_add] in *.
  - now inversion H.
  - now apply IH.
Qed.

End Session.
