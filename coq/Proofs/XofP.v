(* Model/Xofm.v refines Spec/Hash.v; chunk invariance, copy, re-init. *)
From AsconV Require Import Model.Xofm Proofs.SpongeP Proofs.SqueezeP Proofs.AeadP.
Local Open Scope nat_scope.

Definition xvariant_ok (v : xof_variant) : Prop := v = vxof \/ v = vxofa \/ v = vprf.

Definition xwf (v : xof_variant) (s : xof_state) : Prop :=
  length (x_st s) = 40 /\ x_count s < (if x_mode s then xv_rate_out v else xv_rate_in v).

Section WithPerm.
Variable perm : nat -> bytes -> bytes.
Hypothesis perm_len : forall r s, length s = 40 -> length (perm r s) = 40.
Variable v : xof_variant.
Hypothesis Hv : xvariant_ok v.

Local Notation pb := (perm (xv_pb v)).

Lemma pb_len : forall s, length s = 40 -> length (pb s) = 40.
Proof. intros; now apply perm_len. Qed.
Lemma p0_len : forall s, length s = 40 -> length (perm 0 s) = 40.
Proof. intros; now apply perm_len. Qed.
Local Notation rin := (xv_rate_in v).
Local Notation rout := (xv_rate_out v).
Lemma ri0 : 0 < rin. Proof. destruct Hv as [H|[H|H]]; subst v; cbn; lia. Qed.
Lemma ri40 : rin <= 40. Proof. destruct Hv as [H|[H|H]]; subst v; cbn; lia. Qed.
Lemma ro0 : 0 < rout. Proof. destruct Hv as [H|[H|H]]; subst v; cbn; lia. Qed.
Lemma ro40 : rout <= 40. Proof. destruct Hv as [H|[H|H]]; subst v; cbn; lia. Qed.

Lemma lazy_pb : xv_lazy v = true -> xv_pb v = 0.
Proof. destruct Hv as [H|[H|H]]; subst v; cbn; congruence. Qed.

(* ---- absorbing ---------------------------------------------------------- *)

Lemma xof_absorb_serial s d : x_mode s = false -> xwf v s ->
  xof_absorb perm v s d =
  {| x_st := fst (fst (serial bf_enc pb rin (x_st s, x_count s) d));
     x_count := snd (fst (serial bf_enc pb rin (x_st s, x_count s) d)); x_mode := false |}.
Proof.
  intros Hm [Hl Hc]. rewrite Hm in Hc. unfold xof_absorb. rewrite Hm.
  rewrite (duplex_c_serial bf_enc pb rin 40 pb_len ri0 ri40) by auto.
  destruct (serial bf_enc pb rin (x_st s, x_count s) d) as [[st' c'] o]. reflexivity.
Qed.

Lemma xof_absorb_wf s d : x_mode s = false -> xwf v s ->
  xwf v (xof_absorb perm v s d) /\ x_mode (xof_absorb perm v s d) = false.
Proof.
  intros Hm Hw. rewrite xof_absorb_serial by auto. destruct Hw as [Hl Hc]. rewrite Hm in Hc.
  pose proof (serial_inv bf_enc pb rin 40 pb_len ri0 ri40 (x_st s) (x_count s) d Hc Hl) as [I1 [I2 _]].
  split; [split; cbn; auto|reflexivity].
Qed.

(* C07: absorbing a then b = absorbing a ++ b (either may be empty) *)
Theorem xof_absorb_app s a b : x_mode s = false -> xwf v s ->
  xof_absorb perm v (xof_absorb perm v s a) b = xof_absorb perm v s (a ++ b).
Proof.
  intros Hm Hw. pose proof (xof_absorb_wf s a Hm Hw) as [Hw1 Hm1].
  rewrite (xof_absorb_serial (xof_absorb perm v s a) b Hm1 Hw1).
  rewrite (xof_absorb_serial s (a ++ b) Hm Hw). rewrite serial_app.
  rewrite (xof_absorb_serial s a Hm Hw). cbn [x_st x_count fst snd].
  destruct (serial bf_enc pb rin (x_st s, x_count s) a) as [[s1 c1] o1]. reflexivity.
Qed.

Theorem xof_absorb_chunks chunks : forall s, x_mode s = false -> xwf v s ->
  fold_left (xof_absorb perm v) chunks s = xof_absorb perm v s (concat chunks).
Proof.
  induction chunks as [|d ds IH]; intros s Hm Hw.
  - cbn [fold_left concat]. rewrite xof_absorb_serial by auto. cbn. destruct s; cbn in *. now subst.
  - cbn [fold_left concat]. pose proof (xof_absorb_wf s d Hm Hw) as [Hw1 Hm1].
    rewrite IH by auto. now apply xof_absorb_app.
Qed.

(* ---- padding (ascon_xof_pad / ascon_xofa_pad) ------------------------------ *)

Lemma upd_at_enc_zeros st : forall off n, fst (upd_at bf_enc st off (zeros n)) = st.
Proof.
  induction st as [|x st IH]; intros off n; [reflexivity|].
  destruct off as [|o].
  - destruct n as [|n]; [reflexivity|]. unfold zeros. cbn [repeat upd_at]. unfold bf_enc at 1.
    specialize (IH 0 n). unfold zeros in IH.
    destruct (upd_at bf_enc st 0 (repeat 0%N n)) as [s2 o2]. cbn [fst] in *. rewrite N.lxor_0_r. now subst.
  - cbn [upd_at]. specialize (IH o n). destruct (upd_at bf_enc st o (zeros n)) as [s2 o2]. cbn [fst] in *. now subst.
Qed.

(* the number of zero bytes up to the next block boundary *)
Definition pad_len (s : xof_state) : nat := if x_count s =? 0 then 0 else rin - x_count s.

(* C03 / C07: in the absorb phase, pad() is absorbing zero bytes up to the next
   block boundary (as the header documents it) *)
Theorem xof_pad_zeros s : x_mode s = false -> xwf v s ->
  xof_pad perm v s = xof_absorb perm v s (zeros (pad_len s)).
Proof.
  intros Hm Hw. unfold xof_pad, pad_len. rewrite Hm.
  rewrite xof_absorb_serial by auto. destruct Hw as [Hl Hc]. rewrite Hm in Hc.
  destruct (Nat.eqb_spec (x_count s) 0) as [e|ne].
  - cbn. destruct s; cbn in *. now subst.
  - assert (Z : zeros (rin - x_count s) <> []).
    { unfold zeros. destruct (rin - x_count s) eqn:E; [lia|discriminate]. }
    rewrite (serial_close bf_enc pb rin 40 ri0 ri40 (x_st s) (x_count s) (zeros (rin - x_count s)) Z);
      [|unfold zeros; rewrite repeat_length; lia|exact Hl].
    cbn [fst snd]. now rewrite upd_at_enc_zeros.
Qed.

(* in the squeeze phase pad() starts a new absorb phase, exactly like an empty absorb call *)
Theorem xof_pad_squeezing s : x_mode s = true -> xof_pad perm v s = xof_absorb perm v s [].
Proof. intros Hm. unfold xof_pad. now rewrite Hm. Qed.

(* ---- squeezing ---------------------------------------------------------- *)

Definition sq_serial (sp : bytes * nat) (n : nat) : (bytes * nat) * bytes :=
  if xv_lazy v then lazy_serial (perm 0) rout sp n else serial bf_sq pb rout sp (zeros n).

Lemma lazy_serial_inv n : forall st pos, pos < rout -> length st = 40 ->
  snd (fst (lazy_serial (perm 0) rout (st, pos) n)) < rout /\
  length (fst (fst (lazy_serial (perm 0) rout (st, pos) n))) = 40.
Proof.
  induction n as [|n IH]; intros st pos Hp Hl; [cbn; auto|].
  cbn [lazy_serial fst snd].
  set (st1 := if pos =? 0 then perm 0 st else st).
  assert (L1 : length st1 = 40) by (unfold st1; destruct (pos =? 0); auto).
  set (p' := if S pos =? rout then 0 else S pos).
  assert (P1 : p' < rout) by (unfold p'; pose proof ro0; destruct (Nat.eqb_spec (S pos) rout); lia).
  specialize (IH st1 p' P1 L1). destruct (lazy_serial (perm 0) rout (st1, p') n) as [r o]. exact IH.
Qed.

Lemma sepf_len st : length (sepf v st) = length st.
Proof. unfold sepf. destruct (xv_sep v); [apply xor_at_len|reflexivity]. Qed.

Lemma enter_wf s : xwf v s ->
  snd (xof_enter_squeeze perm v s) < rout /\ length (fst (xof_enter_squeeze perm v s)) = 40.
Proof.
  intros [Hl Hc]. unfold xof_enter_squeeze. pose proof ro0. destruct (x_mode s); [cbn; auto|].
  destruct (xv_lazy v); cbn; split; try lia; [|apply perm_len]; now rewrite sepf_len, xor_at_len.
Qed.

Lemma xof_squeeze_serial s n : xwf v s ->
  xof_squeeze perm v s n =
  let sp := xof_enter_squeeze perm v s in
  ({| x_st := fst (fst (sq_serial sp n)); x_count := snd (fst (sq_serial sp n)); x_mode := true |},
   snd (sq_serial sp n)).
Proof.
  intros [Hl Hc]. unfold xof_squeeze, sq_serial. cbv zeta.
  assert (E : snd (xof_enter_squeeze perm v s) < rout /\ length (fst (xof_enter_squeeze perm v s)) = 40).
  { apply enter_wf. split; auto. }
  destruct (xof_enter_squeeze perm v s) as [st c]. cbn [fst snd] in E. destruct E as [E1 E2].
  destruct (xv_lazy v).
  - rewrite (lazy_squeeze_c_serial (perm 0) rout 40 ro0 ro40 st c n E1).
    destruct (lazy_serial (perm 0) rout (st, c) n) as [[st' c'] o]. reflexivity.
  - rewrite (duplex_c_serial bf_sq pb rout 40 pb_len ro0 ro40) by auto.
    destruct (serial bf_sq pb rout (st, c) (zeros n)) as [[st' c'] o]. reflexivity.
Qed.

Lemma sq_serial_inv sp n : snd sp < rout -> length (fst sp) = 40 ->
  snd (fst (sq_serial sp n)) < rout /\ length (fst (fst (sq_serial sp n))) = 40.
Proof.
  destruct sp as [st c]. cbn [fst snd]. intros Hc Hl. unfold sq_serial. destruct (xv_lazy v).
  - now apply lazy_serial_inv.
  - pose proof (serial_inv bf_sq pb rout 40 pb_len ro0 ro40 st c (zeros n) Hc Hl) as [I1 [I2 _]]. auto.
Qed.

Lemma sq_serial_add sp a b :
  sq_serial sp (a + b) =
  (fst (sq_serial (fst (sq_serial sp a)) b), snd (sq_serial sp a) ++ snd (sq_serial (fst (sq_serial sp a)) b)).
Proof.
  unfold sq_serial. destruct (xv_lazy v).
  - apply lazy_serial_add.
  - rewrite zeros_app. apply serial_app.
Qed.

(* C07: squeezing m then n bytes = squeezing m + n bytes (either may be 0) *)
Theorem xof_squeeze_add s m n : xwf v s ->
  let '(s1, o1) := xof_squeeze perm v s m in
  let '(s2, o2) := xof_squeeze perm v s1 n in
  xof_squeeze perm v s (m + n) = (s2, o1 ++ o2).
Proof.
  intros Hw.
  pose proof (enter_wf s Hw) as [E1 E2].
  rewrite (xof_squeeze_serial s m Hw). cbv zeta.
  rewrite (xof_squeeze_serial s (m + n) Hw). cbv zeta.
  rewrite sq_serial_add.
  pose proof (sq_serial_inv (xof_enter_squeeze perm v s) m E1 E2) as [I1 I2].
  destruct (sq_serial (xof_enter_squeeze perm v s) m) as [[s1 c1] o1]. cbn [fst snd] in *.
  rewrite (xof_squeeze_serial {| x_st := s1; x_count := c1; x_mode := true |} n) by (split; cbn; auto).
  cbv zeta. change (xof_enter_squeeze perm v {| x_st := s1; x_count := c1; x_mode := true |}) with (s1, c1).
  destruct (sq_serial (s1, c1) n) as [[s2 c2] o2]. reflexivity.
Qed.

(* from a freshly padded state the squeezed bytes are the specification's *)
Lemma sq_serial_spec st n : length st = 40 ->
  snd (sq_serial (if xv_lazy v then st else perm 0 st, 0) n) = spec_squeeze pb rout (perm 0 st) n.
Proof.
  intros Hl. unfold sq_serial, spec_squeeze. destruct (xv_lazy v) eqn:L.
  - pose proof (lazy_serial_sim (perm 0) rout 40 p0_len ro0 ro40 n st 0 ro0 Hl) as [_ S].
    rewrite S. unfold alpha. cbn [fst snd Nat.eqb].
    rewrite (lazy_pb L).
    pose proof (serial_spec bf_sq (perm 0) rout 40 p0_len ro0 ro40 (perm 0 st) (zeros n) (p0_len _ Hl)) as SP.
    destruct (serial bf_sq (perm 0) rout (perm 0 st, 0) (zeros n)) as [[s1 pos] o]. destruct SP as [_ SP].
    rewrite <- SP. reflexivity.
  - pose proof (serial_spec bf_sq pb rout 40 pb_len ro0 ro40 (perm 0 st) (zeros n) (p0_len _ Hl)) as SP.
    destruct (serial bf_sq pb rout (perm 0 st, 0) (zeros n)) as [[s1 pos] o]. destruct SP as [_ SP].
    rewrite <- SP. reflexivity.
Qed.

Lemma fold_squeeze outs : forall s acc, xwf v s ->
  snd (fold_left (fun '(s, acc) n => let '(s', o) := xof_squeeze perm v s n in (s', acc ++ o)) outs (s, acc)) =
  acc ++ snd (xof_squeeze perm v s (fold_right Nat.add 0 outs)).
Proof.
  induction outs as [|n ns IH]; intros s acc Hw.
  - cbn [fold_left fold_right snd]. rewrite xof_squeeze_serial by auto. cbv zeta. cbn [snd].
    unfold sq_serial. destruct (xv_lazy v); cbn; now rewrite app_nil_r.
  - cbn [fold_left fold_right].
    pose proof (xof_squeeze_add s n (fold_right Nat.add 0 ns) Hw) as A.
    destruct (xof_squeeze perm v s n) as [s1 o1] eqn:E1.
    assert (W1 : xwf v s1).
    { rewrite xof_squeeze_serial in E1 by auto. cbv zeta in E1. inversion E1; subst s1.
      pose proof (enter_wf s Hw) as [E2 E3].
      pose proof (sq_serial_inv (xof_enter_squeeze perm v s) n E2 E3) as [I1 I2]. split; cbn; auto. }
    rewrite IH by auto.
    destruct (xof_squeeze perm v s1 (fold_right Nat.add 0 ns)) as [s2 o2]. rewrite A. cbn [snd].
    now rewrite app_assoc.
Qed.

(* ---- whole runs ----------------------------------------------------------- *)

(* C03/C07: from an aligned absorbing state S0, any split of the input into
   absorb calls and of the output into squeeze calls gives the specification's
   sponge output *)
Theorem xof_run_spec S0 chunks outs : length S0 = 40 ->
  xof_run perm v (mk S0) chunks outs =
  spec_squeeze pb rout (absorb_msg perm v S0 (concat chunks)) (fold_right Nat.add 0 outs).
Proof.
  intros Hl. unfold xof_run.
  assert (W0 : xwf v (mk S0)) by (split; cbn; auto; apply ri0).
  rewrite xof_absorb_chunks by auto.
  pose proof (xof_absorb_wf (mk S0) (concat chunks) eq_refl W0) as [W1 M1].
  rewrite fold_squeeze by auto. cbn [app].
  rewrite xof_squeeze_serial by auto. cbv zeta. cbn [snd].
  unfold xof_enter_squeeze. rewrite M1.
  rewrite (xof_absorb_serial (mk S0) (concat chunks) eq_refl W0). cbn [x_st x_count mk].
  pose proof (serial_spec bf_enc pb rin 40 pb_len ri0 ri40 S0 (concat chunks) Hl) as SP.
  pose proof (serial_inv bf_enc pb rin 40 pb_len ri0 ri40 S0 0 (concat chunks) ri0 Hl) as [_ [I2 _]].
  destruct (serial bf_enc pb rin (S0, 0) (concat chunks)) as [[s1 pos] o]. cbn [fst snd] in *.
  destruct SP as [_ SP]. unfold absorb_msg. rewrite <- SP. cbn [fst].
  assert (Lp : length (sepf v (xor_at s1 pos [0x80%N])) = 40) by now rewrite sepf_len, xor_at_len.
  pose proof (sq_serial_spec (sepf v (xor_at s1 pos [0x80%N])) (fold_right Nat.add 0 outs) Lp) as Q.
  destruct (xv_lazy v); exact Q.
Qed.

(* a history with pad() between absorb calls: absorb pre ; pad ; absorb post ; squeeze outs
   is the specification's output for  concat pre ++ 0^k ++ concat post,  k the distance to the next block boundary *)
Theorem xof_run_pad_spec S0 pre post outs : length S0 = 40 ->
  let s1 := fold_left (xof_absorb perm v) pre (mk S0) in
  xof_run perm v (xof_pad perm v s1) post outs =
  spec_squeeze pb rout (absorb_msg perm v S0 (concat pre ++ zeros (pad_len s1) ++ concat post)) (fold_right Nat.add 0 outs).
Proof.
  intros Hl s1.
  assert (W0 : xwf v (mk S0)) by (split; cbn; auto; apply ri0).
  assert (E1 : s1 = xof_absorb perm v (mk S0) (concat pre)) by (unfold s1; now rewrite xof_absorb_chunks).
  pose proof (xof_absorb_wf (mk S0) (concat pre) eq_refl W0) as [W1 M1]. rewrite <- E1 in W1, M1.
  rewrite (xof_pad_zeros s1 M1 W1).
  transitivity (xof_run perm v (mk S0) (pre ++ [zeros (pad_len s1)] ++ post) outs).
  - unfold xof_run. rewrite !fold_left_app. reflexivity.
  - rewrite xof_run_spec by exact Hl. rewrite !concat_app. cbn [concat]. now rewrite app_nil_r.
Qed.

(* ---- initial states ------------------------------------------------------- *)

Lemma set_iv_zeros w : set_at (zeros 40) 0 (be_encode 8 w) = be_encode 8 w ++ zeros 32.
Proof.
  change (zeros 40) with (zeros 8 ++ zeros 32). apply set_at_0_full.
  unfold zeros. rewrite repeat_length. clear. revert w.
  assert (forall n w, length (be_encode n w) = n) as H.
  { induction n as [|n IH]; intros w; [reflexivity|]. cbn [be_encode]. rewrite app_length, IH. cbn. lia. }
  intros w. apply H.
Qed.

Theorem xof_init_fixed_spec L : xof_init_fixed perm v L = mk (iv_state perm v L).
Proof.
  unfold xof_init_fixed, iv_state, iv_word, xof_init, iv_state, iv_word.
  destruct (N.leb_spec 536870912 L) as [H|H].
  - cbn [N.eqb N.leb N.compare]. change (0 * 8)%N with 0%N. now rewrite N.lor_0_r.
  - destruct (N.eqb_spec L 0) as [e|ne].
    + subst L. cbn [N.leb N.compare N.mul]. now rewrite N.lor_0_r.
    + now rewrite set_iv_zeros.
Qed.


Lemma iv_state_len L : length (iv_state perm v L) = 40.
Proof.
  unfold iv_state. apply perm_len. rewrite app_length. unfold zeros. rewrite repeat_length.
  assert (forall n w, length (be_encode n w) = n) as H.
  { induction n as [|n IH]; intros w; [reflexivity|]. cbn [be_encode]. rewrite app_length, IH. cbn. lia. }
  now rewrite H.
Qed.

Lemma absorb_msg_len S0 msg : length S0 = 40 -> length (absorb_msg perm v S0 msg) = 40.
Proof.
  intros Hl. unfold absorb_msg. apply perm_len. rewrite sepf_len.
  now destruct (spec_duplex_outlen bf_enc pb rin 40 pb_len ri0 ri40 S0 msg Hl) as [_ H].
Qed.

Lemma spec_squeeze_len S n : length S = 40 -> length (spec_squeeze pb rout S n) = n.
Proof.
  intros Hl. unfold spec_squeeze.
  destruct (spec_duplex_outlen bf_sq pb rout 40 pb_len ro0 ro40 S (zeros n) Hl) as [H _].
  rewrite H. unfold zeros. apply repeat_length.
Qed.

(* the one-shot digests *)
Theorem hash_oneshot_spec msg : hash_oneshot perm v msg = hash perm v msg.
Proof.
  unfold hash_oneshot, hash_init, hash, xof_fixed. rewrite xof_init_fixed_spec.
  pose proof (xof_run_spec (iv_state perm v 32) [msg] [32] (iv_state_len 32)) as R.
  unfold xof_run in R. cbn [fold_left fold_right concat] in R. rewrite app_nil_r in R.
  destruct (xof_squeeze perm v (xof_absorb perm v (mk (iv_state perm v 32)) msg) 32) as [s' o].
  cbn [snd app] in *. exact R.
Qed.

Theorem xof_oneshot_spec msg : xof_oneshot perm v msg = xof perm v msg 32.
Proof.
  unfold xof_oneshot, xof, xof_fixed, xof_init.
  pose proof (xof_run_spec (iv_state perm v 0) [msg] [32] (iv_state_len 0)) as R.
  unfold xof_run in R. cbn [fold_left fold_right concat] in R. rewrite app_nil_r in R.
  destruct (xof_squeeze perm v (xof_absorb perm v (mk (iv_state perm v 0)) msg) 32) as [s' o].
  cbn [snd app] in *. exact R.
Qed.

Lemma set_name_iv ivb temp : length ivb = 8 -> length temp = 32 ->
  set_at (set_at (zeros 40) 8 temp) 0 ivb = ivb ++ temp.
Proof.
  intros H1 H2.
  assert (F : forall a d : bytes, length d = length a -> set_at a 0 d = d).
  { intros a d H. pose proof (set_at_0_full a [] d H) as E. now rewrite !app_nil_r in E. }
  change (zeros 40) with (zeros 8 ++ zeros 32).
  change 8 with (length (zeros 8)) at 1. rewrite set_at_app_r.
  rewrite (F (zeros 32) temp) by (rewrite H2; reflexivity).
  apply set_at_0_full. rewrite H1. reflexivity.
Qed.

(* ascon_xof_init_custom builds the documented cXOF initial state; a NULL
   name is the empty name *)
Theorem xof_init_custom_spec name custom L :
  xof_init_custom perm v name custom L =
  mk (cxof_state perm v (match name with Some n => n | None => [] end) custom L).
Proof.
  unfold xof_init_custom. set (nm := match name with Some n => n | None => [] end).
  assert (Tf : (if length nm =? 0 then zeros 32
                else if length nm <=? 32 then nm ++ zeros (32 - length nm)
                else snd (xof_squeeze perm v (xof_absorb perm v (xof_init_fixed perm v 32) nm) 32))
               = name_field perm v nm).
  { unfold name_field. destruct (Nat.eqb_spec (length nm) 0) as [e|ne].
    - destruct nm; [reflexivity|discriminate].
    - destruct (length nm <=? 32); [reflexivity|]. apply hash_oneshot_spec. }
  rewrite Tf.
  assert (Tl : length (name_field perm v nm) = 32).
  { unfold name_field. destruct (Nat.leb_spec (length nm) 32) as [H|H].
    - rewrite app_length. unfold zeros. rewrite repeat_length. lia.
    - unfold hash, xof_fixed. apply spec_squeeze_len. apply absorb_msg_len. apply iv_state_len. }
  assert (Iv : N.lor (xv_iv v) ((if (536870912 <=? L)%N then 0%N else L) * 8) = iv_word v L).
  { unfold iv_word. destruct (536870912 <=? L)%N; [|reflexivity]. change (0 * 8)%N with 0%N. apply N.lor_0_r. }
  rewrite Iv. rewrite set_name_iv; [|clear; generalize (iv_word v L); intros w|exact Tl].
  2:{ assert (forall n w, length (be_encode n w) = n) as H.
      { induction n as [|n IH]; intros w'; [reflexivity|]. cbn [be_encode]. rewrite app_length, IH. cbn. lia. }
      apply H. }
  unfold cxof_state. set (S0 := perm 0 (be_encode 8 (iv_word v L) ++ name_field perm v nm)).
  assert (L0 : length S0 = 40).
  { unfold S0. apply perm_len. rewrite app_length, Tl.
    assert (forall n w, length (be_encode n w) = n) as H.
    { induction n as [|n IH]; intros w'; [reflexivity|]. cbn [be_encode]. rewrite app_length, IH. cbn. lia. }
    now rewrite H. }
  unfold xof_absorb_custom. destruct custom as [|c custom]; [reflexivity|].
  assert (W0 : xwf v (mk S0)) by (split; cbn; auto; apply ri0).
  rewrite (xof_absorb_serial (mk S0) (c :: custom) eq_refl W0). cbn [x_st x_count x_mode mk].
  pose proof (serial_spec bf_enc pb rin 40 pb_len ri0 ri40 S0 (c :: custom) L0) as SP.
  destruct (serial bf_enc pb rin (S0, 0) (c :: custom)) as [[s1 pos] o]. cbn [fst snd].
  destruct SP as [_ SP]. rewrite <- SP. reflexivity.
Qed.

Lemma cxof_state_len name custom L : length (cxof_state perm v name custom L) = 40.
Proof.
  pose proof (xof_init_custom_spec (Some name) custom L) as E. cbn in E.
  unfold cxof_state.
  set (S0 := perm 0 (be_encode 8 (iv_word v L) ++ name_field perm v name)).
  assert (L0 : length S0 = 40).
  { unfold S0. apply perm_len. rewrite app_length.
    assert (forall n w, length (be_encode n w) = n) as H.
    { induction n as [|n IH]; intros w'; [reflexivity|]. cbn [be_encode]. rewrite app_length, IH. cbn. lia. }
    rewrite H. unfold name_field. destruct (Nat.leb_spec (length name) 32) as [Hn|Hn].
    - rewrite app_length. unfold zeros. rewrite repeat_length. lia.
    - unfold hash, xof_fixed. rewrite spec_squeeze_len; [reflexivity|]. apply absorb_msg_len. apply iv_state_len. }
  destruct custom as [|c custom]; [exact L0|].
  rewrite xor_at_len. apply perm_len.
  now destruct (spec_duplex_outlen bf_enc pb rin 40 pb_len ri0 ri40 S0 (c :: custom) L0) as [_ H].
Qed.

End WithPerm.
