(* Model/Macm.v refines Spec/Mac.v: PRF, PrfShort, Mac verify, HMAC, KMAC, KDF, PBKDF2. *)
From AsconV Require Import Model.Macm Proofs.SpongeP Proofs.SqueezeP Proofs.AeadP Proofs.XofP.
From Coq Require Import ZArith.
Local Open Scope nat_scope.

Lemma be_encode_length n w : length (be_encode n w) = n.
Proof. revert w; induction n as [|n IH]; intros w; [reflexivity|]. cbn [be_encode]. rewrite app_length, IH. cbn. lia. Qed.

Lemma zeros_length n : length (zeros n) = n.
Proof. unfold zeros. apply repeat_length. Qed.

Lemma set_at_full (a d : bytes) : length d = length a -> set_at a 0 d = d.
Proof. intros H. pose proof (set_at_0_full a [] d H) as E. now rewrite !app_nil_r in E. Qed.

(* a ++ b ++ c overwritten at |a| with d, |d| = |b| *)
Lemma set_at_mid (a b c d : bytes) : length d = length b -> set_at (a ++ b ++ c) (length a) d = a ++ d ++ c.
Proof. intros H. rewrite set_at_app_r. f_equal. now apply set_at_0_full. Qed.

Lemma concat_chunks n (l : bytes) : 0 < n -> concat (chunks n l) = l.
Proof.
  intros Hn. remember (length l) as k eqn:Hk. revert l Hk.
  induction k as [k IH] using lt_wf_ind. intros l Hk.
  destruct l as [|x l]; [reflexivity|].
  rewrite (chunks_cons 1 1 (le_n 1) (le_n 1) n (x :: l) Hn) by discriminate. cbn [concat].
  rewrite (IH (length (skipn n (x :: l)))); [apply firstn_skipn| |reflexivity].
  rewrite skipn_length. subst k. cbn [length]. lia.
Qed.

Lemma xor_pad_app p a b : xor_pad p (a ++ b) = xor_pad p a ++ xor_pad p b.
Proof. unfold xor_pad. apply map_app. Qed.
Lemma xor_pad_zeros p n : xor_pad p (zeros n) = repeat p n.
Proof. unfold xor_pad, zeros. induction n as [|n IH]; [reflexivity|]. cbn. now rewrite IH, N.lxor_0_r. Qed.
Lemma xor_pad_length p l : length (xor_pad p l) = length l.
Proof. unfold xor_pad. apply map_length. Qed.

Lemma skipn_xor_at s off d : length d = length s - off -> off <= length s ->
  skipn off (xor_at s off d) = xorl (skipn off s) d.
Proof.
  revert off d; induction s as [|x s IH]; intros off d H Ho.
  - destruct off; [|cbn in Ho; lia]. destruct d; [reflexivity|discriminate].
  - destruct off as [|o].
    + cbn [skipn]. clear Ho. revert d H. generalize (x :: s) as l. clear.
      induction l as [|y l IH]; intros d H; destruct d as [|z d]; try discriminate; [reflexivity|].
      cbn [xor_at xorl]. f_equal. apply IH. cbn in H. lia.
    + cbn [xor_at skipn]. apply IH; cbn in *; lia.
Qed.

Section WithPerm.
Variable perm : nat -> bytes -> bytes.
Hypothesis perm_len : forall r s, length s = 40 -> length (perm r s) = 40.

(* ---- PRF -------------------------------------------------------------------- *)

Lemma prf_xv : xvariant_ok vprf. Proof. right; right; reflexivity. Qed.

Lemma prf_init_spec K L : length K = 16 -> prf_init perm K L = mk (prf_state perm K L).
Proof.
  intros HK. unfold prf_init, prf_state, prf_len.
  set (L' := if (536870912 <=? L)%N then 0%N else L).
  assert (HL : (L' * 8 < 4294967296)%N).
  { unfold L'. destruct (N.leb_spec 536870912 L); lia. }
  assert (E : N.land (L' * 8) 4294967295 = (L' * 8)%N).
  { change 4294967295%N with (N.ones 32). rewrite N.land_ones. apply N.mod_small. exact HL. }
  rewrite E. f_equal. f_equal.
  set (iv := [128%N; 128%N; 140%N; 0%N] ++ be_encode 4 (L' * 8)).
  assert (Li : length iv = 8) by (unfold iv; rewrite app_length, be_encode_length; reflexivity).
  change (zeros 40) with (zeros 8 ++ zeros 16 ++ zeros 16).
  rewrite (set_at_0_full (zeros 8)) by (rewrite zeros_length; exact Li).
  replace 8 with (length iv) at 1 by exact Li.
  rewrite set_at_mid by (rewrite zeros_length; exact HK).
  unfold iv. now rewrite <- app_assoc.
Qed.

Lemma prf_state_len K L : length K = 16 -> length (prf_state perm K L) = 40.
Proof.
  intros HK. unfold prf_state. apply perm_len.
  rewrite !app_length, be_encode_length, zeros_length, HK. reflexivity.
Qed.

(* C04/C07: every split of the message into absorb calls and of the output
   into squeeze calls gives ASCON-PRF *)
Theorem prf_run_spec K L chunks outs : length K = 16 ->
  xof_run perm vprf (prf_init perm K L) chunks outs = prf perm K L (concat chunks) (fold_right Nat.add 0 outs).
Proof.
  intros HK. rewrite prf_init_spec by exact HK.
  exact (xof_run_spec perm perm_len vprf prf_xv (prf_state perm K L) chunks outs (prf_state_len K L HK)).
Qed.

Corollary prf_oneshot_spec K L msg n : length K = 16 ->
  prf_oneshot perm K L msg n = prf perm K L msg n.
Proof.
  intros HK. pose proof (prf_run_spec K L [msg] [n] HK) as R.
  unfold xof_run in R. cbn [fold_left fold_right concat] in R. rewrite app_nil_r, Nat.add_0_r in R.
  unfold prf_oneshot, prf_squeeze, prf_absorb.
  destruct (xof_squeeze perm vprf (xof_absorb perm vprf (prf_init perm K L) msg) n) as [s' o].
  cbn [snd app] in *. exact R.
Qed.

(* ---- PrfShort ------------------------------------------------------------------ *)

Theorem prf_short_spec K msg n : length K = 16 ->
  prf_short_c perm K msg n = prf_short perm K msg n.
Proof.
  intros HK. unfold prf_short_c, prf_short.
  destruct (Nat.ltb_spec 16 (length msg)) as [Hm|Hm]; [reflexivity|].
  destruct (Nat.ltb_spec 16 n) as [Hn|Hn]; [reflexivity|]. cbn [orb].
  assert (E : N.land (N.of_nat (length msg) * 8) 255 = N.of_nat (8 * length msg)).
  { change 255%N with (N.ones 8). rewrite N.land_ones. rewrite N.mod_small by lia. lia. }
  rewrite E.
  set (iv := [128%N; N.of_nat (8 * length msg); 76%N; 128%N; 0%N; 0%N; 0%N; 0%N]).
  assert (S0 : set_at (set_at (set_at (zeros 40) 0 iv) 8 K) 24 msg = iv ++ K ++ msg ++ zeros (16 - length msg)).
  { replace (zeros 40) with (zeros 8 ++ zeros 16 ++ zeros (length msg) ++ zeros (16 - length msg)).
    2:{ unfold zeros. rewrite <- !repeat_app. f_equal. lia. }
    rewrite (set_at_0_full (zeros 8)) by reflexivity.
    change 8 with (length iv) at 1. rewrite set_at_mid by (rewrite zeros_length; exact HK).
    replace 24 with (length (iv ++ K)) by (rewrite app_length, HK; reflexivity).
    rewrite app_assoc. rewrite (set_at_mid (iv ++ K) (zeros (length msg)) (zeros (16 - length msg)) msg) by now rewrite zeros_length.
    now rewrite <- app_assoc. }
  rewrite S0. set (s := perm 0 (iv ++ K ++ msg ++ zeros (16 - length msg))).
  assert (Ls : length s = 40).
  { unfold s. apply perm_len. rewrite !app_length, zeros_length, HK. cbn [length iv]. lia. }
  unfold get_at. rewrite skipn_xor_at by (rewrite ?Ls, ?HK; lia). reflexivity.
Qed.


(* ---- Mac verification ------------------------------------------------------------ *)

Hypothesis perm_ok : forall r s, bytes_ok (perm r s).

Lemma spec_squeeze_block f S : length S = 40 -> spec_squeeze f 16 S 16 = firstn 16 S.
Proof.
  intros Hl. unfold spec_squeeze, spec_duplex.
  change (length (zeros 16) / 16) with 1. change (length (zeros 16) mod 16) with 0.
  change (chunks 16 (firstn (1 * 16) (zeros 16))) with [zeros 16].
  change (skipn (1 * 16) (zeros 16)) with (@nil N).
  cbn [run_full]. rewrite upd_at_sq by (rewrite Hl; cbn; lia).
  rewrite upd_at_nil. cbn [snd]. rewrite zeros_length. unfold get_at. cbn [skipn]. now rewrite !app_nil_r.
Qed.

Lemma mac_ok K msg : length K = 16 -> bytes_ok (mac perm K msg) /\ length (mac perm K msg) = 16.
Proof.
  intros HK. unfold mac, prf.
  assert (L : length (absorb_msg perm vprf (prf_state perm K 16) msg) = 40).
  { apply (absorb_msg_len perm perm_len vprf prf_xv). now apply prf_state_len. }
  change (xv_pb vprf) with 0. change (xv_rate_out vprf) with 16.
  rewrite spec_squeeze_block by exact L. split.
  - apply bytes_ok_firstn. unfold absorb_msg. apply perm_ok.
  - rewrite firstn_length. lia.
Qed.

(* C04: verification succeeds exactly on the correct 16-byte tag *)
Theorem mac_verify_exact tag K msg : length K = 16 -> length tag = 16 -> bytes_ok tag ->
  mac_verify_c perm tag K msg = (if beq_bytes tag (mac perm K msg) then 0 else -1)%Z.
Proof.
  intros HK Ht Bt. unfold mac_verify_c, mac_c. rewrite prf_oneshot_spec by exact HK. fold (mac perm K msg).
  destruct (mac_ok K msg HK) as [Bm Lm].
  rewrite check_tag_exact by (auto; lia). destruct (beq_bytes tag (mac perm K msg)); reflexivity.
Qed.

(* ---- HMAC --------------------------------------------------------------------------- *)

Variable v : xof_variant.
Hypothesis Hx : v = vxof \/ v = vxofa.

Lemma Hv_of_Hx : xvariant_ok v.
Proof. destruct Hx as [H|H]; [left|right; left]; exact H. Qed.

Local Notation H := (hash perm v).

Lemma hash_init_mk : hash_init perm v = mk (iv_state perm v 32).
Proof. unfold hash_init. apply xof_init_fixed_spec. Qed.

Lemma wf_mk S0 : length S0 = 40 -> xwf v (mk S0) /\ x_mode (mk S0) = false.
Proof. intros Hl. split; [split; cbn; auto; apply (ri0 v Hv_of_Hx)|reflexivity]. Qed.

(* the digest of whatever was absorbed in pieces *)
Lemma hash_of_chunks cs :
  snd (xof_squeeze perm v (fold_left (xof_absorb perm v) cs (hash_init perm v)) 32) = H (concat cs).
Proof.
  rewrite hash_init_mk.
  pose proof (xof_run_spec perm perm_len v Hv_of_Hx (iv_state perm v 32) cs [32] (iv_state_len perm perm_len v 32)) as R.
  unfold xof_run in R. cbn [fold_left fold_right] in R.
  destruct (xof_squeeze perm v (fold_left (xof_absorb perm v) cs (mk (iv_state perm v 32))) 32) as [s' o].
  cbn [snd app] in *. exact R.
Qed.

Lemma H_len m : length (H m) = 32.
Proof.
  unfold hash, xof_fixed. destruct Hx as [E|E]; subst v; apply (spec_squeeze_len perm perm_len _ (or_introl eq_refl)) || idtac.
  - apply (absorb_msg_len perm perm_len vxof (or_introl eq_refl)). apply iv_state_len; auto.
  - apply (spec_squeeze_len perm perm_len vxofa (or_intror (or_introl eq_refl))).
    apply (absorb_msg_len perm perm_len vxofa (or_intror (or_introl eq_refl))). apply iv_state_len; auto.
Qed.

Lemma fold_absorb_map (g : bytes -> bytes) cs s :
  fold_left (fun h pc => xof_absorb perm v h (g pc)) cs s = fold_left (xof_absorb perm v) (map g cs) s.
Proof. revert s; induction cs as [|c cs IH]; intros s; [reflexivity|]. cbn. apply IH. Qed.

Lemma concat_map_xor_pad p cs : concat (map (xor_pad p) cs) = xor_pad p (concat cs).
Proof. induction cs as [|c cs IH]; [reflexivity|]. cbn [concat map]. now rewrite IH, xor_pad_app. Qed.

(* absorbing the key block from a fresh hash state = absorbing K0 xor pad *)
Lemma hmac_absorb_key_spec key pad :
  hmac_absorb_key perm v (hash_init perm v) key pad =
  xof_absorb perm v (hash_init perm v) (xor_pad pad (hmac_k0 H key)).
Proof.
  unfold hmac_absorb_key, hmac_k0.
  destruct (wf_mk (iv_state perm v 32) (iv_state_len perm perm_len v 32)) as [W0 M0]. rewrite <- hash_init_mk in W0, M0.
  destruct (Nat.leb_spec (length key) 64) as [Hk|Hk].
  - destruct (Nat.ltb_spec 64 (length key)) as [C|_]; [lia|].
    rewrite (fold_absorb_map (xor_pad pad)).
    rewrite (xof_absorb_chunks perm perm_len v Hv_of_Hx (map (xor_pad pad) (chunks 32 key)) (hash_init perm v) M0 W0).
    destruct (xof_absorb_wf perm perm_len v Hv_of_Hx (hash_init perm v) (concat (map (xor_pad pad) (chunks 32 key))) M0 W0) as [W1 M1].
    rewrite (xof_absorb_chunks perm perm_len v Hv_of_Hx _ _ M1 W1).
    rewrite (xof_absorb_app perm perm_len v Hv_of_Hx _ _ _ M0 W0).
    rewrite concat_map_xor_pad, !concat_chunks by lia.
    now rewrite xor_pad_app, xor_pad_zeros.
  - destruct (Nat.ltb_spec 64 (length key)) as [_|C]; [|lia].
    pose proof (hash_of_chunks [key]) as D. cbn [fold_left concat] in D. rewrite app_nil_r in D.
    destruct (xof_squeeze perm v (xof_absorb perm v (hash_init perm v) key) 32) as [s' temp]. cbn [snd] in D. subst temp.
    destruct (xof_absorb_wf perm perm_len v Hv_of_Hx (hash_init perm v) (xor_pad pad (H key)) M0 W0) as [W1 M1].
    rewrite (xof_absorb_chunks perm perm_len v Hv_of_Hx _ _ M1 W1).
    rewrite (xof_absorb_app perm perm_len v Hv_of_Hx _ _ _ M0 W0).
    rewrite concat_chunks by lia. rewrite H_len.
    now rewrite xor_pad_app, xor_pad_zeros.
Qed.

(* C04: ASCON-HMAC/HMACA = RFC 2104 over ASCON-HASH/HASHA, block 64, for every
   key length (keys longer than 64 bytes hashed first) and every split of the
   message into update calls *)
Theorem hmac_run_spec key chunks :
  hmac_run perm v key chunks = hmac H key (concat chunks).
Proof.
  unfold hmac_run, hmac_finalize, hmac_init, hmac_update, hmac.
  rewrite !hmac_absorb_key_spec.
  change (fold_left (fun h d => xof_absorb perm v h d) chunks (xof_absorb perm v (hash_init perm v) (xor_pad 54 (hmac_k0 H key))))
    with (fold_left (xof_absorb perm v) (xor_pad 54 (hmac_k0 H key) :: chunks) (hash_init perm v)).
  pose proof (hash_of_chunks (xor_pad 54 (hmac_k0 H key) :: chunks)) as D1. cbn [concat] in D1.
  destruct (xof_squeeze perm v (fold_left (xof_absorb perm v) (xor_pad 54 (hmac_k0 H key) :: chunks) (hash_init perm v)) 32) as [s1 temp].
  cbn [snd] in D1. subst temp.
  pose proof (hash_of_chunks [xor_pad 92 (hmac_k0 H key); H (xor_pad 54 (hmac_k0 H key) ++ concat chunks)]) as D2.
  cbn [fold_left concat] in D2. rewrite app_nil_r in D2. exact D2.
Qed.

(* ---- KMAC / KDF ------------------------------------------------------------------------ *)

Lemma absorb_custom_spec S0 custom : length S0 = 40 ->
  xof_absorb_custom perm v (mk S0) custom =
  mk (match custom with
      | [] => S0
      | _ => xor_at (perm (xv_pb v) (fst (spec_duplex bf_enc (perm (xv_pb v)) (xv_rate_in v) S0 custom))) 39 [1%N]
      end).
Proof.
  intros L0. unfold xof_absorb_custom. destruct custom as [|c custom]; [reflexivity|].
  destruct (wf_mk S0 L0) as [W0 M0].
  rewrite (xof_absorb_serial perm perm_len v Hv_of_Hx (mk S0) (c :: custom) M0 W0). cbn [x_st x_count x_mode mk].
  pose proof (serial_spec bf_enc (perm (xv_pb v)) (xv_rate_in v) 40 (pb_len perm perm_len v) (ri0 v Hv_of_Hx) (ri40 v Hv_of_Hx) S0 (c :: custom) L0) as SP.
  destruct (serial bf_enc (perm (xv_pb v)) (xv_rate_in v) (S0, 0) (c :: custom)) as [[s1 pos] o]. cbn [fst snd].
  destruct SP as [_ SP]. rewrite <- SP. reflexivity.
Qed.

(* both branches of ascon_kmac_init (pre-computed block for outlen = 32, generic
   otherwise) give the customised-XOF state for "KMAC" with the key absorbed *)
Theorem kmac_init_spec key custom L :
  kmac_init perm v key custom L = xof_absorb perm v (mk (cxof_state perm v name_kmac custom L)) key.
Proof.
  unfold kmac_init. destruct (N.eqb_spec L 32) as [e|ne].
  - subst L. rewrite absorb_custom_spec by (apply (cxof_state_len perm perm_len v Hv_of_Hx)). reflexivity.
  - now rewrite (xof_init_custom_spec perm perm_len v Hv_of_Hx (Some name_kmac) custom L).
Qed.

Theorem kmac_run_spec key custom L chunks outs :
  xof_run perm v (mk (cxof_state perm v name_kmac custom L)) (key :: chunks) outs =
  kmac perm v key (concat chunks) custom L (fold_right Nat.add 0 outs).
Proof.
  rewrite (xof_run_spec perm perm_len v Hv_of_Hx _ (key :: chunks) outs (cxof_state_len perm perm_len v Hv_of_Hx _ custom L)).
  reflexivity.
Qed.

Theorem kdf_init_spec key custom L :
  kdf_init perm v key custom L = xof_absorb perm v (mk (cxof_state perm v name_kdf custom L)) key.
Proof. unfold kdf_init. now rewrite (xof_init_custom_spec perm perm_len v Hv_of_Hx (Some name_kdf) custom L). Qed.

Theorem kdf_run_spec key custom L outs :
  xof_run perm v (mk (cxof_state perm v name_kdf custom L)) [key] outs =
  kdf perm v key custom L (fold_right Nat.add 0 outs).
Proof.
  rewrite (xof_run_spec perm perm_len v Hv_of_Hx _ [key] outs (cxof_state_len perm perm_len v Hv_of_Hx _ custom L)).
  cbn [concat]. now rewrite app_nil_r.
Qed.

End WithPerm.

(* ---- PBKDF2: the C loop structure = RFC 8018's F, for any PRF ---------------------------- *)

Section Pbkdf2P.
Variable prf1 : bytes -> bytes.
Variable prfc : list bytes -> bytes.
Hypothesis prfc_ok : forall cs, prfc cs = prf1 (concat cs).

(* invariant: after k extra iterations T = U1 xor .. xor U_{k+2}, U = U_{k+2} *)
Lemma pb_loop_inv U1 fuel : forall count k T, count <= fuel ->
  pb_loop prfc fuel count T (pb_U prf1 U1 k) =
  fold_left xorl (map (pb_U prf1 U1) (seq (S k) (count - 2))) T.
Proof.
  induction fuel as [|f IH]; intros count k T Hc.
  - replace count with 0 by lia. reflexivity.
  - cbn [pb_loop]. destruct (Nat.ltb_spec 2 count) as [H|H].
    + rewrite prfc_ok. cbn [concat]. rewrite app_nil_r.
      change (prf1 (pb_U prf1 U1 k)) with (pb_U prf1 U1 (S k)).
      rewrite IH by lia. replace (count - 2) with (S (count - 1 - 2)) by lia. reflexivity.
    + replace (count - 2) with 0 by lia. reflexivity.
Qed.

Theorem pb_f_c_spec salt count i : (N.of_nat i < 4294967296)%N ->
  pb_f_c prfc salt count i = pb_F prf1 salt count i.
Proof.
  intros Hi. unfold pb_f_c, pb_F.
  assert (E : N.land (N.of_nat i) 4294967295 = N.of_nat i).
  { change 4294967295%N with (N.ones 32). rewrite N.land_ones. now apply N.mod_small. }
  rewrite E, prfc_ok. cbn [concat]. rewrite app_nil_r.
  set (U1 := prf1 (salt ++ be_encode 4 (N.of_nat i))).
  destruct (Nat.ltb_spec 1 count) as [H|H].
  - rewrite prfc_ok. cbn [concat]. rewrite app_nil_r.
    change (prf1 U1) with (pb_U prf1 U1 1).
    rewrite pb_loop_inv by lia.
    replace (Nat.max count 1 - 1) with (S (count - 2)) by lia. reflexivity.
  - replace (Nat.max count 1 - 1) with 0 by lia. reflexivity.
Qed.


Hypothesis prf1_len : forall x, length (prf1 x) = 32.

Lemma xorl_length a b : length a = length b -> length (xorl a b) = length a.
Proof.
  revert b; induction a as [|x a IH]; intros b H; destruct b as [|y b]; try discriminate; [reflexivity|].
  cbn [xorl length]. f_equal. apply IH. cbn in H. lia.
Qed.

Lemma pb_U_len U1 j : length U1 = 32 -> length (pb_U prf1 U1 j) = 32.
Proof. intros H. destruct j; [exact H|apply prf1_len]. Qed.

Lemma pb_F_len salt c i : length (pb_F prf1 salt c i) = 32.
Proof.
  unfold pb_F. set (U1 := prf1 _). assert (L1 : length U1 = 32) by apply prf1_len.
  generalize (seq 1 (Nat.max c 1 - 1)) as js. intros js.
  assert (G : forall T, length T = 32 -> length (fold_left xorl (map (pb_U prf1 U1) js) T) = 32).
  { induction js as [|j js IH]; intros T HT; [exact HT|]. cbn [map fold_left]. apply IH.
    rewrite xorl_length; [exact HT|]. rewrite HT. symmetry. now apply pb_U_len. }
  now apply G.
Qed.

(* the output loop: blocks 1, 2, ... concatenated, the last truncated *)
Theorem pb_out_spec fuel : forall salt count blk outlen, outlen <= fuel ->
  (N.of_nat (blk + outlen / 32) < 4294967296)%N ->
  pb_out prfc fuel salt count blk outlen =
  firstn outlen (flat_map (pb_F prf1 salt count) (seq blk (outlen / 32 + 1))).
Proof.
  induction fuel as [|f IH]; intros salt count blk outlen Hf Hb.
  - replace outlen with 0 by lia. reflexivity.
  - cbn [pb_out]. destruct (Nat.eqb_spec outlen 0) as [e|ne]; [subst; reflexivity|].
    destruct (Nat.leb_spec 32 outlen) as [H|H].
    + assert (D : outlen / 32 = S ((outlen - 32) / 32)).
      { replace outlen with ((outlen - 32) + 1 * 32) at 1 by lia. rewrite Nat.div_add by lia. lia. }
      rewrite pb_f_c_spec by lia.
      rewrite IH by (try lia; rewrite D in Hb; lia).
      rewrite D. replace (S ((outlen - 32) / 32) + 1) with (S ((outlen - 32) / 32 + 1)) by lia.
      cbn [seq flat_map]. rewrite firstn_app, pb_F_len.
      rewrite (firstn_all2 (n := outlen)) by (rewrite pb_F_len; lia).
      replace (blk + 1) with (S blk) by lia. reflexivity.
    + rewrite Nat.div_small by lia. cbn [Nat.add seq flat_map]. rewrite app_nil_r.
      rewrite pb_f_c_spec; [reflexivity|]. rewrite Nat.div_small in Hb by lia. lia.
Qed.

End Pbkdf2P.
