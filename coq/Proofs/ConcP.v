(* Lemmas about Model/Conc.v: the footprint theorem for every interleaving of
   any number of threads, data-race freedom, the frame property, soundness of
   the executable schedule runner and of the boolean footprint checkers. *)
From Coq Require Import List NArith Arith Bool Lia.
From AsconV Require Import Model.Conc.
Import ListNotations.
Local Open Scope nat_scope.

(* ---- membership ---- *)

Lemma mem_In l ls : mem l ls = true <-> In l ls.
Proof.
  unfold mem. rewrite existsb_exists. split.
  - intros [x [Hx He]]. apply N.eqb_eq in He. subst x. exact Hx.
  - intro H. exists l. split; [exact H | apply N.eqb_refl].
Qed.

Lemma mem_false l ls : mem l ls = false <-> ~ In l ls.
Proof.
  rewrite <- mem_In. destruct (mem l ls).
  - split; [discriminate | intro H; exfalso; apply H; reflexivity].
  - split; [intros _ H; discriminate | reflexivity].
Qed.

(* ---- pools ---- *)

Lemma length_set ps : forall i p, length (set ps i p) = length ps.
Proof.
  induction ps as [|q ps IH]; intros i p; [reflexivity|].
  destruct i; cbn [set length]; [reflexivity | rewrite IH; reflexivity].
Qed.

Lemma get_set_same ps : forall i p, i < length ps -> get (set ps i p) i = p.
Proof.
  unfold get. induction ps as [|q ps IH]; intros i p H; cbn [length] in H; [lia|].
  destruct i; cbn [set nth]; [reflexivity | apply IH; lia].
Qed.

Lemma get_set_other ps : forall i j p, i <> j -> get (set ps i p) j = get ps j.
Proof.
  unfold get. induction ps as [|q ps IH]; intros i j p H; [reflexivity|].
  destruct i, j; cbn [set nth]; try reflexivity; [lia | apply IH; lia].
Qed.

Lemma get_cons_lt ps i s r : get ps i = s :: r -> i < length ps.
Proof.
  unfold get. intro H. destruct (Nat.lt_ge_cases i (length ps)) as [L|G]; [exact L|].
  rewrite nth_overflow in H by exact G. discriminate.
Qed.

Lemma get_app_length (done : pool) p ps : get (done ++ p :: ps) (length done) = p.
Proof. unfold get. rewrite app_nth2 by lia. rewrite Nat.sub_diag. reflexivity. Qed.

Lemma set_app_length (done : pool) p q ps :
  set (done ++ p :: ps) (length done) q = done ++ q :: ps.
Proof.
  induction done as [|d done IH]; cbn [app length set]; [reflexivity | rewrite IH; reflexivity].
Qed.

(* ---- single steps ---- *)

Lemma step_of_wf rs ws g : step_wf (step_of rs ws g).
Proof.
  unfold step_wf, step_of. cbn [reads writes eff]. intros h h' H l _.
  rewrite (map_ext_in h h' rs H). reflexivity.
Qed.

Lemma apply_notin s h l : ~ In l (writes s) -> apply s h l = h l.
Proof. intro H. unfold apply. apply mem_false in H. rewrite H. reflexivity. Qed.

Lemma apply_in s h l : In l (writes s) -> apply s h l = eff s h l.
Proof. intro H. unfold apply. apply mem_In in H. rewrite H. reflexivity. Qed.

(* a step inside a footprint maps heaps that agree on the footprint to heaps
   that agree on the footprint, and observes the same values *)
Lemma apply_agree fp s h h' : step_ok fp s -> agree (foot fp) h h' ->
  agree (foot fp) (apply s h) (apply s h') /\ obs s h = obs s h'.
Proof.
  intros [Hr [Hw Hwf]] A.
  assert (R : forall l, In l (reads s) -> h l = h' l) by (intros l Hl; apply A, Hr, Hl).
  split.
  - intros l Hl. unfold apply. destruct (mem l (writes s)) eqn:E.
    + apply Hwf; [exact R | apply mem_In; exact E].
    + apply A; exact Hl.
  - unfold obs. apply map_ext_in. exact R.
Qed.

Lemma run_agree fp p : Forall (step_ok fp) p -> forall h h', agree (foot fp) h h' ->
  agree (foot fp) (run p h) (run p h') /\ obs_run p h = obs_run p h'.
Proof.
  induction 1 as [|s p Hs Hp IH]; intros h h' A; cbn [run obs_run].
  - split; [exact A | reflexivity].
  - destruct (apply_agree fp s h h' Hs A) as [A' O].
    destruct (IH _ _ A') as [A'' O']. split; [exact A''|]. rewrite O, O'. reflexivity.
Qed.

(* a step of another thread does not touch locations disjoint from its W *)
Lemma apply_other fp s ls h : step_ok fp s -> disjoint (fp_w fp) ls -> agree ls (apply s h) h.
Proof.
  intros [_ [Hw _]] D l Hl. apply apply_notin. intro Hin. exact (D l (Hw l Hin) Hl).
Qed.

Lemma pool_ok_head fps ps i s rest : pool_ok fps ps -> get ps i = s :: rest -> step_ok (fpget fps i) s.
Proof. intros P G. specialize (P i). rewrite G in P. inversion P; assumption. Qed.

Lemma pool_ok_set fps ps i s rest :
  pool_ok fps ps -> get ps i = s :: rest -> pool_ok fps (set ps i rest).
Proof.
  intros P G j. destruct (Nat.eq_dec i j) as [E|N].
  - subst j. rewrite get_set_same by (eapply get_cons_lt; exact G).
    specialize (P i). rewrite G in P. inversion P; assumption.
  - rewrite get_set_other by exact N. apply P.
Qed.

(* ---- the invariant, by induction on the interleaving ----
   From any heap h: after the whole trace, thread i's footprint holds what
   thread i alone would have produced from h, and thread i observed what it
   would have observed alone.  (Step of thread i: both sides advance by the
   same step.  Step of thread k <> i: it changes only W_k, which is disjoint
   from W_i u R_i, so thread i's solo run from the new heap equals its solo
   run from the old one, by run_agree.) *)
Lemma interleave_inv fps ps tr : interleaving ps tr -> pool_ok fps ps -> fps_ok fps (length ps) ->
  forall h i, i < length ps ->
    agree (foot (fpget fps i)) (run_trace tr h) (run (get ps i) h)
    /\ obs_trace i tr h = obs_run (get ps i) h.
Proof.
  induction 1 as [ps D | ps k s rest tr G IL IH]; intros P F h i Li.
  - rewrite D. cbn. split; [intros l _; reflexivity | reflexivity].
  - pose proof (get_cons_lt _ _ _ _ G) as Lk.
    pose proof (pool_ok_head _ _ _ _ _ P G) as Sk.
    specialize (IH (pool_ok_set _ _ _ _ _ P G)).
    rewrite length_set in IH. specialize (IH F (apply s h) i Li).
    cbn [run_trace obs_trace].
    destruct (Nat.eq_dec k i) as [E|N].
    + subst i. rewrite get_set_same in IH by exact Lk. rewrite G. cbn [run obs_run].
      rewrite Nat.eqb_refl. cbn [app]. destruct IH as [A O].
      split; [exact A | rewrite O; reflexivity].
    + rewrite get_set_other in IH by exact N.
      assert (E : Nat.eqb k i = false) by (apply Nat.eqb_neq; exact N). rewrite E. cbn [app].
      destruct IH as [A O].
      assert (Hp : Forall (step_ok (fpget fps i)) (get ps i)) by apply P.
      assert (A0 : agree (foot (fpget fps i)) (apply s h) h).
      { apply (apply_other (fpget fps k)); [exact Sk | apply F; assumption]. }
      destruct (run_agree _ _ Hp _ _ A0) as [A1 O1].
      split.
      * intros l Hl. rewrite (A l Hl). apply A1; exact Hl.
      * rewrite O. exact O1.
Qed.

Theorem interleave_main : forall fps ps tr h0,
  pool_ok fps ps -> fps_ok fps (length ps) -> interleaving ps tr ->
  forall i, i < length ps ->
    (forall l, In l (fp_w (fpget fps i)) -> run_trace tr h0 l = run (get ps i) h0 l) /\
    (forall l, In l (fp_r (fpget fps i)) -> run_trace tr h0 l = run (get ps i) h0 l) /\
    obs_trace i tr h0 = obs_run (get ps i) h0.
Proof.
  intros fps ps tr h0 P F IL i Li.
  destruct (interleave_inv fps ps tr IL P F h0 i Li) as [A O].
  split; [|split; [|exact O]]; intros l Hl; apply A; unfold foot; apply in_or_app; [left|right]; exact Hl.
Qed.

(* any two interleavings give every thread the same results *)
Theorem interleave_any_two : forall fps ps tr1 tr2 h0,
  pool_ok fps ps -> fps_ok fps (length ps) -> interleaving ps tr1 -> interleaving ps tr2 ->
  forall i, i < length ps ->
    agree (foot (fpget fps i)) (run_trace tr1 h0) (run_trace tr2 h0) /\
    obs_trace i tr1 h0 = obs_trace i tr2 h0.
Proof.
  intros fps ps tr1 tr2 h0 P F I1 I2 i Li.
  destruct (interleave_inv fps ps tr1 I1 P F h0 i Li) as [A1 O1].
  destruct (interleave_inv fps ps tr2 I2 P F h0 i Li) as [A2 O2].
  split; [intros l Hl; rewrite (A1 l Hl), (A2 l Hl); reflexivity | rewrite O1, O2; reflexivity].
Qed.

(* locations outside every write footprint keep their initial value *)
Lemma interleave_frame fps ps tr : interleaving ps tr -> pool_ok fps ps ->
  forall h l, (forall i, i < length ps -> ~ In l (fp_w (fpget fps i))) -> run_trace tr h l = h l.
Proof.
  induction 1 as [ps D | ps k s rest tr G IL IH]; intros P h l NW; cbn [run_trace]; [reflexivity|].
  pose proof (get_cons_lt _ _ _ _ G) as Lk.
  pose proof (pool_ok_head _ _ _ _ _ P G) as Sk.
  rewrite (IH (pool_ok_set _ _ _ _ _ P G) (apply s h) l).
  - apply apply_notin. intro Hin. destruct Sk as [_ [Hw _]]. exact (NW k Lk (Hw l Hin)).
  - intros i Hi. rewrite length_set in Hi. apply NW; exact Hi.
Qed.

(* ---- the sequential run is one of the interleavings ---- *)

Lemma run_trace_app a b h : run_trace (a ++ b) h = run_trace b (run_trace a h).
Proof.
  revert h. induction a as [|[j s] a IH]; intro h; cbn [app run_trace]; [reflexivity | apply IH].
Qed.

Lemma run_trace_map k p h : run_trace (map (pair k) p) h = run p h.
Proof.
  revert h. induction p as [|s p IH]; intro h; cbn [map run_trace run]; [reflexivity | apply IH].
Qed.

Lemma run_seq_trace : forall ps k h, run_trace (seq_trace_from k ps) h = run_seq ps h.
Proof.
  unfold run_seq. induction ps as [|p ps IH]; intros k h; cbn [seq_trace_from fold_left]; [reflexivity|].
  rewrite run_trace_app, run_trace_map. apply IH.
Qed.

Lemma seq_interleaving_from : forall ps done, Forall (fun p : prog => p = []) done ->
  interleaving (done ++ ps) (seq_trace_from (length done) ps).
Proof.
  induction ps as [|p ps IH]; intros done D.
  - cbn [seq_trace_from]. apply il_done. intro i. rewrite app_nil_r. unfold get.
    destruct (Nat.lt_ge_cases i (length done)) as [L|G].
    + rewrite Forall_forall in D. apply D. apply nth_In; exact L.
    + apply nth_overflow; exact G.
  - cbn [seq_trace_from]. induction p as [|s p IHp].
    + cbn [map app].
      specialize (IH (done ++ [[]])). rewrite app_length in IH. cbn [length] in IH.
      rewrite Nat.add_1_r in IH. rewrite <- app_assoc in IH. cbn [app] in IH.
      apply IH. apply Forall_app. split; [exact D | constructor; [reflexivity | constructor]].
    + cbn [map app]. eapply il_step; [apply get_app_length|]. rewrite set_app_length. exact IHp.
Qed.

Theorem seq_interleaving ps : interleaving ps (seq_trace ps).
Proof. exact (seq_interleaving_from ps [] (Forall_nil _)). Qed.

(* every interleaving leaves in each thread's footprint what the plain
   sequential composition thread 0; thread 1; ... leaves there *)
Theorem interleave_sequential : forall fps ps tr h0,
  pool_ok fps ps -> fps_ok fps (length ps) -> interleaving ps tr ->
  forall i, i < length ps ->
    agree (foot (fpget fps i)) (run_trace tr h0) (run_seq ps h0) /\
    obs_trace i tr h0 = obs_trace i (seq_trace ps) h0.
Proof.
  intros fps ps tr h0 P F IL i Li. unfold seq_trace. rewrite <- (run_seq_trace ps 0 h0).
  exact (interleave_any_two fps ps tr (seq_trace ps) h0 P F IL (seq_interleaving ps) i Li).
Qed.

(* ---- data-race freedom ---- *)

Lemma reach_inv fps ps0 ps : reach ps0 ps -> pool_ok fps ps0 ->
  pool_ok fps ps /\ length ps = length ps0.
Proof.
  induction 1 as [ps | ps ps' i s rest R IH G]; intro P; [split; [exact P | reflexivity]|].
  destruct (IH P) as [P' L]. split; [eapply pool_ok_set; eassumption | rewrite length_set; exact L].
Qed.

Lemma no_conflict fpi fpj s t : step_ok fpi s -> step_ok fpj t ->
  disjoint (fp_w fpi) (foot fpj) -> disjoint (fp_w fpj) (foot fpi) -> ~ conflict s t.
Proof.
  intros [Rs [Ws _]] [Rt [Wt _]] D1 D2 [l [[Hw [Hr|Hw']]|[Hw Hr]]].
  - exact (D1 l (Ws l Hw) (Rt l Hr)).
  - apply (D1 l (Ws l Hw)). unfold foot. apply in_or_app. left. exact (Wt l Hw').
  - exact (D2 l (Wt l Hw) (Rs l Hr)).
Qed.

Theorem race_free fps ps0 : pool_ok fps ps0 -> fps_ok fps (length ps0) -> ~ race ps0.
Proof.
  intros P F [ps [i [j [s [t [ri [rj [R [N [Gi [Gj C]]]]]]]]]]].
  destruct (reach_inv fps _ _ R P) as [P' L].
  pose proof (get_cons_lt _ _ _ _ Gi) as Li. pose proof (get_cons_lt _ _ _ _ Gj) as Lj.
  rewrite L in Li, Lj.
  pose proof (pool_ok_head _ _ _ _ _ P' Gi) as Si.
  pose proof (pool_ok_head _ _ _ _ _ P' Gj) as Sj.
  exact (no_conflict _ _ _ _ Si Sj (F i j Li Lj N) (F j i Lj Li (not_eq_sym N)) C).
Qed.

(* every pool on an interleaving's way is reachable, so race_free speaks about
   every point of every interleaving *)
Lemma reach_trans a b c : reach a b -> reach b c -> reach a c.
Proof. intros R1 R2. induction R2 as [|b c' i s rest R2 IH G]; [exact R1 | eapply reach_step; [apply IH; exact R1 | exact G]]. Qed.

(* ---- executable schedule runner and boolean checkers ---- *)

Lemma all_done_get ps : all_done ps = true -> forall i, get ps i = [].
Proof.
  unfold all_done, get. intros H i. rewrite forallb_forall in H.
  destruct (Nat.lt_ge_cases i (length ps)) as [L|G].
  - specialize (H (nth i ps []) (nth_In _ _ L)). destruct (nth i ps []); [reflexivity | discriminate].
  - apply nth_overflow; exact G.
Qed.

Lemma trace_of_sound : forall sched ps tr, trace_of ps sched = Some tr -> interleaving ps tr.
Proof.
  induction sched as [|i sched IH]; intros ps tr H; cbn [trace_of] in H.
  - destruct (all_done ps) eqn:D; [|discriminate]. inversion H; subst tr.
    apply il_done. apply all_done_get; exact D.
  - destruct (get ps i) as [|s rest] eqn:G; [discriminate|].
    destruct (trace_of (set ps i rest) sched) as [tr'|] eqn:T; [|discriminate].
    inversion H; subst tr. eapply il_step; [exact G | apply IH; exact T].
Qed.

Lemma inclb_incl a b : inclb a b = true -> incl a b.
Proof.
  unfold inclb. rewrite forallb_forall. intros H l Hl. apply mem_In. apply H; exact Hl.
Qed.

Lemma disjointb_disjoint a b : disjointb a b = true -> disjoint a b.
Proof.
  unfold disjointb. rewrite forallb_forall. intros H l Hl Hb. specialize (H l Hl).
  apply mem_In in Hb. rewrite Hb in H. discriminate.
Qed.

Lemma fps_okb_ok fps n : fps_okb fps n = true -> fps_ok fps n.
Proof.
  unfold fps_okb. rewrite forallb_forall. intros H i j Li Lj N.
  assert (Hi : In i (seq 0 n)) by (apply in_seq; lia).
  assert (Hj : In j (seq 0 n)) by (apply in_seq; lia).
  specialize (H i Hi). rewrite forallb_forall in H. specialize (H j Hj).
  apply orb_true_iff in H. destruct H as [E|D].
  - apply Nat.eqb_eq in E. contradiction.
  - apply disjointb_disjoint; exact D.
Qed.

Lemma pool_inb_ok fps ps : pool_inb fps ps = true -> (forall i, Forall step_wf (get ps i)) ->
  pool_ok fps ps.
Proof.
  unfold pool_inb. rewrite forallb_forall. intros H W i.
  destruct (Nat.lt_ge_cases i (length ps)) as [L|G].
  - assert (Hi : In i (seq 0 (length ps))) by (apply in_seq; lia).
    specialize (H i Hi). rewrite forallb_forall in H.
    specialize (W i). rewrite Forall_forall in W. rewrite Forall_forall.
    intros s Hs. specialize (H s Hs). unfold step_inb in H. apply andb_true_iff in H.
    destruct H as [A B].
    split; [apply inclb_incl; exact A | split; [apply inclb_incl; exact B | apply W; exact Hs]].
  - unfold get. rewrite nth_overflow by exact G. constructor.
Qed.
