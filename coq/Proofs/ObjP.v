(* C13 - proofs about Model/Objm.v: whatever the operations wrote, the erase
   sequence of each object type leaves a constant image. *)
From Coq Require Import List NArith Arith Bool String Lia.
From AsconV Require Import Model.Objm.
Import ListNotations.
Local Open Scope string_scope.
Local Open Scope nat_scope.

(* ---- the erase sequence ------------------------------------------------ *)
Lemma run_act_cong : forall L a (m m' : image) i,
  act_covers L a i = true \/ m i = m' i -> run_act L a m i = run_act L a m' i.
Proof.
  intros L a m m' i H. unfold run_act, act_covers in *.
  destruct (act_range L a) as [[o n]|].
  - unfold fill. destruct (inr o n i) eqn:R; [reflexivity|].
    destruct H as [H|H]; [discriminate|exact H].
  - destruct H as [H|H]; [discriminate|exact H].
Qed.

Lemma erase_cong : forall L acts (m m' : image) i,
  covered L acts i = true \/ m i = m' i -> erase L acts m i = erase L acts m' i.
Proof.
  intros L acts. induction acts as [|a acts IH]; intros m m' i H.
  - cbn. destruct H as [H|H]; [discriminate|exact H].
  - cbn [erase fold_left]. apply IH.
    unfold covered in H. cbn [existsb] in H.
    destruct (act_covers L a i) eqn:A.
    + right. apply run_act_cong. left. exact A.
    + destruct H as [H|H].
      * left. exact H.
      * right. apply run_act_cong. right. exact H.
Qed.

(* ---- operations only write inside Data fields -------------------------- *)
Lemma write_named_frame : forall L g nm (m : image) i,
  in_data L i = false -> write_named L g nm m i = m i.
Proof.
  intros L g nm m i H. unfold write_named.
  destruct (find_field L nm) as [f|] eqn:F; [|reflexivity].
  destruct (is_data f) eqn:D; [|reflexivity].
  unfold fill. destruct (inr (f_off f) (f_len f) i) eqn:R; [|reflexivity].
  exfalso. unfold find_field in F. apply find_some in F. destruct F as [Fin _].
  assert (E : in_data L i = true).
  { unfold in_data. apply existsb_exists. exists f. split; [exact Fin|]. rewrite D, R. reflexivity. }
  rewrite E in H. discriminate.
Qed.

Section Frame.
  Variable L : layout.
  Variable op : Type.
  Variable writes : op -> list string.
  Variable content : list op -> string -> nat -> N.

  Lemma step_frame : forall hist o (m : image) i,
    in_data L i = false -> step L op writes content hist o m i = m i.
  Proof.
    intros hist o m i H. unfold step.
    induction (writes o) as [|nm l IH]; [reflexivity|].
    cbn [fold_right]. rewrite write_named_frame by exact H. exact IH.
  Qed.

  Lemma apply_from_frame : forall h pre (m : image) i,
    in_data L i = false -> apply_from L op writes content pre h m i = m i.
  Proof.
    intros h. induction h as [|o t IH]; intros pre m i H; [reflexivity|].
    cbn [apply_from]. rewrite IH by exact H. apply step_frame. exact H.
  Qed.
End Frame.

Lemma in_data_outside : forall L i, fields_in L = true -> l_size L <= i -> in_data L i = false.
Proof.
  intros L i F Hi. unfold in_data. apply not_true_is_false. intro E.
  apply existsb_exists in E. destruct E as [f [Fin E]].
  unfold fields_in in F. rewrite forallb_forall in F. specialize (F f Fin).
  apply Nat.leb_le in F. apply andb_true_iff in E. destruct E as [_ R].
  unfold inr in R. apply andb_true_iff in R. destruct R as [R1 R2].
  apply Nat.leb_le in R1. apply Nat.ltb_lt in R2. lia.
Qed.

(* ---- the generic theorem ----------------------------------------------- *)
Theorem erase_const_pointwise : forall L acts, wipe_ok L acts = true ->
  forall (op : Type) (writes : op -> list string) (content : list op -> string -> nat -> N) (h : list op) i,
  erase L acts (apply L op writes content h) i = erase L acts (init_image L) i.
Proof.
  intros L acts W op writes content h i.
  unfold wipe_ok in W. apply andb_true_iff in W. destruct W as [F W].
  apply erase_cong.
  destruct (covered L acts i) eqn:C; [left; reflexivity|right].
  unfold apply. apply apply_from_frame.
  destruct (Nat.lt_ge_cases i (l_size L)) as [Hi|Hi].
  - rewrite forallb_forall in W. specialize (W i).
    assert (Hin : In i (seq 0 (l_size L))) by (apply in_seq; lia).
    specialize (W Hin). rewrite C in W. cbn in W.
    destruct (in_data L i); [discriminate|reflexivity].
  - apply in_data_outside; assumption.
Qed.

Theorem erase_const : forall S, spec_ok S = true ->
  forall content h, image_after S content h = erased_image S.
Proof.
  intros S W content h. unfold image_after, erased_image, to_list.
  apply map_ext. intro i. apply erase_const_pointwise. exact W.
Qed.

(* the two-run form used by the harness: two runs of the same history with
   different contents (secrets) leave identical objects *)
Corollary erase_two_runs : forall S, spec_ok S = true ->
  forall content content' h, image_after S content h = image_after S content' h.
Proof. intros S W c c' h. rewrite (erase_const S W c h), (erase_const S W c' h). reflexivity. Qed.

(* ---- per-type constants ------------------------------------------------ *)
Definition E_zero (n : nat) : list cell := zeros n.
Definition E_xoflike : list cell := (zeros 42 ++ unspec 6)%list.
Definition E_random : list cell := (zeros 42 ++ unspec 6 ++ zeros 8)%list.
Definition E_cpp128 : list cell := (unspec 8 ++ zeros 32)%list.
Definition E_cpp80pq : list cell := (unspec 8 ++ zeros 36 ++ unspec 4)%list.
Definition E_cppisap_dtor : list cell := (unspec 8 ++ zeros 96)%list.
Definition E_cppisap_clear (z : list N) : list cell := (unspec 8 ++ consts z 80 ++ zeros 16)%list.
Definition E_cppmasked128 : list cell := (unspec 8 ++ zeros 80)%list.
Definition E_cppmasked160 : list cell := (unspec 8 ++ zeros 208)%list.

Ltac erased := intros; rewrite erase_const by (vm_compute; reflexivity); vm_compute; reflexivity.

Lemma erase_perm : forall c h, image_after spec_perm c h = E_zero 40. Proof. erased. Qed.
Lemma erase_aead128 : forall c h, image_after spec_aead128 c h = E_zero 80. Proof. erased. Qed.
Lemma erase_aead128a : forall c h, image_after spec_aead128a c h = E_zero 80. Proof. erased. Qed.
Lemma erase_aead80pq : forall c h, image_after spec_aead80pq c h = E_zero 80. Proof. erased. Qed.
Lemma erase_xof : forall c h, image_after spec_xof c h = E_xoflike. Proof. erased. Qed.
Lemma erase_xofa : forall c h, image_after spec_xofa c h = E_xoflike. Proof. erased. Qed.
Lemma erase_hash : forall c h, image_after spec_hash c h = E_xoflike. Proof. erased. Qed.
Lemma erase_hasha : forall c h, image_after spec_hasha c h = E_xoflike. Proof. erased. Qed.
Lemma erase_prf : forall c h, image_after spec_prf c h = E_xoflike. Proof. erased. Qed.
Lemma erase_hmac : forall c h, image_after spec_hmac c h = E_xoflike. Proof. erased. Qed.
Lemma erase_hmaca : forall c h, image_after spec_hmaca c h = E_xoflike. Proof. erased. Qed.
Lemma erase_kmac : forall c h, image_after spec_kmac c h = E_xoflike. Proof. erased. Qed.
Lemma erase_kmaca : forall c h, image_after spec_kmaca c h = E_xoflike. Proof. erased. Qed.
Lemma erase_kdf : forall c h, image_after spec_kdf c h = E_xoflike. Proof. erased. Qed.
Lemma erase_kdfa : forall c h, image_after spec_kdfa c h = E_xoflike. Proof. erased. Qed.
Lemma erase_hkdf : forall c h, image_after spec_hkdf c h = E_zero 66. Proof. erased. Qed.
Lemma erase_hkdfa : forall c h, image_after spec_hkdfa c h = E_zero 66. Proof. erased. Qed.
Lemma erase_random : forall c h, image_after spec_random c h = E_random. Proof. erased. Qed.
Lemma erase_isap128 : forall c h, image_after spec_isap128 c h = E_zero 80. Proof. erased. Qed.
Lemma erase_isap128a : forall c h, image_after spec_isap128a c h = E_zero 80. Proof. erased. Qed.
Lemma erase_isap80pq : forall c h, image_after spec_isap80pq c h = E_zero 80. Proof. erased. Qed.
Lemma erase_mkey128 : forall c h, image_after spec_mkey128 c h = E_zero 64. Proof. erased. Qed.
Lemma erase_mkey160 : forall c h, image_after spec_mkey160 c h = E_zero 192. Proof. erased. Qed.
Lemma erase_mstate : forall c h, image_after spec_mstate c h = E_zero 160. Proof. erased. Qed.

(* C++ classes: the name and the dtor/clear distinction do not change the
   bytes for the aead/siv/masked classes, so one lemma per layout *)
Lemma erase_cppaead128 : forall nm how c h, image_after (mk_cppaead nm how L_cpp128) c h = E_cpp128. Proof. erased. Qed.
Lemma erase_cppaead80pq : forall nm how c h, image_after (mk_cppaead nm how L_cpp80pq) c h = E_cpp80pq. Proof. erased. Qed.
Lemma img_cppisap_dtor : forall nm how c h, image_after (mk_cppisap nm how erase_cppisap_dtor) c h = E_cppisap_dtor.
Proof. erased. Qed.
Lemma erase_cppmasked128 : forall nm how c h, image_after (mk_cppmasked nm how L_cppmasked128) c h = E_cppmasked128.
Proof. erased. Qed.
Lemma erase_cppmasked160 : forall nm how c h, image_after (mk_cppmasked nm how L_cppmasked160) c h = E_cppmasked160.
Proof. erased. Qed.
Lemma erase_cpphash : forall nm p c h, p = "m_state.xof." \/ p = "m_state." -> image_after (mk_cpphash nm p) c h = E_xoflike.
Proof. intros nm p c h [P|P]; subst p; erased. Qed.

(* isap*::clear() leaves the pre-computed key of the all-zero key, whatever
   those 80 bytes are (z), and a zero nonce *)
Lemma spec_ok_cppisap_clear : forall nm how z, spec_ok (mk_cppisap nm how (erase_cppisap_clear z)) = true.
Proof. intros. vm_compute. reflexivity. Qed.
Lemma erase_cppisap_clear_img : forall nm how z c h,
  image_after (mk_cppisap nm how (erase_cppisap_clear z)) c h = E_cppisap_clear z.
Proof. intros nm how z c h. rewrite erase_const by apply spec_ok_cppisap_clear. vm_compute. reflexivity. Qed.

(* every entry of the table satisfies the side condition, for every z *)
Lemma all_specs_ok : forall z S, In S (all_specs z) -> spec_ok S = true.
Proof.
  intros z S H. unfold all_specs in H. cbn [In] in H.
  repeat (destruct H as [H|H]; [subst S; vm_compute; reflexivity|]). contradiction.
Qed.
Theorem erase_all : forall z S, In S (all_specs z) ->
  forall content content' h, image_after S content h = erased_image S /\ image_after S content h = image_after S content' h.
Proof.
  intros z S H c c' h. pose proof (all_specs_ok z S H) as W. split.
  - apply erase_const. exact W.
  - apply erase_two_runs. exact W.
Qed.

Lemma specified_zero :
  Forall (fun E => Forall (fun c => snd c = 0%N) (specified E))
    [E_zero 40; E_zero 80; E_xoflike; E_zero 66; E_random; E_zero 64; E_zero 192; E_zero 160;
     E_cpp128; E_cpp80pq; E_cppisap_dtor; E_cppmasked128; E_cppmasked160].
Proof. vm_compute. repeat constructor. Qed.
