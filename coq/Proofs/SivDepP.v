(* C06: the C-shaped SIV encryption (Model/Sivm.siv_encrypt_c) keys its second
   pass with its own first-pass tag: stated about the model function's output,
   through SivP.siv_encrypt_c_spec (not by unfolding Spec/Siv.siv_encrypt). *)
From AsconV Require Import Model.Sivm Proofs.SpongeP Proofs.AeadP Proofs.SivP.
Local Open Scope nat_scope.

Section WithPerm.
Variable perm : nat -> bytes -> bytes.
Hypothesis perm_len : forall r s, length s = 40 -> length (perm r s) = 40.
Variable v : aead_variant.
Hypothesis Hv : wf_variant v.
Hypothesis Hiv : v_iv v <> [].

Theorem siv_encrypt_c_own_tag K N A P : wf_kn v K N ->
  let C := fst (siv_encrypt_c perm v K N A P) in
  let T := skipn (length P) C in
  length C = length P + 16 /\
  T = siv_tag perm v K N A P /\
  firstn (length P) C = xorl P (siv_keystream perm v K T (length P)) /\
  firstn (length P) C = siv_crypt_c perm v K T P /\
  forall N' A', wf_kn v K N' -> siv_tag perm v K N' A' P = siv_tag perm v K N A P ->
    fst (siv_encrypt_c perm v K N' A' P) = C.
Proof.
  intros Hkn. cbv zeta.
  rewrite (siv_encrypt_c_spec perm perm_len v Hv Hiv K N A P Hkn). cbn [fst].
  unfold siv_encrypt. set (T := siv_tag perm v K N A P).
  assert (LT : length T = 16) by (apply (siv_tag_len perm perm_len v Hv Hiv); exact Hkn).
  assert (HkT : wf_kn v K T) by (destruct Hkn as [HK _]; split; assumption).
  assert (LB : length (xorl P (siv_keystream perm v K T (length P))) = length P).
  { rewrite xorl_len, (siv_keystream_len perm perm_len v Hv Hiv K T (length P) HkT). apply Nat.min_id. }
  assert (ES : skipn (length P) (xorl P (siv_keystream perm v K T (length P)) ++ T) = T).
  { rewrite <- LB at 1. rewrite skipn_app, Nat.sub_diag, skipn_all. reflexivity. }
  assert (EF : firstn (length P) (xorl P (siv_keystream perm v K T (length P)) ++ T) =
               xorl P (siv_keystream perm v K T (length P))).
  { rewrite <- LB at 1. rewrite firstn_app, Nat.sub_diag, firstn_O, app_nil_r. apply firstn_all. }
  rewrite ES, EF. split; [rewrite app_length; lia|]. split; [reflexivity|]. split; [reflexivity|].
  split; [symmetry; apply (siv_crypt_c_spec perm perm_len v Hv Hiv K T P HkT)|].
  intros N' A' Hkn' E. rewrite (siv_encrypt_c_spec perm perm_len v Hv Hiv K N' A' P Hkn'). cbn [fst].
  unfold siv_encrypt. rewrite E. reflexivity.
Qed.

End WithPerm.
