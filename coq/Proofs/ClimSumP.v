(* Proofs about the asconsum part of the command-line-tool model (Model/Clim.v): C19_sum. *)
From AsconV Require Import Model.Clim Proofs.ClimP.
From Coq Require Import ZArith Lia.
Local Open Scope nat_scope.

(* no call fails and no read is short (a short fread sets the stream's error flag) *)
Definition allok (o : oracle) : Prop :=
  (forall k, o_open o k = false) /\ (forall k, o_read o k = XOK) /\ (forall k, o_gets o k = false).

Definition OKtxt : bytes := [79;75;10]%N.
Definition FAILEDtxt : bytes := [70;65;73;76;69;68;10]%N.
Definition FAILEDopen : bytes := [70;65;73;76;69;68;32;111;112;101;110;32;111;114;32;114;101;97;100;10]%N.


(* ---- pure list / character lemmas -------------------------------------------- *)
Lemma skipn_app_len (A : Type) (a b : list A) : skipn (length a) (a ++ b) = b.
Proof. induction a as [|x a IH]; [reflexivity|]. cbn [length app skipn]. exact IH. Qed.

(* the chunks hash_loop feeds to the digest: full blocks, then a non-empty partial one *)
Fixpoint hblocks (fuel n : nat) (l : bytes) : list bytes :=
  match fuel with
  | O => []
  | S f =>
    if length (firstn n l) =? n then firstn n l :: hblocks f n (skipn n l)
    else if 0 <? length (firstn n l) then [firstn n l] else []
  end.

Lemma concat_hblocks fuel : forall n l, length l < fuel -> 0 < n -> concat (hblocks fuel n l) = l.
Proof.
  induction fuel as [|f IH]; intros n l Hf Hn; [lia|]. cbn [hblocks].
  destruct (length (firstn n l) =? n) eqn:E.
  - apply Nat.eqb_eq in E. cbn [concat]. rewrite IH; [apply firstn_skipn| |exact Hn].
    rewrite skipn_length. rewrite firstn_length in E. lia.
  - apply Nat.eqb_neq in E. rewrite firstn_length in E.
    assert (F : firstn n l = l) by (apply firstn_all2; lia). rewrite F.
    destruct (0 <? length l) eqn:Z.
    + cbn [concat]. apply app_nil_r.
    + apply Nat.ltb_ge in Z. destruct l; [reflexivity|cbn [length] in Z; lia].
Qed.

Lemma fgets_take_line n : forall pre rest, Forall (fun b => b <> 10%N) pre -> length pre < n ->
  fgets_take n (pre ++ 10%N :: rest) = pre ++ [10%N].
Proof.
  induction n as [|n IH]; intros pre rest HF HL; [lia|]. destruct pre as [|x pre]; cbn [app fgets_take].
  - reflexivity.
  - inversion HF; subst. destruct (N.eqb x 10) eqn:E; [apply N.eqb_eq in E; contradiction|].
    f_equal. apply IH; [assumption|cbn [length] in HL; lia].
Qed.

Lemma cstr_id l : Forall (fun b => b <> 0%N) l -> cstr l = l.
Proof.
  unfold cstr. induction l as [|x l IH]; intro HF; cbn [take_while]; [reflexivity|].
  inversion HF; subst. destruct (N.eqb x 0) eqn:E; [apply N.eqb_eq in E; contradiction|].
  cbn [negb]. f_equal. apply IH. assumption.
Qed.

Lemma strip_eol_line A x : is_eol x = false -> strip_eol (A ++ [x; 10%N]) = A ++ [x].
Proof.
  intro H. unfold strip_eol. rewrite rev_app_distr. cbn [rev app drop_while].
  change (is_eol 10) with true. cbv iota. rewrite H. cbn [rev]. rewrite rev_involutive. reflexivity.
Qed.

Lemma hexval_hexchar x : (x < 16)%N -> hexval (hexchar x) = Some x.
Proof.
  intro H.
  assert (E : (x = 0 \/ x = 1 \/ x = 2 \/ x = 3 \/ x = 4 \/ x = 5 \/ x = 6 \/ x = 7 \/ x = 8 \/ x = 9 \/
               x = 10 \/ x = 11 \/ x = 12 \/ x = 13 \/ x = 14 \/ x = 15)%N) by lia.
  repeat (destruct E as [->|E]; [reflexivity|]). subst x. reflexivity.
Qed.

Lemma hexchar_ge x : (48 <= hexchar x)%N.
Proof. unfold hexchar. destruct (x <? 10)%N; lia. Qed.

Lemma hex_of_ge d : Forall (fun b => 48 <= b)%N (hex_of d).
Proof.
  unfold hex_of. induction d as [|b d IH]; cbn [flat_map app]; [constructor|].
  constructor; [apply hexchar_ge|]. constructor; [apply hexchar_ge|]. exact IH.
Qed.

Lemma hex_of_length d : length (hex_of d) = 2 * length d.
Proof. unfold hex_of. induction d as [|b d IH]; cbn [flat_map app length]; [reflexivity|]. rewrite IH. lia. Qed.

Lemma parse_hex_hex d : forall rest acc, Forall (fun b => (b < 256)%N) d ->
  parse_hex (length d) (hex_of d ++ rest) acc = (acc ++ d, rest).
Proof.
  unfold hex_of. induction d as [|b d IH]; intros rest acc HF; cbn [flat_map app length parse_hex].
  - rewrite app_nil_r. reflexivity.
  - inversion HF; subst.
    rewrite !hexval_hexchar.
    + rewrite IH by assumption. rewrite <- app_assoc. cbn [app].
      assert (b / 16 * 16 + b mod 16 = b)%N as ->; [|reflexivity].
      pose proof (N.div_mod' b 16). lia.
    + apply N.mod_lt. discriminate.
    + apply N.div_lt_upper_bound; [discriminate|]. assumption.
Qed.

Lemma parse_hex_32 d rest : length d = 32 -> Forall (fun b => (b < 256)%N) d ->
  parse_hex 32 (hex_of d ++ rest) [] = (d, rest).
Proof. intros L HF. rewrite <- L. apply (parse_hex_hex d rest [] HF). Qed.

Lemma drop_spaces name : hd 0%N name <> 32%N -> drop_while (N.eqb 32) (32 :: 32 :: name)%N = name.
Proof.
  intro H. cbn [drop_while]. change (N.eqb 32 32) with true. cbv iota.
  destruct name as [|x name]; [reflexivity|]. cbn [hd] in H. cbn [drop_while].
  destruct (N.eqb 32 x) eqn:E; [apply N.eqb_eq in E; congruence|reflexivity].
Qed.

Section Sum.
Variable hst : Type.
Variable h_init : nat -> hst.
Variable h_upd : hst -> bytes -> hst.
Variable h_fin : hst -> bytes.
Variable digest : nat -> bytes -> bytes.     (* the one-shot digest the incremental interface is specified against *)

Record hash_ok : Prop := {
  h_run : forall alg chunks, h_fin (fold_left h_upd chunks (h_init alg)) = digest alg (concat chunks);
  digest_len : forall alg m, length (digest alg m) = 32;
  digest_bytes : forall alg m, Forall (fun b => (b < 256)%N) (digest alg m)
}.

Variable bufsiz : nat.
Variable cfg : config.
Variable o : oracle.
Hypothesis HO : hash_ok.
Hypothesis AO : allok o.
Hypothesis BS : 0 < bufsiz.

Notation hash_file' := (hash_file hst h_init h_upd h_fin bufsiz o).
Notation check_file' := (check_file hst h_init h_upd h_fin bufsiz cfg o).
Notation main_sum' := (main_sum hst h_init h_upd h_fin bufsiz cfg o).

Notation hash_loop' := (hash_loop hst h_upd bufsiz o).
Notation hash_named' := (hash_named hst h_init h_upd h_fin bufsiz o).
Notation check_loop' := (check_loop hst h_init h_upd h_fin bufsiz o).

(* ---- system calls under [allok] ---- *)
Lemma sys_open_r_some fs er ou c fl p cin : fs_get fs p = Some cin ->
  sys_open_r o (W fs er ou c fl) p = (W fs er ou (cbump COpen c) fl, Some (p, 0)).
Proof.
  intro H. unfold sys_open_r, bump. cbn [cget w_cnt w_fs w_err w_out w_flg].
  destruct AO as (A1 & _). rewrite A1, H. reflexivity.
Qed.

Lemma sys_open_r_none fs er ou c fl p : fs_get fs p = None ->
  sys_open_r o (W fs er ou c fl) p = (W fs er ou (cbump COpen c) fl, None).
Proof.
  intro H. unfold sys_open_r, bump. cbn [cget w_cnt w_fs w_err w_out w_flg].
  destruct AO as (A1 & _). rewrite A1, H. reflexivity.
Qed.

Lemma sys_fread_ok fs er ou c fl p off n :
  sys_fread o (W fs er ou c fl) (p, off) n =
  (W fs er ou (cbump CRead c) fl, firstn n (skipn off (cont fs p)), false).
Proof.
  unfold sys_fread, sys_read, bump. cbn [cget w_cnt w_fs w_err w_out w_flg fst snd]. rewrite content_W.
  destruct AO as (_ & A2 & _). rewrite A2. reflexivity.
Qed.

Lemma sys_fgets_some fs er ou c fl p off : skipn off (cont fs p) <> [] ->
  sys_fgets o (W fs er ou c fl) (p, off) =
  (W fs er ou (cbump CGets c) fl, Some (fgets_take (LINESIZ - 1) (skipn off (cont fs p)))).
Proof.
  intro H. unfold sys_fgets, bump. cbn [cget w_cnt w_fs w_err w_out w_flg fst snd]. rewrite content_W.
  destruct AO as (_ & _ & A3). rewrite A3.
  destruct (skipn off (cont fs p)) as [|x r]; [contradiction|reflexivity].
Qed.

Lemma sys_fgets_eof fs er ou c fl p off : skipn off (cont fs p) = [] ->
  sys_fgets o (W fs er ou c fl) (p, off) = (W fs er ou (cbump CGets c) fl, None).
Proof.
  intro H. unfold sys_fgets, bump. cbn [cget w_cnt w_fs w_err w_out w_flg fst snd]. rewrite content_W.
  destruct AO as (_ & _ & A3). rewrite A3, H. reflexivity.
Qed.

(* ---- hashing a file ---- *)
Lemma hash_loop_ok fuel : forall fs er ou c fl p off hs, length (skipn off (cont fs p)) < fuel ->
  exists c', hash_loop' fuel (W fs er ou c fl) (p, off) hs false =
    (W fs er ou c' fl, fold_left h_upd (hblocks fuel bufsiz (skipn off (cont fs p))) hs, false).
Proof.
  induction fuel as [|f IH]; intros fs er ou c fl p off hs Hf; [lia|].
  cbn [hash_loop hblocks]. rewrite sys_fread_ok. cbn [fst snd].
  set (rest := skipn off (cont fs p)) in *.
  destruct (length (firstn bufsiz rest) =? bufsiz) eqn:E.
  - cbn [orb fold_left].
    apply Nat.eqb_eq in E. rewrite firstn_length in E.
    destruct (IH fs er ou (cbump CRead c) fl p (off + bufsiz) (h_upd hs (firstn bufsiz rest))) as (c' & E2).
    { rewrite <- skipn_skipn'. fold rest. rewrite skipn_length. lia. }
    rewrite E2. exists c'. rewrite <- skipn_skipn'. reflexivity.
  - cbn [orb]. exists (cbump CRead c). destruct (0 <? length (firstn bufsiz rest)); reflexivity.
Qed.

Lemma hash_named_ok alg fs er ou c fl name cin : fs_get fs name = Some cin ->
  exists c', hash_named' alg (W fs er ou c fl) name = (W fs er ou c' fl, true, digest alg cin).
Proof.
  intro H. unfold hash_named, safe_open_r. rewrite content_W. rewrite (sys_open_r_some _ _ _ _ _ _ _ H).
  assert (C : cont fs name = cin) by (unfold cont; rewrite H; reflexivity).
  destruct (hash_loop_ok (S (length (cont fs name))) fs er ou (cbump COpen c) fl name 0 (h_init alg)) as (c' & E).
  { cbn [skipn]. lia. }
  rewrite E. exists c'. cbn [negb]. rewrite (h_run HO). rewrite concat_hblocks.
  - cbn [skipn]. rewrite C. reflexivity.
  - cbn [skipn]. lia.
  - exact BS.
Qed.

Lemma hash_named_missing alg fs er ou c fl name : fs_get fs name = None ->
  hash_named' alg (W fs er ou c fl) name = (W fs (er ++ [EPerror]) ou (cbump COpen c) fl, false, []).
Proof.
  intro H. unfold hash_named, safe_open_r. rewrite (sys_open_r_none _ _ _ _ _ _ H). reflexivity.
Qed.

(* what asconsum prints for a file *)
Definition sum_line (alg : nat) (name c : bytes) : bytes := hex_of (digest alg c) ++ [32;32]%N ++ name ++ [10%N].

Theorem hash_file_nf alg fs er ou c fl name cin : fs_get fs name = Some cin ->
  exists c', hash_file' alg (W fs er ou c fl) name = (W fs er (ou ++ sum_line alg name cin) c' fl, true).
Proof.
  intro H. unfold hash_file. destruct (hash_named_ok alg fs er ou c fl name cin H) as (c' & E).
  rewrite E. exists c'. reflexivity.
Qed.

Theorem hash_file_missing alg fs er ou c fl name : fs_get fs name = None ->
  exists c', hash_file' alg (W fs er ou c fl) name = (W fs (er ++ [EPerror]) ou c' fl, false).
Proof.
  intro H. unfold hash_file. rewrite (hash_named_missing alg fs er ou c fl name H).
  exists (cbump COpen c). reflexivity.
Qed.

(* hash mode over a list of existing files: one line per file, exit status 0 *)
Theorem main_sum_hash_nf alg files : forall fs er ou c fl,
  Forall (fun f => fs_get fs f <> None) files ->
  exists c', main_sum' alg false (W fs er ou c fl) files =
    (W fs er (ou ++ flat_map (fun f => sum_line alg f (cont fs f)) files) c' fl, 0).
Proof.
  unfold main_sum. induction files as [|f files IH]; intros fs er ou c fl HF; cbn [sum_files flat_map].
  - exists c. rewrite app_nil_r. reflexivity.
  - inversion HF as [|? ? Hf HF']; subst.
    destruct (fs_get fs f) as [cin|] eqn:G; [|congruence].
    destruct (hash_file_nf alg fs er ou c fl f cin G) as (c1 & E1). rewrite E1.
    destruct (IH fs er (ou ++ sum_line alg f cin) c1 fl HF') as (c2 & E2). rewrite E2.
    exists c2. unfold cont at 2. rewrite G. rewrite <- app_assoc. reflexivity.
Qed.

(* ---- check mode ---- *)
(* an entry of a checksum list: (file name, listed digest) *)
Definition good_name (name : bytes) : Prop :=
  name <> [] /\ hd 0%N name <> 32%N /\ Forall (fun b => b <> 0 /\ b <> 10 /\ b <> 13)%N name /\ length name <= 900.
Definition good_entry (e : bytes * bytes) : Prop :=
  good_name (fst e) /\ length (snd e) = 32 /\ Forall (fun b => (b < 256)%N) (snd e).
Definition entry_line (e : bytes * bytes) : bytes := hex_of (snd e) ++ [32;32]%N ++ fst e ++ [10%N].

(* 0: OK, 1: FAILED, 2: FAILED open or read *)
Definition verdict (alg : nat) (fs : fsys) (e : bytes * bytes) : nat :=
  match fs_get fs (fst e) with
  | None => 2
  | Some c => if beqb (snd e) (digest alg c) then 0 else 1
  end.
Definition verdict_text (v : nat) : bytes := match v with 0 => OKtxt | 1 => FAILEDtxt | _ => FAILEDopen end.
Definition report (alg : nat) (fs : fsys) (entries : list (bytes * bytes)) : bytes :=
  flat_map (fun e => fst e ++ [58;32]%N ++ verdict_text (verdict alg fs e)) entries.

(* ---- one line of a checksum list ---- *)
Lemma line_props name d R : good_name name -> length d = 32 -> Forall (fun b => (b < 256)%N) d ->
  entry_line (name, d) ++ R <> [] /\
  fgets_take (LINESIZ - 1) (entry_line (name, d) ++ R) = entry_line (name, d) /\
  strip_eol (cstr (entry_line (name, d))) = hex_of d ++ (32 :: 32 :: name)%N /\
  is_nil (hex_of d ++ (32 :: 32 :: name)%N) = false /\
  parse_hex 32 (hex_of d ++ (32 :: 32 :: name)%N) [] = (d, (32 :: 32 :: name)%N) /\
  drop_while (N.eqb 32) (32 :: 32 :: name)%N = name /\
  is_nil name = false /\
  0 < length (entry_line (name, d)).
Proof.
  intros (NE & HD & HF & HL) Ld Hb. unfold entry_line. cbn [fst snd].
  set (pre := hex_of d ++ (32 :: 32 :: name)%N).
  assert (EL : hex_of d ++ [32; 32]%N ++ name ++ [10%N] = pre ++ [10%N]).
  { unfold pre. rewrite <- app_assoc. reflexivity. }
  rewrite EL.
  assert (Fpre : Forall (fun b => b <> 0 /\ b <> 10)%N pre).
  { unfold pre. apply Forall_app. split.
    - eapply Forall_impl; [|apply hex_of_ge]. cbv beta. intros a Ha. lia.
    - constructor; [lia|]. constructor; [lia|]. eapply Forall_impl; [|exact HF]. cbv beta. intros a Ha. tauto. }
  assert (Lpre : length pre <= 966).
  { unfold pre. rewrite app_length, hex_of_length. cbn [length]. lia. }
  repeat split.
  - destruct pre; discriminate.
  - rewrite <- app_assoc. cbn [app]. apply fgets_take_line.
    + eapply Forall_impl; [|exact Fpre]. cbv beta. tauto.
    + unfold LINESIZ. lia.
  - rewrite cstr_id.
    + destruct (exists_last NE) as (name' & x & ->).
      unfold pre. rewrite !app_comm_cons, app_assoc, <- app_assoc. cbn [app].
      rewrite strip_eol_line; [reflexivity|].
      apply Forall_app in HF. destruct HF as (_ & Hx). inversion Hx as [|? ? Hx' _]; subst.
      unfold is_eol. destruct (N.eqb x 10) eqn:E1; [apply N.eqb_eq in E1; tauto|].
      destruct (N.eqb x 13) eqn:E2; [apply N.eqb_eq in E2; tauto|]. reflexivity.
    + apply Forall_app. split.
      * eapply Forall_impl; [|exact Fpre]. cbv beta. tauto.
      * constructor; [discriminate|constructor].
  - unfold pre. destruct (hex_of d); reflexivity.
  - unfold pre. apply parse_hex_32; assumption.
  - apply drop_spaces. exact HD.
  - destruct name; [congruence|reflexivity].
  - rewrite app_length. cbn [length]. lia.
Qed.

Definition vst (alg : nat) (fs : fsys) (st : ckst) (e : bytes * bytes) : ckst :=
  match verdict alg fs e with
  | 0 => {| ck_found := true; ck_fmt := ck_fmt st; ck_mis := ck_mis st; ck_rd := ck_rd st |}
  | 1 => {| ck_found := true; ck_fmt := ck_fmt st; ck_mis := S (ck_mis st); ck_rd := ck_rd st |}
  | _ => {| ck_found := true; ck_fmt := ck_fmt st; ck_mis := ck_mis st; ck_rd := S (ck_rd st) |}
  end.

Lemma check_step alg fs fl p e R f er ou c off st :
  good_entry e -> skipn off (cont fs p) = entry_line e ++ R ->
  exists er1 c1, check_loop' alg (S f) (W fs er ou c fl) (p, off) st =
    check_loop' alg f (W fs er1 (ou ++ fst e ++ [58; 32]%N ++ verdict_text (verdict alg fs e)) c1 fl)
      (p, off + length (entry_line e)) (vst alg fs st e).
Proof.
  destruct e as [name d]. intros (GN & Hlen & Hb) Hs. cbn [fst snd] in GN, Hlen, Hb.
  destruct (line_props name d R GN Hlen Hb) as (P0 & P1 & P2 & P3 & P4 & P5 & P6 & _).
  cbn [check_loop]. rewrite sys_fgets_some by (rewrite Hs; exact P0).
  rewrite Hs, P1. cbn [fst snd]. rewrite P2, P3, P4. cbv beta iota. rewrite Hlen.
  change (32 =? 32) with true. cbn [andb negb]. rewrite P5, P6.
  unfold verdict, vst, verdict. cbn [fst snd].
  destruct (fs_get fs name) as [cin|] eqn:G.
  - destruct (hash_named_ok alg fs er ou (cbump CGets c) fl name cin G) as (c2 & E2). rewrite E2.
    cbn [andb]. destruct (beqb d (digest alg cin)) eqn:B.
    + exists er, c2. unfold add_out. cbn [w_fs w_err w_out w_cnt w_flg verdict_text]. unfold OKtxt.
      rewrite <- !app_assoc. reflexivity.
    + exists er, c2. unfold add_out. cbn [w_fs w_err w_out w_cnt w_flg verdict_text]. unfold FAILEDtxt.
      rewrite <- !app_assoc. reflexivity.
  - rewrite (hash_named_missing alg fs er ou (cbump CGets c) fl name G). cbn [andb].
    exists (er ++ [EPerror]), (cbump COpen (cbump CGets c)). unfold add_out.
    cbn [w_fs w_err w_out w_cnt w_flg verdict_text]. unfold FAILEDopen.
    rewrite <- !app_assoc. reflexivity.
Qed.

Lemma check_loop_ok alg fs fl p entries : Forall good_entry entries ->
  forall fuel er ou c off st,
  skipn off (cont fs p) = flat_map entry_line entries -> length (skipn off (cont fs p)) < fuel ->
  exists er' c', check_loop' alg fuel (W fs er ou c fl) (p, off) st =
    (W fs er' (ou ++ report alg fs entries) c' fl, fold_left (vst alg fs) entries st).
Proof.
  induction 1 as [|e entries Ge _ IH]; intros fuel er ou c off st Hs Hf.
  - cbn [flat_map] in Hs. destruct fuel as [|f]; [lia|]. cbn [check_loop].
    rewrite (sys_fgets_eof _ _ _ _ _ _ _ Hs). exists er, (cbump CGets c).
    unfold report. cbn [flat_map fold_left]. rewrite app_nil_r. reflexivity.
  - cbn [flat_map] in Hs. destruct fuel as [|f]; [lia|].
    destruct (check_step alg fs fl p e (flat_map entry_line entries) f er ou c off st Ge Hs) as (er1 & c1 & E1).
    rewrite E1.
    assert (Hs' : skipn (off + length (entry_line e)) (cont fs p) = flat_map entry_line entries).
    { rewrite <- skipn_skipn', Hs. apply skipn_app_len. }
    assert (Lpos : 0 < length (entry_line e)).
    { destruct e as [name d]. destruct Ge as (GN & Hlen & Hb). cbn [fst snd] in GN, Hlen, Hb.
      apply (line_props name d [] GN Hlen Hb). }
    destruct (IH f er1 (ou ++ fst e ++ [58; 32]%N ++ verdict_text (verdict alg fs e)) c1
                 (off + length (entry_line e)) (vst alg fs st e) Hs') as (er' & c' & E2).
    { rewrite Hs'. rewrite Hs, app_length in Hf. lia. }
    rewrite E2. exists er', c'. unfold report. cbn [flat_map fold_left]. rewrite <- !app_assoc. reflexivity.
Qed.

Lemma fold_vst alg fs entries : forall st,
  ck_found (fold_left (vst alg fs) entries st) = ck_found st || negb (match entries with [] => true | _ => false end) /\
  ck_fmt (fold_left (vst alg fs) entries st) = ck_fmt st /\
  (ck_mis (fold_left (vst alg fs) entries st) =? 0) && (ck_rd (fold_left (vst alg fs) entries st) =? 0) =
  (ck_mis st =? 0) && (ck_rd st =? 0) && forallb (fun e => verdict alg fs e =? 0) entries.
Proof.
  induction entries as [|e entries IH]; intro st; cbn [fold_left forallb].
  - cbn [negb]. rewrite orb_false_r, andb_true_r. auto.
  - destruct (IH (vst alg fs st e)) as (I1 & I2 & I3). rewrite I1, I2, I3. cbn [negb]. unfold vst.
    destruct (verdict alg fs e) as [|[|v]]; cbn [ck_found ck_fmt ck_mis ck_rd Nat.eqb orb andb].
    + rewrite orb_true_r. auto.
    + rewrite orb_true_r. repeat split. rewrite andb_false_r. reflexivity.
    + rewrite orb_true_r. repeat split. rewrite !andb_false_r. reflexivity.
Qed.

(* check mode on a well-formed list prints "name: OK / FAILED / FAILED open or read" per
   entry and succeeds iff there is at least one entry and every verdict is XOK *)
Theorem check_file_nf alg fs er ou c fl listf entries :
  Forall good_entry entries -> fs_get fs listf = Some (flat_map entry_line entries) ->
  exists er' c', check_file' alg (W fs er ou c fl) listf =
    (W fs er' (ou ++ report alg fs entries) c' fl,
     negb (match entries with [] => true | _ => false end) && forallb (fun e => verdict alg fs e =? 0) entries).
Proof.
  intros GE HL. unfold check_file, safe_open_r. rewrite content_W. rewrite (sys_open_r_some _ _ _ _ _ _ _ HL).
  assert (C : cont fs listf = flat_map entry_line entries) by (unfold cont; rewrite HL; reflexivity).
  destruct (check_loop_ok alg fs fl listf entries GE (S (length (cont fs listf))) er ou (cbump COpen c) 0
              {| ck_found := false; ck_fmt := 0; ck_mis := 0; ck_rd := 0 |}) as (er1 & c1 & E).
  { cbn [skipn]. exact C. }
  { cbn [skipn]. lia. }
  rewrite E. cbv beta iota zeta.
  assert (LE : forall k, c_sumchk cfg && o_gets o k = false).
  { intro k. destruct AO as (_ & _ & AG). rewrite AG. apply andb_false_r. }
  rewrite !LE. cbn [negb andb].
  destruct (fold_vst alg fs entries {| ck_found := false; ck_fmt := 0; ck_mis := 0; ck_rd := 0 |}) as (F1 & F2 & F3).
  cbn [ck_found ck_fmt ck_mis ck_rd orb Nat.eqb andb] in F1, F2, F3.
  set (st' := fold_left (vst alg fs) entries {| ck_found := false; ck_fmt := 0; ck_mis := 0; ck_rd := 0 |}) in *.
  assert (HB : ck_found st' && (ck_fmt st' =? 0) && (ck_mis st' =? 0) && (ck_rd st' =? 0) =
               negb (match entries with [] => true | _ => false end) && forallb (fun e => verdict alg fs e =? 0) entries).
  { rewrite <- andb_assoc, F3, F1, F2. cbn [Nat.eqb]. rewrite andb_true_r. reflexivity. }
  rewrite HB.
  destruct (ck_found st'), (0 <? ck_fmt st'), (0 <? ck_mis st'), (0 <? ck_rd st'); eexists; eexists; reflexivity.
Qed.

(* a list written by hash mode checks OK for exactly the files whose digest is unchanged *)
Corollary check_of_hash alg fs fs' er ou c fl listf names :
  names <> [] -> Forall good_name names -> Forall (fun f => fs_get fs f <> None) names ->
  fs_get fs' listf = Some (flat_map (fun f => sum_line alg f (cont fs f)) names) ->
  exists er' c' out', check_file' alg (W fs' er ou c fl) listf = (W fs' er' out' c' fl,
     forallb (fun f => match fs_get fs' f with Some c' => beqb (digest alg (cont fs f)) (digest alg c') | None => false end) names).
Proof.
  intros NE GN _ HL.
  set (entries := map (fun f : bytes => (f, digest alg (cont fs f))) names : list (bytes * bytes)).
  assert (GE : Forall good_entry entries).
  { unfold entries. apply Forall_forall. intros e He. apply in_map_iff in He. destruct He as (f & <- & Hf).
    rewrite Forall_forall in GN. split; [exact (GN f Hf)|]. cbn [snd]. split; [apply (digest_len HO)|apply (digest_bytes HO)]. }
  assert (EL : flat_map (fun f => sum_line alg f (cont fs f)) names = flat_map entry_line entries).
  { unfold entries. clear. induction names as [|f names IH]; cbn [map flat_map]; [reflexivity|]. rewrite IH. reflexivity. }
  rewrite EL in HL.
  destruct (check_file_nf alg fs' er ou c fl listf entries GE HL) as (er' & c' & E).
  exists er', c', (ou ++ report alg fs' entries). rewrite E. f_equal.
  assert (match entries with [] => true | _ => false end = false) as ->.
  { unfold entries. destruct names; [congruence|reflexivity]. }
  cbn [negb andb]. unfold entries. clear. induction names as [|f names IH]; cbn [map forallb]; [reflexivity|].
  rewrite IH. f_equal. unfold verdict. cbn [fst snd]. destruct (fs_get fs' f) as [c0|]; [|reflexivity].
  destruct (beqb (digest alg (cont fs f)) (digest alg c0)); reflexivity.
Qed.

End Sum.

(* ==== a toy digest satisfying hash_ok, and concrete runs ==================================== *)
Definition toyh_st := (nat * bytes)%type.
Definition toyh_init (alg : nat) : toyh_st := (alg, []).
Definition toyh_upd (s : toyh_st) (d : bytes) : toyh_st := (fst s, snd s ++ d).
Definition toyh_digest (alg : nat) (m : bytes) : bytes :=
  map (fun i => N.modulo (fold_left N.add m 0%N + N.of_nat (length m) * 31 + N.of_nat alg * 17 + N.of_nat i * 29) 256) (seq 0 32).
Definition toyh_fin (s : toyh_st) : bytes := toyh_digest (fst s) (snd s).

Lemma toyh_fold chunks : forall alg acc, fold_left toyh_upd chunks (alg, acc) = (alg, acc ++ concat chunks).
Proof.
  induction chunks as [|d r IH]; intros alg acc; cbn [fold_left concat]; [rewrite app_nil_r; reflexivity|].
  unfold toyh_upd at 2. cbn [fst snd]. rewrite IH, <- app_assoc. reflexivity.
Qed.

Lemma toyh_ok : hash_ok toyh_st toyh_init toyh_upd toyh_fin toyh_digest.
Proof.
  constructor.
  - intros alg chunks. unfold toyh_init. rewrite toyh_fold. reflexivity.
  - intros alg m. unfold toyh_digest. rewrite map_length, seq_length. reflexivity.
  - intros alg m. unfold toyh_digest. apply Forall_forall. intros b Hb. apply in_map_iff in Hb.
    destruct Hb as (i & <- & _). apply N.mod_lt. discriminate.
Qed.

Definition sx_a : path := [97;46;116;120;116]%N.                 (* "a.txt" *)
Definition sx_b : path := [98;32;98;46;100;97;116]%N.            (* "b b.dat" *)
Definition sx_list : path := [115;117;109;115]%N.                (* "sums" *)
Definition sx_ca : bytes := map (fun i => N.of_nat ((5 * i + 1) mod 256)) (seq 0 53).
Definition sx_cb : bytes := [1;2;3]%N.
Definition sx_fs0 : fsys := [(sx_a, sx_ca); (sx_b, sx_cb)].
Definition sx_main (cfg : config) (o : oracle) (alg : nat) (check : bool) (fs : fsys) (files : list path) : world * nat :=
  main_sum toyh_st toyh_init toyh_upd toyh_fin 24 cfg o alg check (world0 fs) files.
(* the list that hash mode prints for a.txt and "b b.dat" *)
Definition sx_listing (alg : nat) : bytes := w_out (fst (sx_main shipped ok_oracle alg false sx_fs0 [sx_a; sx_b])).
Definition gfail_oracle (k : nat) : oracle :=
  {| o_open := fun _ => false; o_read := fun _ => XOK; o_write := fun _ => XOK; o_rand := toy_rand; o_gets := fun i => i =? k |}.

Lemma sum_nonvacuous_runs :
  hash_ok toyh_st toyh_init toyh_upd toyh_fin toyh_digest /\ allok ok_oracle /\
  sx_listing 2 = sum_line toyh_digest 2 sx_a sx_ca ++ sum_line toyh_digest 2 sx_b sx_cb /\
  (* unmodified: OK, OK, status 0 *)
  (let r := sx_main shipped ok_oracle 2 true ((sx_list, sx_listing 2) :: sx_fs0) [sx_list] in
   snd r = 0 /\ w_out (fst r) = sx_a ++ [58;32]%N ++ OKtxt ++ sx_b ++ [58;32]%N ++ OKtxt /\ w_err (fst r) = []) /\
  (* "b b.dat" modified: FAILED, status 1 *)
  (let r := sx_main shipped ok_oracle 2 true [(sx_list, sx_listing 2); (sx_a, sx_ca); (sx_b, [1;2;4]%N)] [sx_list] in
   snd r = 1 /\ w_out (fst r) = sx_a ++ [58;32]%N ++ OKtxt ++ sx_b ++ [58;32]%N ++ FAILEDtxt /\ w_err (fst r) = [EWarnMismatch 1]) /\
  (* a.txt missing; a list made with another algorithm *)
  (let r := sx_main shipped ok_oracle 2 true [(sx_list, sx_listing 2); (sx_b, sx_cb)] [sx_list] in
   snd r = 1 /\ w_err (fst r) = [EPerror; EWarnRead 1]) /\
  (let r := sx_main shipped ok_oracle 3 true ((sx_list, sx_listing 2) :: sx_fs0) [sx_list] in
   snd r = 1 /\ w_err (fst r) = [EWarnMismatch 2]) /\
  (* malformed line, empty list *)
  (let r := sx_main shipped ok_oracle 2 true ((sx_list, skipn 1 (sx_listing 2)) :: sx_fs0) [sx_list] in
   snd r = 1 /\ w_err (fst r) = [EWarnFormat 1]) /\
  (let r := sx_main shipped ok_oracle 2 true ((sx_list, []) :: sx_fs0) [sx_list] in
   snd r = 1 /\ w_err (fst r) = [ENoLines]).
Proof.
  split; [exact toyh_ok|]. split; [repeat split; intro k; reflexivity|].
  vm_compute. repeat split; reflexivity.
Qed.

(* In the pinned tree a read error on the checksum list ends the fgets loop like an end of
   file: the second fgets fails, the modified "b b.dat" is never looked at, status 0.
   The fixed tree (ferror test after the loop) reports it. *)
Lemma list_read_error_refuted :
  exists (o : oracle) (fs : fsys) (w1 : world),
    o_gets o 1 = true /\
    sx_main shipped o 2 true fs [sx_list] = (w1, 0) /\ 1 < cget CGets (w_cnt w1) /\ fget CGets (w_flg w1) = true /\
    snd (sx_main shipped ok_oracle 2 true fs [sx_list]) = 1 /\
    snd (sx_main fixed o 2 true fs [sx_list]) = 1.
Proof.
  exists (gfail_oracle 1), [(sx_list, sx_listing 2); (sx_a, sx_ca); (sx_b, [1;2;4]%N)].
  exists (fst (sx_main shipped (gfail_oracle 1) 2 true [(sx_list, sx_listing 2); (sx_a, sx_ca); (sx_b, [1;2;4]%N)] [sx_list])).
  split; [reflexivity|]. vm_compute. repeat split; try reflexivity; try lia.
Qed.
