(* Proofs/SkelP.v - soundness of the acquire/release analysis of Model/Skel.v:

   post_sound       the analysis over-approximates every trace of a skeleton
   balanced_sound   check_public = true  ->  every listed public function is api_balanced
   contracts_sound  check_contracts = true -> the listed behaviours hold
   calls_safe       any sequence of balanced public calls never aborts (induction over the call list)
   client_safe      any client control flow around balanced calls never aborts
   replay_run       a replayed path is a trace; bad_path refutes api_balanced *)
From Coq Require Import String List Bool.
Import ListNotations.
From AsconV Require Import Model.Skel.

(* ------------------------------------------------------------------ *)
(* small facts *)

Lemma exec_app : forall t1 t2 q,
  exec q (t1 ++ t2) = match exec q t1 with Some q1 => exec q1 t2 | None => None end.
Proof.
  intro t1. induction t1 as [|e t1 IH]; intros t2 q; cbn [app exec].
  - reflexivity.
  - destruct (step q e) as [q'|]; [apply IH | reflexivity].
Qed.

Lemma fs_mem_union : forall q x y, fs_mem q (fs_union x y) = fs_mem q x || fs_mem q y.
Proof. intros [] [a b] [c d]; reflexivity. Qed.

Lemma fs_sub_mem : forall x y q, fs_sub x y = true -> fs_mem q x = true -> fs_mem q y = true.
Proof. intros [[] []] [[] []] []; cbn; intros; congruence. Qed.

Lemma fs_mem_one : forall q q', fs_mem q' (fs_one q) = true -> q' = q.
Proof. intros [] []; cbn; intros; congruence. Qed.

Lemma fs_mem_one_self : forall q, fs_mem q (fs_one q) = true.
Proof. intros []; reflexivity. Qed.

Lemma fs_mem_full : forall q, fs_mem q fs_full = true.
Proof. intros []; reflexivity. Qed.

Lemma fs_eqb_eq : forall x y, fs_eqb x y = true -> x = y.
Proof. intros [[] []] [[] []]; cbn; intros; congruence. Qed.

Lemma fs_eqb_refl : forall x, fs_eqb x x = true.
Proof. intros [[] []]; reflexivity. Qed.

Lemma rep_fix_idem : forall i h n c,
  fs_union (fs_union i h) (fs_union n c) = h -> fs_union (fs_union h h) (fs_union n c) = h.
Proof.
  intros [[] []] [[] []] [[] []] [[] []]; cbn; intro H; try reflexivity; try discriminate H.
Qed.

Lemma rep_fix_i : forall i h n c q,
  fs_union (fs_union i h) (fs_union n c) = h -> fs_mem q i = true -> fs_mem q h = true.
Proof.
  intros i h n c q H Hq. rewrite <- H. rewrite !fs_mem_union. rewrite Hq. reflexivity.
Qed.

Lemma rep_fix_n : forall i h n c q,
  fs_union (fs_union i h) (fs_union n c) = h -> fs_mem q n = true \/ fs_mem q c = true -> fs_mem q h = true.
Proof.
  intros i h n c q H Hq. rewrite <- H. rewrite !fs_mem_union.
  destruct Hq as [Hq|Hq]; rewrite Hq; rewrite ?orb_true_r; reflexivity.
Qed.

Lemma lookup_in : forall A (T : list (string * A)) f b, lookup T f = Some b -> In (f, b) T.
Proof.
  intros A T. induction T as [|[g c] T IH]; intros f b H; cbn [lookup] in H.
  - discriminate H.
  - destruct (String.eqb f g) eqn:E.
    + apply String.eqb_eq in E. subst g. injection H as H. subst c. left. reflexivity.
    + right. apply IH. exact H.
Qed.

(* ------------------------------------------------------------------ *)
(* the analysis describes every trace *)

Definition fits (r : res) (o : out) (x : option flag) : Prop :=
  match x with
  | None => p_ab r = true
  | Some q' =>
      match o with
      | ONorm => fs_mem q' (p_norm r) = true
      | ORet => fs_mem q' (p_ret r) = true
      | OBrk => fs_mem q' (p_brk r) = true
      | OCnt => fs_mem q' (p_cnt r) = true
      | OStop => True
      end
  end.

Lemma fits_top : forall o x, fits res_top o x.
Proof. intros o [q|]; cbn; [destruct o; try exact I; apply fs_mem_full | reflexivity]. Qed.

Lemma fits_ev : forall e q i, fs_mem q i = true -> fits (ev_res e i) ONorm (exec q [e]).
Proof.
  intros e q [ic ih] Hq.
  destruct e, q, ic, ih; cbn in Hq; try discriminate Hq; cbn; reflexivity.
Qed.

Lemma inductive_lookup : forall T S f b, inductive_ok T S = true -> lookup T f = Some b ->
  exists s, lookup S f = Some s /\ sum_sub (body_sum S b) s = true.
Proof.
  intros T S f b Hind Hl. unfold inductive_ok in Hind. rewrite forallb_forall in Hind.
  specialize (Hind (f, b) (lookup_in _ T f b Hl)). cbn [fst snd] in Hind.
  destruct (lookup S f) as [s|]; [exists s; split; [reflexivity | exact Hind] | discriminate Hind].
Qed.

(* result of a call from the summary of the callee *)
Lemma call_res_mem : forall S f s q i q',
  lookup S f = Some s -> fs_mem q i = true -> fs_mem q' (exits (sum_at s q)) = true ->
  fs_mem q' (p_norm (call_res S f i)) = true.
Proof.
  intros S f s q [ic ih] q' Hl Hq Hm. unfold call_res. rewrite Hl.
  destruct q; cbn in Hq; subst; cbn [fs_mem has_clear has_held res_union p_norm sum_at] in *;
    rewrite fs_mem_union; cbn [p_norm]; rewrite Hm; rewrite ?orb_true_r; reflexivity.
Qed.

Lemma call_res_ab : forall S f s q i,
  lookup S f = Some s -> fs_mem q i = true -> aborts (sum_at s q) = true -> p_ab (call_res S f i) = true.
Proof.
  intros S f s q [ic ih] Hl Hq Hm. unfold call_res. rewrite Hl.
  destruct q; cbn in Hq; subst; cbn [fs_mem has_clear has_held res_union p_ab sum_at] in *;
    rewrite Hm; rewrite ?orb_true_r; reflexivity.
Qed.

Lemma sum_sub_at : forall x y q, sum_sub x y = true -> beh_sub (sum_at x q) (sum_at y q) = true.
Proof.
  intros x y q H. unfold sum_sub in H. apply andb_true_iff in H. destruct H as [H1 H2].
  destruct q; assumption.
Qed.

Lemma post_rep : forall S b i,
  post S (SRep b) i =
  let h := rep_head (post S b) i in
  if fs_eqb (rep_next (post S b) i h) h
  then let r := post S b h in mkres (p_brk r) (p_ret r) fs_empty fs_empty (p_ab r)
  else res_top.
Proof. reflexivity. Qed.

(* when the head set h of i is a fixpoint, starting again from h gives the same result *)
Lemma post_rep_head : forall S b i,
  let h := rep_head (post S b) i in
  fs_eqb (rep_next (post S b) i h) h = true ->
  post S (SRep b) h = post S (SRep b) i.
Proof.
  intros S b i h Hfix. apply fs_eqb_eq in Hfix.
  assert (Hhh : rep_next (post S b) h h = h).
  { unfold rep_next in *. cbv zeta in *. apply (rep_fix_idem i). exact Hfix. }
  rewrite !post_rep. cbv zeta.
  assert (Hhead : rep_head (post S b) h = h).
  { unfold rep_head. rewrite Hhh. rewrite Hhh. exact Hhh. }
  rewrite Hhead. rewrite Hhh. rewrite fs_eqb_refl.
  fold h. rewrite Hfix. rewrite fs_eqb_refl. reflexivity.
Qed.

Theorem post_sound : forall T S, inductive_ok T S = true ->
  forall s t o, run T s t o -> forall q i, fs_mem q i = true -> fits (post S s i) o (exec q t).
Proof.
  intros T S Hind s t o Hrun.
  induction Hrun as
    [ s | | e | f b t o Hl Hb IHb | a b t o Ha IHa Hne | a b t1 t2 o Ha IHa Hb IHb
    | a b t o Ha IHa | a b t o Hb IHb | b t o Hb IHb Hc | b t1 t2 o1 o Hb IHb Hc Hr IHr
    | b t o Hb IHb | b t o Hb IHb | | | ]; intros q i Hq.
  - (* stop *) exact I.
  - (* skip *) exact Hq.
  - (* event *) apply fits_ev. exact Hq.
  - (* call *)
    destruct (inductive_lookup T S f b Hind Hl) as [s [HlS Hsub]].
    specialize (IHb q (fs_one q) (fs_mem_one_self q)).
    pose proof (sum_sub_at _ _ q Hsub) as Hq'. unfold beh_sub in Hq'. apply andb_true_iff in Hq'. destruct Hq' as [Hex Hab].
    change (post S (SCall f) i) with (call_res S f i).
    destruct (exec q t) as [q'|] eqn:E; cbn [fits] in *.
    + destruct o; try exact I;
        (apply (call_res_mem S f s q i q' HlS Hq); apply (fs_sub_mem _ _ _ Hex);
         destruct q; cbn [body_sum sum_at on_clear on_held body_beh exits]; rewrite !fs_mem_union; rewrite IHb; rewrite ?orb_true_r; reflexivity).
    + apply (call_res_ab S f s q i HlS Hq).
      destruct q; cbn [body_sum sum_at on_clear on_held body_beh aborts] in Hab; rewrite IHb in Hab; cbn in Hab; exact Hab.
  - (* seq, first part does not end normally *)
    specialize (IHa q i Hq). cbn [post].
    destruct (exec q t) as [q'|]; cbn [fits] in *.
    + destruct o; cbn [p_norm p_ret p_brk p_cnt]; try exact I; try (exfalso; apply Hne; reflexivity);
        rewrite fs_mem_union; rewrite IHa; reflexivity.
    + cbn [p_ab]. rewrite IHa. reflexivity.
  - (* seq *)
    specialize (IHa q i Hq). cbn [post]. rewrite exec_app.
    destruct (exec q t1) as [q1|]; cbn [fits] in IHa.
    + specialize (IHb q1 _ IHa).
      destruct (exec q1 t2) as [q2|]; cbn [fits] in *.
      * destruct o; cbn [p_norm p_ret p_brk p_cnt]; try exact I; try exact IHb;
          rewrite fs_mem_union; rewrite IHb; rewrite ?orb_true_r; reflexivity.
      * cbn [p_ab]. rewrite IHb. rewrite orb_true_r. reflexivity.
    + cbn [fits p_ab]. rewrite IHa. reflexivity.
  - (* alt left *)
    specialize (IHa q i Hq). cbn [post].
    destruct (exec q t) as [q'|]; cbn [fits] in *.
    + destruct o; cbn [res_union p_norm p_ret p_brk p_cnt]; try exact I; rewrite fs_mem_union; rewrite IHa; reflexivity.
    + cbn [res_union p_ab]. rewrite IHa. reflexivity.
  - (* alt right *)
    specialize (IHb q i Hq). cbn [post].
    destruct (exec q t) as [q'|]; cbn [fits] in *.
    + destruct o; cbn [res_union p_norm p_ret p_brk p_cnt]; try exact I; rewrite fs_mem_union; rewrite IHb; rewrite orb_true_r; reflexivity.
    + cbn [res_union p_ab]. rewrite IHb. rewrite orb_true_r. reflexivity.
  - (* repetition left by break / return / stop *)
    rewrite post_rep. cbv zeta.
    destruct (fs_eqb (rep_next (post S b) i (rep_head (post S b) i)) (rep_head (post S b) i)) eqn:Hfix; [|apply fits_top].
    pose proof Hfix as Hfix'. apply fs_eqb_eq in Hfix'. unfold rep_next in Hfix'. cbv zeta in Hfix'.
    specialize (IHb q (rep_head (post S b) i) (rep_fix_i _ _ _ _ q Hfix' Hq)).
    destruct (exec q t) as [q'|]; cbn [fits] in *.
    + destruct o; cbn [p_norm p_ret p_brk p_cnt]; try exact I; try discriminate Hc; exact IHb.
    + exact IHb.
  - (* repetition, one more round *)
    pose proof (post_rep_head S b i) as Hsame. cbv zeta in Hsame.
    rewrite post_rep. cbv zeta.
    destruct (fs_eqb (rep_next (post S b) i (rep_head (post S b) i)) (rep_head (post S b) i)) eqn:Hfix; [|apply fits_top].
    specialize (Hsame eq_refl).
    pose proof Hfix as Hfix'. apply fs_eqb_eq in Hfix'. unfold rep_next in Hfix'. cbv zeta in Hfix'.
    specialize (IHb q (rep_head (post S b) i) (rep_fix_i _ _ _ _ q Hfix' Hq)).
    rewrite exec_app.
    destruct (exec q t1) as [q1|]; cbn [fits] in IHb.
    + assert (Hq1 : fs_mem q1 (rep_head (post S b) i) = true).
      { apply (rep_fix_n _ _ _ _ q1 Hfix'). destruct o1; try discriminate Hc; [left | right]; exact IHb. }
      specialize (IHr q1 _ Hq1). rewrite Hsame in IHr. rewrite post_rep in IHr. cbv zeta in IHr.
      rewrite Hfix in IHr. exact IHr.
    + cbn [fits p_ab]. exact IHb.
  - (* catch break *)
    specialize (IHb q i Hq). cbn [post].
    destruct (exec q t) as [q'|]; cbn [fits] in *.
    + destruct o; cbn [p_norm p_ret p_brk p_cnt]; try exact I; try exact IHb;
        rewrite fs_mem_union; rewrite IHb; rewrite ?orb_true_r; reflexivity.
    + exact IHb.
  - (* catch continue *)
    specialize (IHb q i Hq). cbn [post].
    destruct (exec q t) as [q'|]; cbn [fits] in *.
    + destruct o; cbn [p_norm p_ret p_brk p_cnt]; try exact I; try exact IHb;
        rewrite fs_mem_union; rewrite IHb; rewrite ?orb_true_r; reflexivity.
    + exact IHb.
  - exact Hq.
  - exact Hq.
  - exact Hq.
Qed.

(* ------------------------------------------------------------------ *)
(* functions *)

Lemma body_sound : forall T S, inductive_ok T S = true ->
  forall f b s, lookup T f = Some b -> lookup S f = Some s ->
  forall q t o, run T b t o ->
  match exec q t with
  | None => aborts (sum_at s q) = true
  | Some q' => o <> OStop -> fs_mem q' (exits (sum_at s q)) = true
  end.
Proof.
  intros T S Hind f b s Hl HlS q t o Hrun.
  destruct (inductive_lookup T S f b Hind Hl) as [s' [HlS' Hsub]].
  rewrite HlS in HlS'. injection HlS' as HlS'. subst s'.
  pose proof (post_sound T S Hind b t o Hrun q (fs_one q) (fs_mem_one_self q)) as Hf.
  pose proof (sum_sub_at _ _ q Hsub) as Hq'. unfold beh_sub in Hq'. apply andb_true_iff in Hq'. destruct Hq' as [Hex Hab].
  destruct (exec q t) as [q'|]; cbn [fits] in Hf.
  - intro Hne. apply (fs_sub_mem _ _ _ Hex).
    destruct q; cbn [body_sum sum_at on_clear on_held body_beh exits]; rewrite !fs_mem_union;
      (destruct o; [ | | | | exfalso; apply Hne; reflexivity ]; rewrite Hf; rewrite ?orb_true_r; reflexivity).
  - destruct q; cbn [body_sum sum_at on_clear on_held body_beh aborts] in Hab; rewrite Hf in Hab; cbn in Hab; exact Hab.
Qed.

Lemma beh_eqb_eq : forall x y, beh_eqb x y = true -> x = y.
Proof.
  intros [ex ax] [ey ay] H. unfold beh_eqb in H. cbn in H. apply andb_true_iff in H. destruct H as [H1 H2].
  apply fs_eqb_eq in H1. apply Bool.eqb_prop in H2. subst. reflexivity.
Qed.

Theorem balanced_sound_with : forall T S pub exc, check_with T S pub exc = true ->
  forall f, In f pub -> mem_str f exc = false -> api_balanced T f.
Proof.
  intros T S pub exc Hc f Hin Hexc. unfold check_with in Hc.
  apply andb_true_iff in Hc. destruct Hc as [Hc Hall]. apply andb_true_iff in Hc. destruct Hc as [_ Hind].
  rewrite forallb_forall in Hall. specialize (Hall f Hin). rewrite Hexc in Hall. cbn [orb] in Hall.
  apply andb_true_iff in Hall. destruct Hall as [Hdef Hbal].
  unfold defined_in in Hdef. destruct (lookup T f) as [b|] eqn:Hl; [|discriminate Hdef].
  unfold balanced_in in Hbal. destruct (lookup S f) as [s|] eqn:HlS; [|discriminate Hbal].
  apply beh_eqb_eq in Hbal.
  exists b. split; [exact Hl|]. intros t o Hrun.
  pose proof (body_sound T S Hind f b s Hl HlS Clear t o Hrun) as H. cbn [sum_at] in H. rewrite Hbal in H.
  destruct (exec Clear t) as [q'|].
  - exists q'. split; [reflexivity|]. intro Hne. specialize (H Hne). destruct q'; [reflexivity | discriminate H].
  - discriminate H.
Qed.

Theorem balanced_sound : forall T pub exc, check_public T pub exc = true ->
  forall f, In f pub -> mem_str f exc = false -> api_balanced T f.
Proof. intros T pub exc. apply balanced_sound_with. Qed.

Theorem contracts_sound_with : forall T S cs, inductive_ok T S = true -> contracts_part T S cs = true ->
  forall f s, In (f, s) cs -> lookup T f <> None -> has_summary T f s.
Proof.
  intros T S cs Hind Hall f s Hin Hdef. unfold contracts_part in Hall.
  rewrite forallb_forall in Hall. specialize (Hall (f, s) Hin). cbn [fst snd] in Hall.
  destruct (lookup S f) as [s'|] eqn:HlS; destruct (lookup T f) as [b|] eqn:Hl;
    try discriminate Hall; try (exfalso; apply Hdef; reflexivity).
  assert (H : forall q, has_beh T f q (sum_at s q)).
  { intro q. exists b. split; [exact Hl|]. intros Hna t o Hrun.
    pose proof (body_sound T _ Hind f b s' Hl HlS q t o Hrun) as H.
    pose proof (sum_sub_at _ _ q Hall) as Hq'. unfold beh_sub in Hq'. apply andb_true_iff in Hq'. destruct Hq' as [Hex Hab].
    destruct (exec q t) as [q'|].
    - exists q'. split; [reflexivity|]. intro Hne. apply (fs_sub_mem _ _ _ Hex). apply H. exact Hne.
    - rewrite H in Hab. rewrite Hna in Hab. discriminate Hab. }
  split; [apply (H Clear) | apply (H Held)].
Qed.

Theorem contracts_sound : forall T cs, check_contracts T cs = true ->
  forall f s, In (f, s) cs -> lookup T f <> None -> has_summary T f s.
Proof.
  intros T cs Hc. unfold check_contracts in Hc. apply andb_true_iff in Hc. destruct Hc as [Hind Hall].
  apply (contracts_sound_with T _ cs Hind Hall).
Qed.

Lemma check_with_inductive : forall T S pub exc, check_with T S pub exc = true -> inductive_ok T S = true.
Proof.
  intros T S pub exc Hc. unfold check_with in Hc.
  apply andb_true_iff in Hc. destruct Hc as [Hc _]. apply andb_true_iff in Hc. destruct Hc as [_ Hind]. exact Hind.
Qed.

(* ------------------------------------------------------------------ *)
(* lifting: sequences of public calls, any client control flow *)

(* the calls of the list one after the other; the flag [false] says that
   execution is still inside the last call performed *)
Inductive run_calls (T : table) : list string -> list ev -> bool -> Prop :=
| rc_nil  : run_calls T [] [] true
| rc_rest : forall f fs, run_calls T (f :: fs) [] false                (* not started yet *)
| rc_in   : forall f fs b t, lookup T f = Some b -> run T b t OStop -> run_calls T (f :: fs) t false
| rc_cons : forall f fs b t o t2 c, lookup T f = Some b -> run T b t o -> o <> OStop ->
            run_calls T fs t2 c -> run_calls T (f :: fs) (t ++ t2) c.

(* The checker has one global flag, so the objects the calls operate on play no
   role: whatever objects, however many, each balanced call starts and ends
   with the flag clear. *)
Theorem calls_safe : forall T fs, (forall f, In f fs -> api_balanced T f) ->
  forall t c, run_calls T fs t c -> exists q, exec Clear t = Some q /\ (c = true -> q = Clear).
Proof.
  intros T fs. induction fs as [|f fs IH]; intros Hbal t c Hrun.
  - inversion Hrun; subst. exists Clear. split; [reflexivity | intros _; reflexivity].
  - inversion Hrun as [ | f' fs' | f' fs' b t' Hl Hb | f' fs' b t1 o t2 c' Hl Hb Hne Hrest ]; subst.
    + exists Clear. split; [reflexivity | intro H; discriminate H].
    + destruct (Hbal f (or_introl eq_refl)) as [b' [Hl' Hb']]. rewrite Hl in Hl'. injection Hl' as Hl'. subst b'.
      destruct (Hb' t OStop Hb) as [q [Hq _]]. exists q. split; [exact Hq | intro H; discriminate H].
    + destruct (Hbal f (or_introl eq_refl)) as [b' [Hl' Hb']]. rewrite Hl in Hl'. injection Hl' as Hl'. subst b'.
      destruct (Hb' t1 o Hb) as [q [Hq Hq']]. specialize (Hq' Hne). subst q.
      destruct (IH (fun g Hg => Hbal g (or_intror Hg)) t2 c Hrest) as [q2 [Hq2 Hc2]].
      exists q2. split; [rewrite exec_app; rewrite Hq; exact Hq2 | exact Hc2].
Qed.

(* any control flow (branches, loops, early exits) around calls of functions from [pub] only *)
Fixpoint only_calls (pub : list string) (s : sk) : bool :=
  match s with
  | SEv _ => false
  | SCall f => mem_str f pub
  | SSeq a b | SAlt a b => only_calls pub a && only_calls pub b
  | SRep b | SCatchB b | SCatchC b => only_calls pub b
  | _ => true
  end.

Lemma mem_str_in : forall f l, mem_str f l = true -> In f l.
Proof.
  intros f l H. unfold mem_str in H. apply existsb_exists in H. destruct H as [g [Hg E]].
  apply String.eqb_eq in E. subst g. exact Hg.
Qed.

Theorem client_safe : forall T pub, (forall f, In f pub -> api_balanced T f) ->
  forall s t o, run T s t o -> only_calls pub s = true ->
  exists q, exec Clear t = Some q /\ (o <> OStop -> q = Clear).
Proof.
  intros T pub Hbal s t o Hrun.
  induction Hrun as
    [ s | | e | f b t o Hl Hb IHb | a b t o Ha IHa Hne | a b t1 t2 o Ha IHa Hb IHb
    | a b t o Ha IHa | a b t o Hb IHb | b t o Hb IHb Hc | b t1 t2 o1 o Hb IHb Hc Hr IHr
    | b t o Hb IHb | b t o Hb IHb | | | ]; intro Hoc; cbn [only_calls] in Hoc.
  - exists Clear. split; [reflexivity | intro H; exfalso; apply H; reflexivity].
  - exists Clear. split; [reflexivity | intros _; reflexivity].
  - discriminate Hoc.
  - destruct (Hbal f (mem_str_in _ _ Hoc)) as [b' [Hl' Hb']]. rewrite Hl in Hl'. injection Hl' as Hl'. subst b'.
    destruct (Hb' t o Hb) as [q [Hq Hq']]. exists q. split; [exact Hq|].
    intro Hne. apply Hq'. intro E. subst o. apply Hne. reflexivity.
  - apply andb_true_iff in Hoc. destruct Hoc as [H1 H2]. apply IHa. exact H1.
  - apply andb_true_iff in Hoc. destruct Hoc as [H1 H2].
    destruct (IHa H1) as [q1 [Hq1 Hc1]]. assert (E : q1 = Clear) by (apply Hc1; discriminate). subst q1.
    destruct (IHb H2) as [q2 [Hq2 Hc2]]. exists q2. split; [rewrite exec_app; rewrite Hq1; exact Hq2 | exact Hc2].
  - apply andb_true_iff in Hoc. destruct Hoc as [H1 H2]. apply IHa. exact H1.
  - apply andb_true_iff in Hoc. destruct Hoc as [H1 H2]. apply IHb. exact H2.
  - destruct (IHb Hoc) as [q [Hq Hc']]. exists q. split; [exact Hq|].
    intro Hne. apply Hc'. intro E. subst o. apply Hne. reflexivity.
  - destruct (IHb Hoc) as [q1 [Hq1 Hc1]].
    assert (E : q1 = Clear) by (apply Hc1; intro E; subst o1; discriminate Hc). subst q1.
    destruct (IHr Hoc) as [q2 [Hq2 Hc2]]. exists q2. split; [rewrite exec_app; rewrite Hq1; exact Hq2 | exact Hc2].
  - destruct (IHb Hoc) as [q [Hq Hc']]. exists q. split; [exact Hq|].
    intro Hne. apply Hc'. intro E. subst o. apply Hne. reflexivity.
  - destruct (IHb Hoc) as [q [Hq Hc']]. exists q. split; [exact Hq|].
    intro Hne. apply Hc'. intro E. subst o. apply Hne. reflexivity.
  - exists Clear. split; [reflexivity | intros _; reflexivity].
  - exists Clear. split; [reflexivity | intros _; reflexivity].
  - exists Clear. split; [reflexivity | intros _; reflexivity].
Qed.

(* ------------------------------------------------------------------ *)
(* replayed paths are traces *)

Theorem replay_run : forall T n s cs t o cs', replay T n s cs = Some (t, o, cs') -> run T s t o.
Proof.
  intros T n. induction n as [|n IH]; intros s cs t o cs' H; [discriminate H|].
  destruct s as [ | e | f | a b | a b | b | b | b | | | ]; cbn [replay] in H.
  - injection H as <- <- <-. constructor.
  - injection H as <- <- <-. constructor.
  - destruct (lookup T f) as [b|] eqn:Hl; [|discriminate H].
    destruct (replay T n b cs) as [[[t0 o0] cs0]|] eqn:E; [|discriminate H].
    injection H as <- <- <-. apply (r_call T f b t0 o0 Hl). apply (IH _ _ _ _ _ E).
  - destruct (replay T n a cs) as [[[t1 o1] cs1]|] eqn:E1; [|discriminate H].
    destruct o1.
    + destruct (replay T n b cs1) as [[[t2 o2] cs2]|] eqn:E2; [|discriminate H].
      injection H as <- <- <-. apply r_seq2; [apply (IH _ _ _ _ _ E1) | apply (IH _ _ _ _ _ E2)].
    + injection H as <- <- <-. apply r_seq1; [apply (IH _ _ _ _ _ E1) | discriminate].
    + injection H as <- <- <-. apply r_seq1; [apply (IH _ _ _ _ _ E1) | discriminate].
    + injection H as <- <- <-. apply r_seq1; [apply (IH _ _ _ _ _ E1) | discriminate].
    + injection H as <- <- <-. apply r_seq1; [apply (IH _ _ _ _ _ E1) | discriminate].
  - destruct cs as [|[|] cs0]; [injection H as <- <- <-; apply r_stop | apply r_altl; apply (IH _ _ _ _ _ H) | apply r_altr; apply (IH _ _ _ _ _ H)].
  - destruct (replay T n b cs) as [[[t1 o1] cs1]|] eqn:E1; [|discriminate H].
    destruct (continues o1) eqn:Hc.
    + destruct (replay T n (SRep b) cs1) as [[[t2 o2] cs2]|] eqn:E2; [|discriminate H].
      injection H as <- <- <-. apply (r_rep_go T b t1 t2 o1 o2); [apply (IH _ _ _ _ _ E1) | exact Hc | apply (IH _ _ _ _ _ E2)].
    + injection H as <- <- <-. apply r_rep_out; [apply (IH _ _ _ _ _ E1) | exact Hc].
  - destruct (replay T n b cs) as [[[t1 o1] cs1]|] eqn:E1; [|discriminate H].
    injection H as <- <- <-. apply r_catchb. apply (IH _ _ _ _ _ E1).
  - destruct (replay T n b cs) as [[[t1 o1] cs1]|] eqn:E1; [|discriminate H].
    injection H as <- <- <-. apply r_catchc. apply (IH _ _ _ _ _ E1).
  - injection H as <- <- <-. constructor.
  - injection H as <- <- <-. constructor.
  - injection H as <- <- <-. constructor.
Qed.

Theorem bad_path_refutes : forall T n f cs, bad_path T n f cs = true -> ~ api_balanced T f.
Proof.
  intros T n f cs H [b [Hl Hb]]. unfold bad_path in H. rewrite Hl in H.
  destruct (replay T n b cs) as [[[t o] cs']|] eqn:E; [|discriminate H].
  apply replay_run in E. destruct (Hb t o E) as [q [Hq Hc]]. rewrite Hq in H.
  destruct q; [discriminate H|].
  assert (Hne : o <> OStop) by (intro E'; subst o; discriminate H).
  specialize (Hc Hne). discriminate Hc.
Qed.
