(* C20 - which code the selected models describe.  [false] = the code as
   pinned (with the defect), [true] = the code after the corresponding patch
   in /verif/fixes has been applied to /repo.  The models are written once,
   parametrised by these flags; the *selected* instances are what is
   extracted under the plain names and compared with /repo on every run.
   After applying a fix to /repo: set its flag to [true] here and replace
   Props/Properties_C20.v by the variant for the new flag values (see
   lib/p_c20.py, which reports a stale flag):
     fix_ba_index  fix_ba_leak   Props/Properties_C20.v :=
        false         false      Properties_C20.v.pinned        (held references: refuted)
        true          false      Properties_C20.v.fixed-index   (element references proved, data() pointer across a copy refuted)
        true          true       Properties_C20.v.fixed         (everything proved)
   (the three older flags are [true] in all three variants). *)
Definition fix_hex_helper : bool := true.   (* fixes/C20-hex-helper-length.patch *)
Definition fix_ba_cmp : bool := true.       (* fixes/C20-bytearray-cmp-sign.patch *)
Definition fix_ba_resize : bool := true.    (* fixes/C20-bytearray-resize-detach.patch *)
Definition fix_ba_index : bool := true.    (* fixes/C20-subscript-detach.patch: operator[] (both overloads) and pop_back detach only a shared block *)
Definition fix_ba_leak : bool := false.     (* fixes/C20-bytearray-unshare-leaked.patch: a block whose data pointer / element reference was handed out is never shared *)
