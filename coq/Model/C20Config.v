(* C20 - which code the selected models describe.  [false] = the code as
   pinned (with the defect), [true] = the code after the corresponding patch
   in /verif/fixes has been applied to /repo.  The models are written once,
   parametrised by these flags; the *selected* instances are what is
   extracted under the plain names and compared with /repo on every run.
   After applying a fix to /repo: set its flag to [true] here and replace
   Props/Properties_C20.v by Props/Properties_C20.v.fixed (see lib/p_c20.py,
   which reports a stale flag). *)
Definition fix_hex_helper : bool := true.   (* fixes/C20-hex-helper-length.patch *)
Definition fix_ba_cmp : bool := true.       (* fixes/C20-bytearray-cmp-sign.patch *)
Definition fix_ba_resize : bool := true.    (* fixes/C20-bytearray-resize-detach.patch *)
