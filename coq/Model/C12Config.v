(* C12 - which code the selected models describe.  [false] = the code as
   pinned (with the defect), [true] = the code after the corresponding patch
   in /verif/fixes has been applied to /repo.

   fix_x3_zero    fixes/C12-masked-word-x3-zero.patch
                  (ascon_masked_word_x3_zero, src/masking/ascon-masked-word-c64.c:
                   unconditional word->S[3] = 0 with ASCON_MASKED_MAX_SHARES = 3)
   fix_cli_names  fixes/C12-asconcrypt-filenames.patch
                  (is_encrypted_filename / strip_suffix, apps/asconcrypt/asconcrypt.c)

   The flags select (a) which entries of the regenerated kernel table
   (Gen/Bounds.v) Props/Properties_C12.v tolerates as the known pinned defect
   and (b) which statement about the command-line name functions is THE
   statement of the property (C12_idx_cli_names: safety for every name when
   [true], the refutation when [false]).  lib/p_c12.py reads the flags to know
   what the real binaries are expected to do; it reports a stale flag.
   After the patches are applied to /repo: set both to [true] (nothing else
   changes - Props/Properties_C12.v compiles under both settings). *)
Definition fix_x3_zero : bool := true.
Definition fix_cli_names : bool := true.
