(* C20 - executable model of the ASCON_NO_STL replacement for
   std::vector<unsigned char>: class ascon::byte_array in src/ascon/utility.h
   and src/cplusplus/ascon-byte-array.cpp, transcribed member by member.

   A [byte_array] object is one pointer [p] to a reference-counted private
   block {ref; size; capacity; data}.  The model keeps a heap of such blocks
   (identifier = position in the list, never reused; a deleted block is
   [None]) and a list of variables, each [Dead] (no object), [Null] (p == 0)
   or [Ptr i].  Every member function is a function from (heap, this->p) to
   (heap, this->p, result), written statement by statement after the C++;
   the source text is quoted above each.  `new unsigned char[n]` yields [n]
   cells holding [UNINIT] (= 256, not a byte).

   The places where the pinned code departs from std::vector are kept
   under a configuration record: [c_fix_cmp], [c_fix_resize] select the code
   after fixes/C20-bytearray-cmp-sign.patch and
   fixes/C20-bytearray-resize-detach.patch; [c_fix_index] the code after
   fixes/C20-subscript-detach.patch (operator[] and pop_back detach only a
   shared block instead of always); [c_fix_leak] the code after
   fixes/C20-bytearray-unshare-leaked.patch (a block into which a pointer or
   reference has been handed out is marked and never shared afterwards).
   [cfg_selected] (from Model/C20Config.v) is the code /repo currently has.

   Element references and data() pointers that are HELD across other
   operations on the same object are modelled from "held references" on
   (end of the member functions): a reference is (block, offset); using one
   whose block has been deleted is the result [RUAF] (use after free), which
   no std::vector operation has. *)
From AsconV Require Export Bits.Bytes Spec.Hex Model.Hexm Model.C20Config.
From Coq Require Import ZArith.
Local Open Scope nat_scope.

Record cfg := mkcfg { c_fix_cmp : bool; c_fix_resize : bool; c_fix_hex : bool; c_fix_index : bool; c_fix_leak : bool }.
Definition cfg_asis : cfg := mkcfg false false false false false.
Definition cfg_fixed : cfg := mkcfg true true true true true.
Definition cfg_selected : cfg := mkcfg fix_ba_cmp fix_ba_resize fix_hex_helper fix_ba_index fix_ba_leak.
(* the code after every patch but fixes/C20-bytearray-unshare-leaked.patch *)
Definition cfg_fixed_index : cfg := mkcfg true true true true false.

(* struct byte_array_private { size_t ref; size_t size; size_t capacity; unsigned char *data; }
   after fixes/C20-bytearray-unshare-leaked.patch also  bool leaked;  (always false before the patch) *)
Record block := mkblock { b_ref : nat; b_size : nat; b_cap : nat; b_data : list N; b_leak : bool }.
Definition set_ref (b : block) (r : nat) := mkblock r (b_size b) (b_cap b) (b_data b) (b_leak b).
Definition set_size (b : block) (s : nat) := mkblock (b_ref b) s (b_cap b) (b_data b) (b_leak b).
Definition set_data (b : block) (d : list N) := mkblock (b_ref b) (b_size b) (b_cap b) d (b_leak b).
Definition set_leak (b : block) (l : bool) := mkblock (b_ref b) (b_size b) (b_cap b) (b_data b) l.

Definition heap := list (option block).
Definition hget (h : heap) (i : nat) : option block := nth i h None.
Definition hset (h : heap) (i : nat) (x : option block) : heap := upd h i x.

Inductive slot := Dead | Null | Ptr (i : nat).
Definition slot_of (p : option nat) : slot := match p with None => Null | Some i => Ptr i end.
Record state := mkstate { heap_of : heap; vars_of : list slot }.

(* #define CAPACITY(x) (((x) + 15U) & ~((size_t)15U)) *)
Definition CAPACITY (x : nat) : nat := ((x + 15) / 16) * 16.

(* byte_array_private(size_t reserve) : ref(1), size(0), capacity(reserve), [leaked(false),] data(new unsigned char [reserve]) *)
Definition new_private (h : heap) (reserve : nat) : heap * nat :=
  (h ++ [Some (mkblock 1 0 reserve (repeat UNINIT reserve) false)], length h).

(* if (p && (--(p->ref)) == 0) delete p;      (destructor, clear, operator=, detach) *)
Definition unref (h : heap) (p : option nat) : heap :=
  match p with
  | None => h
  | Some i =>
    match hget h i with
    | None => h
    | Some b => if b_ref b - 1 =? 0 then hset h i None else hset h i (Some (set_ref b (b_ref b - 1)))
    end
  end.

(* byte_array(size_t size, unsigned char value)
     : p(new byte_array_private(size ? CAPACITY(size) : CAPACITY(1)))
   { p->size = size; ::memset(p->data, value, size); } *)
Definition m_ctor_size (h : heap) (size : nat) (value : N) : heap * option nat :=
  let '(h1, np) := new_private h (if size =? 0 then CAPACITY 1 else CAPACITY size) in
  match hget h1 np with
  | None => (h1, Some np)
  | Some b => (hset h1 np (Some (set_data (set_size b size) (set_at (b_data b) 0 (repeat value size)))), Some np)
  end.

(* ~byte_array() { if (p && (--(p->ref)) == 0) delete p; } *)
Definition m_dtor (h : heap) (p : option nat) : heap := unref h p.

Definition opt_eqb (p q : option nat) : bool :=
  match p, q with None, None => true | Some i, Some j => i =? j | _, _ => false end.

(* void byte_array::detach(size_t capacity) const
   { if (p && p->size > capacity) capacity = p->size;
     if (!capacity) capacity = 1;
     capacity = CAPACITY(capacity);
     byte_array_private *np = new byte_array_private(capacity);
     if (p) { np->size = p->size; ::memcpy(np->data, p->data, p->size); }
     if (p && (--(p->ref)) == 0) delete p;
     p = np; } *)
Definition detach (h : heap) (p : option nat) (capacity : nat) : heap * option nat :=
  let pb := match p with Some i => hget h i | None => None end in
  let capacity := match pb with Some b => if capacity <? b_size b then b_size b else capacity | None => capacity end in
  let capacity := if capacity =? 0 then 1 else capacity in
  let capacity := CAPACITY capacity in
  let '(h1, np) := new_private h capacity in
  let h2 := match pb, hget h1 np with
            | Some b, Some nb =>
              hset h1 np (Some (set_data (set_size nb (b_size b)) (set_at (b_data nb) 0 (firstn (b_size b) (b_data b)))))
            | _, _ => h1
            end in
  (unref h2 p, Some np).

(* p && p->leaked *)
Definition leaked (h : heap) (p : option nat) : bool :=
  match p with Some i => match hget h i with Some b => b_leak b | None => false end | None => false end.

(* byte_array(const byte_array &other) : p(other.p) { if (p) ++(p->ref); }
   after fixes/C20-bytearray-unshare-leaked.patch:  { if (p) { ++(p->ref); if (p->leaked) detach(); } } *)
Definition share_copy (h : heap) (other : option nat) : heap * option nat :=
  match other with
  | None => (h, None)
  | Some i => match hget h i with
              | None => (h, other)
              | Some b => (hset h i (Some (set_ref b (b_ref b + 1))), other)
              end
  end.
Definition m_ctor_copy (c : cfg) (h : heap) (other : option nat) : heap * option nat :=
  let '(h1, p1) := share_copy h other in
  if c_fix_leak c && leaked h1 p1 then detach h1 p1 0 else (h1, p1).

(* byte_array &operator=(const byte_array &other)
   { if (p != other.p) { if (other.p) ++(other.p->ref);
                         if (p && (--(p->ref)) == 0) delete p;
                         p = other.p;
                         [after fixes/C20-bytearray-unshare-leaked.patch:  if (p && p->leaked) detach();] }
     return *this; } *)
Definition m_assign (c : cfg) (h : heap) (p other : option nat) : heap * option nat :=
  if opt_eqb p other then (h, p)
  else
    let h1 := match other with
              | None => h
              | Some i => match hget h i with
                          | None => h
                          | Some b => hset h i (Some (set_ref b (b_ref b + 1)))
                          end
              end in
    let h2 := unref h1 p in
    if c_fix_leak c && leaked h2 other then detach h2 other 0 else (h2, other).

(* p->data[pos] after a member function left p non-null *)
Definition data_at (h : heap) (p : option nat) (pos : nat) : N :=
  match p with
  | Some i => match hget h i with Some b => nth pos (b_data b) UNINIT | None => UNINIT end
  | None => UNINIT
  end.

(* apply a change to the block p points to *)
Definition on_block (h : heap) (p : option nat) (f : block -> block) : heap :=
  match p with
  | Some i => match hget h i with Some b => hset h i (Some (f b)) | None => h end
  | None => h
  end.

(* the statements of operator[] before `return p->data[pos];`, both overloads:
     detach();
   after fixes/C20-subscript-detach.patch:
     if (!p || p->ref > 1) detach();                                       *)
Definition acc_index (c : cfg) (h : heap) (p : option nat) : heap * option nat :=
  if c_fix_index c then
    match p with
    | None => detach h p 0
    | Some i => match hget h i with
                | Some b => if 1 <? b_ref b then detach h p 0 else (h, p)
                | None => (h, p)
                end
    end
  else detach h p 0.
(* after fixes/C20-bytearray-unshare-leaked.patch every function that returns a pointer or a
   reference into p->data first executes  p->leaked = true; *)
Definition markf (c : cfg) (b : block) : block := if c_fix_leak c then set_leak b true else b.
Definition mark (c : cfg) (h : heap) (p : option nat) : heap := on_block h p (markf c).
(* operator[] up to the point where the reference &p->data[pos] is returned *)
Definition m_index_ref (c : cfg) (h : heap) (p : option nat) : heap * option nat :=
  let '(h1, p1) := acc_index c h p in (mark c h1 p1, p1).

(* unsigned char &operator[](size_t pos)          used as  v[pos] = value *)
Definition m_index_set (c : cfg) (h : heap) (p : option nat) (pos : nat) (value : N) : heap * option nat :=
  let '(h1, p1) := m_index_ref c h p in
  (on_block h1 p1 (fun b => set_data b (upd (b_data b) pos value)), p1).

(* unsigned char &operator[](size_t pos)  /  const unsigned char &operator[](size_t pos) const      read at once *)
Definition m_index_get (c : cfg) (h : heap) (p : option nat) (pos : nat) : heap * option nat * N :=
  let '(h1, p1) := m_index_ref c h p in (h1, p1, data_at h1 p1 pos).

(* size_t size() const { return p ? p->size : 0; } *)
Definition m_size (h : heap) (p : option nat) : nat :=
  match p with Some i => match hget h i with Some b => b_size b | None => 0 end | None => 0 end.
(* size_t capacity() const { return p ? p->capacity : 0; } *)
Definition m_capacity (h : heap) (p : option nat) : nat :=
  match p with Some i => match hget h i with Some b => b_cap b | None => 0 end | None => 0 end.
(* bool empty() const { return !p || p->size == 0; } *)
Definition m_empty (h : heap) (p : option nat) : bool :=
  match p with Some i => match hget h i with Some b => b_size b =? 0 | None => true end | None => true end.

(* unsigned char *data() { if (p) { if (p->ref > 1) detach(); [p->leaked = true;] return p->data; } else { return 0; } }
   iterator begin() { return data(); }   iterator end() { return data() + size(); } *)
Definition m_data (c : cfg) (h : heap) (p : option nat) : heap * option nat :=
  match p with
  | Some i => match hget h i with
              | Some b => let '(h1, p1) := if 1 <? b_ref b then detach h p 0 else (h, p) in (mark c h1 p1, p1)
              | None => (h, p)
              end
  | None => (h, p)
  end.
(* const unsigned char *data() const { return p ? p->data : 0; }
   after fixes/C20-bytearray-unshare-leaked.patch the same body as the non-const data()
   (p is mutable): a const pointer, too, must keep showing this array and no other *)
Definition m_data_c (c : cfg) (h : heap) (p : option nat) : heap * option nat :=
  if c_fix_leak c then m_data c h p else (h, p).

(* the bytes [data(), data() + size()) *)
Definition contents (h : heap) (p : option nat) : list N :=
  match p with
  | Some i => match hget h i with Some b => firstn (b_size b) (b_data b) | None => [] end
  | None => []
  end.

(* void byte_array::reserve(size_t size) { if (!p || size > p->capacity) detach(size); } *)
Definition m_reserve (h : heap) (p : option nat) (size : nat) : heap * option nat :=
  match p with
  | None => detach h p size
  | Some i => match hget h i with
              | Some b => if b_cap b <? size then detach h p size else (h, p)
              | None => (h, p)
              end
  end.

(* void byte_array::resize(size_t size)
   { reserve(size);
     if (p->size < size) ::memset(p->data + p->size, 0, size - p->size);
     p->size = size; }
   after fixes/C20-bytearray-resize-detach.patch the first statement is
     if (!p || size > p->capacity || p->ref > 1) detach(size);            *)
Definition m_resize (c : cfg) (h : heap) (p : option nat) (size : nat) : heap * option nat :=
  let '(h1, p1) :=
    if c_fix_resize c then
      match p with
      | None => detach h p size
      | Some i => match hget h i with
                  | Some b => if (b_cap b <? size) || (1 <? b_ref b) then detach h p size else (h, p)
                  | None => (h, p)
                  end
      end
    else m_reserve h p size in
  (on_block h1 p1 (fun b =>
     let b1 := if b_size b <? size then set_data b (set_at (b_data b) (b_size b) (repeat 0%N (size - b_size b))) else b in
     set_size b1 size), p1).

(* void clear() { if (p && (--(p->ref)) == 0) delete p; p = 0; } *)
Definition m_clear (h : heap) (p : option nat) : heap * option nat := (unref h p, None).

(* void byte_array::push_back(unsigned char value)
   { if (!p) detach();
     else if (p->size >= p->capacity || p->ref > 1) detach(p->size + 1);
     p->data[(p->size)++] = value; } *)
Definition m_push_back (h : heap) (p : option nat) (value : N) : heap * option nat :=
  let '(h1, p1) :=
    match p with
    | None => detach h p 0
    | Some i => match hget h i with
                | Some b => if (b_cap b <=? b_size b) || (1 <? b_ref b) then detach h p (b_size b + 1) else (h, p)
                | None => (h, p)
                end
    end in
  (on_block h1 p1 (fun b => set_size (set_data b (upd (b_data b) (b_size b) value)) (b_size b + 1)), p1).

(* void byte_array::pop_back() { if (p && p->size > 0) { detach(); --(p->size); } }
   after fixes/C20-subscript-detach.patch:                    { if (p->ref > 1) detach(); --(p->size); } *)
Definition m_pop_back (c : cfg) (h : heap) (p : option nat) : heap * option nat :=
  match p with
  | Some i => match hget h i with
              | Some b => if 0 <? b_size b then
                            let '(h1, p1) := if c_fix_index c && negb (1 <? b_ref b) then (h, p) else detach h p 0 in
                            (on_block h1 p1 (fun b => set_size b (b_size b - 1)), p1)
                          else (h, p)
              | None => (h, p)
              end
  | None => (h, p)
  end.

(* ::memcmp(a, b, n): sign only *)
Fixpoint memcmp (a b : list N) (n : nat) {struct n} : Z :=
  match n with
  | O => 0%Z
  | S n' => match a, b with
            | x :: a', y :: b' => if (x <? y)%N then (-1)%Z else if (y <? x)%N then 1%Z else memcmp a' b' n'
            | _, _ => 0%Z
            end
  end.

(* int byte_array::cmp(const byte_array &other) const
   { if (p == other.p) { return 0; }
     else if (!p) { return other.p->size > 0 ? 1 : 0; }
     else if (!other.p) { return p->size > 0 ? -1 : 0; }
     else { size_t size = p->size; if (size > other.p->size) size = other.p->size;
            int result = ::memcmp(p->data, other.p->data, size);
            if (result != 0) return result;
            else if (size < p->size) return 1;
            else if (size < other.p->size) return -1;
            else return 0; } }
   after fixes/C20-bytearray-cmp-sign.patch the second and third branches
   return  other.p->size > 0 ? -1 : 0  and  p->size > 0 ? 1 : 0.            *)
Definition m_cmp (c : cfg) (h : heap) (p other : option nat) : Z :=
  if opt_eqb p other then 0%Z
  else match p, other with
       | None, _ => if 0 <? m_size h other then (if c_fix_cmp c then (-1)%Z else 1%Z) else 0%Z
       | _, None => if 0 <? m_size h p then (if c_fix_cmp c then 1%Z else (-1)%Z) else 0%Z
       | Some i, Some j =>
         match hget h i, hget h j with
         | Some b, Some ob =>
           let size := if b_size ob <? b_size b then b_size ob else b_size b in
           let result := memcmp (b_data b) (b_data ob) size in
           if negb (result =? 0)%Z then result
           else if size <? b_size b then 1%Z
           else if size <? b_size ob then (-1)%Z
           else 0%Z
         | _, _ => 0%Z
         end
       end.

Inductive cmpop := CEq | CNe | CLt | CLe | CGt | CGe.
(* operator== { return cmp(other) == 0; } ... operator>= { return cmp(other) >= 0; } *)
Definition cmp_result (o : cmpop) (r : Z) : bool :=
  match o with
  | CEq => (r =? 0)%Z | CNe => negb (r =? 0)%Z | CLt => (r <? 0)%Z
  | CLe => (r <=? 0)%Z | CGt => (0 <? r)%Z | CGe => (0 <=? r)%Z
  end.

(* byte_array bytes_from_hex(const char *str, size_t len)           (utility.h, ASCON_NO_STL build)
   { byte_array vec(len / 2);
     int result = ::ascon_bytes_from_hex(vec.data(), vec.size(), str, len);
     if (result != -1) return vec;  [fixed: { vec.resize(result); return vec; }]
     else return byte_array(); }
   used as  new byte_array(bytes_from_hex(str, len));  `return vec;` copy-constructs the result
   from the local `vec`, which is then destroyed (no named-return-value elision: the function has
   two different return expressions).  Before the unshare patch the copy shares the block and one
   reference remains; after it the block is leaked (vec.data() was called), the copy is a
   detached one and the original is deleted: exactly detach() *)
Definition m_from_hex (c : cfg) (h : heap) (str : list N) : heap * option nat :=
  let len := length str in
  let '(h1, p1) := m_ctor_size h (len / 2) 0%N in
  let '(h2, p2) := m_data c h1 p1 in
  let vsize := m_size h2 p2 in
  let '(result, mem) := from_hex (match p2 with Some i => match hget h2 i with Some b => b_data b | None => [] end | None => [] end) vsize str in
  let h3 := on_block h2 p2 (fun b => set_data b mem) in
  if (result =? -1)%Z then (unref h3 p2, None)
  else
    let '(h4, p4) := if c_fix_hex c then m_resize c h3 p2 (Z.to_nat result) else (h3, p2) in
    if c_fix_leak c && leaked h4 p4 then detach h4 p4 0 else (h4, p4).

(* ---- held references ---------------------------------------------------- *)
(* A reference `unsigned char &r = v[pos]` or a pointer `v.data() + pos` is the address of a cell
   of a data array: (block, offset), or nothing for the null pointer data() returns when p == 0.
   Deleting the block deletes the array (~byte_array_private: delete[] data): the reference dangles. *)
Definition cref := option (nat * nat).
Definition mkref (p : option nat) (pos : nat) : cref := match p with Some k => Some (k, pos) | None => None end.
Definition ref_live (h : heap) (r : cref) : bool :=
  match r with Some (k, _) => match hget h k with Some _ => true | None => false end | None => false end.
(* *r  and  *r = x  for a live reference *)
Definition ref_rd (h : heap) (r : cref) : N := match r with Some (k, o) => data_at h (Some k) o | None => UNINIT end.
Definition ref_wr (h : heap) (r : cref) (x : N) : heap :=
  match r with Some (k, o) => on_block h (Some k) (fun b => set_data b (upd (b_data b) o x)) | None => h end.

Inductive result := RUnit | RBool (b : bool) | RNat (n : nat) | RByte (x : N) | RBytes (l : list N) | RAny | RPre
                  | RUAF.   (* a dangling reference was about to be used (the use itself is not performed) *)

(* unsigned char &r = v[i]; unsigned char &s = v[j]; r = x; s = y; *)
Definition m_set2 (c : cfg) (h : heap) (p : option nat) (i : nat) (x : N) (j : nat) (y : N) : heap * option nat * result :=
  let '(h1, p1) := m_index_ref c h p in
  let '(h2, p2) := m_index_ref c h1 p1 in
  let r := mkref p1 i in let s := mkref p2 j in
  if ref_live h2 r && ref_live h2 s then (ref_wr (ref_wr h2 r x) s y, p2, RUnit) else (h2, p2, RUAF).

(* std::swap(v[i], v[j]):  unsigned char &r = v[i]; unsigned char &s = v[j]; unsigned char t = r; r = s; s = t; *)
Definition m_swap (c : cfg) (h : heap) (p : option nat) (i j : nat) : heap * option nat * result :=
  let '(h1, p1) := m_index_ref c h p in
  let '(h2, p2) := m_index_ref c h1 p1 in
  let r := mkref p1 i in let s := mkref p2 j in
  if ref_live h2 r && ref_live h2 s then
    let t := ref_rd h2 r in
    let h3 := ref_wr h2 r (ref_rd h2 s) in
    (ref_wr h3 s t, p2, RUnit)
  else (h2, p2, RUAF).

(* [const] unsigned char &r = v[i]; (void) v[j]; return r;     both overloads have the same body *)
Definition m_get_held (c : cfg) (h : heap) (p : option nat) (i j : nat) : heap * option nat * result :=
  let '(h1, p1) := m_index_ref c h p in
  let '(h2, p2) := m_index_ref c h1 p1 in
  let r := mkref p1 i in
  if ref_live h2 r then (h2, p2, RByte (ref_rd h2 r)) else (h2, p2, RUAF).

(* unsigned char &r = v[i]; v.pop_back(); return r;      (i is not the last element) *)
Definition m_held_pop (c : cfg) (h : heap) (p : option nat) (i : nat) : heap * option nat * result :=
  let '(h1, p1) := m_index_ref c h p in
  let '(h2, p2) := m_pop_back c h1 p1 in
  let r := mkref p1 i in
  if ref_live h2 r then (h2, p2, RByte (ref_rd h2 r)) else (h2, p2, RUAF).

(* const unsigned char *q = cv.data(); v[j] = value; return q[i];       (cv: the same object, const) *)
Definition m_cdata_held (c : cfg) (h : heap) (p : option nat) (i j : nat) (value : N) : heap * option nat * result :=
  let '(h1, p1) := m_data_c c h p in
  let '(h2, p2) := m_index_set c h1 p1 j value in
  let r := mkref p1 i in
  if ref_live h2 r then (h2, p2, RByte (ref_rd h2 r)) else (h2, p2, RUAF).

(* ---- operations on variables ------------------------------------------ *)
Inductive op :=
| OCtor (v : nat)                          (* new (&v) byte_array() *)
| OCtorCopy (v w : nat)                    (* new (&v) byte_array(w) *)
| OCtorSize (v n : nat) (value : N)        (* new (&v) byte_array(n, value) *)
| OFromHex (v : nat) (str : list N)        (* new (&v) byte_array(ascon::bytes_from_hex(str, len)) *)
| ODtor (v : nat)                          (* v.~byte_array() *)
| OAssign (v w : nat)                      (* v = w   (v = v included) *)
| OSet (v pos : nat) (value : N)           (* v[pos] = value *)
| OGet (v pos : nat)                       (* v[pos], non-const *)
| OGetC (v pos : nat)                      (* v[pos], const *)
| OSize (v : nat) | OCapacity (v : nat) | OEmpty (v : nat)
| OData (v : nat)                          (* read [v.data(), v.data()+v.size()) or [v.begin(), v.end()), non-const *)
| ODataSet (v pos : nat) (value : N)       (* v.data()[pos] = value, non-const data() *)
| ODataC (v : nat)                         (* read through const data() / cbegin() / cend() *)
| OReserve (v n : nat) | OResize (v n : nat) | OClear (v : nat)
| OPush (v : nat) (value : N) | OPop (v : nat)
| OCmp (o : cmpop) (v w : nat)             (* v == w, v != w, v < w, v <= w, v > w, v >= w *)
(* references and pointers held across other operations on the same object *)
| OSet2 (v i : nat) (x : N) (j : nat) (y : N)   (* unsigned char &r = v[i]; unsigned char &s = v[j]; r = x; s = y; *)
| OSwap (v i j : nat)                      (* std::swap(v[i], v[j]) *)
| OGetHeld (v i j : nat)                   (* unsigned char &r = v[i]; (void) v[j]; return r;         non-const *)
| OGetHeldC (v i j : nat)                  (* const unsigned char &r = cv[i]; (void) cv[j]; return r;  const *)
| OHeldPop (v i : nat)                     (* unsigned char &r = v[i]; v.pop_back(); return r;   i + 1 < v.size() *)
| ODataHeldCopy (v w pos : nat) (value : N)   (* unsigned char *q = v.data(); new (&w) byte_array(v); q[pos] = value; *)
| ODataHeldAssign (v w pos : nat) (value : N) (* unsigned char *q = v.data(); w = v; q[pos] = value; *)
| OCDataHeld (v i j : nat) (value : N).    (* const unsigned char *q = cv.data(); v[j] = value; return q[i]; *)

Definition var (st : state) (v : nat) : slot := nth v (vars_of st) Dead.
Definition ptr_of (s : slot) : option nat := match s with Ptr i => Some i | _ => None end.
Definition alive (s : slot) : bool := match s with Dead => false | _ => true end.
Definition put (st : state) (h : heap) (v : nat) (p : option nat) : state := mkstate h (upd (vars_of st) v (slot_of p)).

(* run a member function of live variable v *)
Definition member (st : state) (v : nat) (f : heap -> option nat -> heap * option nat * result) : state * result :=
  if alive (var st v) then
    let '(h', p', r) := f (heap_of st) (ptr_of (var st v)) in (put st h' v p', r)
  else (st, RPre).
(* run a constructor on dead variable v *)
Definition construct (st : state) (v : nat) (hp : heap * option nat) : state * result :=
  (put st (fst hp) v (snd hp), RUnit).

Definition step (c : cfg) (st : state) (o : op) : state * result :=
  let h := heap_of st in
  match o with
  | OCtor v => if alive (var st v) then (st, RPre) else construct st v (h, None)
  | OCtorCopy v w => if alive (var st v) || negb (alive (var st w)) then (st, RPre)
                     else construct st v (m_ctor_copy c h (ptr_of (var st w)))
  | OCtorSize v n value => if alive (var st v) then (st, RPre) else construct st v (m_ctor_size h n value)
  | OFromHex v str => if alive (var st v) then (st, RPre) else construct st v (m_from_hex c h str)
  | ODtor v => if alive (var st v) then (mkstate (m_dtor h (ptr_of (var st v))) (upd (vars_of st) v Dead), RUnit) else (st, RPre)
  | OAssign v w => if alive (var st w) then member st v (fun h p => (m_assign c h p (ptr_of (var st w)), RUnit)) else (st, RPre)
  | OSet v pos value => member st v (fun h p => (m_index_set c h p pos value, RUnit))
  | OGet v pos | OGetC v pos => member st v (fun h p => let '(h', p', x) := m_index_get c h p pos in (h', p', RByte x))
  | OSize v => member st v (fun h p => (h, p, RNat (m_size h p)))
  | OCapacity v => member st v (fun h p => (h, p, RNat (m_capacity h p)))
  | OEmpty v => member st v (fun h p => (h, p, RBool (m_empty h p)))
  | OData v => member st v (fun h p => let '(h', p') := m_data c h p in (h', p', RBytes (contents h' p')))
  | ODataSet v pos value => member st v (fun h p => let '(h', p') := m_data c h p in
                               (on_block h' p' (fun b => set_data b (upd (b_data b) pos value)), p', RUnit))
  | ODataC v => member st v (fun h p => let '(h', p') := m_data_c c h p in (h', p', RBytes (contents h' p')))
  | OReserve v n => member st v (fun h p => (m_reserve h p n, RUnit))
  | OResize v n => member st v (fun h p => (m_resize c h p n, RUnit))
  | OClear v => member st v (fun h p => (m_clear h p, RUnit))
  | OPush v value => member st v (fun h p => (m_push_back h p value, RUnit))
  | OPop v => member st v (fun h p => (m_pop_back c h p, RUnit))
  | OCmp o v w => if alive (var st w) then
                    member st v (fun h p => (h, p, RBool (cmp_result o (m_cmp c h p (ptr_of (var st w))))))
                  else (st, RPre)
  | OSet2 v i x j y => member st v (fun h p => m_set2 c h p i x j y)
  | OSwap v i j => member st v (fun h p => m_swap c h p i j)
  | OGetHeld v i j | OGetHeldC v i j => member st v (fun h p => m_get_held c h p i j)
  | OHeldPop v i => member st v (fun h p => m_held_pop c h p i)
  | OCDataHeld v i j value => member st v (fun h p => m_cdata_held c h p i j value)
  | ODataHeldCopy v w pos value =>
    if alive (var st v) && negb (alive (var st w)) then
      let '(h1, p1) := m_data c h (ptr_of (var st v)) in
      let '(h2, q) := m_ctor_copy c h1 p1 in
      let vs2 := upd (upd (vars_of st) v (slot_of p1)) w (slot_of q) in
      let r := mkref p1 pos in
      if ref_live h2 r then (mkstate (ref_wr h2 r value) vs2, RUnit) else (mkstate h2 vs2, RUAF)
    else (st, RPre)
  | ODataHeldAssign v w pos value =>
    if alive (var st v) && alive (var st w) then
      let '(h1, p1) := m_data c h (ptr_of (var st v)) in
      let vs1 := upd (vars_of st) v (slot_of p1) in
      let '(h2, q) := m_assign c h1 (ptr_of (nth w vs1 Dead)) p1 in
      let vs2 := upd vs1 w (slot_of q) in
      let r := mkref p1 pos in
      if ref_live h2 r then (mkstate (ref_wr h2 r value) vs2, RUnit) else (mkstate h2 vs2, RUAF)
    else (st, RPre)
  end.

Fixpoint run (c : cfg) (st : state) (ops : list op) : state * list result :=
  match ops with
  | [] => (st, [])
  | o :: ops' => let '(st1, r) := step c st o in let '(st2, rs) := run c st1 ops' in (st2, r :: rs)
  end.

Definition init (nvars : nat) : state := mkstate [] (repeat Dead nvars).

(* ---- the reference: std::vector<unsigned char> values ------------------ *)
Definition vstate := list (option (list N)).    (* None: no object *)
Definition vvar (a : vstate) (v : nat) : option (list N) := nth v a None.

(* std::lexicographical_compare *)
Fixpoint lex_lt (a b : list N) : bool :=
  match a, b with
  | _, [] => false
  | [], _ :: _ => true
  | x :: a', y :: b' => if (x <? y)%N then true else if (y <? x)%N then false else lex_lt a' b'
  end.
Fixpoint list_eqb (a b : list N) : bool :=
  match a, b with
  | [], [] => true
  | x :: a', y :: b' => (x =? y)%N && list_eqb a' b'
  | _, _ => false
  end.
(* the relational operators of std::vector *)
Definition vec_cmp (o : cmpop) (a b : list N) : bool :=
  match o with
  | CEq => list_eqb a b | CNe => negb (list_eqb a b) | CLt => lex_lt a b
  | CLe => negb (lex_lt b a) | CGt => lex_lt b a | CGe => negb (lex_lt a b)
  end.

Definition vmember (a : vstate) (v : nat) (f : list N -> list N * result) : vstate * result :=
  match vvar a v with
  | Some l => let '(l', r) := f l in (upd a v (Some l'), r)
  | None => (a, RPre)
  end.

Definition vec_step (a : vstate) (o : op) : vstate * result :=
  match o with
  | OCtor v => match vvar a v with None => (upd a v (Some []), RUnit) | Some _ => (a, RPre) end
  | OCtorCopy v w => match vvar a v, vvar a w with None, Some l => (upd a v (Some l), RUnit) | _, _ => (a, RPre) end
  | OCtorSize v n value => match vvar a v with None => (upd a v (Some (repeat value n)), RUnit) | Some _ => (a, RPre) end
  | OFromHex v str => match vvar a v with
                      | None => (upd a v (Some (match decode str with Some b => b | None => [] end)), RUnit)
                      | Some _ => (a, RPre) end
  | ODtor v => match vvar a v with Some _ => (upd a v None, RUnit) | None => (a, RPre) end
  | OAssign v w => match vvar a w with Some l => vmember a v (fun _ => (l, RUnit)) | None => (a, RPre) end
  | OSet v pos value | ODataSet v pos value => vmember a v (fun l => (upd l pos value, RUnit))
  | OGet v pos | OGetC v pos => vmember a v (fun l => (l, RByte (nth pos l UNINIT)))
  | OSize v => vmember a v (fun l => (l, RNat (length l)))
  | OCapacity v => vmember a v (fun l => (l, RAny))              (* unspecified by the standard *)
  | OEmpty v => vmember a v (fun l => (l, RBool (length l =? 0)))
  | OData v | ODataC v => vmember a v (fun l => (l, RBytes l))
  | OReserve v n => vmember a v (fun l => (l, RUnit))
  | OResize v n => vmember a v (fun l => (vresize l n, RUnit))
  | OClear v => vmember a v (fun l => ([], RUnit))
  | OPush v value => vmember a v (fun l => (l ++ [value], RUnit))
  | OPop v => vmember a v (fun l => (removelast l, RUnit))       (* on an empty vector (undefined for std::vector): nothing *)
  | OCmp o v w => match vvar a w with Some l2 => vmember a v (fun l => (l, RBool (vec_cmp o l l2))) | None => (a, RPre) end
  (* element references stay valid while the vector is neither reallocated nor shrunk below them;
     a write through a pointer into one vector changes that vector and no other *)
  | OSet2 v i x j y => vmember a v (fun l => (upd (upd l i x) j y, RUnit))
  | OSwap v i j => vmember a v (fun l => (upd (upd l i (nth j l UNINIT)) j (nth i l UNINIT), RUnit))
  | OGetHeld v i j | OGetHeldC v i j => vmember a v (fun l => (l, RByte (nth i l UNINIT)))
  | OHeldPop v i => vmember a v (fun l => (removelast l, RByte (nth i l UNINIT)))
  | OCDataHeld v i j value => vmember a v (fun l => (upd l j value, RByte (nth i (upd l j value) UNINIT)))
  | ODataHeldCopy v w pos value =>
    match vvar a v, vvar a w with
    | Some l, None => (upd (upd a w (Some l)) v (Some (upd l pos value)), RUnit)
    | _, _ => (a, RPre)
    end
  | ODataHeldAssign v w pos value =>
    match vvar a v, vvar a w with
    | Some l, Some _ => (upd (upd a w (Some l)) v (Some (upd l pos value)), RUnit)
    | _, _ => (a, RPre)
    end
  end.

(* the operations std::vector defines: object lifetimes respected, indices inside the vector *)
Definition op_pre (a : vstate) (o : op) : bool :=
  let live v := match vvar a v with Some _ => true | None => false end in
  let dead v := (v <? length a) && negb (live v) in
  let idx v pos := match vvar a v with Some l => pos <? length l | None => false end in
  match o with
  | OCtor v => dead v
  | OCtorCopy v w => dead v && live w
  | OCtorSize v n value => dead v
  | OFromHex v str => dead v
  | ODtor v => live v
  | OAssign v w | OCmp _ v w => live v && live w
  | OSet v pos value | ODataSet v pos value => idx v pos
  | OGet v pos | OGetC v pos => idx v pos
  | OPush v _ | OPop v => live v
  | OSize v | OCapacity v | OEmpty v | OData v | ODataC v | OReserve v _ | OResize v _ | OClear v => live v
  | OSet2 v i _ j _ | OSwap v i j | OGetHeld v i j | OGetHeldC v i j => idx v i && idx v j
  | OHeldPop v i => idx v (i + 1)
  | OCDataHeld v i j _ => idx v i && idx v j
  | ODataHeldCopy v w pos _ => idx v pos && dead w
  | ODataHeldAssign v w pos _ => idx v pos && live w
  end.

Fixpoint vec_run (a : vstate) (ops : list op) : vstate * list result :=
  match ops with
  | [] => (a, [])
  | o :: ops' => let '(a1, r) := vec_step a o in let '(a2, rs) := vec_run a1 ops' in (a2, r :: rs)
  end.
Fixpoint ops_pre (a : vstate) (ops : list op) : bool :=
  match ops with
  | [] => true
  | o :: ops' => op_pre a o && ops_pre (fst (vec_step a o)) ops'
  end.

(* ---- abstraction ------------------------------------------------------- *)
Definition absv (h : heap) (s : slot) : option (list N) :=
  match s with
  | Dead => None
  | Null => Some []
  | Ptr i => Some (contents h (Some i))
  end.
Definition abs (st : state) : vstate := map (absv (heap_of st)) (vars_of st).

(* results agree, except where the standard leaves the value open *)
Definition res_agree (r r' : result) : Prop := r' = RAny \/ r = r'.

(* ---- invariant ---------------------------------------------------------- *)
Definition slot_eqb (s t : slot) : bool :=
  match s, t with Dead, Dead => true | Null, Null => true | Ptr i, Ptr j => i =? j | _, _ => false end.
(* number of variables whose p is block i *)
Fixpoint holders (vs : list slot) (i : nat) : nat :=
  match vs with
  | [] => 0
  | s :: vs' => (if slot_eqb s (Ptr i) then 1 else 0) + holders vs' i
  end.
Definition blk_ok (b : block) : Prop := b_size b <= b_cap b /\ length (b_data b) = b_cap b.
(* every live block is referenced by exactly b_ref >= 1 variables (so: counts are exact, nothing
   leaks), is well formed; a variable never points to a deleted or never-allocated block *)
Definition Inv (st : state) : Prop :=
  forall i, match hget (heap_of st) i with
            | Some b => b_ref b = holders (vars_of st) i /\ 1 <= b_ref b /\ blk_ok b
            | None => holders (vars_of st) i = 0
            end.

(* operations whose model is free of the known defects under configuration c
   (== and != are right in every configuration: cmp is zero exactly for equal arrays) *)
Definition op_safe (c : cfg) (o : op) : bool :=
  match o with
  | OResize _ _ => c_fix_resize c
  | OCmp CEq _ _ | OCmp CNe _ _ => true
  | OCmp _ _ _ => c_fix_cmp c
  | OFromHex _ _ => c_fix_hex c
  | OSet2 _ _ _ _ _ | OSwap _ _ _ | OGetHeld _ _ _ | OGetHeldC _ _ _ | OHeldPop _ _ => c_fix_index c
  | ODataHeldCopy _ _ _ _ | ODataHeldAssign _ _ _ _ => c_fix_leak c
  | OCDataHeld _ _ _ _ => c_fix_index c && c_fix_leak c
  | _ => true
  end.
(* the operations in which a reference or pointer is held across another operation *)
Definition op_held (o : op) : bool :=
  match o with
  | OSet2 _ _ _ _ _ | OSwap _ _ _ | OGetHeld _ _ _ | OGetHeldC _ _ _ | OHeldPop _ _
  | ODataHeldCopy _ _ _ _ | ODataHeldAssign _ _ _ _ | OCDataHeld _ _ _ _ => true
  | _ => false
  end.

(* the selected instances (what /repo has now, per Model/C20Config.v) *)
Definition cpp_from_hex : list N -> list N := cpp_from_hex_gen fix_hex_helper.
Definition ba_step : state -> op -> state * result := step cfg_selected.
