(* C12, kernel clause: the shape of the verdict table that tools/kern_bounds.py
   regenerates from /repo on every run (coq/Gen/Bounds.v), and the predicate
   that Props/Properties_C12.v re-checks over it.

   One entry = one symbolic run of one function of the masked-word / masked
   state / masked key toolkit (or masked permutation) in one configuration
   (source file + ASCON_MASKED_MAX_SHARES) for one value of its small control
   arguments, with memory regions sized exactly as the C types say.  The
   run's data is symbolic, so a verdict covers all data values.

   The stuck semantics (an access outside its region, a read of
   uninitialised memory, a shift by >= the width, an alignment assumption on
   a byte buffer, a data-dependent address or branch) lives in the Python
   executor (tools/symx.py, llvmx.py, asm_x86.py, kern_bounds.py), NOT in
   Coq: what Coq checks is that the regenerated table contains no stuck
   verdict on valid arguments. *)
From Coq Require Import List NArith String Bool.
Import ListNotations.

Inductive stuck_kind := KOob | KUninit | KShift | KAlign | KNull | KDataDep | KOther.

Inductive verdict :=
| VOk (footprint : string)                  (* not stuck; the written byte ranges per region, for the reader *)
| VStuck (k : stuck_kind) (msg : string).

Record bentry := mk_bentry {
  be_config : string;                       (* e.g. "word-c64/max3" *)
  be_function : string;
  be_args : list (string * N);              (* the control arguments of this run *)
  be_valid : bool;                          (* are these arguments inside the documented / used range? *)
  be_verdict : verdict }.

Definition verdict_ok (v : verdict) : bool := match v with VOk _ => true | VStuck _ _ => false end.

(* an entry is fine when the run was not stuck, or the arguments are an
   out-of-contract probe (size = 8 for replace/pad, first_round = 13 ...) *)
Definition entry_ok (e : bentry) : bool := negb (be_valid e) || verdict_ok (be_verdict e).

(* the pinned defect the table is known to contain until fixes/C12-masked-word-x3-zero.patch is applied *)
Definition is_x3_zero_max3 (e : bentry) : bool :=
  (String.eqb (be_function e) "ascon_masked_word_x3_zero" && String.eqb (be_config e) "word-c64/max3")%bool.

Definition entry_ok_cfg (fixed : bool) (e : bentry) : bool :=
  entry_ok e || (negb fixed && is_x3_zero_max3 e).

Lemma entry_ok_cfg_true e : entry_ok_cfg true e = entry_ok e.
Proof. unfold entry_ok_cfg. cbn. apply orb_false_r. Qed.

Lemma forallb_cfg_true l : forallb (entry_ok_cfg true) l = forallb entry_ok l.
Proof. induction l as [|e l IH]; cbn [forallb]; [reflexivity|]. rewrite IH, entry_ok_cfg_true. reflexivity. Qed.

(* the configurations a table must mention to be non-trivial *)
Definition has_config (l : list bentry) (c : string) : bool := existsb (fun e => String.eqb (be_config e) c) l.
