(* C12, kernel clause: the shape of the verdict table that tools/kern_bounds.py
   regenerates from /repo on every run (coq/Gen/Bounds.v), and the predicate
   that Props/Properties_C12.v re-checks over it.

   One entry = one symbolic run of one function of the masked-word / masked
   state / masked key toolkit (or masked permutation) in one configuration
   (source file + ASCON_MASKED_MAX_SHARES) for one value of its small control
   arguments, with memory regions sized exactly as the C types say.  The
   run's data is symbolic, so a verdict covers all data values.

   The stuck semantics (an access outside its region, a read of
   uninitialised memory, a shift by >= the width, an alignment assumption on
   a byte buffer, a data-dependent address or branch) lives in the Python
   executor (tools/symx.py, llvmx.py, asm_x86.py, kern_bounds.py), NOT in
   Coq: what Coq checks is that the regenerated table contains no stuck
   verdict on valid arguments. *)
From Coq Require Import List NArith String Bool.
Import ListNotations.

Inductive stuck_kind := KOob | KUninit | KShift | KAlign | KNull | KDataDep | KOther.

Inductive verdict :=
| VOk (footprint : string)                  (* not stuck; the written byte ranges per region, for the reader *)
| VStuck (k : stuck_kind) (msg : string).

Record bentry := mk_bentry {
  be_config : string;                       (* e.g. "word-c64/max3" *)
  be_function : string;
  be_args : list (string * N);              (* the control arguments of this run *)
  be_valid : bool;                          (* are these arguments inside the documented / used range? *)
  be_verdict : verdict }.

Definition verdict_ok (v : verdict) : bool := match v with VOk _ => true | VStuck _ _ => false end.

(* ---- which calls are within contract: decided HERE, not by the generator ------------------------------------
   [be_valid] is the generator's opinion (lib/p_c12.py reports from it); the theorems use [in_contract], which
   mirrors the documentation of src/masking/ascon-masked-word.h and ascon-masked-state.h:
     ascon_masked_word_xN_load_partial   "size Number of bytes to load between 1 and 7"
     ascon_masked_word_xN_store_partial  size 0..7 (8 bytes are stored with ascon_masked_word_xN_store)
     ascon_masked_word_xN_replace        size 0..7 ("number of bytes from the top of the masked word to copy";
                                         the callers pass the length of a partial block)
     ascon_masked_word_pad               "offset Offset of the padding marker (0 to 7)"
     ascon_xN_permute                    first_round 0..12 (documented "between 0 and 11"; 12 = no round, used by tests)
   Every other function has no integer argument (the keys of their argument records - alias, null - select a
   calling shape that is always allowed).  A function this predicate does not know, or a record without the
   expected key, is IN contract: its run must not be stuck. *)
Local Open Scope string_scope.
Definition ends_with (suffix s : string) : bool :=
  let ls := String.length s in let lf := String.length suffix in
  Nat.leb lf ls && String.eqb (substring (ls - lf) lf s) suffix.
Fixpoint arg_of (k : string) (args : list (string * N)) : option N :=
  match args with [] => None | (k', v) :: r => if String.eqb k k' then Some v else arg_of k r end.
Definition arg_between (k : string) (lo hi : N) (args : list (string * N)) : bool :=
  match arg_of k args with Some v => N.leb lo v && N.leb v hi | None => true end.
Definition in_contract (fn : string) (args : list (string * N)) : bool :=
  if ends_with "_load_partial" fn then arg_between "size" 1 7 args
  else if ends_with "_store_partial" fn then arg_between "size" 0 7 args
  else if ends_with "_replace" fn then arg_between "size" 0 7 args
  else if String.eqb fn "ascon_masked_word_pad" then arg_between "offset" 0 7 args
  else if ends_with "_permute" fn then arg_between "first_round" 0 12 args
  else true.
Local Close Scope string_scope.

(* an entry is fine when the run was not stuck, or the arguments are an
   out-of-contract probe (size = 8 for replace/pad, first_round = 13 ...) *)
Definition entry_ok (e : bentry) : bool := negb (in_contract (be_function e) (be_args e)) || verdict_ok (be_verdict e).
(* the generator's flag agrees with the predicate (so that what lib/p_c12.py reports from build/bounds.json is
   what the theorem is about) *)
Definition valid_flag_ok (e : bentry) : bool := Bool.eqb (be_valid e) (in_contract (be_function e) (be_args e)).

(* the pinned defect the table is known to contain until fixes/C12-masked-word-x3-zero.patch is applied *)
Definition is_x3_zero_max3 (e : bentry) : bool :=
  (String.eqb (be_function e) "ascon_masked_word_x3_zero" && String.eqb (be_config e) "word-c64/max3")%bool.

Definition entry_ok_cfg (fixed : bool) (e : bentry) : bool :=
  entry_ok e || (negb fixed && is_x3_zero_max3 e).

Lemma entry_ok_cfg_true e : entry_ok_cfg true e = entry_ok e.
Proof. unfold entry_ok_cfg. cbn. apply orb_false_r. Qed.

Lemma forallb_cfg_true l : forallb (entry_ok_cfg true) l = forallb entry_ok l.
Proof. induction l as [|e l IH]; cbn [forallb]; [reflexivity|]. rewrite IH, entry_ok_cfg_true. reflexivity. Qed.

(* the configurations a table must mention to be non-trivial *)
Definition has_config (l : list bentry) (c : string) : bool := existsb (fun e => String.eqb (be_config e) c) l.
