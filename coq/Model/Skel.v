(* Model/Skel.v - event skeletons of the library's functions and the
   acquire/release balance checker of src/core/ascon-direct-xor.c
   (ASCON_CHECK_ACQUIRE_RELEASE, cmake -DCHECK_ACQUIRE_RELEASE=ON).

   The checker is ONE global flag:  ascon_init and ascon_acquire require it
   clear and set it, ascon_release and ascon_free require it set and clear
   it, anything else prints "acquire and release operations are not balanced"
   and aborts.

   tools/skeleton.py reads every function of the library from clang's AST and
   keeps only its control-flow structure restricted to those four events, to
   calls through function pointers (application callbacks, event ECallback)
   and to calls of other library functions that have a skeleton themselves.
   This file gives the skeleton language, its trace semantics (every path the
   C code can take is a path of the skeleton: both branches of every
   condition are possible, loops run any number of times), the checker
   automaton, and an executable analysis [post] over the two-element flag
   domain.  Soundness of the analysis is in Proofs/SkelP.v. *)
From Coq Require Import String List Bool.
Import ListNotations.

(* ------------------------------------------------------------------ *)
(* events and the checker automaton *)

Inductive ev := EInit | EAcquire | ERelease | EFree | ECallback.

Inductive flag := Clear | Held.

(* [None] = the checker aborts.  A callback into application code
   (storage->read / storage->write) is required to happen with the flag
   clear: the callback may then itself call any balanced library function. *)
Definition step (q : flag) (e : ev) : option flag :=
  match e, q with
  | EInit, Clear | EAcquire, Clear => Some Held
  | ERelease, Held | EFree, Held => Some Clear
  | ECallback, Clear => Some Clear
  | _, _ => None
  end.

Fixpoint exec (q : flag) (t : list ev) : option flag :=
  match t with
  | [] => Some q
  | e :: t' => match step q e with Some q' => exec q' t' | None => None end
  end.

(* ------------------------------------------------------------------ *)
(* skeletons *)

Inductive sk :=
| SSkip
| SEv (e : ev)
| SCall (f : string)
| SSeq (a b : sk)
| SAlt (a b : sk)          (* either branch *)
| SRep (body : sk)         (* repeat body for ever; left only by break / return *)
| SCatchB (body : sk)      (* body; a break inside ends it normally (switch, loop exit) *)
| SCatchC (body : sk)      (* body; a continue inside ends it normally (do-while / for bodies) *)
| SRet | SBreak | SContinue.

(* how the translator encodes C:
     while (c) B          SRep (c ; (SBreak | SSkip) ; B)
     do B while (c)       SRep (SCatchC B ; c ; (SBreak | SSkip))
     for (i; c; n) B      i ; SRep (c ; (SBreak | SSkip) ; SCatchC B ; n)
     if (c) A else B      c ; (A | B)
     a && b, a || b       a ; (SSkip | b)
     c ? a : b            c ; (a | b)
     switch (c) {..}      c ; SCatchB (entry_1 | ... | entry_n [| SSkip when there is no default])
     return e             e ; SRet
   (a loop condition that is an integer literal is decided: do .. while (0) runs
   its body once, for (;;) has no exit at the head)                                *)

Definition table := list (string * sk).

Fixpoint lookup {A} (T : list (string * A)) (f : string) : option A :=
  match T with
  | [] => None
  | (g, b) :: T' => if String.eqb f g then Some b else lookup T' f
  end.

(* ------------------------------------------------------------------ *)
(* trace semantics.  [run T s t o]: statement s can perform the events t and
   then be in situation o.  OStop = "execution is somewhere in the middle"
   (so every prefix of every execution, also of executions that never end, is
   a trace). *)

Inductive out := ONorm | ORet | OBrk | OCnt | OStop.

Definition continues (o : out) : bool := match o with ONorm | OCnt => true | _ => false end.

Inductive run (T : table) : sk -> list ev -> out -> Prop :=
| r_stop   : forall s, run T s [] OStop
| r_skip   : run T SSkip [] ONorm
| r_ev     : forall e, run T (SEv e) [e] ONorm
| r_call   : forall f b t o, lookup T f = Some b -> run T b t o ->
             run T (SCall f) t (match o with OStop => OStop | _ => ONorm end)
| r_seq1   : forall a b t o, run T a t o -> o <> ONorm -> run T (SSeq a b) t o
| r_seq2   : forall a b t1 t2 o, run T a t1 ONorm -> run T b t2 o -> run T (SSeq a b) (t1 ++ t2) o
| r_altl   : forall a b t o, run T a t o -> run T (SAlt a b) t o
| r_altr   : forall a b t o, run T b t o -> run T (SAlt a b) t o
| r_rep_out : forall b t o, run T b t o -> continues o = false ->
             run T (SRep b) t (match o with OBrk => ONorm | _ => o end)
| r_rep_go : forall b t1 t2 o1 o, run T b t1 o1 -> continues o1 = true -> run T (SRep b) t2 o ->
             run T (SRep b) (t1 ++ t2) o
| r_catchb : forall b t o, run T b t o -> run T (SCatchB b) t (match o with OBrk => ONorm | _ => o end)
| r_catchc : forall b t o, run T b t o -> run T (SCatchC b) t (match o with OCnt => ONorm | _ => o end)
| r_ret    : run T SRet [] ORet
| r_brk    : run T SBreak [] OBrk
| r_cnt    : run T SContinue [] OCnt.

(* ------------------------------------------------------------------ *)
(* what is proved about functions *)

(* every path of f started with the flag clear never aborts, and every path
   that reaches the end of f ends with the flag clear *)
Definition api_balanced (T : table) (f : string) : Prop :=
  exists b, lookup T f = Some b /\
  forall t o, run T b t o -> exists q, exec Clear t = Some q /\ (o <> OStop -> q = Clear).

(* sets of flags *)
Record fs := mkfs { has_clear : bool; has_held : bool }.
Definition fs_empty := mkfs false false.
Definition fs_full := mkfs true true.
Definition fs_one (q : flag) := match q with Clear => mkfs true false | Held => mkfs false true end.
Definition fs_mem (q : flag) (x : fs) : bool := match q with Clear => has_clear x | Held => has_held x end.
Definition fs_union (x y : fs) := mkfs (has_clear x || has_clear y) (has_held x || has_held y).
Definition fs_sub (x y : fs) : bool := implb (has_clear x) (has_clear y) && implb (has_held x) (has_held y).
Definition fs_eqb (x y : fs) : bool := Bool.eqb (has_clear x) (has_clear y) && Bool.eqb (has_held x) (has_held y).

(* behaviour of a function for one entry flag: possible flags at its end, and
   whether some path aborts *)
Record beh := mkbeh { exits : fs; aborts : bool }.
Definition beh_top := mkbeh fs_full true.
Definition beh_bot := mkbeh fs_empty false.
Definition beh_union (x y : beh) := mkbeh (fs_union (exits x) (exits y)) (aborts x || aborts y).
Definition beh_sub (x y : beh) : bool := fs_sub (exits x) (exits y) && implb (aborts x) (aborts y).
Definition beh_eqb (x y : beh) : bool := fs_eqb (exits x) (exits y) && Bool.eqb (aborts x) (aborts y).

(* a function's summary: behaviour when entered clear, when entered held *)
Record summary := mksum { on_clear : beh; on_held : beh }.
Definition sum_at (s : summary) (q : flag) := match q with Clear => on_clear s | Held => on_held s end.

(* [has_beh T f q b]: a contract - entered with flag q, f never aborts (when
   b says so) and ends in one of the flags of b *)
Definition has_beh (T : table) (f : string) (q : flag) (b : beh) : Prop :=
  exists body, lookup T f = Some body /\
  (aborts b = false ->
   forall t o, run T body t o -> exists q', exec q t = Some q' /\ (o <> OStop -> fs_mem q' (exits b) = true)).

Definition has_summary (T : table) (f : string) (s : summary) : Prop :=
  has_beh T f Clear (on_clear s) /\ has_beh T f Held (on_held s).

(* ------------------------------------------------------------------ *)
(* the analysis *)

Record res := mkres { p_norm : fs; p_ret : fs; p_brk : fs; p_cnt : fs; p_ab : bool }.
Definition res_bot := mkres fs_empty fs_empty fs_empty fs_empty false.
Definition res_top := mkres fs_full fs_full fs_full fs_full true.
Definition res_union (x y : res) :=
  mkres (fs_union (p_norm x) (p_norm y)) (fs_union (p_ret x) (p_ret y)) (fs_union (p_brk x) (p_brk y))
        (fs_union (p_cnt x) (p_cnt y)) (p_ab x || p_ab y).

Definition sums := list (string * summary).

Definition ev_res (e : ev) (i : fs) : res :=
  let on q := if fs_mem q i then
                match step q e with
                | Some q' => mkres (fs_one q') fs_empty fs_empty fs_empty false
                | None => mkres fs_empty fs_empty fs_empty fs_empty true
                end
              else res_bot in
  res_union (on Clear) (on Held).

Definition call_res (S : sums) (f : string) (i : fs) : res :=
  match lookup S f with
  | None => res_top
  | Some s =>
      let on q := if fs_mem q i then let b := sum_at s q in mkres (exits b) fs_empty fs_empty fs_empty (aborts b)
                  else res_bot in
      res_union (on Clear) (on Held)
  end.

Section Post.
  Variable S : sums.

  (* head states of a repetition: least X with  i <= X  and  norm/cnt (post body X) <= X;
     the domain has two elements, so three rounds reach it (checked, not assumed) *)
  Definition rep_next (pb : fs -> res) (i x : fs) : fs :=
    let r := pb x in fs_union (fs_union i x) (fs_union (p_norm r) (p_cnt r)).

  Definition rep_head (pb : fs -> res) (i : fs) : fs :=
    rep_next pb i (rep_next pb i (rep_next pb i i)).

  Fixpoint post (s : sk) (i : fs) : res :=
    match s with
    | SSkip => mkres i fs_empty fs_empty fs_empty false
    | SEv e => ev_res e i
    | SCall f => call_res S f i
    | SSeq a b =>
        let ra := post a i in
        let rb := post b (p_norm ra) in
        mkres (p_norm rb) (fs_union (p_ret ra) (p_ret rb)) (fs_union (p_brk ra) (p_brk rb))
              (fs_union (p_cnt ra) (p_cnt rb)) (p_ab ra || p_ab rb)
    | SAlt a b => res_union (post a i) (post b i)
    | SRep b =>
        let h := rep_head (post b) i in
        if fs_eqb (rep_next (post b) i h) h then
          let r := post b h in
          mkres (p_brk r) (p_ret r) fs_empty fs_empty (p_ab r)
        else res_top
    | SCatchB b => let r := post b i in mkres (fs_union (p_norm r) (p_brk r)) (p_ret r) fs_empty (p_cnt r) (p_ab r)
    | SCatchC b => let r := post b i in mkres (fs_union (p_norm r) (p_cnt r)) (p_ret r) (p_brk r) fs_empty (p_ab r)
    | SRet => mkres fs_empty i fs_empty fs_empty false
    | SBreak => mkres fs_empty fs_empty i fs_empty false
    | SContinue => mkres fs_empty fs_empty fs_empty i false
    end.

  (* behaviour of a whole function body: whatever way it ends *)
  Definition body_beh (b : sk) (q : flag) : beh :=
    let r := post b (fs_one q) in
    mkbeh (fs_union (fs_union (p_norm r) (p_ret r)) (fs_union (p_brk r) (p_cnt r))) (p_ab r).

  Definition body_sum (b : sk) : summary := mksum (body_beh b Clear) (body_beh b Held).
End Post.

(* summaries of a table given callees-first *)
Definition summarize (T : table) : sums :=
  fold_left (fun S fb => (fst fb, body_sum S (snd fb)) :: S) T [].

(* the summaries are an inductive invariant of the whole table: re-analysing
   every body with the FULL summary list stays within its summary.  (This is
   what soundness needs; it holds for [summarize T] when T lists callees first
   and has no duplicate names, but it is checked, not assumed.) *)
Definition sum_sub (x y : summary) : bool := beh_sub (on_clear x) (on_clear y) && beh_sub (on_held x) (on_held y).

Definition inductive_ok (T : table) (S : sums) : bool :=
  forallb (fun fb => match lookup S (fst fb) with
                     | Some s => sum_sub (body_sum S (snd fb)) s
                     | None => false
                     end) T.

(* call-graph sanity, checked in Coq as well as by the translator: every call
   in a body goes to a function listed EARLIER (so the call graph is acyclic and
   closed), and no name is defined twice *)
Fixpoint calls_in (s : sk) : list string :=
  match s with
  | SCall f => [f]
  | SSeq a b | SAlt a b => calls_in a ++ calls_in b
  | SRep b | SCatchB b | SCatchC b => calls_in b
  | _ => []
  end.

Definition mem_str (f : string) (l : list string) : bool := existsb (String.eqb f) l.

Fixpoint ordered_from (seen : list string) (T : table) : bool :=
  match T with
  | [] => true
  | (f, b) :: T' => negb (mem_str f seen) && forallb (fun g => mem_str g seen) (calls_in b) && ordered_from (f :: seen) T'
  end.

Definition acyclic_ok (T : table) : bool := ordered_from [] T.

Definition balanced_beh : beh := mkbeh (mkfs true false) false.

Definition balanced_in (S : sums) (f : string) : bool :=
  match lookup S f with Some s => beh_eqb (on_clear s) balanced_beh | None => false end.

(* the whole check of one configuration; [exc] = public functions whose
   documented contract is not "clear on entry, clear on return" (listed by hand
   in Props/Properties_C09_skel.v together with their behaviour) *)
Definition defined_in (T : table) (f : string) : bool := match lookup T f with Some _ => true | None => false end.

Definition check_with (T : table) (S : sums) (pub exc : list string) : bool :=
  acyclic_ok T && inductive_ok T S && forallb (fun f => mem_str f exc || (defined_in T f && balanced_in S f)) pub.

Definition check_public (T : table) (pub exc : list string) : bool := check_with T (summarize T) pub exc.

Definition contracts_part (T : table) (S : sums) (cs : list (string * summary)) : bool :=
  forallb (fun fc => match lookup S (fst fc), lookup T (fst fc) with
                     | Some s, Some _ => sum_sub s (snd fc)
                     | None, None => true          (* function not present in this configuration *)
                     | _, _ => false
                     end) cs.

Definition check_contracts (T : table) (cs : list (string * summary)) : bool :=
  let S := summarize T in inductive_ok T S && contracts_part T S cs.

(* ------------------------------------------------------------------ *)
(* replay of a concrete path (branch choices), used for refutations and by
   the seeded-change self test *)

Inductive choice := CL | CR.

Fixpoint replay (T : table) (fuel : nat) (s : sk) (cs : list choice) : option (list ev * out * list choice) :=
  match fuel with
  | O => None
  | Datatypes.S n =>
    match s with
    | SSkip => Some ([], ONorm, cs)
    | SEv e => Some ([e], ONorm, cs)
    | SCall f =>
        match lookup T f with
        | Some b => match replay T n b cs with
                    | Some (t, o, cs') => Some (t, match o with OStop => OStop | _ => ONorm end, cs')
                    | None => None
                    end
        | None => None
        end
    | SSeq a b =>
        match replay T n a cs with
        | Some (t1, ONorm, cs1) =>
            match replay T n b cs1 with
            | Some (t2, o, cs2) => Some (t1 ++ t2, o, cs2)
            | None => None
            end
        | r => r
        end
    | SAlt a b =>
        match cs with
        | CL :: cs' => replay T n a cs'
        | CR :: cs' => replay T n b cs'
        | [] => Some ([], OStop, [])        (* no choice left: the path stops here *)
        end
    | SRep b =>
        match replay T n b cs with
        | Some (t1, o1, cs1) =>
            if continues o1 then
              match replay T n (SRep b) cs1 with
              | Some (t2, o, cs2) => Some (t1 ++ t2, o, cs2)
              | None => None
              end
            else Some (t1, match o1 with OBrk => ONorm | _ => o1 end, cs1)
        | None => None
        end
    | SCatchB b =>
        match replay T n b cs with
        | Some (t, o, cs') => Some (t, match o with OBrk => ONorm | _ => o end, cs')
        | None => None
        end
    | SCatchC b =>
        match replay T n b cs with
        | Some (t, o, cs') => Some (t, match o with OCnt => ONorm | _ => o end, cs')
        | None => None
        end
    | SRet => Some ([], ORet, cs)
    | SBreak => Some ([], OBrk, cs)
    | SContinue => Some ([], OCnt, cs)
    end
  end.

(* a path through f from the clear flag that aborts, or ends with the flag held *)
Definition bad_path (T : table) (fuel : nat) (f : string) (cs : list choice) : bool :=
  match lookup T f with
  | Some b =>
      match replay T fuel b cs with
      | Some (t, o, _) =>
          match exec Clear t with
          | None => true
          | Some Held => match o with OStop => false | _ => true end
          | Some Clear => false
          end
      | None => false
      end
  | None => false
  end.

(* ------------------------------------------------------------------ *)
(* one build configuration as emitted by tools/skeleton.py *)

Record config := mkconfig {
  cfg_name : string;
  cfg_key : nat; cfg_data : nat; cfg_max : nat;       (* masking shares *)
  cfg_table : table;                                  (* callees first *)
  cfg_public : list string;                           (* every function declared in src/ascon/STAR.h that has a skeleton *)
  cfg_unbalanced : list (string * list choice)        (* public functions whose computed behaviour from the clear flag is not
                                                         "no abort, ends clear", each with one offending path *)
}.
