(* C12, length-arithmetic clause: index-level models.

   The functions below are the ones of /repo whose memory safety is a matter
   of length arithmetic (not of bit manipulation): every buffer is an object
   with an explicit size (or a null pointer), every access the C performs is
   a [chk] that returns [None] when it leaves its object, writes a read-only
   object, or hands a null pointer to a libc routine.  The models mirror the
   control structure and the integer types of the C (unsigned / size_t
   subtractions are written with their wrap-around), so "the model never
   returns None for valid arguments" is the statement "the arithmetic of the
   C never produces an out-of-range index".

   Declared sizes are the DOCUMENTED ranges: a destination of [len] bytes is
   declared with exactly [len] bytes, the sponge state with exactly [rate]
   bytes where only the rate part may be touched, so "in bounds" and "inside
   the documented output range" coincide.

   What is modelled (file, function):
     src/aead/ascon-aead-common.c   ascon_aead_encrypt_8/16, ascon_aead_decrypt_8/16 (one shape), ascon_aead_absorb_8/16
     src/hash/ascon-xof.c, ascon-xofa.c, src/mac/ascon-prf.c
                                    *_absorb, *_squeeze (one shape, rate 8 / 32 / 16)
     src/mac/ascon-hmac-common.h    *_absorb_key (32-byte temp, 64-byte block)
     src/kdf/ascon-hkdf-common.h    *_expand
     apps/asconcrypt/asconcrypt.c   is_encrypted_filename, strip_suffix, add_suffix, the use main() makes of them,
                                    the -p password copy, read_keyfile, the sliding window of decrypt_file,
                                    the read loop of encrypt_file
     apps/asconsum/asconsum.c       the line parser of check_file
   The flag [fix] of the command-line name functions selects the code as
   pinned ([false]) or after fixes/C12-asconcrypt-filenames.patch ([true]);
   the selected instance is Model/C12Config.v. *)
From Coq Require Import List NArith Lia Bool.
Import ListNotations.
Local Open Scope N_scope.

(* ------------------------------------------------------------------ memory objects *)
(* object id -> None (a null pointer) | Some (size in bytes, writable?) *)
Definition sizes := N -> option (N * bool).

Inductive kind := Direct      (* a load/store or a loop of them in the library's own code *)
                | LibC.       (* a pointer handed to memcpy/memmove/memset/strncpy/snprintf/read/write *)
Inductive rw := R | W.

Definition chk (sz : sizes) (k : kind) (m : rw) (b off len : N) : option unit :=
  match sz b with
  | Some (s, wr) =>
      if (off + len <=? s) && (match m with R => true | W => wr end) then Some tt else None
  | None =>
      (* a null pointer: harmless only when the library's own code touches zero bytes through it *)
      match k with Direct => if len =? 0 then Some tt else None | LibC => None end
  end.

Notation "a ;; b" := (match a with Some _ => b | None => None end) (at level 61, right associativity).

(* machine integers *)
Definition two32 : N := 4294967296.
Definition two64 : N := 18446744073709551616.
Definition w32 (x : N) : N := x mod two32.
Definition sub32 (a b : N) : N := (a + two32 - b mod two32) mod two32.      (* unsigned a - b *)
Definition sub64 (a b : N) : N := (a + two64 - b mod two64) mod two64.      (* size_t a - b *)
Definition u8 (x : N) : N := x mod 256.
Definition strlen (s : list N) : N := N.of_nat (length s).

(* ------------------------------------------------------------------ AEAD: partial / full blocks / tail *)
Definition STATE : N := 0.
Definition SRC : N := 1.
Definition DST : N := 2.

(* ascon_encrypt_partial / ascon_decrypt_partial (state, dest + pos, src + pos, soff, len) *)
Definition crypt_partial (sz : sizes) (pos soff len : N) : option unit :=
  chk sz Direct W STATE soff len ;; chk sz Direct R SRC pos len ;; chk sz Direct W DST pos len.

(* while (len >= r) { crypt_r(state, dest, src, 0); dest += r; src += r; len -= r; } *)
Fixpoint crypt_blocks (sz : sizes) (r : N) (fuel : nat) (pos len : N) : option (N * N) :=
  match fuel with
  | O => None
  | S f => if r <=? len then crypt_partial sz pos 0 r ;; crypt_blocks sz r f (pos + r) (len - r)
           else Some (pos, len)
  end.

Definition crypt_tail (sz : sizes) (r pos len : N) : option N :=
  match crypt_blocks sz r (S (N.to_nat (len / r))) pos len with
  | Some (pos', len') => (if 0 <? len' then crypt_partial sz pos' 0 len' else Some tt) ;; Some (u8 len')
  | None => None
  end.

(* ascon_aead_encrypt_8/_16, ascon_aead_decrypt_8/_16: returns the new `partial` *)
Definition aead_crypt (sz : sizes) (r len partial : N) : option N :=
  if partial =? 0 then crypt_tail sz r 0 len
  else
    let temp := sub32 r partial in                     (* size_t temp = 8U - partial; *)
    if len <? temp then crypt_partial sz 0 partial len ;; Some (u8 (partial + len))
    else crypt_partial sz 0 partial temp ;; crypt_tail sz r temp (len - temp).

(* ascon_aead_absorb_8/_16: full blocks, partial block, ascon_pad(state, len) *)
Definition absorb_partial (sz : sizes) (b pos soff len : N) : option unit :=
  chk sz Direct W STATE soff len ;; chk sz Direct R b pos len.

Fixpoint absorb_blocks (sz : sizes) (b r : N) (fuel : nat) (pos len : N) : option (N * N) :=
  match fuel with
  | O => None
  | S f => if r <=? len then absorb_partial sz b pos 0 r ;; absorb_blocks sz b r f (pos + r) (len - r)
           else Some (pos, len)
  end.

Definition aead_absorb (sz : sizes) (r len : N) : option unit :=
  match absorb_blocks sz SRC r (S (N.to_nat (len / r))) 0 len with
  | Some (pos', len') =>
      (if 0 <? len' then absorb_partial sz SRC pos' 0 len' else Some tt) ;;
      chk sz Direct W STATE len' 1                      (* ascon_pad(state, len) *)
  | None => None
  end.

(* ------------------------------------------------------------------ XOF / HASH / PRF: absorb and squeeze with `count` and `mode` *)
Definition IOB : N := 1.      (* `in` resp. `out` *)

(* ascon_xof_absorb (rate 8), ascon_prf_absorb (rate 32): returns the new (count, mode) *)
Definition sponge_absorb (sz : sizes) (r count mode inlen : N) : option (N * N) :=
  let count := if mode =? 0 then count else 0 in
  let tail pos len :=
    match absorb_blocks sz IOB r (S (N.to_nat (len / r))) pos len with
    | Some (pos', len') =>
        let temp := w32 len' in                         (* temp = (unsigned)inlen; *)
        (if 0 <? temp then absorb_partial sz IOB pos' 0 temp else Some tt) ;; Some (u8 temp, 0)
    | None => None
    end in
  if count =? 0 then tail 0 inlen
  else
    let temp := sub32 r count in                        (* temp = RATE - state->count; *)
    if inlen <? temp then
      let temp := w32 inlen in
      absorb_partial sz IOB 0 count temp ;; Some (u8 (count + temp), 0)
    else absorb_partial sz IOB 0 count temp ;; tail temp (inlen - temp).

(* squeeze: the state is read, `out` is written *)
Definition squeeze_partial (sz : sizes) (pos soff len : N) : option unit :=
  chk sz Direct R STATE soff len ;; chk sz Direct W IOB pos len.

Fixpoint squeeze_blocks (sz : sizes) (r : N) (fuel : nat) (pos len : N) : option (N * N) :=
  match fuel with
  | O => None
  | S f => if r <=? len then squeeze_partial sz pos 0 r ;; squeeze_blocks sz r f (pos + r) (len - r)
           else Some (pos, len)
  end.

Definition sponge_squeeze (sz : sizes) (r count mode outlen : N) : option (N * N) :=
  (if mode =? 0 then chk sz Direct W STATE count 1 else Some tt) ;;      (* ascon_pad(state, count) *)
  let count := if mode =? 0 then 0 else count in
  let tail pos len :=
    match squeeze_blocks sz r (S (N.to_nat (len / r))) pos len with
    | Some (pos', len') =>
        let temp := w32 len' in
        (if 0 <? len' then squeeze_partial sz pos' 0 temp ;; Some (u8 temp, 1) else Some (0, 1))
    | None => None
    end in
  if count =? 0 then tail 0 outlen
  else
    let temp := sub32 r count in
    if outlen <? temp then
      let temp := w32 outlen in
      squeeze_partial sz 0 count temp ;; Some (u8 (count + temp), 1)
    else squeeze_partial sz 0 count temp ;; tail temp (outlen - temp).

(* ------------------------------------------------------------------ HMAC: *_absorb_key *)
Definition KEY : N := 1.
Definition TEMP : N := 2.
Definition HASH_SIZE : N := 32.
Definition BLOCK_SIZE : N := 64.

(* while (posn < keylen) { len = min(keylen - posn, 32); xor_pad(temp, key + posn, len, pad); update(temp, len); posn += len; } *)
Fixpoint hmac_key_chunks (sz : sizes) (fuel : nat) (posn keylen : N) : option N :=
  match fuel with
  | O => None
  | S f =>
      if posn <? keylen then
        let len := keylen - posn in
        let len := if HASH_SIZE <? len then HASH_SIZE else len in
        chk sz Direct W TEMP 0 len ;; chk sz Direct R KEY posn len ;; chk sz Direct R TEMP 0 len ;;
        hmac_key_chunks sz f (posn + len) keylen
      else Some posn
  end.

(* while (posn < 64) { len = min(64 - posn, 32); update(temp, len); posn += len; } *)
Fixpoint hmac_pad_chunks (sz : sizes) (fuel : nat) (posn : N) : option unit :=
  match fuel with
  | O => None
  | S f =>
      if posn <? BLOCK_SIZE then
        let len := BLOCK_SIZE - posn in
        let len := if HASH_SIZE <? len then HASH_SIZE else len in
        chk sz Direct R TEMP 0 len ;; hmac_pad_chunks sz f (posn + len)
      else Some tt
  end.

Definition hmac_absorb_key (sz : sizes) (keylen : N) : option unit :=
  match (if keylen <=? BLOCK_SIZE then hmac_key_chunks sz 4 0 keylen
         else chk sz Direct R KEY 0 keylen ;;                   (* HASH_UPDATE(key, keylen) *)
              chk sz Direct W TEMP 0 HASH_SIZE ;;                (* HASH_FINALIZE(temp) *)
              chk sz Direct R TEMP 0 HASH_SIZE ;; chk sz Direct W TEMP 0 HASH_SIZE ;;   (* xor_pad(temp, temp, 32) *)
              chk sz Direct R TEMP 0 HASH_SIZE ;;                (* HASH_UPDATE(temp, 32) *)
              Some HASH_SIZE) with
  | Some posn =>
      chk sz LibC W TEMP 0 HASH_SIZE ;;                          (* memset(temp, pad, sizeof(temp)) *)
      hmac_pad_chunks sz 4 posn ;;
      chk sz Direct W TEMP 0 HASH_SIZE                           (* ascon_clean(temp, sizeof(temp)) *)
  | None => None
  end.

(* ------------------------------------------------------------------ HKDF: *_expand *)
Definition PRK : N := 0.
Definition SOUT : N := 1.      (* state->out *)
Definition INFO : N := 2.
Definition OUT : N := 3.
Definition HMAC_SIZE : N := 32.

(* returns (result: 0 / 1 for -1, counter, posn) *)
Fixpoint hkdf_blocks (sz : sizes) (infolen : N) (fuel : nat) (pos outlen counter posn : N) : option (N * N * N) :=
  match fuel with
  | O => None
  | S f =>
      if 0 <? outlen then
        if counter =? 0 then chk sz LibC W OUT pos outlen ;; Some (1, counter, posn)    (* memset(out, 0, outlen); return -1 *)
        else
          chk sz Direct R PRK 0 HMAC_SIZE ;;
          (if counter =? 1 then Some tt else chk sz Direct R SOUT 0 HMAC_SIZE) ;;
          chk sz Direct R INFO 0 infolen ;;
          chk sz Direct W SOUT 0 HMAC_SIZE ;;
          let counter := u8 (counter + 1) in
          let len := if outlen <? HMAC_SIZE then outlen else HMAC_SIZE in
          chk sz LibC W OUT pos len ;; chk sz LibC R SOUT 0 len ;;                      (* memcpy(out, state->out, len) *)
          hkdf_blocks sz infolen f (pos + len) (outlen - len) counter len
      else Some (0, counter, posn)
  end.

Definition hkdf_expand (sz : sizes) (infolen outlen counter posn : N) : option (N * N * N) :=
  let len := sub64 HMAC_SIZE posn in                    (* len = HKDF_HMAC_SIZE - state->posn; *)
  let len := if outlen <? len then outlen else len in
  chk sz LibC W OUT 0 len ;; chk sz LibC R SOUT posn len ;;      (* memcpy(out, state->out + state->posn, len) *)
  hkdf_blocks sz infolen (S (S (N.to_nat (outlen / HMAC_SIZE)))) len (outlen - len) counter (u8 (posn + len)).

(* ------------------------------------------------------------------ asconcrypt: derived file names *)
Definition NAME : N := 0.          (* argv[posn]: strlen + 1 bytes *)
Definition TEMPF : N := 1.         (* static char temp_filename[ASCON_BUFSIZ] *)
Definition BUFSIZ : N := 8192.

Definition dot_ascon : list N := [46; 97; 115; 99; 111; 110].
Definition dot_decrypted : list N := [46; 100; 101; 99; 114; 121; 112; 116; 101; 100].

Fixpoint list_eqb (a b : list N) : bool :=
  match a, b with
  | [], [] => true
  | x :: a', y :: b' => (x =? y) && list_eqb a' b'
  | _, _ => false
  end.

Definition has_suffix (name : list N) : bool := list_eqb (skipn (length name - 6) name) dot_ascon.

(* is_encrypted_filename: [fix = false] the code as pinned (names shorter than 6 count as encrypted) *)
Definition is_encrypted_filename (fx : bool) (sz : sizes) (name : list N) : option bool :=
  let len := strlen name in
  if 6 <=? len then chk sz LibC R NAME (len - 6) 6 ;; Some (has_suffix name)      (* strncmp(filename + len - 6, ".ascon", 6) *)
  else Some (negb fx).

(* strip_suffix: returns the length of the string left in temp_filename *)
Definition strip_suffix (fx : bool) (sz : sizes) (name : list N) : option N :=
  let len := sub64 (strlen name) 6 in                   (* size_t len = strlen(filename) - 6; *)
  let len := if BUFSIZ <=? len then (if fx then BUFSIZ - 1 else BUFSIZ) else len in
  chk sz LibC W TEMPF 0 len ;; chk sz LibC R NAME 0 len ;;        (* memcpy(temp_filename, filename, len) *)
  chk sz Direct W TEMPF len 1 ;;                                   (* temp_filename[len] = '\0' *)
  Some len.

(* add_suffix: snprintf(temp_filename, sizeof(temp_filename), "%s%s", filename, suffix) *)
Definition add_suffix (sz : sizes) (name suffix : list N) : option N :=
  let total := strlen name + strlen suffix in
  let n := if BUFSIZ - 1 <? total then BUFSIZ - 1 else total in
  chk sz LibC R NAME 0 (strlen name + 1) ;; chk sz LibC W TEMPF 0 (n + 1) ;; Some n.

Definition is_dash (name : list N) : bool := list_eqb name [45].

(* what main() does with one file argument when no -o is given:
   [explicit] = Some true (-d), Some false (-e), None (direction detected from the name) *)
Definition cli_output_name (fx : bool) (sz : sizes) (explicit : option bool) (name : list N) : option N :=
  match (match explicit with
         | Some d => Some d
         | None => is_encrypted_filename fx sz name
         end) with
  | Some true =>                                          (* MODE_DECRYPT *)
      if is_dash name then Some 0                         (* "-": opt_output = "-", no name is derived *)
      else match is_encrypted_filename fx sz name with
           | Some true => strip_suffix fx sz name
           | Some false => add_suffix sz name dot_decrypted
           | None => None
           end
  | Some false =>                                         (* MODE_ENCRYPT *)
      if is_dash name then Some 0 else add_suffix sz name dot_ascon
  | None => None
  end.

Definition name_sizes (name : list N) : sizes :=
  fun b => if b =? NAME then Some (strlen name + 1, false) else if b =? TEMPF then Some (BUFSIZ, true) else None.

(* ------------------------------------------------------------------ asconcrypt: passwords *)
Definition OPT : N := 0.
Definition PW : N := 1.            (* static char full_password[ASCON_PWSIZ] *)
Definition PWSIZ : N := 1024.

(* -p: if (strlen(opt) >= sizeof(full_password)) error; strncpy(full_password, opt, 1024); full_password[1023] = 0 *)
Definition password_opt (sz : sizes) (n : N) : option bool :=
  if PWSIZ <=? n then Some false
  else chk sz LibC W PW 0 PWSIZ ;; chk sz LibC R OPT 0 (n + 1) ;; chk sz Direct W PW (PWSIZ - 1) 1 ;; Some true.

(* -k: read_keyfile.  [content] = the bytes of the key file *)
Fixpoint scan_line (sz : sizes) (l : list N) (posn : N) : option (N * bool) :=
  match l with
  | [] => Some (posn, false)
  | c :: l' =>
      chk sz Direct R PW posn 1 ;;
      if (c =? 10) || (c =? 13) then Some (posn, false)
      else if c =? 0 then Some (posn, true)              (* "password value contains a NUL" *)
      else scan_line sz l' (posn + 1)
  end.

Definition read_keyfile (sz : sizes) (content : list N) : option bool :=
  let len := if PWSIZ <? strlen content then PWSIZ else strlen content in      (* safe_file_read(.., full_password, 1024) *)
  chk sz LibC W PW 0 PWSIZ ;;
  match scan_line sz (firstn (N.to_nat len) content) 0 with
  | Some (posn, true) => Some false
  | Some (posn, false) =>
      if (len <=? posn) && (PWSIZ <=? len) then Some false      (* no end of line: password too long *)
      else chk sz Direct W PW posn 1 ;; Some true               (* full_password[posn] = '\0' *)
  | None => None
  end.

(* ------------------------------------------------------------------ asconcrypt: data buffers of encrypt_file / decrypt_file *)
Definition DATA : N := 0.          (* unsigned char data[ASCON_BUFSIZ] *)

(* [reads] = what successive safe_file_read calls return (0 = end of file; an error ends the loop like []) *)
Fixpoint encrypt_loop (sz : sizes) (reads : list N) : option unit :=
  match reads with
  | [] => Some tt
  | len :: rest =>
      chk sz LibC W DATA 0 BUFSIZ ;;                     (* read(fd, data, sizeof(data)) *)
      if len =? 0 then Some tt
      else chk sz Direct R DATA 0 len ;; chk sz Direct W DATA 0 len ;;      (* aead_encrypt_block(data, data, len) *)
           chk sz LibC R DATA 0 len ;;                                       (* write(fd, data, len) *)
           if len <? BUFSIZ then Some tt else encrypt_loop sz rest
  end.

Definition encrypt_data (sz : sizes) (reads : list N) : option unit :=
  encrypt_loop sz reads ;; chk sz Direct W DATA 0 16 ;; chk sz LibC R DATA 0 16.      (* finalize(data); write(data, 16) *)

Fixpoint decrypt_loop (sz : sizes) (reads : list N) : option unit :=
  match reads with
  | [] => Some tt
  | len :: rest =>
      chk sz LibC W DATA 16 (BUFSIZ - 16) ;;             (* read(fd, data + 16, sizeof(data) - 16) *)
      if len =? 0 then Some tt
      else chk sz Direct R DATA 0 len ;; chk sz Direct W DATA 0 len ;;      (* aead_decrypt_block(data, data, len) *)
           chk sz LibC R DATA 0 len ;;                                       (* write(fd, data, len) *)
           chk sz LibC R DATA len 16 ;; chk sz LibC W DATA 0 16 ;;           (* memmove(data, data + len, 16) *)
           if len <? BUFSIZ - 16 then Some tt else decrypt_loop sz rest
  end.

Definition decrypt_data (sz : sizes) (reads : list N) : option unit :=
  chk sz LibC W DATA 0 16 ;;                             (* read(fd, data, 16) *)
  decrypt_loop sz reads ;;
  chk sz Direct R DATA 0 16.                             (* aead_decrypt_finalize(state, data) *)

(* ------------------------------------------------------------------ asconsum: the line parser of check_file *)
Definition LINE : N := 0.          (* char line[ASCON_LINESIZ] *)
Definition HASHB : N := 1.         (* unsigned char hash[ASCON_HASH_SIZE] *)
Definition LINESIZ : N := 1024.

Definition is_hex (c : N) : bool :=
  ((48 <=? c) && (c <=? 57)) || ((97 <=? c) && (c <=? 102)) || ((65 <=? c) && (c <=? 70)).

(* the byte at index i of the line buffer after `line[len] = '\0'` (0 beyond the string) *)
Definition line_at (l : list N) (len i : N) : N := if i <? len then nth (N.to_nat i) l 0 else 0.

(* while (posn < len && hashlen < 32 && hex(line[posn]) && hex(line[posn + 1])) { hash[hashlen++] = ..; posn += 2; } *)
Fixpoint parse_hex (sz : sizes) (l : list N) (len : N) (fuel : nat) (posn hashlen : N) : option (N * N) :=
  match fuel with
  | O => None
  | S f =>
      if (posn <? len) && (hashlen <? 32) then
        chk sz Direct R LINE posn 1 ;;
        if is_hex (line_at l len posn) then
          chk sz Direct R LINE (posn + 1) 1 ;;
          if is_hex (line_at l len (posn + 1)) then
            chk sz Direct W HASHB hashlen 1 ;; parse_hex sz l len f (posn + 2) (hashlen + 1)
          else Some (posn, hashlen)
        else Some (posn, hashlen)
      else Some (posn, hashlen)
  end.

(* while (line[posn] == ' ') ++posn; *)
Fixpoint skip_spaces (sz : sizes) (l : list N) (len : N) (fuel : nat) (posn : N) : option N :=
  match fuel with
  | O => None
  | S f => chk sz Direct R LINE posn 1 ;;
           if line_at l len posn =? 32 then skip_spaces sz l len f (posn + 1) else Some posn
  end.

Fixpoint strip_eol (r : list N) : list N :=
  match r with
  | c :: r' => if (c =? 10) || (c =? 13) then strip_eol r' else r
  | [] => []
  end.

(* one line as fgets delivered it: [l] = the characters before the terminating NUL (no NUL inside), at most 1023 *)
Definition check_line (sz : sizes) (l : list N) : option bool :=
  let n := strlen l in
  chk sz LibC W LINE 0 LINESIZ ;;                        (* fgets(line, sizeof(line), file) *)
  let len := strlen (strip_eol (rev l)) in              (* strip trailing CR / LF: number of characters kept *)
  if len =? 0 then Some false
  else
    chk sz Direct W LINE len 1 ;;                        (* line[len] = '\0' *)
    match parse_hex sz l len 40 0 0 with
    | Some (posn, hashlen) =>
        chk sz Direct R LINE posn 1 ;;
        if negb (line_at l len posn =? 32) || negb (hashlen =? 32) then Some false
        else match skip_spaces sz l len (S (N.to_nat n)) posn with
             | Some posn' => chk sz Direct R LINE posn' 1 ;; Some (negb (line_at l len posn' =? 0))
             | None => None
             end
    | None => None
    end.
