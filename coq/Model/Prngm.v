(* Executable model of src/random/ascon-prng.c and ascon-random.c over two
   explicit oracles: the system random source (one (32 bytes, ok) answer per
   ascon_trng_generate call) and the storage callbacks (scripted results). *)
From AsconV Require Export Model.Xofm.
From Coq Require Import ZArith.
Local Open Scope nat_scope.

Definition name_prng : bytes := [83; 112; 111; 110; 103; 101; 80; 82; 78; 71]%N.   (* "SpongePRNG" *)
Definition reseed_limit : nat := 16 * 1024.

Record prng_state := { r_xof : xof_state; r_counter : nat }.
Definition sys_answer := (bytes * bool)%type.         (* 32 seed bytes, healthy? *)

(* storage callbacks: what read returns (count or -1, data) and what write returns *)
Record storage := { st_size : nat; st_read : Z * bytes; st_write : Z }.

Section WithPerm.
Variable perm : nat -> bytes -> bytes.

(* the next answer of the system source; an exhausted script answers zeros/unhealthy *)
Definition next_sys (sys : list sys_answer) : sys_answer * list sys_answer :=
  match sys with a :: rest => (a, rest) | [] => ((zeros 32, false), []) end.

(* ascon_random_rekey: align, then 4 x (zero the rate, permute) *)
Definition zero_rate (s : bytes) : bytes := set_at s 0 (zeros 8).
Definition rekey_st (s : bytes) : bytes :=
  perm 0 (zero_rate (perm 0 (zero_rate (perm 0 (zero_rate (perm 0 (zero_rate s))))))).
Definition rekey (x : xof_state) : xof_state :=
  let x1 := xof_pad perm vxof x in
  {| x_st := rekey_st (x_st x1); x_count := x_count x1; x_mode := x_mode x1 |}.

Definition prng_init (sys : list sys_answer) : prng_state * bool * list sys_answer :=
  let x := xof_init_custom perm vxof (Some name_prng) [] 0 in
  let '((seed, ok), sys') := next_sys sys in
  ({| r_xof := rekey (xof_absorb perm vxof x seed); r_counter := 0 |}, ok, sys').

Definition prng_reseed (s : prng_state) (sys : list sys_answer) : prng_state * bool * list sys_answer :=
  let '((seed, ok), sys') := next_sys sys in
  ({| r_xof := rekey (xof_absorb perm vxof (r_xof s) seed); r_counter := 0 |}, ok, sys').

Definition prng_fetch (s : prng_state) (n : nat) (sys : list sys_answer) : prng_state * bytes * list sys_answer :=
  let '(s1, sys1) := if reseed_limit <=? r_counter s then let '(s', _, sys') := prng_reseed s sys in (s', sys') else (s, sys) in
  let '(x2, out) := xof_squeeze perm vxof (r_xof s1) n in
  let c := if n <? reseed_limit then r_counter s1 + n else reseed_limit in
  ({| r_xof := rekey x2; r_counter := c |}, out, sys1).

Definition prng_feed (s : prng_state) (d : bytes) : prng_state :=
  {| r_xof := rekey (xof_pad perm vxof (xof_absorb perm vxof (r_xof s) d)); r_counter := r_counter s |}.

(* what random.h documents: 0 = saved / loaded, -1 = storage failed or bad parameters.
   [storage = None] models a NULL storage pointer. *)
Definition prng_save_seed (s : prng_state) (st : option storage) (sys : list sys_answer)
  : prng_state * Z * option bytes * list sys_answer :=
  match st with
  | None => (s, (-1)%Z, None, sys)
  | Some st =>
    if st_size st <? 32 then (s, (-1)%Z, None, sys)
    else
      let '(s1, seed, sys1) := prng_fetch s 32 sys in
      (s1, if (st_write st =? 32)%Z then 0%Z else (-1)%Z, Some seed, sys1)
  end.

Definition prng_load_seed (s : prng_state) (st : option storage) (sys : list sys_answer)
  : prng_state * Z * option bytes * list sys_answer :=
  match st with
  | None => (s, (-1)%Z, None, sys)
  | Some st =>
    if st_size st <? 32 then (s, (-1)%Z, None, sys)
    else
      let '(r, data) := st_read st in
      let s1 := if (r =? 32)%Z then prng_feed s (firstn 32 data) else s in
      let '(s2, _, sys2) := prng_reseed s1 sys in
      let '(s3, seed, sys3) := prng_fetch s2 32 sys2 in
      (s3, if (r =? 32)%Z then 0%Z else (-1)%Z, Some seed, sys3)
  end.

(* ---- the storage descriptor in full: what the callbacks are called with -------------------
   ascon_storage_t has page_size, erase_size, address, size, partial_writes and the two
   callbacks.  [storage] above keeps the region size and the scripted callback results (it is
   the record Model/Leak.v works with); [nvstorage] adds the remaining fields, and the _g
   variants of save / load return, instead of the written bytes alone, the list of callback
   calls in order, each with the arguments the callback receives: offset into the region,
   byte count, and for write the bytes and the erase request.  PrngP.save_g_refines /
   load_g_refines: forgetting geometry and arguments gives prng_save_seed / prng_load_seed. *)
Record nvstorage := { nv_page : nat; nv_erase : nat; nv_addr : nat; nv_partial : bool; nv_cb : storage }.

Inductive cb_call :=
| CbRead (off len : nat)
| CbWrite (off len : nat) (data : bytes) (erase : bool).

(* (storage->erase_size != 0) *)
Definition erase_request (st : nvstorage) : bool := negb (nv_erase st =? 0).

Definition prng_save_seed_g (s : prng_state) (st : option nvstorage) (sys : list sys_answer)
  : prng_state * Z * list cb_call * list sys_answer :=
  match st with
  | None => (s, (-1)%Z, [], sys)
  | Some st =>
    if st_size (nv_cb st) <? 32 then (s, (-1)%Z, [], sys)
    else
      let '(s1, seed, sys1) := prng_fetch s 32 sys in
      (s1, if (st_write (nv_cb st) =? 32)%Z then 0%Z else (-1)%Z, [CbWrite 0 32 seed (erase_request st)], sys1)
  end.

Definition prng_load_seed_g (s : prng_state) (st : option nvstorage) (sys : list sys_answer)
  : prng_state * Z * list cb_call * list sys_answer :=
  match st with
  | None => (s, (-1)%Z, [], sys)
  | Some st =>
    if st_size (nv_cb st) <? 32 then (s, (-1)%Z, [], sys)
    else
      let '(r, data) := st_read (nv_cb st) in
      let s1 := if (r =? 32)%Z then prng_feed s (firstn 32 data) else s in
      let '(s2, _, sys2) := prng_reseed s1 sys in
      let '(s3, seed, sys3) := prng_fetch s2 32 sys2 in
      (s3, if (r =? 32)%Z then 0%Z else (-1)%Z, [CbRead 0 32; CbWrite 0 32 seed (erase_request st)], sys3)
  end.

(* one-shot ascon_random: 1 if the system source is healthy, else 0 *)
Definition random_oneshot (n : nat) (sys : list sys_answer) : bytes * Z * list sys_answer :=
  let '((seed, ok), sys') := next_sys sys in
  let x := xof_absorb perm vxof (xof_init_fixed perm vxof (N.of_nat n)) seed in
  (snd (xof_squeeze perm vxof x n), if ok then 1%Z else 0%Z, sys').

End WithPerm.
