(* The six byte-range operations of the public permutation API on the canonical
   40-byte big-endian state (ascon/permutation.h), as list functions. *)
From AsconV Require Export Bits.Bytes.
Local Open Scope nat_scope.

Definition st_add (s : bytes) (off : nat) (d : bytes) : bytes := xor_at s off d.
Definition st_overwrite (s : bytes) (off : nat) (d : bytes) : bytes := set_at s off d.
Definition st_zero (s : bytes) (off n : nat) : bytes := set_at s off (zeros n).
Definition st_extract (s : bytes) (off n : nat) : bytes := get_at s off n.
Definition st_extract_and_add (s : bytes) (off : nat) (d : bytes) : bytes := xorl (get_at s off (length d)) d.
(* returns (new state, output): output = state xor input, state bytes replaced by the input *)
Definition st_extract_and_overwrite (s : bytes) (off : nat) (d : bytes) : bytes * bytes :=
  (set_at s off d, xorl (get_at s off (length d)) d).
