(* Nonce helpers of src/aead/ascon-aead-util.c and the C++ set_nonce members. *)
From AsconV Require Export Model.Aeadm.
Local Open Scope nat_scope.

(* ascon_aead_set_counter: 8 zero bytes, then the counter big-endian *)
Definition set_counter (n : N) : bytes := zeros 8 ++ be_encode 8 n.

(* aead*::set_nonce(nonce, len): len >= 16 takes the first 16 bytes; shorter
   nonces are left-padded with zeros *)
Definition set_nonce (b : bytes) : bytes :=
  if 16 <=? length b then firstn 16 b else zeros (16 - length b) ++ b.

(* a session: packets processed one after another on one incremental object *)
Section WithPerm.
Variable perm : nat -> bytes -> bytes.

Definition packet_encrypt (v : aead_variant) (s : inc_state) (A : bytes) (chunks : list bytes) : inc_state * bytes :=
  let s0 := inc_start perm v s A in
  let '(s1, c) := fold_left (fun '(s, acc) d => let '(s', o) := inc_encrypt_block perm v s d in (s', acc ++ o)) chunks (s0, []) in
  let '(s2, t) := inc_encrypt_finalize perm v s1 in
  (s2, c ++ t).

Fixpoint session_encrypt (v : aead_variant) (s : inc_state) (packets : list (bytes * list bytes)) : list bytes :=
  match packets with
  | [] => []
  | (A, chunks) :: rest => let '(s', c) := packet_encrypt v s A chunks in c :: session_encrypt v s' rest
  end.

(* the i-th successor of a nonce *)
Fixpoint nonce_add (n : bytes) (i : nat) : bytes :=
  match i with O => n | S j => nonce_add (increment_nonce n) j end.

End WithPerm.
