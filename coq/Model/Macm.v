(* Executable models of src/mac/ascon-prf.c, ascon-hmac-common.h,
   ascon-kmac.c/-kmaca.c, src/kdf/ascon-hkdf-common.h, ascon-kdf.c/-kdfa.c,
   src/password/ascon-pbkdf2.c, ascon-pbkdf2-hmac.c. *)
From AsconV Require Export Spec.Mac Model.Xofm Model.Aeadm.
From Coq Require Import ZArith.
Local Open Scope nat_scope.

Section WithPerm.
Variable perm : nat -> bytes -> bytes.

(* ---- PRF / MAC -------------------------------------------------------------- *)
(* ascon_prf_fixed_init *)
Definition prf_init (K : bytes) (outlen : N) : xof_state :=
  let outlen := if (536870912 <=? outlen)%N then 0%N else outlen in
  let iv := [0x80; 0x80; 0x8c; 0x00]%N ++ be_encode 4 (N.land (outlen * 8) 0xFFFFFFFF) in
  let st := set_at (set_at (zeros 40) 0 iv) 8 K in
  mk (perm 0 st).
Definition prf_absorb := xof_absorb perm vprf.
Definition prf_squeeze := xof_squeeze perm vprf.
(* ascon_prf (outlen field 0), ascon_prf_fixed, ascon_mac *)
Definition prf_oneshot (K : bytes) (L : N) (msg : bytes) (n : nat) : bytes :=
  snd (prf_squeeze (prf_absorb (prf_init K L) msg) n).
Definition mac_c (K msg : bytes) : bytes := prf_oneshot K 16 msg 16.
(* ascon_mac_verify: 0 / -1 *)
Definition mac_verify_c (tag K msg : bytes) : Z := fst (check_tag [] tag (mac_c K msg)).

(* ascon_prf_short: None = -1 (nothing written) *)
Definition prf_short_c (K msg : bytes) (outlen : nat) : option bytes :=
  if 16 <? length msg then None
  else if 16 <? outlen then None
  else
    let iv := [0x80; N.land (N.of_nat (length msg) * 8) 255; 0x4c; 0x80; 0; 0; 0; 0]%N in
    let st := set_at (set_at (set_at (zeros 40) 0 iv) 8 K) 24 msg in
    let st := perm 0 st in
    let st := xor_at st 24 K in
    Some (get_at st 24 outlen).

(* ---- HMAC ------------------------------------------------------------------- *)
(* <alg>_absorb_key: the key in pieces of at most 32 bytes xor pad; long keys
   hashed first; then the rest of the 64-byte block as pad bytes, in pieces *)
Definition hmac_absorb_key (v : xof_variant) (h : xof_state) (key : bytes) (pad : N) : xof_state :=
  let '(h1, posn) :=
    if length key <=? 64 then
      (fold_left (fun h pc => xof_absorb perm v h (xor_pad pad pc)) (chunks 32 key) h, length key)
    else
      let h1 := xof_absorb perm v h key in
      let '(_, temp) := xof_squeeze perm v h1 32 in
      let h3 := hash_init perm v in
      (xof_absorb perm v h3 (xor_pad pad temp), 32) in
  fold_left (xof_absorb perm v) (chunks 32 (repeat pad (64 - posn))) h1.

Definition hmac_init (v : xof_variant) (key : bytes) : xof_state :=
  hmac_absorb_key v (hash_init perm v) key 0x36.
Definition hmac_update (v : xof_variant) (h : xof_state) (d : bytes) : xof_state := xof_absorb perm v h d.
Definition hmac_finalize (v : xof_variant) (h : xof_state) (key : bytes) : xof_state * bytes :=
  let '(_, temp) := xof_squeeze perm v h 32 in
  let h2 := hmac_absorb_key v (hash_init perm v) key 0x5c in
  let h3 := xof_absorb perm v h2 temp in
  xof_squeeze perm v h3 32.
Definition hmac_run (v : xof_variant) (key : bytes) (chunks : list bytes) : bytes :=
  snd (hmac_finalize v (fold_left (hmac_update v) chunks (hmac_init v key)) key).

(* ---- KMAC / KDF ---------------------------------------------------------------- *)
(* ascon_kmac_init: outlen = 32 takes the pre-computed first block (proved
   equal to the computed one from the current source: C03_iv) *)
Definition kmac_init (v : xof_variant) (key custom : bytes) (outlen : N) : xof_state :=
  let s :=
    if (outlen =? 32)%N then xof_absorb_custom perm v (mk (cxof_state perm v name_kmac [] 32)) custom
    else xof_init_custom perm v (Some name_kmac) custom outlen in
  xof_absorb perm v s key.
Definition kdf_init (v : xof_variant) (key custom : bytes) (outlen : N) : xof_state :=
  xof_absorb perm v (xof_init_custom perm v (Some name_kdf) custom outlen) key.

(* ---- HKDF ------------------------------------------------------------------------ *)
Record hkdf_state := { k_prk : bytes; k_out : bytes; k_counter : nat; k_posn : nat }.

Definition hkdf_extract_c (v : xof_variant) (key salt : bytes) : hkdf_state :=
  {| k_prk := hmac_run v salt [key]; k_out := zeros 32; k_counter := 1; k_posn := 32 |}.

(* one iteration of the block loop *)
Definition hkdf_block (v : xof_variant) (s : hkdf_state) (info : bytes) : hkdf_state :=
  let h := hmac_init v (k_prk s) in
  let h := if k_counter s =? 1 then h else hmac_update v h (k_out s) in
  let h := hmac_update v h info in
  let h := hmac_update v h [N.of_nat (k_counter s)] in
  {| k_prk := k_prk s; k_out := snd (hmac_finalize v h (k_prk s));
     k_counter := (k_counter s + 1) mod 256; k_posn := k_posn s |}.

(* the while loop; fuel = outlen suffices.  Returns (state, output, result) *)
Fixpoint hkdf_loop (fuel : nat) (v : xof_variant) (s : hkdf_state) (info : bytes) (outlen : nat) : hkdf_state * bytes * Z :=
  match fuel with
  | O => (s, [], 0%Z)
  | S f =>
    if outlen =? 0 then (s, [], 0%Z)
    else if k_counter s =? 0 then (s, zeros outlen, (-1)%Z)
    else
      let s1 := hkdf_block v s info in
      let len := Nat.min 32 outlen in
      let s2 := {| k_prk := k_prk s1; k_out := k_out s1; k_counter := k_counter s1; k_posn := len |} in
      let '(s3, o, r) := hkdf_loop f v s2 info (outlen - len) in
      (s3, firstn len (k_out s1) ++ o, r)
  end.

(* <alg>_expand *)
Definition hkdf_expand_c (v : xof_variant) (s : hkdf_state) (info : bytes) (outlen : nat) : hkdf_state * bytes * Z :=
  let len := Nat.min (32 - k_posn s) outlen in
  let o1 := get_at (k_out s) (k_posn s) len in
  let s1 := {| k_prk := k_prk s; k_out := k_out s; k_counter := k_counter s; k_posn := k_posn s + len |} in
  let '(s2, o2, r) := hkdf_loop (outlen - len) v s1 info (outlen - len) in
  (s2, o1 ++ o2, r).

(* one-shot <alg>: None = -1 with the buffer untouched *)
Definition hkdf_c (v : xof_variant) (key salt info : bytes) (outlen : nat) : option bytes :=
  if 255 * 32 <? outlen then None
  else let '(_, o, _) := hkdf_expand_c v (hkdf_extract_c v key salt) info outlen in Some o.

(* ---- PBKDF2 ------------------------------------------------------------------------- *)
Section F.
(* prfc chunks: absorb each chunk into (a copy of) the keyed state, squeeze 32 *)
Variable prfc : list bytes -> bytes.
(* while (count > 2) { U = prf(U); T ^= U; --count } ; fuel = count *)
Fixpoint pb_loop (fuel : nat) (count : nat) (T U : bytes) : bytes :=
  match fuel with
  | O => T
  | S f => if 2 <? count then let U' := prfc [U] in pb_loop f (count - 1) (xorl T U') U' else T
  end.
Definition pb_f_c (salt : bytes) (count : nat) (blocknum : nat) : bytes :=
  let b := be_encode 4 (N.land (N.of_nat blocknum) 0xFFFFFFFF) in
  let T := prfc [salt; b] in
  if 1 <? count then
    let U := prfc [T] in
    pb_loop count count (xorl T U) U
  else T.
Fixpoint pb_out (fuel : nat) (salt : bytes) (count : nat) (blocknum : nat) (outlen : nat) : bytes :=
  match fuel with
  | O => []
  | S f =>
    if outlen =? 0 then []
    else if 32 <=? outlen then pb_f_c salt count blocknum ++ pb_out f salt count (blocknum + 1) (outlen - 32)
    else firstn outlen (pb_f_c salt count blocknum)
  end.
End F.

Definition pbkdf2_c (password salt : bytes) (count outlen : nat) : bytes :=
  let st := xof_init_custom perm vxof (Some name_pbkdf2) password 32 in
  pb_out (fun chunks => snd (xof_squeeze perm vxof (fold_left (xof_absorb perm vxof) chunks st) 32))
         outlen salt count 1 outlen.
Definition pbkdf2_hmac_c (password salt : bytes) (count outlen : nat) : bytes :=
  pb_out (fun chunks => hmac_run vxof password chunks) outlen salt count 1 outlen.

End WithPerm.
