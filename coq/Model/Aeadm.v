(* Executable model of the C AEAD code:
     src/aead/ascon-aead-common.c     absorb_8/16, encrypt_8/16, decrypt_8/16, check_tag
     src/aead/ascon-aead-{128,128a,80pq}.c         one-shot
     src/aead/ascon-aead-inc-{128,128a,80pq}.c     incremental (init/reinit/start/blocks/finalize)
     src/aead/ascon-aead-util.c       nonce helpers (Model/Noncem.v)
   A C function that mutates through a pointer is a function returning the
   new value. *)
From AsconV Require Export Spec.Aead.
From Coq Require Import ZArith.
Local Open Scope nat_scope.

(* int ascon_aead_check_tag(plaintext, plaintext_len, tag1, tag2, size):
   accum |= t1[i]^t2[i]; accum = (accum - 1) >> 8 (an int: -1 or 0);
   plaintext[i] &= accum; return ~accum.  Modelled with the int in Z. *)
Definition tag_accum (t1 t2 : bytes) : N := fold_left N.lor (xorl t1 t2) 0%N.
Definition tag_mask (accum : N) : Z := Z.shiftr (Z.of_N accum - 1) 8.
Definition check_tag (plaintext t1 t2 : bytes) : Z * bytes :=
  let mask := tag_mask (tag_accum t1 t2) in
  (Z.lnot mask, map (fun b => Z.to_N (Z.land (Z.of_N b) mask)) plaintext).

Section WithPerm.
Variable perm : nat -> bytes -> bytes.

(* ascon_aead_absorb_8 / _16 with last_permute = 1 *)
Definition aead_absorb_c (v : aead_variant) (s : bytes) (A : bytes) : bytes :=
  let '((s1, len), _) := aligned_c bf_enc (perm (v_pb v)) (v_rate v) s A in
  perm (v_pb v) (xor_at s1 len [0x80%N]).

(* the common prologue of every one-shot and of *_aead_start *)
Definition start_c (v : aead_variant) (K N A : bytes) : bytes :=
  let s := zeros 40 in
  let s := set_at s 0 (v_iv v) in
  let s := set_at s (length (v_iv v)) K in
  let s := set_at s 24 N in
  let s := perm 0 s in
  let s := xor_at s (40 - v_klen v) K in
  let s := match A with [] => s | _ => aead_absorb_c v s A end in
  xor_at s 39 [1%N].

(* the common epilogue: pad at posn, key xor, p^a, key xor, squeeze *)
Definition finalize_c (v : aead_variant) (s : bytes) (posn : nat) (K : bytes) : bytes :=
  let s := xor_at s posn [0x80%N] in
  let s := xor_at s (v_rate v) K in
  let s := perm 0 s in
  let s := xor_at s 24 (skipn (v_klen v - 16) K) in
  get_at s 24 16.

(* asconXXX_aead_encrypt: returns (c, *clen) *)
Definition encrypt_c (v : aead_variant) (K N A P : bytes) : bytes * nat :=
  let s := start_c v K N A in
  let '((s1, partial), c) := duplex_c bf_enc (perm (v_pb v)) (v_rate v) (s, 0) P in
  (c ++ finalize_c v s1 partial K, length P + 16).

(* asconXXX_aead_decrypt *)
Inductive dec_result :=
| DecShort                          (* clen < 16: -1, nothing written, *mlen untouched *)
| DecDone (r : Z) (m : bytes).      (* result (0 or -1), plaintext buffer, *mlen = |m| *)

Definition decrypt_c (v : aead_variant) (K N A C : bytes) : dec_result :=
  if length C <? 16 then DecShort
  else
    let n := length C - 16 in
    let s := start_c v K N A in
    let '((s1, partial), m) := duplex_c bf_dec (perm (v_pb v)) (v_rate v) (s, 0) (firstn n C) in
    let tag := finalize_c v s1 partial K in
    let '(r, m') := check_tag m tag (skipn n C) in
    DecDone r m'.

(* ---- incremental API -------------------------------------------------- *)

Record inc_state := { i_st : bytes; i_key : bytes; i_nonce : bytes; i_posn : nat }.

(* ascon_aead_increment_nonce: 128-bit big-endian +1, from byte 15 down *)
Fixpoint incr_rev (l : bytes) (carry : N) : bytes :=
  match l with
  | [] => []
  | x :: l' => let t := (x + carry)%N in N.land t 255 :: incr_rev l' (N.shiftr t 8)
  end.
Definition increment_nonce (n : bytes) : bytes := rev (incr_rev (rev n) 1%N).

(* *_aead_init / *_aead_reinit: k = None means NULL (all-zero key); npub =
   None means NULL (all-zero nonce).  The state bytes are left as they are by
   reinit (start overwrites them); init zeroes them first. *)
Definition inc_reinit (v : aead_variant) (s : inc_state) (npub k : option bytes) : inc_state :=
  {| i_st := i_st s;
     i_key := match k with Some k => k | None => zeros (v_klen v) end;
     i_nonce := match npub with Some n => n | None => zeros 16 end;
     i_posn := 0 |}.
Definition inc_init (v : aead_variant) (npub k : option bytes) : inc_state :=
  inc_reinit v {| i_st := zeros 40; i_key := []; i_nonce := []; i_posn := 0 |} npub k.

Definition inc_start (v : aead_variant) (s : inc_state) (A : bytes) : inc_state :=
  {| i_st := start_c v (i_key s) (i_nonce s) A; i_key := i_key s;
     i_nonce := increment_nonce (i_nonce s); i_posn := 0 |}.

Definition inc_encrypt_block (v : aead_variant) (s : inc_state) (d : bytes) : inc_state * bytes :=
  let '((s1, p), o) := duplex_c bf_enc (perm (v_pb v)) (v_rate v) (i_st s, i_posn s) d in
  ({| i_st := s1; i_key := i_key s; i_nonce := i_nonce s; i_posn := p |}, o).
Definition inc_decrypt_block (v : aead_variant) (s : inc_state) (d : bytes) : inc_state * bytes :=
  let '((s1, p), o) := duplex_c bf_dec (perm (v_pb v)) (v_rate v) (i_st s, i_posn s) d in
  ({| i_st := s1; i_key := i_key s; i_nonce := i_nonce s; i_posn := p |}, o).

(* finalize works on the object's state in place; the tag is squeezed after
   the last key xor, the state keeps that value *)
Definition inc_final_state (v : aead_variant) (s : inc_state) : bytes :=
  let st := xor_at (i_st s) (i_posn s) [0x80%N] in
  let st := xor_at st (v_rate v) (i_key s) in
  let st := perm 0 st in
  xor_at st 24 (skipn (v_klen v - 16) (i_key s)).
Definition inc_encrypt_finalize (v : aead_variant) (s : inc_state) : inc_state * bytes :=
  let st := inc_final_state v s in
  ({| i_st := st; i_key := i_key s; i_nonce := i_nonce s; i_posn := i_posn s |}, get_at st 24 16).
Definition inc_decrypt_finalize (v : aead_variant) (s : inc_state) (tag : bytes) : inc_state * Z :=
  let st := inc_final_state v s in
  ({| i_st := st; i_key := i_key s; i_nonce := i_nonce s; i_posn := i_posn s |},
   fst (check_tag [] (get_at st 24 16) tag)).

(* a whole incremental encryption: start, blocks for every chunk, finalize *)
Definition inc_encrypt_run (v : aead_variant) (K N A : bytes) (chunks : list bytes) : bytes :=
  let s0 := inc_start v (inc_init v (Some N) (Some K)) A in
  let '(s1, c) := fold_left (fun '(s, acc) d => let '(s', o) := inc_encrypt_block v s d in (s', acc ++ o))
                            chunks (s0, []) in
  c ++ snd (inc_encrypt_finalize v s1).

End WithPerm.
