(* C09, acquire/release clause - which code the statements describe.

   fix_masked_x1_nesting
     [false] = the code as it is now: with ASCON_MASKED_DATA_SHARES = 1 the six
     one-shot masked AEAD functions (ascon{128,128a,80pq}_masked_aead_{encrypt,
     decrypt}) keep the single-share state state_x1 acquired (ascon_init in
     ascon_xN_copy_to_x1) while they draw randomness
       *_masked_aead_finalize -> ascon_xN_copy_from_x1 -> ascon_masked_word_xN_load
       -> ascon_trng_generate_64 -> ascon_acquire(&trng->prng)
     so the one-flag checker of ascon-direct-xor.c aborts.  For those
     configurations THE statement is the refutation
     (C09_acquire_release_<backend>_data1); for all others it is the balance
     theorem.
     [true] = after fixes/C09-masked-x1-release-around-trng.patch has been
     applied to /repo: the balance theorem is stated for every configuration.

   Props/Properties_C09_skel.v compiles under both settings provided the flag
   matches the tree; lib/p_c09_skel.py reports a stale flag. *)
Definition fix_masked_x1_nesting : bool := true.
