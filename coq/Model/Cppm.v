(* Executable model of the C++ layer of ascon-suite (property C17):
     src/cplusplus/ascon-aead-cpp.cpp         aead (byte_array overloads), aead128, aead128a, aead80pq
     src/cplusplus/ascon-aead-masked-cpp.cpp  aead128_masked, aead128a_masked, aead80pq_masked
     src/cplusplus/ascon-siv-cpp.cpp          siv128, siv128a, siv80pq
     src/cplusplus/ascon-isap-cpp.cpp         isap128, isap128a, isap80pq
     src/ascon/hash.h, xof.h                  hash, hasha, xof_with_output_length<L>, xofa_with_output_length<L>
     src/ascon/utility.h                      bytes_from_data, bytes_to_hex, bytes_from_hex
   An object is a record {key object; nonce}.  The C functions the classes
   forward to are Section variables (abstract): the statements are about the
   forwarding, the keying and the nonce handling, for every C function.

   Two machines are defined over the same operations:
     * the CODE machine (names code_...): what the .cpp files do, including what they
       do with NULL pointers, with the memory a constructor does not write,
       and with the pointer argument of a zero-length set_key;
     * the DOCUMENTED machine (names doc_...): what the Doxygen comments promise: the
       key is the given key / all-zero for a null key or a zero length / the
       loaded saved key; the nonce is left-padded or truncated; a packet is
       the C function under (that key, that nonce); the nonce advances by one
       after encrypt and after a successful decrypt only.
   Proofs/CppP.v proves that they agree (or exhibits where they do not). *)
From AsconV Require Export Model.Aeadm.
From Coq Require Import ZArith.
Local Open Scope nat_scope.

(* ---- which code is modelled -------------------------------------------
   The model describes the code as it exists.  Two places of the C++ layer
   depart from the documentation in the pinned tree; each has a flag here.
   ONE-LINE EDITS after the corresponding fix is applied to /repo:
     siv80pq_code       := Fixed   (fixes/C17-siv80pq-key-ctor.patch)
     isap_setkey0_code  := Fixed   (fixes/C17-isap-setkey-zero.patch)        *)
Inductive code_version := AsFound | Fixed.
Definition siv80pq_code : code_version := AsFound.
Definition isap_setkey0_code : code_version := AsFound.

(* ---- pointers, faults, byte_array -------------------------------------- *)

(* a pointer argument: None = NULL; Some b = the bytes readable at it *)
Definition ptr := option bytes.
Definition is_some {A} (o : option A) : bool := match o with Some _ => true | None => false end.

(* Fault = the call reads through NULL or past the readable bytes (a crash /
   undefined behaviour in the real code) *)
Inductive outcome (A : Type) := Ok (a : A) | Fault.
Arguments Ok {A} a.
Arguments Fault {A}.

Definition rd (p : ptr) (n : nat) : outcome bytes :=
  match p with
  | None => Fault
  | Some b => if length b <? n then Fault else Ok (firstn n b)
  end.

Definition obind {A B} (x : outcome A) (f : A -> outcome B) : outcome B :=
  match x with Ok a => f a | Fault => Fault end.

(* std::vector<unsigned char>::resize: keep the prefix, zero-fill the rest *)
Definition resize (old : bytes) (n : nat) : bytes := firstn n old ++ zeros (n - length old).

(* ---- nonce members (identical text in all twelve classes) -------------- *)

(* set_nonce(nonce, len):  len >= 16: memcpy 16;  else memset(0, 16-len) and,
   when len > 0, memcpy(nonce + 16 - len, p, len) *)
Definition code_set_nonce (p : ptr) (len : nat) : outcome bytes :=
  if 16 <=? len then rd p 16
  else if len =? 0 then Ok (zeros 16)
  else obind (rd p len) (fun b => Ok (zeros (16 - len) ++ b)).

(* documented: shorter values are padded on the left with zero bytes, longer
   ones truncated to the first nonce_size() bytes *)
Definition doc_set_nonce (p : ptr) (len : nat) : option bytes :=
  if len =? 0 then Some (zeros 16)
  else match p with
       | None => None
       | Some b => if length b <? Nat.min len 16 then None
                   else let v := firstn len b in
                        Some (if length v <? 16 then zeros (16 - length v) ++ v else firstn 16 v)
       end.

(* ascon_aead_set_counter: be_store_word64(npub, 0); be_store_word64(npub + 8, n) *)
Definition code_set_counter (c : N) : bytes := be_encode 8 0 ++ be_encode 8 c.
(* documented: big-endian value with leading zeroes making up nonce_size() bytes *)
Definition doc_set_counter (c : N) : bytes := be_encode 16 c.

(* ---- documented keys --------------------------------------------------- *)
Inductive dkey :=
| DRaw (k : bytes)       (* a key of key_size() bytes *)
| DSaved (s : bytes).    (* ISAP: an 80-byte saved key *)

(* operations on a cipher object and what the caller observes *)
Section Cipher.
Variable R : Type.                  (* randomness consumed by one keying call (masked classes) *)

Inductive ctor :=
| CDefault                                             (* T()                                  *)
| CKey (junk : bytes) (r : R) (p : ptr) (len : nat).   (* T(key) / isap: T(key, len); junk = the
                                                          object's storage before construction  *)
Inductive op :=
| OSetKey (r : R) (p : ptr) (len : nat)
| OSetNonce (p : ptr) (len : nat)
| OSetCounter (c : N)
| OEncrypt (ad m : bytes)                  (* encrypt(c, m, len, ad, adlen)                      *)
| OEncryptBA (cold ad m : bytes)           (* encrypt(byte_array &c, m[, ad]); cold = old c      *)
| ODecrypt (ad c : bytes)                  (* decrypt(m, c, len, ad, adlen)                      *)
| ODecryptBA (mold ad c : bytes)           (* decrypt(byte_array &m, c[, ad]); mold = old m      *)
| ORandomize (r : R)                       (* randomize_key() (masked classes)                   *)
| OClear.                                  (* clear()                                            *)

Inductive res :=
| RUnit
| RBool (b : bool)                         (* set_key *)
| REnc (r : Z) (c : bytes)                 (* return value, bytes written to c *)
| RDec (r : Z) (m : option bytes)          (* return value, bytes written to m (None: nothing written) *)
| REncBA (c : bytes)                       (* the byte_array c after the call *)
| RDecBA (b : bool) (m : bytes).           (* return value, the byte_array m after the call *)

Variable ckey : Type.               (* the C key object held by the class *)
Variable klen : nat.                (* key_size() *)
Variable c_encrypt : ckey -> bytes -> bytes -> bytes -> bytes * nat.     (* key nonce ad m -> (c, *clen) *)
Variable c_decrypt : ckey -> bytes -> bytes -> bytes -> dec_result.      (* key nonce ad c *)

Record obj := { o_key : ckey; o_nonce : bytes }.
Definition bump (o : obj) : obj := {| o_key := o_key o; o_nonce := increment_nonce (o_nonce o) |}.

(* T::do_encrypt / T::do_decrypt (same text in all twelve classes) *)
Definition do_encrypt (o : obj) (ad m : bytes) : obj * (Z * bytes) :=
  let '(c, clen) := c_encrypt (o_key o) (o_nonce o) ad m in
  (bump o, (Z.of_nat clen, c)).

Definition do_decrypt (o : obj) (ad c : bytes) : obj * (Z * option bytes) :=
  match c_decrypt (o_key o) (o_nonce o) ad c with
  | DecShort => (o, ((-1)%Z, None))                     (* result < 0; *mlen, m untouched *)
  | DecDone r m => if (0 <=? r)%Z then (bump o, (Z.of_nat (length m), Some m))
                   else (o, ((-1)%Z, Some m))
  end.

(* aead::encrypt(byte_array &c, m, ad): c.resize(len + tag_size()); do_encrypt(c.data(), ...) *)
Definition ba_encrypt (o : obj) (cold ad m : bytes) : obj * bytes :=
  let buf := resize cold (length m + 16) in
  let '(o', (_, c)) := do_encrypt o ad m in
  (o', set_at buf 0 c).

(* aead::decrypt(byte_array &m, c, ad) *)
Definition ba_decrypt (o : obj) (mold ad c : bytes) : obj * (bool * bytes) :=
  if length c <? 16 then (o, (false, []))
  else
    let buf := resize mold (length c - 16) in
    let '(o', (r, w)) := do_decrypt o ad c in
    if (r <? 0)%Z then (o', (false, []))
    else (o', (true, match w with Some m => set_at buf 0 m | None => buf end)).

(* the key-handling members differ between the class families: a method table *)
Record keying := {
  kg_default : ckey;                                         (* T()                      *)
  kg_ctor : bytes -> R -> ptr -> nat -> outcome ckey;        (* T(key[, len])            *)
  kg_set : ckey -> R -> ptr -> nat -> outcome (bool * ckey); (* set_key(key, len)        *)
  kg_randomize : R -> ckey -> ckey;                          (* randomize_key()          *)
  kg_clear : ckey -> ckey                                    (* clear()                  *)
}.
Variable K : keying.

Definition code_ctor (c : ctor) : outcome obj :=
  match c with
  | CDefault => Ok {| o_key := kg_default K; o_nonce := zeros 16 |}
  | CKey junk r p len => obind (kg_ctor K junk r p len) (fun ck => Ok {| o_key := ck; o_nonce := zeros 16 |})
  end.

Definition code_step (o : obj) (x : op) : outcome (obj * res) :=
  match x with
  | OSetKey r p len => obind (kg_set K (o_key o) r p len)
                             (fun '(b, ck) => Ok ({| o_key := ck; o_nonce := o_nonce o |}, RBool b))
  | OSetNonce p len => obind (code_set_nonce p len) (fun n => Ok ({| o_key := o_key o; o_nonce := n |}, RUnit))
  | OSetCounter c => Ok ({| o_key := o_key o; o_nonce := code_set_counter c |}, RUnit)
  | OEncrypt ad m => let '(o', (r, c)) := do_encrypt o ad m in Ok (o', REnc r c)
  | OEncryptBA cold ad m => let '(o', c) := ba_encrypt o cold ad m in Ok (o', REncBA c)
  | ODecrypt ad c => let '(o', (r, m)) := do_decrypt o ad c in Ok (o', RDec r m)
  | ODecryptBA mold ad c => let '(o', (b, m)) := ba_decrypt o mold ad c in Ok (o', RDecBA b m)
  | ORandomize r => Ok ({| o_key := kg_randomize K r (o_key o); o_nonce := o_nonce o |}, RUnit)
  | OClear => Ok ({| o_key := kg_clear K (o_key o); o_nonce := zeros 16 |}, RUnit)
  end.

Fixpoint code_steps (o : obj) (ops : list op) : outcome (obj * list res) :=
  match ops with
  | [] => Ok (o, [])
  | x :: ops' => obind (code_step o x) (fun '(o1, r) =>
                 obind (code_steps o1 ops') (fun '(o2, rs) => Ok (o2, r :: rs)))
  end.
Definition code_run (c : ctor) (ops : list op) : outcome (obj * list res) :=
  obind (code_ctor c) (fun o => code_steps o ops).

(* ---- the documented machine ------------------------------------------- *)
Variable has_saved : bool.            (* ISAP: set_key / the constructor accept an 80-byte saved key *)
Variable ctor_has_len : bool.         (* ISAP: the key constructor takes (key, len) *)
Variable key_of_doc : dkey -> ckey.   (* the C key object for a documented key *)

Record dstate := { dk : option dkey; dn : option bytes }.   (* None = unspecified (after clear()) *)

(* the key constructor.  None = not a documented use. *)
Definition doc_ctor_key (p : ptr) (len : nat) : option dkey :=
  if ctor_has_len then
    if len =? 0 then Some (DRaw (zeros klen))
    else match p with
         | None => None
         | Some b => if len =? klen then (if length b <? klen then None else Some (DRaw (firstn klen b)))
                     else if (len =? 80) && has_saved then (if length b <? 80 then None else Some (DSaved (firstn 80 b)))
                     else None
         end
  else match p with
       | None => Some (DRaw (zeros klen))                 (* "all-zeroes if key is NULL" *)
       | Some b => if length b <? klen then None else Some (DRaw (firstn klen b))
       end.

Definition doc_ctor (c : ctor) : option dstate :=
  match c with
  | CDefault => Some {| dk := Some (DRaw (zeros klen)); dn := Some (zeros 16) |}
  | CKey _ _ p len => match doc_ctor_key p len with
                      | Some k => Some {| dk := Some k; dn := Some (zeros 16) |}
                      | None => None
                      end
  end.

(* set_key(key, len).  None = not a legal call (pointer shorter than len);
   Some None = returns false, nothing changes;  Some (Some k) = returns true, key is k *)
Definition doc_set_key (p : ptr) (len : nat) : option (option dkey) :=
  if len =? 0 then Some (Some (DRaw (zeros klen)))        (* zero length = the all-zero key *)
  else if (len =? klen) || ((len =? 80) && has_saved) then
    match p with
    | None => Some None                                   (* invalid key pointer: false *)
    | Some b => if length b <? len then None
                else Some (Some (if len =? klen then DRaw (firstn klen b) else DSaved (firstn 80 b)))
    end
  else Some None.                                         (* any other length: false *)

Definition doc_step (d : dstate) (x : op) : option (dstate * res) :=
  match x with
  | OSetKey _ p len =>
      match doc_set_key p len with
      | None => None
      | Some None => Some (d, RBool false)
      | Some (Some k) => Some ({| dk := Some k; dn := dn d |}, RBool true)
      end
  | OSetNonce p len => match doc_set_nonce p len with
                       | Some n => Some ({| dk := dk d; dn := Some n |}, RUnit)
                       | None => None
                       end
  | OSetCounter c => if (c <? 2 ^ 64)%N                 (* the parameter is a uint64_t *)
                     then Some ({| dk := dk d; dn := Some (doc_set_counter c) |}, RUnit) else None
  | OEncrypt ad m =>
      match dk d, dn d with
      | Some k, Some n => let '(c, clen) := c_encrypt (key_of_doc k) n ad m in
                          Some ({| dk := dk d; dn := Some (increment_nonce n) |}, REnc (Z.of_nat clen) c)
      | _, _ => None
      end
  | OEncryptBA _ ad m =>
      match dk d, dn d with
      | Some k, Some n => let '(c, _) := c_encrypt (key_of_doc k) n ad m in
                          Some ({| dk := dk d; dn := Some (increment_nonce n) |}, REncBA c)
      | _, _ => None
      end
  | ODecrypt ad c =>
      match dk d, dn d with
      | Some k, Some n =>
          match c_decrypt (key_of_doc k) n ad c with
          | DecShort => Some (d, RDec (-1) None)
          | DecDone r m => if (0 <=? r)%Z
                           then Some ({| dk := dk d; dn := Some (increment_nonce n) |}, RDec (Z.of_nat (length m)) (Some m))
                           else Some (d, RDec (-1) (Some m))
          end
      | _, _ => None
      end
  | ODecryptBA _ ad c =>
      match dk d, dn d with
      | Some k, Some n =>
          match c_decrypt (key_of_doc k) n ad c with
          | DecShort => Some (d, RDecBA false [])
          | DecDone r m => if (0 <=? r)%Z
                           then Some ({| dk := dk d; dn := Some (increment_nonce n) |}, RDecBA true m)
                           else Some (d, RDecBA false [])
          end
      | _, _ => None
      end
  | ORandomize _ => Some (d, RUnit)
  | OClear => Some ({| dk := None; dn := None |}, RUnit)
  end.

Fixpoint doc_steps (d : dstate) (ops : list op) : option (dstate * list res) :=
  match ops with
  | [] => Some (d, [])
  | x :: ops' => match doc_step d x with
                 | None => None
                 | Some (d1, r) => match doc_steps d1 ops' with
                                   | None => None
                                   | Some (d2, rs) => Some (d2, r :: rs)
                                   end
                 end
  end.
Definition doc_run (c : ctor) (ops : list op) : option (dstate * list res) :=
  match doc_ctor c with Some d => doc_steps d ops | None => None end.

(* when does an object hold what the documentation says *)
Variable keq : ckey -> ckey -> Prop.      (* "the same key": equality, or equal unmasked value *)
Definition agrees (o : obj) (d : dstate) : Prop :=
  (forall k, dk d = Some k -> keq (o_key o) (key_of_doc k)) /\
  (forall n, dn d = Some n -> o_nonce o = n).

(* THE STATEMENT of C17 for one cipher class: every history the documentation
   gives a meaning to runs without fault, every call returns exactly what the
   documented machine (= the C function under the documented key and nonce)
   returns, and the object ends up holding the documented key and nonce. *)
Definition C17_stmt : Prop :=
  forall c ops d rs, doc_run c ops = Some (d, rs) ->
  exists o, code_run c ops = Ok (o, rs) /\ agrees o d.

End Cipher.
Arguments CDefault {R}.
Arguments CKey {R} junk r p len.
Arguments OSetKey {R} r p len.
Arguments OSetNonce {R} p len.
Arguments OSetCounter {R} c.
Arguments OEncrypt {R} ad m.
Arguments OEncryptBA {R} cold ad m.
Arguments ODecrypt {R} ad c.
Arguments ODecryptBA {R} mold ad c.
Arguments ORandomize {R} r.
Arguments OClear {R}.
Arguments kg_default {R ckey} k.
Arguments kg_ctor {R ckey} k.
Arguments kg_set {R ckey} k.
Arguments kg_randomize {R ckey} k.
Arguments kg_clear {R ckey} k.
Arguments o_key {ckey} o.
Arguments o_nonce {ckey} o.

(* ---- the three families of key handling -------------------------------- *)

(* plain + SIV classes: struct { key[klen]; nonce[16] } m_state.
     T()    : memset(&m_state, 0, sizeof)
     T(key) : key ? memcpy(m_state.key, key, NCOPY) : memset(m_state.key, 0, NCOPY)
              NCOPY = key size, except siv80pq as found: ASCON128_KEY_SIZE = 16 of 20;
              the remaining bytes keep what the storage held before
     set_key: len == klen && key: memcpy;  len == 0: memset 0;  else false
     clear  : ascon_clean(&m_state)                                          *)
Definition keying_plain (klen ncopy : nat) : keying unit bytes := {|
  kg_default := zeros klen;
  kg_ctor := fun junk _ p _ =>
    let prior := resize junk klen in
    match p with
    | None => Ok (set_at prior 0 (zeros ncopy))
    | Some _ => obind (rd p ncopy) (fun b => Ok (set_at prior 0 b))
    end;
  kg_set := fun ck _ p len =>
    if (len =? klen) && is_some p then obind (rd p klen) (fun b => Ok (true, b))
    else if len =? 0 then Ok (true, zeros klen)
    else Ok (false, ck);
  kg_randomize := fun _ ck => ck;
  kg_clear := fun _ => zeros klen
|}.

Definition siv80pq_ncopy (v : code_version) : nat := match v with AsFound => 16 | Fixed => 20 end.

(* masked classes: ascon_masked_key_{128,160}_t m_key; m_nonce[16].
     T()    : memset(&m_key, 0, sizeof)            (all shares zero)
     T(key) : masked_key_init(&m_key, key ? key : zero_key)
     set_key: len == klen && key: masked_key_init(key); len == 0: masked_key_init(zero_key); else false
     randomize_key: masked_key_randomize;  clear: masked_key_free
   The masked key object is abstract: mk_init draws randomness r. *)
Section Masked.
Variable R mkey : Type.
Variable mk_init : R -> bytes -> mkey.        (* ascon_masked_key_*_init *)
Variable mk_zero_image : mkey.                (* the all-zero object image *)
Variable mk_randomize : R -> mkey -> mkey.    (* ascon_masked_key_*_randomize *)
Definition keying_masked (klen : nat) : keying R mkey := {|
  kg_default := mk_zero_image;
  kg_ctor := fun _ r p _ =>
    match p with
    | None => Ok (mk_init r (zeros klen))
    | Some _ => obind (rd p klen) (fun b => Ok (mk_init r b))
    end;
  kg_set := fun ck r p len =>
    if (len =? klen) && is_some p then obind (rd p klen) (fun b => Ok (true, mk_init r b))
    else if len =? 0 then Ok (true, mk_init r (zeros klen))
    else Ok (false, ck);
  kg_randomize := mk_randomize;
  kg_clear := fun _ => mk_zero_image
|}.
End Masked.

(* ISAP classes: asconXXX_isap_aead_key_t m_key; m_nonce[16].
     T()         : isap_init(&m_key, zero_key)
     T(key, len) : len == klen: isap_init(key); len == 80: load_key(key); else isap_init(zero_key)
     set_key     : len == klen && key: init(key); len == 80 && key: load_key(key);
                   len == 0: AS FOUND isap_init(&m_key, key) - the caller's pointer, NULL for the
                             documented set_key(0, 0);  FIXED isap_init(&m_key, zero_key);
                   else false
     clear       : isap_init(zero_key)                                      *)
Section Isap.
Variable pk : Type.
Variable isap_init : bytes -> pk.     (* asconXXX_isap_aead_init on klen bytes *)
Variable isap_load : bytes -> pk.     (* asconXXX_isap_aead_load_key on 80 bytes *)
Definition isap_zero_src (v : code_version) (klen : nat) (p : ptr) : ptr :=
  match v with AsFound => p | Fixed => Some (zeros klen) end.
Definition keying_isap (v : code_version) (klen : nat) : keying unit pk := {|
  kg_default := isap_init (zeros klen);
  kg_ctor := fun _ _ p len =>
    if len =? klen then obind (rd p klen) (fun b => Ok (isap_init b))
    else if len =? 80 then obind (rd p 80) (fun b => Ok (isap_load b))
    else Ok (isap_init (zeros klen));
  kg_set := fun ck _ p len =>
    if (len =? klen) && is_some p then obind (rd p klen) (fun b => Ok (true, isap_init b))
    else if (len =? 80) && is_some p then obind (rd p 80) (fun b => Ok (true, isap_load b))
    else if len =? 0 then obind (rd (isap_zero_src v klen p) klen) (fun b => Ok (true, isap_init b))
    else Ok (false, ck);
  kg_randomize := fun _ ck => ck;
  kg_clear := fun _ => isap_init (zeros klen)
|}.
Definition isap_key_of_doc (d : dkey) : pk :=
  match d with DRaw k => isap_init k | DSaved s => isap_load s end.
End Isap.

Definition raw_key_of_doc (d : dkey) : bytes := match d with DRaw k => k | DSaved s => s end.

(* ---- hash / hasha / xof_with_output_length<L> / xofa_with_output_length<L> ----
   Header-only inline wrappers around one C state object.  The C functions
   are abstract; cstr = bytes readable at a const char* (up to and excluding
   the first NUL is the C string). *)
Fixpoint strlen_b (b : bytes) : nat :=
  match b with [] => 0 | x :: b' => if (x =? 0)%N then 0 else S (strlen_b b') end.
Definition cstring (b : bytes) : bytes := firstn (strlen_b b) b.

Section Xof.
Variable S : Type.                                   (* ascon_xof_state_t / ascon_xofa_state_t *)
Variable c_init : S.                                 (* ascon_xof_init *)
Variable c_init_fixed : nat -> S.                    (* ascon_xof_init_fixed(outlen) *)
Variable c_init_custom : ptr -> bytes -> nat -> S.   (* ascon_xof_init_custom(function_name, custom, customlen, outlen) *)
Variable c_reinit : S -> S.
Variable c_reinit_fixed : S -> nat -> S.
Variable c_absorb : S -> bytes -> S.
Variable c_squeeze : S -> nat -> S * bytes.
Variable c_pad : S -> S.
Variable c_copy : S -> S -> S.                       (* ascon_xof_copy(dest, src): new dest *)
Variable c_free : S -> S.

Inductive xctor :=
| XDefault
| XCopy (junk other : S)                            (* copy constructor; junk = the raw storage *)
| XCustom (name : ptr) (custom : bytes)              (* (name, custom = 0, customlen = 0) and (name, byte_array) *).
Inductive xop :=
| XAssign (self : bool) (other : S)                  (* operator=; self: &other == this *)
| XReset
| XAbsorb (d : bytes)                                (* absorb(const unsigned char *, size_t) / absorb(byte_array) *)
| XAbsorbCStr (p : ptr)                              (* absorb(const char-pointer) *)
| XAbsorbString (s : bytes)                          (* absorb(const std::string ref) *)
| XSqueeze (n : nat)                                 (* squeeze(unsigned char *, size_t) *)
| XSqueezeBA (n : nat)                               (* byte_array squeeze(size_t) *)
| XPad.

Definition xof_ctor (L : nat) (c : xctor) : S :=
  match c with
  | XDefault => if L =? 0 then c_init else c_init_fixed L
  | XCopy junk other => c_copy junk other            (* ascon_xof_copy(&m_state, &other.m_state) *)
  | XCustom name custom => c_init_custom name custom L
  end.

Definition xof_step (L : nat) (s : S) (x : xop) : S * bytes :=
  match x with
  | XAssign self other => if self then (s, []) else (c_copy (c_free s) other, [])
  | XReset => (if L =? 0 then c_reinit s else c_reinit_fixed s L, [])
  | XAbsorb d => (c_absorb s d, [])
  | XAbsorbCStr p => match p with None => (s, []) | Some b => (c_absorb s (cstring b), []) end
  | XAbsorbString str => (c_absorb s str, [])
  | XSqueeze n => c_squeeze s n
  | XSqueezeBA n => let '(s', out) := c_squeeze s n in (s', set_at (zeros n) 0 out)
  | XPad => (c_pad s, [])
  end.

(* the C call sequence each member stands for *)
Inductive ccall :=
| CcInit | CcInitFixed (n : nat) | CcInitCustom (name : ptr) (custom : bytes) (n : nat)
| CcReinit | CcReinitFixed (n : nat) | CcAbsorb (d : bytes) | CcSqueeze (n : nat) | CcPad
| CcFree | CcCopyFrom (src : S).
Definition c_exec (s : S) (c : ccall) : S * bytes :=
  match c with
  | CcInit => (c_init, []) | CcInitFixed n => (c_init_fixed n, []) | CcInitCustom nm cu n => (c_init_custom nm cu n, [])
  | CcReinit => (c_reinit s, []) | CcReinitFixed n => (c_reinit_fixed s n, [])
  | CcAbsorb d => (c_absorb s d, []) | CcSqueeze n => c_squeeze s n | CcPad => (c_pad s, [])
  | CcFree => (c_free s, []) | CcCopyFrom src => (c_copy s src, [])
  end.
Fixpoint c_exec_list (s : S) (l : list ccall) : S * bytes :=
  match l with
  | [] => (s, [])
  | c :: l' => let '(s1, o1) := c_exec s c in let '(s2, o2) := c_exec_list s1 l' in (s2, o1 ++ o2)
  end.
(* the documented correspondence *)
Definition calls_of (L : nat) (x : xop) : list ccall :=
  match x with
  | XAssign self other => if self then [] else [CcFree; CcCopyFrom other]
  | XReset => if L =? 0 then [CcReinit] else [CcReinitFixed L]
  | XAbsorb d => [CcAbsorb d]
  | XAbsorbCStr None => []
  | XAbsorbCStr (Some b) => [CcAbsorb (cstring b)]
  | XAbsorbString str => [CcAbsorb str]
  | XSqueeze n => [CcSqueeze n]
  | XSqueezeBA n => [CcSqueeze n]
  | XPad => [CcPad]
  end.
End Xof.

(* hash / hasha: the same shape with update/finalize and the one-shot digest *)
Section Hash.
Variable S : Type.
Variable h_init : S.
Variable h_reinit : S -> S.
Variable h_update : S -> bytes -> S.
Variable h_finalize : S -> S * bytes.               (* 32 bytes *)
Variable h_copy : S -> S -> S.
Variable h_free : S -> S.
Variable h_oneshot : bytes -> bytes.                (* ascon_hash(out, in, inlen) *)

Inductive hop :=
| HAssign (self : bool) (other : S)
| HReset
| HUpdate (d : bytes)
| HUpdateCStr (p : ptr)
| HUpdateString (s : bytes)
| HFinalize
| HFinalizeBA
| HDigest (d : bytes).                              (* static digest(result, data, len) *)
Definition hash_ctor_default : S := h_init.
Definition hash_ctor_copy (junk other : S) : S := h_copy junk other.
Definition hash_step (s : S) (x : hop) : S * bytes :=
  match x with
  | HAssign self other => if self then (s, []) else (h_copy (h_free s) other, [])
  | HReset => (h_reinit s, [])
  | HUpdate d => (h_update s d, [])
  | HUpdateCStr p => match p with None => (s, []) | Some b => (h_update s (cstring b), []) end
  | HUpdateString str => (h_update s str, [])
  | HFinalize => h_finalize s
  | HFinalizeBA => let '(s', out) := h_finalize s in (s', set_at (zeros 32) 0 out)
  | HDigest d => (s, h_oneshot d)
  end.
Inductive hcall := HcReinit | HcUpdate (d : bytes) | HcFinalize | HcFree | HcCopyFrom (src : S) | HcOneshot (d : bytes).
Definition h_exec (s : S) (c : hcall) : S * bytes :=
  match c with
  | HcReinit => (h_reinit s, []) | HcUpdate d => (h_update s d, []) | HcFinalize => h_finalize s
  | HcFree => (h_free s, []) | HcCopyFrom src => (h_copy s src, []) | HcOneshot d => (s, h_oneshot d)
  end.
Definition hcalls_of (x : hop) : list hcall :=
  match x with
  | HAssign self other => if self then [] else [HcFree; HcCopyFrom other]
  | HReset => [HcReinit]
  | HUpdate d => [HcUpdate d]
  | HUpdateCStr None => []
  | HUpdateCStr (Some b) => [HcUpdate (cstring b)]
  | HUpdateString str => [HcUpdate str]
  | HFinalize => [HcFinalize]
  | HFinalizeBA => [HcFinalize]
  | HDigest d => [HcOneshot d]
  end.
Fixpoint h_exec_list (s : S) (l : list hcall) : S * bytes :=
  match l with
  | [] => (s, [])
  | c :: l' => let '(s1, o1) := h_exec s c in let '(s2, o2) := h_exec_list s1 l' in (s2, o1 ++ o2)
  end.
End Hash.

(* ---- utility.h helpers --------------------------------------------------
   c_to_hex in upper outlen   = ascon_bytes_to_hex: Some chars (NUL excluded) | None (-1)
   c_from_hex outlen chars    = ascon_bytes_from_hex: Some bytes written | None (-1)            *)
Section Helpers.
Variable c_to_hex : bytes -> bool -> nat -> option bytes.
Variable c_from_hex : nat -> bytes -> option bytes.

(* bytes_from_data(data, len): byte_array result(len); memcpy(result.data(), data, len) *)
Definition cpp_bytes_from_data (p : ptr) (len : nat) : outcome bytes :=
  if len =? 0 then Ok [] else obind (rd p len) (fun b => Ok (set_at (zeros len) 0 b)).

(* bytes_to_hex(in, len, upper): char out[2*len+1]; ascon_bytes_to_hex(out, sizeof(out), ...); std::string(out).
   junk = the array before the call (it stays when the C function refuses) *)
Definition cpp_bytes_to_hex (junk : bytes) (input : bytes) (upper : bool) : bytes :=
  let n := 2 * length input + 1 in
  let out := match c_to_hex input upper n with
             | Some chars => set_at (resize junk n) 0 (chars ++ [0%N])
             | None => resize junk n
             end in
  cstring out.

(* bytes_from_hex(str, len): byte_array vec(len / 2); r = ascon_bytes_from_hex(vec.data(), vec.size(), str, len);
   r != -1 ? vec : byte_array() *)
Definition cpp_bytes_from_hex (chars : bytes) : bytes :=
  let vec := zeros (length chars / 2) in
  match c_from_hex (length chars / 2) chars with
  | Some written => set_at vec 0 written
  | None => []
  end.
(* bytes_from_hex(const char *str): str ? strlen(str) : 0 *)
Definition cpp_bytes_from_hex_cstr (p : ptr) : bytes :=
  match p with None => cpp_bytes_from_hex [] | Some b => cpp_bytes_from_hex (cstring b) end.
End Helpers.
