(* Executable model of the C++ layer of ascon-suite (property C17):
     src/cplusplus/ascon-aead-cpp.cpp         aead (byte_array overloads), aead128, aead128a, aead80pq
     src/cplusplus/ascon-aead-masked-cpp.cpp  aead128_masked, aead128a_masked, aead80pq_masked
     src/cplusplus/ascon-siv-cpp.cpp          siv128, siv128a, siv80pq
     src/cplusplus/ascon-isap-cpp.cpp         isap128, isap128a, isap80pq
     src/ascon/hash.h, xof.h                  hash, hasha, xof_with_output_length<L>, xofa_with_output_length<L>
     src/ascon/utility.h                      bytes_from_data, bytes_to_hex, bytes_from_hex
   An object is a record {key object; nonce}.  The C functions the classes
   forward to are Section variables (abstract): the statements are about the
   forwarding, the keying and the nonce handling, for every C function.

   Two machines are defined over the same operations:
     * the CODE machine (names code_...): what the .cpp files do, including what they
       do with NULL pointers, with the memory a constructor does not write,
       and with the pointer argument of a zero-length set_key;
     * the DOCUMENTED machine (names doc_...): what the Doxygen comments promise: the
       key is the given key / all-zero for a null key or a zero length / the
       loaded saved key; the nonce is left-padded or truncated; a packet is
       the C function under (that key, that nonce); the nonce advances by one
       after encrypt and after a successful decrypt only.
   Proofs/CppP.v proves that they agree (or exhibits where they do not). *)
From AsconV Require Export Model.Aeadm.
From Coq Require Import ZArith.
Local Open Scope nat_scope.

(* ---- which code is modelled -------------------------------------------
   The model describes the code as it exists.  Two places of the C++ layer
   depart from the documentation in the pinned tree; each has a flag here.
   ONE-LINE EDITS after the corresponding fix is applied to /repo:
     siv80pq_code       := CodeFixed   (fixes/C17-siv80pq-key-ctor.patch)
     isap_setkey0_code  := CodeFixed   (fixes/C17-isap-setkey-zero.patch)        *)
Inductive cpp_code_version := CodeAsFound | CodeFixed.
Definition siv80pq_code : cpp_code_version := CodeFixed.
Definition isap_setkey0_code : cpp_code_version := CodeFixed.

(* ---- pointers, faults, byte_array -------------------------------------- *)

(* a pointer argument: None = NULL; Some b = the bytes readable at it *)
Definition cpp_ptr := option bytes.
Definition cpp_is_some {A} (o : option A) : bool := match o with Some _ => true | None => false end.

(* CppFault = the call reads through NULL or past the readable bytes (a crash /
   undefined behaviour in the real code) *)
Inductive cpp_outcome (A : Type) := CppOk (a : A) | CppFault.
Arguments CppOk {A} a.
Arguments CppFault {A}.

Definition cpp_rd (p : cpp_ptr) (n : nat) : cpp_outcome bytes :=
  match p with
  | None => CppFault
  | Some b => if length b <? n then CppFault else CppOk (firstn n b)
  end.

Definition cpp_obind {A B} (x : cpp_outcome A) (f : A -> cpp_outcome B) : cpp_outcome B :=
  match x with CppOk a => f a | CppFault => CppFault end.

(* std::vector<unsigned char>::resize: keep the prefix, zero-fill the rest *)
Definition cpp_resize (old : bytes) (n : nat) : bytes := firstn n old ++ zeros (n - length old).

(* ---- nonce members (identical text in all twelve classes) -------------- *)

(* set_nonce(nonce, len):  len >= 16: memcpy 16;  else memset(0, 16-len) and,
   when len > 0, memcpy(nonce + 16 - len, p, len) *)
Definition cpp_code_set_nonce (p : cpp_ptr) (len : nat) : cpp_outcome bytes :=
  if 16 <=? len then cpp_rd p 16
  else if len =? 0 then CppOk (zeros 16)
  else cpp_obind (cpp_rd p len) (fun b => CppOk (zeros (16 - len) ++ b)).

(* documented: shorter values are padded on the left with zero bytes, longer
   ones truncated to the first nonce_size() bytes *)
Definition cpp_doc_set_nonce (p : cpp_ptr) (len : nat) : option bytes :=
  if len =? 0 then Some (zeros 16)
  else match p with
       | None => None
       | Some b => if length b <? Nat.min len 16 then None
                   else let v := firstn len b in
                        Some (if length v <? 16 then zeros (16 - length v) ++ v else firstn 16 v)
       end.

(* ascon_aead_set_counter: be_store_word64(npub, 0); be_store_word64(npub + 8, n) *)
Definition cpp_code_set_counter (c : N) : bytes := be_encode 8 0 ++ be_encode 8 c.
(* documented: big-endian value with leading zeroes making up nonce_size() bytes *)
Definition cpp_doc_set_counter (c : N) : bytes := be_encode 16 c.

(* ---- documented keys --------------------------------------------------- *)
Inductive cpp_dkey :=
| CppRawKey (k : bytes)       (* a key of key_size() bytes *)
| CppSavedKey (s : bytes).    (* ISAP: an 80-byte saved key *)

(* operations on a cipher object and what the caller observes *)
Section Cipher.
Variable R : Type.                  (* randomness consumed by one keying call (masked classes) *)

Inductive cpp_ctor :=
| CppDefault                                             (* T()                                  *)
| CppKeyCtor (junk : bytes) (r : R) (p : cpp_ptr) (len : nat).   (* T(key) / isap: T(key, len); junk = the
                                                          object's storage before construction  *)
Inductive cpp_op :=
| CpSetKey (r : R) (p : cpp_ptr) (len : nat)
| CpSetNonce (p : cpp_ptr) (len : nat)
| CpSetCounter (c : N)
| CpEncrypt (ad m : bytes)                  (* encrypt(c, m, len, ad, adlen)                      *)
| CpEncryptBA (cold ad m : bytes)           (* encrypt(byte_array &c, m[, ad]); cold = old c      *)
| CpDecrypt (ad c : bytes)                  (* decrypt(m, c, len, ad, adlen)                      *)
| CpDecryptBA (mold ad c : bytes)           (* decrypt(byte_array &m, c[, ad]); mold = old m      *)
| CpRandomize (r : R)                       (* randomize_key() (masked classes)                   *)
| CpClear.                                  (* clear()                                            *)

Inductive cpp_res :=
| CprUnit
| CprBool (b : bool)                         (* set_key *)
| CprEnc (r : Z) (c : bytes)                 (* return value, bytes written to c *)
| CprDec (r : Z) (m : option bytes)          (* return value, bytes written to m (None: nothing written) *)
| CprEncBA (c : bytes)                       (* the byte_array c after the call *)
| CprDecBA (b : bool) (m : bytes).           (* return value, the byte_array m after the call *)

Variable ckey : Type.               (* the C key object held by the class *)
Variable klen : nat.                (* key_size() *)
Variable c_encrypt : ckey -> bytes -> bytes -> bytes -> bytes * nat.     (* key nonce ad m -> (c, *clen) *)
Variable c_decrypt : ckey -> bytes -> bytes -> bytes -> dec_result.      (* key nonce ad c *)

Record cpp_obj := { cpo_key : ckey; cpo_nonce : bytes }.
Definition cpp_bump (o : cpp_obj) : cpp_obj := {| cpo_key := cpo_key o; cpo_nonce := increment_nonce (cpo_nonce o) |}.

(* T::cpp_do_encrypt / T::cpp_do_decrypt (same text in all twelve classes) *)
Definition cpp_do_encrypt (o : cpp_obj) (ad m : bytes) : cpp_obj * (Z * bytes) :=
  let '(c, clen) := c_encrypt (cpo_key o) (cpo_nonce o) ad m in
  (cpp_bump o, (Z.of_nat clen, c)).

Definition cpp_do_decrypt (o : cpp_obj) (ad c : bytes) : cpp_obj * (Z * option bytes) :=
  match c_decrypt (cpo_key o) (cpo_nonce o) ad c with
  | DecShort => (o, ((-1)%Z, None))                     (* result < 0; *mlen, m untouched *)
  | DecDone r m => if (0 <=? r)%Z then (cpp_bump o, (Z.of_nat (length m), Some m))
                   else (o, ((-1)%Z, Some m))
  end.

(* aead::encrypt(byte_array &c, m, ad): c.resize(len + tag_size()); cpp_do_encrypt(c.data(), ...) *)
Definition cpp_ba_encrypt (o : cpp_obj) (cold ad m : bytes) : cpp_obj * bytes :=
  let buf := cpp_resize cold (length m + 16) in
  let '(o', (_, c)) := cpp_do_encrypt o ad m in
  (o', set_at buf 0 c).

(* aead::decrypt(byte_array &m, c, ad) *)
Definition cpp_ba_decrypt (o : cpp_obj) (mold ad c : bytes) : cpp_obj * (bool * bytes) :=
  if length c <? 16 then (o, (false, []))
  else
    let buf := cpp_resize mold (length c - 16) in
    let '(o', (r, w)) := cpp_do_decrypt o ad c in
    if (r <? 0)%Z then (o', (false, []))
    else (o', (true, match w with Some m => set_at buf 0 m | None => buf end)).

(* the key-handling members differ between the class families: a method table *)
Record cpp_keying := {
  kg_default : ckey;                                         (* T()                      *)
  kg_ctor : bytes -> R -> cpp_ptr -> nat -> cpp_outcome ckey;        (* T(key[, len])            *)
  kg_set : ckey -> R -> cpp_ptr -> nat -> cpp_outcome (bool * ckey); (* set_key(key, len)        *)
  kg_randomize : R -> ckey -> ckey;                          (* randomize_key()          *)
  kg_clear : ckey -> ckey                                    (* clear()                  *)
}.
Variable K : cpp_keying.

Definition cpp_code_ctor (c : cpp_ctor) : cpp_outcome cpp_obj :=
  match c with
  | CppDefault => CppOk {| cpo_key := kg_default K; cpo_nonce := zeros 16 |}
  | CppKeyCtor junk r p len => cpp_obind (kg_ctor K junk r p len) (fun ck => CppOk {| cpo_key := ck; cpo_nonce := zeros 16 |})
  end.

Definition cpp_code_step (o : cpp_obj) (x : cpp_op) : cpp_outcome (cpp_obj * cpp_res) :=
  match x with
  | CpSetKey r p len => cpp_obind (kg_set K (cpo_key o) r p len)
                             (fun '(b, ck) => CppOk ({| cpo_key := ck; cpo_nonce := cpo_nonce o |}, CprBool b))
  | CpSetNonce p len => cpp_obind (cpp_code_set_nonce p len) (fun n => CppOk ({| cpo_key := cpo_key o; cpo_nonce := n |}, CprUnit))
  | CpSetCounter c => CppOk ({| cpo_key := cpo_key o; cpo_nonce := cpp_code_set_counter c |}, CprUnit)
  | CpEncrypt ad m => let '(o', (r, c)) := cpp_do_encrypt o ad m in CppOk (o', CprEnc r c)
  | CpEncryptBA cold ad m => let '(o', c) := cpp_ba_encrypt o cold ad m in CppOk (o', CprEncBA c)
  | CpDecrypt ad c => let '(o', (r, m)) := cpp_do_decrypt o ad c in CppOk (o', CprDec r m)
  | CpDecryptBA mold ad c => let '(o', (b, m)) := cpp_ba_decrypt o mold ad c in CppOk (o', CprDecBA b m)
  | CpRandomize r => CppOk ({| cpo_key := kg_randomize K r (cpo_key o); cpo_nonce := cpo_nonce o |}, CprUnit)
  | CpClear => CppOk ({| cpo_key := kg_clear K (cpo_key o); cpo_nonce := zeros 16 |}, CprUnit)
  end.

Fixpoint cpp_code_steps (o : cpp_obj) (ops : list cpp_op) : cpp_outcome (cpp_obj * list cpp_res) :=
  match ops with
  | [] => CppOk (o, [])
  | x :: ops' => cpp_obind (cpp_code_step o x) (fun '(o1, r) =>
                 cpp_obind (cpp_code_steps o1 ops') (fun '(o2, rs) => CppOk (o2, r :: rs)))
  end.
Definition cpp_code_run (c : cpp_ctor) (ops : list cpp_op) : cpp_outcome (cpp_obj * list cpp_res) :=
  cpp_obind (cpp_code_ctor c) (fun o => cpp_code_steps o ops).

(* ---- the documented machine ------------------------------------------- *)
Variable has_saved : bool.            (* ISAP: set_key / the constructor accept an 80-byte saved key *)
Variable ctor_has_len : bool.         (* ISAP: the key constructor takes (key, len) *)
Variable key_of_doc : cpp_dkey -> ckey.   (* the C key object for a documented key *)

Record cpp_dstate := { cpd_key : option cpp_dkey; cpd_nonce : option bytes }.   (* None = unspecified (after clear()) *)

(* the key constructor.  None = not a documented use. *)
Definition cpp_doc_ctor_key (p : cpp_ptr) (len : nat) : option cpp_dkey :=
  if ctor_has_len then
    if len =? 0 then Some (CppRawKey (zeros klen))
    else match p with
         | None => None
         | Some b => if len =? klen then (if length b <? klen then None else Some (CppRawKey (firstn klen b)))
                     else if (len =? 80) && has_saved then (if length b <? 80 then None else Some (CppSavedKey (firstn 80 b)))
                     else None
         end
  else match p with
       | None => Some (CppRawKey (zeros klen))                 (* "all-zeroes if key is NULL" *)
       | Some b => if length b <? klen then None else Some (CppRawKey (firstn klen b))
       end.

Definition cpp_doc_ctor (c : cpp_ctor) : option cpp_dstate :=
  match c with
  | CppDefault => Some {| cpd_key := Some (CppRawKey (zeros klen)); cpd_nonce := Some (zeros 16) |}
  | CppKeyCtor _ _ p len => match cpp_doc_ctor_key p len with
                      | Some k => Some {| cpd_key := Some k; cpd_nonce := Some (zeros 16) |}
                      | None => None
                      end
  end.

(* set_key(key, len).  None = not a legal call (pointer shorter than len);
   Some None = returns false, nothing changes;  Some (Some k) = returns true, key is k *)
Definition cpp_doc_set_key (p : cpp_ptr) (len : nat) : option (option cpp_dkey) :=
  if len =? 0 then Some (Some (CppRawKey (zeros klen)))        (* zero length = the all-zero key *)
  else if (len =? klen) || ((len =? 80) && has_saved) then
    match p with
    | None => Some None                                   (* invalid key pointer: false *)
    | Some b => if length b <? len then None
                else Some (Some (if len =? klen then CppRawKey (firstn klen b) else CppSavedKey (firstn 80 b)))
    end
  else Some None.                                         (* any other length: false *)

Definition cpp_doc_step (d : cpp_dstate) (x : cpp_op) : option (cpp_dstate * cpp_res) :=
  match x with
  | CpSetKey _ p len =>
      match cpp_doc_set_key p len with
      | None => None
      | Some None => Some (d, CprBool false)
      | Some (Some k) => Some ({| cpd_key := Some k; cpd_nonce := cpd_nonce d |}, CprBool true)
      end
  | CpSetNonce p len => match cpp_doc_set_nonce p len with
                       | Some n => Some ({| cpd_key := cpd_key d; cpd_nonce := Some n |}, CprUnit)
                       | None => None
                       end
  | CpSetCounter c => if (c <? 2 ^ 64)%N                 (* the parameter is a uint64_t *)
                     then Some ({| cpd_key := cpd_key d; cpd_nonce := Some (cpp_doc_set_counter c) |}, CprUnit) else None
  | CpEncrypt ad m =>
      match cpd_key d, cpd_nonce d with
      | Some k, Some n => let '(c, clen) := c_encrypt (key_of_doc k) n ad m in
                          Some ({| cpd_key := cpd_key d; cpd_nonce := Some (increment_nonce n) |}, CprEnc (Z.of_nat clen) c)
      | _, _ => None
      end
  | CpEncryptBA _ ad m =>
      match cpd_key d, cpd_nonce d with
      | Some k, Some n => let '(c, _) := c_encrypt (key_of_doc k) n ad m in
                          Some ({| cpd_key := cpd_key d; cpd_nonce := Some (increment_nonce n) |}, CprEncBA c)
      | _, _ => None
      end
  | CpDecrypt ad c =>
      match cpd_key d, cpd_nonce d with
      | Some k, Some n =>
          match c_decrypt (key_of_doc k) n ad c with
          | DecShort => Some (d, CprDec (-1) None)
          | DecDone r m => if (0 <=? r)%Z
                           then Some ({| cpd_key := cpd_key d; cpd_nonce := Some (increment_nonce n) |}, CprDec (Z.of_nat (length m)) (Some m))
                           else Some (d, CprDec (-1) (Some m))
          end
      | _, _ => None
      end
  | CpDecryptBA _ ad c =>
      match cpd_key d, cpd_nonce d with
      | Some k, Some n =>
          match c_decrypt (key_of_doc k) n ad c with
          | DecShort => Some (d, CprDecBA false [])
          | DecDone r m => if (0 <=? r)%Z
                           then Some ({| cpd_key := cpd_key d; cpd_nonce := Some (increment_nonce n) |}, CprDecBA true m)
                           else Some (d, CprDecBA false [])
          end
      | _, _ => None
      end
  | CpRandomize _ => Some (d, CprUnit)
  | CpClear => Some ({| cpd_key := None; cpd_nonce := None |}, CprUnit)
  end.

Fixpoint cpp_doc_steps (d : cpp_dstate) (ops : list cpp_op) : option (cpp_dstate * list cpp_res) :=
  match ops with
  | [] => Some (d, [])
  | x :: ops' => match cpp_doc_step d x with
                 | None => None
                 | Some (d1, r) => match cpp_doc_steps d1 ops' with
                                   | None => None
                                   | Some (d2, rs) => Some (d2, r :: rs)
                                   end
                 end
  end.
Definition cpp_doc_run (c : cpp_ctor) (ops : list cpp_op) : option (cpp_dstate * list cpp_res) :=
  match cpp_doc_ctor c with Some d => cpp_doc_steps d ops | None => None end.

(* when does an object hold what the documentation says *)
Variable keq : ckey -> ckey -> Prop.      (* "the same key": equality, or equal unmasked value *)
Definition cpp_agrees (o : cpp_obj) (d : cpp_dstate) : Prop :=
  (forall k, cpd_key d = Some k -> keq (cpo_key o) (key_of_doc k)) /\
  (forall n, cpd_nonce d = Some n -> cpo_nonce o = n).

(* THE STATEMENT of C17 for one cipher class: every history the documentation
   gives a meaning to runs without fault, every call returns exactly what the
   documented machine (= the C function under the documented key and nonce)
   returns, and the object ends up holding the documented key and nonce. *)
Definition C17_stmt : Prop :=
  forall c ops d rs, cpp_doc_run c ops = Some (d, rs) ->
  exists o, cpp_code_run c ops = CppOk (o, rs) /\ cpp_agrees o d.

End Cipher.
Arguments CppDefault {R}.
Arguments CppKeyCtor {R} junk r p len.
Arguments CpSetKey {R} r p len.
Arguments CpSetNonce {R} p len.
Arguments CpSetCounter {R} c.
Arguments CpEncrypt {R} ad m.
Arguments CpEncryptBA {R} cold ad m.
Arguments CpDecrypt {R} ad c.
Arguments CpDecryptBA {R} mold ad c.
Arguments CpRandomize {R} r.
Arguments CpClear {R}.
Arguments kg_default {R ckey} _.
Arguments kg_ctor {R ckey} _.
Arguments kg_set {R ckey} _.
Arguments kg_randomize {R ckey} _.
Arguments kg_clear {R ckey} _.
Arguments cpo_key {ckey} _.
Arguments cpo_nonce {ckey} _.

(* ---- the three families of key handling -------------------------------- *)

(* plain + SIV classes: struct { key[klen]; nonce[16] } m_state.
     T()    : memset(&m_state, 0, sizeof)
     T(key) : key ? memcpy(m_state.key, key, NCOPY) : memset(m_state.key, 0, NCOPY)
              NCOPY = key size, except siv80pq as found: ASCON128_KEY_SIZE = 16 of 20;
              the remaining bytes keep what the storage held before
     set_key: len == klen && key: memcpy;  len == 0: memset 0;  else false
     clear  : ascon_clean(&m_state)                                          *)
Definition cpp_keying_plain (klen ncopy : nat) : cpp_keying unit bytes := {|
  kg_default := zeros klen;
  kg_ctor := fun junk _ p _ =>
    let prior := cpp_resize junk klen in
    match p with
    | None => CppOk (set_at prior 0 (zeros ncopy))
    | Some _ => cpp_obind (cpp_rd p ncopy) (fun b => CppOk (set_at prior 0 b))
    end;
  kg_set := fun ck _ p len =>
    if (len =? klen) && cpp_is_some p then cpp_obind (cpp_rd p klen) (fun b => CppOk (true, b))
    else if len =? 0 then CppOk (true, zeros klen)
    else CppOk (false, ck);
  kg_randomize := fun _ ck => ck;
  kg_clear := fun _ => zeros klen
|}.

Definition cpp_siv80pq_ncopy (v : cpp_code_version) : nat := match v with CodeAsFound => 16 | CodeFixed => 20 end.

(* masked classes: ascon_masked_key_{128,160}_t m_key; m_nonce[16].
     T()    : memset(&m_key, 0, sizeof)            (all shares zero)
     T(key) : masked_key_init(&m_key, key ? key : zero_key)
     set_key: len == klen && key: masked_key_init(key); len == 0: masked_key_init(zero_key); else false
     randomize_key: masked_key_randomize;  clear: masked_key_free
   The masked key object is abstract: mk_init draws randomness r. *)
Section Masked.
Variable R mkey : Type.
Variable mk_init : R -> bytes -> mkey.        (* ascon_masked_key_*_init *)
Variable mk_zero_image : mkey.                (* the all-zero object image *)
Variable mk_randomize : R -> mkey -> mkey.    (* ascon_masked_key_*_randomize *)
Definition cpp_keying_masked (klen : nat) : cpp_keying R mkey := {|
  kg_default := mk_zero_image;
  kg_ctor := fun _ r p _ =>
    match p with
    | None => CppOk (mk_init r (zeros klen))
    | Some _ => cpp_obind (cpp_rd p klen) (fun b => CppOk (mk_init r b))
    end;
  kg_set := fun ck r p len =>
    if (len =? klen) && cpp_is_some p then cpp_obind (cpp_rd p klen) (fun b => CppOk (true, mk_init r b))
    else if len =? 0 then CppOk (true, mk_init r (zeros klen))
    else CppOk (false, ck);
  kg_randomize := mk_randomize;
  kg_clear := fun _ => mk_zero_image
|}.
End Masked.

(* ISAP classes: asconXXX_isap_aead_key_t m_key; m_nonce[16].
     T()         : isap_init(&m_key, zero_key)
     T(key, len) : len == klen: isap_init(key); len == 80: load_key(key); else isap_init(zero_key)
     set_key     : len == klen && key: init(key); len == 80 && key: load_key(key);
                   len == 0: AS FOUND isap_init(&m_key, key) - the caller's pointer, NULL for the
                             documented set_key(0, 0);  FIXED isap_init(&m_key, zero_key);
                   else false
     clear       : isap_init(zero_key)                                      *)
Section Isap.
Variable pk : Type.
Variable isap_init : bytes -> pk.     (* asconXXX_isap_aead_init on klen bytes *)
Variable isap_load : bytes -> pk.     (* asconXXX_isap_aead_load_key on 80 bytes *)
Definition cpp_isap_zero_src (v : cpp_code_version) (klen : nat) (p : cpp_ptr) : cpp_ptr :=
  match v with CodeAsFound => p | CodeFixed => Some (zeros klen) end.
Definition cpp_keying_isap (v : cpp_code_version) (klen : nat) : cpp_keying unit pk := {|
  kg_default := isap_init (zeros klen);
  kg_ctor := fun _ _ p len =>
    if len =? klen then cpp_obind (cpp_rd p klen) (fun b => CppOk (isap_init b))
    else if len =? 80 then cpp_obind (cpp_rd p 80) (fun b => CppOk (isap_load b))
    else CppOk (isap_init (zeros klen));
  kg_set := fun ck _ p len =>
    if (len =? klen) && cpp_is_some p then cpp_obind (cpp_rd p klen) (fun b => CppOk (true, isap_init b))
    else if (len =? 80) && cpp_is_some p then cpp_obind (cpp_rd p 80) (fun b => CppOk (true, isap_load b))
    else if len =? 0 then cpp_obind (cpp_rd (cpp_isap_zero_src v klen p) klen) (fun b => CppOk (true, isap_init b))
    else CppOk (false, ck);
  kg_randomize := fun _ ck => ck;
  kg_clear := fun _ => isap_init (zeros klen)
|}.
Definition cpp_isap_key_of_doc (d : cpp_dkey) : pk :=
  match d with CppRawKey k => isap_init k | CppSavedKey s => isap_load s end.
End Isap.

Definition cpp_raw_key_of_doc (d : cpp_dkey) : bytes := match d with CppRawKey k => k | CppSavedKey s => s end.

(* ---- hash / hasha / xof_with_output_length<L> / xofa_with_output_length<L> ----
   Header-only inline wrappers around one C state object.  The C functions
   are abstract; cstr = bytes readable at a const char* (up to and excluding
   the first NUL is the C string). *)
Fixpoint cpp_strlen_b (b : bytes) : nat :=
  match b with [] => 0 | x :: b' => if (x =? 0)%N then 0 else S (cpp_strlen_b b') end.
Definition cpp_cstring (b : bytes) : bytes := firstn (cpp_strlen_b b) b.

Section Xof.
Variable S : Type.                                   (* ascon_xof_state_t / ascon_xofa_state_t *)
Variable c_init : S.                                 (* ascon_xof_init *)
Variable c_init_fixed : nat -> S.                    (* ascon_xof_init_fixed(outlen) *)
Variable c_init_custom : cpp_ptr -> bytes -> nat -> S.   (* ascon_xof_init_custom(function_name, custom, customlen, outlen) *)
Variable c_reinit : S -> S.
Variable c_reinit_fixed : S -> nat -> S.
Variable c_absorb : S -> bytes -> S.
Variable c_squeeze : S -> nat -> S * bytes.
Variable c_pad : S -> S.
Variable c_copy : S -> S -> S.                       (* ascon_xof_copy(dest, src): new dest *)
Variable c_free : S -> S.

Inductive cpp_xctor :=
| CpxDefault
| CpxCopy (junk other : S)                            (* copy constructor; junk = the raw storage *)
| CpxCustom (name : cpp_ptr) (custom : bytes)              (* (name, custom = 0, customlen = 0) and (name, byte_array) *).
Inductive cpp_xop :=
| CpxAssign (self : bool) (other : S)                  (* operator=; self: &other == this *)
| CpxReset
| CpxAbsorb (d : bytes)                                (* absorb(const unsigned char *, size_t) / absorb(byte_array) *)
| CpxAbsorbCStr (p : cpp_ptr)                              (* absorb(const char-pointer) *)
| CpxAbsorbString (s : bytes)                          (* absorb(const std::string ref) *)
| CpxSqueeze (n : nat)                                 (* squeeze(unsigned char *, size_t) *)
| CpxSqueezeBA (n : nat)                               (* byte_array squeeze(size_t) *)
| CpxPad.

Definition cpp_xof_ctor (L : nat) (c : cpp_xctor) : S :=
  match c with
  | CpxDefault => if L =? 0 then c_init else c_init_fixed L
  | CpxCopy junk other => c_copy junk other            (* ascon_xof_copy(&m_state, &other.m_state) *)
  | CpxCustom name custom => c_init_custom name custom L
  end.

Definition cpp_xof_step (L : nat) (s : S) (x : cpp_xop) : S * bytes :=
  match x with
  | CpxAssign self other => if self then (s, []) else (c_copy (c_free s) other, [])
  | CpxReset => (if L =? 0 then c_reinit s else c_reinit_fixed s L, [])
  | CpxAbsorb d => (c_absorb s d, [])
  | CpxAbsorbCStr p => match p with None => (s, []) | Some b => (c_absorb s (cpp_cstring b), []) end
  | CpxAbsorbString str => (c_absorb s str, [])
  | CpxSqueeze n => c_squeeze s n
  | CpxSqueezeBA n => let '(s', out) := c_squeeze s n in (s', set_at (zeros n) 0 out)
  | CpxPad => (c_pad s, [])
  end.

(* the C call sequence each member stands for *)
Inductive cpp_ccall :=
| CcInit | CcInitFixed (n : nat) | CcInitCustom (name : cpp_ptr) (custom : bytes) (n : nat)
| CcReinit | CcReinitFixed (n : nat) | CcAbsorb (d : bytes) | CcSqueeze (n : nat) | CcPad
| CcFree | CcCopyFrom (src : S).
Definition cpp_c_exec (s : S) (c : cpp_ccall) : S * bytes :=
  match c with
  | CcInit => (c_init, []) | CcInitFixed n => (c_init_fixed n, []) | CcInitCustom nm cu n => (c_init_custom nm cu n, [])
  | CcReinit => (c_reinit s, []) | CcReinitFixed n => (c_reinit_fixed s n, [])
  | CcAbsorb d => (c_absorb s d, []) | CcSqueeze n => c_squeeze s n | CcPad => (c_pad s, [])
  | CcFree => (c_free s, []) | CcCopyFrom src => (c_copy s src, [])
  end.
Fixpoint cpp_c_exec_list (s : S) (l : list cpp_ccall) : S * bytes :=
  match l with
  | [] => (s, [])
  | c :: l' => let '(s1, o1) := cpp_c_exec s c in let '(s2, o2) := cpp_c_exec_list s1 l' in (s2, o1 ++ o2)
  end.
(* the documented correspondence *)
Definition cpp_calls_of (L : nat) (x : cpp_xop) : list cpp_ccall :=
  match x with
  | CpxAssign self other => if self then [] else [CcFree; CcCopyFrom other]
  | CpxReset => if L =? 0 then [CcReinit] else [CcReinitFixed L]
  | CpxAbsorb d => [CcAbsorb d]
  | CpxAbsorbCStr None => []
  | CpxAbsorbCStr (Some b) => [CcAbsorb (cpp_cstring b)]
  | CpxAbsorbString str => [CcAbsorb str]
  | CpxSqueeze n => [CcSqueeze n]
  | CpxSqueezeBA n => [CcSqueeze n]
  | CpxPad => [CcPad]
  end.
End Xof.

(* hash / hasha: the same shape with update/finalize and the one-shot digest *)
Section Hash.
Variable S : Type.
Variable h_init : S.
Variable h_reinit : S -> S.
Variable h_update : S -> bytes -> S.
Variable h_finalize : S -> S * bytes.               (* 32 bytes *)
Variable h_copy : S -> S -> S.
Variable h_free : S -> S.
Variable h_oneshot : bytes -> bytes.                (* ascon_hash(out, in, inlen) *)

Inductive cpp_hop :=
| CphAssign (self : bool) (other : S)
| CphReset
| CphUpdate (d : bytes)
| CphUpdateCStr (p : cpp_ptr)
| CphUpdateString (s : bytes)
| CphFinalize
| CphFinalizeBA
| CphDigest (d : bytes).                              (* static digest(result, data, len) *)
Definition cpp_hash_ctor_default : S := h_init.
Definition cpp_hash_ctor_copy (junk other : S) : S := h_copy junk other.
Definition cpp_hash_step (s : S) (x : cpp_hop) : S * bytes :=
  match x with
  | CphAssign self other => if self then (s, []) else (h_copy (h_free s) other, [])
  | CphReset => (h_reinit s, [])
  | CphUpdate d => (h_update s d, [])
  | CphUpdateCStr p => match p with None => (s, []) | Some b => (h_update s (cpp_cstring b), []) end
  | CphUpdateString str => (h_update s str, [])
  | CphFinalize => h_finalize s
  | CphFinalizeBA => let '(s', out) := h_finalize s in (s', set_at (zeros 32) 0 out)
  | CphDigest d => (s, h_oneshot d)
  end.
Inductive cpp_hcall := HcReinit | HcUpdate (d : bytes) | HcFinalize | HcFree | HcCopyFrom (src : S) | HcOneshot (d : bytes).
Definition cpp_h_exec (s : S) (c : cpp_hcall) : S * bytes :=
  match c with
  | HcReinit => (h_reinit s, []) | HcUpdate d => (h_update s d, []) | HcFinalize => h_finalize s
  | HcFree => (h_free s, []) | HcCopyFrom src => (h_copy s src, []) | HcOneshot d => (s, h_oneshot d)
  end.
Definition cpp_hcalls_of (x : cpp_hop) : list cpp_hcall :=
  match x with
  | CphAssign self other => if self then [] else [HcFree; HcCopyFrom other]
  | CphReset => [HcReinit]
  | CphUpdate d => [HcUpdate d]
  | CphUpdateCStr None => []
  | CphUpdateCStr (Some b) => [HcUpdate (cpp_cstring b)]
  | CphUpdateString str => [HcUpdate str]
  | CphFinalize => [HcFinalize]
  | CphFinalizeBA => [HcFinalize]
  | CphDigest d => [HcOneshot d]
  end.
Fixpoint cpp_h_exec_list (s : S) (l : list cpp_hcall) : S * bytes :=
  match l with
  | [] => (s, [])
  | c :: l' => let '(s1, o1) := cpp_h_exec s c in let '(s2, o2) := cpp_h_exec_list s1 l' in (s2, o1 ++ o2)
  end.
End Hash.

(* ---- utility.h helpers --------------------------------------------------
   c_to_hex in upper outlen   = ascon_bytes_to_hex: Some chars (NUL excluded) | None (-1)
   c_from_hex outlen chars    = ascon_bytes_from_hex: Some bytes written | None (-1)            *)
Section Helpers.
Variable c_to_hex : bytes -> bool -> nat -> option bytes.
Variable c_from_hex : nat -> bytes -> option bytes.

(* bytes_from_data(data, len): byte_array result(len); memcpy(result.data(), data, len) *)
Definition cpp_bytes_from_data (p : cpp_ptr) (len : nat) : cpp_outcome bytes :=
  if len =? 0 then CppOk [] else cpp_obind (cpp_rd p len) (fun b => CppOk (set_at (zeros len) 0 b)).

(* bytes_to_hex(in, len, upper): char out[2*len+1]; ascon_bytes_to_hex(out, sizeof(out), ...); std::string(out).
   junk = the array before the call (it stays when the C function refuses) *)
Definition cpp_bytes_to_hex (junk : bytes) (input : bytes) (upper : bool) : bytes :=
  let n := 2 * length input + 1 in
  let out := match c_to_hex input upper n with
             | Some chars => set_at (cpp_resize junk n) 0 (chars ++ [0%N])
             | None => cpp_resize junk n
             end in
  cpp_cstring out.

(* bytes_from_hex(str, len): byte_array vec(len / 2); r = ascon_bytes_from_hex(vec.data(), vec.size(), str, len);
   r != -1 ? (vec.resize(r), vec) : byte_array()      (the resize is /repo commit 79074c9; before it white space in
   the input left trailing zero bytes) *)
Definition cpp_bytes_from_hex (chars : bytes) : bytes :=
  let vec := zeros (length chars / 2) in
  match c_from_hex (length chars / 2) chars with
  | Some written => firstn (length written) (set_at vec 0 written)
  | None => []
  end.
(* bytes_from_hex(const char *str): str ? strlen(str) : 0 *)
Definition cpp_bytes_from_hex_cstr (p : cpp_ptr) : bytes :=
  match p with None => cpp_bytes_from_hex [] | Some b => cpp_bytes_from_hex (cpp_cstring b) end.
End Helpers.
