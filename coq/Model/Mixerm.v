(* Executable model of src/random/ascon-trng-mixer.c (the generator behind all masking randomness): a 40-byte sponge state in the
   canonical byte view plus the position inside the 8-byte rate.  The words handed out are raw backend words, so what they are as
   numbers depends on how the backend keeps the state: [kind] says which. *)
From AsconV Require Export Bits.Bytes.
Local Open Scope nat_scope.

Inductive mix_kind := KSliced64 | KDirectXor | KSliced32.   (* x86-64 asm / C64 | byte-array backends | bit-interleaved 32-bit words *)

Record mix_state := { m_st : bytes; m_posn : nat }.

Section WithPerm.
Variable perm : nat -> bytes -> bytes.

(* ascon_trng_init: ascon_init; overwrite bytes 8..39 with the 32 seed bytes; 12 rounds *)
Definition mix_init (seed : bytes) : mix_state :=
  {| m_st := perm 0 (set_at (zeros 40) 8 seed); m_posn := 0 |}.

(* ascon_trng_reseed: add the 32 seed bytes at 8..39; zero the rate; 12 rounds *)
Definition mix_reseed (s : mix_state) (seed : bytes) : mix_state :=
  {| m_st := perm 0 (set_at (xor_at (m_st s) 8 seed) 0 (zeros 8)); m_posn := 0 |}.

(* bit j of the result = bit 2j+off of x (j < 32) *)
Definition pick (x : N) (off : N) : N :=
  fold_right (fun j acc => if N.testbit x (2 * N.of_nat j + off) then (acc + 2 ^ N.of_nat j)%N else acc) 0%N (seq 0 32).

(* the number the C reads as state->prng.S[0] (k64) resp. state->prng.W[i] (k32) on a little-endian host *)
Definition word64_of (k : mix_kind) (st : bytes) : N :=
  match k with
  | KSliced64 => be_decode (get_at st 0 8)
  | KDirectXor => be_decode (rev (get_at st 0 8))
  | KSliced32 => let c := be_decode (get_at st 0 8) in (pick c 0 + 2 ^ 32 * pick c 1)%N
  end.
Definition word32_of (k : mix_kind) (st : bytes) (i : nat) : N :=          (* i = 0 or 1 *)
  match k with
  | KSliced64 => be_decode (get_at st (4 - 4 * i) 4)
  | KDirectXor => be_decode (rev (get_at st (4 * i) 4))
  | KSliced32 => pick (be_decode (get_at st 0 8)) (N.of_nat i)
  end.

(* the refill decision and the offset read: (permuted?, offset) *)
Definition mix_refill (posn width : nat) (aligned : bool) : bool := (8 <? posn + width) || negb aligned.

(* ascon_trng_generate_64 *)
Definition mix_gen64 (k : mix_kind) (s : mix_state) : mix_state * N :=
  let refill := mix_refill (m_posn s) 8 (m_posn s mod 8 =? 0) in
  let st := if refill then perm 6 (m_st s) else m_st s in
  let p := if refill then 0 else m_posn s in
  ({| m_st := st; m_posn := p + 8 |}, word64_of k st).

(* ascon_trng_generate_32 *)
Definition mix_gen32 (k : mix_kind) (s : mix_state) : mix_state * N :=
  let refill := mix_refill (m_posn s) 4 true in
  let st := if refill then perm 6 (m_st s) else m_st s in
  let p := if refill then 0 else m_posn s in
  ({| m_st := st; m_posn := p + 4 |}, word32_of k st (p / 4)).

(* the harness's MIXM history: init, n 64-bit words, three 32-bit words, one 64-bit word, reseed, n 64-bit words *)
Fixpoint gen64s (k : mix_kind) (n : nat) (s : mix_state) : mix_state * list N :=
  match n with
  | O => (s, [])
  | S n' => let '(s1, w) := mix_gen64 k s in let '(s2, ws) := gen64s k n' s1 in (s2, w :: ws)
  end.
Definition mix_history (k : mix_kind) (n : nat) (seed1 seed2 : bytes) : list N * list N * list N :=
  let s0 := mix_init seed1 in
  let '(s1, a) := gen64s k n s0 in
  let '(s2, b1) := mix_gen32 k s1 in let '(s3, b2) := mix_gen32 k s2 in let '(s4, b3) := mix_gen32 k s3 in
  let '(s5, c) := mix_gen64 k s4 in
  let s6 := mix_reseed s5 seed2 in
  let '(_, d) := gen64s k n s6 in
  (a ++ [c], [b1; b2; b3], d).

End WithPerm.
