(* Footprints and interleavings (property C16).

   A heap maps locations to values.  A step declares the locations it reads
   and the locations it writes; its effect [apply] changes the heap only at
   its declared writes (by construction) and, when the step is well formed
   ([step_wf]), as a function of the values at its declared reads only.
   A thread is a list of steps, a pool is a list of threads, an interleaving
   of a pool is any trace obtained by repeatedly removing the head step of
   some non-empty thread until all are empty (any number of threads).

   Only definitions here (they stay runnable); lemmas are in Proofs/ConcP.v. *)
From Coq Require Import List NArith Arith Bool.
Import ListNotations.
Local Open Scope nat_scope.

Definition loc := N.
Definition val := N.
Definition heap := loc -> val.

Definition mem (l : loc) (ls : list loc) : bool := existsb (N.eqb l) ls.

Record step := mk_step {
  reads  : list loc;
  writes : list loc;
  eff    : heap -> loc -> val      (* new value of a written location *)
}.

(* the heap after the step: only declared writes change *)
Definition apply (s : step) (h : heap) : heap :=
  fun l => if mem l (writes s) then eff s h l else h l.

(* the step computes its writes from the values at its declared reads only *)
Definition step_wf (s : step) : Prop :=
  forall h h', (forall l, In l (reads s) -> h l = h' l) ->
  forall l, In l (writes s) -> eff s h l = eff s h' l.

(* a step given by a function of the list of values read: well formed by
   construction (Proofs/ConcP.v, step_of_wf) *)
Definition step_of (rs ws : list loc) (g : list val -> loc -> val) : step :=
  mk_step rs ws (fun h l => g (map h rs) l).

(* what a step observes: the values at its declared reads *)
Definition obs (s : step) (h : heap) : list val := map h (reads s).

Definition prog := list step.
Definition pool := list prog.

Fixpoint run (p : prog) (h : heap) : heap :=
  match p with [] => h | s :: p' => run p' (apply s h) end.

Fixpoint obs_run (p : prog) (h : heap) : list (list val) :=
  match p with [] => [] | s :: p' => obs s h :: obs_run p' (apply s h) end.

Definition get (ps : pool) (i : nat) : prog := nth i ps [].

Fixpoint set (ps : pool) (i : nat) (p : prog) : pool :=
  match ps, i with
  | [], _ => []
  | _ :: ps', O => p :: ps'
  | q :: ps', S i' => q :: set ps' i' p
  end.

(* a trace: which thread ran which step, in global order *)
Definition trace := list (nat * step).

Inductive interleaving : pool -> trace -> Prop :=
| il_done : forall ps, (forall i, get ps i = []) -> interleaving ps []
| il_step : forall ps i s rest tr,
    get ps i = s :: rest ->
    interleaving (set ps i rest) tr ->
    interleaving ps ((i, s) :: tr).

Fixpoint run_trace (tr : trace) (h : heap) : heap :=
  match tr with [] => h | (_, s) :: tr' => run_trace tr' (apply s h) end.

(* the observations of thread i's steps, in the order they happen *)
Fixpoint obs_trace (i : nat) (tr : trace) (h : heap) : list (list val) :=
  match tr with
  | [] => []
  | (j, s) :: tr' =>
      (if Nat.eqb j i then [obs s h] else []) ++ obs_trace i tr' (apply s h)
  end.

(* executable: the trace chosen by a schedule (a list of thread ids); None if
   the schedule names a finished thread or leaves work undone *)
Definition all_done (ps : pool) : bool :=
  forallb (fun p => match p with [] => true | _ => false end) ps.

Fixpoint trace_of (ps : pool) (sched : list nat) : option trace :=
  match sched with
  | [] => if all_done ps then Some [] else None
  | i :: sched' =>
      match get ps i with
      | [] => None
      | s :: rest =>
          match trace_of (set ps i rest) sched' with
          | Some tr => Some ((i, s) :: tr)
          | None => None
          end
      end
  end.

(* the sequential trace: thread 0 to completion, then thread 1, ... and the
   heap it produces (plain sequential composition of the threads) *)
Fixpoint seq_trace_from (k : nat) (ps : pool) : trace :=
  match ps with [] => [] | p :: ps' => map (pair k) p ++ seq_trace_from (S k) ps' end.
Definition seq_trace (ps : pool) : trace := seq_trace_from 0 ps.
Definition run_seq (ps : pool) (h : heap) : heap := fold_left (fun h p => run p h) ps h.

(* footprints *)
Record footprint := mk_fp { fp_w : list loc; fp_r : list loc }.
Definition foot (fp : footprint) : list loc := fp_w fp ++ fp_r fp.
Definition fpget (fps : list footprint) (i : nat) : footprint := nth i fps (mk_fp [] []).

Definition agree (ls : list loc) (h h' : heap) : Prop := forall l, In l ls -> h l = h' l.
Definition disjoint (a b : list loc) : Prop := forall l, In l a -> ~ In l b.

(* a step stays inside a footprint: reads W u R, writes W, and is well formed *)
Definition step_ok (fp : footprint) (s : step) : Prop :=
  incl (reads s) (foot fp) /\ incl (writes s) (fp_w fp) /\ step_wf s.

Definition pool_ok (fps : list footprint) (ps : pool) : Prop :=
  forall i, Forall (step_ok (fpget fps i)) (get ps i).

(* W_i is disjoint from W_j u R_j for different threads of the pool *)
Definition fps_ok (fps : list footprint) (n : nat) : Prop :=
  forall i j, i < n -> j < n -> i <> j -> disjoint (fp_w (fpget fps i)) (foot (fpget fps j)).

(* boolean versions, for instances *)
Definition inclb (a b : list loc) : bool := forallb (fun l => mem l b) a.
Definition disjointb (a b : list loc) : bool := forallb (fun l => negb (mem l b)) a.
Definition fps_okb (fps : list footprint) (n : nat) : bool :=
  forallb (fun i => forallb (fun j => Nat.eqb i j || disjointb (fp_w (fpget fps i)) (foot (fpget fps j)))
                            (seq 0 n)) (seq 0 n).
Definition step_inb (fp : footprint) (s : step) : bool :=
  inclb (reads s) (foot fp) && inclb (writes s) (fp_w fp).
Definition pool_inb (fps : list footprint) (ps : pool) : bool :=
  forallb (fun i => forallb (step_inb (fpget fps i)) (get ps i)) (seq 0 (length ps)).

(* data races: two steps conflict when one writes what the other reads or writes *)
Definition conflict (s t : step) : Prop :=
  exists l, (In l (writes s) /\ (In l (reads t) \/ In l (writes t)))
         \/ (In l (writes t) /\ In l (reads s)).

(* pools reachable by executing a prefix of some interleaving *)
Inductive reach : pool -> pool -> Prop :=
| reach_refl : forall ps, reach ps ps
| reach_step : forall ps ps' i s rest,
    reach ps ps' -> get ps' i = s :: rest -> reach ps (set ps' i rest).

(* a race: a reachable pool in which two different threads are both about to
   run steps that conflict *)
Definition race (ps0 : pool) : Prop :=
  exists ps i j s t ri rj, reach ps0 ps /\ i <> j /\
    get ps i = s :: ri /\ get ps j = t :: rj /\ conflict s t.

(* ---------------------------------------------------------------------------
   Static facts about the code (the tie of the hypothesis "each step touches
   only its footprint").  The data of these types is regenerated from the
   repository's current tree by tools/globals.py into Gen/Globals.v. *)
From Coq Require Import String.
Local Open Scope string_scope.

(* an object with static storage duration, as clang's AST shows it *)
Record sobj := mk_sobj {
  so_name : string; so_tu : string; so_file : string;
  so_where : string;                      (* "file", "class C" or the enclosing function *)
  so_type : string; so_const : bool; so_tls : bool }.

(* a non-empty allocated section of a member of libascon_static.a that is
   writable or thread-local, with the data symbols in it (readelf) *)
Record osec := mk_osec {
  os_member : string; os_section : string; os_size : N;
  os_write : bool; os_tls : bool; os_syms : list string }.

(* a pointer parameter of a public function *)
Record sparam := mk_sparam {
  sp_fn : string; sp_idx : nat; sp_name : string; sp_type : string;
  sp_pointee : string; sp_const : bool }.

(* a conversion (explicit or implicit) from pointer-to-const to
   pointer-to-non-const inside a library function, other than between the
   operands of a pointer comparison *)
Record cdrop := mk_cdrop {
  cd_tu : string; cd_line : nat; cd_func : string; cd_kind : string;
  cd_from : string; cd_to : string }.

Record scan := mk_scan {
  sc_cfg : string; sc_ok : bool; sc_tus : nat; sc_asm_tus : nat;
  sc_statics : list sobj; sc_sections : list osec; sc_params : list sparam;
  sc_const_drops : list cdrop }.

(* a `static` object declaration found by the preprocessor-blind text scan *)
Record tstatic := mk_tstatic {
  ts_file : string; ts_line : nat; ts_name : string; ts_decl : string;
  ts_const : bool; ts_tls : bool }.

Definition prefixb (p s : string) : bool := String.prefix p s.

(* sections that are writable only for the dynamic linker: vtables/typeinfo
   (.data.rel.ro, read-only after relocation) and the compiler's reference to
   the C++ personality routine *)
Definition reloc_only (sec : string) : bool :=
  prefixb ".data.rel.ro" sec || String.eqb sec ".data.rel.local.DW.ref.__gxx_personality_v0".

(* mutable objects shared by all threads: from the AST and from the objects *)
Definition writable_statics (c : scan) : list sobj :=
  filter (fun o => negb (so_const o) && negb (so_tls o)) (sc_statics c).
Definition writable_sections (c : scan) : list osec :=
  filter (fun s => os_write s && negb (os_tls s) && negb (reloc_only (os_section s)) && (0 <? os_size s)%N)
         (sc_sections c).
Definition writable_globals (c : scan) : list string :=
  map (fun o => so_name o ++ "@" ++ so_tu o) (writable_statics c) ++
  map (fun s => os_member s ++ ":" ++ os_section s) (writable_sections c).

(* mutable per-thread objects (not shared, but still hidden state) *)
Definition thread_local_state (c : scan) : list string :=
  map (fun o => so_name o ++ "@" ++ so_tu o) (filter (fun o => negb (so_const o) && so_tls o) (sc_statics c)) ++
  map (fun s => os_member s ++ ":" ++ os_section s) (filter (fun s => os_tls s && (0 <? os_size s)%N) (sc_sections c)).

Definition strmem (s : string) (l : list string) : bool := existsb (String.eqb s) l.
Definition suffixb (suf s : string) : bool :=
  let n := String.length s in let k := String.length suf in
  Nat.leb k n && String.eqb (String.substring (n - k) k s) suf.
