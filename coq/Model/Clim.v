(* Executable model of the two command-line tools
     apps/asconcrypt/asconcrypt.c   encrypt_file, decrypt_file, generate_password, read_keyfile, main (file loop)
     apps/asconcrypt/fileops.c      safe_file_open_read/open_write/read/write/delete (POSIX branch)
     apps/asconsum/asconsum.c       ascon_*_file, hash_file, check_file, main (file loop)
   over an abstract file system (association list path -> bytes) with a fault
   oracle: the k-th open / read / write / random / fgets call fails or
   transfers fewer bytes than asked.  The result of a run is the final world:
   file system, stderr message classes, stdout bytes, call counters and
   "a failure was delivered" flags, plus the exit status.

   The cryptography is NOT modelled here: PBKDF2, SIV, the incremental
   ASCON-80pq AEAD and the four incremental digests are Section variables.
   The theorems (Proofs/ClimP.v) name the hypotheses they need about them.

   The first part (up to main_crypt / main_generate / main_sum) takes the
   direction, the password source and the (input, output) pairs as given.  The
   last part of the Section (main_args) is main() of asconcrypt in front of it:
   argument validation, direction detected from the ".ascon" suffix, output
   names, interactive passwords (readpass.c), "-" for stdin/stdout, and the
   result of close(2) on an output descriptor.

   What the model leaves out (see Props/Properties_C19.v): getopt itself (the
   options arrive parsed), "-" given more than once, directories, the 1 TiB
   size limit, EINTR/EAGAIN retries, close(2) results on read descriptors,
   stdout write errors. *)
From AsconV Require Export Bits.Bytes.
From Coq Require Import ZArith.
Local Open Scope nat_scope.

(* ---- byte strings ------------------------------------------------------- *)
Fixpoint beqb (a b : bytes) : bool :=
  match a, b with
  | [], [] => true
  | x :: a', y :: b' => N.eqb x y && beqb a' b'
  | _, _ => false
  end.

Definition is_nil (l : bytes) : bool := match l with [] => true | _ => false end.

Fixpoint take_while (f : N -> bool) (l : bytes) : bytes :=
  match l with [] => [] | x :: l' => if f x then x :: take_while f l' else [] end.
Fixpoint drop_while (f : N -> bool) (l : bytes) : bytes :=
  match l with [] => [] | x :: l' => if f x then drop_while f l' else l end.

(* ---- file system --------------------------------------------------------- *)
Definition path := bytes.
Definition fsys := list (path * bytes).

Fixpoint fs_get (fs : fsys) (p : path) : option bytes :=
  match fs with
  | [] => None
  | (q, c) :: fs' => if beqb q p then Some c else fs_get fs' p
  end.
Fixpoint fs_del (fs : fsys) (p : path) : fsys :=
  match fs with
  | [] => []
  | (q, c) :: fs' => if beqb q p then fs_del fs' p else (q, c) :: fs_del fs' p
  end.
Definition fs_set (fs : fsys) (p : path) (c : bytes) : fsys := (p, c) :: fs_del fs p.

(* ---- fault oracle, world -------------------------------------------------- *)
Inductive xfer :=
| XOK                  (* the call transfers everything that is available / asked *)
| XFAIL                (* the call returns -1 (EIO, ENOSPC ...) / sets the stream error flag *)
| XSHORT (n : nat).    (* the call transfers at most n+1 bytes (a short read or write) *)

Inductive cls := COpen | CRead | CWrite | CRand | CGets.

Record oracle := {
  o_open : nat -> bool;                   (* true: the k-th open/fopen fails *)
  o_read : nat -> xfer;                (* k-th read / fread *)
  o_write : nat -> xfer;               (* k-th write *)
  o_rand : nat -> nat -> option bytes;    (* k-th ascon_random call for n bytes; None: the system source fails *)
  o_gets : nat -> bool                    (* true: the k-th fgets fails *)
}.

Inductive emsg :=
| EPerror                       (* "<file>: <strerror>" printed by perror *)
| EFatalRandom                  (* FATAL: system random number generator ... *)
| EBadFormat                    (* unrecognized encrypted file format *)
| EBadPassword                  (* password is incorrect *)
| ETruncated                    (* encrypted data is truncated *)
| ECorrupt                      (* file is corrupt and failed to decrypt *)
| EPwTooLong                    (* password is too long *)
| EPwNul                        (* password value contains a NUL *)
| ENoLines                      (* no properly formatted checksum lines found *)
| EWarnFormat (n : nat)         (* WARNING: n line(s) improperly formatted *)
| EWarnMismatch (n : nat)       (* WARNING: n computed checksum(s) did not match *)
| EWarnRead (n : nat)           (* WARNING: n listed file(s) could not be read *)
| EUsage                        (* the usage text *)
| EBothPK                       (* cannot specify both -p and -k *)
| EOneInput                     (* only one input file allowed with -o *)
| EDirection                    (* cannot determine direction; specify -e or -d *)
| ENoTerminal                   (* cannot prompt for a password without a terminal *)
| EPwMismatch.                  (* passwords do not match *)

Record cnts := { n_open : nat; n_read : nat; n_write : nat; n_rand : nat; n_gets : nat }.
Record flgs := { f_open : bool; f_read : bool; f_write : bool; f_rand : bool; f_gets : bool }.

Record world := {
  w_fs : fsys;           (* the file system *)
  w_err : list emsg;     (* stderr, oldest first *)
  w_out : bytes;         (* stdout *)
  w_cnt : cnts;          (* number of calls issued so far, per class *)
  w_flg : flgs           (* an XFAIL result was delivered, per class *)
}.

Definition cget (c : cls) (n : cnts) : nat :=
  match c with COpen => n_open n | CRead => n_read n | CWrite => n_write n | CRand => n_rand n | CGets => n_gets n end.
Definition cbump (c : cls) (n : cnts) : cnts :=
  match c with
  | COpen => {| n_open := S (n_open n); n_read := n_read n; n_write := n_write n; n_rand := n_rand n; n_gets := n_gets n |}
  | CRead => {| n_open := n_open n; n_read := S (n_read n); n_write := n_write n; n_rand := n_rand n; n_gets := n_gets n |}
  | CWrite => {| n_open := n_open n; n_read := n_read n; n_write := S (n_write n); n_rand := n_rand n; n_gets := n_gets n |}
  | CRand => {| n_open := n_open n; n_read := n_read n; n_write := n_write n; n_rand := S (n_rand n); n_gets := n_gets n |}
  | CGets => {| n_open := n_open n; n_read := n_read n; n_write := n_write n; n_rand := n_rand n; n_gets := S (n_gets n) |}
  end.
Definition fget (c : cls) (f : flgs) : bool :=
  match c with COpen => f_open f | CRead => f_read f | CWrite => f_write f | CRand => f_rand f | CGets => f_gets f end.
Definition fmark (c : cls) (f : flgs) : flgs :=
  match c with
  | COpen => {| f_open := true; f_read := f_read f; f_write := f_write f; f_rand := f_rand f; f_gets := f_gets f |}
  | CRead => {| f_open := f_open f; f_read := true; f_write := f_write f; f_rand := f_rand f; f_gets := f_gets f |}
  | CWrite => {| f_open := f_open f; f_read := f_read f; f_write := true; f_rand := f_rand f; f_gets := f_gets f |}
  | CRand => {| f_open := f_open f; f_read := f_read f; f_write := f_write f; f_rand := true; f_gets := f_gets f |}
  | CGets => {| f_open := f_open f; f_read := f_read f; f_write := f_write f; f_rand := f_rand f; f_gets := true |}
  end.

Definition with_fs (w : world) (fs : fsys) : world :=
  {| w_fs := fs; w_err := w_err w; w_out := w_out w; w_cnt := w_cnt w; w_flg := w_flg w |}.
Definition add_err (w : world) (e : emsg) : world :=
  {| w_fs := w_fs w; w_err := w_err w ++ [e]; w_out := w_out w; w_cnt := w_cnt w; w_flg := w_flg w |}.
Definition add_out (w : world) (s : bytes) : world :=
  {| w_fs := w_fs w; w_err := w_err w; w_out := w_out w ++ s; w_cnt := w_cnt w; w_flg := w_flg w |}.
Definition bump (c : cls) (w : world) : world :=
  {| w_fs := w_fs w; w_err := w_err w; w_out := w_out w; w_cnt := cbump c (w_cnt w); w_flg := w_flg w |}.
Definition mark (c : cls) (w : world) : world :=
  {| w_fs := w_fs w; w_err := w_err w; w_out := w_out w; w_cnt := w_cnt w; w_flg := fmark c (w_flg w) |}.

Definition cnt0 := {| n_open := 0; n_read := 0; n_write := 0; n_rand := 0; n_gets := 0 |}.
Definition flg0 := {| f_open := false; f_read := false; f_write := false; f_rand := false; f_gets := false |}.
Definition world0 (fs : fsys) : world := {| w_fs := fs; w_err := []; w_out := []; w_cnt := cnt0; w_flg := flg0 |}.

Definition content (w : world) (p : path) : bytes :=
  match fs_get (w_fs w) p with Some c => c | None => [] end.

(* Which variant of the source is modelled.  [shipped] is the pinned tree:
   safe_file_write returns -1 on an error while every caller tests
   [!safe_file_write(...)], and generate_password ignores the results of its
   two writes.  [fixed] is the tree with fixes/C19-write-errors.patch. *)
Record config := {
  c_werr : Z;           (* what safe_file_write returns when write(2) fails *)
  c_genpw_chk : bool;   (* generate_password tests its writes *)
  c_sumchk : bool       (* asconsum -c tests ferror() of the checksum list after its fgets loop *)
}.
Definition shipped := {| c_werr := (-1)%Z; c_genpw_chk := false; c_sumchk := false |}.
Definition fixed := {| c_werr := 0%Z; c_genpw_chk := true; c_sumchk := true |}.

Definition rfd := (path * nat)%type.       (* an open read descriptor / stream: file and offset *)

(* constants of the two programs *)
Definition magic : bytes := [65;83;67;79;78;99;114;121;112;116]%N.     (* "ASCONcrypt" *)
Definition version : bytes := [0;1]%N.
Definition PWSIZ := 1024.
Definition LINESIZ := 1024.
Definition pw_chars : bytes :=                                           (* 0-9 a-z A-Z % $ *)
  [48;49;50;51;52;53;54;55;56;57;
   97;98;99;100;101;102;103;104;105;106;107;108;109;110;111;112;113;114;115;116;117;118;119;120;121;122;
   65;66;67;68;69;70;71;72;73;74;75;76;77;78;79;80;81;82;83;84;85;86;87;88;89;90;37;36]%N.

Section Clim.
(* ---- the cryptography (abstract) ------------------------------------------ *)
Variable pbkdf2 : bytes -> bytes -> bytes.                   (* password, salt -> 36 bytes (8192 rounds) *)
Variable siv_enc : bytes -> bytes -> bytes -> bytes -> bytes.          (* ascon80pq_siv_encrypt key nonce ad m *)
Variable siv_dec : bytes -> bytes -> bytes -> bytes -> option bytes.   (* ascon80pq_siv_decrypt key nonce ad c; None = -1 *)
Variable ast : Type.                                          (* ascon80pq_state_t *)
Variable a_start : bytes -> bytes -> bytes -> ast.            (* aead_init nonce key; aead_start ad  (key nonce ad) *)
Variable a_encb : ast -> bytes -> ast * bytes.                (* aead_encrypt_block *)
Variable a_encf : ast -> bytes.                               (* aead_encrypt_finalize: the tag *)
Variable a_decb : ast -> bytes -> ast * bytes.                (* aead_decrypt_block *)
Variable a_decf : ast -> bytes -> bool.                       (* aead_decrypt_finalize tag = 0 *)
Variable hst : Type.                                          (* hash / xof state *)
Variable h_init : nat -> hst.                                 (* algorithm 0 HASH, 1 HASHA, 2 XOF, 3 XOFA *)
Variable h_upd : hst -> bytes -> hst.
Variable h_fin : hst -> bytes.                                (* 32 bytes *)

Variable bufsiz : nat.     (* BUFSIZ of the C library the tools are built against *)
Variable cfg : config.
Variable o : oracle.

(* ---- system calls ---------------------------------------------------------- *)
Definition sys_open_r (w : world) (p : path) : world * option rfd :=
  let k := cget COpen (w_cnt w) in
  let w := bump COpen w in
  if o_open o k then (mark COpen w, None)
  else match fs_get (w_fs w) p with
       | None => (w, None)                      (* ENOENT *)
       | Some _ => (w, Some (p, 0))
       end.

(* O_CREAT | O_TRUNC | O_WRONLY *)
Definition sys_open_w (w : world) (p : path) : world * option path :=
  let k := cget COpen (w_cnt w) in
  let w := bump COpen w in
  if o_open o k then (mark COpen w, None)
  else (with_fs w (fs_set (w_fs w) p []), Some p).

(* read(fd, buf, len): None = -1 *)
Definition sys_read (w : world) (fd : rfd) (len : nat) : world * option bytes :=
  let k := cget CRead (w_cnt w) in
  let rest := skipn (snd fd) (content w (fst fd)) in
  let w := bump CRead w in
  match o_read o k with
  | XFAIL => (mark CRead w, None)
  | XOK => (w, Some (firstn len rest))
  | XSHORT n => (w, Some (firstn (Nat.min len (S n)) rest))
  end.

(* write(fd, buf, len) on a descriptor opened by sys_open_w (appends): the number of bytes written, None = -1 *)
Definition sys_write (w : world) (p : path) (d : bytes) : world * option nat :=
  let k := cget CWrite (w_cnt w) in
  let w := bump CWrite w in
  match o_write o k with
  | XFAIL => (mark CWrite w, None)
  | XOK => (with_fs w (fs_set (w_fs w) p (content w p ++ d)), Some (length d))
  | XSHORT n => let d' := firstn (S n) d in
               (with_fs w (fs_set (w_fs w) p (content w p ++ d')), Some (length d'))
  end.

Definition sys_unlink (w : world) (p : path) : world := with_fs w (fs_del (w_fs w) p).

(* ascon_random(out, n): one request to the system source per call *)
Definition sys_random (w : world) (n : nat) : world * option bytes :=
  let k := cget CRand (w_cnt w) in
  let w := bump CRand w in
  match o_rand o k n with
  | None => (mark CRand w, None)
  | Some b => (w, Some b)
  end.

(* ---- fileops.c -------------------------------------------------------------- *)
(* safe_file_open_read / safe_file_open_write: perror on failure *)
Definition safe_open_r (w : world) (p : path) : world * option rfd :=
  let '(w1, r) := sys_open_r w p in
  match r with None => (add_err w1 EPerror, None) | Some fd => (w1, Some fd) end.
Definition safe_open_w (w : world) (p : path) : world * option path :=
  let '(w1, r) := sys_open_w w p in
  match r with None => (add_err w1 EPerror, None) | Some fd => (w1, Some fd) end.

(* safe_file_read: for (;;) { temp = read(fd, d, len); <0: perror, return -1; ==0: break; result += temp; d += temp; len -= temp }
   The loop ends with a read that returns 0 (end of file, or len has reached 0). *)
Fixpoint sfr_loop (fuel : nat) (w : world) (fd : rfd) (acc : bytes) (len : nat) : world * rfd * option bytes :=
  match fuel with
  | O => (w, fd, Some acc)
  | S f =>
    let '(w1, r) := sys_read w fd len in
    match r with
    | None => (add_err w1 EPerror, fd, None)
    | Some [] => (w1, fd, Some acc)
    | Some d => sfr_loop f w1 (fst fd, snd fd + length d) (acc ++ d) (len - length d)
    end
  end.
Definition safe_file_read (w : world) (fd : rfd) (len : nat) : world * rfd * option bytes :=
  sfr_loop (S len) w fd [] len.

(* safe_file_write: the same loop around write(2); returns the byte count, or c_werr on an error *)
Fixpoint sfw_loop (fuel : nat) (w : world) (p : path) (d : bytes) (result : nat) : world * Z :=
  match fuel with
  | O => (w, Z.of_nat result)
  | S f =>
    let '(w1, r) := sys_write w p d in
    match r with
    | None => (add_err w1 EPerror, c_werr cfg)
    | Some O => (w1, Z.of_nat result)
    | Some n => sfw_loop f w1 p (skipn n d) (result + n)
    end
  end.
Definition safe_file_write (w : world) (p : path) (d : bytes) : world * Z :=
  sfw_loop (S (length d)) w p d 0.

(* the C test [!safe_file_write(...)] *)
Definition wfailed (r : Z) : bool := (r =? 0)%Z.

(* ---- asconcrypt.c ------------------------------------------------------------ *)
Definition hdr (salt : bytes) : bytes := magic ++ version ++ salt.          (* struct asconcrypt_header, 28 bytes *)

(* while (exit_val) { len = safe_file_read(input, data, BUFSIZ); ... } of encrypt_file *)
Fixpoint enc_loop (fuel : nat) (w : world) (inp : rfd) (out : path) (st : ast) (ev : bool) : world * ast * bool :=
  match fuel with
  | O => (w, st, ev)
  | S f =>
    if negb ev then (w, st, ev) else
    let '(w1, inp1, r) := safe_file_read w inp bufsiz in
    match r with
    | None => (w1, st, false)
    | Some [] => (w1, st, ev)
    | Some d =>
      let '(st1, c) := a_encb st d in
      let '(w2, n) := safe_file_write w1 out c in
      let ev1 := if wfailed n then false else ev in
      if length d <? bufsiz then (w2, st1, ev1) else enc_loop f w2 inp1 out st1 ev1
    end
  end.

Definition finish (w : world) (out : path) (ev : bool) : world * bool :=
  if ev then (w, true) else (sys_unlink w out, false).       (* cleanup: if (!exit_val) safe_file_delete(&output) *)

Definition encrypt_file (pw : bytes) (w : world) (inf outf : path) : world * bool :=
  let fuel := S (length (content w inf)) in
  let '(w, oi) := safe_open_r w inf in
  match oi with
  | None => (w, false)
  | Some inp =>
    let '(w, oo) := safe_open_w w outf in
    match oo with
    | None => (w, false)
    | Some out =>
      let '(w, r1) := sys_random w 16 in
      let '(w, r2) := match r1 with None => (w, None) | Some _ => sys_random w 36 end in
      match r1, r2 with
      | Some salt, Some kn2 =>
        let header := hdr salt in
        let kn := pbkdf2 pw salt in
        let sivb := siv_enc (firstn 20 kn) (skipn 20 kn) header kn2 in
        let '(w, n1) := safe_file_write w out header in
        let '(w, ev) := if wfailed n1 then (w, false)
                        else let '(w, n2) := safe_file_write w out sivb in (w, negb (wfailed n2)) in
        let st := a_start (firstn 20 kn2) (skipn 20 kn2) sivb in
        let '(w, st, ev) := enc_loop fuel w inp out st ev in
        let tag := a_encf st in
        let '(w, ev) := if ev then let '(w, n) := safe_file_write w out tag in (w, negb (wfailed n))
                        else (w, false) in
        finish w out ev
      | _, _ => finish (add_err w EFatalRandom) out false
      end
    end
  end.

(* while (exit_val) { len = safe_file_read(input, data + 16, BUFSIZ - 16); ... } of decrypt_file;
   [buf] is data[0..16) *)
Fixpoint dec_loop (fuel : nat) (w : world) (inp : rfd) (out : path) (st : ast) (buf : bytes) (ev : bool)
  : world * ast * bytes * bool :=
  match fuel with
  | O => (w, st, buf, ev)
  | S f =>
    if negb ev then (w, st, buf, ev) else
    let '(w1, inp1, r) := safe_file_read w inp (bufsiz - 16) in
    match r with
    | None => (w1, st, buf, false)
    | Some [] => (w1, st, buf, ev)
    | Some d =>
      let data := buf ++ d in
      let len := length d in
      let '(st1, p) := a_decb st (firstn len data) in
      let '(w2, n) := safe_file_write w1 out p in
      let ev1 := if wfailed n then false else ev in
      let buf1 := skipn len data in                      (* memmove(data, data + len, 16) *)
      if len <? bufsiz - 16 then (w2, st1, buf1, ev1) else dec_loop f w2 inp1 out st1 buf1 ev1
    end
  end.

Definition decrypt_file (pw : bytes) (w : world) (inf outf : path) : world * bool :=
  let fuel := S (length (content w inf)) in
  let '(w, oi) := safe_open_r w inf in
  match oi with
  | None => (w, false)
  | Some inp =>
    let '(w, oo) := safe_open_w w outf in
    match oo with
    | None => (w, false)
    | Some out =>
      let '(w, inp, r) := safe_file_read w inp 80 in
      let good := match r with
                  | Some h => (length h =? 80) && beqb (firstn 12 h) (magic ++ version)
                  | None => false
                  end in
      match r, good with
      | Some h, true =>
        let header := firstn 28 h in
        let sivb := skipn 28 h in
        let kn := pbkdf2 pw (skipn 12 header) in
        match siv_dec (firstn 20 kn) (skipn 20 kn) header sivb with
        | None => finish (add_err w EBadPassword) out false
        | Some kn2 =>
          let '(w, inp, r16) := safe_file_read w inp 16 in
          match r16 with
          | Some buf =>
            if length buf =? 16 then
              let st := a_start (firstn 20 kn2) (skipn 20 kn2) sivb in
              let '(w, st, buf, ev) := dec_loop fuel w inp out st buf true in
              let tagok := a_decf st buf in
              if negb tagok && ev then finish (add_err w ECorrupt) out false
              else finish w out ev
            else finish (add_err w ETruncated) out false
          | None => finish (add_err w ETruncated) out false
          end
        end
      | _, _ => finish (add_err w EBadFormat) out false
      end
    end
  end.

(* read_keyfile: first line of the file, at most PWSIZ bytes are looked at *)
Definition is_eol (b : N) : bool := N.eqb b 10 || N.eqb b 13.
Definition read_keyfile (w : world) (kf : path) : world * option bytes :=
  let '(w, oi) := safe_open_r w kf in
  match oi with
  | None => (w, None)
  | Some fd =>
    let '(w, _, r) := safe_file_read w fd PWSIZ in
    match r with
    | None => (w, None)
    | Some buf =>
      let pw := take_while (fun b => negb (is_eol b)) buf in
      if existsb (N.eqb 0) pw then (add_err w EPwNul, None)
      else if (length pw =? length buf) && (PWSIZ <=? length buf) then (add_err w EPwTooLong, None)
      else (w, Some pw)
    end
  end.

Inductive pwsrc := PwArg (pw : bytes) | PwFile (kf : path).

Definition get_password (w : world) (src : pwsrc) : world * option bytes :=
  match src with
  | PwArg pw => if PWSIZ <=? length pw then (add_err w EPwTooLong, None) else (w, Some pw)
  | PwFile kf => read_keyfile w kf
  end.

(* main: -e / -d with -p or -k and a list of (input, output) names (the
   output names are derived by the caller); exit status 0 or 1 *)
Fixpoint crypt_files (enc : bool) (pw : bytes) (w : world) (files : list (path * path)) (exit_val : nat) : world * nat :=
  match files with
  | [] => (w, exit_val)
  | (i, ofile) :: rest =>
    let '(w1, ok) := (if enc then encrypt_file else decrypt_file) pw w i ofile in
    crypt_files enc pw w1 rest (if ok then exit_val else 1)
  end.
Definition main_crypt (enc : bool) (src : pwsrc) (w : world) (files : list (path * path)) : world * nat :=
  let '(w1, p) := get_password w src in
  match p with
  | None => (w1, 1)
  | Some pw => crypt_files enc pw w1 files 0
  end.

(* main -g KEYFILE: generate_password *)
Definition main_generate (w : world) (kf : path) : world * nat :=
  let '(w, oo) := safe_open_w w kf in
  match oo with
  | None => (w, 1)
  | Some out =>
    let '(w, r) := sys_random w 40 in
    match r with
    | None => (sys_unlink (add_err w EFatalRandom) out, 1)
    | Some rb =>
      let pw := map (fun b => nth (N.to_nat (N.land b 63)) pw_chars 0%N) rb in
      let '(w, n1) := safe_file_write w out pw in
      if c_genpw_chk cfg && wfailed n1 then (sys_unlink w out, 1) else
      let '(w, n2) := safe_file_write w out [10%N] in
      if c_genpw_chk cfg && wfailed n2 then (sys_unlink w out, 1) else (w, 0)
    end
  end.

(* ---- asconsum.c ------------------------------------------------------------ *)
(* fread(buffer, 1, n, file): data, stream error flag *)
Definition sys_fread (w : world) (fd : rfd) (n : nat) : world * bytes * bool :=
  let '(w1, r) := sys_read w fd n in
  match r with
  | None => (w1, [], true)
  | Some d => (w1, d, match o_read o (cget CRead (w_cnt w)) with XSHORT _ => true | _ => false end)
  end.

(* while ((len = fread(buffer, 1, BUFSIZ, file)) == BUFSIZ) update; ok = !ferror(file); if (len > 0) update *)
Fixpoint hash_loop (fuel : nat) (w : world) (fd : rfd) (hs : hst) (err : bool) : world * hst * bool :=
  match fuel with
  | O => (w, hs, err)
  | S f =>
    let '(w1, d, e) := sys_fread w fd bufsiz in
    if length d =? bufsiz then hash_loop f w1 (fst fd, snd fd + bufsiz) (h_upd hs d) (err || e)
    else (w1, (if 0 <? length d then h_upd hs d else hs), err || e)
  end.

(* fopen + ascon_*_file + fclose: (opened and read without error, digest) *)
Definition hash_named (alg : nat) (w : world) (name : path) : world * bool * bytes :=
  let fuel := S (length (content w name)) in
  let '(w, oi) := safe_open_r w name in
  match oi with
  | None => (w, false, [])
  | Some fd =>
    let '(w, hs, err) := hash_loop fuel w fd (h_init alg) false in
    ((if err then add_err w EPerror else w), negb err, h_fin hs)
  end.

Definition hexchar (n : N) : N := if (n <? 10)%N then (48 + n)%N else (87 + n)%N.
Definition hex_of (l : bytes) : bytes := flat_map (fun b => [hexchar (N.div b 16); hexchar (N.modulo b 16)]) l.

Definition hash_file (alg : nat) (w : world) (name : path) : world * bool :=
  let '(w, ok, dg) := hash_named alg w name in
  if ok then (add_out w (hex_of dg ++ [32;32]%N ++ name ++ [10%N]), true) else (w, false).

Definition hexval (c : N) : option N :=
  if (48 <=? c)%N && (c <=? 57)%N then Some (c - 48)%N
  else if (97 <=? c)%N && (c <=? 102)%N then Some (c - 87)%N
  else if (65 <=? c)%N && (c <=? 70)%N then Some (c - 55)%N
  else None.

(* the hash-parsing loop of check_file; fuel = 32 - hashlen; line[posn+1]
   beyond the end of the line is the terminating NUL *)
Fixpoint parse_hex (fuel : nat) (l : bytes) (acc : bytes) : bytes * bytes :=
  match fuel with
  | O => (acc, l)
  | S f =>
    match l with
    | c1 :: c2 :: l2 =>
      match hexval c1, hexval c2 with
      | Some h1, Some h2 => parse_hex f l2 (acc ++ [h1 * 16 + h2]%N)
      | _, _ => (acc, l)
      end
    | _ => (acc, l)
    end
  end.

(* fgets(line, n+1, file): at most n characters, stops after a newline *)
Fixpoint fgets_take (n : nat) (l : bytes) : bytes :=
  match n, l with
  | S n', x :: l' => if N.eqb x 10 then [x] else x :: fgets_take n' l'
  | _, _ => []
  end.
Definition sys_fgets (w : world) (fd : rfd) : world * option bytes :=
  let k := cget CGets (w_cnt w) in
  let rest := skipn (snd fd) (content w (fst fd)) in
  let w := bump CGets w in
  if o_gets o k then (mark CGets w, None)
  else match rest with
       | [] => (w, None)
       | _ => (w, Some (fgets_take (LINESIZ - 1) rest))
       end.

Definition strip_eol (l : bytes) : bytes := rev (drop_while is_eol (rev l)).
Definition cstr (l : bytes) : bytes := take_while (fun b => negb (N.eqb b 0)) l.    (* what strlen sees *)

Record ckst := { ck_found : bool; ck_fmt : nat; ck_mis : nat; ck_rd : nat }.

Fixpoint check_loop (alg : nat) (fuel : nat) (w : world) (fd : rfd) (st : ckst) : world * ckst :=
  match fuel with
  | O => (w, st)
  | S f =>
    let '(w1, r) := sys_fgets w fd in
    match r with
    | None => (w1, st)                                 (* end of file, or an error: the loop just ends *)
    | Some raw =>
      let fd1 := (fst fd, snd fd + length raw) in
      let line := strip_eol (cstr raw) in
      if is_nil line then check_loop alg f w1 fd1 st else
      let '(h, rest) := parse_hex 32 line [] in
      let fmt_err := {| ck_found := ck_found st; ck_fmt := S (ck_fmt st); ck_mis := ck_mis st; ck_rd := ck_rd st |} in
      if negb (match rest with 32%N :: _ => true | _ => false end && (length h =? 32)) then check_loop alg f w1 fd1 fmt_err
      else
        let name := drop_while (N.eqb 32) rest in
        if is_nil name then check_loop alg f w1 fd1 fmt_err else
        let '(w2, file_ok, h2) := hash_named alg w1 name in
        let w3 := add_out w2 (name ++ [58;32]%N) in
        if file_ok && beqb h h2 then
          check_loop alg f (add_out w3 [79;75;10]%N) fd1                                   (* OK *)
            {| ck_found := true; ck_fmt := ck_fmt st; ck_mis := ck_mis st; ck_rd := ck_rd st |}
        else if file_ok then
          check_loop alg f (add_out w3 [70;65;73;76;69;68;10]%N) fd1                       (* FAILED *)
            {| ck_found := true; ck_fmt := ck_fmt st; ck_mis := S (ck_mis st); ck_rd := ck_rd st |}
        else
          check_loop alg f (add_out w3 [70;65;73;76;69;68;32;111;112;101;110;32;111;114;32;114;101;97;100;10]%N) fd1
            {| ck_found := true; ck_fmt := ck_fmt st; ck_mis := ck_mis st; ck_rd := S (ck_rd st) |}   (* FAILED open or read *)
    end
  end.

Definition check_file (alg : nat) (w : world) (listf : path) : world * bool :=
  let fuel := S (length (content w listf)) in
  let '(w, oi) := safe_open_r w listf in
  match oi with
  | None => (w, false)
  | Some fd =>
    let '(w, st) := check_loop alg fuel w fd {| ck_found := false; ck_fmt := 0; ck_mis := 0; ck_rd := 0 |} in
    (* the loop ends with an fgets that returned NULL: was that a read error?  (fixed tree only:
       if (ferror(file)) { perror(filename); ok = 0; }) *)
    let lerr := c_sumchk cfg && o_gets o (pred (cget CGets (w_cnt w))) in
    let w := if lerr then add_err w EPerror else w in
    let w := if ck_found st then w else add_err w ENoLines in
    let w := if 0 <? ck_fmt st then add_err w (EWarnFormat (ck_fmt st)) else w in
    let w := if 0 <? ck_mis st then add_err w (EWarnMismatch (ck_mis st)) else w in
    let w := if 0 <? ck_rd st then add_err w (EWarnRead (ck_rd st)) else w in
    (w, negb lerr && ck_found st && (ck_fmt st =? 0) && (ck_mis st =? 0) && (ck_rd st =? 0))
  end.

Fixpoint sum_files (alg : nat) (check : bool) (w : world) (files : list path) (exit_val : nat) : world * nat :=
  match files with
  | [] => (w, exit_val)
  | f :: rest =>
    let '(w1, ok) := (if check then check_file else hash_file) alg w f in
    sum_files alg check w1 rest (if ok then exit_val else 1)
  end.
Definition main_sum (alg : nat) (check : bool) (w : world) (files : list path) : world * nat :=
  sum_files alg check w files 0.
(* main() of asconsum: without FILE arguments the one file is "-" = stdin, which this model keeps in the
   file system under the name "-" (the program prints that name; it makes no fopen call for it, the model does) *)
Definition main_sum_argv (alg : nat) (check : bool) (w : world) (files : list path) : world * nat :=
  main_sum alg check w (match files with [] => [[45%N]] | _ => files end).

(* ==== main() of asconcrypt ======================================================
   The options arrive parsed (getopt is not modelled): direction, -p, -k, -o and
   the INPUT names.  [term] is the terminal: whether stdin and stdout are ttys and
   what successive getpass() calls return (None = NULL).  close(2): [oc k] says that
   the k-th close of a descriptor opened for WRITING reports an error; [m_close]
   says whether the tree looks at that result (false = the tree as it is: fileops.c
   safe_file_close ignores it; true = with fixes/C19-close-errors.patch: message,
   status 1, output removed).  Closing a read descriptor cannot lose data and is
   not modelled.  [m_pwlen]: a typed password of PWSIZ bytes or more is refused
   (true, fixes/C19-typed-password-length.patch) or silently cut (false, as it is). *)
Record mfix := { m_close : bool; m_pwlen : bool }.
Definition as_is : mfix := {| m_close := false; m_pwlen := false |}.
Definition patched : mfix := {| m_close := true; m_pwlen := true |}.
Definition suffix_ascon : bytes := [46;97;115;99;111;110]%N.                         (* ".ascon" *)
Definition suffix_decrypted : bytes := [46;100;101;99;114;121;112;116;101;100]%N.    (* ".decrypted" *)
Definition dash : path := [45]%N.                                                     (* "-" *)
(* stdin and stdout live in the file system under names no argument can have (they contain a NUL) *)
Definition stdin_name : path := [0;105]%N.
Definition stdout_name : path := [0;111]%N.

Definition is_encrypted_filename (p : path) : bool :=
  (6 <=? length p) && beqb (skipn (length p - 6) p) suffix_ascon.
(* strip_suffix / add_suffix write into temp_filename[BUFSIZ] *)
Definition strip_suffix (p : path) : path := firstn (Nat.min (length p - 6) (bufsiz - 1)) p.
Definition add_suffix (p sfx : path) : path := firstn (bufsiz - 1) (p ++ sfx).

Record cargs := {
  a_mode : option bool;        (* Some true: -e, Some false: -d, None: neither given *)
  a_p : option bytes;          (* -p PASSWORD *)
  a_k : option path;           (* -k KEYFILE *)
  a_o : option path;           (* -o OUTPUT *)
  a_in : list path             (* INPUT ... *)
}.
Record term := { t_tty : bool; t_pass : list (option bytes) }.

(* the MODE_DETECT loop of main: (direction, mixture) *)
Fixpoint detect (l : list path) (m : option bool) (mix : bool) : option bool * bool :=
  match l with
  | [] => (m, mix)
  | p :: l' =>
    if is_encrypted_filename p
    then match m with Some true => detect l' m true | _ => detect l' (Some false) mix end
    else match m with Some false => detect l' m true | _ => detect l' (Some true) mix end
  end.

(* readpass.c read_password(prompt, buf, PWSIZ): the C string getpass returned, cut to PWSIZ-1 bytes.
   [chk] = the tree refuses a longer one instead (fixes/C19-typed-password-length.patch) *)
Definition read_password (chk : bool) (w : world) (r : option bytes) : world * option bytes :=
  match r with
  | None => (w, None)
  | Some p => if chk && (PWSIZ <=? length (cstr p)) then (add_err w EPwTooLong, None)
              else (w, Some (firstn (PWSIZ - 1) (cstr p)))
  end.

(* the "prompt for it" branch of main: once to decrypt, twice to encrypt *)
Definition tty_password (chk enc : bool) (t : term) (w : world) : world * option bytes :=
  if negb (t_tty t) then (add_err w ENoTerminal, None) else
  let '(w1, r1) := read_password chk w (hd None (t_pass t)) in
  match r1 with
  | None => (add_err w1 EUsage, None)
  | Some p1 =>
    if enc then
      let '(w2, r2) := read_password chk w1 (hd None (tl (t_pass t))) in
      match r2 with
      | Some p2 => if beqb p1 p2 then (w2, Some p1) else (add_err w2 EPwMismatch, None)
      | None => (add_err w2 EPwMismatch, None)
      end
    else (w1, Some p1)
  end.

Definition in_name (i : path) : path := if beqb i dash then stdin_name else i.
Definition out_name (enc : bool) (ao : option path) (i : path) : path :=
  match ao with
  | Some p => if beqb p dash then stdout_name else p
  | None => if beqb i dash then stdout_name
            else if enc then add_suffix i suffix_ascon
            else if is_encrypted_filename i then strip_suffix i else add_suffix i suffix_decrypted
  end.

(* encrypt_file / decrypt_file got as far as opening the output: they made two open calls
   and the oracle did not fail the second one *)
Definition opened_out (w w1 : world) : bool :=
  (n_open (w_cnt w1) =? 2 + n_open (w_cnt w)) && negb (o_open o (S (n_open (w_cnt w)))).

(* the file loop of main with the close(2) result of each output descriptor; kc counts those
   closes (safe_file_close does not close descriptors 0 and 1) *)
Fixpoint crypt_files_c (cchk : bool) (oc : nat -> bool) (enc : bool) (pw : bytes) (w : world) (files : list (path * path))
         (exit_val kc : nat) : world * nat * nat :=
  match files with
  | [] => (w, exit_val, kc)
  | (i, ofile) :: rest =>
    let '(w1, ok) := (if enc then encrypt_file else decrypt_file) pw w i ofile in
    if opened_out w w1 && negb (beqb ofile stdout_name) then
      if cchk && oc kc && ok
      then crypt_files_c cchk oc enc pw (sys_unlink (add_err w1 EPerror) ofile) rest 1 (S kc)
      else crypt_files_c cchk oc enc pw w1 rest (if ok then exit_val else 1) (S kc)
    else crypt_files_c cchk oc enc pw w1 rest (if ok then exit_val else 1) kc
  end.

Definition no_inputs (a : cargs) : bool := match a_in a with [] => true | _ => false end.
Definition both_pk (a : cargs) : bool := match a_p a, a_k a with Some _, Some _ => true | _, _ => false end.
Definition o_with_many (a : cargs) : bool := match a_o a with Some _ => 1 <? length (a_in a) | None => false end.
Definition direction (a : cargs) : option bool * bool :=
  match a_mode a with Some e => (Some e, false) | None => detect (a_in a) None false end.

(* main() after getopt, on a world in which stdin is the file stdin_name *)
Definition main_args0 (fx : mfix) (oc : nat -> bool) (a : cargs) (t : term) (w : world) : world * nat :=
  if no_inputs a then (add_err w EUsage, 1) else
  if both_pk a then (add_err w EBothPK, 1) else
  if o_with_many a then (add_err w EOneInput, 1) else
  let '(m, mix) := direction a in
  if mix then (add_err w EDirection, 1) else
  let enc := match m with Some e => e | None => true end in
  let '(w1, pw) := match a_p a, a_k a with
                   | Some p, _ => get_password w (PwArg p)
                   | None, Some kf => get_password w (PwFile (in_name kf))
                   | None, None => tty_password (m_pwlen fx) enc t w
                   end in
  match pw with
  | None => (w1, 1)
  | Some pw =>
    let files := map (fun i => (in_name i, out_name enc (a_o a) i)) (a_in a) in
    let '(w2, ex, _) := crypt_files_c (m_close fx) oc enc pw w1 files 0 0 in
    (w2, ex)
  end.

(* the same with the bytes of stdin given and what was written to stdout moved to w_out
   (when the run fails after writing to stdout, the model has no record of the partial output) *)
Definition stdio_out (w : world) : world :=
  add_out (with_fs w (fs_del (fs_del (w_fs w) stdout_name) stdin_name)) (content w stdout_name).
Definition main_args (fx : mfix) (oc : nat -> bool) (a : cargs) (t : term) (stdin : bytes) (w : world) : world * nat :=
  let '(w', ex) := main_args0 fx oc a t (with_fs w (fs_set (w_fs w) stdin_name stdin)) in
  (stdio_out w', ex).

(* asconcrypt -g KEYFILE with the close(2) result of the key file *)
Definition main_generate_c (cchk : bool) (oc : nat -> bool) (w : world) (kf : path) : world * nat :=
  let '(w1, ex) := main_generate w kf in
  if (ex =? 0) && cchk && oc 0 then (sys_unlink (add_err w1 EPerror) kf, 1) else (w1, ex).

End Clim.
