(* C20 - executable model of the hex codec of src/core/ascon-hex.c and of the
   C++ helpers ascon::bytes_to_hex / ascon::bytes_from_hex of
   src/ascon/utility.h.

   Conventions.  A character and a byte are both an [N] below 256 (the value
   of the [char] read as [unsigned char]; every comparison the C makes is
   against an ASCII constant below 128, so the signedness of [char] does not
   matter: a negative [char] fails every range test exactly as its unsigned
   value above 127 does).  A caller-side buffer is a list [mem]; the model is
   given the *declared* length [outlen] separately and the memory may be
   longer than that (the bytes behind the buffer), so "never writes beyond
   the space given" is a statement about the model and not built into it.
   A store [out[i] = x] is [upd mem i x].  Lengths are below 2^31 (the C
   returns [(int)posn]; [inlen * 2U + 1U] does not wrap). *)
From AsconV Require Export Bits.Bytes.
From Coq Require Import ZArith.
Local Open Scope N_scope.

(* store one cell; outside the list nothing happens (the theorems show the
   models never do that when the buffer really has [outlen] cells) *)
Fixpoint upd {A : Type} (l : list A) (i : nat) (x : A) : list A :=
  match l with
  | [] => []
  | y :: l' => match i with O => x :: l' | S i' => y :: upd l' i' x end
  end.

(* ---- ascon_bytes_to_hex ------------------------------------------------ *)
(* static char const hex_lower[] = "0123456789abcdef"; hex_upper[] = "0123456789ABCDEF"; *)
Definition hex_lower : list N := [48;49;50;51;52;53;54;55;56;57;97;98;99;100;101;102].
Definition hex_upper : list N := [48;49;50;51;52;53;54;55;56;57;65;66;67;68;69;70].
Definition hex_chars (upper_case : bool) : list N := if upper_case then hex_upper else hex_lower.

(*  while (inlen > 0) { ch = *in++; out[posn++] = hex_chars[(ch >> 4) & 0x0F];
                        out[posn++] = hex_chars[ch & 0x0F]; --inlen; }          *)
Fixpoint to_hex_loop (tbl : list N) (inp : bytes) (mem : list N) (posn : nat) : list N * nat :=
  match inp with
  | [] => (mem, posn)
  | ch :: inp' =>
    let mem1 := upd mem posn (nth (N.to_nat (N.land (N.shiftr ch 4) 15)) tbl 0) in
    let mem2 := upd mem1 (S posn) (nth (N.to_nat (N.land ch 15)) tbl 0) in
    to_hex_loop tbl inp' mem2 (S (S posn))
  end.

(* int ascon_bytes_to_hex(char *out, size_t outlen, const unsigned char *in, size_t inlen, int upper_case) *)
Definition to_hex (mem : list N) (outlen : nat) (inp : bytes) (upper_case : bool) : Z * list N :=
  let inlen := length inp in
  if (outlen <? inlen * 2 + 1)%nat then
    (* if (outlen > 0) out[0] = '\0'; return -1; *)
    ((-1)%Z, if (0 <? outlen)%nat then upd mem 0 0 else mem)
  else
    let '(mem', posn) := to_hex_loop (hex_chars upper_case) inp mem 0 in
    (* out[posn] = '\0'; return (int)posn; *)
    (Z.of_nat posn, upd mem' posn 0).

(* ---- ascon_bytes_from_hex ---------------------------------------------- *)
(* the if-chain that classifies one character, literally *)
Inductive chclass := CDigit (digit : N) | CSkip | CBad.
Definition classify (ch : N) : chclass :=
  if (48 <=? ch) && (ch <=? 57) then CDigit (ch - 48)               (* '0'..'9' *)
  else if (97 <=? ch) && (ch <=? 102) then CDigit (ch - 97 + 10)    (* 'a'..'f' *)
  else if (65 <=? ch) && (ch <=? 70) then CDigit (ch - 65 + 10)     (* 'A'..'F' *)
  else if (ch =? 32) || (ch =? 9) || (ch =? 13) || (ch =? 10) || (ch =? 12) || (ch =? 11)
       then CSkip                                                   (* ' ' \t \r \n \f \v *)
  else CBad.

(* one iteration of the while loop; [None] is `return -1` *)
Definition from_hex_step (outlen : nat) (ch : N) (st : list N * nat * N * bool)
  : option (list N * nat * N * bool) :=
  let '(mem, posn, value, nibble) := st in
  match classify ch with
  | CBad => None
  | CSkip => Some st                                                 (* continue *)
  | CDigit digit =>
    if nibble then
      if (outlen <=? posn)%nat then None                             (* posn >= outlen *)
      else Some (upd mem posn (N.lor value digit), S posn, value, false)
    else Some (mem, posn, N.shiftl digit 4, true)
  end.

Fixpoint from_hex_loop (outlen : nat) (inp : list N) (st : list N * nat * N * bool) : Z * list N :=
  match inp with
  | [] => let '(mem, posn, value, nibble) := st in
          if nibble then ((-1)%Z, mem) else (Z.of_nat posn, mem)
  | ch :: inp' =>
    match from_hex_step outlen ch st with
    | None => ((-1)%Z, fst (fst (fst st)))
    | Some st' => from_hex_loop outlen inp' st'
    end
  end.

(* int ascon_bytes_from_hex(unsigned char *out, size_t outlen, const char *in, size_t inlen) *)
Definition from_hex (mem : list N) (outlen : nat) (inp : list N) : Z * list N :=
  from_hex_loop outlen inp (mem, O, 0, false).

(* ---- C++ helpers (utility.h) ------------------------------------------- *)
(* contents of a NUL-terminated string: strlen / std::string(const char* ) *)
Fixpoint cstr (l : list N) : list N :=
  match l with
  | [] => []
  | c :: l' => if c =? 0 then [] else c :: cstr l'
  end.

(* the value of an indeterminate cell (a fresh `char out[n]`, `new unsigned
   char[n]`): not a byte, so that a model that exposed one could not satisfy
   a theorem whose right-hand side is made of bytes *)
Definition UNINIT : N := 256.

(* std::vector<unsigned char>::resize(n) / the value a byte_array has after resize(n) *)
Definition vresize (l : list N) (n : nat) : list N := firstn n l ++ repeat 0 (n - length l)%nat.

(* static inline byte_array bytes_from_hex(const char *str, size_t len)
   {  byte_array vec(len / 2);
      int result = ::ascon_bytes_from_hex(vec.data(), vec.size(), str, len);
      if (result != -1) return vec; else return byte_array();  }
   [fixed = true] is the code after fixes/C20-hex-helper-length.patch:
      if (result != -1) { vec.resize(result); return vec; }                  *)
Definition cpp_from_hex_gen (fixed : bool) (str : list N) : list N :=
  let len := length str in
  let vec := repeat 0 (len / 2)%nat in
  let '(result, vec') := from_hex vec (length vec) str in
  if (result =? -1)%Z then []
  else if fixed then vresize vec' (Z.to_nat result)
       else vec'.

(* bytes_from_hex(const char *str) { return bytes_from_hex(str, str ? ::strlen(str) : 0); }
   [None] is the null pointer; [Some l]: l is the memory at str, read up to the first NUL *)
Definition cpp_from_hex_z_gen (fixed : bool) (str : option (list N)) : list N :=
  match str with
  | None => cpp_from_hex_gen fixed []
  | Some l => cpp_from_hex_gen fixed (cstr l)
  end.

(* bytes_from_hex(const std::string &str) { return bytes_from_hex(str.data(), str.size()); } *)
Definition cpp_from_hex_string_gen (fixed : bool) (str : list N) : list N := cpp_from_hex_gen fixed str.

(* static inline std::string bytes_to_hex(const unsigned char *in, size_t len, bool upper_case = false)
   {  char out[len * 2U + 1U];
      ::ascon_bytes_to_hex(out, sizeof(out), in, len, upper_case ? 1 : 0);
      return std::string(out);  }
   and the byte_array overload, which passes in.data(), in.size(). *)
Definition cpp_to_hex (inp : bytes) (upper_case : bool) : list N :=
  let n := (length inp * 2 + 1)%nat in
  cstr (snd (to_hex (repeat UNINIT n) n inp upper_case)).
