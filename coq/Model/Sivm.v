(* Executable models of src/siv/ascon-siv-*.c and src/isap/ascon-isap-common.h. *)
From AsconV Require Export Spec.Siv Model.Aeadm.
From Coq Require Import ZArith.
Local Open Scope nat_scope.

Section WithPerm.
Variable perm : nat -> bytes -> bytes.

(* ---- SIV -------------------------------------------------------------------- *)
(* asconXXX_siv_init *)
Definition siv_init_c (v : aead_variant) (K N : bytes) : bytes :=
  let s := zeros 40 in
  let s := set_at s 0 (v_iv v) in
  let s := set_at s (length (v_iv v)) K in
  let s := set_at s 24 N in
  let s := perm 0 s in
  xor_at s (40 - v_klen v) K.

(* the authentication pass, shared by encrypt and decrypt *)
Definition siv_tag_c (v : aead_variant) (K N A P : bytes) : bytes :=
  let v1 := siv_variant v 1 in
  let s := siv_init_c v1 K N in
  let s := match A with [] => s | _ => aead_absorb_c perm v s A end in
  let s := xor_at s 39 [1%N] in
  (* ascon_aead_absorb_8/16 with last_permute = 0 *)
  let '((s1, len), _) := aligned_c bf_enc (perm (v_pb v)) (v_rate v) s P in
  finalize_c perm v1 s1 len K.

(* ascon_siv_encrypt_8/16: permute, squeeze a block, xor with the source *)
Definition siv_crypt_c (v : aead_variant) (K T src : bytes) : bytes :=
  let s := siv_init_c (siv_variant v 2) K T in
  xorl src (snd (lazy_aligned_c (perm (v_pb v)) (v_rate v) s (length src))).

Definition siv_encrypt_c (v : aead_variant) (K N A P : bytes) : bytes * nat :=
  let T := siv_tag_c v K N A P in
  (siv_crypt_c v K T P ++ T, length P + 16).

Definition siv_decrypt_c (v : aead_variant) (K N A C : bytes) : dec_result :=
  if length C <? 16 then DecShort
  else
    let n := length C - 16 in
    let T := skipn n C in
    let m := siv_crypt_c v K T (firstn n C) in
    let tag := siv_tag_c v K N A m in
    let '(r, m') := check_tag m tag T in
    DecDone r m'.

(* ---- ISAP ------------------------------------------------------------------- *)
Record isap_key := { pk_ke : bytes; pk_ka : bytes }.

Definition isap_init_c (iv : isap_variant) (K : bytes) : isap_key :=
  let mkk kind :=
    let s := set_at (zeros 40) 0 K in
    let s := set_at s (i_klen iv) (isap_iv iv kind ++ zeros (40 - i_klen iv - 8)) in
    perm (12 - i_sK iv) s in
  {| pk_ke := mkk 3%N; pk_ka := mkk 2%N |}.
Definition isap_save_c (pk : isap_key) : bytes := pk_ke pk ++ pk_ka pk.
Definition isap_load_c (k : bytes) : isap_key := {| pk_ke := firstn 40 k; pk_ka := firstn 40 (skipn 40 k) |}.

(* <alg>_rekey: the bit loop *)
Fixpoint rekey_loop (iv : isap_variant) (s : bytes) (data : bytes) (bit nbits : nat) (fuel : nat) : bytes :=
  match fuel with
  | O => s
  | S f =>
    if bit <? nbits then
      let value := nth (bit / 8) data 0%N in
      let top := N.land (N.shiftl value (N.of_nat (bit mod 8))) 0x80 in
      rekey_loop iv (perm (12 - i_sB iv) (xor_at s 0 [top])) data (S bit) nbits f
    else s
  end.
Definition isap_rekey_c (iv : isap_variant) (pk : bytes) (data : bytes) : bytes :=
  let nbits := length data * 8 - 1 in
  let s := rekey_loop iv pk data 0 nbits nbits in
  let value := nth (nbits / 8) data 0%N in
  let top := N.land (N.shiftl value (N.of_nat (nbits mod 8))) 0x80 in
  perm (12 - i_sK iv) (xor_at s 0 [top]).

(* <alg>_encrypt (also used for decryption) *)
Definition isap_crypt_c (iv : isap_variant) (pk : isap_key) (N src : bytes) : bytes :=
  let s := isap_rekey_c iv (pk_ke pk) N in
  let s := set_at s 24 N in
  xorl src (snd (lazy_aligned_c (perm (12 - i_sE iv)) 8 s (length src))).

(* <alg>_mac *)
Definition isap_mac_c (iv : isap_variant) (pk : isap_key) (N A C : bytes) : bytes :=
  let pH := perm (12 - i_sH iv) in
  let s := set_at (zeros 40) 0 N in
  let s := set_at s 16 (isap_iv iv 1 ++ zeros 16) in
  let s := pH s in
  let '((s, len), _) := aligned_c bf_enc pH 8 s A in
  let s := pH (xor_at s len [0x80%N]) in
  let s := xor_at s 39 [1%N] in
  let '((s, len), _) := aligned_c bf_enc pH 8 s C in
  let s := pH (xor_at s len [0x80%N]) in
  let y := get_at s 0 (i_klen iv) in
  let preserve := get_at s (i_klen iv) (40 - i_klen iv) in
  let s := isap_rekey_c iv (pk_ka pk) y in
  let s := set_at s (i_klen iv) preserve in
  get_at (pH s) 0 16.

Definition isap_encrypt_c (iv : isap_variant) (pk : isap_key) (N A P : bytes) : bytes * nat :=
  let c := isap_crypt_c iv pk N P in
  (c ++ isap_mac_c iv pk N A c, length P + 16).
Definition isap_decrypt_c (iv : isap_variant) (pk : isap_key) (N A C : bytes) : dec_result :=
  if length C <? 16 then DecShort
  else
    let n := length C - 16 in
    let c := firstn n C in
    let tag := isap_mac_c iv pk N A c in
    let m := isap_crypt_c iv pk N c in
    let '(r, m') := check_tag m tag (skipn n C) in
    DecDone r m'.

End WithPerm.
