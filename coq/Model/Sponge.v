(* The generic duplex machinery shared by every mode: byte-range update with
   a per-byte function, the C-shaped "left-over / full blocks / tail" routine
   (ascon_aead_encrypt_8/16, ascon_aead_decrypt_8/16, ascon_xof_absorb,
   ascon_prf_absorb, ... all have this one shape), the byte-serial reference
   machine, and the block-level specification.  No proofs here. *)
From AsconV Require Export Bits.Bytes.
Local Open Scope nat_scope.

(* what happens to one state byte x when input byte y is processed:
   (new state byte, output byte) *)
Definition bytefn := N -> N -> N * N.
Definition bf_enc : bytefn := fun x y => (N.lxor x y, N.lxor x y).   (* absorb / encrypt *)
Definition bf_dec : bytefn := fun x y => (y, N.lxor x y).             (* decrypt *)

Section Duplex.
Variable bf : bytefn.

(* apply bf to the bytes of st at off.. with data d; returns new state and
   the output bytes *)
Fixpoint upd_at (st : bytes) (off : nat) (d : bytes) : bytes * bytes :=
  match st with
  | [] => ([], [])
  | x :: s' =>
    match off with
    | O => match d with
           | [] => (st, [])
           | y :: d' =>
             let '(nx, o) := bf x y in
             let '(s2, o2) := upd_at s' O d' in (nx :: s2, o :: o2)
           end
    | S o => let '(s2, o2) := upd_at s' o d in (x :: s2, o2)
    end
  end.

Variable f : bytes -> bytes.     (* the permutation applied between blocks *)
Variable rate : nat.

(* --- the C shape ------------------------------------------------------ *)

(* while (len >= rate) { op(state, data, 0, rate); permute; data += rate } *)
Fixpoint full_loop (fuel : nat) (st : bytes) (d : bytes) : bytes * bytes * bytes :=
  match fuel with
  | O => (st, d, [])
  | S k =>
    if rate <=? length d then
      let '(s1, o1) := upd_at st 0 (firstn rate d) in
      let '(s2, rest, o2) := full_loop k (f s1) (skipn rate d) in
      (s2, rest, o1 ++ o2)
    else (st, d, [])
  end.

(* full blocks, then "if (len > 0) op_partial(state, data, 0, len); return len" *)
Definition aligned_c (st : bytes) (d : bytes) : (bytes * nat) * bytes :=
  let '(s1, rest, o1) := full_loop (length d) st d in
  let '(s2, o2) := upd_at s1 0 rest in
  ((s2, length rest), o1 ++ o2).

(* the whole routine, with the left-over position [partial] *)
Definition duplex_c (sp : bytes * nat) (d : bytes) : (bytes * nat) * bytes :=
  let '(st, partial) := sp in
  if partial =? 0 then aligned_c st d
  else
    let temp := rate - partial in
    if length d <? temp then
      let '(s1, o1) := upd_at st partial d in ((s1, partial + length d), o1)
    else
      let '(s1, o1) := upd_at st partial (firstn temp d) in
      let '(r, o2) := aligned_c (f s1) (skipn temp d) in
      (r, o1 ++ o2).

(* --- the byte-serial reference machine -------------------------------- *)

Definition advance (st : bytes) (pos : nat) : bytes * nat :=
  if S pos =? rate then (f st, 0) else (st, S pos).

Fixpoint serial (sp : bytes * nat) (d : bytes) : (bytes * nat) * bytes :=
  match d with
  | [] => (sp, [])
  | b :: d' =>
    let '(s1, o1) := upd_at (fst sp) (snd sp) [b] in
    let '(r, o2) := serial (advance s1 (snd sp)) d' in
    (r, o1 ++ o2)
  end.

(* --- the block-level specification ------------------------------------ *)

(* every block in [bl] is a full rate block: process it and permute *)
Fixpoint run_full (st : bytes) (bl : list bytes) : bytes * bytes :=
  match bl with
  | [] => (st, [])
  | b :: bl' =>
    let '(s1, o1) := upd_at st 0 b in
    let '(s2, o2) := run_full (f s1) bl' in
    (s2, o1 ++ o2)
  end.

(* The full blocks of m, then its last partial block t (possibly empty, not
   followed by a permutation), then the padding bit 0x80 at offset |t|:
   ASCON v1.2 section 2.4, "Processing the plaintext/ciphertext"; with
   bf_enc and the output ignored it is "Processing associated data" up to
   the final permutation. *)
Definition spec_duplex (st : bytes) (m : bytes) : bytes * bytes :=
  let q := length m / rate in
  let '(s1, o1) := run_full st (chunks rate (firstn (q * rate) m)) in
  let '(s2, o2) := upd_at s1 0 (skipn (q * rate) m) in
  (xor_at s2 (length m mod rate) [0x80%N], o1 ++ o2).

End Duplex.

(* 10* padding to a multiple of the rate: always adds at least one byte *)
Definition pad10 (rate : nat) (m : bytes) : bytes :=
  m ++ 0x80%N :: zeros (rate - 1 - length m mod rate).

(* absorb a list of full blocks, permuting after each *)
Definition absorb_blocks (f : bytes -> bytes) (st : bytes) (bl : list bytes) : bytes :=
  fold_left (fun s b => f (xor_at s 0 b)) bl st.

(* ---- squeezing ---------------------------------------------------------- *)

(* Reading the state is a duplex step whose input is ignored and whose state
   byte is kept: ASCON-XOFA's squeeze loop (permute after every completed
   block) is duplex_c bf_sq over n dummy bytes. *)
Definition bf_sq : bytefn := fun x _ => (x, x).

Section LazySqueeze.
(* ASCON-XOF's squeeze loop permutes lazily: before the first byte of every
   block (count = 0 in squeeze mode means "a permutation is pending"). *)
Variable f : bytes -> bytes.
Variable rate : nat.

Fixpoint lazy_loop (fuel : nat) (st : bytes) (n : nat) : bytes * nat * bytes :=
  match fuel with
  | O => (st, n, [])
  | S k =>
    if rate <=? n then
      let s1 := f st in
      let '(s2, rest, o2) := lazy_loop k s1 (n - rate) in
      (s2, rest, get_at s1 0 rate ++ o2)
    else (st, n, [])
  end.

Definition lazy_aligned_c (st : bytes) (n : nat) : (bytes * nat) * bytes :=
  let '(s1, rest, o1) := lazy_loop n st n in
  if rest =? 0 then ((s1, 0), o1)
  else let s2 := f s1 in ((s2, rest), o1 ++ get_at s2 0 rest).

Definition lazy_squeeze_c (sp : bytes * nat) (n : nat) : (bytes * nat) * bytes :=
  let '(st, count) := sp in
  if count =? 0 then lazy_aligned_c st n
  else
    let temp := rate - count in
    if n <? temp then ((st, count + n), get_at st count n)
    else
      let '(r, o2) := lazy_aligned_c st (n - temp) in
      (r, get_at st count temp ++ o2).

(* byte-serial lazy machine *)
Fixpoint lazy_serial (sp : bytes * nat) (n : nat) : (bytes * nat) * bytes :=
  match n with
  | O => (sp, [])
  | S k =>
    let st := if snd sp =? 0 then f (fst sp) else fst sp in
    let pos' := if S (snd sp) =? rate then 0 else S (snd sp) in
    let '(r, o2) := lazy_serial (st, pos') k in
    (r, get_at st (snd sp) 1 ++ o2)
  end.

End LazySqueeze.

(* Block-level specification of squeezing n bytes from a state s that has
   just been permuted: output S_r, permute, output S_r, ... with the last
   block truncated - i.e. the duplex over n dummy bytes with the reading
   byte function. *)
Definition spec_squeeze (f : bytes -> bytes) (rate : nat) (s : bytes) (n : nat) : bytes :=
  snd (spec_duplex bf_sq f rate s (zeros n)).
