(* C13 - byte images of the library's state objects as the C/C++ lays them
   out on x86-64, which fields each operation may write, and which bytes each
   free / clear / destructor writes.

   An image is a map from byte offsets to cells; a cell is [Some b] (a
   specified byte) or [None] (unspecified: padding, a vtable pointer, memory
   nothing has written yet).  Cryptographic content is abstract: an operation
   writes, into each field it may touch, bytes given by an arbitrary function
   [content] of the whole history so far.  What the model fixes is (1) the
   layout table (compared with sizeof/offsetof printed by the harness on every
   run), (2) the set of fields each operation may write (compared with the
   bytes that really change in the harness run), (3) the exact sequence of
   wipes each free function performs.                                         *)
From Coq Require Import List NArith Arith Bool String Lia.
Import ListNotations.
Local Open Scope string_scope.
Local Open Scope nat_scope.

Definition cell := option N.
Definition image := nat -> cell.
Definition raw : image := fun _ => None.

(* Data  : may hold key / message / state derived bytes; must be erased.
   Fixed : set to a constant by the init function and never changed after
           (ascon_random_state_t.reserved); not erased, not secret.
   Opaque: not data at all (C++ vtable pointer); never specified.            *)
Inductive fkind := Data | Fixed (v : N) | Opaque.
Record field := mkF { f_name : string; f_off : nat; f_len : nat; f_kind : fkind }.
Record layout := mkL { l_size : nat; l_fields : list field }.

Definition inr (off len i : nat) : bool := (off <=? i) && (i <? off + len).
Definition fill (off len : nat) (g : nat -> cell) (m : image) : image :=
  fun i => if inr off len i then g (i - off) else m i.
Definition is_data (f : field) : bool := match f_kind f with Data => true | _ => false end.
Definition find_field (L : layout) (nm : string) : option field :=
  find (fun f => String.eqb (f_name f) nm) (l_fields L).
Definition in_data (L : layout) (i : nat) : bool :=
  existsb (fun f => is_data f && inr (f_off f) (f_len f) i) (l_fields L).

(* memory of a fresh object: nothing specified except what the init function
   sets to a constant *)
Definition init_image (L : layout) : image :=
  fold_right (fun f m => match f_kind f with
                         | Fixed v => fill (f_off f) (f_len f) (fun _ => Some v) m
                         | _ => m end) raw (l_fields L).

(* an operation writes history-dependent bytes into a named Data field;
   names that are not Data fields of the layout are ignored *)
Definition write_named (L : layout) (g : string -> nat -> N) (nm : string) (m : image) : image :=
  match find_field L nm with
  | Some f => if is_data f then fill (f_off f) (f_len f) (fun i => Some (g nm i)) m else m
  | None => m
  end.

Section Apply.
  Variable L : layout.
  Variable op : Type.
  Variable writes : op -> list string.
  Variable content : list op -> string -> nat -> N.
  Definition step (hist : list op) (o : op) (m : image) : image :=
    fold_right (write_named L (content hist)) m (writes o).
  Fixpoint apply_from (pre h : list op) (m : image) : image :=
    match h with
    | [] => m
    | o :: t => let pre' := (pre ++ [o])%list in apply_from pre' t (step pre' o m)
    end.
  Definition apply (h : list op) : image := apply_from [] h (init_image L).
End Apply.

(* what a free / clear / destructor does to the object's bytes, in order *)
Inductive act :=
| CleanObj                              (* ascon_clean(obj, sizeof( obj )) *)
| CleanField (nm : string)              (* ascon_free / ascon_clean of one member *)
| ZeroField (nm : string)               (* plain store of zero to a member *)
| PutField (nm : string) (d : list N) (skip : nat).  (* member re-initialised to the constant bytes d[skip..] *)

Definition act_range (L : layout) (a : act) : option (nat * nat) :=
  match a with
  | CleanObj => Some (0, l_size L)
  | CleanField nm | ZeroField nm | PutField nm _ _ =>
    option_map (fun f => (f_off f, f_len f)) (find_field L nm)
  end.
Definition act_val (a : act) : nat -> cell :=
  match a with PutField _ d skip => fun i => Some (nth (skip + i) d 0%N) | _ => fun _ => Some 0%N end.
Definition run_act (L : layout) (a : act) (m : image) : image :=
  match act_range L a with Some (o, n) => fill o n (act_val a) m | None => m end.
Definition erase (L : layout) (acts : list act) (m : image) : image :=
  fold_left (fun m a => run_act L a m) acts m.
Definition act_covers (L : layout) (a : act) (i : nat) : bool :=
  match act_range L a with Some (o, n) => inr o n i | None => false end.
Definition covered (L : layout) (acts : list act) (i : nat) : bool := existsb (fun a => act_covers L a i) acts.

(* the decidable side condition: every field lies inside the object and
   every byte of every Data field is written by the erase sequence *)
Definition fields_in (L : layout) : bool := forallb (fun f => f_off f + f_len f <=? l_size L) (l_fields L).
Definition wipe_ok (L : layout) (acts : list act) : bool :=
  fields_in L && forallb (fun i => covered L acts i || negb (in_data L i)) (seq 0 (l_size L)).

Definition to_list (n : nat) (m : image) : list cell := map m (seq 0 n).
Fixpoint specified_from (i : nat) (l : list cell) : list (nat * N) :=
  match l with
  | [] => []
  | Some b :: t => (i, b) :: specified_from (S i) t
  | None :: t => specified_from (S i) t
  end.
Definition specified (l : list cell) : list (nat * N) := specified_from 0 l.
Definition zeros (n : nat) : list cell := repeat (Some 0%N) n.
Definition unspec (n : nat) : list cell := repeat None n.
Definition consts (d : list N) (n : nat) : list cell := map (fun i => Some (nth i d 0%N)) (seq 0 n).

(* ---- object specifications ------------------------------------------- *)
Record objspec := mkSpec {
  o_name : string;                 (* type name used by harness and check *)
  o_how : string;                  (* "free" | "dtor" | "clear" *)
  o_layout : layout;
  o_op : Type;                     (* operation alphabet *)
  o_parse : string -> list nat -> option o_op;
  o_writes : o_op -> list string;  (* Data fields the operation may write *)
  o_erase : list act;
}.
Definition image_before (S : objspec) (content : list (o_op S) -> string -> nat -> N) (h : list (o_op S)) : list cell :=
  to_list (l_size (o_layout S)) (apply (o_layout S) (o_op S) (o_writes S) content h).
Definition image_after (S : objspec) (content : list (o_op S) -> string -> nat -> N) (h : list (o_op S)) : list cell :=
  to_list (l_size (o_layout S)) (erase (o_layout S) (o_erase S) (apply (o_layout S) (o_op S) (o_writes S) content h)).
Definition erased_image (S : objspec) : list cell :=
  to_list (l_size (o_layout S)) (erase (o_layout S) (o_erase S) (init_image (o_layout S))).
Definition spec_ok (S : objspec) : bool := wipe_ok (o_layout S) (o_erase S).

Fixpoint pick {A : Type} (s : string) (tbl : list (string * A)) : option A :=
  match tbl with
  | [] => None
  | (n, v) :: t => if String.eqb s n then Some v else pick s t
  end.
Definition a0 (l : list nat) := nth 0 l 0.
Definition a1 (l : list nat) := nth 1 l 0.
Definition a2 (l : list nat) := nth 2 l 0.
Definition Dt (nm : string) (off len : nat) := mkF nm off len Data.

(* ---- permutation state: ascon_state_t, 40 bytes ----------------------- *)
Inductive op_perm :=
| PInit | PAdd (off n : nat) | POverwrite (off n : nat) | PZero (off n : nat)
| PExtract (off n : nat) | PExtractAdd (off n : nat) | PExtractOverwrite (off n : nat)
| PPermute (first_round : nat) | PCopyFrom | PCopyTo | PRelease | PAcquire.
Definition parse_perm (s : string) (l : list nat) : option op_perm :=
  pick s [("init", PInit); ("add", PAdd (a0 l) (a1 l)); ("overwrite", POverwrite (a0 l) (a1 l));
          ("zero", PZero (a0 l) (a1 l)); ("extract", PExtract (a0 l) (a1 l));
          ("extractadd", PExtractAdd (a0 l) (a1 l)); ("extractoverwrite", PExtractOverwrite (a0 l) (a1 l));
          ("permute", PPermute (a0 l)); ("copyfrom", PCopyFrom); ("copyto", PCopyTo);
          ("release", PRelease); ("acquire", PAcquire)].
Definition writes_perm (o : op_perm) : list string :=
  match o with
  | PInit | PAdd _ _ | POverwrite _ _ | PZero _ _ | PExtractOverwrite _ _ | PPermute _ | PCopyFrom => ["S"]
  | PExtract _ _ | PExtractAdd _ _ | PCopyTo | PRelease | PAcquire => []
  end.
Definition L_perm := mkL 40 [Dt "S" 0 40].
(* ascon_free: ascon_backend_free (registers only), ascon_clean(state, 40) *)
Definition spec_perm := mkSpec "perm" "free" L_perm op_perm parse_perm writes_perm [CleanObj].

(* ---- incremental AEAD: ascon128_state_t, ascon128a_state_t, ascon80pq_state_t *)
Inductive op_aead :=
| AInit (key nonce : nat)          (* 0 = NULL pointer, 1 = given *)
| AReinit (key nonce : nat)        (* nonce 2 = the state's own nonce field *)
| AStart (adlen : nat) | AEncrypt (len : nat) | ADecrypt (len : nat)
| AEncFinal | ADecFinal (valid : nat).
Definition parse_aead (s : string) (l : list nat) : option op_aead :=
  pick s [("init", AInit (a0 l) (a1 l)); ("reinit", AReinit (a0 l) (a1 l)); ("start", AStart (a0 l));
          ("enc", AEncrypt (a0 l)); ("dec", ADecrypt (a0 l)); ("encfin", AEncFinal); ("decfin", ADecFinal (a0 l))].
Definition writes_aead (o : op_aead) : list string :=
  match o with
  | AInit _ _ => ["state"; "key"; "nonce"; "posn"]
  | AReinit _ _ => ["key"; "nonce"; "posn"]
  | AStart _ => ["state"; "nonce"; "posn"]
  | AEncrypt _ | ADecrypt _ => ["state"; "posn"]
  | AEncFinal | ADecFinal _ => ["state"]
  end.
Definition L_aead128 := mkL 80 [Dt "state" 0 40; Dt "key" 40 16; Dt "nonce" 56 16; Dt "posn" 72 1].
Definition L_aead80pq := mkL 80 [Dt "state" 0 40; Dt "key" 40 20; Dt "nonce" 60 16; Dt "posn" 76 1].
(* ascon128_aead_free: acquire; ascon_free(&state->state); ascon_clean(state, sizeof( *state )) *)
Definition erase_aead := [CleanField "state"; CleanObj].
Definition spec_aead128 := mkSpec "aead128" "free" L_aead128 op_aead parse_aead writes_aead erase_aead.
Definition spec_aead128a := mkSpec "aead128a" "free" L_aead128 op_aead parse_aead writes_aead erase_aead.
Definition spec_aead80pq := mkSpec "aead80pq" "free" L_aead80pq op_aead parse_aead writes_aead erase_aead.

(* ---- XOF-shaped objects: state 40, count 1, mode 1, 6 bytes tail padding
   ascon_xof_state_t, ascon_xofa_state_t, ascon_prf_state_t and their
   single-member wrappers hash(a), hmac(a), kmac(a), kdf(a)               *)
Definition L_xoflike (p : string) :=
  mkL 48 [Dt (p ++ "state") 0 40; Dt (p ++ "count") 40 1; Dt (p ++ "mode") 41 1].
Definition all3 (p : string) : list string := [p ++ "state"; p ++ "count"; p ++ "mode"].
(* ascon_xof_free / ascon_prf_free: acquire; ascon_free(&state->state); count = 0; mode = 0.
   The tail padding is not written. *)
Definition erase_xoflike (p : string) := [CleanField (p ++ "state"); ZeroField (p ++ "count"); ZeroField (p ++ "mode")].

Inductive op_xof :=
| XInit | XInitFixed (outlen : nat) | XInitCustom (namelen customlen outlen : nat)
| XReinit | XReinitFixed (outlen : nat) | XReinitCustom (namelen customlen outlen : nat)
| XAbsorb (n : nat) | XSqueeze (n : nat) | XPad | XCopyFrom | XCopyTo.
Definition parse_xof (s : string) (l : list nat) : option op_xof :=
  pick s [("init", XInit); ("initfixed", XInitFixed (a0 l)); ("initcustom", XInitCustom (a0 l) (a1 l) (a2 l));
          ("reinit", XReinit); ("reinitfixed", XReinitFixed (a0 l)); ("reinitcustom", XReinitCustom (a0 l) (a1 l) (a2 l));
          ("absorb", XAbsorb (a0 l)); ("squeeze", XSqueeze (a0 l)); ("pad", XPad);
          ("copyfrom", XCopyFrom); ("copyto", XCopyTo)].
Definition writes_xof (p : string) (o : op_xof) : list string :=
  match o with XCopyTo => [] | _ => all3 p end.
Definition spec_xof := mkSpec "xof" "free" (L_xoflike "") op_xof parse_xof (writes_xof "") (erase_xoflike "").
Definition spec_xofa := mkSpec "xofa" "free" (L_xoflike "") op_xof parse_xof (writes_xof "") (erase_xoflike "").

Inductive op_hash := HInit | HReinit | HUpdate (n : nat) | HFinalize | HCopyFrom | HCopyTo.
Definition parse_hash (s : string) (l : list nat) : option op_hash :=
  pick s [("init", HInit); ("reinit", HReinit); ("update", HUpdate (a0 l)); ("finalize", HFinalize);
          ("copyfrom", HCopyFrom); ("copyto", HCopyTo)].
Definition writes_hash (p : string) (o : op_hash) : list string :=
  match o with HCopyTo => [] | _ => all3 p end.
(* ascon_hash_free = ascon_xof_free(&state->xof) *)
Definition spec_hash := mkSpec "hash" "free" (L_xoflike "xof.") op_hash parse_hash (writes_hash "xof.") (erase_xoflike "xof.").
Definition spec_hasha := mkSpec "hasha" "free" (L_xoflike "xof.") op_hash parse_hash (writes_hash "xof.") (erase_xoflike "xof.").

Inductive op_prf :=
| FInit | FInitFixed (outlen : nat) | FReinit | FReinitFixed (outlen : nat) | FAbsorb (n : nat) | FSqueeze (n : nat).
Definition parse_prf (s : string) (l : list nat) : option op_prf :=
  pick s [("init", FInit); ("initfixed", FInitFixed (a0 l)); ("reinit", FReinit); ("reinitfixed", FReinitFixed (a0 l));
          ("absorb", FAbsorb (a0 l)); ("squeeze", FSqueeze (a0 l))].
Definition writes_prf (o : op_prf) : list string := all3 "".
Definition spec_prf := mkSpec "prf" "free" (L_xoflike "") op_prf parse_prf writes_prf (erase_xoflike "").

Inductive op_hmac := MInit (keylen : nat) | MReinit (keylen : nat) | MUpdate (n : nat) | MFinalize (keylen : nat).
Definition parse_hmac (s : string) (l : list nat) : option op_hmac :=
  pick s [("init", MInit (a0 l)); ("reinit", MReinit (a0 l)); ("update", MUpdate (a0 l)); ("finalize", MFinalize (a0 l))].
Definition writes_hmac (o : op_hmac) : list string := all3 "hash.xof.".
(* ascon_hmac_free = ascon_hash_free(&state->hash) *)
Definition spec_hmac := mkSpec "hmac" "free" (L_xoflike "hash.xof.") op_hmac parse_hmac writes_hmac (erase_xoflike "hash.xof.").
Definition spec_hmaca := mkSpec "hmaca" "free" (L_xoflike "hash.xof.") op_hmac parse_hmac writes_hmac (erase_xoflike "hash.xof.").

Inductive op_kmac :=
| KInit (keylen customlen outlen : nat) | KReinit (keylen customlen outlen : nat) | KAbsorb (n : nat) | KSqueeze (n : nat).
Definition parse_kmac (s : string) (l : list nat) : option op_kmac :=
  pick s [("init", KInit (a0 l) (a1 l) (a2 l)); ("reinit", KReinit (a0 l) (a1 l) (a2 l));
          ("absorb", KAbsorb (a0 l)); ("squeeze", KSqueeze (a0 l))].
Definition writes_kmac (o : op_kmac) : list string := all3 "xof.".
(* ascon_kmac_free = ascon_xof_free(&state->xof) *)
Definition spec_kmac := mkSpec "kmac" "free" (L_xoflike "xof.") op_kmac parse_kmac writes_kmac (erase_xoflike "xof.").
Definition spec_kmaca := mkSpec "kmaca" "free" (L_xoflike "xof.") op_kmac parse_kmac writes_kmac (erase_xoflike "xof.").

Inductive op_kdf := DInit (keylen customlen outlen : nat) | DReinit (keylen customlen outlen : nat) | DSqueeze (n : nat).
Definition parse_kdf (s : string) (l : list nat) : option op_kdf :=
  pick s [("init", DInit (a0 l) (a1 l) (a2 l)); ("reinit", DReinit (a0 l) (a1 l) (a2 l)); ("squeeze", DSqueeze (a0 l))].
Definition writes_kdf (o : op_kdf) : list string := all3 "state.".
(* ascon_kdf_free = ascon_xof_free(&state->state) *)
Definition spec_kdf := mkSpec "kdf" "free" (L_xoflike "state.") op_kdf parse_kdf writes_kdf (erase_xoflike "state.").
Definition spec_kdfa := mkSpec "kdfa" "free" (L_xoflike "state.") op_kdf parse_kdf writes_kdf (erase_xoflike "state.").

(* ---- HKDF: prk 32, out 32, counter 1, posn 1; no padding --------------- *)
Inductive op_hkdf := EExtract (keylen saltlen : nat) | EExpand (infolen outlen : nat).
Definition parse_hkdf (s : string) (l : list nat) : option op_hkdf :=
  pick s [("extract", EExtract (a0 l) (a1 l)); ("expand", EExpand (a0 l) (a1 l))].
Definition writes_hkdf (o : op_hkdf) : list string :=
  match o with EExtract _ _ => ["prk"; "counter"; "posn"] | EExpand _ _ => ["out"; "counter"; "posn"] end.
Definition L_hkdf := mkL 66 [Dt "prk" 0 32; Dt "out" 32 32; Dt "counter" 64 1; Dt "posn" 65 1].
(* ascon_hkdf_free: ascon_clean(state, sizeof(ascon_hkdf_state_t)) *)
Definition spec_hkdf := mkSpec "hkdf" "free" L_hkdf op_hkdf parse_hkdf writes_hkdf [CleanObj].
Definition spec_hkdfa := mkSpec "hkdfa" "free" L_hkdf op_hkdf parse_hkdf writes_hkdf [CleanObj].

(* ---- PRNG: xof 48 (with its padding), counter 4, reserved 4 ------------ *)
Inductive op_random := RInit | RFetch (n : nat) | RReseed | RFeed (n : nat) | RSave | RLoad (present : nat).
Definition parse_random (s : string) (l : list nat) : option op_random :=
  pick s [("init", RInit); ("fetch", RFetch (a0 l)); ("reseed", RReseed); ("feed", RFeed (a0 l));
          ("save", RSave); ("load", RLoad (a0 l))].
Definition writes_random (o : op_random) : list string := ["xof.state"; "xof.count"; "xof.mode"; "counter"].
Definition L_random :=
  mkL 56 [Dt "xof.state" 0 40; Dt "xof.count" 40 1; Dt "xof.mode" 41 1; Dt "counter" 48 4;
          mkF "reserved" 52 4 (Fixed 0%N)].
(* ascon_random_free: counter = 0; ascon_xof_free(&state->xof).  `reserved`
   is not written; ascon_random_init set it to 0 and nothing changes it. *)
Definition spec_random := mkSpec "random" "free" L_random op_random parse_random writes_random
  (ZeroField "counter" :: erase_xoflike "xof.").

(* ---- ISAP pre-computed key: ke 40, ka 40 ------------------------------- *)
Inductive op_isapkey := IInit | ILoad | ISave | IEncrypt (mlen adlen : nat) | IDecrypt (mlen adlen valid : nat).
Definition parse_isapkey (s : string) (l : list nat) : option op_isapkey :=
  pick s [("init", IInit); ("load", ILoad); ("save", ISave); ("encrypt", IEncrypt (a0 l) (a1 l));
          ("decrypt", IDecrypt (a0 l) (a1 l) (a2 l))].
Definition writes_isapkey (o : op_isapkey) : list string :=
  match o with IInit | ILoad => ["ke"; "ka"] | _ => [] end.
Definition L_isapkey := mkL 80 [Dt "ke" 0 40; Dt "ka" 40 40].
(* *_isap_aead_free: acquire + ascon_free on ke, then on ka *)
Definition erase_isapkey := [CleanField "ke"; CleanField "ka"].
Definition spec_isap128 := mkSpec "isap128" "free" L_isapkey op_isapkey parse_isapkey writes_isapkey erase_isapkey.
Definition spec_isap128a := mkSpec "isap128a" "free" L_isapkey op_isapkey parse_isapkey writes_isapkey erase_isapkey.
Definition spec_isap80pq := mkSpec "isap80pq" "free" L_isapkey op_isapkey parse_isapkey writes_isapkey erase_isapkey.

(* ---- masked keys (64 / 192 bytes) and masked permutation state --------- *)
Inductive op_mkey := YInit | YRandomize | YExtract | YEncrypt (mlen adlen : nat) | YDecrypt (mlen adlen valid : nat).
Definition parse_mkey (s : string) (l : list nat) : option op_mkey :=
  pick s [("init", YInit); ("randomize", YRandomize); ("extract", YExtract); ("encrypt", YEncrypt (a0 l) (a1 l));
          ("decrypt", YDecrypt (a0 l) (a1 l) (a2 l))].
Definition writes_mkey (o : op_mkey) : list string := match o with YInit | YRandomize => ["k"] | _ => [] end.
(* ascon_masked_key_128_free / _160_free: ascon_clean(masked, sizeof) *)
Definition spec_mkey128 := mkSpec "mkey128" "free" (mkL 64 [Dt "k" 0 64]) op_mkey parse_mkey writes_mkey [CleanObj].
Definition spec_mkey160 := mkSpec "mkey160" "free" (mkL 192 [Dt "k" 0 192]) op_mkey parse_mkey writes_mkey [CleanObj].

Inductive op_mstate := SInit | SFromX1 (shares : nat) | SRandomize (shares : nat) | SPermute (first_round shares : nat) | SToX1 (shares : nat).
Definition parse_mstate (s : string) (l : list nat) : option op_mstate :=
  pick s [("init", SInit); ("fromx1", SFromX1 (a0 l)); ("randomize", SRandomize (a0 l)); ("permute", SPermute (a0 l) (a1 l));
          ("tox1", SToX1 (a0 l))].
Definition writes_mstate (o : op_mstate) : list string := match o with SToX1 _ => [] | _ => ["M"] end.
(* ascon_masked_state_free: ascon_clean(state, sizeof); 5 words of MAX_SHARES(=4) x 8 bytes *)
Definition spec_mstate := mkSpec "mstate" "free" (mkL 160 [Dt "M" 0 160]) op_mstate parse_mstate writes_mstate [CleanObj].

(* ---- C++ cipher objects: vptr 8, then key and nonce members ------------ *)
Inductive op_cpp :=
| CCtor (variant : nat)            (* 0 default; 1 key; 2 NULL key; 3 saved key (ISAP) *)
| CSetKey (len : nat) | CSetNonce (len : nat) | CSetCounter
| CEncrypt (mlen adlen : nat) | CDecrypt (mlen adlen valid : nat)
| CClear | CSaveKey | CRandomize.
Definition parse_cpp (s : string) (l : list nat) : option op_cpp :=
  pick s [("ctor", CCtor (a0 l)); ("setkey", CSetKey (a0 l)); ("setnonce", CSetNonce (a0 l)); ("setcounter", CSetCounter);
          ("encrypt", CEncrypt (a0 l) (a1 l)); ("decrypt", CDecrypt (a0 l) (a1 l) (a2 l));
          ("clear", CClear); ("savekey", CSaveKey); ("randomize", CRandomize)].
Definition writes_cpp (key : list string) (nonce : string) (o : op_cpp) : list string :=
  match o with
  | CCtor _ | CClear => (key ++ [nonce])%list
  | CSetKey _ | CRandomize => key
  | CSetNonce _ | CSetCounter | CEncrypt _ _ | CDecrypt _ _ _ => [nonce]
  | CSaveKey => []
  end.
Definition vptr := mkF "vptr" 0 8 Opaque.
Definition L_cpp128 := mkL 40 [vptr; Dt "m_state.key" 8 16; Dt "m_state.nonce" 24 16].
Definition L_cpp80pq := mkL 48 [vptr; Dt "m_state.key" 8 20; Dt "m_state.nonce" 28 16].
Definition w_cppaead := writes_cpp ["m_state.key"] "m_state.nonce".
(* ~aead128 and aead128::clear: ascon_clean(&m_state, sizeof(m_state)); m_state = {key; nonce}, no padding inside *)
Definition erase_cppaead := [CleanField "m_state.key"; CleanField "m_state.nonce"].
Definition mk_cppaead (nm how : string) (L : layout) := mkSpec nm how L op_cpp parse_cpp w_cppaead erase_cppaead.

Definition L_cppisap := mkL 104 [vptr; Dt "m_key.ke" 8 40; Dt "m_key.ka" 48 40; Dt "m_nonce" 88 16].
Definition w_cppisap := writes_cpp ["m_key.ke"; "m_key.ka"] "m_nonce".
(* ~isap128: *_isap_aead_free(&m_key); ascon_clean(m_nonce, 16) *)
Definition erase_cppisap_dtor := [CleanField "m_key.ke"; CleanField "m_key.ka"; CleanField "m_nonce"].
(* isap128::clear: free(&m_key); *_isap_aead_init(&m_key, zero_key); ascon_clean(m_nonce, 16).
   z = the 80 bytes ke||ka that *_isap_aead_init computes from the all-zero key. *)
Definition erase_cppisap_clear (z : list N) :=
  [CleanField "m_key.ke"; CleanField "m_key.ka"; PutField "m_key.ke" z 0; PutField "m_key.ka" z 40;
   CleanField "m_nonce"].
Definition mk_cppisap (nm how : string) (acts : list act) := mkSpec nm how L_cppisap op_cpp parse_cpp w_cppisap acts.

Definition L_cppmasked128 := mkL 88 [vptr; Dt "m_key.k" 8 64; Dt "m_nonce" 72 16].
Definition L_cppmasked160 := mkL 216 [vptr; Dt "m_key.k" 8 192; Dt "m_nonce" 200 16].
Definition w_cppmasked := writes_cpp ["m_key.k"] "m_nonce".
(* ~aead128_masked and clear: ascon_masked_key_128_free(&m_key); ascon_clean(m_nonce, 16) *)
Definition erase_cppmasked := [CleanField "m_key.k"; CleanField "m_nonce"].
Definition mk_cppmasked (nm how : string) (L : layout) := mkSpec nm how L op_cpp parse_cpp w_cppmasked erase_cppmasked.

(* ---- C++ hash / xof objects: exactly the C state, no vptr -------------- *)
Inductive op_cpphash :=
| GCtor (variant : nat)            (* 0 default; 1 copy constructor; 2 custom (xof) *)
| GAssign | GReset | GUpdate (n : nat) | GFinalize | GSqueeze (n : nat) | GPad.
Definition parse_cpphash (s : string) (l : list nat) : option op_cpphash :=
  pick s [("ctor", GCtor (a0 l)); ("assign", GAssign); ("reset", GReset); ("update", GUpdate (a0 l));
          ("finalize", GFinalize); ("squeeze", GSqueeze (a0 l)); ("pad", GPad)].
Definition writes_cpphash (p : string) (o : op_cpphash) : list string := all3 p.
(* ~hash: ascon_hash_free(&m_state); ~xof: ascon_xof_free(&m_state) *)
Definition mk_cpphash (nm p : string) :=
  mkSpec nm "dtor" (L_xoflike p) op_cpphash parse_cpphash (writes_cpphash p) (erase_xoflike p).

(* ---- the table --------------------------------------------------------- *)
(* z : zero-key image (ke||ka, 80 bytes) per ISAP class name *)
Definition all_specs (z : string -> list N) : list objspec :=
  [spec_perm; spec_aead128; spec_aead128a; spec_aead80pq;
   spec_xof; spec_xofa; spec_hash; spec_hasha; spec_prf; spec_hmac; spec_hmaca;
   spec_kmac; spec_kmaca; spec_kdf; spec_kdfa; spec_hkdf; spec_hkdfa; spec_random;
   spec_isap128; spec_isap128a; spec_isap80pq; spec_mkey128; spec_mkey160; spec_mstate;
   mk_cppaead "cpp_aead128" "dtor" L_cpp128; mk_cppaead "cpp_aead128" "clear" L_cpp128;
   mk_cppaead "cpp_aead128a" "dtor" L_cpp128; mk_cppaead "cpp_aead128a" "clear" L_cpp128;
   mk_cppaead "cpp_aead80pq" "dtor" L_cpp80pq; mk_cppaead "cpp_aead80pq" "clear" L_cpp80pq;
   mk_cppaead "cpp_siv128" "dtor" L_cpp128; mk_cppaead "cpp_siv128" "clear" L_cpp128;
   mk_cppaead "cpp_siv128a" "dtor" L_cpp128; mk_cppaead "cpp_siv128a" "clear" L_cpp128;
   mk_cppaead "cpp_siv80pq" "dtor" L_cpp80pq; mk_cppaead "cpp_siv80pq" "clear" L_cpp80pq;
   mk_cppisap "cpp_isap128" "dtor" erase_cppisap_dtor; mk_cppisap "cpp_isap128" "clear" (erase_cppisap_clear (z "cpp_isap128"));
   mk_cppisap "cpp_isap128a" "dtor" erase_cppisap_dtor; mk_cppisap "cpp_isap128a" "clear" (erase_cppisap_clear (z "cpp_isap128a"));
   mk_cppisap "cpp_isap80pq" "dtor" erase_cppisap_dtor; mk_cppisap "cpp_isap80pq" "clear" (erase_cppisap_clear (z "cpp_isap80pq"));
   mk_cppmasked "cpp_aead128_masked" "dtor" L_cppmasked128; mk_cppmasked "cpp_aead128_masked" "clear" L_cppmasked128;
   mk_cppmasked "cpp_aead128a_masked" "dtor" L_cppmasked128; mk_cppmasked "cpp_aead128a_masked" "clear" L_cppmasked128;
   mk_cppmasked "cpp_aead80pq_masked" "dtor" L_cppmasked160; mk_cppmasked "cpp_aead80pq_masked" "clear" L_cppmasked160;
   mk_cpphash "cpp_hash" "m_state.xof."; mk_cpphash "cpp_hasha" "m_state.xof.";
   mk_cpphash "cpp_xof" "m_state."; mk_cpphash "cpp_xof32" "m_state."; mk_cpphash "cpp_xof64" "m_state.";
   mk_cpphash "cpp_xofa" "m_state."; mk_cpphash "cpp_xofa32" "m_state."; mk_cpphash "cpp_xofa64" "m_state."].

Definition find_spec (z : string -> list N) (nm how : string) : option objspec :=
  find (fun S => String.eqb (o_name S) nm && String.eqb (o_how S) how) (all_specs z).

(* ---- running the model on a concrete history (extracted) --------------- *)
Fixpoint parse_all (S : objspec) (toks : list (string * list nat)) : option (list (o_op S)) :=
  match toks with
  | [] => Some []
  | (s, l) :: t =>
    match o_parse S s l, parse_all S t with
    | Some o, Some r => Some (o :: r)
    | _, _ => None
    end
  end.
(* some bytes that depend on the history length, the field and the position; never zero *)
Definition demo_content {A : Type} (hist : list A) (nm : string) (i : nat) : N :=
  N.of_nat (1 + (List.length hist * 37 + String.length nm * 5 + i * 11) mod 255).
Record runres := mkRun { r_before : list cell; r_after : list cell; r_writes : list (list string) }.
Definition run_spec (S : objspec) (toks : list (string * list nat)) : option runres :=
  match parse_all S toks with
  | None => None
  | Some h => Some (mkRun (image_before S demo_content h) (image_after S demo_content h) (map (o_writes S) h))
  end.
Definition layout_rows (S : objspec) : nat * list (string * (nat * nat) * nat) :=
  (l_size (o_layout S),
   map (fun f => (f_name f, (f_off f, f_len f), match f_kind f with Data => 0 | Fixed _ => 1 | Opaque => 2 end))
       (l_fields (o_layout S))).
