(* Executable model of src/hash/ascon-xof.c, ascon-xofa.c, ascon-hash.c,
   ascon-hasha.c: the {state; count; mode} machine. *)
From AsconV Require Export Spec.Hash.
Local Open Scope nat_scope.

Record xof_state := { x_st : bytes; x_count : nat; x_mode : bool }.

Section WithPerm.
Variable perm : nat -> bytes -> bytes.

Definition mk (s : bytes) : xof_state := {| x_st := s; x_count := 0; x_mode := false |}.

(* ascon_xof_init / ascon_xofa_init / ascon_hash_init / ascon_hasha_init:
   the C copies a pre-computed constant; that the constants equal these
   values is proved from the current source on every run (C03_iv) *)
Definition xof_init (v : xof_variant) : xof_state := mk (iv_state perm v 0).

(* ascon_xof_init_fixed *)
Definition xof_init_fixed (v : xof_variant) (outlen : N) : xof_state :=
  let outlen := if (536870912 <=? outlen)%N then 0%N else outlen in
  if (outlen =? 0)%N then xof_init v
  else mk (perm 0 (set_at (zeros 40) 0 (be_encode 8 (N.lor (xv_iv v) (outlen * 8)%N)))).
Definition hash_init (v : xof_variant) : xof_state := xof_init_fixed v 32.

(* ascon_xof_absorb *)
Definition xof_absorb (v : xof_variant) (s : xof_state) (d : bytes) : xof_state :=
  let '(st, count) := if x_mode s then (perm 0 (x_st s), 0) else (x_st s, x_count s) in
  let '((st', count'), _) := duplex_c bf_enc (perm (xv_pb v)) (xv_rate_in v) (st, count) d in
  {| x_st := st'; x_count := count'; x_mode := false |}.

(* ascon_xof_squeeze / ascon_xofa_squeeze *)
Definition xof_enter_squeeze (v : xof_variant) (s : xof_state) : bytes * nat :=
  if x_mode s then (x_st s, x_count s)
  else
    let st := sepf v (xor_at (x_st s) (x_count s) [0x80%N]) in
    if xv_lazy v then (st, 0) else (perm 0 st, 0).
Definition xof_squeeze (v : xof_variant) (s : xof_state) (n : nat) : xof_state * bytes :=
  let sp := xof_enter_squeeze v s in
  let '((st', count'), out) :=
    if xv_lazy v then lazy_squeeze_c (perm 0) (xv_rate_out v) sp n
    else duplex_c bf_sq (perm (xv_pb v)) (xv_rate_out v) sp (zeros n) in
  ({| x_st := st'; x_count := count'; x_mode := true |}, out).

(* ascon_xof_pad *)
Definition xof_pad (v : xof_variant) (s : xof_state) : xof_state :=
  if x_mode s then xof_absorb v s []
  else if x_count s =? 0 then s
  else {| x_st := perm (xv_pb v) (x_st s); x_count := 0; x_mode := false |}.

(* ascon_xof_absorb_custom *)
Definition xof_absorb_custom (v : xof_variant) (s : xof_state) (custom : bytes) : xof_state :=
  match custom with
  | [] => s
  | _ =>
    let s1 := xof_absorb v s custom in
    let st := xor_at (x_st s1) (x_count s1) [0x80%N] in
    let st := perm (xv_pb v) st in
    {| x_st := xor_at st 39 [1%N]; x_count := 0; x_mode := x_mode s1 |}
  end.

(* ascon_xof_init_custom: function_name = None is a NULL pointer *)
Definition xof_init_custom (v : xof_variant) (name : option bytes) (custom : bytes) (outlen : N) : xof_state :=
  let name := match name with Some n => n | None => [] end in
  let outlen := if (536870912 <=? outlen)%N then 0%N else outlen in
  let temp :=
    if length name =? 0 then zeros 32
    else if length name <=? 32 then name ++ zeros (32 - length name)
    else snd (xof_squeeze v (xof_absorb v (xof_init_fixed v 32) name) 32) in
  let st := set_at (zeros 40) 8 temp in
  let st := set_at st 0 (be_encode 8 (N.lor (xv_iv v) (outlen * 8)%N)) in
  xof_absorb_custom v (mk (perm 0 st)) custom.

(* ascon_xof_free: zero state, count, mode *)
Definition xof_free (s : xof_state) : xof_state := {| x_st := zeros 40; x_count := 0; x_mode := false |}.

(* ascon_xof_copy *)
Definition xof_copy (s : xof_state) : xof_state := s.

(* one-shot ascon_xof / ascon_hash etc. *)
Definition xof_oneshot (v : xof_variant) (msg : bytes) : bytes :=
  snd (xof_squeeze v (xof_absorb v (xof_init v) msg) 32).
Definition hash_oneshot (v : xof_variant) (msg : bytes) : bytes :=
  snd (xof_squeeze v (xof_absorb v (hash_init v) msg) 32).

(* a whole run: absorb every chunk, then squeeze every requested size *)
Definition xof_run (v : xof_variant) (s0 : xof_state) (chunks : list bytes) (outs : list nat) : bytes :=
  let s1 := fold_left (xof_absorb v) chunks s0 in
  snd (fold_left (fun '(s, acc) n => let '(s', o) := xof_squeeze v s n in (s', acc ++ o)) outs (s1, [])).

End WithPerm.
