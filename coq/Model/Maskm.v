(* Masked words and masked keys (C10), layout-free: a masked word with n shares is the list of its
   un-rotated shares u_0 .. u_{n-1} (the stored share j is u_j rotated right by 11 j bits, or 5 j bits
   per half for the 32-bit layout: a fixed bijection per share, which the translated kernels account for);
   its value is the XOR of the u_j.  The random source is a tape of 64-bit words consumed in call order:
   n-1 words per masked word. *)
From Coq Require Import List NArith Bool.
From AsconV Require Import Bits.Bytes.
Import ListNotations.
Local Open Scope N_scope.

Definition xors (l : list N) : N := fold_right N.lxor 0 l.

Fixpoint map2x (a b : list N) : list N :=
  match a, b with
  | x :: a', y :: b' => N.lxor x y :: map2x a' b'
  | _, _ => a
  end.

Definition mw_mask (d : N) (rs : list N) : list N := N.lxor d (xors rs) :: rs.
Definition mw_value (w : list N) : N := xors w.
Definition mw_randomize (w rs : list N) : list N :=
  match w with [] => [] | u0 :: us => N.lxor u0 (xors rs) :: map2x us rs end.

(* which shares differ after re-randomising *)
Fixpoint changed (a b : list N) : list bool :=
  match a, b with
  | x :: a', y :: b' => negb (N.eqb x y) :: changed a' b'
  | _, _ => []
  end.

(* tape consumption: k words for each of the masked words in turn (a tape that runs out continues with zeros) *)
Definition takez (k : nat) (tape : list N) : list N := firstn k (tape ++ repeat 0 k).
Fixpoint deal {A : Type} (k : nat) (ws : list A) (tape : list N) : list (A * list N) * list N :=
  match ws with
  | [] => ([], tape)
  | w :: ws' => let '(rest, t') := deal k ws' (skipn k tape) in ((w, takez k tape) :: rest, t')
  end.

(* the 64-bit words a key is masked as: 128-bit keys as two words; 160-bit keys as the three words of the
   key followed by the three words of the key shifted by four bytes (ASCON-80pq absorbs it at both offsets) *)
Definition key_words (key : bytes) : list N :=
  if Nat.eqb (length key) 16 then [be_decode (firstn 8 key); be_decode (skipn 8 key)]
  else [be_decode (firstn 8 key); be_decode (firstn 8 (skipn 8 key)); be_decode (skipn 16 key) * 2 ^ 32;
        be_decode (firstn 4 key); be_decode (firstn 8 (skipn 4 key)); be_decode (skipn 12 key)].

Definition mk_init (n : nat) (key : bytes) (tape : list N) : list (list N) * list N :=
  let '(ps, t') := deal (n - 1) (key_words key) tape in
  (map (fun p => mw_mask (fst p) (snd p)) ps, t').

Definition extract_vals (klen : nat) (vs : list N) : bytes :=
  match vs with
  | v0 :: v1 :: rest =>
      be_encode 8 v0 ++ be_encode 8 v1 ++
      (if Nat.eqb klen 16 then [] else match rest with v2 :: _ => firstn 4 (be_encode 8 v2) | [] => [] end)
  | _ => []
  end.
Definition mk_extract (klen : nat) (mk : list (list N)) : bytes := extract_vals klen (map mw_value mk).

Definition mk_randomize (n : nat) (mk : list (list N)) (tape : list N) : list (list N) * list N :=
  let '(ps, t') := deal (n - 1) mk tape in
  (map (fun p => mw_randomize (fst p) (snd p)) ps, t').

(* one history: mask, then `rounds` re-randomisations; observed: the extracted key after each step and the
   per-word, per-share change flags of each re-randomisation *)
Fixpoint mk_rounds (n klen : nat) (mk : list (list N)) (tape : list N) (rounds : nat) : list (bytes * list (list bool)) :=
  match rounds with
  | O => []
  | S r => let '(mk', t') := mk_randomize n mk tape in
           (mk_extract klen mk', map (fun p => changed (fst p) (snd p)) (combine mk mk')) :: mk_rounds n klen mk' t' r
  end.
Definition mk_history (n : nat) (key : bytes) (tape : list N) (rounds : nat) : bytes * list (bytes * list (list bool)) :=
  let '(mk, t') := mk_init n key tape in
  (mk_extract (length key) mk, mk_rounds n (length key) mk t' rounds).

(* masked states (five words) and any other list of masked words: mask each word from the tape, then
   re-randomise `rounds` times; observed: the values of the words after each step and the change flags *)
Fixpoint mws_rounds (n : nat) (mk : list (list N)) (tape : list N) (rounds : nat) : list (list N * list (list bool)) :=
  match rounds with
  | O => []
  | S r => let '(mk', t') := mk_randomize n mk tape in
           (map mw_value mk', map (fun p => changed (fst p) (snd p)) (combine mk mk')) :: mws_rounds n mk' t' r
  end.
Definition mws_init (n : nat) (ws : list N) (tape : list N) : list (list N) * list N :=
  let '(ps, t') := deal (n - 1) ws tape in (map (fun p => mw_mask (fst p) (snd p)) ps, t').
Definition mws_history (n : nat) (ws : list N) (tape : list N) (rounds : nat) : list N * list (list N * list (list bool)) :=
  let '(mk, t') := mws_init n ws tape in (map mw_value mk, mws_rounds n mk t' rounds).
