(* C11, layer 2: leakage-instrumented copies of the keyed mode-level models.

   Every routine R of Model/{Sponge,Aeadm,Xofm,Macm,Prngm,Sivm}.v gets a copy
   R_L with the same recursion structure that returns (result of R, trace):
   the list of control decisions, state-buffer byte ranges and permutation
   calls the C code makes at the same program points.  Beside it stands a
   function tr_R that takes only PUBLIC inputs: lengths, the bookkeeping values
   (partial / posn / count / mode / counter), variant constants, iteration
   counts - never a byte of content.  Proofs/LeakP.v shows
       R_L args = (R args, tr_R (public part of args)),
   i.e. the instrumented copy computes exactly the differentially tested
   model and its trace is a function of the public inputs alone.
   What an event records: EIdx gives (offset, length) in the 40-byte state or a
   named fixed buffer.  The caller's data pointers (in / out / key) are not
   given events of their own: every one of them advances by exactly the
   lengths of the EIdx events of the state, so its offsets are a function of
   the trace.  A state access the C splits in two (ascon_prf_absorb adds a
   32-byte block as two 16-byte halves) is one event here.  Tests of pointer
   arguments against NULL (if (state), if (k), if (npub)) are not modelled: the
   models have no null objects, and pointers are public.  Straight-line C
   (initialisation, finalisation) has a constant event list.
   No proofs here; everything is runnable. *)
From AsconV Require Export Model.Sponge Model.Aeadm Model.Xofm Model.Macm Model.Prngm Model.Sivm.
From Coq Require Import ZArith.
Local Open Scope nat_scope.

(* ---- events --------------------------------------------------------------- *)
Inductive ev :=
| EBr (site : nat) (taken : bool)          (* a conditional branch / loop test and its outcome *)
| EIdx (buf : nat) (off len : nat)         (* a byte-range access: buffer, offset, length *)
| EPerm (first_round : nat)                (* a call of the permutation, entered at this round *)
| ECall (site : nat) (args : list nat).    (* a call of a helper whose own control flow is a function of args
                                              (xor_pad, memset, memcpy, the system random source) *)
Notation trace := (list ev) (only parsing).

(* buffers *)
Definition b_state : nat := 0.    (* the 40-byte ASCON state of the object *)
Definition b_tag1 : nat := 1.     (* check_tag: first tag *)
Definition b_tag2 : nat := 2.     (* check_tag: second tag *)
Definition b_plain : nat := 3.    (* check_tag: the plaintext buffer that is masked *)
Definition b_hkout : nat := 5.    (* ascon_hkdf_state_t.out *)

(* branch sites (the C condition each one stands for) *)
Definition s_partial : nat := 1.   (* if (partial != 0)   /  if (state->count)          *)
Definition s_short : nat := 2.     (* if (temp > len)                                  *)
Definition s_loop : nat := 3.      (* while (len >= RATE)                              *)
Definition s_tail : nat := 4.      (* if (len > 0)        /  if (temp > 0)              *)
Definition s_adlen : nat := 5.     (* if (adlen > 0)                                   *)
Definition s_lastperm : nat := 6.  (* if (last_permute)                                *)
Definition s_clen : nat := 7.      (* if (clen < TAG_SIZE)                             *)
Definition s_tagloop : nat := 8.   (* check_tag: while (size > 0)                      *)
Definition s_ptloop : nat := 9.    (* check_tag: while (plaintext_len > 0)             *)
Definition s_mode : nat := 10.     (* absorb: if (state->mode)                         *)
Definition s_nmode : nat := 11.    (* squeeze: if (!state->mode)                       *)
Definition s_pad_mode : nat := 12. (* xof_pad: if (state->mode)                        *)
Definition s_pad_count : nat := 13. (* xof_pad: else if (state->count != 0)             *)
Definition s_custom : nat := 14.   (* absorb_custom: if (customlen > 0)                *)
Definition s_big : nat := 15.      (* if (outlen >= 2^29)                              *)
Definition s_name0 : nat := 16.    (* init_custom: if (len == 0)                       *)
Definition s_name32 : nat := 17.   (* init_custom: else if (len <= 32)                 *)
Definition s_fix0 : nat := 18.     (* init_fixed: if (outlen == 0)                     *)
Definition s_fix32 : nat := 19.    (* init_fixed: else if (outlen == 32)               *)
Definition s_hk_short : nat := 20. (* hmac absorb_key: if (keylen <= BLOCK_SIZE)       *)
Definition s_hk_loop1 : nat := 21. (* hmac absorb_key: while (posn < keylen)           *)
Definition s_hk_clip : nat := 22.  (* hmac absorb_key: if (len > HASH_SIZE)            *)
Definition s_hk_loop2 : nat := 23. (* hmac absorb_key: while (posn < BLOCK_SIZE)       *)
Definition s_hkdf_clip0 : nat := 25. (* hkdf expand: if (len > outlen), left-over part  *)
Definition s_hkdf_loop : nat := 26. (* hkdf expand: while (outlen > 0)                 *)
Definition s_hkdf_ctr0 : nat := 27. (* hkdf expand: if (state->counter == 0)           *)
Definition s_hkdf_ctr1 : nat := 28. (* hkdf expand: if (state->counter != 1)           *)
Definition s_hkdf_clip : nat := 29. (* hkdf expand: if (len > outlen), in the loop     *)
Definition s_pb_count1 : nat := 30. (* pbkdf2_f: if (count > 1)                        *)
Definition s_pb_loop : nat := 31.   (* pbkdf2_f: while (count > 2)                     *)
Definition s_pb_out : nat := 32.    (* pbkdf2: while (outlen > 0)                      *)
Definition s_pb_full : nat := 33.   (* pbkdf2: if (outlen >= 32)                       *)
Definition s_rekey_loop : nat := 34. (* random_rekey: for (temp = 0; temp < 32; ...)    *)
Definition s_reseed : nat := 35.    (* random_fetch: if (counter >= RESEED_LIMIT)      *)
Definition s_nlimit : nat := 36.    (* random_fetch: if (outlen < RESEED_LIMIT)        *)
Definition s_sqcount : nat := 39.   (* lazy squeeze: if (state->count)                 *)
Definition s_sqshort : nat := 40.   (* lazy squeeze: if (temp > outlen)                *)
Definition s_sqloop : nat := 41.    (* lazy squeeze: while (outlen >= RATE)            *)
Definition s_sqtail : nat := 42.    (* lazy squeeze: if (outlen > 0)                   *)
Definition s_bitloop : nat := 43.   (* isap rekey: while (bit < nbits)                 *)

(* call sites *)
Definition c_xorpad : nat := 100.   (* <alg>_xor_pad(out, in, size, pad): size iterations *)
Definition c_memset : nat := 101.   (* memset(buf, c, n)                                  *)
Definition c_memcpy : nat := 102.   (* memcpy(dst, src, n)                                *)
Definition c_trng : nat := 103.     (* ascon_trng_generate(seed, n)                       *)
Definition c_xorblock : nat := 104. (* lw_xor_block(T, U, n)                              *)
Definition c_copy : nat := 105.     (* ascon_xof_copy / ascon_xof_free on a whole object  *)

(* ======================================================================== *)
(* 1. the duplex routine (ascon_aead_encrypt_8/16, decrypt_8/16,            *)
(*    ascon_xof_absorb, ascon_prf_absorb, XOFA's squeeze)                   *)
(* ======================================================================== *)
Section DuplexL.
Variable bf : bytefn.
Variable f : bytes -> bytes.
Variable fr : nat.        (* the first round of f; only recorded in the trace *)
Variable rate : nat.

(* while (len >= rate) { op(state, data, 0, rate); permute; data += rate; len -= rate }
   Running out of fuel is the loop test failing (fuel = len and rate > 0). *)
Fixpoint full_loop_L (fuel : nat) (st d : bytes) : (bytes * bytes * bytes) * trace :=
  match fuel with
  | O => ((st, d, []), [EBr s_loop false])
  | S k =>
    if rate <=? length d then
      let '(s1, o1) := upd_at bf st 0 (firstn rate d) in
      let '((s2, rest, o2), t) := full_loop_L k (f s1) (skipn rate d) in
      ((s2, rest, o1 ++ o2), EBr s_loop true :: EIdx b_state 0 rate :: EPerm fr :: t)
    else ((st, d, []), [EBr s_loop false])
  end.

Fixpoint tr_full_loop (fuel n : nat) : trace :=
  match fuel with
  | O => [EBr s_loop false]
  | S k =>
    if rate <=? n then EBr s_loop true :: EIdx b_state 0 rate :: EPerm fr :: tr_full_loop k (n - rate)
    else [EBr s_loop false]
  end.

(* the number of bytes left after the loop (= n mod rate, LeakP.rest_len_mod) *)
Fixpoint rest_len (fuel n : nat) : nat :=
  match fuel with
  | O => n
  | S k => if rate <=? n then rest_len k (n - rate) else n
  end.

(* if (len > 0) op_partial(state, data, 0, len); return len *)
Definition aligned_c_L (st d : bytes) : ((bytes * nat) * bytes) * trace :=
  let '((s1, rest, o1), t1) := full_loop_L (length d) st d in
  let '(s2, o2) := upd_at bf s1 0 rest in
  (((s2, length rest), o1 ++ o2),
   t1 ++ (if 0 <? length rest then [EBr s_tail true; EIdx b_state 0 (length rest)] else [EBr s_tail false])).

Definition tr_aligned (n : nat) : trace :=
  tr_full_loop n n ++
  (if 0 <? rest_len n n then [EBr s_tail true; EIdx b_state 0 (rest_len n n)] else [EBr s_tail false]).

Definition duplex_c_L (sp : bytes * nat) (d : bytes) : ((bytes * nat) * bytes) * trace :=
  let '(st, partial) := sp in
  if partial =? 0 then
    let '(r, t) := aligned_c_L st d in (r, EBr s_partial false :: t)
  else
    let temp := rate - partial in
    if length d <? temp then
      let '(s1, o1) := upd_at bf st partial d in
      (((s1, partial + length d), o1),
       [EBr s_partial true; EBr s_short true; EIdx b_state partial (length d)])
    else
      let '(s1, o1) := upd_at bf st partial (firstn temp d) in
      let '((r, o2), t) := aligned_c_L (f s1) (skipn temp d) in
      ((r, o1 ++ o2),
       EBr s_partial true :: EBr s_short false :: EIdx b_state partial temp :: EPerm fr :: t).

Definition tr_duplex (partial n : nat) : trace :=
  if partial =? 0 then EBr s_partial false :: tr_aligned n
  else
    let temp := rate - partial in
    if n <? temp then [EBr s_partial true; EBr s_short true; EIdx b_state partial n]
    else EBr s_partial true :: EBr s_short false :: EIdx b_state partial temp :: EPerm fr :: tr_aligned (n - temp).

(* the position the routine returns / stores in state->count *)
Definition pos_duplex (partial n : nat) : nat :=
  if partial =? 0 then rest_len n n
  else
    let temp := rate - partial in
    if n <? temp then partial + n else rest_len (n - temp) (n - temp).

End DuplexL.

(* ======================================================================== *)
(* 2. the lazy squeeze loop (ascon_xof_squeeze, ascon_prf_squeeze, SIV/ISAP *)
(*    keystream); XOFA's eager squeeze is duplex_c_L bf_sq                   *)
(* ======================================================================== *)
Section LazyL.
Variable f : bytes -> bytes.
Variable fr : nat.
Variable rate : nat.

(* while (outlen >= rate) { permute; squeeze(state, out, 0, rate); ... } *)
Fixpoint lazy_loop_L (fuel : nat) (st : bytes) (n : nat) : (bytes * nat * bytes) * trace :=
  match fuel with
  | O => ((st, n, []), [EBr s_sqloop false])
  | S k =>
    if rate <=? n then
      let s1 := f st in
      let '((s2, rest, o2), t) := lazy_loop_L k s1 (n - rate) in
      ((s2, rest, get_at s1 0 rate ++ o2), EBr s_sqloop true :: EPerm fr :: EIdx b_state 0 rate :: t)
    else ((st, n, []), [EBr s_sqloop false])
  end.

Fixpoint tr_lazy_loop (fuel n : nat) : trace :=
  match fuel with
  | O => [EBr s_sqloop false]
  | S k =>
    if rate <=? n then EBr s_sqloop true :: EPerm fr :: EIdx b_state 0 rate :: tr_lazy_loop k (n - rate)
    else [EBr s_sqloop false]
  end.

(* if (outlen > 0) { permute; squeeze_partial(state, out, 0, outlen); count = outlen } *)
Definition lazy_aligned_c_L (st : bytes) (n : nat) : ((bytes * nat) * bytes) * trace :=
  let '((s1, rest, o1), t1) := lazy_loop_L n st n in
  if rest =? 0 then (((s1, 0), o1), t1 ++ [EBr s_sqtail false])
  else let s2 := f s1 in
       (((s2, rest), o1 ++ get_at s2 0 rest), t1 ++ [EBr s_sqtail true; EPerm fr; EIdx b_state 0 rest]).

Definition tr_lazy_aligned (n : nat) : trace :=
  tr_lazy_loop n n ++
  (if rest_len rate n n =? 0 then [EBr s_sqtail false]
   else [EBr s_sqtail true; EPerm fr; EIdx b_state 0 (rest_len rate n n)]).

Definition lazy_squeeze_c_L (sp : bytes * nat) (n : nat) : ((bytes * nat) * bytes) * trace :=
  let '(st, count) := sp in
  if count =? 0 then
    let '(r, t) := lazy_aligned_c_L st n in (r, EBr s_sqcount false :: t)
  else
    let temp := rate - count in
    if n <? temp then
      (((st, count + n), get_at st count n),
       [EBr s_sqcount true; EBr s_sqshort true; EIdx b_state count n])
    else
      let '((r, o2), t) := lazy_aligned_c_L st (n - temp) in
      ((r, get_at st count temp ++ o2),
       EBr s_sqcount true :: EBr s_sqshort false :: EIdx b_state count temp :: t).

Definition tr_lazy_squeeze (count n : nat) : trace :=
  if count =? 0 then EBr s_sqcount false :: tr_lazy_aligned n
  else
    let temp := rate - count in
    if n <? temp then [EBr s_sqcount true; EBr s_sqshort true; EIdx b_state count n]
    else EBr s_sqcount true :: EBr s_sqshort false :: EIdx b_state count temp :: tr_lazy_aligned (n - temp).

Definition pos_lazy (count n : nat) : nat :=
  if count =? 0 then rest_len rate n n
  else
    let temp := rate - count in
    if n <? temp then count + n else rest_len rate (n - temp) (n - temp).

End LazyL.

(* ======================================================================== *)
(* 3. check_tag and the one-shot AEAD                                       *)
(* ======================================================================== *)

(* while (size > 0) { accum |= tag1[i] ^ tag2[i]; --size; }
   one test per byte; the loop body has no branch. *)
Fixpoint tag_loop_L (t1 t2 : bytes) (i : nat) (acc : N) : N * trace :=
  match t1, t2 with
  | x :: a, y :: b =>
    let '(r, t) := tag_loop_L a b (S i) (N.lor acc (N.lxor x y)) in
    (r, EBr s_tagloop true :: EIdx b_tag1 i 1 :: EIdx b_tag2 i 1 :: t)
  | _, _ => (acc, [EBr s_tagloop false])
  end.

(* while (plaintext_len > 0) { plaintext[i] &= accum; --plaintext_len; } *)
Fixpoint pt_loop_L (mask : Z) (p : bytes) (i : nat) : bytes * trace :=
  match p with
  | [] => ([], [EBr s_ptloop false])
  | b :: p' =>
    let '(r, t) := pt_loop_L mask p' (S i) in
    (Z.to_N (Z.land (Z.of_N b) mask) :: r, EBr s_ptloop true :: EIdx b_plain i 1 :: t)
  end.

(* There is no event between the two loops and none after the second: the C
   computes accum = (accum - 1) >> 8 and returns ~accum; it never tests it. *)
Definition check_tag_L (plaintext t1 t2 : bytes) : (Z * bytes) * trace :=
  let '(accum, tr1) := tag_loop_L t1 t2 0 0%N in
  let mask := tag_mask accum in
  let '(p', tr2) := pt_loop_L mask plaintext 0 in
  ((Z.lnot mask, p'), tr1 ++ tr2).

Fixpoint tr_tag_loop (size i : nat) : trace :=
  match size with
  | O => [EBr s_tagloop false]
  | S k => EBr s_tagloop true :: EIdx b_tag1 i 1 :: EIdx b_tag2 i 1 :: tr_tag_loop k (S i)
  end.
Fixpoint tr_pt_loop (plen i : nat) : trace :=
  match plen with
  | O => [EBr s_ptloop false]
  | S k => EBr s_ptloop true :: EIdx b_plain i 1 :: tr_pt_loop k (S i)
  end.
Definition tr_check_tag (plen size : nat) : trace := tr_tag_loop size 0 ++ tr_pt_loop plen 0.

Section AeadL.
Variable perm : nat -> bytes -> bytes.

(* ascon_aead_absorb_8 / _16 (state, data, len, first_round, last_permute = 1) *)
Definition aead_absorb_c_L (v : aead_variant) (s A : bytes) : bytes * trace :=
  let '(((s1, len), _), t) := aligned_c_L bf_enc (perm (v_pb v)) (v_pb v) (v_rate v) s A in
  (perm (v_pb v) (xor_at s1 len [0x80%N]),
   t ++ [EIdx b_state len 1; EBr s_lastperm true; EPerm (v_pb v)]).

Definition tr_aead_absorb (v : aead_variant) (alen : nat) : trace :=
  tr_aligned (v_pb v) (v_rate v) alen ++
  [EIdx b_state (rest_len (v_rate v) alen alen) 1; EBr s_lastperm true; EPerm (v_pb v)].

Definition start_c_L (v : aead_variant) (K N A : bytes) : bytes * trace :=
  let s := zeros 40 in
  let s := set_at s 0 (v_iv v) in
  let s := set_at s (length (v_iv v)) K in
  let s := set_at s 24 N in
  let s := perm 0 s in
  let s := xor_at s (40 - v_klen v) K in
  let t0 := [EIdx b_state 0 (length (v_iv v)); EIdx b_state (length (v_iv v)) (length K);
             EIdx b_state 24 (length N); EPerm 0; EIdx b_state (40 - v_klen v) (length K)] in
  let '(s, t1) :=
    match A with
    | [] => (s, [EBr s_adlen false])
    | _ => let '(s', t) := aead_absorb_c_L v s A in (s', EBr s_adlen true :: t)
    end in
  (xor_at s 39 [1%N], t0 ++ t1 ++ [EIdx b_state 39 1]).

Definition tr_start (v : aead_variant) (klen nlen alen : nat) : trace :=
  [EIdx b_state 0 (length (v_iv v)); EIdx b_state (length (v_iv v)) klen;
   EIdx b_state 24 nlen; EPerm 0; EIdx b_state (40 - v_klen v) klen] ++
  (match alen with O => [EBr s_adlen false] | _ => EBr s_adlen true :: tr_aead_absorb v alen end) ++
  [EIdx b_state 39 1].

(* pad at posn, key xor at the rate, p^a, key xor at 24, squeeze 16 at 24 *)
Definition tr_finalize (v : aead_variant) (posn klen : nat) : trace :=
  [EIdx b_state posn 1; EIdx b_state (v_rate v) klen; EPerm 0;
   EIdx b_state 24 (klen - (v_klen v - 16)); EIdx b_state 24 16].
Definition finalize_c_L (v : aead_variant) (s : bytes) (posn : nat) (K : bytes) : bytes * trace :=
  let s := xor_at s posn [0x80%N] in
  let s := xor_at s (v_rate v) K in
  let s := perm 0 s in
  let s := xor_at s 24 (skipn (v_klen v - 16) K) in
  (get_at s 24 16, tr_finalize v posn (length K)).

Definition encrypt_c_L (v : aead_variant) (K N A P : bytes) : (bytes * nat) * trace :=
  let '(s, t0) := start_c_L v K N A in
  let '(((s1, partial), c), t1) := duplex_c_L bf_enc (perm (v_pb v)) (v_pb v) (v_rate v) (s, 0) P in
  let '(tag, t2) := finalize_c_L v s1 partial K in
  ((c ++ tag, length P + 16), t0 ++ t1 ++ t2).

Definition tr_encrypt (v : aead_variant) (klen nlen alen plen : nat) : trace :=
  tr_start v klen nlen alen ++ tr_duplex (v_pb v) (v_rate v) 0 plen ++
  tr_finalize v (pos_duplex (v_rate v) 0 plen) klen.

Definition decrypt_c_L (v : aead_variant) (K N A C : bytes) : dec_result * trace :=
  if length C <? 16 then (DecShort, [EBr s_clen true])
  else
    let n := length C - 16 in
    let '(s, t0) := start_c_L v K N A in
    let '(((s1, partial), m), t1) := duplex_c_L bf_dec (perm (v_pb v)) (v_pb v) (v_rate v) (s, 0) (firstn n C) in
    let '(tag, t2) := finalize_c_L v s1 partial K in
    let '((r, m'), t3) := check_tag_L m tag (skipn n C) in
    (DecDone r m', EBr s_clen false :: t0 ++ t1 ++ t2 ++ t3).

Definition tr_decrypt (v : aead_variant) (klen nlen alen clen : nat) : trace :=
  if clen <? 16 then [EBr s_clen true]
  else
    let n := clen - 16 in
    EBr s_clen false :: tr_start v klen nlen alen ++ tr_duplex (v_pb v) (v_rate v) 0 n ++
    tr_finalize v (pos_duplex (v_rate v) 0 n) klen ++ tr_check_tag n 16.

End AeadL.

(* ======================================================================== *)
(* 4. the XOF / PRF object: {state; count; mode}                            *)
(* ======================================================================== *)

(* the public part of an ascon_xof_state_t / ascon_prf_state_t *)
Definition pubx := (nat * bool)%type.
Definition pub_xof (s : xof_state) : pubx := (x_count s, x_mode s).

Section XofL.
Variable perm : nat -> bytes -> bytes.

Definition xof_absorb_L (v : xof_variant) (s : xof_state) (d : bytes) : xof_state * trace :=
  let '(st, count, t0) :=
    if x_mode s then (perm 0 (x_st s), 0, [EBr s_mode true; EPerm 0])
    else (x_st s, x_count s, [EBr s_mode false]) in
  let '(((st', count'), _), t) :=
    duplex_c_L bf_enc (perm (xv_pb v)) (xv_pb v) (xv_rate_in v) (st, count) d in
  ({| x_st := st'; x_count := count'; x_mode := false |}, t0 ++ t).

Definition tr_xof_absorb (v : xof_variant) (p : pubx) (n : nat) : trace :=
  (if snd p then [EBr s_mode true; EPerm 0] else [EBr s_mode false]) ++
  tr_duplex (xv_pb v) (xv_rate_in v) (if snd p then 0 else fst p) n.
Definition pub_absorb (v : xof_variant) (p : pubx) (n : nat) : pubx :=
  (pos_duplex (xv_rate_in v) (if snd p then 0 else fst p) n, false).

(* the padding step on entering the squeeze phase; xv_sep and xv_lazy are
   compile-time properties of the variant (PRF: separator; XOFA: permute now) *)
Definition xof_enter_squeeze_L (v : xof_variant) (s : xof_state) : (bytes * nat) * trace :=
  if x_mode s then ((x_st s, x_count s), [EBr s_nmode false])
  else
    let st := sepf v (xor_at (x_st s) (x_count s) [0x80%N]) in
    let tsep := if xv_sep v then [EIdx b_state 39 1] else [] in
    if xv_lazy v then ((st, 0), EBr s_nmode true :: EIdx b_state (x_count s) 1 :: tsep)
    else ((perm 0 st, 0), EBr s_nmode true :: EIdx b_state (x_count s) 1 :: tsep ++ [EPerm 0]).

Definition tr_enter_squeeze (v : xof_variant) (p : pubx) : trace :=
  if snd p then [EBr s_nmode false]
  else
    let tsep := if xv_sep v then [EIdx b_state 39 1] else [] in
    if xv_lazy v then EBr s_nmode true :: EIdx b_state (fst p) 1 :: tsep
    else EBr s_nmode true :: EIdx b_state (fst p) 1 :: tsep ++ [EPerm 0].

Definition xof_squeeze_L (v : xof_variant) (s : xof_state) (n : nat) : (xof_state * bytes) * trace :=
  let '(sp, t0) := xof_enter_squeeze_L v s in
  let '(((st', count'), out), t) :=
    if xv_lazy v then lazy_squeeze_c_L (perm 0) 0 (xv_rate_out v) sp n
    else duplex_c_L bf_sq (perm (xv_pb v)) (xv_pb v) (xv_rate_out v) sp (zeros n) in
  (({| x_st := st'; x_count := count'; x_mode := true |}, out), t0 ++ t).

Definition tr_xof_squeeze (v : xof_variant) (p : pubx) (n : nat) : trace :=
  tr_enter_squeeze v p ++
  (if xv_lazy v then tr_lazy_squeeze 0 (xv_rate_out v) (if snd p then fst p else 0) n
   else tr_duplex (xv_pb v) (xv_rate_out v) (if snd p then fst p else 0) n).
Definition pub_squeeze (v : xof_variant) (p : pubx) (n : nat) : pubx :=
  (if xv_lazy v then pos_lazy (xv_rate_out v) (if snd p then fst p else 0) n
   else pos_duplex (xv_rate_out v) (if snd p then fst p else 0) n, true).

Definition xof_pad_L (v : xof_variant) (s : xof_state) : xof_state * trace :=
  if x_mode s then
    let '(r, t) := xof_absorb_L v s [] in (r, EBr s_pad_mode true :: t)
  else if x_count s =? 0 then (s, [EBr s_pad_mode false; EBr s_pad_count false])
  else ({| x_st := perm (xv_pb v) (x_st s); x_count := 0; x_mode := false |},
        [EBr s_pad_mode false; EBr s_pad_count true; EPerm (xv_pb v)]).

Definition tr_xof_pad (v : xof_variant) (p : pubx) : trace :=
  if snd p then EBr s_pad_mode true :: tr_xof_absorb v p 0
  else if fst p =? 0 then [EBr s_pad_mode false; EBr s_pad_count false]
  else [EBr s_pad_mode false; EBr s_pad_count true; EPerm (xv_pb v)].
Definition pub_pad (v : xof_variant) (p : pubx) : pubx :=
  if snd p then pub_absorb v p 0 else if fst p =? 0 then p else (0, false).

Definition xof_absorb_custom_L (v : xof_variant) (s : xof_state) (custom : bytes) : xof_state * trace :=
  match custom with
  | [] => (s, [EBr s_custom false])
  | _ =>
    let '(s1, t) := xof_absorb_L v s custom in
    let st := xor_at (x_st s1) (x_count s1) [0x80%N] in
    let st := perm (xv_pb v) st in
    ({| x_st := xor_at st 39 [1%N]; x_count := 0; x_mode := x_mode s1 |},
     EBr s_custom true :: t ++ [EIdx b_state (x_count s1) 1; EPerm (xv_pb v); EIdx b_state 39 1])
  end.

Definition tr_absorb_custom (v : xof_variant) (p : pubx) (clen : nat) : trace :=
  match clen with
  | O => [EBr s_custom false]
  | _ => EBr s_custom true :: tr_xof_absorb v p clen ++
         [EIdx b_state (fst (pub_absorb v p clen)) 1; EPerm (xv_pb v); EIdx b_state 39 1]
  end.
Definition pub_absorb_custom (p : pubx) (clen : nat) : pubx :=
  match clen with O => p | _ => (0, false) end.

(* ascon_xof_init_fixed: every input is public; outlen = 32 copies a constant *)
Definition tr_init_fixed (outlen : N) : trace :=
  let big := (536870912 <=? outlen)%N in
  let outlen := if big then 0%N else outlen in
  EBr s_big big :: EBr s_fix0 (outlen =? 0)%N ::
  (if (outlen =? 0)%N then [EIdx b_state 0 40]
   else EBr s_fix32 (outlen =? 32)%N ::
        (if (outlen =? 32)%N then [EIdx b_state 0 40] else [EIdx b_state 0 8; EPerm 0])).
Definition xof_init_fixed_L (v : xof_variant) (outlen : N) : xof_state * trace :=
  (xof_init_fixed perm v outlen, tr_init_fixed outlen).
(* ascon_hash_init: copies a 40-byte constant *)
Definition hash_init_L (v : xof_variant) : xof_state * trace :=
  (hash_init perm v, [EIdx b_state 0 40]).

(* ascon_xof_init_custom; the function name is public, the customisation
   string may be secret (PBKDF2 passes the password) *)
Definition xof_init_custom_L (v : xof_variant) (name : option bytes) (custom : bytes) (outlen : N)
  : xof_state * trace :=
  let name := match name with Some n => n | None => [] end in
  let big := (536870912 <=? outlen)%N in
  let outlen := if big then 0%N else outlen in
  let '(temp, t1) :=
    if length name =? 0 then (zeros 32, [EBr s_name0 true; ECall c_memset [32]])
    else if length name <=? 32 then
      (name ++ zeros (32 - length name),
       [EBr s_name0 false; EBr s_name32 true; ECall c_memcpy [length name]; ECall c_memset [32 - length name]])
    else
      let '(h0, ta) := xof_init_fixed_L v 32 in
      let '(h1, tb) := xof_absorb_L v h0 name in
      let '((_, out), tc) := xof_squeeze_L v h1 32 in
      (out, EBr s_name0 false :: EBr s_name32 false :: ta ++ tb ++ tc) in
  let st := set_at (zeros 40) 8 temp in
  let st := set_at st 0 (be_encode 8 (N.lor (xv_iv v) (outlen * 8)%N)) in
  let '(r, t2) := xof_absorb_custom_L v (mk (perm 0 st)) custom in
  (r, EBr s_big big :: t1 ++ [EIdx b_state 8 32; EIdx b_state 0 8; EPerm 0] ++ t2).

Definition tr_init_custom (v : xof_variant) (namelen clen : nat) (outlen : N) : trace :=
  EBr s_big (536870912 <=? outlen)%N ::
  (if namelen =? 0 then [EBr s_name0 true; ECall c_memset [32]]
   else if namelen <=? 32 then
     [EBr s_name0 false; EBr s_name32 true; ECall c_memcpy [namelen]; ECall c_memset [32 - namelen]]
   else EBr s_name0 false :: EBr s_name32 false :: tr_init_fixed 32 ++
        tr_xof_absorb v (0, false) namelen ++ tr_xof_squeeze v (pub_absorb v (0, false) namelen) 32) ++
  [EIdx b_state 8 32; EIdx b_state 0 8; EPerm 0] ++ tr_absorb_custom v (0, false) clen.

(* absorbing a list of chunks (a whole run of updates) *)
Fixpoint absorb_list_L (v : xof_variant) (h : xof_state) (cs : list bytes) : xof_state * trace :=
  match cs with
  | [] => (h, [])
  | c :: cs' =>
    let '(h1, t1) := xof_absorb_L v h c in
    let '(h2, t2) := absorb_list_L v h1 cs' in
    (h2, t1 ++ t2)
  end.
Fixpoint tr_absorb_list (v : xof_variant) (p : pubx) (lens : list nat) : trace :=
  match lens with
  | [] => []
  | n :: rest => tr_xof_absorb v p n ++ tr_absorb_list v (pub_absorb v p n) rest
  end.
Definition pub_absorb_list (v : xof_variant) (p : pubx) (lens : list nat) : pubx :=
  fold_left (pub_absorb v) lens p.

(* ---- PRF / MAC ------------------------------------------------------------ *)
Definition prf_init_L (K : bytes) (outlen : N) : xof_state * trace :=
  (prf_init perm K outlen,
   [EBr s_big (536870912 <=? outlen)%N; EIdx b_state 0 8; EIdx b_state 8 (length K); EPerm 0]).
Definition prf_oneshot_L (K : bytes) (L : N) (msg : bytes) (n : nat) : bytes * trace :=
  let '(h0, t0) := prf_init_L K L in
  let '(h1, t1) := xof_absorb_L vprf h0 msg in
  let '((_, out), t2) := xof_squeeze_L vprf h1 n in
  (out, t0 ++ t1 ++ t2).
Definition tr_prf_oneshot (klen : nat) (L : N) (mlen n : nat) : trace :=
  [EBr s_big (536870912 <=? L)%N; EIdx b_state 0 8; EIdx b_state 8 klen; EPerm 0] ++
  tr_xof_absorb vprf (0, false) mlen ++ tr_xof_squeeze vprf (pub_absorb vprf (0, false) mlen) n.
Definition mac_c_L (K msg : bytes) : bytes * trace := prf_oneshot_L K 16 msg 16.
(* ascon_mac_verify: ascon_mac, then check_tag(0, 0, tag, tag2, 16); the
   result of the comparison is returned, never branched on *)
Definition mac_verify_c_L (tag K msg : bytes) : Z * trace :=
  let '(tag2, t0) := mac_c_L K msg in
  let '((r, _), t1) := check_tag_L [] tag tag2 in
  (r, t0 ++ t1).
Definition tr_mac_verify (taglen klen mlen : nat) : trace :=
  tr_prf_oneshot klen 16 mlen 16 ++ tr_check_tag 0 (Nat.min taglen 16).

End XofL.

(* ======================================================================== *)
(* 5. HMAC                                                                  *)
(* ======================================================================== *)

(* lengths of the pieces chunks n l is made of: a function of length l *)
Fixpoint chunk_lens (fuel n len : nat) : list nat :=
  match fuel with
  | O => []
  | S k => match len with O => [] | _ => Nat.min n len :: chunk_lens k n (len - n) end
  end.

Section HmacL.
Variable perm : nat -> bytes -> bytes.

Definition app_pad (xp : option N) (pc : bytes) : bytes :=
  match xp with Some p => xor_pad p pc | None => pc end.

(* while (posn < end) { len = end - posn; if (len > 32) len = 32;
     [xor_pad(temp, key + posn, len, pad);] update(temp, len); posn += len; }
   over the pieces the model cuts with chunks 32; "end - posn" is the total
   length of the pieces still to go. *)
Fixpoint hmac_pieces_L (v : xof_variant) (site : nat) (xp : option N) (h : xof_state) (pcs : list bytes)
  : xof_state * trace :=
  match pcs with
  | [] => (h, [EBr site false])
  | pc :: rest =>
    let '(h1, t1) := xof_absorb_L perm v h (app_pad xp pc) in
    let '(h2, t2) := hmac_pieces_L v site xp h1 rest in
    (h2, EBr site true :: EBr s_hk_clip (32 <? length (concat pcs)) ::
         (match xp with Some _ => [ECall c_xorpad [length pc]] | None => [] end) ++ t1 ++ t2)
  end.

Fixpoint tr_pieces (v : xof_variant) (site : nat) (xp : bool) (p : pubx) (lens : list nat) : trace :=
  match lens with
  | [] => [EBr site false]
  | n :: rest =>
    EBr site true :: EBr s_hk_clip (32 <? list_sum lens) ::
    (if xp then [ECall c_xorpad [n]] else []) ++ tr_xof_absorb v p n ++
    tr_pieces v site xp (pub_absorb v p n) rest
  end.

Definition hmac_absorb_key_L (v : xof_variant) (h : xof_state) (key : bytes) (pad : N) : xof_state * trace :=
  let '(h1, posn, t1) :=
    if length key <=? 64 then
      let '(h1, t) := hmac_pieces_L v s_hk_loop1 (Some pad) h (chunks 32 key) in
      (h1, length key, EBr s_hk_short true :: t)
    else
      let '(h1, ta) := xof_absorb_L perm v h key in
      let '((_, temp), tb) := xof_squeeze_L perm v h1 32 in
      let '(h3, tc) := hash_init_L perm v in
      let '(h4, td) := xof_absorb_L perm v h3 (xor_pad pad temp) in
      (h4, 32, EBr s_hk_short false :: ta ++ tb ++ ECall c_copy [] :: tc ++ ECall c_xorpad [32] :: td) in
  let '(h2, t2) := hmac_pieces_L v s_hk_loop2 None h1 (chunks 32 (repeat pad (64 - posn))) in
  (h2, t1 ++ ECall c_memset [32] :: t2).

(* public state after the key has been absorbed, and the trace *)
Definition pub_hmac_key (v : xof_variant) (p : pubx) (klen : nat) : pubx :=
  let '(p1, posn) :=
    if klen <=? 64 then (pub_absorb_list v p (chunk_lens klen 32 klen), klen)
    else (pub_absorb v (0, false) 32, 32) in
  pub_absorb_list v p1 (chunk_lens (64 - posn) 32 (64 - posn)).
Definition tr_hmac_key (v : xof_variant) (p : pubx) (klen : nat) : trace :=
  let '(p1, posn, t1) :=
    if klen <=? 64 then
      (pub_absorb_list v p (chunk_lens klen 32 klen), klen,
       EBr s_hk_short true :: tr_pieces v s_hk_loop1 true p (chunk_lens klen 32 klen))
    else
      (pub_absorb v (0, false) 32, 32,
       EBr s_hk_short false :: tr_xof_absorb v p klen ++ tr_xof_squeeze v (pub_absorb v p klen) 32 ++
       ECall c_copy [] :: [EIdx b_state 0 40] ++ ECall c_xorpad [32] :: tr_xof_absorb v (0, false) 32) in
  t1 ++ ECall c_memset [32] :: tr_pieces v s_hk_loop2 false p1 (chunk_lens (64 - posn) 32 (64 - posn)).

Definition hmac_init_L (v : xof_variant) (key : bytes) : xof_state * trace :=
  let '(h0, t0) := hash_init_L perm v in
  let '(h1, t1) := hmac_absorb_key_L v h0 key 0x36 in
  (h1, t0 ++ t1).
Definition tr_hmac_init (v : xof_variant) (klen : nat) : trace :=
  [EIdx b_state 0 40] ++ tr_hmac_key v (0, false) klen.
Definition pub_hmac_init (v : xof_variant) (klen : nat) : pubx := pub_hmac_key v (0, false) klen.

Definition hmac_update_L (v : xof_variant) (h : xof_state) (d : bytes) : xof_state * trace :=
  xof_absorb_L perm v h d.

Definition hmac_finalize_L (v : xof_variant) (h : xof_state) (key : bytes) : (xof_state * bytes) * trace :=
  let '((_, temp), t1) := xof_squeeze_L perm v h 32 in
  let '(h0, t0) := hash_init_L perm v in
  let '(h2, t2) := hmac_absorb_key_L v h0 key 0x5c in
  let '(h3, t3) := xof_absorb_L perm v h2 temp in
  let '(r, t4) := xof_squeeze_L perm v h3 32 in
  (r, t1 ++ ECall c_copy [] :: t0 ++ t2 ++ t3 ++ t4).
Definition tr_hmac_finalize (v : xof_variant) (p : pubx) (klen : nat) : trace :=
  tr_xof_squeeze v p 32 ++ ECall c_copy [] :: [EIdx b_state 0 40] ++ tr_hmac_key v (0, false) klen ++
  tr_xof_absorb v (pub_hmac_key v (0, false) klen) 32 ++
  tr_xof_squeeze v (pub_absorb v (pub_hmac_key v (0, false) klen) 32) 32.

(* a whole HMAC computation over a list of chunks *)
Definition hmac_run_L (v : xof_variant) (key : bytes) (cs : list bytes) : bytes * trace :=
  let '(h0, t0) := hmac_init_L v key in
  let '(h1, t1) := absorb_list_L perm v h0 cs in
  let '((_, out), t2) := hmac_finalize_L v h1 key in
  (out, t0 ++ t1 ++ t2).
Definition tr_hmac_run (v : xof_variant) (klen : nat) (lens : list nat) : trace :=
  tr_hmac_init v klen ++ tr_absorb_list v (pub_hmac_init v klen) lens ++
  tr_hmac_finalize v (pub_absorb_list v (pub_hmac_init v klen) lens) klen.

(* ======================================================================== *)
(* 6. HKDF                                                                  *)
(* ======================================================================== *)

(* one pass of the block loop body up to ++counter *)
Definition hkdf_block_L (v : xof_variant) (s : hkdf_state) (info : bytes) : hkdf_state * trace :=
  let '(h, t0) := hmac_init_L v (k_prk s) in
  let '(h, t1) :=
    if k_counter s =? 1 then (h, [EBr s_hkdf_ctr1 false])
    else let '(h', t) := hmac_update_L v h (k_out s) in (h', EBr s_hkdf_ctr1 true :: t) in
  let '(h, t2) := hmac_update_L v h info in
  let '(h, t3) := hmac_update_L v h [N.of_nat (k_counter s)] in
  let '((_, out), t4) := hmac_finalize_L v h (k_prk s) in
  ({| k_prk := k_prk s; k_out := out; k_counter := (k_counter s + 1) mod 256; k_posn := k_posn s |},
   t0 ++ t1 ++ t2 ++ t3 ++ t4).

(* public inputs: counter, |prk|, |out| (both 32 in every reachable object), |info| *)
Definition tr_hkdf_block (v : xof_variant) (counter prklen olen infolen : nat) : trace :=
  let p0 := pub_hmac_init v prklen in
  let '(p1, t1) :=
    if counter =? 1 then (p0, [EBr s_hkdf_ctr1 false])
    else (pub_absorb v p0 olen, EBr s_hkdf_ctr1 true :: tr_xof_absorb v p0 olen) in
  let p2 := pub_absorb v p1 infolen in
  let p3 := pub_absorb v p2 1 in
  tr_hmac_init v prklen ++ t1 ++ tr_xof_absorb v p1 infolen ++ tr_xof_absorb v p2 1 ++
  tr_hmac_finalize v p3 prklen.

Fixpoint hkdf_loop_L (fuel : nat) (v : xof_variant) (s : hkdf_state) (info : bytes) (outlen : nat)
  : (hkdf_state * bytes * Z) * trace :=
  match fuel with
  | O => ((s, [], 0%Z), [EBr s_hkdf_loop false])
  | S f =>
    if outlen =? 0 then ((s, [], 0%Z), [EBr s_hkdf_loop false])
    else if k_counter s =? 0 then
      ((s, zeros outlen, (-1)%Z), [EBr s_hkdf_loop true; EBr s_hkdf_ctr0 true; ECall c_memset [outlen]])
    else
      let '(s1, tb) := hkdf_block_L v s info in
      let len := Nat.min 32 outlen in
      let s2 := {| k_prk := k_prk s1; k_out := k_out s1; k_counter := k_counter s1; k_posn := len |} in
      let '((s3, o, r), t) := hkdf_loop_L f v s2 info (outlen - len) in
      ((s3, firstn len (k_out s1) ++ o, r),
       EBr s_hkdf_loop true :: EBr s_hkdf_ctr0 false :: tb ++
       EBr s_hkdf_clip (outlen <? 32) :: EIdx b_hkout 0 len :: t)
  end.

Fixpoint tr_hkdf_loop (fuel : nat) (v : xof_variant) (counter prklen olen infolen outlen : nat) : trace :=
  match fuel with
  | O => [EBr s_hkdf_loop false]
  | S f =>
    if outlen =? 0 then [EBr s_hkdf_loop false]
    else if counter =? 0 then [EBr s_hkdf_loop true; EBr s_hkdf_ctr0 true; ECall c_memset [outlen]]
    else
      EBr s_hkdf_loop true :: EBr s_hkdf_ctr0 false :: tr_hkdf_block v counter prklen olen infolen ++
      EBr s_hkdf_clip (outlen <? 32) :: EIdx b_hkout 0 (Nat.min 32 outlen) ::
      tr_hkdf_loop f v ((counter + 1) mod 256) prklen 32 infolen (outlen - Nat.min 32 outlen)
  end.

Definition hkdf_expand_c_L (v : xof_variant) (s : hkdf_state) (info : bytes) (outlen : nat)
  : (hkdf_state * bytes * Z) * trace :=
  let len := Nat.min (32 - k_posn s) outlen in
  let o1 := get_at (k_out s) (k_posn s) len in
  let s1 := {| k_prk := k_prk s; k_out := k_out s; k_counter := k_counter s; k_posn := k_posn s + len |} in
  let '((s2, o2, r), t) := hkdf_loop_L (outlen - len) v s1 info (outlen - len) in
  ((s2, o1 ++ o2, r), EBr s_hkdf_clip0 (outlen <? 32 - k_posn s) :: EIdx b_hkout (k_posn s) len :: t).

(* public part of an ascon_hkdf_state_t: counter, posn, and the two buffer lengths *)
Definition pub_hkdf (s : hkdf_state) : nat * nat * nat * nat :=
  (k_counter s, k_posn s, length (k_prk s), length (k_out s)).
Definition tr_hkdf_expand (v : xof_variant) (p : nat * nat * nat * nat) (infolen outlen : nat) : trace :=
  let '(counter, posn, prklen, olen) := p in
  let len := Nat.min (32 - posn) outlen in
  EBr s_hkdf_clip0 (outlen <? 32 - posn) :: EIdx b_hkout posn len ::
  tr_hkdf_loop (outlen - len) v counter prklen olen infolen (outlen - len).

End HmacL.

(* ======================================================================== *)
(* 7. PBKDF2                                                                *)
(* ======================================================================== *)
Section PbL.
(* the instrumented PRF-with-the-password-fixed: result and trace *)
Variable prfc_L : list bytes -> bytes * trace.

Fixpoint pb_loop_L (fuel count : nat) (T U : bytes) : bytes * trace :=
  match fuel with
  | O => (T, [EBr s_pb_loop false])
  | S f =>
    if 2 <? count then
      let '(U', t1) := prfc_L [U] in
      let '(r, t2) := pb_loop_L f (count - 1) (xorl T U') U' in
      (r, EBr s_pb_loop true :: t1 ++ ECall c_xorblock [32] :: t2)
    else (T, [EBr s_pb_loop false])
  end.

Definition pb_f_c_L (salt : bytes) (count blocknum : nat) : bytes * trace :=
  let b := be_encode 4 (N.land (N.of_nat blocknum) 0xFFFFFFFF) in
  let '(T, t0) := prfc_L [salt; b] in
  if 1 <? count then
    let '(U, t1) := prfc_L [T] in
    let '(r, t2) := pb_loop_L count count (xorl T U) U in
    (r, t0 ++ EBr s_pb_count1 true :: t1 ++ ECall c_xorblock [32] :: t2)
  else (T, t0 ++ [EBr s_pb_count1 false]).

Fixpoint pb_out_L (fuel : nat) (salt : bytes) (count blocknum outlen : nat) : bytes * trace :=
  match fuel with
  | O => ([], [EBr s_pb_out false])
  | S f =>
    if outlen =? 0 then ([], [EBr s_pb_out false])
    else if 32 <=? outlen then
      let '(blk, t1) := pb_f_c_L salt count blocknum in
      let '(r, t2) := pb_out_L f salt count (blocknum + 1) (outlen - 32) in
      (blk ++ r, EBr s_pb_out true :: EBr s_pb_full true :: t1 ++ t2)
    else
      let '(blk, t1) := pb_f_c_L salt count blocknum in
      (firstn outlen blk, EBr s_pb_out true :: EBr s_pb_full false :: t1 ++ [ECall c_memcpy [outlen]])
  end.

(* traces over the trace of the PRF as a function of its chunk lengths *)
Variable trp : list nat -> trace.

Fixpoint tr_pb_loop (fuel count : nat) : trace :=
  match fuel with
  | O => [EBr s_pb_loop false]
  | S f =>
    if 2 <? count then EBr s_pb_loop true :: trp [32] ++ ECall c_xorblock [32] :: tr_pb_loop f (count - 1)
    else [EBr s_pb_loop false]
  end.
Definition tr_pb_f (saltlen count : nat) : trace :=
  trp [saltlen; 4] ++
  (if 1 <? count then EBr s_pb_count1 true :: trp [32] ++ ECall c_xorblock [32] :: tr_pb_loop count count
   else [EBr s_pb_count1 false]).
Fixpoint tr_pb_out (fuel saltlen count outlen : nat) : trace :=
  match fuel with
  | O => [EBr s_pb_out false]
  | S f =>
    if outlen =? 0 then [EBr s_pb_out false]
    else if 32 <=? outlen then
      EBr s_pb_out true :: EBr s_pb_full true :: tr_pb_f saltlen count ++ tr_pb_out f saltlen count (outlen - 32)
    else EBr s_pb_out true :: EBr s_pb_full false :: tr_pb_f saltlen count ++ [ECall c_memcpy [outlen]]
  end.
End PbL.

Section Pbkdf2L.
Variable perm : nat -> bytes -> bytes.

(* copy the keyed state, absorb every chunk, squeeze 32, free the copy *)
Definition pb_prfc_L (st : xof_state) (cs : list bytes) : bytes * trace :=
  let '(h, t1) := absorb_list_L perm vxof st cs in
  let '((_, o), t2) := xof_squeeze_L perm vxof h 32 in
  (o, ECall c_copy [] :: t1 ++ t2).
Definition tr_pb_prfc (p : pubx) (lens : list nat) : trace :=
  ECall c_copy [] :: tr_absorb_list vxof p lens ++ tr_xof_squeeze vxof (pub_absorb_list vxof p lens) 32.

Definition pbkdf2_c_L (password salt : bytes) (count outlen : nat) : bytes * trace :=
  let '(st, t0) := xof_init_custom_L perm vxof (Some name_pbkdf2) password 32 in
  let '(r, t1) := pb_out_L (pb_prfc_L st) outlen salt count 1 outlen in
  (r, t0 ++ t1).
Definition tr_pbkdf2 (pwlen saltlen count outlen : nat) : trace :=
  tr_init_custom vxof (length name_pbkdf2) pwlen 32 ++
  tr_pb_out (tr_pb_prfc (pub_absorb_custom (0, false) pwlen)) outlen saltlen count outlen.

End Pbkdf2L.

(* ======================================================================== *)
(* 8. the PRNG                                                              *)
(* ======================================================================== *)
Section PrngL.
Variable perm : nat -> bytes -> bytes.

(* ascon_random_rekey: xof_pad, then for (temp = 0; temp < 32; temp += 8)
   { overwrite_with_zeroes(state, 0, 8); permute(state, 0); } *)
Definition tr_rekey_loop : trace :=
  [EBr s_rekey_loop true; EIdx b_state 0 8; EPerm 0; EBr s_rekey_loop true; EIdx b_state 0 8; EPerm 0;
   EBr s_rekey_loop true; EIdx b_state 0 8; EPerm 0; EBr s_rekey_loop true; EIdx b_state 0 8; EPerm 0;
   EBr s_rekey_loop false].
Definition rekey_L (x : xof_state) : xof_state * trace :=
  let '(x1, t) := xof_pad_L perm vxof x in
  ({| x_st := rekey_st perm (x_st x1); x_count := x_count x1; x_mode := x_mode x1 |}, t ++ tr_rekey_loop).
Definition tr_rekey (p : pubx) : trace := tr_xof_pad vxof p ++ tr_rekey_loop.

(* the public part of an ascon_random_state_t *)
Definition pub_prng (s : prng_state) : pubx * nat := (pub_xof (r_xof s), r_counter s).
(* the public part of the system source's answers: seed length and health *)
Definition pub_sys (sys : list sys_answer) : list (nat * bool) := map (fun a => (length (fst a), snd a)) sys.
Definition next_pub (ps : list (nat * bool)) : (nat * bool) * list (nat * bool) :=
  match ps with a :: rest => (a, rest) | [] => ((32, false), []) end.

Definition prng_reseed_L (s : prng_state) (sys : list sys_answer)
  : (prng_state * bool * list sys_answer) * trace :=
  let '((seed, ok), sys') := next_sys sys in
  let '(x1, t1) := xof_absorb_L perm vxof (r_xof s) seed in
  let '(x2, t2) := rekey_L x1 in
  (({| r_xof := x2; r_counter := 0 |}, ok, sys'), ECall c_trng [32] :: t1 ++ t2).
Definition tr_reseed (p : pubx) (seedlen : nat) : trace :=
  ECall c_trng [32] :: tr_xof_absorb vxof p seedlen ++ tr_rekey (pub_absorb vxof p seedlen).

Definition prng_init_L (sys : list sys_answer) : (prng_state * bool * list sys_answer) * trace :=
  let '(x, t0) := xof_init_custom_L perm vxof (Some name_prng) [] 0 in
  let '((seed, ok), sys') := next_sys sys in
  let '(x1, t1) := xof_absorb_L perm vxof x seed in
  let '(x2, t2) := rekey_L x1 in
  (({| r_xof := x2; r_counter := 0 |}, ok, sys'), t0 ++ ECall c_trng [32] :: t1 ++ t2).
Definition tr_prng_init (seedlen : nat) : trace :=
  tr_init_custom vxof (length name_prng) 0 0 ++ ECall c_trng [32] ::
  tr_xof_absorb vxof (0, false) seedlen ++ tr_rekey (pub_absorb vxof (0, false) seedlen).

Definition prng_fetch_L (s : prng_state) (n : nat) (sys : list sys_answer)
  : (prng_state * bytes * list sys_answer) * trace :=
  let '(s1, sys1, t0) :=
    if reseed_limit <=? r_counter s then
      let '((s', _, sys'), t) := prng_reseed_L s sys in (s', sys', EBr s_reseed true :: t)
    else (s, sys, [EBr s_reseed false]) in
  let '((x2, out), t1) := xof_squeeze_L perm vxof (r_xof s1) n in
  let c := if n <? reseed_limit then r_counter s1 + n else reseed_limit in
  let '(x3, t2) := rekey_L x2 in
  (({| r_xof := x3; r_counter := c |}, out, sys1), t0 ++ t1 ++ EBr s_nlimit (n <? reseed_limit) :: t2).
Definition tr_prng_fetch (p : pubx * nat) (n : nat) (ps : list (nat * bool)) : trace :=
  let '(px, counter) := p in
  let '(px1, t0) :=
    if reseed_limit <=? counter then ((0, false), EBr s_reseed true :: tr_reseed px (fst (fst (next_pub ps))))
    else (px, [EBr s_reseed false]) in
  t0 ++ tr_xof_squeeze vxof px1 n ++ EBr s_nlimit (n <? reseed_limit) :: tr_rekey (pub_squeeze vxof px1 n).

Definition prng_feed_L (s : prng_state) (d : bytes) : prng_state * trace :=
  let '(x1, t1) := xof_absorb_L perm vxof (r_xof s) d in
  let '(x2, t2) := xof_pad_L perm vxof x1 in
  let '(x3, t3) := rekey_L x2 in
  ({| r_xof := x3; r_counter := r_counter s |}, t1 ++ t2 ++ t3).
Definition tr_prng_feed (p : pubx) (dlen : nat) : trace :=
  tr_xof_absorb vxof p dlen ++ tr_xof_pad vxof (pub_absorb vxof p dlen) ++
  tr_rekey (pub_pad vxof (pub_absorb vxof p dlen)).

End PrngL.

(* ======================================================================== *)
(* 9. SIV, ISAP, KMAC / KDF initialisation, the incremental AEAD            *)
(* ======================================================================== *)
Definition s_incloop : nat := 44.   (* increment_nonce: for (index = 16; index > 0; )  *)
Definition s_kmac32 : nat := 45.    (* kmac_init: if (outlen == ASCON_KMAC_SIZE)        *)
Definition b_nonce : nat := 7.      (* the nonce buffer of the incremental object        *)
Definition b_data : nat := 8.       (* ISAP re-keying: the data buffer read bit by bit   *)

Section SivL.
Variable perm : nat -> bytes -> bytes.

(* asconXXX_siv_init: straight-line *)
Definition tr_siv_init (v : aead_variant) (klen nlen : nat) : trace :=
  [EIdx b_state 0 (length (v_iv v)); EIdx b_state (length (v_iv v)) klen;
   EIdx b_state 24 nlen; EPerm 0; EIdx b_state (40 - v_klen v) klen].
Definition siv_init_c_L (v : aead_variant) (K N : bytes) : bytes * trace :=
  (siv_init_c perm v K N, tr_siv_init v (length K) (length N)).

(* the authentication pass: init, AD, separator, ascon_aead_absorb_8/16 over the
   plaintext with last_permute = 0 (pad, then the test), finalisation *)
Definition siv_tag_c_L (v : aead_variant) (K N A P : bytes) : bytes * trace :=
  let v1 := siv_variant v 1 in
  let '(s, t0) := siv_init_c_L v1 K N in
  let '(s, t1) :=
    match A with
    | [] => (s, [EBr s_adlen false])
    | _ => let '(s', t) := aead_absorb_c_L perm v s A in (s', EBr s_adlen true :: t)
    end in
  let s := xor_at s 39 [1%N] in
  let '(((s1, len), _), t2) := aligned_c_L bf_enc (perm (v_pb v)) (v_pb v) (v_rate v) s P in
  let '(tag, t3) := finalize_c_L perm v1 s1 len K in
  (tag, t0 ++ t1 ++ EIdx b_state 39 1 :: t2 ++
        match t3 with e :: r => e :: EBr s_lastperm false :: r | [] => [] end).

Definition tr_siv_tag (v : aead_variant) (klen nlen alen plen : nat) : trace :=
  let v1 := siv_variant v 1 in
  tr_siv_init v1 klen nlen ++
  (match alen with O => [EBr s_adlen false] | _ => EBr s_adlen true :: tr_aead_absorb v alen end) ++
  EIdx b_state 39 1 :: tr_aligned (v_pb v) (v_rate v) plen ++
  match tr_finalize v1 (rest_len (v_rate v) plen plen) klen with
  | e :: r => e :: EBr s_lastperm false :: r
  | [] => []
  end.

(* ascon_siv_encrypt_8/16: while (len >= rate) { permute; squeeze; xor } and a
   last partial block (the C squeezes a whole block there and uses len bytes) *)
Definition siv_crypt_c_L (v : aead_variant) (K T src : bytes) : bytes * trace :=
  let '(s, t0) := siv_init_c_L (siv_variant v 2) K T in
  let '((_, ks), t1) := lazy_aligned_c_L (perm (v_pb v)) (v_pb v) (v_rate v) s (length src) in
  (xorl src ks, t0 ++ t1).
Definition tr_siv_crypt (v : aead_variant) (klen tlen n : nat) : trace :=
  tr_siv_init (siv_variant v 2) klen tlen ++ tr_lazy_aligned (v_pb v) (v_rate v) n.

Definition siv_encrypt_c_L (v : aead_variant) (K N A P : bytes) : (bytes * nat) * trace :=
  let '(T, t0) := siv_tag_c_L v K N A P in
  let '(c, t1) := siv_crypt_c_L v K T P in
  ((c ++ T, length P + 16), t0 ++ t1).
Definition tr_siv_encrypt (v : aead_variant) (klen nlen alen plen : nat) : trace :=
  tr_siv_tag v klen nlen alen plen ++ tr_siv_crypt v klen 16 plen.

Definition siv_decrypt_c_L (v : aead_variant) (K N A C : bytes) : dec_result * trace :=
  if length C <? 16 then (DecShort, [EBr s_clen true])
  else
    let n := length C - 16 in
    let T := skipn n C in
    let '(m, t0) := siv_crypt_c_L v K T (firstn n C) in
    let '(tag, t1) := siv_tag_c_L v K N A m in
    let '((r, m'), t2) := check_tag_L m tag T in
    (DecDone r m', EBr s_clen false :: t0 ++ t1 ++ t2).
Definition tr_siv_decrypt (v : aead_variant) (klen nlen alen clen : nat) : trace :=
  if clen <? 16 then [EBr s_clen true]
  else
    let n := clen - 16 in
    EBr s_clen false :: tr_siv_crypt v klen 16 n ++ tr_siv_tag v klen nlen alen n ++ tr_check_tag n 16.

End SivL.

Section IsapL.
Variable perm : nat -> bytes -> bytes.

(* for (bit = 0; bit < num_bits; ++bit) { ISAP_ADD_BIT(state, data[bit / 8], bit % 8); permute }
   ISAP_ADD_BIT is ((value << bit) & 0x80) xor-ed into byte 0: no test of the bit *)
Fixpoint rekey_loop_L (iv : isap_variant) (s data : bytes) (bit nbits fuel : nat) : bytes * trace :=
  match fuel with
  | O => (s, [EBr s_bitloop false])
  | S f =>
    if bit <? nbits then
      let value := nth (bit / 8) data 0%N in
      let top := N.land (N.shiftl value (N.of_nat (bit mod 8))) 0x80 in
      let '(r, t) := rekey_loop_L iv (perm (12 - i_sB iv) (xor_at s 0 [top])) data (S bit) nbits f in
      (r, EBr s_bitloop true :: EIdx b_data (bit / 8) 1 :: EIdx b_state 0 1 :: EPerm (12 - i_sB iv) :: t)
    else (s, [EBr s_bitloop false])
  end.
Fixpoint tr_bit_loop (iv : isap_variant) (bit nbits fuel : nat) : trace :=
  match fuel with
  | O => [EBr s_bitloop false]
  | S f =>
    if bit <? nbits then
      EBr s_bitloop true :: EIdx b_data (bit / 8) 1 :: EIdx b_state 0 1 :: EPerm (12 - i_sB iv) ::
      tr_bit_loop iv (S bit) nbits f
    else [EBr s_bitloop false]
  end.

Definition isap_rekey_c_L (iv : isap_variant) (pk data : bytes) : bytes * trace :=
  let nbits := length data * 8 - 1 in
  let '(s, t) := rekey_loop_L iv pk data 0 nbits nbits in
  let value := nth (nbits / 8) data 0%N in
  let top := N.land (N.shiftl value (N.of_nat (nbits mod 8))) 0x80 in
  (perm (12 - i_sK iv) (xor_at s 0 [top]),
   ECall c_copy [] :: t ++ [EIdx b_data (nbits / 8) 1; EIdx b_state 0 1; EPerm (12 - i_sK iv)]).
Definition tr_isap_rekey (iv : isap_variant) (dlen : nat) : trace :=
  let nbits := dlen * 8 - 1 in
  ECall c_copy [] :: tr_bit_loop iv 0 nbits nbits ++
  [EIdx b_data (nbits / 8) 1; EIdx b_state 0 1; EPerm (12 - i_sK iv)].

Definition isap_crypt_c_L (iv : isap_variant) (pk : isap_key) (N src : bytes) : bytes * trace :=
  let '(s, t0) := isap_rekey_c_L iv (pk_ke pk) N in
  let s := set_at s 24 N in
  let '((_, ks), t1) := lazy_aligned_c_L (perm (12 - i_sE iv)) (12 - i_sE iv) 8 s (length src) in
  (xorl src ks, t0 ++ EIdx b_state 24 (length N) :: t1).
Definition tr_isap_crypt (iv : isap_variant) (nlen n : nat) : trace :=
  tr_isap_rekey iv nlen ++ EIdx b_state 24 nlen :: tr_lazy_aligned (12 - i_sE iv) 8 n.

Definition isap_mac_c_L (iv : isap_variant) (pk : isap_key) (N A C : bytes) : bytes * trace :=
  let pH := perm (12 - i_sH iv) in
  let s := set_at (zeros 40) 0 N in
  let s := set_at s 16 (isap_iv iv 1 ++ zeros 16) in
  let s := pH s in
  let '(((s, len), _), t1) := aligned_c_L bf_enc pH (12 - i_sH iv) 8 s A in
  let s := pH (xor_at s len [0x80%N]) in
  let s := xor_at s 39 [1%N] in
  let '(((s, len2), _), t2) := aligned_c_L bf_enc pH (12 - i_sH iv) 8 s C in
  let s := pH (xor_at s len2 [0x80%N]) in
  let y := get_at s 0 (i_klen iv) in
  let preserve := get_at s (i_klen iv) (40 - i_klen iv) in
  let '(s, t3) := isap_rekey_c_L iv (pk_ka pk) y in
  let s := set_at s (i_klen iv) preserve in
  (get_at (pH s) 0 16,
   [EIdx b_state 0 (length N); EIdx b_state 16 24; EPerm (12 - i_sH iv)] ++ t1 ++
   [EIdx b_state len 1; EPerm (12 - i_sH iv); EIdx b_state 39 1] ++ t2 ++
   [EIdx b_state len2 1; EPerm (12 - i_sH iv); EIdx b_state 0 (i_klen iv);
    EIdx b_state (i_klen iv) (40 - i_klen iv)] ++ t3 ++
   [EIdx b_state (i_klen iv) (40 - i_klen iv); EPerm (12 - i_sH iv); EIdx b_state 0 16]).
Definition tr_isap_mac (iv : isap_variant) (nlen alen clen : nat) : trace :=
  [EIdx b_state 0 nlen; EIdx b_state 16 24; EPerm (12 - i_sH iv)] ++ tr_aligned (12 - i_sH iv) 8 alen ++
  [EIdx b_state (rest_len 8 alen alen) 1; EPerm (12 - i_sH iv); EIdx b_state 39 1] ++
  tr_aligned (12 - i_sH iv) 8 clen ++
  [EIdx b_state (rest_len 8 clen clen) 1; EPerm (12 - i_sH iv); EIdx b_state 0 (i_klen iv);
   EIdx b_state (i_klen iv) (40 - i_klen iv)] ++ tr_isap_rekey iv (i_klen iv) ++
  [EIdx b_state (i_klen iv) (40 - i_klen iv); EPerm (12 - i_sH iv); EIdx b_state 0 16].

Definition isap_encrypt_c_L (iv : isap_variant) (pk : isap_key) (N A P : bytes) : (bytes * nat) * trace :=
  let '(c, t0) := isap_crypt_c_L iv pk N P in
  let '(tag, t1) := isap_mac_c_L iv pk N A c in
  ((c ++ tag, length P + 16), t0 ++ t1).
Definition tr_isap_encrypt (iv : isap_variant) (nlen alen plen : nat) : trace :=
  tr_isap_crypt iv nlen plen ++ tr_isap_mac iv nlen alen plen.

Definition isap_decrypt_c_L (iv : isap_variant) (pk : isap_key) (N A C : bytes) : dec_result * trace :=
  if length C <? 16 then (DecShort, [EBr s_clen true])
  else
    let n := length C - 16 in
    let c := firstn n C in
    let '(tag, t0) := isap_mac_c_L iv pk N A c in
    let '(m, t1) := isap_crypt_c_L iv pk N c in
    let '((r, m'), t2) := check_tag_L m tag (skipn n C) in
    (DecDone r m', EBr s_clen false :: t0 ++ t1 ++ t2).
Definition tr_isap_decrypt (iv : isap_variant) (nlen alen clen : nat) : trace :=
  if clen <? 16 then [EBr s_clen true]
  else
    let n := clen - 16 in
    EBr s_clen false :: tr_isap_mac iv nlen alen n ++ tr_isap_crypt iv nlen n ++ tr_check_tag n 16.

End IsapL.

Section KmacL.
Variable perm : nat -> bytes -> bytes.

(* ascon_kmac_init; the key is absorbed last *)
Definition kmac_init_L (v : xof_variant) (key custom : bytes) (outlen : N) : xof_state * trace :=
  let '(s, t0) :=
    if (outlen =? 32)%N then
      let '(s', t) := xof_absorb_custom_L perm v (mk (cxof_state perm v name_kmac [] 32)) custom in
      (s', EBr s_kmac32 true :: EIdx b_state 0 40 :: t)
    else
      let '(s', t) := xof_init_custom_L perm v (Some name_kmac) custom outlen in
      (s', EBr s_kmac32 false :: t) in
  let '(r, t1) := xof_absorb_L perm v s key in
  (r, t0 ++ t1).
Definition tr_kmac_init (v : xof_variant) (klen clen : nat) (outlen : N) : trace :=
  (if (outlen =? 32)%N then EBr s_kmac32 true :: EIdx b_state 0 40 :: tr_absorb_custom v (0, false) clen
   else EBr s_kmac32 false :: tr_init_custom v (length name_kmac) clen outlen) ++
  tr_xof_absorb v (pub_absorb_custom (0, false) clen) klen.

Definition kdf_init_L (v : xof_variant) (key custom : bytes) (outlen : N) : xof_state * trace :=
  let '(s, t0) := xof_init_custom_L perm v (Some name_kdf) custom outlen in
  let '(r, t1) := xof_absorb_L perm v s key in
  (r, t0 ++ t1).
Definition tr_kdf_init (v : xof_variant) (klen clen : nat) (outlen : N) : trace :=
  tr_init_custom v (length name_kdf) clen outlen ++ tr_xof_absorb v (pub_absorb_custom (0, false) clen) klen.

End KmacL.

Section IncL.
Variable perm : nat -> bytes -> bytes.

(* ascon_aead_increment_nonce: one pass per byte, the carry is arithmetic *)
Fixpoint incr_rev_L (l : bytes) (i : nat) (carry : N) : bytes * trace :=
  match l with
  | [] => ([], [EBr s_incloop false])
  | x :: l' =>
    let t := (x + carry)%N in
    let '(r, tr) := incr_rev_L l' (S i) (N.shiftr t 8) in
    (N.land t 255 :: r, EBr s_incloop true :: EIdx b_nonce i 1 :: tr)
  end.
Fixpoint tr_incr (n i : nat) : trace :=
  match n with
  | O => [EBr s_incloop false]
  | S k => EBr s_incloop true :: EIdx b_nonce i 1 :: tr_incr k (S i)
  end.
(* the index recorded is the distance from the last byte *)
Definition increment_nonce_L (n : bytes) : bytes * trace :=
  let '(r, t) := incr_rev_L (rev n) 0 1%N in (rev r, t).

(* the public part of the incremental object *)
Definition pub_inc (s : inc_state) : nat * nat * nat := (i_posn s, length (i_key s), length (i_nonce s)).

Definition inc_start_L (v : aead_variant) (s : inc_state) (A : bytes) : inc_state * trace :=
  let '(st, t0) := start_c_L perm v (i_key s) (i_nonce s) A in
  let '(n', t1) := increment_nonce_L (i_nonce s) in
  ({| i_st := st; i_key := i_key s; i_nonce := n'; i_posn := 0 |}, t0 ++ t1).
Definition tr_inc_start (v : aead_variant) (klen nlen alen : nat) : trace :=
  tr_start v klen nlen alen ++ tr_incr nlen 0.

Definition inc_encrypt_block_L (v : aead_variant) (s : inc_state) (d : bytes) : (inc_state * bytes) * trace :=
  let '(((s1, p), o), t) := duplex_c_L bf_enc (perm (v_pb v)) (v_pb v) (v_rate v) (i_st s, i_posn s) d in
  (({| i_st := s1; i_key := i_key s; i_nonce := i_nonce s; i_posn := p |}, o), t).
Definition inc_decrypt_block_L (v : aead_variant) (s : inc_state) (d : bytes) : (inc_state * bytes) * trace :=
  let '(((s1, p), o), t) := duplex_c_L bf_dec (perm (v_pb v)) (v_pb v) (v_rate v) (i_st s, i_posn s) d in
  (({| i_st := s1; i_key := i_key s; i_nonce := i_nonce s; i_posn := p |}, o), t).

Definition inc_encrypt_finalize_L (v : aead_variant) (s : inc_state) : (inc_state * bytes) * trace :=
  (inc_encrypt_finalize perm v s, tr_finalize v (i_posn s) (length (i_key s))).
Definition inc_decrypt_finalize_L (v : aead_variant) (s : inc_state) (tag : bytes) : (inc_state * Z) * trace :=
  let st := inc_final_state perm v s in
  let '((r, _), t) := check_tag_L [] (get_at st 24 16) tag in
  (({| i_st := st; i_key := i_key s; i_nonce := i_nonce s; i_posn := i_posn s |}, r),
   tr_finalize v (i_posn s) (length (i_key s)) ++ t).

End IncL.

(* ---- HKDF: extract, the one-shot, and the public state after expand ------- *)
Definition s_hkdf_big : nat := 48.  (* hkdf: if (outlen > HMAC_SIZE * 255) *)

Section HkdfL2.
Variable perm : nat -> bytes -> bytes.

Definition hkdf_extract_c_L (v : xof_variant) (key salt : bytes) : hkdf_state * trace :=
  let '(prk, t) := hmac_run_L perm v salt [key] in
  ({| k_prk := prk; k_out := zeros 32; k_counter := 1; k_posn := 32 |}, t).
Definition tr_hkdf_extract (v : xof_variant) (keylen saltlen : nat) : trace :=
  tr_hmac_run v saltlen [keylen].

Fixpoint pub_hkdf_loop (fuel : nat) (p : nat * nat * nat * nat) (outlen : nat) : nat * nat * nat * nat :=
  match fuel with
  | O => p
  | S f =>
    if outlen =? 0 then p
    else
      let '(c, posn, pl, ol) := p in
      if c =? 0 then p
      else pub_hkdf_loop f ((c + 1) mod 256, Nat.min 32 outlen, pl, 32) (outlen - Nat.min 32 outlen)
  end.
Definition pub_hkdf_expand (p : nat * nat * nat * nat) (outlen : nat) : nat * nat * nat * nat :=
  let '(c, posn, pl, ol) := p in
  let len := Nat.min (32 - posn) outlen in
  pub_hkdf_loop (outlen - len) (c, posn + len, pl, ol) (outlen - len).

Definition hkdf_c_L (v : xof_variant) (key salt info : bytes) (outlen : nat) : option bytes * trace :=
  if 255 * 32 <? outlen then (None, [EBr s_hkdf_big true])
  else
    let '(s, t0) := hkdf_extract_c_L v key salt in
    let '((_, o, _), t1) := hkdf_expand_c_L perm v s info outlen in
    (Some o, EBr s_hkdf_big false :: t0 ++ t1).
Definition tr_hkdf (v : xof_variant) (keylen saltlen infolen outlen : nat) : trace :=
  if 255 * 32 <? outlen then [EBr s_hkdf_big true]
  else EBr s_hkdf_big false :: tr_hkdf_extract v keylen saltlen ++
       tr_hkdf_expand v (1, 32, 32, 32) infolen outlen.

End HkdfL2.

(* ======================================================================== *)
(* 10. the remaining keyed entry points: ascon_prf_short, ascon_random,      *)
(*     ascon_random_save_seed / _load_seed                                   *)
(* ======================================================================== *)
Definition s_short_in : nat := 49.   (* prf_short: if (inlen > 16)                          *)
Definition s_short_out : nat := 50.  (* prf_short: if (outlen > 16)                         *)
Definition s_ok : nat := 51.         (* ascon_random: return ok ? 1 : 0                     *)
Definition s_store_bad : nat := 52.  (* save/load: if (!state || !storage || size < 32)     *)
Definition s_read32 : nat := 53.     (* load_seed: if (read == 32), and the final ?:        *)
Definition s_written : nat := 54.    (* save_seed: (written == 32) ? 0 : -1                 *)
Definition c_store_read : nat := 106.  (* storage->read(storage, 0, seed, 32)               *)
Definition c_store_write : nat := 107. (* storage->write(storage, 0, seed, 32, erase)       *)

Section RestL.
Variable perm : nat -> bytes -> bytes.

Definition tr_prf_short (klen mlen outlen : nat) : trace :=
  if 16 <? mlen then [EBr s_short_in true]
  else if 16 <? outlen then [EBr s_short_in false; EBr s_short_out true]
  else [EBr s_short_in false; EBr s_short_out false; EIdx b_state 0 8; EIdx b_state 8 klen;
        EIdx b_state 24 mlen; EPerm 0; EIdx b_state 24 klen; EIdx b_state 24 outlen].
Definition prf_short_c_L (K msg : bytes) (outlen : nat) : option bytes * trace :=
  (prf_short_c perm K msg outlen, tr_prf_short (length K) (length msg) outlen).

Definition random_oneshot_L (n : nat) (sys : list sys_answer) : (bytes * Z * list sys_answer) * trace :=
  let '((seed, ok), sys') := next_sys sys in
  let '(x0, t0) := xof_init_fixed_L perm vxof (N.of_nat n) in
  let '(x, t1) := xof_absorb_L perm vxof x0 seed in
  let '((_, out), t2) := xof_squeeze_L perm vxof x n in
  ((out, if ok then 1%Z else 0%Z, sys'), ECall c_trng [32] :: t0 ++ t1 ++ t2 ++ [EBr s_ok ok]).
Definition tr_random_oneshot (n : nat) (ps : list (nat * bool)) : trace :=
  let '((seedlen, ok), _) := next_pub ps in
  ECall c_trng [32] :: tr_init_fixed (N.of_nat n) ++ tr_xof_absorb vxof (0, false) seedlen ++
  tr_xof_squeeze vxof (pub_absorb vxof (0, false) seedlen) n ++ [EBr s_ok ok].

(* the public part of the storage callbacks' answers: region size, the count
   read returns and how many bytes it delivered, what write returns; the bytes
   read back (a saved seed) are secret *)
Definition pub_storage (st : option storage) : option (nat * Z * nat * Z) :=
  match st with
  | None => None
  | Some st => Some (st_size st, fst (st_read st), length (snd (st_read st)), st_write st)
  end.

Definition prng_save_seed_L (s : prng_state) (st : option storage) (sys : list sys_answer)
  : (prng_state * Z * option bytes * list sys_answer) * trace :=
  match st with
  | None => ((s, (-1)%Z, None, sys), [EBr s_store_bad true])
  | Some st =>
    if st_size st <? 32 then ((s, (-1)%Z, None, sys), [EBr s_store_bad true])
    else
      let '((s1, seed, sys1), t) := prng_fetch_L perm s 32 sys in
      ((s1, if (st_write st =? 32)%Z then 0%Z else (-1)%Z, Some seed, sys1),
       EBr s_store_bad false :: t ++ [ECall c_store_write [32]; EBr s_written (st_write st =? 32)%Z])
  end.
Definition tr_save_seed (p : pubx * nat) (pst : option (nat * Z * nat * Z)) (ps : list (nat * bool)) : trace :=
  match pst with
  | None => [EBr s_store_bad true]
  | Some (size, _, _, w) =>
    if size <? 32 then [EBr s_store_bad true]
    else EBr s_store_bad false :: tr_prng_fetch p 32 ps ++ [ECall c_store_write [32]; EBr s_written (w =? 32)%Z]
  end.

Definition prng_load_seed_L (s : prng_state) (st : option storage) (sys : list sys_answer)
  : (prng_state * Z * option bytes * list sys_answer) * trace :=
  match st with
  | None => ((s, (-1)%Z, None, sys), [EBr s_store_bad true])
  | Some st =>
    if st_size st <? 32 then ((s, (-1)%Z, None, sys), [EBr s_store_bad true])
    else
      let '(r, data) := st_read st in
      let '(s1, t1) :=
        if (r =? 32)%Z then let '(s', t) := prng_feed_L perm s (firstn 32 data) in (s', EBr s_read32 true :: t)
        else (s, [EBr s_read32 false]) in
      let '((s2, _, sys2), t2) := prng_reseed_L perm s1 sys in
      let '((s3, seed, sys3), t3) := prng_fetch_L perm s2 32 sys2 in
      ((s3, if (r =? 32)%Z then 0%Z else (-1)%Z, Some seed, sys3),
       EBr s_store_bad false :: ECall c_store_read [32] :: t1 ++ t2 ++ t3 ++
       [ECall c_store_write [32]; EBr s_read32 (r =? 32)%Z])
  end.
Definition tr_load_seed (p : pubx * nat) (pst : option (nat * Z * nat * Z)) (ps : list (nat * bool)) : trace :=
  match pst with
  | None => [EBr s_store_bad true]
  | Some (size, r, dlen, _) =>
    if size <? 32 then [EBr s_store_bad true]
    else
      let '(px1, t1) :=
        if (r =? 32)%Z then ((0, false), EBr s_read32 true :: tr_prng_feed (fst p) (Nat.min 32 dlen))
        else (fst p, [EBr s_read32 false]) in
      EBr s_store_bad false :: ECall c_store_read [32] :: t1 ++
      tr_reseed px1 (fst (fst (next_pub ps))) ++
      tr_prng_fetch ((0, false), 0) 32 (snd (next_pub ps)) ++
      [ECall c_store_write [32]; EBr s_read32 (r =? 32)%Z]
  end.

End RestL.
