(* ASCON-128, ASCON-128a, ASCON-80pq authenticated encryption as defined in
   ASCON v1.2 (section 2.4), at byte granularity.  The permutation is a
   parameter so that the theorems about the modes hold for any function in
   its place; [Spec.Aead.encrypt] etc. at the end instantiate it. *)
From AsconV Require Export Model.Sponge Spec.Perm.
Local Open Scope nat_scope.

Record aead_variant := {
  v_iv : bytes;       (* IV bytes that precede the key in the initial state *)
  v_klen : nat;       (* key length: 16 or 20 *)
  v_rate : nat;       (* 8 or 16 *)
  v_pb : nat          (* first round of the intermediate permutation p^b: 6 or 4 *)
}.
Definition a128  := {| v_iv := [0x80;0x40;0x0c;0x06;0;0;0;0]%N; v_klen := 16; v_rate := 8;  v_pb := 6 |}.
Definition a128a := {| v_iv := [0x80;0x80;0x0c;0x08;0;0;0;0]%N; v_klen := 16; v_rate := 16; v_pb := 4 |}.
Definition a80pq := {| v_iv := [0xa0;0x40;0x0c;0x06]%N;         v_klen := 20; v_rate := 8;  v_pb := 6 |}.

Definition wf_kn (v : aead_variant) (K N : bytes) : Prop :=
  length K = v_klen v /\ length N = 16.

Section WithPerm.
Variable perm : nat -> bytes -> bytes.

(* Initialization: S = p^a(IV || K || N) xor (0..0 || K) *)
Definition init_state (v : aead_variant) (K N : bytes) : bytes :=
  xor_at (perm 0 (v_iv v ++ K ++ N)) (40 - v_klen v) K.

(* Associated data: if non-empty, pad with 1||0*, absorb block by block with
   p^b after every block (the last included) *)
Definition absorb_ad (v : aead_variant) (s : bytes) (A : bytes) : bytes :=
  match A with
  | [] => s
  | _ => perm (v_pb v) (fst (spec_duplex bf_enc (perm (v_pb v)) (v_rate v) s A))
  end.

(* domain separation: S = S xor (0^319 || 1) *)
Definition separator (s : bytes) : bytes := xor_at s 39 [1%N].

(* Finalization: S = p^a(S xor (0^r || K || 0..0) ); T = last 128 bits of S xor
   last 128 bits of K *)
Definition finalize (v : aead_variant) (s : bytes) (K : bytes) : bytes :=
  let s := xor_at s (v_rate v) K in
  let s := perm 0 s in
  let s := xor_at s 24 (skipn (v_klen v - 16) K) in
  get_at s 24 16.

Definition pre_state v K N A := separator (absorb_ad v (init_state v K N) A).

Definition encrypt (v : aead_variant) (K N A P : bytes) : bytes :=
  let '(s, c) := spec_duplex bf_enc (perm (v_pb v)) (v_rate v) (pre_state v K N A) P in
  c ++ finalize v s K.

Definition decrypt (v : aead_variant) (K N A C : bytes) : option bytes :=
  if length C <? 16 then None
  else
    let n := length C - 16 in
    let '(s, p) := spec_duplex bf_dec (perm (v_pb v)) (v_rate v) (pre_state v K N A) (firstn n C) in
    if beq_bytes (finalize v s K) (skipn n C) then Some p else None.

End WithPerm.
