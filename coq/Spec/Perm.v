(* The ASCON permutation (ASCON v1.2, section 2.6) on five 64-bit words held
   as N, and on the canonical 40-byte big-endian state. *)
From AsconV Require Export Bits.Bytes.
Local Open Scope N_scope.

Definition mask64 : N := 0xFFFFFFFFFFFFFFFF.
Definition rotr64 (x : N) (k : N) : N :=
  N.lor (N.shiftr x k) (N.land (N.shiftl x (64 - k)) mask64).
Definition not64 (x : N) : N := N.lxor x mask64.

Definition words := (N * N * N * N * N)%type.

(* round constant of round i (0..11) *)
Definition rc (i : nat) : N :=
  let i' := N.of_nat i in N.lor (N.shiftl (15 - i') 4) i'.

Definition round (c : N) (w : words) : words :=
  let '(x0, x1, x2, x3, x4) := w in
  let x2 := N.lxor x2 c in
  (* substitution layer *)
  let x0 := N.lxor x0 x4 in
  let x4 := N.lxor x4 x3 in
  let x2 := N.lxor x2 x1 in
  let t0 := N.lxor x0 (N.land (not64 x1) x2) in
  let t1 := N.lxor x1 (N.land (not64 x2) x3) in
  let t2 := N.lxor x2 (N.land (not64 x3) x4) in
  let t3 := N.lxor x3 (N.land (not64 x4) x0) in
  let t4 := N.lxor x4 (N.land (not64 x0) x1) in
  let t1 := N.lxor t1 t0 in
  let t0 := N.lxor t0 t4 in
  let t3 := N.lxor t3 t2 in
  let t2 := not64 t2 in
  (* linear diffusion layer *)
  (N.lxor t0 (N.lxor (rotr64 t0 19) (rotr64 t0 28)),
   N.lxor t1 (N.lxor (rotr64 t1 61) (rotr64 t1 39)),
   N.lxor t2 (N.lxor (rotr64 t2 1) (rotr64 t2 6)),
   N.lxor t3 (N.lxor (rotr64 t3 10) (rotr64 t3 17)),
   N.lxor t4 (N.lxor (rotr64 t4 7) (rotr64 t4 41))).

(* rounds first, first+1, ..., 11 *)
Definition perm_words (first : nat) (w : words) : words :=
  fold_left (fun w i => round (rc i) w) (seq first (12 - first)) w.

Definition words_of_bytes (s : bytes) : words :=
  (be_decode (get_at s 0 8), be_decode (get_at s 8 8), be_decode (get_at s 16 8),
   be_decode (get_at s 24 8), be_decode (get_at s 32 8)).

Definition bytes_of_words (w : words) : bytes :=
  let '(x0, x1, x2, x3, x4) := w in
  be_encode 8 x0 ++ be_encode 8 x1 ++ be_encode 8 x2 ++ be_encode 8 x3 ++ be_encode 8 x4.

(* the permutation on the 40-byte state, entered at round [first] *)
Definition perm (first : nat) (s : bytes) : bytes :=
  bytes_of_words (perm_words first (words_of_bytes s)).

Definition test_in : bytes := map N.of_nat (seq 0 40).
Definition test_out12 : bytes :=
  [0x06;0x05;0x87;0xe2;0xd4;0x89;0xdd;0x43;0x1c;0xc2;0xb1;0x7b;0x0e;0x3c;0x17;0x64;
   0x95;0x73;0x42;0x53;0x18;0x44;0xa6;0x74;0x96;0xb1;0x71;0x75;0xb4;0xcb;0x68;0x63;
   0x29;0xb5;0x12;0xd6;0x27;0xd9;0x06;0xe5].
Definition test_out8 : bytes :=
  [0x83;0x0d;0x26;0x0d;0x33;0x5f;0x3b;0xed;0xda;0x0b;0xba;0x91;0x7b;0xcf;0xca;0xd7;
   0xdd;0x0d;0x88;0xe7;0xdc;0xb5;0xec;0xd0;0x89;0x2a;0x02;0x15;0x1f;0x95;0x94;0x6e;
   0x3a;0x69;0xcb;0x3c;0xf9;0x82;0xf6;0xf7].
Example perm12_vector : perm 0 test_in = test_out12. Proof. vm_compute. reflexivity. Qed.
Example perm8_vector : perm 4 test_in = test_out8. Proof. vm_compute. reflexivity. Qed.
