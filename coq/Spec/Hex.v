(* C20 - what "hexadecimal encoding" and "decoding" mean, without buffers,
   state machines or return codes. *)
From AsconV Require Export Bits.Bytes.
Local Open Scope N_scope.

(* the value of a hexadecimal digit character, if it is one *)
Definition digit_val (c : N) : option N :=
  if (48 <=? c) && (c <=? 57) then Some (c - 48)
  else if (97 <=? c) && (c <=? 102) then Some (c - 87)
  else if (65 <=? c) && (c <=? 70) then Some (c - 55)
  else None.
Definition is_hexdigit (c : N) : bool := match digit_val c with Some _ => true | None => false end.
(* the six characters the library documents as ignored: space \t \n \v \f \r *)
Definition is_ws (c : N) : bool := existsb (N.eqb c) [32; 9; 10; 11; 12; 13].

(* the digit values of a string, in order, ignoring everything else *)
Fixpoint digits (s : list N) : list N :=
  match s with
  | [] => []
  | c :: s' => match digit_val c with Some d => d :: digits s' | None => digits s' end
  end.
(* consecutive pairs, most significant nibble first; a trailing single digit is dropped *)
Fixpoint pairs (ds : list N) : list N :=
  match ds with
  | a :: b :: r => (16 * a + b) :: pairs r
  | _ => []
  end.

(* a string is well formed when it consists of hex digits and white space only, with an even number of digits *)
Definition wellformed (s : list N) : bool :=
  forallb (fun c => is_hexdigit c || is_ws c) s && Nat.even (length (digits s)).
Definition decode (s : list N) : option bytes := if wellformed s then Some (pairs (digits s)) else None.

(* encoding: two digit characters per byte *)
Definition digit_char (upper : bool) (d : N) : N :=
  if d <? 10 then 48 + d else (if upper then 55 else 87) + d.
Fixpoint encode (upper : bool) (b : bytes) : list N :=
  match b with
  | [] => []
  | x :: b' => digit_char upper (x / 16) :: digit_char upper (x mod 16) :: encode upper b'
  end.
