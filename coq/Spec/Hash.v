(* ASCON-HASH, ASCON-HASHA, ASCON-XOF, ASCON-XOFA (ASCON v1.2 section 2.5),
   the fixed-output-length XOF variants, and the library's customised XOF
   (doc/cxof.dox), at byte granularity. *)
From AsconV Require Export Model.Sponge Spec.Perm.
Local Open Scope nat_scope.

Record xof_variant := {
  xv_pb : nat;      (* first round of p^b: 0 for HASH/XOF (b = 12), 4 for HASHA/XOFA (b = 8) *)
  xv_lazy : bool;   (* how the C squeezes: XOF permutes before a block, XOFA after it *)
  xv_iv : N;        (* the 64-bit IV with output length 0 *)
  xv_rate_in : nat; (* absorbing rate in bytes *)
  xv_rate_out : nat;(* squeezing rate in bytes *)
  xv_sep : bool     (* is the domain-separation bit flipped after the padding (ASCON-PRF) *)
}.
Definition vxof  := {| xv_pb := 0; xv_lazy := true;  xv_iv := 0x00400c0000000000%N; xv_rate_in := 8; xv_rate_out := 8; xv_sep := false |}.
Definition vxofa := {| xv_pb := 4; xv_lazy := false; xv_iv := 0x00400c0400000000%N; xv_rate_in := 8; xv_rate_out := 8; xv_sep := false |}.
(* ASCON-PRF / ASCON-Mac: rate 256 in, 128 out, 12 rounds everywhere, separator; IV 80 80 8c 00 || bit length *)
Definition vprf  := {| xv_pb := 0; xv_lazy := true;  xv_iv := 0x80808c0000000000%N; xv_rate_in := 32; xv_rate_out := 16; xv_sep := true |}.

Definition sepf (v : xof_variant) (s : bytes) : bytes := if xv_sep v then xor_at s 39 [1%N] else s.

Section WithPerm.
Variable perm : nat -> bytes -> bytes.

(* the IV word for a declared output length of L bytes: the bit length in the
   low 32 bits; L = 0 and L >= 2^29 both mean "arbitrary length" *)
Definition iv_word (v : xof_variant) (L : N) : N :=
  if (536870912 <=? L)%N then xv_iv v else N.lor (xv_iv v) (L * 8)%N.

Definition iv_state (v : xof_variant) (L : N) : bytes :=
  perm 0 (be_encode 8 (iv_word v L) ++ zeros 32).

(* absorb: padded message blocks with p^b between them, p^a after the last *)
Definition absorb_msg (v : xof_variant) (s : bytes) (msg : bytes) : bytes :=
  perm 0 (sepf v (fst (spec_duplex bf_enc (perm (xv_pb v)) (xv_rate_in v) s msg))).

(* XOF_v with declared length L (0 = unlimited): the first n bytes of output *)
Definition xof_fixed (v : xof_variant) (L : N) (msg : bytes) (n : nat) : bytes :=
  spec_squeeze (perm (xv_pb v)) (xv_rate_out v) (absorb_msg v (iv_state v L) msg) n.

Definition xof (v : xof_variant) (msg : bytes) (n : nat) : bytes := xof_fixed v 0 msg n.
Definition hash (v : xof_variant) (msg : bytes) : bytes := xof_fixed v 32 msg 32.

(* customised XOF (doc/cxof.dox): the function name occupies the 32 bytes
   after the IV word (zero padded; names longer than 32 bytes are replaced by
   their ASCON-HASH / HASHA value); a non-empty customisation string is
   absorbed, padded, followed by the permutation (12 rounds for XOF, 8 for
   XOFA, as fixed by ASCON-KMACA.txt) and a domain-separation bit *)
Definition name_field (v : xof_variant) (name : bytes) : bytes :=
  if length name <=? 32 then name ++ zeros (32 - length name) else hash v name.

Definition cxof_state (v : xof_variant) (name custom : bytes) (L : N) : bytes :=
  let s := perm 0 (be_encode 8 (iv_word v L) ++ name_field v name) in
  match custom with
  | [] => s
  | _ => xor_at (perm (xv_pb v) (fst (spec_duplex bf_enc (perm (xv_pb v)) (xv_rate_in v) s custom))) 39 [1%N]
  end.

Definition cxof (v : xof_variant) (name custom : bytes) (L : N) (msg : bytes) (n : nat) : bytes :=
  spec_squeeze (perm (xv_pb v)) (xv_rate_out v) (absorb_msg v (cxof_state v name custom L) msg) n.

End WithPerm.
