(* ASCON-PRF / PrfShort / Mac (ASCON-PRF specification), HMAC (RFC 2104) over
   ASCON-HASH/HASHA with a 64-byte block, KMAC (doc/kmac.dox), HKDF (RFC 5869),
   PBKDF2 (RFC 8018), KDF - as short functions over byte strings. *)
From AsconV Require Export Spec.Hash.
Local Open Scope nat_scope.

Definition xor_pad (pad : N) (l : bytes) : bytes := map (N.lxor pad) l.

Definition name_kmac : bytes := [75; 77; 65; 67]%N.               (* "KMAC" *)
Definition name_kdf : bytes := [75; 68; 70]%N.                    (* "KDF" *)
Definition name_pbkdf2 : bytes := [80; 66; 75; 68; 70; 50]%N.     (* "PBKDF2" *)

Section WithPerm.
Variable perm : nat -> bytes -> bytes.

(* ---- ASCON-PRF --------------------------------------------------------- *)
(* S = p(IV(L) || K || 0^128); absorb 256-bit blocks of M || 1 || 0.. with p
   between them; flip the last state bit; squeeze 128-bit blocks, p before each *)
(* IV = k (128) || r_out (128) || 1||a (0x8c) || 0^8 || t (32-bit output bit
   length; 0 for arbitrary length, also used for L >= 2^29) *)
Definition prf_len (L : N) : N := if (536870912 <=? L)%N then 0%N else L.
Definition prf_state (K : bytes) (L : N) : bytes :=
  perm 0 ([0x80; 0x80; 0x8c; 0x00]%N ++ be_encode 4 (prf_len L * 8) ++ K ++ zeros 16).
Definition prf (K : bytes) (L : N) (msg : bytes) (n : nat) : bytes :=
  spec_squeeze (perm 0) 16 (absorb_msg perm vprf (prf_state K L) msg) n.
Definition mac (K msg : bytes) : bytes := prf K 16 msg 16.

(* ASCON-PrfShort: S = p(80 (8|M|) 4c 80 00 00 00 00 || K || M || 0..);
   T = first n bytes of (last 128 bits of S xor K); |M| <= 16, n <= 16 *)
Definition prf_short (K msg : bytes) (n : nat) : option bytes :=
  if (16 <? length msg) || (16 <? n) then None
  else
    let iv := [0x80; N.of_nat (8 * length msg); 0x4c; 0x80; 0; 0; 0; 0]%N in
    let s := perm 0 (iv ++ K ++ msg ++ zeros (16 - length msg)) in
    Some (firstn n (xorl (skipn 24 s) K)).

(* ---- HMAC (RFC 2104), B = 64 ------------------------------------------- *)
Section Hmac.
Variable H : bytes -> bytes.
Definition hmac_k0 (K : bytes) : bytes :=
  let K' := if 64 <? length K then H K else K in K' ++ zeros (64 - length K').
Definition hmac (K msg : bytes) : bytes :=
  H (xor_pad 0x5c (hmac_k0 K) ++ H (xor_pad 0x36 (hmac_k0 K) ++ msg)).

(* ---- HKDF (RFC 5869) ------------------------------------------------------ *)
Definition hkdf_extract (salt ikm : bytes) : bytes := hmac salt ikm.
(* T(0) = empty, T(i) = HMAC(PRK, T(i-1) || info || i) *)
Fixpoint hkdf_T (prk info : bytes) (i : nat) : bytes :=
  match i with
  | O => []
  | S j => hmac prk (hkdf_T prk info j ++ info ++ [N.of_nat i])
  end.
(* OKM = T(1) || T(2) || ... || T(255) *)
Definition hkdf_okm (prk info : bytes) : bytes := flat_map (hkdf_T prk info) (seq 1 255).
End Hmac.

(* ---- PBKDF2 (RFC 8018 section 5.2) over an abstract PRF(P, .) -------------- *)
Section Pbkdf2.
Variable prf1 : bytes -> bytes.                      (* PRF with the password fixed *)
Fixpoint pb_U (U1 : bytes) (j : nat) : bytes :=      (* U_{j+1} *)
  match j with O => U1 | S k => prf1 (pb_U U1 k) end.
Definition pb_F (salt : bytes) (c : nat) (i : nat) : bytes :=
  let U1 := prf1 (salt ++ be_encode 4 (N.of_nat i)) in
  fold_left xorl (map (pb_U U1) (seq 1 (Nat.max c 1 - 1))) U1.
Definition pb_dk (salt : bytes) (c : nat) (L : nat) : bytes :=
  firstn L (flat_map (pb_F salt c) (seq 1 (L / 32 + 1))).
End Pbkdf2.

(* the library's PBKDF2 PRF: PRF(P, X) = ASCON-cXOF(X, 256, "PBKDF2", P) *)
Definition pbkdf2_prf (P X : bytes) : bytes := cxof perm vxof name_pbkdf2 P 32 X 32.

(* ---- KMAC, KDF (the library's documents) ----------------------------------- *)
Definition kmac (v : xof_variant) (K msg custom : bytes) (L : N) (n : nat) : bytes :=
  cxof perm v name_kmac custom L (K ++ msg) n.
Definition kdf (v : xof_variant) (K custom : bytes) (L : N) (n : nat) : bytes :=
  cxof perm v name_kdf custom L K n.

End WithPerm.
