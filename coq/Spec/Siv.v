(* ASCON-128-SIV / 128a-SIV / 80pq-SIV as documented in doc/siv.dox (the figure
   and the KAT files fix permute-then-squeeze for the keystream), and
   ISAP-A-128A / ISAP-A-128 / ISAP-A-80PQ per ISAP v2.0. *)
From AsconV Require Export Spec.Aead.
Local Open Scope nat_scope.

(* the SIV variants reuse the AEAD parameters with IV | 1 (authentication
   pass) and IV | 2 (keystream pass) in the first IV byte *)
Definition siv_variant (v : aead_variant) (pass : N) : aead_variant :=
  {| v_iv := match v_iv v with b :: rest => N.lor b pass :: rest | [] => [] end;
     v_klen := v_klen v; v_rate := v_rate v; v_pb := v_pb v |}.

Record isap_variant := {
  i_klen : nat;                 (* 16 or 20 *)
  i_sH : nat; i_sB : nat; i_sE : nat; i_sK : nat   (* round counts *)
}.
Definition isap128a := {| i_klen := 16; i_sH := 12; i_sB := 1;  i_sE := 6;  i_sK := 12 |}.
Definition isap128  := {| i_klen := 16; i_sH := 12; i_sB := 12; i_sE := 12; i_sK := 12 |}.
Definition isap80pq := {| i_klen := 20; i_sH := 12; i_sB := 12; i_sE := 12; i_sK := 12 |}.

(* bit i of a byte string, most significant bit of byte 0 first *)
Definition bitat (data : bytes) (i : nat) : bool := N.testbit (nth (i / 8) data 0%N) (N.of_nat (7 - i mod 8)).
Definition bits_of (l : bytes) : list bool := map (bitat l) (seq 0 (8 * length l)).

Section WithPerm.
Variable perm : nat -> bytes -> bytes.

(* ---- SIV ------------------------------------------------------------------- *)
(* pass 1: the AEAD data path over AD and plaintext (plaintext absorbed, not
   encrypted; no permutation after its padded last block), normal finalisation *)
Definition siv_tag (v : aead_variant) (K N A P : bytes) : bytes :=
  let v1 := siv_variant v 1 in
  let s := pre_state perm v1 K N A in
  let s := fst (spec_duplex bf_enc (perm (v_pb v)) (v_rate v) s P) in
  finalize perm v1 s K.
(* pass 2: state initialised with the tag as nonce; block i of the keystream is
   the rate part after i permutations *)
Definition siv_keystream (v : aead_variant) (K T : bytes) (n : nat) : bytes :=
  let s := init_state perm (siv_variant v 2) K T in
  spec_squeeze (perm (v_pb v)) (v_rate v) (perm (v_pb v) s) n.
Definition siv_encrypt (v : aead_variant) (K N A P : bytes) : bytes :=
  let T := siv_tag v K N A P in
  xorl P (siv_keystream v K T (length P)) ++ T.
Definition siv_decrypt (v : aead_variant) (K N A C : bytes) : option bytes :=
  if length C <? 16 then None
  else
    let n := length C - 16 in
    let T := skipn n C in
    let P := xorl (firstn n C) (siv_keystream v K T n) in
    if beq_bytes (siv_tag v K N A P) T then Some P else None.

(* ---- ISAP ------------------------------------------------------------------- *)
Definition isap_iv (iv : isap_variant) (kind : N) : bytes :=
  [kind; N.of_nat (i_klen iv * 8); 64; 1; N.of_nat (i_sH iv); N.of_nat (i_sB iv); N.of_nat (i_sE iv); N.of_nat (i_sK iv)]%N.
(* the pre-computed key states: p_K(K || IV_KE || 0..), p_K(K || IV_KA || 0..) *)
Definition isap_expand (iv : isap_variant) (K : bytes) (kind : N) : bytes :=
  perm (12 - i_sK iv) (K ++ isap_iv iv kind ++ zeros (40 - i_klen iv - 8)).
(* ISAP_RK after the key expansion: absorb the bits of y one at a time, p_B
   between them, p_K after the last *)
Fixpoint isap_absorb_bits (iv : isap_variant) (s : bytes) (bits : list bool) : bytes :=
  match bits with
  | [] => s
  | [b] => perm (12 - i_sK iv) (xor_at s 0 [if b then 0x80 else 0]%N)
  | b :: rest => isap_absorb_bits iv (perm (12 - i_sB iv) (xor_at s 0 [if b then 0x80 else 0]%N)) rest
  end.
Definition isap_rekey (iv : isap_variant) (pk : bytes) (y : bytes) : bytes :=
  isap_absorb_bits iv pk (bits_of y).
(* ISAP_ENC keystream: S = K_E* || N, then S_r after each p_E *)
Definition isap_keystream (iv : isap_variant) (ke : bytes) (N : bytes) (n : nat) : bytes :=
  let s := set_at (isap_rekey iv ke N) 24 N in
  spec_squeeze (perm (12 - i_sE iv)) 8 (perm (12 - i_sE iv) s) n.
(* ISAP_MAC *)
Definition isap_mac (iv : isap_variant) (ka : bytes) (N A C : bytes) : bytes :=
  let pH := perm (12 - i_sH iv) in
  let s := pH (N ++ isap_iv iv 1 ++ zeros 16) in
  let s := pH (fst (spec_duplex bf_enc pH 8 s A)) in
  let s := xor_at s 39 [1%N] in
  let s := pH (fst (spec_duplex bf_enc pH 8 s C)) in
  let y := firstn (i_klen iv) s in
  let s := set_at (isap_rekey iv ka y) (i_klen iv) (skipn (i_klen iv) s) in
  firstn 16 (pH s).
(* the pre-computed key is the pair (ke, ka) *)
Definition isap_encrypt (iv : isap_variant) (ke ka : bytes) (N A P : bytes) : bytes :=
  let c := xorl P (isap_keystream iv ke N (length P)) in
  c ++ isap_mac iv ka N A c.
Definition isap_decrypt (iv : isap_variant) (ke ka : bytes) (N A C : bytes) : option bytes :=
  if length C <? 16 then None
  else
    let n := length C - 16 in
    let c := firstn n C in
    if beq_bytes (isap_mac iv ka N A c) (skipn n C)
    then Some (xorl c (isap_keystream iv ke N n)) else None.

End WithPerm.
