(* Byte strings as lists of N (each < 256), big-endian words, xor on lists,
   and the three byte-range operations on a flat byte state. *)
From Coq Require Export List NArith Arith Lia Bool.
Export ListNotations.
Local Open Scope N_scope.

Notation byte := N (only parsing).
Notation bytes := (list N) (only parsing).

Definition bxor (a b : N) : N := N.lxor a b.

(* xor of two byte strings, truncated to the shorter one *)
Fixpoint xorl (a b : bytes) : bytes :=
  match a, b with
  | x :: a', y :: b' => N.lxor x y :: xorl a' b'
  | _, _ => []
  end.

(* xor [d] into [s] starting at offset [off]; bytes of [d] that would fall
   beyond the end of [s] are dropped (the C never does that; the models only
   call it in range and the theorems say so) *)
Fixpoint xor_at (s : bytes) (off : nat) (d : bytes) : bytes :=
  match s with
  | [] => []
  | x :: s' =>
    match off with
    | O => match d with
           | [] => s
           | y :: d' => N.lxor x y :: xor_at s' O d'
           end
    | S o => x :: xor_at s' o d
    end
  end.

(* overwrite *)
Fixpoint set_at (s : bytes) (off : nat) (d : bytes) : bytes :=
  match s with
  | [] => []
  | x :: s' =>
    match off with
    | O => match d with
           | [] => s
           | y :: d' => y :: set_at s' O d'
           end
    | S o => x :: set_at s' o d
    end
  end.

Definition get_at (s : bytes) (off n : nat) : bytes := firstn n (skipn off s).

Definition zeros (n : nat) : bytes := repeat 0 n.

(* big-endian *)
Definition be_decode (l : bytes) : N := fold_left (fun acc b => acc * 256 + b) l 0.

Fixpoint be_encode (n : nat) (x : N) : bytes :=
  match n with
  | O => []
  | S k => be_encode k (N.shiftr x 8) ++ [N.land x 255]
  end.

Definition is_byte (b : N) : bool := b <? 256.
Definition all_bytes (l : bytes) : bool := forallb is_byte l.

(* split a list into chunks of n (n > 0); the last chunk may be short; the
   empty list has no chunks.  Fuel = length l suffices. *)
Fixpoint chunks_fuel (fuel : nat) (n : nat) (l : bytes) : list bytes :=
  match fuel with
  | O => []
  | S f => match l with
           | [] => []
           | _ => firstn n l :: chunks_fuel f n (skipn n l)
           end
  end.
Definition chunks (n : nat) (l : bytes) : list bytes := chunks_fuel (length l) n l.

(* decidable equality of byte strings *)
Fixpoint beq_bytes (a b : bytes) : bool :=
  match a, b with
  | [], [] => true
  | x :: a', y :: b' => N.eqb x y && beq_bytes a' b'
  | _, _ => false
  end.

