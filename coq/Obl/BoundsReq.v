(* C12, kernel clause: what the regenerated verdict table (Gen/Bounds.v, tools/kern_bounds.py) MUST contain.
   Written by hand (like Obl/CtObl.v for C11) - NOT produced by the run: a configuration, a function or an
   argument value that the generator drops (a function that no longer compiles, a renamed file, an enumeration cut
   short), or a call it marks "out of contract" although Model/BoundsDefs.in_contract says otherwise, makes
   [bounds_required_ok] false instead of silently shrinking the table.

   One requirement = (configuration, function, control arguments, within contract?).  It is met when the table has an
   entry with exactly this configuration, function and argument record, whose generator flag and whose
   [in_contract] verdict both equal the hand-written flag, and - when within contract - whose run is not stuck. *)
From Coq Require Import List NArith String Bool Arith.
From AsconV Require Import Model.BoundsDefs.
Import ListNotations.
Local Open Scope string_scope.
Local Open Scope list_scope.

Definition cat (l : list string) : string := String.concat "" l.
Definition breq := (string * string * list (string * N) * bool)%type.

Definition d1 (n : nat) : string := match n with 2 => "2" | 3 => "3" | 4 => "4" | _ => "?" end.
Definition shares_upto (max : nat) : list nat := seq 2 (max - 1).
Definition maxes : list nat := [2; 3; 4]%nat.

(* argument classes with the hand-written contract flag *)
Definition no_args : list (list (string * N) * bool) := [([], true)].
Definition alias01 : list (list (string * N) * bool) := [([("alias", 0%N)], true); ([("alias", 1%N)], true)].
Definition obj_or_null : list (list (string * N) * bool) := [([], true); ([("null", 1%N)], true)].
Definition arg_range (k : string) (flags : list bool) : list (list (string * N) * bool) :=
  map (fun p => ([(k, N.of_nat (fst p))], snd p)) (combine (seq 0 (List.length flags)) flags).
Definition T := true. Definition F := false.
Definition size_1_7 := arg_range "size" [F; T; T; T; T; T; T; T; F].           (* load_partial: 0 and 8 are probes *)
Definition size_0_7 := arg_range "size" [T; T; T; T; T; T; T; T; F].           (* store_partial, replace: 8 is a probe *)
Definition offset_0_7 := arg_range "offset" [T; T; T; T; T; T; T; T; F].       (* pad *)
Definition rounds_0_12 := arg_range "first_round" [T; T; T; T; T; T; T; T; T; T; T; T; T; F].

Definition with_args (cfg fn : string) (cls : list (list (string * N) * bool)) : list breq :=
  map (fun p => (cfg, fn, fst p, snd p)) cls.

(* the masked-word toolkit of one file compiled with MAX_SHARES = max *)
Definition word_reqs (cfg : string) (max : nat) : list breq :=
  flat_map (fun k =>
    let f op := cat ["ascon_masked_word_x"; d1 k; "_"; op] in
    with_args cfg (f "zero") no_args ++ with_args cfg (f "load") no_args ++ with_args cfg (f "load_partial") size_1_7 ++
    with_args cfg (f "load_32") no_args ++ with_args cfg (f "store") no_args ++ with_args cfg (f "store_partial") size_0_7 ++
    with_args cfg (f "randomize") alias01 ++ with_args cfg (f "xor") no_args ++ with_args cfg (f "replace") size_0_7 ++
    flat_map (fun j => if Nat.eqb j k then [] else with_args cfg (f (cat ["from_x"; d1 j])) alias01) (shares_upto max))
    (shares_upto max) ++
  with_args cfg "ascon_masked_word_pad" offset_0_7 ++ with_args cfg "ascon_masked_word_separator" no_args.

Definition state_reqs (cfg : string) (max : nat) : list breq :=
  with_args cfg "ascon_masked_state_init" no_args ++ with_args cfg "ascon_masked_state_free" obj_or_null ++
  flat_map (fun k =>
    let f op := cat ["ascon_x"; d1 k; "_"; op] in
    with_args cfg (f "randomize") no_args ++ with_args cfg (f "copy_from_x1") no_args ++ with_args cfg (f "copy_to_x1") no_args ++
    flat_map (fun j => with_args cfg (f (cat ["copy_from_x"; d1 j])) alias01) (shares_upto max))
    (shares_upto max).

Definition key_reqs (cfg : string) : list breq :=
  flat_map (fun b =>
    let f op := cat ["ascon_masked_key_"; b; "_"; op] in
    with_args cfg (f "init") no_args ++ with_args cfg (f "free") obj_or_null ++ with_args cfg (f "randomize_with_trng") no_args ++
    with_args cfg (f "randomize") no_args ++ with_args cfg (f "extract") no_args) ["128"; "160"].

(* the incremental AEAD functions (audit 2, gap 7b): src/aead/ascon-aead-inc-{128,128a,80pq}.c on three state layouts, every object a
   region of exactly its documented size (state 80 bytes, key 16 / 20, nonce and tag 16, AD and chunks exactly the length passed).
     init    k, npub in {0 = NULL, 1 = a buffer}          reinit   additionally npub = 2: the object's own nonce field
     start   adlen in {0 (NULL), 1, rate-1, rate, rate+1, 2 rate+3}
     encrypt_block / decrypt_block   alias (out = in) x len (as adlen) x posn in {0, 1, rate-1}
     encrypt_finalize / decrypt_finalize   posn 0 .. rate-1          free   an object / NULL
   All of them are within contract (Model/BoundsDefs.in_contract knows no restriction for these names). *)
Definition inc_lens (r : nat) : list nat := [0; 1; r - 1; r; r + 1; 2 * r + 3]%nat.
Definition args1 (k : string) (v : list nat) : list (list (string * N) * bool) := map (fun a => ([(k, N.of_nat a)], true)) v.
Definition args2 (k1 : string) (v1 : list nat) (k2 : string) (v2 : list nat) : list (list (string * N) * bool) :=
  flat_map (fun a => map (fun b => ([(k1, N.of_nat a); (k2, N.of_nat b)], true)) v2) v1.
Definition args3 (k1 : string) (v1 : list nat) (k2 : string) (v2 : list nat) (k3 : string) (v3 : list nat) : list (list (string * N) * bool) :=
  flat_map (fun a => flat_map (fun b => map (fun c => ([(k1, N.of_nat a); (k2, N.of_nat b); (k3, N.of_nat c)], true)) v3) v2) v1.
Definition inc_alg_reqs (cfg alg : string) (rate : nat) : list breq :=
  let f op := cat [alg; "_aead_"; op] in
  with_args cfg (f "init") (args2 "k" [0; 1]%nat "npub" [0; 1]%nat) ++ with_args cfg (f "reinit") (args2 "k" [0; 1]%nat "npub" [0; 1; 2]%nat) ++
  with_args cfg (f "start") (args1 "adlen" (inc_lens rate)) ++
  flat_map (fun op => with_args cfg (f op) (args3 "alias" [0; 1]%nat "len" (inc_lens rate) "posn" [0; 1; rate - 1]%nat)) ["encrypt_block"; "decrypt_block"] ++
  flat_map (fun op => with_args cfg (f op) (args1 "posn" (seq 0 rate))) ["encrypt_finalize"; "decrypt_finalize"] ++
  with_args cfg (f "free") obj_or_null.
Definition inc_reqs (cfg : string) : list breq :=
  inc_alg_reqs cfg "ascon128" 8 ++ inc_alg_reqs cfg "ascon128a" 16 ++ inc_alg_reqs cfg "ascon80pq" 8.
Definition inc_required : list breq := flat_map (fun be => inc_reqs (cat ["aead-inc/"; be])) ["default"; "c32"; "directxor"].

Definition bounds_required : list breq :=
  (* word toolkits: 64-bit C, 32-bit C, direct-XOR word file, x86-64 assembly; MAX_SHARES 2, 3, 4 *)
  flat_map (fun tag => flat_map (fun max => word_reqs (cat [tag; "/max"; d1 max]) max) maxes) ["word-c64"; "word-c32"; "word-direct"; "word-x86_64"] ++
  (* masked permutations: N shares in a container of max >= N shares; first_round 0..12 and the probe 13 *)
  flat_map (fun be => flat_map (fun n => flat_map (fun max =>
      if Nat.leb n max then with_args (cat ["x"; d1 n; "-"; be; "/max"; d1 max]) (cat ["ascon_x"; d1 n; "_permute"]) rounds_0_12 else [])
    maxes) maxes) ["c64"; "c32"; "x86_64"] ++
  (* masked states over the three unmasked layouts *)
  flat_map (fun be => flat_map (fun max => state_reqs (cat ["state-"; be; "/max"; d1 max]) max) maxes) ["c64"; "c32"; "directxor"] ++
  (* masked keys: KEY_SHARES k <= MAX_SHARES *)
  flat_map (fun max => flat_map (fun k => key_reqs (cat ["key/key"; d1 k; "-max"; d1 max])) (shares_upto max)) maxes ++
  (* incremental AEAD functions, three state layouts *)
  inc_required.

(* ---- the check -------------------------------------------------------------------------------------------------- *)
Fixpoint args_eqb (a b : list (string * N)) : bool :=
  match a, b with
  | [], [] => true
  | (k, v) :: a', (k', v') :: b' => String.eqb k k' && N.eqb v v' && args_eqb a' b'
  | _, _ => false
  end.
Lemma args_eqb_eq : forall a b, args_eqb a b = true -> a = b.
Proof.
  induction a as [|[k v] a IH]; intros [|[k' v'] b] H; try discriminate H; [reflexivity|].
  cbn [args_eqb] in H. apply andb_true_iff in H. destruct H as [H H3]. apply andb_true_iff in H. destruct H as [H1 H2].
  apply String.eqb_eq in H1. apply N.eqb_eq in H2. subst. f_equal. now apply IH.
Qed.

(* [tolerated e]: the one pinned defect while Model/C12Config says the code is unfixed (false once it is fixed) *)
Definition breq_met (tolerated : bentry -> bool) (tab : list bentry) (q : breq) : bool :=
  let '(cfg, fn, args, valid) := q in
  Bool.eqb (in_contract fn args) valid &&
  existsb (fun e => if String.eqb (be_config e) cfg then if String.eqb (be_function e) fn then
                      args_eqb (be_args e) args && Bool.eqb (be_valid e) valid && (negb valid || verdict_ok (be_verdict e) || tolerated e)
                    else false else false) tab.

Lemma breq_met_sound tol tab cfg fn args valid : breq_met tol tab (cfg, fn, args, valid) = true ->
  in_contract fn args = valid /\
  exists e, In e tab /\ be_config e = cfg /\ be_function e = fn /\ be_args e = args /\ be_valid e = valid /\
            (valid = true -> verdict_ok (be_verdict e) = true \/ tol e = true).
Proof.
  unfold breq_met. intros H. apply andb_true_iff in H. destruct H as [HC H].
  split; [now apply Bool.eqb_prop|].
  apply existsb_exists in H. destruct H as [e [I H]].
  destruct (String.eqb (be_config e) cfg) eqn:H1; [|discriminate H].
  destruct (String.eqb (be_function e) fn) eqn:H2; [|discriminate H].
  apply andb_true_iff in H. destruct H as [H H5]. apply andb_true_iff in H. destruct H as [H3 H4].
  exists e. split; [exact I|]. apply String.eqb_eq in H1. apply String.eqb_eq in H2. apply args_eqb_eq in H3. apply Bool.eqb_prop in H4.
  repeat split; try assumption. intros V. subst valid. rewrite V in H5. cbn in H5.
  apply orb_true_iff in H5. exact H5.
Qed.

(* the converse direction: nothing in the table is outside the hand-written list (a new function or configuration
   must be added to [bounds_required] by hand) *)
Definition bentry_listed (reqs : list breq) (e : bentry) : bool :=
  existsb (fun q => let '(cfg, fn, args, _) := q in
                    if String.eqb (be_config e) cfg then if String.eqb (be_function e) fn then args_eqb (be_args e) args else false else false) reqs.

(* boolean membership in a requirement list (within-contract entries) *)
Definition breq_in (cfg fn : string) (args : list (string * N)) (l : list breq) : bool :=
  existsb (fun q => let '(c, f, a, v) := q in String.eqb c cfg && String.eqb f fn && args_eqb a args && v) l.

Example bounds_required_size : List.length bounds_required = 2491%nat.
Proof. vm_compute. reflexivity. Qed.
