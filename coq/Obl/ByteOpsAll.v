(* The byte-range obligations of all host backends (C08): per backend the tables of tools/kern_byteops.py
   (Gen/ByteOpsObl_<backend>_<operation>.v, each checked there by vm_compute) collected into one function of the
   operation, and the per-backend consequence of Obl/ByteOps.bo_table_sound. *)
From Coq Require Import List Arith Bool.
From AsconV Require Import Sym.Wexpr Sym.Pipe Sym.Kernel Sym.Canon Obl.ByteOps.
From AsconV Require Import Gen.ByteOpsObl_x86_64_add Gen.ByteOpsObl_x86_64_overwrite Gen.ByteOpsObl_x86_64_zero Gen.ByteOpsObl_x86_64_extract Gen.ByteOpsObl_x86_64_extract_add Gen.ByteOpsObl_x86_64_extract_add_inplace Gen.ByteOpsObl_x86_64_extract_overwrite Gen.ByteOpsObl_x86_64_extract_overwrite_inplace.
From AsconV Require Import Gen.ByteOpsObl_c64_add Gen.ByteOpsObl_c64_overwrite Gen.ByteOpsObl_c64_zero Gen.ByteOpsObl_c64_extract Gen.ByteOpsObl_c64_extract_add Gen.ByteOpsObl_c64_extract_add_inplace Gen.ByteOpsObl_c64_extract_overwrite Gen.ByteOpsObl_c64_extract_overwrite_inplace.
From AsconV Require Import Gen.ByteOpsObl_c32_add Gen.ByteOpsObl_c32_overwrite Gen.ByteOpsObl_c32_zero Gen.ByteOpsObl_c32_extract Gen.ByteOpsObl_c32_extract_add Gen.ByteOpsObl_c32_extract_add_inplace Gen.ByteOpsObl_c32_extract_overwrite Gen.ByteOpsObl_c32_extract_overwrite_inplace.
From AsconV Require Import Gen.ByteOpsObl_directxor_add Gen.ByteOpsObl_directxor_overwrite Gen.ByteOpsObl_directxor_zero Gen.ByteOpsObl_directxor_extract Gen.ByteOpsObl_directxor_extract_add Gen.ByteOpsObl_directxor_extract_add_inplace Gen.ByteOpsObl_directxor_extract_overwrite Gen.ByteOpsObl_directxor_extract_overwrite_inplace.
From AsconV Require Import Gen.ByteOpsObl_generic_add Gen.ByteOpsObl_generic_overwrite Gen.ByteOpsObl_generic_zero Gen.ByteOpsObl_generic_extract Gen.ByteOpsObl_generic_extract_add Gen.ByteOpsObl_generic_extract_add_inplace Gen.ByteOpsObl_generic_extract_overwrite Gen.ByteOpsObl_generic_extract_overwrite_inplace.

Definition byteops_x86_64 (op : bop) : list bo_case :=
  match op with
  | BAdd => bo_x86_64_add
  | BOverwrite => bo_x86_64_overwrite
  | BZero => bo_x86_64_zero
  | BExtract => bo_x86_64_extract
  | BExtractAdd => bo_x86_64_extract_add
  | BExtractAddInplace => bo_x86_64_extract_add_inplace
  | BExtractOverwrite => bo_x86_64_extract_overwrite
  | BExtractOverwriteInplace => bo_x86_64_extract_overwrite_inplace
  end.
Lemma byteops_x86_64_ok : forallb (fun op => bo_table_ok KL64 op (byteops_x86_64 op)) all_bops = true.
Proof.
  cbn [all_bops forallb byteops_x86_64]. rewrite bo_x86_64_add_ok, bo_x86_64_overwrite_ok, bo_x86_64_zero_ok, bo_x86_64_extract_ok, bo_x86_64_extract_add_ok, bo_x86_64_extract_add_inplace_ok, bo_x86_64_extract_overwrite_ok, bo_x86_64_extract_overwrite_inplace_ok. reflexivity.
Qed.

Definition byteops_c64 (op : bop) : list bo_case :=
  match op with
  | BAdd => bo_c64_add
  | BOverwrite => bo_c64_overwrite
  | BZero => bo_c64_zero
  | BExtract => bo_c64_extract
  | BExtractAdd => bo_c64_extract_add
  | BExtractAddInplace => bo_c64_extract_add_inplace
  | BExtractOverwrite => bo_c64_extract_overwrite
  | BExtractOverwriteInplace => bo_c64_extract_overwrite_inplace
  end.
Lemma byteops_c64_ok : forallb (fun op => bo_table_ok KL64 op (byteops_c64 op)) all_bops = true.
Proof.
  cbn [all_bops forallb byteops_c64]. rewrite bo_c64_add_ok, bo_c64_overwrite_ok, bo_c64_zero_ok, bo_c64_extract_ok, bo_c64_extract_add_ok, bo_c64_extract_add_inplace_ok, bo_c64_extract_overwrite_ok, bo_c64_extract_overwrite_inplace_ok. reflexivity.
Qed.

Definition byteops_c32 (op : bop) : list bo_case :=
  match op with
  | BAdd => bo_c32_add
  | BOverwrite => bo_c32_overwrite
  | BZero => bo_c32_zero
  | BExtract => bo_c32_extract
  | BExtractAdd => bo_c32_extract_add
  | BExtractAddInplace => bo_c32_extract_add_inplace
  | BExtractOverwrite => bo_c32_extract_overwrite
  | BExtractOverwriteInplace => bo_c32_extract_overwrite_inplace
  end.
Lemma byteops_c32_ok : forallb (fun op => bo_table_ok KL32 op (byteops_c32 op)) all_bops = true.
Proof.
  cbn [all_bops forallb byteops_c32]. rewrite bo_c32_add_ok, bo_c32_overwrite_ok, bo_c32_zero_ok, bo_c32_extract_ok, bo_c32_extract_add_ok, bo_c32_extract_add_inplace_ok, bo_c32_extract_overwrite_ok, bo_c32_extract_overwrite_inplace_ok. reflexivity.
Qed.

Definition byteops_directxor (op : bop) : list bo_case :=
  match op with
  | BAdd => bo_directxor_add
  | BOverwrite => bo_directxor_overwrite
  | BZero => bo_directxor_zero
  | BExtract => bo_directxor_extract
  | BExtractAdd => bo_directxor_extract_add
  | BExtractAddInplace => bo_directxor_extract_add_inplace
  | BExtractOverwrite => bo_directxor_extract_overwrite
  | BExtractOverwriteInplace => bo_directxor_extract_overwrite_inplace
  end.
Lemma byteops_directxor_ok : forallb (fun op => bo_table_ok KL8 op (byteops_directxor op)) all_bops = true.
Proof.
  cbn [all_bops forallb byteops_directxor]. rewrite bo_directxor_add_ok, bo_directxor_overwrite_ok, bo_directxor_zero_ok, bo_directxor_extract_ok, bo_directxor_extract_add_ok, bo_directxor_extract_add_inplace_ok, bo_directxor_extract_overwrite_ok, bo_directxor_extract_overwrite_inplace_ok. reflexivity.
Qed.

Definition byteops_generic (op : bop) : list bo_case :=
  match op with
  | BAdd => bo_generic_add
  | BOverwrite => bo_generic_overwrite
  | BZero => bo_generic_zero
  | BExtract => bo_generic_extract
  | BExtractAdd => bo_generic_extract_add
  | BExtractAddInplace => bo_generic_extract_add_inplace
  | BExtractOverwrite => bo_generic_extract_overwrite
  | BExtractOverwriteInplace => bo_generic_extract_overwrite_inplace
  end.
Lemma byteops_generic_ok : forallb (fun op => bo_table_ok KL8 op (byteops_generic op)) all_bops = true.
Proof.
  cbn [all_bops forallb byteops_generic]. rewrite bo_generic_add_ok, bo_generic_overwrite_ok, bo_generic_zero_ok, bo_generic_extract_ok, bo_generic_extract_add_ok, bo_generic_extract_add_inplace_ok, bo_generic_extract_overwrite_ok, bo_generic_extract_overwrite_inplace_ok. reflexivity.
Qed.

(* a backend whose eight tables check: every operation, every (offset, size) that fits *)
Theorem byteops_sound L tables : forallb (fun op => bo_table_ok L op (tables op)) all_bops = true -> byteops_correct L tables.
Proof.
  intros H op off size Hos. rewrite forallb_forall in H. exact (bo_table_sound L op (tables op) (H op (in_all_bops op)) off size Hos).
Qed.
Theorem byteops_count L tables : forallb (fun op => bo_table_ok L op (tables op)) all_bops = true -> forall op, length (tables op) = 861.
Proof. intros H op. rewrite forallb_forall in H. exact (bo_table_length L op (tables op) (H op (in_all_bops op))). Qed.
