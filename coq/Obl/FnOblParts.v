(* fn_obl lists checked in parts: each generated group file (Gen/MW2_*.v) proves `forallb fn_obl_ok part = true`
   on its own (so make checks the groups in parallel); the soundness statement is about the concatenation. *)
From Coq Require Import List Arith Bool. Import ListNotations.
From AsconV Require Import Sym.Wexpr Sym.Pipe Obl.FnObl.

Fixpoint fparts_ok (parts : list (list fn_obl)) : Prop :=
  match parts with
  | [] => True
  | p :: rest => forallb fn_obl_ok p = true /\ fparts_ok rest
  end.

Lemma fparts_ok_concat : forall parts, fparts_ok parts -> forallb fn_obl_ok (concat parts) = true.
Proof.
  induction parts as [|p rest IH]; intros H; [reflexivity|].
  cbn [fparts_ok] in H. destruct H as [H1 H2]. cbn [concat]. rewrite forallb_app, H1, (IH H2). reflexivity.
Qed.

Theorem fn_obl_sound_parts (parts : list (list fn_obl)) : fparts_ok parts ->
  forall o, In o (concat parts) -> fn_meets_std o.
Proof. intros H. exact (fn_obl_sound (concat parts) (fparts_ok_concat parts H)). Qed.

Theorem table_sound_parts parts reqs : fparts_ok parts -> covers (concat parts) reqs = true -> table_correct (concat parts) reqs.
Proof. intros H C. exact (table_sound (concat parts) reqs (fparts_ok_concat parts H) C). Qed.
