(* C18: obligations over the regenerated ABI table of the x86-64 files (Gen/AbiX86.v, tools/abi_x86.py):
   each is one vm_compute over the table produced from /repo's current files on this run. *)
From Coq Require Import List Arith Bool String. Import ListNotations.
From AsconV Require Import Obl.AbiDefs Gen.AbiX86.

Lemma abi_table_ok : forallb abi_entry_ok abi_entries = true.
Proof. vm_compute. reflexivity. Qed.

Lemma abi_rows_ok : forall e, In e abi_entries ->
  ae_finished e = true /\ ae_callee_saved_ok e = true /\ ae_rsp_ok e = true /\ ae_ret_ok e = true /\ ae_in_region e = true /\
  ae_frame_bytes e <= frame_bound /\ ae_stack_above e = 0 /\
  forall r, In r (ae_regions e) -> ru_hi r <= ru_size r.
Proof. intros e H. apply abi_entry_ok_spec. exact (proj1 (forallb_forall _ _) abi_table_ok e H). Qed.

Lemma abi_cover_ok : globals_covered abi_globals abi_entries && rounds_covered abi_perms abi_entries = true.
Proof. vm_compute. reflexivity. Qed.

(* the files and entry points the table must contain (fails if a file or a MAX_SHARES profile disappears) *)
Local Open Scope string_scope.
Definition expected_perms : list (string * string * string) := [
  ("src/core/ascon-asm-x86-64.S", "default", "ascon_permute");
  ("src/masking/ascon-x2-asm-x86-64.S", "max4", "ascon_x2_permute");
  ("src/masking/ascon-x2-asm-x86-64.S", "max3", "ascon_x2_permute");
  ("src/masking/ascon-x2-asm-x86-64.S", "max2", "ascon_x2_permute");
  ("src/masking/ascon-x3-asm-x86-64.S", "max4", "ascon_x3_permute");
  ("src/masking/ascon-x3-asm-x86-64.S", "max3", "ascon_x3_permute");
  ("src/masking/ascon-x4-asm-x86-64.S", "max4", "ascon_x4_permute")].
Definition trip_eqb (a b : string * string * string) : bool :=
  let '(a1, a2, a3) := a in let '(b1, b2, b3) := b in String.eqb a1 b1 && String.eqb a2 b2 && String.eqb a3 b3.
Definition expected_present : bool :=
  forallb (fun g => existsb (trip_eqb g) abi_perms) expected_perms &&
  existsb (fun g => String.eqb (fst (fst g)) "src/masking/ascon-word-asm-x86-64.S") abi_globals.
Lemma abi_expected_ok : expected_present = true.
Proof. vm_compute. reflexivity. Qed.
