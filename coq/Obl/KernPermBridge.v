(* The kernel theorems (Obl/KernPerm.v) stated against the N-level specification Spec.Perm.perm:
   every backend whose obligations check computes, through the canonical byte view of its memory
   image, Spec.Perm.perm first_round of the canonical bytes (Sym/Bridge.v: bridge_perm). *)
From Coq Require Import List NArith Arith Bool Lia. Import ListNotations.
From AsconV Require Import Sym.Wexpr Sym.Pipe Sym.Kernel Sym.KernelP Sym.Canon Obl.KernPerm Sym.Bridge.
From AsconV Require Spec.Perm.

Theorem backend_perm L segs chains : backend_ok L segs chains = true ->
  forall k, k <= 12 -> exists idx, In (k, idx) chains /\
  forall m oo s, widths_of m = mem_widths -> widths_of oo = entry_others (chain_of segs idx) ->
    length s = 40 -> Forall (fun b => (b < 256)%N) s -> pexec BoolAlg (view L) m = map (bits 8) s ->
    pexec BoolAlg (view L) (run_chain (chain_of segs idx) (m ++ oo)) = map (bits 8) (Spec.Perm.perm k s).
Proof.
  intros H k Hk. destruct (backend_canonical L segs chains H k Hk) as [idx [I E]]. exists idx. split; [exact I|].
  intros m oo s Wm Wo HL Hs V. rewrite (E m oo Wm Wo), V. now apply bridge_perm.
Qed.
