(* C09, acquire/release clause: what is checked, by one vm_compute per back
   end (Obl/SkelObl_<backend>.v), over the regenerated skeleton tables
   (Gen/Skeleton_<backend>.v, tools/skeleton.py: all 16 share configurations,
   produced from /repo's current source on this run), and what follows. *)
From Coq Require Import List Arith Bool String. Import ListNotations.
From AsconV Require Import Model.Skel Model.C09Config Proofs.SkelP.
From AsconV Require Gen.Skeleton_cpp.

(* public functions whose documented contract is not "released on entry,
   released on return".  The four primitives themselves (ascon_init,
   ascon_acquire, ascon_release, ascon_free; src/ascon/permutation.h) are the
   EVENTS of the model, not table entries; their behaviour is [step].  No other
   function declared in src/ascon/STAR.h has a different contract on the
   current tree, so the list of table functions excused from balance is empty:
   a public function that stops being balanced makes the theorems fail. *)
Definition excused : list string := [].

Definition data_ok (c : config) : bool := fix_masked_x1_nesting || negb (Nat.eqb (cfg_data c) 1).

Definition replay_fuel : nat := 20 * 1000.

(* some public function of the configuration has a replayable path from the
   clear flag that aborts or returns with the flag held *)
Definition refuted (c : config) : bool :=
  existsb (fun fw => mem_str (fst fw) (cfg_public c) && bad_path (cfg_table c) replay_fuel (fst fw) (snd fw)) (cfg_unbalanced c).

(* internal functions whose documented contract is "clear on entry, ACQUIRED on return"
   (src/masking/ascon-masked-state.h: "The dest must be released and freed before this
   operation as it will be initialized by the process"); entered with the flag held
   they abort.  Functions absent from a configuration (x3/x4 with fewer maximum
   shares) are skipped. *)
Local Open Scope string_scope.
Definition acquires : summary :=
  mksum (mkbeh (mkfs false true) false) (mkbeh fs_empty true).
Definition documented : list (string * summary) :=
  [("ascon_x2_copy_to_x1", acquires); ("ascon_x3_copy_to_x1", acquires); ("ascon_x4_copy_to_x1", acquires)].

Definition config_checked (c : config) : bool :=
  let T := cfg_table c in
  if data_ok c then
    let S := summarize T in
    check_with T S (cfg_public c) excused && contracts_part T S documented
  else refuted c.

(* the C++ layer mentions only public functions *)
Definition cpp_checked (c : config) : bool :=
  forallb (fun f => implb (defined_in (cfg_table c) f) (mem_str f (cfg_public c))) Skeleton_cpp.cpp_called.

Definition all_checked (cs : list config) : bool :=
  forallb (fun c => config_checked c && cpp_checked c) cs && Nat.eqb (List.length cs) 16.

Lemma all_checked_in : forall cs c, all_checked cs = true -> In c cs -> config_checked c = true /\ cpp_checked c = true.
Proof.
  intros cs c H Hin. unfold all_checked in H. apply andb_true_iff in H. destruct H as [H _].
  rewrite forallb_forall in H. specialize (H c Hin). apply andb_true_iff in H. exact H.
Qed.

Lemma balanced_of_checked : forall cs, all_checked cs = true ->
  forall c, In c cs -> data_ok c = true -> forall f, In f (cfg_public c) -> api_balanced (cfg_table c) f.
Proof.
  intros cs H c Hin Hd f Hf. destruct (all_checked_in cs c H Hin) as [Hc _].
  unfold config_checked in Hc. rewrite Hd in Hc. cbv zeta in Hc. apply andb_true_iff in Hc. destruct Hc as [Hc _].
  apply (balanced_sound_with (cfg_table c) _ (cfg_public c) excused Hc f Hf). reflexivity.
Qed.

Lemma documented_of_checked : forall cs, all_checked cs = true ->
  forall c, In c cs -> data_ok c = true ->
  forall f s, In (f, s) documented -> lookup (cfg_table c) f <> None -> has_summary (cfg_table c) f s.
Proof.
  intros cs H c Hin Hd. destruct (all_checked_in cs c H Hin) as [Hc _].
  unfold config_checked in Hc. rewrite Hd in Hc. cbv zeta in Hc. apply andb_true_iff in Hc. destruct Hc as [Hc Hdoc].
  apply (contracts_sound_with (cfg_table c) _ documented (check_with_inductive _ _ _ _ Hc) Hdoc).
Qed.

Lemma refuted_of_checked : forall cs, all_checked cs = true ->
  forall c, In c cs -> data_ok c = false -> exists f, In f (cfg_public c) /\ ~ api_balanced (cfg_table c) f.
Proof.
  intros cs H c Hin Hd. destruct (all_checked_in cs c H Hin) as [Hc _].
  unfold config_checked in Hc. rewrite Hd in Hc. unfold refuted in Hc.
  apply existsb_exists in Hc. destruct Hc as [[f w] [_ Hb]]. cbn [fst snd] in Hb.
  apply andb_true_iff in Hb. destruct Hb as [Hp Hb].
  exists f. split; [apply mem_str_in; exact Hp | apply (bad_path_refutes _ _ _ _ Hb)].
Qed.

(* every library function the C++ layer mentions that has a skeleton in the
   configuration is balanced, hence (client_safe) any C++ member function,
   whatever its control flow, is safe to call with the flag clear and leaves
   it clear *)
Lemma cpp_of_checked : forall cs, all_checked cs = true ->
  forall c, In c cs -> data_ok c = true ->
  forall s t o, only_calls (filter (defined_in (cfg_table c)) Skeleton_cpp.cpp_called) s = true ->
  run (cfg_table c) s t o -> exists q, exec Clear t = Some q /\ (o <> OStop -> q = Clear).
Proof.
  intros cs H c Hin Hd s t o Hoc Hrun. destruct (all_checked_in cs c H Hin) as [_ Hcpp].
  assert (Hbal : forall f, In f (filter (defined_in (cfg_table c)) Skeleton_cpp.cpp_called) -> api_balanced (cfg_table c) f).
  { intros f Hf. apply filter_In in Hf. destruct Hf as [Hf Hdef].
    unfold cpp_checked in Hcpp. rewrite forallb_forall in Hcpp. specialize (Hcpp f Hf). rewrite Hdef in Hcpp. cbn [implb] in Hcpp.
    apply (balanced_of_checked cs H c Hin Hd). apply mem_str_in. exact Hcpp. }
  exact (client_safe _ _ Hbal s t o Hrun Hoc).
Qed.
