(* Obligations for the masked permutation kernels (C10): regenerated from /repo on every run
   (Gen/Masked_*.v).  For every share value and every random word the value of the output
   shares is the ASCON rounds of the value of the input shares. *)
From Coq Require Import List Arith Bool Lia. Import ListNotations.
From AsconV Require Import Sym.Wexpr Sym.Pipe Sym.Kernel Sym.KernelP Sym.VKernel Obl.MWordSpec.

Definition dummy_vseg : vseg := {| vs_prog := {| p_body := []; p_outs := [] |}; vs_in := 0; vs_out := 0; vs_rounds := [] |}.
Definition vchain_of (segs : list vseg) (idx : list nat) : list vseg := map (fun i => nth i segs dummy_vseg) idx.

(* the entry interface is the masked state and the preserved randomness in memory (plus, for assembly,
   the registers on entry); the exit interface is the memory alone *)
Definition vchain_ok (ein eout : nat) (segs : list vseg) (kc : nat * list nat) : bool :=
  forallb (fun i => i <? length segs) (snd kc) &&
  vlinks ein (vchain_of segs (snd kc)) && Nat.eqb (vlast ein (vchain_of segs (snd kc))) eout &&
  nat_list_eqb (concat (map vs_rounds (vchain_of segs (snd kc)))) (seq (fst kc) (12 - fst kc)).
Definition vbackend_ok (ifs : list viface) (ein eout : nat) (segs : list vseg) (chains : list (nat * list nat)) : bool :=
  forallb (check_vseg ifs) segs && forallb (vchain_ok ein eout segs) chains && nat_list_eqb (map fst chains) (seq 0 13).

(* for every first_round k <= 12: whatever the shares and the random words (and, for assembly, the entry
   registers) are, the unmasked value of the masked state after the translated ascon_xN_permute is
   rounds k..11 of its unmasked value before *)
Theorem vbackend_sound ifs ein eout segs chains : vbackend_ok ifs ein eout segs chains = true ->
  forall k, k <= 12 -> exists idx, In (k, idx) chains /\
  forall v, widths_of v = vi_w (vif ifs ein) ->
  run BoolAlg (vrun_chain (vchain_of segs idx) v) (vi_val (vif ifs eout)) =
  pexec BoolAlg (rounds_pipe KL64 (seq k (12 - k))) (run BoolAlg v (vi_val (vif ifs ein))).
Proof.
  unfold vbackend_ok. intros H k Hk. apply andb_true_iff in H. destruct H as [H HK].
  apply andb_true_iff in H. destruct H as [HS HC]. apply nat_list_eqb_eq in HK.
  assert (I : In k (map fst chains)) by (rewrite HK; apply in_seq; lia).
  apply in_map_iff in I. destruct I as [[k' idx] [E I]]. cbn in E. subst k'.
  exists idx. split; [exact I|]. intros v Wv.
  rewrite forallb_forall in HC. specialize (HC (k, idx) I). unfold vchain_ok in HC. cbn [fst snd] in HC.
  apply andb_true_iff in HC. destruct HC as [HC H4]. apply andb_true_iff in HC. destruct HC as [HC H3].
  apply andb_true_iff in HC. destruct HC as [H1 H2].
  apply nat_list_eqb_eq in H4. apply Nat.eqb_eq in H3. rewrite <- H4.
  assert (SC : forallb (check_vseg ifs) (vchain_of segs idx) = true).
  { unfold vchain_of. rewrite forallb_forall. intros s Hs. apply in_map_iff in Hs. destruct Hs as [i [Ei Ii]]. subst s.
    rewrite forallb_forall in H1. specialize (H1 i Ii). apply Nat.ltb_lt in H1.
    rewrite forallb_forall in HS. apply HS. now apply nth_In. }
  pose proof (vchain_sound ifs (vchain_of segs idx) ein SC H2 v Wv) as T. rewrite H3 in T. exact T.
Qed.

(* ---- the value programs of the entry and exit interfaces are the hand-written ones -------------------------------
   The interfaces (with their value programs) are written by the translator.  Those of the cut points are internal to
   the proof, but the ENTRY and EXIT value programs are part of the statement above: they say what "the unmasked
   value of the masked state in memory" is.  [vstd_ok] checks that both are, syntactically, Obl/MWordSpec.state_val
   (un-rotate share j of each of the five words by 11 j - 32-bit backend: each half by 5 j, then interleave - and
   XOR), that the entry interface begins with the 5 x 8 max state bytes and the 8 (n-1) preserved bytes (assembly
   adds the entry registers behind them) and that the exit interface is exactly those bytes.  be, n, max are written
   by hand in Props/Properties_C10*.v. *)
Definition vstd_ok (be : mbackend) (n max : nat) (ifs : list viface) (ein eout : nat) : bool :=
  prog_eqb (vi_val (vif ifs ein)) (state_val be n max) && prog_eqb (vi_val (vif ifs eout)) (state_val be n max) &&
  nat_list_eqb (firstn (state_bytes n max) (vi_w (vif ifs ein))) (repeat 8 (state_bytes n max)) &&
  nat_list_eqb (vi_w (vif ifs eout)) (repeat 8 (state_bytes n max)) && Nat.leb 2 n && Nat.leb n max.

Definition masked_perm_std (be : mbackend) (n max : nat) (ifs : list viface) (ein eout : nat) (segs : list vseg)
                           (chains : list (nat * list nat)) : Prop :=
  firstn (state_bytes n max) (vi_w (vif ifs ein)) = repeat 8 (state_bytes n max) /\
  vi_w (vif ifs eout) = repeat 8 (state_bytes n max) /\
  forall k, k <= 12 -> exists idx, In (k, idx) chains /\
  forall v, widths_of v = vi_w (vif ifs ein) ->
  run BoolAlg (vrun_chain (vchain_of segs idx) v) (state_val be n max) =
  pexec BoolAlg (rounds_pipe KL64 (seq k (12 - k))) (run BoolAlg v (state_val be n max)).

Theorem vbackend_sound_std be n max ifs ein eout segs chains :
  vbackend_ok ifs ein eout segs chains = true -> vstd_ok be n max ifs ein eout = true ->
  masked_perm_std be n max ifs ein eout segs chains.
Proof.
  intros HB HS. unfold vstd_ok in HS.
  apply andb_true_iff in HS. destruct HS as [HS _]. apply andb_true_iff in HS. destruct HS as [HS _].
  apply andb_true_iff in HS. destruct HS as [HS W2]. apply andb_true_iff in HS. destruct HS as [HS W1].
  apply andb_true_iff in HS. destruct HS as [V1 V2].
  apply prog_eqb_eq in V1. apply prog_eqb_eq in V2. apply nat_list_eqb_eq in W1. apply nat_list_eqb_eq in W2.
  split; [exact W1|]. split; [exact W2|].
  intros k Hk. destruct (vbackend_sound ifs ein eout segs chains HB k Hk) as [idx [I T]].
  exists idx. split; [exact I|]. intros v Wv. specialize (T v Wv). rewrite V1, V2 in T. exact T.
Qed.
